import Driver.Util
import Driver.Engines.Framing
import Bifrost.Model.Incoming
namespace Driver.Incoming
open Bifrost Bifrost.Framing Bifrost.Incoming Driver

def parseLookup : String → Option Lookup
  | "nohandler" => some .noHandler
  | "deadline" => some .deadline
  | "resolvererr" => some .resolverErr
  | "wrongtype" => some .wrongType
  | "accepts" => some .accepts
  | "handlererr" => some .handlerErr
  | _ => none

def parseOpenEnv (s : String) : Option OpenEnv :=
  match s.splitOn ":" with
  | ["openerr"] => some .openErr
  | ["full"] => some (.opened .full)
  | ["fail", n] => n.toNat?.map fun k => .opened (.fail k)
  | ["short", n] => n.toNat?.map fun k => .opened (.short k)
  | _ => none

def b01 (b : Bool) : String := if b then "1" else "0"

def showDirective : Option Directive → String
  | none => "none"
  | some d => s!"{hexOrDash d.protocolID}/{hexOrDash d.localPeerID}/{hexOrDash d.remotePeerID}"

/-- pid/streamPeer/linkLocal/linkRemote/uuid/unread/deadlineArmed -/
def showFacts : Option Facts → String
  | none => "none"
  | some f => s!"{hexOrDash f.pid}/{hexOrDash f.streamPeer}/{hexOrDash f.linkLocal}/{hexOrDash f.linkRemote}/{f.linkUUID}/{hexOrDash f.unread}/{b01 f.deadlineArmed}"

def handle (op : String) (args : List String) : Option String :=
  match op with
  | "handle" => do
    let max ← kvNat args "max"
    let lp ← kvBytes args "local"
    let rp ← kvBytes args "remote"
    let uuid ← kvNat args "uuid"
    let env ← (kv args "env").bind parseLookup
    let chunks ← kvBytesList args "chunks"
    let last := Driver.Framing.kvLast args
    let o := handleIncomingStreamE max ⟨lp, rp, uuid⟩ chunks last env
    -- which branch of the model the case took (for the engine's coverage requirements)
    let br := match readHeaderE max chunks last with
      | .ok _ => "ok"
      | .error e => Driver.Framing.errName e
    some s!"disp={showDirective o.dispatched} deliv={showFacts o.delivered} closed={b01 o.closed} br={br}"
  | "open" => do
    let lp ← kvBytes args "local"
    let rp ← kvBytes args "remote"
    let uuid ← kvNat args "uuid"
    let pid ← kvBytes args "pid"
    let env ← (kv args "wr").bind parseOpenEnv
    let o := openMountedStream (newMountedLink ⟨lp, rp, uuid⟩) pid env
    some s!"opened={b01 o.opened} written={hexOrDash o.written} mounted={showFacts o.mounted} closed={b01 o.closed}"
  | _ => none

end Driver.Incoming
