import Driver.Util
import Bifrost.Model.Framing
import Bifrost.Model.Packets
namespace Driver.Framing
open Bifrost Bifrost.Framing Bifrost.Packets Driver

def errName : HdrErr → String
  | .io => "io" | .badPrefix => "badPrefix" | .badLen => "badLen"
  | .badProto => "badProto" | .badPid => "badPid"

def endName : End → String
  | .eof => "eof" | .unexpectedEof => "ueof" | .zeroLen => "zero" | .tooLarge => "large" | .fuel => "fuel"

def totalLen (r : Reader) : Nat := (r.map List.length).sum

def showReads (l : List (Bytes × Bool)) : String :=
  if l.isEmpty then "_" else ",".intercalate (l.map fun (b, s) => hexOrDash b ++ (if s then "!" else ""))

def handle (op : String) (args : List String) : Option String :=
  match op with
  | "hdr" => do
    let max ← kvNat args "max"
    let chunks ← kvBytesList args "chunks"
    match readHeader max chunks with
    | .ok (pid, r, alloc) => some s!"ok pid={hexOrDash pid} rest={hexOrDash r.flatten} alloc={alloc}"
    | .error e => some s!"err {errName e}"
  | "marshal" => do
    let pid ← kvBytes args "pid"
    some s!"ok {hexOrDash (marshalHeader pid)}"
  | "utf8" => do
    let b ← kvBytes args "b"
    some (if Utf8.valid b then "ok 1" else "ok 0")
  | "pkt" => do
    let max ← kvNat args "max"
    let chunks ← kvBytesList args "chunks"
    let bufs ← kvNatList args "bufs"
    let (ps, e) := rxPump max (totalLen chunks + 1) chunks
    -- ReadFrom with the given buffer sizes (cyclic: missing sizes mean "large enough")
    let reads := (ps.zipIdx).map fun (p, i) => readFrom (bufs.getD i 1000000000) p
    some s!"pkts={showReads reads} end={endName e}"
  | "sess" => do
    let max ← kvNat args "max"
    let chunks ← kvBytesList args "chunks"
    let (ps, e) := recvMsgs max (totalLen chunks + 1) chunks
    some s!"msgs={showBytesList ps} end={endName e}"
  | "frame" => do
    let p ← kvBytes args "p"
    some s!"ok {hexOrDash (frame p)}"
  | "conn" => do
    let k ← kvNat args "k"
    let chunks ← kvBytesList args "chunks"
    let bufs ← kvNatList args "bufs"
    let q := connPump k chunks
    some s!"reads={showReads (connReads q bufs)} queued={q.length}"
  | _ => none

end Driver.Framing
