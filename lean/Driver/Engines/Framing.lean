import Driver.Util
import Bifrost.Model.Framing
import Bifrost.Model.Packets
import Bifrost.Model.PacketsEnd
namespace Driver.Framing
open Bifrost Bifrost.Framing Bifrost.Packets Driver

def errName : HdrErr → String
  | .io => "io" | .badPrefix => "badPrefix" | .badLen => "badLen"
  | .badProto => "badProto" | .badPid => "badPid"

def endName : End → String
  | .eof => "eof" | .unexpectedEof => "ueof" | .zeroLen => "zero" | .tooLarge => "large" | .fuel => "fuel"

def totalLen (r : Reader) : Nat := (r.map List.length).sum

def showReads (l : List (Bytes × Bool)) : String :=
  if l.isEmpty then "_" else ",".intercalate (l.map fun (b, s) => hexOrDash b ++ (if s then "!" else ""))

def showReadRes : ReadRes → String
  | .data b s => hexOrDash b ++ (if s then "!" else "")
  | .ended none => "EOF"
  | .ended (some c) => s!"E{c}"

/-- writers `w0=… w1=…` (hex lists) for `n` writers -/
def kvWriters (args : List String) (n : Nat) : Option (List (List Bytes)) :=
  (List.range n).mapM fun i => kvBytesList args s!"w{i}"

/-- optional `last=1`: the reader returns its final bytes together with the error -/
def kvLast (args : List String) : Bool := (kvNat args "last").getD 0 != 0

def showRecvRes : RecvRes → String
  | .msg m => hexOrDash m
  | .eof => "EOF"
  | .unexpectedEof => "UEOF"
  | .tooLarge => "LARGE"

def handle (op : String) (args : List String) : Option String :=
  match op with
  | "hdr" => do
    let max ← kvNat args "max"
    let chunks ← kvBytesList args "chunks"
    match readHeaderE max chunks (kvLast args) with
    | .ok (pid, r, alloc) => some s!"ok pid={hexOrDash pid} rest={hexOrDash r.flatten} alloc={alloc}"
    | .error e => some s!"err {errName e}"
  | "marshal" => do
    let pid ← kvBytes args "pid"
    some s!"ok {hexOrDash (marshalHeader pid)}"
  | "utf8" => do
    let b ← kvBytes args "b"
    some (if Utf8.valid b then "ok 1" else "ok 0")
  | "pkt" => do
    let max ← kvNat args "max"
    let chunks ← kvBytesList args "chunks"
    let bufs ← kvNatList args "bufs"
    let (ps, e) := rxPumpE max (kvLast args) (totalLen chunks + 1) chunks
    -- ReadFrom with the given buffer sizes (cyclic: missing sizes mean "large enough")
    let reads := (ps.zipIdx).map fun (p, i) => readFrom (bufs.getD i 1000000000) p
    some s!"pkts={showReads reads} end={endName e}"
  | "sess" => do
    let max ← kvNat args "max"
    let chunks ← kvBytesList args "chunks"
    let (ps, e) := recvMsgsE max (kvLast args) (totalLen chunks + 1) chunks
    some s!"msgs={showBytesList ps} end={endName e}"
  | "sesscalls" => do
    -- n successive RecvMsg calls, the caller calling again after every error
    let max ← kvNat args "max"
    let chunks ← kvBytesList args "chunks"
    let n ← kvNat args "n"
    let rs := recvCalls max n ⟨chunks, kvLast args, false⟩
    some s!"calls={if rs.isEmpty then "_" else ",".intercalate (rs.map showRecvRes)}"
  | "frame" => do
    let p ← kvBytes args "p"
    some s!"ok {hexOrDash (frame p)}"
  | "conn" => do
    let k ← kvNat args "k"
    let chunks ← kvBytesList args "chunks"
    let bufs ← kvNatList args "bufs"
    let q := connPump k chunks
    some s!"reads={showReads (connReads q bufs)} queued={q.length}"
  | "wsched" => do
    let n ← kvNat args "n"
    let ws ← kvWriters args n
    let sched ← kvNatList args "sched"
    let out := writeSched ws sched
    let left := ((schedLeft ws sched).map List.length).sum
    some s!"order={showBytesList out} wire={hexOrDash (wireOf out)} left={left}"
  | "writeto" => do
    let p ← kvBytes args "p"
    let acc ← kvNat args "acc"
    let e ← kvNat args "err"
    match writeTo p acc (e != 0) with
    | (.ok n, w) => some s!"ok n={n} wire={hexOrDash w}"
    | (.err n, w) => some s!"err n={n} wire={hexOrDash w}"
  | "sendmsg" => do
    let p ← kvBytes args "p"
    let acc ← kvNat args "acc"
    let e ← kvNat args "err"
    let (ok, w) := sendMsg p acc (e != 0)
    some s!"{if ok then "ok" else "err"} wire={hexOrDash w}"
  | "connwrite" => do
    let pkt ← kvBytes args "pkt"
    let ks ← kvNatList args "ks"
    let es ← kvNatList args "es"
    let script := ks.zipWith (fun k e => (k, e != 0)) es
    match connWrite script pkt with
    | (.ok n, w) => some s!"ok n={n} wire={hexOrDash w}"
    | (.err n, w) => some s!"err n={n} wire={hexOrDash w}"
    | (.spin, w) => some s!"spin wire={hexOrDash w}"
  | "connend" => do
    let k ← kvNat args "k"
    let chunks ← kvBytesList args "chunks"
    let bufs ← kvNatList args "bufs"
    let e ← kv args "end"
    let ee : Option Nat ← if e = "eof" then some none else (e.toNat?).map some
    let q := connPump k chunks
    let rs := connReadsEnd q ee bufs
    some s!"reads={if rs.isEmpty then "_" else ",".intercalate (rs.map showReadRes)} queued={q.length}"
  | _ => none

end Driver.Framing
