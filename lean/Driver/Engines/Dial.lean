import Driver.Util
import Bifrost.Model.Dial
namespace Driver.Dial
open Bifrost Bifrost.Dial Driver

def parseAttempt (s : String) : Option Attempt :=
  match s.splitOn ":" with
  | ["a", p] => do some (.answered (← p.toNat?))
  | ["f"] => some .failed
  | ["F"] => some .fatal
  | _ => none

def handle (op : String) (args : List String) : Option String :=
  match op with
  | "exec" => do
    let req ← kvNat args "req"
    let atts ← (kv args "atts").bind fun s => if s = "_" then some [] else (s.splitOn ",").mapM parseAttempt
    let r := match kvNat args "budget" with
      | some b => executeBudget req atts b
      | none => execute req atts
    match r with
    | none => some "retrying"
    | some (.link p) => some s!"link {p}"
    | some (.err f) => some s!"err fatal={f}"
  | _ => none

end Driver.Dial
