import Driver.Util
import Bifrost.Model.Encrypt
import Bifrost.Model.EncryptSignal
namespace Driver.Encrypt
open Bifrost Bifrost.Lo25519 Bifrost.Encrypt Bifrost.Signal Driver

/-- answers given so far: `ans=a,b,c` (hex, `-` = empty bytes, `!` = the primitive failed),
`_` or absent = none yet. -/
def parseAnswers (args : List String) : Option (List (Option Bytes)) :=
  match kv args "ans" with
  | none => some []
  | some s =>
    if s = "_" then some [] else
    (s.splitOn ",").mapM fun t => if t = "!" then some none else (unhex t).map some

def showReq : Req → String
  | .kdf d i n => s!"ask kdf dom={hexOrDash d} in={hexOrDash i} n={n}"
  | .hash i => s!"ask hash in={hexOrDash i}"
  | .edPub s => s!"ask edPub seed={hexOrDash s}"
  | .clamp s => s!"ask clamp seed={hexOrDash s}"
  | .edToMont p => s!"ask edToMont pk={hexOrDash p}"
  | .x25519 s p => s!"ask x25519 scalar={hexOrDash s} point={hexOrDash p}"
  | .blkEnc k b => s!"ask blkEnc key={hexOrDash k} block={hexOrDash b}"
  | .blkDec k b => s!"ask blkDec key={hexOrDash k} block={hexOrDash b}"
  | .seal k n p a => s!"ask seal key={hexOrDash k} nonce={hexOrDash n} pt={hexOrDash p} aad={hexOrDash a}"
  | .open k n c a => s!"ask open key={hexOrDash k} nonce={hexOrDash n} ct={hexOrDash c} aad={hexOrDash a}"
  | .s2enc m => s!"ask s2enc m={hexOrDash m}"
  | .s2dec c => s!"ask s2dec c={hexOrDash c}"

def showOutcome (o : Outcome Bytes) : String :=
  match o with
  | .ok b => "ok " ++ hexOrDash b
  | .err => "err"
  | .panic => "panic"

/-- Run a program on the answers given so far: the final outcome, or the next request. -/
def runProg (p : Prog (Outcome Bytes)) (args : List String) : Option String := do
  let ans ← parseAnswers args
  match p.feed ans with
  | .inl r => some (showReq r)
  | .inr o => some (showOutcome o)

/-- canonical text of a decoded signal: the oneof member with its fields, and the message
re-marshalled (which carries all retained unknown fields). -/
def showSignal (s : Signal) : String :=
  (match s.body with
   | .none => "ok kind=none"
   | .requestOffer v => s!"ok kind=req v={v}"
   | .sdp x => s!"ok kind=sdp tx={x.txSeqno} type={hexOrDash x.sdpType} sdp={hexOrDash x.sdp}"
   | .ice x => s!"ok kind=ice cand={hexOrDash x.candidate}")
  ++ s!" re={hexOrDash (marshal s)}"

def parseSignal (args : List String) : Option Signal := do
  let kind ← kv args "kind"
  let unk ← kvBytes args "unk"
  match kind with
  | "none" => some { body := .none, unknown := unk }
  | "req" => do
    let v ← kvNat args "v"
    some { body := .requestOffer v, unknown := unk }
  | "sdp" => do
    let tx ← kvNat args "tx"
    let t ← kvBytes args "type"
    let d ← kvBytes args "sdp"
    let su ← kvBytes args "sunk"
    some { body := .sdp { txSeqno := tx, sdpType := t, sdp := d, unknown := su }, unknown := unk }
  | "ice" => do
    let c ← kvBytes args "cand"
    let su ← kvBytes args "sunk"
    some { body := .ice { candidate := c, unknown := su }, unknown := unk }
  | _ => none

def showOpt (o : Option Bytes) : String :=
  match o with
  | some b => hexOrDash b
  | none => "!"

def parseKeyArg (args : List String) : Option KeyArg := do
  let v ← kv args "key"
  if v = "nil" then some .nil
  else if v = "foreign" then some .foreign
  else (unhex v).map .ed

def handle (op : String) (args : List String) : Option String :=
  match op with
  | "lowOrder" => do
    let ge ← kvBytes args "ge"
    match isEdLowOrder Gen.EdBlacklist.rows ge with
    | .ok b => some (if b then "ok 1" else "ok 0")
    | .err => some "err"
    | .panic => some "panic"
  | "pubToX" => do
    let ed ← kvBytes args "ed"
    let p : Prog (Outcome Bytes) := pubToX ed fun o => match o with
      | none => .done .err            -- shown as `err` = (nil, false)
      | some u => .done (.ok u)
    runProg p args
  | "enc" => do
    let pk ← kvBytes args "pub"
    let ctx ← kvBytes args "ctx"
    let msg ← kvBytes args "msg"
    runProg (encryptProg pk ctx msg) args
  | "dec" => do
    let sk ← kvBytes args "priv"
    let ctx ← kvBytes args "ctx"
    let ct ← kvBytes args "ct"
    runProg (decryptProg sk ctx ct) args
  | "limit" => do
    -- the size guards of encryptL / decryptL on a message of n bytes: does the sender accept it, may the receiver return it
    let n ← kvNat args "n"
    some (if n > maxMessage then "refused" else "ok")
  | "derive" => do
    let sk ← kvBytes args "priv"
    let ctx ← kvBytes args "ctx"
    let salt ← kvBytes args "salt"
    let n ← kvNat args "n"
    runProg (deriveProg ctx salt sk n) args
  | "deriveArg" => do
    -- key=nil | foreign | <hex raw key>
    let k ← parseKeyArg args
    let ctx ← kvBytes args "ctx"
    let salt ← kvBytes args "salt"
    let n ← kvNat args "n"
    runProg (deriveArgProg ctx salt k n) args
  | "deriveEd" => do
    let k ← parseKeyArg args
    let ctx ← kvBytes args "ctx"
    let salt ← kvBytes args "salt"
    runProg (deriveEdProg ctx salt k) args
  | "sigUnmarshal" => do
    let b ← kvBytes args "b"
    match unmarshal b with
    | some sg => some (showSignal sg)
    | none => some "err"
  | "sigMarshal" => do
    let sg ← parseSignal args
    some ("ok " ++ hexOrDash (marshal sg))
  | "sigEncode" => do
    let pk ← kvBytes args "pub"
    let sg ← parseSignal args
    runProg (encodeProg sg pk) args
  | "sigDecode" => do
    let sk ← kvBytes args "priv"
    let ct ← kvBytes args "ct"
    let ans ← parseAnswers args
    match (decryptProg sk Signal.context ct).feed ans with
    | .inl r => some (showReq r)
    | .inr o =>
      match decodePost o with
      | .ok sg => some (showSignal sg)
      | .err => some "err"
      | .panic => some "panic"
  | "offerer" => do
    let a ← kvBytes args "a"
    let b ← kvBytes args "b"
    some (if isOfferer a b then "ok 1" else "ok 0")
  | "tracker" => do
    let l ← kvBytes args "local"
    let r ← kvBytes args "remote"
    let t := newSessionTracker l r
    some s!"ok offerer={if t.offerer then 1 else 0} link={showOpt t.linkPeer} pub={showOpt t.signalPub}"
  | "addref" => do
    -- local: raw peer ID of the transport; remote: the string handed to addSessionTrackerRef
    let l ← kvBytes args "local"
    let r ← kvBytes args "remote"
    match addSessionTrackerRef l r with
    | none => some "err"
    | some t => some s!"ok key={hexOrDash t.key} offerer={if t.offerer then 1 else 0} link={showOpt t.linkPeer} pub={showOpt t.signalPub}"
  | "handles" => do
    -- local: raw peer ID of the transport; sig / want: the directive's and the transport's signaling ID;
    -- sl / sr: raw local / remote peer ID of the signaling session; block: blocked peer ID strings
    let l ← kvBytes args "local"
    let sg ← kvBytes args "sig"
    let want ← kvBytes args "want"
    let sl ← kvBytes args "sl"
    let sr ← kvBytes args "sr"
    let blk ← kvBytesList args "block"
    let t : Transport := { localID := l, signalingID := want, blockPeers := blk }
    some (if t.answers sg sl sr then "resolver" else "no-resolver")
  | "dial" => do
    let l ← kvBytes args "local"
    let p ← kvBytes args "peer"
    let blk ← kvBytesList args "block"
    let t : Transport := { localID := l, blockPeers := blk }
    match t.dialPeer p with
    | .refused => some "refused"
    | .err => some "err"
    | .tracker tk => some s!"ok key={hexOrDash tk.key} offerer={if tk.offerer then 1 else 0} link={showOpt tk.linkPeer} pub={showOpt tk.signalPub}"
  | "peerDialer" => do
    let l ← kvBytes args "local"
    let p ← kvBytes args "peer"
    let blk ← kvBytesList args "block"
    let dl ← kvBytesList args "dialers"
    let all ← kvNat args "all"
    let t : Transport := { localID := l, blockPeers := blk, allPeers := all != 0, dialers := dl }
    some (if t.offersDialer p then "dialer" else "none")
  | "linkaccept" => do
    -- the tracker `local` holds for `signaled`; its Quic session completes with `actual` iff the
    -- TLS layer's expected peer (what the tracker hands over) is `actual` (C03)
    let l ← kvBytes args "local"
    let sgn ← kvBytes args "signaled"
    let act ← kvBytes args "actual"
    match addSessionTrackerRef l (Bifrost.Codec.idB58Encode sgn) with
    | none => some "err"
    | some t => some (if t.sinks.quicExpectedPeer == some act then "ok 1" else "ok 0")
  | "role" => do
    -- local / remote: peer ID strings; the signal the running tracker of local for remote receives
    let l ← kvBytes args "local"
    let r ← kvBytes args "remote"
    let ty ← kvBytes args "type"
    let body ← match kv args "kind" with
      | some "req" => some (Body.requestOffer 1)
      | some "sdp" => some (Body.sdp { sdpType := ty })
      | _ => none
    some (if roleAccepts (isOfferer l r) body then "accepted" else "refused")
  | _ => none

end Driver.Encrypt
