import Driver.Util
import Bifrost.Model.SigSys
/-! Random-walk simulation of the composed signaling system (sanity check of the end-to-end
statement before/alongside the proof; also used as a model-level search when a proof breaks). -/
namespace Driver.Sigsys
open Bifrost Bifrost.SigSys Driver

def lcg (x : Nat) : Nat := (x * 6364136223846793005 + 1442695040888963407) % 18446744073709551616

def pick (r : Nat) (n : Nat) : Nat := (r / 65536) % n

/-- choose a random event -/
def randEv (r : Nat) (s : State) : Ev :=
  let r1 := lcg r
  let r2 := lcg r1
  let r3 := lcg r2
  let me := 1 + pick r1 2
  let peer := 3 - me
  let active := s.clients.filterMap (·.call)
  let call := if active.isEmpty || pick r3 10 = 0 then 1 + pick r2 (s.nextCall) else active.getD (pick r2 active.length) 1
  match pick r 400 with
  | 0 | 1 | 2 | 3 | 4 | 5 | 6 | 7 | 8 | 9 => .newClient me peer
  | 10 => .newClient (1 + pick r1 3) (1 + pick r2 3)
  | 11 | 12 | 13 | 14 | 15 | 16 | 17 | 18 | 19 | 20 => .connect me peer
  | 21 => .disconnect me peer
  | 22 => .srvEnd call
  | 23 => .sendCancel me peer (1 + pick r3 6)
  | k =>
    if k < 60 then
      let next := match getClient s me peer with
        | some c => c.st.sends.length + 1
        | none => 1
      .sendStart me peer ⟨next, 100 * me + next⟩
    else if k < 130 then
      let pend := match getClient s me peer with
        | some c => (c.st.sends.filter (fun (x : SigC.SendCall) => x.result.isNone)).map (fun (x : SigC.SendCall) => x.id)
        | none => ([] : List Nat)
      .sendStep me peer (if pend.isEmpty then 1 + pick r3 6 else pend.getD (pick r3 pend.length) 1)
    else if k < 170 then .recvStep me peer
    else if k < 230 then .clientTx me peer
    else if k < 290 then .clientRx me peer
    else if k < 330 then .srvRx call
    else if k < 370 then .srvLoop call
    else .srvTx call

def simulate : Nat → Nat → State → Nat → Nat × State
  | 0, _, s, bad => (bad, s)
  | n + 1, r, s, bad =>
    let s' := step s (randEv r s)
    let bad' := if sendSuccessDelivered s' then bad else bad + 1
    simulate n (lcg (lcg (lcg (lcg r)))) s' bad'

def handle (op : String) (args : List String) : Option String :=
  match op with
  | "sim" => do
    let seed ← kvNat args "seed"
    let steps ← kvNat args "steps"
    let (bad, s) := simulate steps (lcg (seed + 12345)) {} 0
    let succ := (s.clients.map fun c => (c.st.sends.filter fun x => x.result = some true).length).sum
    let deliv := (s.clients.map fun c => c.st.delivered.length).sum
    some s!"ok steps={steps} violations={bad} sends_ok={succ} delivered={deliv} calls={s.nextCall - 1}"
  | _ => none

end Driver.Sigsys
