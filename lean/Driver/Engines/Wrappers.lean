import Driver.Util
import Bifrost.Model.Wrappers
/-! Line protocol for the solicited-stream value LTS (`sms`, `lin`) and the hold-open handler
LTS (`hold`). -/
namespace Driver.Wrappers
open Bifrost Bifrost.Wrappers Driver

/-! ### solicited stream values -/

def parseSmsOp (t : String) : Option Sms.Op :=
  if t = "n" then some .newNil
  else if t = "e" then some .newErr
  else
    let rest := (t.drop 1).toString
    match (t.take 1).toString with
    | "r" => rest.toNat?.map .resolve
    | "h" =>
      -- `h<bits>`: resolveMatch whose matching handlers answer, in visiting order, 1 = took / 0 = refused
      (rest.toList.mapM fun c => if c = '1' then some true else if c = '0' then some false else none).map .resolveH
    | "a" => rest.toNat?.map .accept
    | "c" => rest.toNat?.map .close
    | _ => none

def parseSmsOps (s : String) : Option (List Sms.Op) :=
  if s = "_" then some [] else (s.splitOn ",").mapM parseSmsOp

def showRes : Sms.Res → String
  | .stream (some m) => s!"s{m}"
  | .stream none => "snil"
  | .already => "already"
  | .err => "err"
  | .closed true => "c1"
  | .closed false => "c0"
  | .created v d => s!"v{v}d{d}"
  | .pending => "pending"
  | .bad => "bad"

def showList (l : List String) : String := if l.isEmpty then "_" else ",".intercalate l

def showWrapper (w : Sms.Wrapper) : String :=
  let ms := match w.ms with | some m => toString m | none => "-"
  s!"{ms}:{if w.err then 1 else 0}{if w.accepted then 1 else 0}"

def showSms (s : Sms.State) : String :=
  s!"returned={showNatList s.returned.reverse} closed={showNatList s.closed.reverse} vals={showList (s.wrappers.map showWrapper)}"

/-- all permutations (of a short list) -/
def perms {α} : List α → List (List α)
  | [] => [[]]
  | x :: xs => (perms xs).flatMap fun p => (List.range (p.length + 1)).map fun k => p.take k ++ x :: p.drop k

/-- run the calls in the order `order` (indices into `calls`) and report each call's result at
its own index -/
def runOrder (s : Sms.State) (calls : Array Sms.Op) (order : List Nat) : Array String :=
  let init : Sms.State × Array String := (s, Array.replicate calls.size "?")
  (order.foldl (fun (acc : Sms.State × Array String) k =>
    match calls[k]? with
    | none => acc
    | some c =>
      let (s', r) := Sms.step acc.1 c
      (s', acc.2.setIfInBounds k (showRes r))) init).2

/-! ### hold-open -/

def parseHoldOp (t : String) : Option Hold.Op :=
  match t with
  | "add" => some .add
  | "other" => some .addOther
  | "rm" => some .remove
  | "acq" => some .acquire
  | "rel" => some .release
  | "irel" => some .instRelease
  | "disp" => some .disposed
  | _ => none

def b01 (b : Bool) : String := if b then "1" else "0"

def showHold (s : Hold.State) : String :=
  s!"{s.valCount}/{b01 s.rigid}/{s.pendingAcq}/{s.pendingRel}/{s.outstanding}/{b01 s.released}"

def validateHold : Hold.State → Nat → List Hold.Op → List String → String
  | s, _, [], acc =>
    let q := decide (Hold.quiescent s)
    s!"ok trace={showList acc.reverse} final={showHold s} quiescent={b01 q}"
  | s, k, o :: rest, acc =>
    if !Hold.enabled s o then s!"bad-step@{k} reason=not-enabled pre={showHold s}"
    else
      let s' := Hold.step s o
      validateHold s' (k + 1) rest (showHold s' :: acc)

def handle (op : String) (args : List String) : Option String :=
  match op with
  | "sms" => do
    let ops ← (kv args "ops").bind parseSmsOps
    let (s, rs) := Sms.runRes {} ops
    some s!"ok res={showList (rs.map showRes)} {showSms s}"
  | "lin" => do
    let init ← (kv args "init").bind parseSmsOps
    let calls ← (kv args "calls").bind parseSmsOps
    let obs ← kv args "obs"
    if calls.length > 6 then none else
    let s0 := Sms.run init
    let ca := calls.toArray
    let ps := perms (List.range calls.length)
    let hit := ps.any fun p => showList (runOrder s0 ca p).toList == obs
    some s!"ok lin={b01 hit} perms={ps.length}"
  | "hold" => do
    let ops ← (kv args "ops").bind fun s => if s = "_" then some [] else (s.splitOn ",").mapM parseHoldOp
    some (validateHold {} 0 ops [])
  | _ => none

end Driver.Wrappers
