import Driver.Util
import Bifrost.Model.Tls
import Bifrost.Gen.Tls
namespace Driver.Tls
open Bifrost Bifrost.Codec Bifrost.Tls Driver

/-!
Wire form of a certificate (one `cK=` argument per certificate, `n=` their number):
  `!`                                   not parsable by x509.ParseCertificate
  `vr:ss:pkix:unh:exts`
    vr, ss  `0|1`       verifyRest, selfSigOk
    pkix    `x` (MarshalPKIXPublicKey failed) | hex
    unh     `_` | dotted OIDs separated by `;`
    exts    `_` | `oid/value/parse` separated by `;`, parse = `x` | `pubkeyhex+sighex`
The ASN.1 oracle handed to the model answers exactly for the extension values listed.
-/

def parseOid (s : String) : Option Oid := (s.splitOn ".").mapM String.toNat?

def showOid (o : Oid) : String := ".".intercalate (o.map toString)

def parseSemiList {α} (f : String → Option α) (s : String) : Option (List α) :=
  if s = "_" then some [] else (s.splitOn ";").mapM f

abbrev Table := List (Bytes × Option (Bytes × Bytes))

def parseExt (s : String) : Option (Ext × (Bytes × Option (Bytes × Bytes))) :=
  match s.splitOn "/" with
  | [o, v, p] => do
    let id ← parseOid o
    let value ← unhex v
    let pr ← (if p = "x" then some none else
      match p.splitOn "+" with
      | [a, b] => do some (some ((← unhex a), (← unhex b)))
      | _ => none)
    some ({ id := id, value := value }, (value, pr))
  | _ => none

def parseBit (s : String) : Option Bool :=
  if s = "1" then some true else if s = "0" then some false else none

def parseCert (s : String) : Option (Option Cert × Table) :=
  if s = "!" then some (none, []) else
  match s.splitOn ":" with
  | [vr, ss, pk, unh, exts] => do
    let vr ← parseBit vr
    let ss ← parseBit ss
    let pkix ← (if pk = "x" then some none else (unhex pk).map some)
    let unh ← parseSemiList parseOid unh
    let es ← parseSemiList parseExt exts
    some (some { exts := es.map (·.1), unhandledCritical := unh, verifyRest := vr, selfSigOk := ss, pkix := pkix },
          es.map (·.2))
  | _ => none

def parseChain (args : List String) : Option (List (Option Cert) × Table) := do
  let n ← kvNat args "n"
  let cs ← (List.range n).mapM fun i => (kv args s!"c{i}").bind parseCert
  some (cs.map (·.1), (cs.map (·.2)).flatten)

def tableParse (t : Table) : ParseFn := fun v =>
  match t.find? (fun e => e.1 = v) with
  | some (_, r) => r
  | none => none

def errName (e : Err) : String :=
  match e with
  | .chainLen => "chainLen" | .noExt => "noExt" | .x509 => "x509" | .selfSig => "selfSig"
  | .asn1 => "asn1" | .pubKey => "pubKey" | .pkix => "pkix" | .sigInvalid => "sigInvalid"
  | .certParse => "certParse" | .peerMismatch => "peerMismatch"

def extId : Oid := Bifrost.Gen.Tls.extensionID
def pfx : Bytes := Bifrost.Gen.Tls.certificatePrefix

/-- Which (key, message, signature) triple does the model need verified? Run the chain function
with a recording "always true" scheme: if it reaches the verification, it reaches it with exactly
one triple, which can be recomputed from the certificate. -/
def verifyRequest (parse : ParseFn) (chain : List Cert) : Option (Bytes × Bytes × Bytes) :=
  match pubKeyFromCertChain extId pfx (fun _ _ _ => true) parse chain with
  | .error _ => none
  | .ok pk =>
    match chain with
    | [cert] =>
      match findKeyExt extId cert.exts, cert.pkix with
      | some ext, some spki =>
        match parse ext.value with
        | some (_, sig) => some (pk, pfx ++ spki, sig)
        | none => none
      | _, _ => none
    | _ => none

/-- Oracle protocol (as engine `sign`): answer `verify pk= body= sig=` until `vbit=` is supplied. -/
def withOracle (args : List String) (parse : ParseFn) (chain : List Cert)
    (k : VerifyFn → String) : String :=
  match verifyRequest parse chain with
  | none => k (fun _ _ _ => false)
  | some (pk, body, sig) =>
    match kvNat args "vbit" with
    | none => s!"verify pk={hexOrDash pk} body={hexOrDash body} sig={hexOrDash sig}"
    | some vb => k (fun pk' b' s' => if pk' = pk ∧ b' = body ∧ s' = sig then vb = 1 else false)

def handle (op : String) (args : List String) : Option String :=
  match op with
  | "consts" => some s!"ok oid={showOid extId} prefix={hexOrDash pfx}"
  | "pkfc" => do
    let (raw, t) ← parseChain args
    let chain ← raw.mapM id
    let parse := tableParse t
    some (withOracle args parse chain fun verify =>
      match pubKeyFromCertChain extId pfx verify parse chain with
      | .ok pk => s!"ok pk={hexOrDash pk}"
      | .error e => s!"err {errName e}")
  | "vpc" => do
    let remote ← kvBytes args "remote"
    let (raw, t) ← parseChain args
    let parse := tableParse t
    match parseAll raw with
    | none => some "err certParse"
    | some chain =>
      some (withOracle args parse chain fun verify =>
        match verifyPeerCertificate extId pfx verify parse remote raw with
        | .ok pk => s!"ok pk={hexOrDash pk}"
        | .error e => s!"err {errName e}")
  | "link" => do
    let remote ← kvBytes args "remote"
    let (raw, t) ← parseChain args
    let chain ← raw.mapM id
    let parse := tableParse t
    some (withOracle args parse chain fun verify =>
      match establish extId pfx verify parse remote chain with
      | .ok id => s!"ok id={hexOrDash id}"
      | .error e => s!"err {errName e}")
  | "signedext" => do
    -- what GenerateSignedExtension must put in the extension: key proto bytes and signed message
    let pk ← kvBytes args "pk"
    let spki ← kvBytes args "pkix"
    some s!"ok oid={showOid extId} pkb={hexOrDash (marshalPublicKey pk)} body={hexOrDash (bindingMessage pfx spki)}"
  | _ => none

end Driver.Tls
