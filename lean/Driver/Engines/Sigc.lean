import Driver.Util
import Bifrost.Model.SigClient
import Bifrost.Model.SigClientRecv
/-! Trace validation of the signaling client tracker against `Bifrost.SigC`.

Besides the tracker's critical sections (hook lines) the trace carries what the engine itself
observed of every `Recv` CALL: `recvret,q=N` (the call returned message N with a nil error; `q=0`:
it returned `context.Canceled`) and `recvend` (every `Recv` call made so far has returned). They
are validated against `SigC.recvIter`: a call returns exactly the message its critical section
marked processed, and a cancelled call has touched nothing — so every message a `recvstep` took
is owed to the application until a `recvret` hands it over, and nothing may be owed at `recvend`. -/
namespace Driver.Sigc
open Bifrost Bifrost.SigC Driver

def optN : Option Nat → String
  | some n => toString n
  | none => "-"

def b01 (b : Bool) : String := if b then "1" else "0"

def snapshot (s : State) : String :=
  s!"o{optN s.open_}:{optN (s.out.map (·.seqno))}:{b01 s.outSent}:{b01 s.outAcked}:{b01 s.outCancel}:{optN (s.recv.map (·.seqno))}:{b01 s.recvProcessed}"

def showReq : Option Req → String
  | none => "none"
  | some (.ack e k) => s!"ack:{e}:{k}"
  | some (.clear e k) => s!"clear:{e}:{k}"
  | some (.send e m) => s!"send:{e}:{m.seqno}"

def showSend (s : State) (id : Nat) : String :=
  match getSend s id with
  | none => "?"
  | some c => s!"{b01 c.txed}:{optN c.sessEpoch}:{match c.result with | none => "-" | some true => "ok" | some false => "err"}"

/-- the tracker state and the sequence numbers taken by `Recv` critical sections whose calls have
not been seen to return yet -/
structure VState where
  s : State := {}
  owed : List Nat := []

/-- `Recv` at call level: returns / end-of-calls tokens and the `recvstep` bookkeeping. -/
def applyRecvTok (v : VState) (kind : String) (args : List String) : Option (Except String VState) :=
  match kind with
  | "recvret" =>
    match kvNat args "q" with
    | none => some (throw "missing q in recvret")
    | some 0 => some (pure v)   -- returned Canceled: by `recvIter` such a call owes nothing
    | some q =>
      if v.owed.contains q then some (pure { v with owed := v.owed.erase q })
      else some (throw s!"recvret a Recv call returned message {q} that no Recv critical section had marked processed (model: recvIter returns exactly what it marks)")
  | "recvend" =>
    if v.owed.isEmpty then some (pure v)
    else some (throw s!"recvend message(s) {showNatList v.owed} were marked processed by a Recv critical section (so they are acknowledged) but no Recv call returned them (model: recvIter returns what it marks; a cancelled caller touches nothing)")
  | _ => none

/-- validate one event token; returns the new state or an error description -/
def applyTok (s : State) (tok : String) : Except String State := do
  let fs := tok.splitOn ","
  let kind := fs.headD ""
  let args := fs.drop 1
  let n (k : String) : Except String Nat := match kvNat args k with | some v => pure v | none => throw s!"missing {k} in {tok}"
  let snap := kv args "snap"
  let chk (s' : State) : Except String State :=
    match snap with
    | some sn => if sn = snapshot s' then pure s' else throw s!"snapshot expected={snapshot s'} got={sn}"
    | none => pure s'
  match kind with
  | "close" => chk (step s .close)
  | "opened" => do chk (step s (.opened (← n "e")))
  | "recvmsg" => do chk (step s (.recvMsg ⟨← n "q", ← n "m"⟩ ((← n "v") = 1) ((← n "g") = 1)))
  | "clearmsg" => do chk (step s (.clearMsg (← n "k")))
  | "ackmsg" => do chk (step s (.ackMsg (← n "k")))
  | "txloop" =>
    let (s', r) := txLoop s
    let want := (kv args "req").getD "?"
    if showReq r ≠ want then throw s!"txloop request expected={showReq r} got={want}" else chk s'
  | "sendstep" => do
    let id ← n "id"
    let s0 := if (getSend s id).isNone then step s (.sendStart ⟨id, (kvNat args "m").getD 0⟩) else s
    if !enabled s0 (.sendStep id) then throw s!"sendstep {id} not enabled (call already returned)" else
    let s' := step s0 (.sendStep id)
    let want := (kv args "call").getD "?"
    if showSend s' id ≠ want then throw s!"send call locals expected={showSend s' id} got={want}" else chk s'
  | "sendcancel" => do
    let id ← n "id"
    let s0 := if (getSend s id).isNone then step s (.sendStart ⟨id, (kvNat args "m").getD 0⟩) else s
    chk (step s0 (.sendCancel id))
  | "recvstep" => do
    let s' := step s .recvStep
    let got := (← n "got") = 1
    let did := s'.delivered.length ≠ s.delivered.length
    if got ≠ did then throw s!"recvstep delivery expected={b01 did} got={b01 got}" else chk s'
  | _ => throw s!"unknown event {kind}"

/-- the message a `recvstep` takes according to `recvIter` (the caller's context is irrelevant for that) -/
def takenBy (s : State) : Option Nat :=
  match (recvIter s .woken).2 with
  | .returned r => some r.seqno
  | _ => none

def validate : VState → Nat → List String → String
  | v, k, [] =>
    let s := v.s
    let pend := (s.sends.filter (·.result.isNone)).map (·.id)
    s!"ok events={k} pendingsends={showNatList pend} final={snapshot s} delivered={s.delivered.length} owed={showNatList v.owed}"
  | v, k, t :: rest =>
    let fs := t.splitOn ","
    match applyRecvTok v (fs.headD "") (fs.drop 1) with
    | some (.error e) => s!"bad-step@{k} {e}"
    | some (.ok v') => validate v' (k + 1) rest
    | none =>
      match applyTok v.s t with
      | .error e => s!"bad-step@{k} {e}"
      | .ok s' =>
        let c := checkAll s'
        if c ≠ "" then s!"bad-step@{k} invariant-{c} post={snapshot s'}" else
        let owed' := if fs.headD "" = "recvstep" then (match takenBy v.s with | some q => q :: v.owed | none => v.owed) else v.owed
        validate { s := s', owed := owed' } (k + 1) rest

def handle (op : String) (args : List String) : Option String :=
  match op with
  | "trace" => do
    let evs ← kv args "evs"
    let toks := if evs = "_" then [] else evs.splitOn ";"
    some (validate {} 0 toks)
  | _ => none

end Driver.Sigc
