import Driver.Util
import Bifrost.Model.Signaling
/-! Trace validation of the signaling relay server against `Bifrost.Sig`. -/
namespace Driver.Sig
open Bifrost Bifrost.Sig Driver

def optN : Option Nat → String
  | some n => toString n
  | none => "-"

def showAtt : Option Att → String
  | none => "nil"
  | some a => s!"{a.call}/{optN (a.recv.map (·.seqno))}/{optN a.recvSent}/{optN a.recvClear}/{optN a.outAcked}"

def showWants (l : List Nat) : String := if l.isEmpty then "-" else "+".intercalate (l.map toString)

def sortBy {α} (lt : α → α → Bool) (l : List α) : List α := (l.toArray.qsort lt).toList

/-- Canonical rendering of the two server maps. -/
def snapshot (s : State) : String :=
  let ps := (sortBy (fun a b => a.1 < b.1) s.peerMap).filterMap fun (pid, tid) =>
    (getTkr s tid).map fun t => s!"P{pid}:{if t.listening then 1 else 0}:{t.nonce}:{showWants t.wants}"
  let ss := (sortBy (fun a b => a.1.1 < b.1.1 || (a.1.1 = b.1.1 && a.1.2 < b.1.2)) s.sessMap).filterMap fun (k, sid) =>
    (getSess s sid).map fun t => s!"S{k.1}~{k.2}:{t.seqno}:{showAtt t.attA}:{showAtt t.attB}"
  "|".intercalate ps ++ "#" ++ "|".intercalate ss

def parseResp (kind : String) (v m : Nat) : Option Resp :=
  match kind with
  | "opened" => some (.opened v)
  | "closed" => some .closed
  | "ack" => some (.ack v)
  | "clear" => some (.clear v)
  | "recv" => some (.recv ⟨v, m⟩)
  | "set" => some (.setPeer v)
  | "clearpeer" => some (.clearPeer v)
  | _ => none

structure PEv where
  ev : Ev
  snap : Option String
  tk : Option String   -- listen calls: the call's own tracker `listening:nonce:wants:cur`

def parseEv (tok : String) : Option PEv := do
  let fs := tok.splitOn ","
  let kind ← fs.head?
  let args := fs.drop 1
  let n (k : String) : Option Nat := kvNat args k
  let snap := kv args "snap"
  let tk := kv args "tk"
  let ev : Ev ← match kind with
    | "init" => do some (.init (← n "c") (← n "src") (← n "dst"))
    | "send" => do some (.send (← n "c") (← n "e") ⟨← n "q", ← n "m"⟩ ((← n "v") = 1) (← n "g"))
    | "ack" => do some (.ack (← n "c") (← n "e") (← n "k"))
    | "clear" => do some (.clear (← n "c") (← n "e") (← n "k"))
    | "loop" => do some (.loop (← n "c"))
    | "tx" => do some (.send_ (← n "c") (← parseResp (← kv args "r") ((n "v").getD 0) ((n "m").getD 0)))
    | "end" => do some (.end_ (← n "c"))
    | "lreg" => do some (.lreg (← n "c") (← n "pid"))
    | "lloop" => do some (.lloop (← n "c") (← n "w") (← n "nw"))
    | "lusurped" => do some (.lusurped (← n "c"))
    | "ltx" => do some (.ltx (← n "c") (← parseResp (← kv args "r") ((n "v").getD 0) 0))
    | "lend" => do some (.lend (← n "c"))
    | _ => none
  some ⟨ev, snap, tk⟩

def callOf : Ev → Nat
  | .init c _ _ | .send c _ _ _ _ | .ack c _ _ | .clear c _ _ | .loop c | .send_ c _ | .end_ c
  | .lreg c _ | .lloop c _ _ | .lusurped c | .ltx c _ | .lend c => c

def tkOf (s : State) (call : Nat) : String :=
  match getLCall s call with
  | none => "?"
  | some c =>
    match getTkr s c.tkr with
    | none => "?"
    | some t =>
      let cur := (lookupPeer s c.pid) = some c.tkr
      s!"{if t.listening then 1 else 0}:{t.nonce}:{showWants t.wants}:{if cur then 1 else 0}"

/-- validate the trace event by event -/
def validate : State → Nat → List PEv → String
  | s, k, [] =>
    let awake := s.scalls.filter fun c => !c.ended && !c.failing &&
      (match getSess s c.sess with | some t => c.awake t | none => false)
    let lawake := s.lcalls.filter fun c => !c.ended && !c.failing &&
      (match getTkr s c.tkr with | some t => c.awake t | none => false)
    let failing := (s.scalls.filter fun c => (c.failing || c.readerDone) && !c.ended).map (·.id) ++ (s.lcalls.filter fun c => c.failing && !c.ended).map (·.id)
    let pend := (s.scalls.filter fun c => !c.outbox.isEmpty).map (·.id) ++ (s.lcalls.filter fun c => !c.outbox.isEmpty).map (·.id)
    s!"ok events={k} awake={showNatList ((awake.map (·.id)) ++ (lawake.map (·.id)))} failing={showNatList failing} pendingtx={showNatList pend} final={snapshot s}"
  | s, k, e :: rest =>
    if !enabled s e.ev then s!"bad-step@{k} reason=not-enabled call={callOf e.ev} pre={snapshot s}"
    else
      let s' := step s e.ev
      let viol := checkAll s'
      if viol ≠ "" then s!"bad-step@{k} reason=invariant-{viol} call={callOf e.ev} post={snapshot s'}" else
      match e.snap with
      | some sn =>
        if sn ≠ snapshot s' then s!"bad-step@{k} reason=snapshot call={callOf e.ev} expected={snapshot s'} got={sn}"
        else match e.tk with
          | some tk => if tk ≠ tkOf s' (callOf e.ev) then s!"bad-step@{k} reason=tracker call={callOf e.ev} expected={tkOf s' (callOf e.ev)} got={tk}" else validate s' (k + 1) rest
          | none => validate s' (k + 1) rest
      | none => validate s' (k + 1) rest

def handle (op : String) (args : List String) : Option String :=
  match op with
  | "trace" => do
    let evs ← kv args "evs"
    let toks := if evs = "_" then [] else evs.splitOn ";"
    let pevs ← toks.mapM parseEv
    some (validate {} 0 pevs)
  | _ => none

end Driver.Sig
