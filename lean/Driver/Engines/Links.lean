import Driver.Util
import Bifrost.Model.Links
namespace Driver.Links
open Bifrost Bifrost.Links Driver

/-- ops: `start:<lp>`, `shutdown`, `est:<id>:<uuid>:<remote>`, `lost:<id>:<uuid>:<remote>` separated by `,`. -/
def parseOp (s : String) : Option Op :=
  match s.splitOn ":" with
  | ["start", lp] => do some (.start (← lp.toNat?))
  | ["shutdown"] => some .shutdown
  | ["est", i, u, r] => do some (.est ⟨← i.toNat?, ← u.toNat?, ← r.toNat?⟩)
  | ["lost", i, u, r] => do some (.lost ⟨← i.toNat?, ← u.toNat?, ← r.toNat?⟩)
  | _ => none

def parseOps (s : String) : Option (List Op) :=
  if s = "_" then some [] else (s.splitOn ",").mapM parseOp

def sortNat (l : List Nat) : List Nat := (l.toArray.qsort (· < ·)).toList

def ids (l : List Link) : String := showNatList (sortNat (l.map (·.id)))

def dedup (l : List Nat) : List Nat := l.foldl (fun acc x => if acc.contains x then acc else acc ++ [x]) []

def handle (op : String) (args : List String) : Option String :=
  match op with
  | "hist" => do
    let ops ← (kv args "ops").bind parseOps
    let s := run ops
    let sp := specRun ops
    some s!"live={ids s.links} bypeer={ids s.peerLinks} closed={showNatList (sortNat (dedup s.closed))} spec={ids sp.live} specclosed={showNatList (sortNat (dedup sp.closed))}"
  | "resolve" => do
    let ops ← (kv args "ops").bind parseOps
    let src ← kvNat args "src"
    let dst ← kvNat args "dst"
    some s!"ok {ids (resolveEstablishLink (run ops) src dst)}"
  | "get" => do
    let ops ← (kv args "ops").bind parseOps
    let p ← kvNat args "p"
    some s!"ok {ids (getPeerLinks (run ops) p)}"
  | _ => none

end Driver.Links
