import Driver.Util
import Bifrost.Model.Links
import Bifrost.Model.LinksConc
import Bifrost.Model.LinksGen
namespace Driver.Links
open Bifrost Bifrost.Links Bifrost.LinksGen Driver

/-- ops: `start:<lp>`, `shutdown`, `est:<id>:<uuid>:<remote>`, `lost:<id>:<uuid>:<remote>` separated by `,`. -/
def parseOp (s : String) : Option Op :=
  match s.splitOn ":" with
  | ["start", lp] => do some (.start (← lp.toNat?))
  | ["shutdown"] => some .shutdown
  | ["est", i, u, r] => do some (.est ⟨← i.toNat?, ← u.toNat?, ← r.toNat?⟩)
  | ["lost", i, u, r] => do some (.lost ⟨← i.toNat?, ← u.toNat?, ← r.toNat?⟩)
  | _ => none

def parseOps (s : String) : Option (List Op) :=
  if s = "_" then some [] else (s.splitOn ",").mapM parseOp

/-- histories may contain `estvia:<g>:<id>:<uuid>:<remote>`: a link reported through the handler of
execution number `g` (Bifrost.LinksGen) -/
def parseGOp (s : String) : Option GOp :=
  match s.splitOn ":" with
  | ["estvia", g, i, u, r] => do some (.estVia (← g.toNat?) ⟨← i.toNat?, ← u.toNat?, ← r.toNat?⟩)
  | _ => (parseOp s).map GOp.op

def parseGOps (s : String) : Option (List GOp) :=
  if s = "_" then some [] else (s.splitOn ",").mapM parseGOp

def runG (ops : List GOp) : State := (grun true ops).s

def parseGBatch (s : String) : Option (List (List GOp)) := (s.splitOn "/").mapM parseGOps

def sortNat (l : List Nat) : List Nat := (l.toArray.qsort (· < ·)).toList

def ids (l : List Link) : String := showNatList (sortNat (l.map (·.id)))

def dedup (l : List Nat) : List Nat := l.foldl (fun acc x => if acc.contains x then acc else acc ++ [x]) []

/-- a batch: per-goroutine op sequences separated by `/` (`_` = empty sequence) -/
def parseBatch (s : String) : Option (List (List Op)) := (s.splitOn "/").mapM parseOps

/-- `live:bypeer:closed` (sorted id lists; `bypeer` keeps multiplicities) -/
def showState (s : State) : String :=
  s!"{ids s.links}:{ids s.peerLinks}:{showNatList (sortNat (dedup s.closed))}"

def dedupStr (l : List String) : List String :=
  l.foldl (fun acc x => if acc.contains x then acc else acc ++ [x]) []

def handle (op : String) (args : List String) : Option String :=
  match op with
  | "hist" => do
    let ops ← (kv args "ops").bind parseGOps
    let s := runG ops
    let sp := specRun (lower {} ops)
    some s!"live={ids s.links} bypeer={ids s.peerLinks} closed={showNatList (sortNat (dedup s.closed))} spec={ids sp.live} specclosed={showNatList (sortNat (dedup (staleIds {} ops ++ sp.closed)))}"
  | "resolve" => do
    let ops ← (kv args "ops").bind parseGOps
    let src ← kvNat args "src"
    let dst ← kvNat args "dst"
    some s!"ok {ids (resolveEstablishLink (runG ops) src dst)}"
  | "get" => do
    let ops ← (kv args "ops").bind parseGOps
    let p ← kvNat args "p"
    some s!"ok {ids (getPeerLinks (runG ops) p)}"
  | "linearize" => do
    -- all distinct final states of the batch `g` delivered after the sequential prefix `pre`
    let pre ← (kv args "pre").bind parseOps
    let gs ← (kv args "g").bind parseBatch
    if batchSize gs > 8 then none else
    let fs := finals (run pre) gs
    some s!"n={fs.length} states={"|".intercalate (dedupStr (fs.map showState))}"
  | "resolvebus" => do
    -- several controllers on one bus: `cs` = their histories separated by `/`
    let cs ← (kv args "cs").bind parseGBatch
    let src ← kvNat args "src"
    let dst ← kvNat args "dst"
    let r := resolveBus (cs.map runG) src dst
    let enc := sortNat (r.map fun p => p.1 * 1000000 + p.2.id)
    let items := enc.map fun n => s!"{n / 1000000}:{n % 1000000}"
    some s!"ok {if items.isEmpty then "_" else ",".intercalate items}"
  | _ => none

end Driver.Links
