import Driver.Util
import Bifrost.Model.QuicTable
namespace Driver.Quictable
open Bifrost Bifrost.QuicTable Driver
open Bifrost.Links (Link)

/-- The uuid function handed to the model: any function of (address, peer) will do (the theorems
hold for every `U`); the engine checks on the real links that equal (address, peer) ⇔ equal uuid. -/
def U (a p : Nat) : Nat := a * 1000 + p

/-- A trace token. Links are named by their id (creation order):
`st:<lp>` start, `sd` shutdown, `se:<addr>:<peer>` session, `re:<id>` runEst, `cl:<id>` close,
`rc:<id>` runClose, `rl:<id>` runLost, `cL:<id>` runCtrlLost. -/
inductive Tok where
  | op (o : Op)
  | est (i : Nat) | lost (i : Nat) | clost (i : Nat)

def parseTok (s : String) : Option Tok :=
  match s.splitOn ":" with
  | ["st", lp] => do some (.op (.start (← lp.toNat?)))
  | ["sd"] => some (.op .shutdown)
  | ["se", a, p] => do some (.op (.session (← a.toNat?) (← p.toNat?)))
  | ["re", i] => do some (.est (← i.toNat?))
  | ["cl", i] => do some (.op (.close (← i.toNat?)))
  | ["rc", i] => do some (.op (.runClose (← i.toNat?)))
  | ["rl", i] => do some (.lost (← i.toNat?))
  | ["cL", i] => do some (.clost (← i.toNat?))
  | _ => none

def parseToks (s : String) : Option (List Tok) :=
  if s = "_" then some [] else (s.splitOn ",").mapM parseTok

def entryOf (s : State) (i : Nat) : Option Entry := s.created.find? (fun e => e.2.id = i)

/-- Resolve a token against the links created so far (`none`: names a link that does not exist). -/
def resolve (s : State) : Tok → Option Op
  | .op o => some o
  | .est i => (entryOf s i).map (fun e => .runEst e.2)
  | .lost i => (entryOf s i).map (fun e => .runLost e.1 e.2)
  | .clost i => (entryOf s i).map (fun e => .runCtrlLost e.2)

/-- The model branch a step takes (the case splits of the proofs). -/
def branchOf (s : State) : Op → String
  | .start _ => "start"
  | .shutdown => "shutdown"
  | .session a p =>
    match s.table.find? (fun e => e.1 = a) with
    | none => "se.fresh"
    | some e => if e.2.uuid = U a p then "se.usurp-same-uuid" else "se.usurp-other-uuid"
  | .runEst l =>
    let lateTag := if l.id ∈ s.lostSeen then "+late" else ""
    let b :=
      if !s.ctrl.running then "est.stopped"
      else if l.remote = s.ctrl.localPeer then "est.self"
      else match Links.lookup s.ctrl l.uuid with
        | none => "est.new"
        | some el => if el.id = l.id then "est.dup" else "est.replace"
    b ++ lateTag
  | .close i => if i ∈ s.closedCb then "close.again" else "close.env"
  | .runClose i => if i ∈ s.closedCb then "close.again" else "close.requested"
  | .runLost a l =>
    if s.table.find? (fun e => e.1 = a) = some (a, l) then "lost.current" else "lost.stale"
  | .runCtrlLost l =>
    if s.ctrl.links.any (fun x => x.id = l.id) then "clost.hit" else "clost.miss"

def sortNat (l : List Nat) : List Nat := (l.toArray.qsort (· < ·)).toList
def dedup (l : List Nat) : List Nat := l.foldl (fun acc x => if acc.contains x then acc else acc ++ [x]) []
def ids (l : List Link) : String := showNatList (sortNat (l.map (·.id)))
def nats (l : List Nat) : String := showNatList (sortNat l)

def showTable (t : List Entry) : String :=
  let l := (t.map (fun e => (e.1, e.2.id))).toArray.qsort (fun x y => x.1 < y.1 || (x.1 == y.1 && x.2 < y.2))
  if l.isEmpty then "_" else ",".intercalate (l.toList.map (fun e => s!"{e.1}:{e.2}"))

def showReported (s : State) : String :=
  let peers := sortNat (dedup (s.created.map (·.2.remote)))
  if peers.isEmpty then "_" else "|".intercalate (peers.map (fun p => s!"{p}:{ids (reported s p)}"))

def showState (s : State) : String :=
  s!"table={showTable s.table} links={ids s.ctrl.links} bypeer={ids s.ctrl.peerLinks} closed={nats s.closedCb} " ++
  s!"rep={showReported s} pe={ids s.pendEst} pc={nats s.pendClose} pl={ids (s.pendLost.map (·.2))} " ++
  s!"pcl={ids s.pendCtrlLost} seen={nats (dedup s.lostSeen)} late={nats (dedup s.late)} " ++
  s!"q={if quiescent s then 1 else 0} run={if s.ctrl.running then 1 else 0} n={s.created.length}"

/-- Replay a trace: every token must be an enabled transition. -/
def replay (always : Bool) : State → Nat → List String → List Tok → String
  | s, _, brs, [] => s!"ok {showState s} br={if brs.isEmpty then "_" else ",".intercalate brs.reverse}"
  | s, k, brs, t :: ts =>
    match resolve s t with
    | none => s!"disabled k={k} why=no-such-link {showState s}"
    | some o =>
      if !enabled s o then s!"disabled k={k} why=not-enabled {showState s}"
      else replay always (stepWith U always s o) (k + 1) (branchOf s o :: brs) ts

def handle (op : String) (args : List String) : Option String :=
  match op with
  | "run" => do
    let toks ← (kv args "ops").bind parseToks
    let always := (kvNat args "fix").getD 1 != 0
    some (replay always {} 0 [] toks)
  | _ => none

end Driver.Quictable
