import Driver.Util
import Bifrost.Model.Dispatch
import Bifrost.Gen.Directives
namespace Driver.Dispatch
open Bifrost Bifrost.Dispatch Bifrost.Gen.Directives Driver

def bit (b : Bool) : String := if b then "1" else "0"

def kvBool (args : List String) (k : String) : Option Bool :=
  match kv args k with
  | some "1" => some true
  | some "0" => some false
  | _ => none

def stream (args : List String) : Option Stream := do
  let p ← kvBytes args "sp"
  let l ← kvBytes args "sl"
  let r ← kvBytes args "sr"
  some ⟨p, l, r⟩

/-- `noctl v=…` when the constructor fails, else `ok h=… v=…`. -/
def ctlOut (h : Option Bool) (v : Bool) : String :=
  match h with
  | none => s!"noctl v={bit v}"
  | some b => s!"ok h={bit b} v={bit v}"

def optBytes (o : Option Bytes) : String :=
  match o with
  | none => "none"
  | some b => "some:" ++ hexOrDash b

def optPair (o : Option (Bytes × Bytes)) : String :=
  match o with
  | none => "none"
  | some (a, b) => "some:" ++ hexOrDash a ++ "|" ++ hexOrDash b

/-! C36 event list: `a<id>` service value added, `x<id>` foreign value added, `r<id>` removed,
`i0`/`i1` idle callback. -/
def parseEv (t : String) : Option Ev :=
  match t.toList with
  | 'a' :: rest => (String.ofList rest).toNat?.map (fun n => Ev.added n true)
  | 'x' :: rest => (String.ofList rest).toNat?.map (fun n => Ev.added n false)
  | 'r' :: rest => (String.ofList rest).toNat?.map Ev.removed
  | ['i', '0'] => some (Ev.idle false)
  | ['i', '1'] => some (Ev.idle true)
  | _ => none

def parseEvs (s : String) : Option (List Ev) :=
  if s = "_" then some [] else (s.splitOn ",").mapM parseEv

/-! C36 with resolver errors: additionally `I<b>:<errs>` = idle callback with the error list
`errs` (`.`-separated: `e<n>` an error, `c` context.Canceled, `n` a nil entry; empty = no entries). -/
def parseRErr (t : String) : Option (Option RErr) :=
  match t.toList with
  | ['n'] => some none
  | ['c'] => some (some .canceled)
  | 'e' :: rest => (String.ofList rest).toNat?.map (fun n => some (RErr.other n))
  | _ => none

def parseEvE (t : String) : Option EvE :=
  match t.splitOn ":" with
  | [h, errs] =>
    match h.toList with
    | ['I', b] =>
      if b = '0' || b = '1' then
        (if errs = "" then some [] else (errs.splitOn ".").mapM parseRErr).map (EvE.idleErrs (b = '1'))
      else none
    | _ => none
  | [_] => (parseEv t).map EvE.ev
  | _ => none

def parseEvEs (s : String) : Option (List EvE) :=
  if s = "_" then some [] else (s.splitOn ",").mapM parseEvE

def showEnd : Option RErr → String
  | none => "none"
  | some .canceled => "c"
  | some (.other n) => s!"e{n}"

/-- `serverIdCb`: `none`; `pfx:<hex>` prepends; `fail` always fails; `failon:<hex>` fails on that
server ID and is the identity otherwise; `const:<hex>` replaces. -/
def cbOf (s : String) : Option (Option (Bytes → Option Bytes)) :=
  match s.splitOn ":" with
  | ["none"] => some none
  | ["fail"] => some (some fun _ => none)
  | ["pfx", h] => (unhex h).map fun p => some fun x => some (p ++ x)
  | ["failon", h] => (unhex h).map fun p => some fun x => if x = p then none else some x
  | ["const", h] => (unhex h).map fun p => some fun _ => some p
  | _ => none

def showPlaced : Option (Bytes × Bytes) → String
  | none => "err"
  | some d => s!"ok sid={hexOrDash d.1} srv={hexOrDash d.2}"

/-- `sid:srv,sid:srv` (hex), `_` = none. -/
def parsePairs (s : String) : Option (List (Bytes × Bytes)) :=
  if s = "_" then some [] else
  (s.splitOn ",").mapM fun t =>
    match t.splitOn ":" with
    | [a, b] => do some (← unhex a, ← unhex b)
    | _ => none

def showCall : CallOut → String
  | .ok sid srv => s!"ok sid={hexOrDash sid} srv={hexOrDash srv}"
  | .errDecode => "err decode"
  | .errInvalid => "err invalid"
  | .errServerId => "err serverid"
  | .errNoServer => "err noserver"

def showMsg (m : Msg) : String := s!"{bit m.idle}{bit m.exist}{bit m.removed}"

def showMsgs (l : List Msg) : String := if l.isEmpty then "_" else ",".intercalate (l.map showMsg)

/-! C37 argument parsing: fields separated by `;` in structure order. -/
def fieldsOf (args : List String) (k : String) : Option (List String) := (kv args k).map (·.splitOn ";")

def dialerOf (s : String) : Option (Option DialerOpts) :=
  if s = "nil" then some none else
  match s.splitOn ":" with
  | ["o", a, b] => do
    let addr ← unhex a
    let bk ← b.toNat?
    some (some ⟨addr, bk⟩)
  | _ => none

def isEq (dir : String) (a b : List String) : Option Bool :=
  match dir, a, b with
  | "SolicitProtocol", [a1, a2, a3, a4], [b1, b2, b3, b4] => do
    let x : SolicitProtocol := ⟨← unhex a1, ← unhex a2, ← unhex a3, ← a4.toNat?⟩
    let y : SolicitProtocol := ⟨← unhex b1, ← unhex b2, ← unhex b3, ← b4.toNat?⟩
    some (x.isEquivalent y)
  | "EstablishLinkWithPeer", [a1, a2], [b1, b2] => do
    let x : EstablishLinkWithPeer := ⟨← unhex a1, ← unhex a2⟩
    let y : EstablishLinkWithPeer := ⟨← unhex b1, ← unhex b2⟩
    some (x.isEquivalent y)
  | "HandleMountedStream", [a1, a2, a3], [b1, b2, b3] => do
    let x : HandleMountedStream := ⟨← unhex a1, ← unhex a2, ← unhex a3⟩
    let y : HandleMountedStream := ⟨← unhex b1, ← unhex b2, ← unhex b3⟩
    some (x.isEquivalent y)
  | "DialTptAddr", [a1, a2, a3], [b1, b2, b3] => do
    let x : DialTptAddr := ⟨← dialerOf a1, ← unhex a2, ← unhex a3⟩
    let y : DialTptAddr := ⟨← dialerOf b1, ← unhex b2, ← unhex b3⟩
    some (x.isEquivalent y)
  | "LookupTptAddr", [a1], [b1] => do
    let x : LookupTptAddr := ⟨← unhex a1⟩
    let y : LookupTptAddr := ⟨← unhex b1⟩
    some (x.isEquivalent y)
  | "LookupTransport", [a1, a2], [b1, b2] => do
    let x : LookupTransport := ⟨← unhex a1, ← a2.toNat?⟩
    let y : LookupTransport := ⟨← unhex b1, ← b2.toNat?⟩
    some (x.isEquivalent y)
  | "LookupRpcService", [a1, a2], [b1, b2] => do
    let x : LookupRpcService := ⟨← unhex a1, ← unhex a2⟩
    let y : LookupRpcService := ⟨← unhex b1, ← unhex b2⟩
    some (x.isEquivalent y)
  | "LookupRpcClient", [a1, a2], [b1, b2] => do
    let x : LookupRpcClient := ⟨← unhex a1, ← unhex a2⟩
    let y : LookupRpcClient := ⟨← unhex b1, ← unhex b2⟩
    some (x.isEquivalent y)
  | "LookupHTTPHandler", [a1, a2, a3], [b1, b2, b3] => do
    -- the URL is given by its `URL.String()` (computed by the harness with net/url directly)
    let x : LookupHTTPHandler Bytes := ⟨← unhex a1, ← unhex a2, ← unhex a3⟩
    let y : LookupHTTPHandler Bytes := ⟨← unhex b1, ← unhex b2, ← unhex b3⟩
    some (LookupHTTPHandler.isEquivalent id x y)
  | "SignalPeer", [a1, a2, a3], [b1, b2, b3] => do
    let x : SignalPeer := ⟨← unhex a1, ← unhex a2, ← unhex a3⟩
    let y : SignalPeer := ⟨← unhex b1, ← unhex b2, ← unhex b3⟩
    some (x.isEquivalent y)
  | "GetPeer", [a1], [b1] => do
    let x : GetPeer := ⟨← unhex a1⟩
    let y : GetPeer := ⟨← unhex b1⟩
    some (x.isEquivalent y)
  | "HandleSignalPeer", [a1, a2], [b1, b2] => do
    -- the session is given by the identity of the Go object (0 = nil interface)
    let x : HandleSignalPeer Nat := ⟨← unhex a1, ← a2.toNat?⟩
    let y : HandleSignalPeer Nat := ⟨← unhex b1, ← b2.toNat?⟩
    some (x.isEquivalent y)
  | "BuildChannelSubscription", [a1, a2], [b1, b2] => do
    let x : BuildChannelSubscription Nat := ⟨← unhex a1, ← a2.toNat?⟩
    let y : BuildChannelSubscription Nat := ⟨← unhex b1, ← b2.toNat?⟩
    some (x.isEquivalent y)
  | "DiscoverRoutes", [a1, a2, a3], [b1, b2, b3] => do
    let x : DiscoverRoutes := ⟨← unhex a1, ← unhex a2, ← unhex a3⟩
    let y : DiscoverRoutes := ⟨← unhex b1, ← unhex b2, ← unhex b3⟩
    some (x.isEquivalent y)
  | _, _, _ => none

/-- A directive of any type (URL by its `String()`, session / private key by object identity). -/
def anyOf (dir : String) (a : List String) : Option (AnyDirective Bytes Nat Nat) :=
  match dir, a with
  | "SolicitProtocol", [a1, a2, a3, a4] => do some (.solicitProtocol ⟨← unhex a1, ← unhex a2, ← unhex a3, ← a4.toNat?⟩)
  | "EstablishLinkWithPeer", [a1, a2] => do some (.establishLinkWithPeer ⟨← unhex a1, ← unhex a2⟩)
  | "HandleMountedStream", [a1, a2, a3] => do some (.handleMountedStream ⟨← unhex a1, ← unhex a2, ← unhex a3⟩)
  | "DialTptAddr", [a1, a2, a3] => do some (.dialTptAddr ⟨← dialerOf a1, ← unhex a2, ← unhex a3⟩)
  | "LookupTptAddr", [a1] => do some (.lookupTptAddr ⟨← unhex a1⟩)
  | "LookupTransport", [a1, a2] => do some (.lookupTransport ⟨← unhex a1, ← a2.toNat?⟩)
  | "LookupRpcService", [a1, a2] => do some (.lookupRpcService ⟨← unhex a1, ← unhex a2⟩)
  | "LookupRpcClient", [a1, a2] => do some (.lookupRpcClient ⟨← unhex a1, ← unhex a2⟩)
  | "LookupHTTPHandler", [a1, a2, a3] => do some (.lookupHTTPHandler ⟨← unhex a1, ← unhex a2, ← unhex a3⟩)
  | "SignalPeer", [a1, a2, a3] => do some (.signalPeer ⟨← unhex a1, ← unhex a2, ← unhex a3⟩)
  | "GetPeer", [a1] => do some (.getPeer ⟨← unhex a1⟩)
  | "HandleSignalPeer", [a1, a2] => do some (.handleSignalPeer ⟨← unhex a1, ← a2.toNat?⟩)
  | "BuildChannelSubscription", [a1, a2] => do some (.buildChannelSubscription ⟨← unhex a1, ← a2.toNat?⟩)
  | "DiscoverRoutes", [a1, a2, a3] => do some (.discoverRoutes ⟨← unhex a1, ← unhex a2, ← unhex a3⟩)
  | _, _ => none

/-- Oracle discipline: an answer is used only for exactly the subject it was asked about; the
model asks (`need …`) exactly when its outcome depends on the answer. -/
def oracle (subject : Bytes) (ans : Bool) : Bytes → Bool := fun x => if x = subject then ans else false

def handle (op : String) (args : List String) : Option String :=
  match op with
  -- ---------------- C34 ----------------
  | "echo" => do
    let cfg : EchoConfig := ⟨← kvBytes args "peer", ← kvBytes args "proto"⟩
    let s ← stream args
    some (ctlOut ((echoNew cfg).map (·.handles s)) cfg.validate)
  | "fwd" => do
    let cfg : FwdConfig := ⟨← kvBytes args "peer", ← kvBytes args "proto", ← kvBool args "tset", ← kvBool args "tok"⟩
    let s ← stream args
    some (ctlOut ((fwdNew cfg).map (·.handles s)) cfg.validate)
  | "relay" => do
    let cfg : RelayConfig := ⟨← kvBytes args "peer", ← kvBytes args "proto", ← kvBytes args "tpeer", ← kvBytes args "tproto"⟩
    let s ← stream args
    some (ctlOut ((relayNew cfg).map (·.handles s)) cfg.validate)
  | "relayfwd" => do
    -- what the relay's stream handler does with a stream that arrived on a link with local peer
    -- `ll` from the remote peer `sr`
    let cfg : RelayConfig := ⟨← kvBytes args "peer", ← kvBytes args "proto", ← kvBytes args "tpeer", ← kvBytes args "tproto"⟩
    let ll ← kvBytes args "ll"
    let sr ← kvBytes args "sr"
    match relayNew cfg with
    | none => some "noctl"
    | some c =>
      let o := c.opens ll sr
      some s!"ok back={hexOrDash o.backLink.1}>{hexOrDash o.backLink.2} open={hexOrDash o.openProto} from={hexOrDash o.openLocal} to={hexOrDash o.openPeer}"
  | "accept" => do
    let cfg : AcceptConfig := ⟨← kvBytes args "local", ← kvBytesList args "remotes", ← kvBytes args "proto", ← kvNat args "tid"⟩
    let s ← stream args
    some (ctlOut ((acceptNew cfg).map (·.handles s)) cfg.validate)
  | "srpc" => do
    let cfg : SrpcConfig := ⟨← kvBytesList args "peers", ← kvBytesList args "protos", ← kvBool args "dis"⟩
    let s ← stream args
    some (ctlOut ((srpcBuild cfg).map (·.handles s)) cfg.validate)
  | "srpcdef" => do
    -- Config.ApplyDefaults(defs).BuildServer
    let cfg : SrpcConfig := ⟨← kvBytesList args "peers", ← kvBytesList args "protos", ← kvBool args "dis"⟩
    let defs ← kvBytesList args "defs"
    let s ← stream args
    let cfg2 := cfg.applyDefaults defs
    some (ctlOut ((srpcBuild cfg2).map (·.handles s)) cfg2.validate)
  | "srpclk" => do
    -- stream/srpc/server/lookup.NewController (NewServerWithMux)
    let cfg : SrpcLookupConfig := ⟨← kvBytesList args "peers", ← kvBytesList args "protos", ← kvBytes args "srvid"⟩
    let s ← stream args
    let v := (parsePeerIDs false cfg.peerIds).isSome && (parseProtocolIDs false cfg.protocolIds).isSome
    some (ctlOut ((srpcLookupBuild cfg).map (·.handles s)) v)
  | "srpcraw" => do
    let srv : SrpcServer := ⟨← kvBytesList args "protos", ← kvBytesList args "peers", ← kvBool args "dis"⟩
    let s ← stream args
    some (ctlOut (some (srv.handles s)) true)
  | "srpcest" => do
    -- Server.HandleMountedStream: the EstablishLinkWithPeer directive it adds
    let srv : SrpcServer := ⟨← kvBytesList args "protos", ← kvBytesList args "peers", ← kvBool args "dis"⟩
    let ll ← kvBytes args "ll"
    let sr ← kvBytes args "sr"
    match srv.backLink ll sr with
    | none => some "ok back=none"
    | some (a, b) => some s!"ok back={hexOrDash a}>{hexOrDash b}"
  | "pubsub" => do
    let a : PubsubArgs := ⟨← kvBytes args "peer", ← kvBytes args "pid"⟩
    let s ← stream args
    some (ctlOut (some (a.handles s)) true)
  | "solicit" => do
    let c : SolicitConfig := ⟨← kvNat args "mh"⟩
    let s ← stream args
    some (ctlOut (some (c.handles s)) true)
  -- ---------------- C35 ----------------
  | "rpcsvc" => do
    let c : RpcSvc := ⟨← kvBytesList args "prefixes", ← kvBool args "strip", ← kvBool args "re",
      ← kvBytesList args "list", ← kvBool args "sre"⟩
    let sid ← kvBytes args "sid"
    let srv ← kvBytes args "srv"
    let rem := kvBool args "rem"
    let srem := kvBool args "srem"
    let ev (r s : Bool) := c.answers (oracle sid r) (oracle srv s) sid srv
    -- does the outcome depend on the service-ID regexp? on the server-ID regexp?
    let needRe := rem.isNone && ((ev true true != ev false true) || (ev true false != ev false false))
    if needRe then some s!"need re subj={hexOrDash sid}" else
    let r := rem.getD false
    let needS := srem.isNone && (ev r true != ev r false)
    if needS then some s!"need sre subj={hexOrDash srv}" else
    let a := ev r (srem.getD false)
    some s!"ok a={bit a} seen={optBytes (c.seen sid)}"
  | "invoker" => do
    let ps ← kvBytesList args "prefixes"
    let sid ← kvBytes args "sid"
    some s!"ok a={bit (invokerAnswers ps sid)} seen={optBytes (invokerSeen ps sid)}"
  | "rpcclient" => do
    let ps ← kvBytesList args "prefixes"
    let sid ← kvBytes args "sid"
    some s!"ok a={bit (clientAnswers ps sid)} seen={optBytes (prefixClientSeen ps sid)}"
  | "rpcclientcfg" => do
    let cfg ← kvBytesList args "cfg"
    let sid ← kvBytes args "sid"
    some s!"ok a={bit (clientCtlAnswers cfg sid)} fwd={bit (clientCtlSeen cfg sid).isSome}"
  | "accessclient" => do
    let c : AccessClient := ⟨← kvBool args "re", ← kvBool args "sre"⟩
    let sid ← kvBytes args "sid"
    let srv ← kvBytes args "srv"
    let rem := kvBool args "rem"
    let srem := kvBool args "srem"
    let ev (r s : Bool) := c.answers (oracle sid r) (oracle srv s) sid srv
    let needRe := rem.isNone && ((ev true true != ev false true) || (ev true false != ev false false))
    if needRe then some s!"need re subj={hexOrDash sid}" else
    let r := rem.getD false
    let needS := srem.isNone && (ev r true != ev r false)
    if needS then some s!"need sre subj={hexOrDash srv}" else
    some s!"ok a={bit (ev r (srem.getD false))}"
  | "http" => do
    let c : HttpCtl := ⟨← kvBytesList args "prefixes", ← kvBool args "strip", ← kvBool args "re"⟩
    let path ← kvBytes args "path"
    let raw ← kvBytes args "raw"
    let rem := kvBool args "rem"
    let needRe := rem.isNone && (c.answers (oracle path true) path != c.answers (oracle path false) path)
    if needRe then some s!"need re subj={hexOrDash path}" else
    let f := oracle path (rem.getD false)
    some s!"ok a={bit (c.answers f path)} seen={optPair (c.seen f path raw)}"
  | "mux" => do
    let m ← kvBytes args "method"
    match kvBytes args "pat" with
    | none => some s!"need mux method={hexOrDash (muxMethod m)} host={hexOrDash (muxHost (← kvBytes args "uhost"))}"
    | some pat => some s!"ok a={bit (muxAnswers pat)}"
  | "csp" => do
    let id ← kvBytes args "id"
    let ps ← kvBytesList args "ps"
    let r := checkStripPrefix id ps
    some s!"ok s={hexOrDash r.1} m={hexOrDash r.2}"
  | "strip" => do
    let pfx ← kvBytes args "pfx"
    let path ← kvBytes args "path"
    let raw ← kvBytes args "raw"
    some s!"ok seen={optPair (httpStripPrefix pfx path raw)}"
  -- ---------------- C36 ----------------
  | "run" => do
    let evs ← (kv args "evs").bind parseEvs
    let r := run evs
    some s!"ok msgs={showMsgs r.2} n={r.1.vals.length} idle={bit r.1.resIdle}"
  | "runsync" => do
    let evs ← (kv args "evs").bind parseEvEs
    let r := runSync {} evs
    some s!"ok msgs={showMsgs r.1} end={showEnd r.2}"
  | "resolverview" => do
    -- what the client-side resolver holds after the stream of the history `evs`
    let evs ← (kv args "evs").bind parseEvs
    let v := resolverView {} (run evs).2
    some s!"ok has={bit v.hasVal} idle={bit v.idle}"
  | "runends" => do
    -- `cancel` / `fail`: a number, or `-` for "never"
    let evs ← (kv args "evs").bind parseEvEs
    let optNat (k : String) : Option (Option Nat) :=
      match kv args k with
      | some "-" => some none
      | some t => t.toNat?.map some
      | none => none
    let c ← optNat "cancel"
    let f ← optNat "fail"
    let r := runEnds evs c f
    let e := match r.2 with
      | .open => "none"
      | .resolverErr x => showEnd (some x)
      | .canceled => "c"
      | .sendFailed => "send"
    some s!"ok msgs={showMsgs r.1} end={e}"
  | "placed" => do
    let r : Req := ⟨← kvBytes args "sid", ← kvBytes args "srv"⟩
    let cb ← (kv args "cb").bind cbOf
    -- `bus=1` (the real controller bus instead of the scripted one) makes no difference to the model
    some (showPlaced (lookupPlaced cb r))
  | "reqdir" => do
    let r : Req := ⟨← kvBytes args "sid", ← kvBytes args "srv"⟩
    let d := r.toDirective
    let back := requestFromDirective d
    some s!"ok dsid={hexOrDash d.1} dsrv={hexOrDash d.2} rsid={hexOrDash back.serviceId} rsrv={hexOrDash back.serverId} v={bit r.validate}"
  | "call" => do
    let cid ← kvBytes args "cid"
    let cb ← (kv args "cb").bind cbOf
    let prov ← (kv args "prov").bind parsePairs
    some (showCall (callRpcService cb (fun a b => prov.contains (a, b)) cid))
  | "cidenc" => do
    let r : Req := ⟨← kvBytes args "sid", ← kvBytes args "srv"⟩
    some ("ok " ++ hexOrDash (marshalComponentID r))
  | "ciddec" => do
    let s ← kvBytes args "s"
    match unmarshalComponentID s with
    | none => some "err"
    | some (r, unk) => some s!"ok sid={hexOrDash r.serviceId} srv={hexOrDash r.serverId} unk={hexOrDash unk}"
  -- ---------------- C37 ----------------
  | "iseq" => do
    let dir ← kv args "dir"
    let a ← fieldsOf args "a"
    let b ← fieldsOf args "b"
    let r ← isEq dir a b
    some s!"ok {bit r}"
  | "iseqx" => do
    -- directives of (possibly) different types: `a.IsEquivalent(b)`
    let x ← anyOf (← kv args "ka") (← fieldsOf args "a")
    let y ← anyOf (← kv args "kb") (← fieldsOf args "b")
    some s!"ok {bit (AnyDirective.isEquivalent id x y)}"
  | _ => none

end Driver.Dispatch
