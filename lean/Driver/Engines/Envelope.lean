import Driver.Util
import Bifrost.Model.Envelope
namespace Driver.Envelope
open Bifrost Bifrost.Envelope Driver

/-! Line protocol for the `envelope` engine (C16, C17, C18).

Abstract ops (`plan`, `run`) take a configuration `nkeys= t= total= grants=sc:k.k;sc:_;…`
(optional `id=` hex, `nil=1`, `plen=0`, `badkeys=i,j`). `ctxhash` / `autoid` answer with the oracle
request naming the exact bytes that are hashed.
Wire-level op `unlockwire` runs the model on real envelope bytes; the primitives are oracles
answered by the harness (`need dec …`, `need kdf …`, `need open …`) with the real
peer.DecryptWithPrivKey, zeebo/blake3 and x/crypto chacha20poly1305. -/

def showErr (e : Err) : String :=
  match e with
  | .emptyPayload => "emptyPayload" | .noKeypairs => "noKeypairs" | .noGrants => "noGrants"
  | .invalidKeypairIndex => "invalidKeypairIndex" | .invalidThreshold => "invalidThreshold"
  | .encrypt => "encrypt" | .contextMismatch => "contextMismatch" | .recover => "recover"
  | .decryptionFailed => "decryptionFailed" | .unmarshal => "unmarshal"

def showResult (r : UnlockResult) : String :=
  s!"avail={r.sharesAvailable} needed={r.sharesNeeded} unlocked={showNatList r.unlockedGrantIndexes}"

def showUnlock (o : UnlockOutcome) : String :=
  match o with
  | .err e => "err " ++ showErr e
  | .panic => "panic"
  | .locked r => "locked " ++ showResult r
  | .opened p r => s!"opened payload={hexOrDash p} " ++ showResult r

/-- `sc:k.k.k` (`_` = no indexes) -/
def parseGrantCfg (s : String) : Option GrantConfig :=
  match s.splitOn ":" with
  | [sc, ks] => do
    let c ← sc.toNat?
    let l ← if ks = "_" then some [] else (ks.splitOn ".").mapM String.toNat?
    some ⟨c, l⟩
  | _ => none

def parseGrants (s : String) : Option (List GrantConfig) :=
  if s = "_" then some [] else (s.splitOn ";").mapM parseGrantCfg

/-- arguments of the abstract ops: the configuration (`nil=1`: a nil `*EnvelopeConfig`; `id=`: the
`EnvelopeId` field, absent = empty), `plen=0`: empty payload, `badkeys=i,j`: recipient keys of an
unsupported type -/
structure PlanArgs where
  nkeys : Nat
  cfg : Option Config
  payload : Bytes
  bad : List Nat

/-- toy key material: key `i` is the byte string `[i+1, 7]` (public = private in the toy primitives) -/
def toyKey (i : Nat) : Bytes := [UInt8.ofNat (i + 1), 7]

def toyPayload : Bytes := [112, 97, 121]
def toyCtx : Bytes := [99, 116, 120]
def toyNonce : Bytes := List.replicate 24 9
def toySecret : Nat := 123456789

def parseCfg (args : List String) : Option PlanArgs := do
  let nkeys ← kvNat args "nkeys"
  let t ← kvNat args "t"
  let total ← kvNat args "total"
  let gs ← (kv args "grants").bind parseGrants
  let id ← match kv args "id" with
    | none => some []
    | some s => unhex s
  let bad ← match kv args "badkeys" with
    | none => some []
    | some s => parseNatList s
  let payload := if kv args "plen" = some "0" then [] else toyPayload
  let cfg : Config := { envelopeId := id, threshold := t, totalShares := total, grants := gs }
  some ⟨nkeys, if kv args "nil" = some "1" then none else some cfg, payload, bad⟩

/-- an offered key of the abstract `run` op: `k < 100` is toy key `k`; `100 + k` is a shadow of
toy key `k` (reports its public key, decrypts nothing: `shadowPrims`); `200…` is a nil entry of
the Go slice, which `matchPrivKeys` skips -/
def offeredKey (k : Nat) : Option Bytes :=
  if k < 100 then some (toyKey k) else if k < 200 then some (toyKey (k - 100) ++ [9]) else none

def toyBuild (a : PlanArgs) : Outcome Envelope :=
  buildKeys shadowPrims zl toySecret (fun i => 1000 + 17 * i) toyNonce toyCtx a.payload
    ((List.range a.nkeys).map fun i => if a.bad.contains i then none else some (toyKey i)) a.cfg

/-- `auto` when the envelope carries the id derived from secret ‖ context, else the id itself -/
def showEnvId (env : Envelope) : String :=
  if env.envelopeId = toyPrims.idHash (zl.encode toySecret) toyCtx then "auto" else hexOrDash env.envelopeId

def showIds (l : List Nat) : String := if l.isEmpty then "_" else ".".intercalate (l.map toString)

/-- share ids (as small integers) placed per grant; `x` for a grant nobody can decrypt -/
def showPlacement (cfg : Config) (total : Nat) : String :=
  let pl := place cfg.grants ((List.range total).map (· + 1))
  ";".intercalate (pl.map fun (gc, ids) => if gc.keypairIndexes.isEmpty then "x" else showIds ids)

/-- oracle table for grant decryption: (key handle, context, ciphertext) ↦ answer -/
abbrev DecTable := List ((Bytes × Bytes × Bytes) × Option Bytes)

def lookupDec (t : DecTable) (sk ctx c : Bytes) : Option Bytes :=
  match t.find? (fun e => e.1 = (sk, ctx, c)) with
  | some e => e.2
  | none => none

/-- every decryption the grant loop could attempt, in order (a superset of what it does attempt):
per (keypair index, ciphertext) pair, every offered key that reports that keypair's PEM -/
def decQueries (matched : Nat → List Bytes) (envId ctx : Bytes) : Nat → List Grant → List (Bytes × Bytes × Bytes)
  | _, [] => []
  | gi, g :: rest =>
    let here :=
      if g.keypairIndexes.length ≠ g.ciphertexts.length then []
      else (g.keypairIndexes.zip g.ciphertexts).flatMap fun (k, c) =>
        (matched k).map fun sk => (sk, grantEncContext envId ctx gi, c)
    here ++ decQueries matched envId ctx (gi + 1) rest

def parseAns (s : String) : Option (Option Bytes) :=
  if s = "x" then some none else (unhex s).map some

def handleNat (b : Bytes) : Nat := leToNat b

/-- wire-level unlock with oracles -/
def unlockWireOracle (args : List String) : Option String := do
  let wire ← kvBytes args "env"
  let ctx ← kvBytes args "ctx"
  let ctxhash ← kvBytes args "ctxhash"
  let pems ← kvBytesList args "pems"
  match decodeEnvelope wire with
  | none => some "err unmarshal"
  | some env =>
    -- private key handles are the little-endian index into `pems`
    let keys : List Bytes := (List.range pems.length).map fun i => natToLe 2 i
    let pub : Bytes → Bytes := fun sk => pems.getD (handleNat sk) []
    let base : Prims := { toyPrims with
      pub := pub, ctxHash := fun c => if c = ctx then ctxhash else [],
      pkDec := fun _ _ _ => none, kdf := fun _ _ => [], aopen := fun _ _ _ => none }
    -- early exits need no oracle
    match unlock base zl ctx env keys with
    | .err .noGrants => some "err noGrants"
    | .err .noKeypairs => some "err noKeypairs"
    | .err .contextMismatch => some "err contextMismatch"
    | _ =>
      let matched := matchKeys base env keys
      let qs := decQueries matched env.envelopeId ctx 0 env.grants
      let answers : Option (List (Option Bytes)) :=
        match kv args "dec" with
        | none => if qs.isEmpty then some [] else none
        | some s => if s = "_" then some [] else (s.splitOn ",").mapM parseAns
      match answers with
      | none =>
        let showQ := fun (q : Bytes × Bytes × Bytes) => s!"{handleNat q.1}:{hexOrDash q.2.1}:{hexOrDash q.2.2}"
        some ("need dec q=" ++ ",".intercalate (qs.map showQ))
      | some ans =>
        if ans.length ≠ qs.length then none else
        let table : DecTable := qs.zip ans
        let p1 : Prims := { base with pkDec := lookupDec table }
        let res := collect p1 zl (canonicalKey zl) matched env.envelopeId ctx 0 env.grants {} []
        match finish p1 zl ctx env res.1.collected res.2 with
        | .err .decryptionFailed =>
          -- reached openPayload: which key does the model need?
          match recover zl env.threshold res.1.collected with
          | .ok s =>
            let mat := zl.encode s
            let kctx := kdContext env.envelopeId ctx
            match kvBytes args "key" with
            | none => some s!"need kdf kctx={hexOrDash kctx} mat={hexOrDash mat}"
            | some key =>
              let p2 : Prims := { p1 with kdf := fun c m => if c = kctx ∧ m = mat then key else [] }
              if env.ciphertext.length < 24 then some (showUnlock (finish p2 zl ctx env res.1.collected res.2))
              else
                let nonce := env.ciphertext.take 24
                let body := env.ciphertext.drop 24
                match kv args "opened" with
                | none => some s!"need open key={hexOrDash key} nonce={hexOrDash nonce} ct={hexOrDash body}"
                | some o => do
                  let oa ← parseAns o
                  let p3 : Prims := { p2 with aopen := fun k n c => if k = key ∧ n = nonce ∧ c = body then oa else none }
                  some (showUnlock (finish p3 zl ctx env res.1.collected res.2))
          | _ => none
        | o => some (showUnlock o)

def showShare (s : Share) : String := s!"{hexOrDash s.id}/{hexOrDash s.value}"

def handle (op : String) (args : List String) : Option String :=
  match op with
  | "scalar" => do
    let b ← kvBytes args "b"
    match zl.decode b with
    | none => some "err"
    | some s => some ("ok " ++ hexOrDash (zl.encode s))
  | "recover" => do
    let t ← kvNat args "t"
    let ids ← kvBytesList args "ids"
    let vals ← kvBytesList args "vals"
    if ids.length ≠ vals.length then none else
    let xs ← ids.mapM zl.decode
    let ys ← vals.mapM zl.decode
    match recover zl t (xs.zip ys) with
    | .err => some "err"
    | .panic => some "panic"
    | .ok s => some ("ok " ++ hexOrDash (zl.encode s))
  | "polyeval" => do
    let cs ← kvBytesList args "coeffs"
    let x ← kvBytes args "x"
    let cs' ← cs.mapM zl.decode
    let x' ← zl.decode x
    some ("ok " ++ hexOrDash (zl.encode (polyEval zl cs' x')))
  | "encctx" => do
    let id ← kvBytes args "id"
    let ctx ← kvBytes args "ctx"
    let gi ← kvNat args "gi"
    some ("ok " ++ hexOrDash (grantEncContext id ctx gi))
  | "kdctx" => do
    let id ← kvBytes args "id"
    let ctx ← kvBytes args "ctx"
    some ("ok " ++ hexOrDash (kdContext id ctx))
  | "inner" => do
    let b ← kvBytes args "b"
    match decodeInner b with
    | none => some "err"
    | some l => some ("ok " ++ (if l.isEmpty then "_" else ",".intercalate (l.map showShare)))
  | "encinner" => do
    let ids ← kvBytesList args "ids"
    let vals ← kvBytesList args "vals"
    if ids.length ≠ vals.length then none else
    some ("ok " ++ hexOrDash (encodeInner ((ids.zip vals).map fun (i, v) => ⟨i, v⟩)))
  | "decode" => do
    let b ← kvBytes args "env"
    match decodeEnvelope b with
    | none => some "err"
    | some e =>
      let showG := fun (g : Grant) => s!"{showIds g.keypairIndexes}/{showBytesList g.ciphertexts}"
      some (s!"ok id={hexOrDash e.envelopeId} ch={hexOrDash e.contextHash} t={e.threshold} ct={hexOrDash e.ciphertext} " ++
        s!"grants={if e.grants.isEmpty then "_" else ";".intercalate (e.grants.map showG)} keypairs={showBytesList e.keypairs}")
  | "plan" => do
    let a ← parseCfg args
    let cfg := a.cfg.getD {}
    match toyBuild a with
    | .err e => some ("err " ++ showErr e)
    | .panic => some "panic"
    | .ok env =>
      let total := totalOf cfg ((sumShares a.nkeys cfg.grants 0).getD 0)
      some s!"ok t={env.threshold} grants={env.grants.length} total={total} placed={showPlacement cfg total} usable={usableShares cfg.grants total} id={showEnvId env}"
  | "run" => do
    let a ← parseCfg args
    let offer ← kvNatList args "offer"
    match toyBuild a with
    | .err e => some ("builderr " ++ showErr e)
    | .panic => some "buildpanic"
    | .ok env =>
      match unlock shadowPrims zl toyCtx env (offer.filterMap offeredKey) with
      | .opened p r => some ((if p = toyPayload then "opened payload=orig " else "opened payload=OTHER ") ++ showResult r)
      | o => some (showUnlock o)
  | "ctxhash" => do
    -- oracle request: the context hash is the BLAKE3-256 of exactly these bytes
    let ctx ← kvBytes args "ctx"
    some s!"hash data={hexOrDash (ctxHashPreimage ctx)}"
  | "autoid" => do
    -- oracle request: an auto-generated id is hex(BLAKE3-256(data)[:take])
    let secret ← kvBytes args "secret"
    let ctx ← kvBytes args "ctx"
    some s!"hash data={hexOrDash (idPreimage secret ctx)} take={autoIdDigestBytes}"
  | "unlockwire" => unlockWireOracle args
  | _ => none

end Driver.Envelope
