import Driver.Util
import Bifrost.Model.Solicit
namespace Driver.Solicit
open Bifrost Bifrost.Solicit Driver

def handle (op : String) (args : List String) : Option String :=
  match op with
  | "sessionPre" => do
    let a ← kvBytes args "a"
    let b ← kvBytes args "b"
    some ("ok " ++ hexOrDash (sessionPreimage a b))
  | "protoPre" => do
    let sid ← kvBytes args "sid"
    let pid ← kvBytes args "pid"
    let ctx ← kvBytes args "ctx"
    some ("ok " ++ hexOrDash (protocolPreimage sid pid ctx))
  | "protoPrefix" => do
    -- sid ‖ uvarint(n): the preimage of a protocol ID of n bytes is this ‖ pid ‖ ctx
    -- (Solicit.protocolPreimage_eq_prefix)
    let sid ← kvBytes args "sid"
    let n ← kvNat args "n"
    some ("ok " ++ hexOrDash (protocolPrefix sid n))
  | "find" => do
    let l ← kvBytesList args "l"
    let r ← kvBytesList args "r"
    some ("ok " ++ showBytesList (findMatching l r))
  | "sort" => do
    let l ← kvBytesList args "l"
    some ("ok " ++ showBytesList (sortHashes l))
  | "admits" => do
    let peer ← kvBytes args "peer"
    let tid ← kvNat args "tid"
    let remote ← kvBytes args "remote"
    let ltid ← kvNat args "ltid"
    some (if admits ⟨[], [], peer, tid⟩ ⟨remote, ltid⟩ then "ok 1" else "ok 0")
  | _ => none

end Driver.Solicit
