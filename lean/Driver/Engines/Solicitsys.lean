import Driver.Util
import Bifrost.Model.SolicitSys
/-! Line protocol for the two-sided solicitation exchange (`Bifrost.SolicitSys`).

`solicitsys.run pa= pb= ta= tb= maxa= maxb= ops=<op>,<op>,… orc=<pre>:<hash>,…`

ops: `aA:<pid>:<ctx>:<peer>:<tpt>` add on side A (`aB:` on B), `rA:<id>` remove, `sA` loop
iteration, `dA` deliver the oldest exchange in flight towards A, `oA:<hash>` the pending
`openSolicitedStream(hash)` of A runs, `vA:<s>` stream `s` arrives at A.

BLAKE3 is an oracle: `orc` lists (preimage, digest) pairs computed by the harness with
zeebo/blake3; if the run needs a digest that is not listed the answer is `need <pre>,<pre>,…`. -/
namespace Driver.Solicitsys
open Bifrost Bifrost.Solicit Bifrost.SolicitSys Driver

def parseSide (s : String) : Option Side :=
  if s = "A" then some .A else if s = "B" then some .B else none

def parseOp (t : String) : Option Op :=
  match t.splitOn ":" with
  | [k, pid, ctx, peer, tpt] =>
    if (k.take 1).toString = "a" then do
      some (.add (← parseSide (k.drop 1).toString) ⟨← unhex pid, ← unhex ctx, ← unhex peer, ← tpt.toNat?⟩)
    else none
  | [k, v] =>
    match (k.take 1).toString with
    | "r" => do some (.remove (← parseSide (k.drop 1).toString) (← v.toNat?))
    | "o" => do some (.open (← parseSide (k.drop 1).toString) (← unhex v))
    | "v" => do some (.arrive (← parseSide (k.drop 1).toString) (← v.toNat?))
    | _ => none
  | [k] =>
    match (k.take 1).toString with
    | "s" => do some (.sync (← parseSide (k.drop 1).toString))
    | "d" => do some (.deliver (← parseSide (k.drop 1).toString))
    | _ => none
  | _ => none

def parseOps (s : String) : Option (List Op) :=
  if s = "_" then some [] else (s.splitOn ",").mapM parseOp

def parseOracle (s : String) : Option (List (Bytes × Bytes)) :=
  if s = "_" then some [] else
  (s.splitOn ",").mapM fun t =>
    match t.splitOn ":" with
    | [p, h] => do some (← unhex p, ← unhex h)
    | _ => none

def lookup (tab : List (Bytes × Bytes)) (pre : Bytes) : Option Bytes :=
  (tab.find? (·.1 = pre)).map (·.2)

def sortBytes (l : List Bytes) : List Bytes := (l.toArray.qsort (fun a b => lexLt a b)).toList
def sortNat (l : List Nat) : List Nat := (l.toArray.qsort (· < ·)).toList

def showInbox (l : List (List Bytes)) : String :=
  if l.isEmpty then "_" else "|".intercalate (l.map showBytesList)

def showRecv (l : List Delivery) : String :=
  let ps := (l.map fun r => (r.dir, r.stream)).toArray.qsort (fun a b => a.1 < b.1 ∨ (a.1 = b.1 ∧ a.2 < b.2))
  if ps.isEmpty then "_" else ",".intercalate (ps.toList.map fun p => s!"{p.1}:{p.2}")

def showSide : Side → String
  | .A => "A"
  | .B => "B"

def showNode (p : String) (n : Node) : String :=
  s!"{p}.dirs={showNatList (n.dirs.map (·.id))} {p}.early={showNatList ((n.dirs.filter (·.early)).map (·.id))} " ++
  s!"{p}.sent={showBytesList n.sent} {p}.remote={showBytesList n.remote} " ++
  s!"{p}.matched={showBytesList (sortBytes n.matched)} {p}.pend={showBytesList (sortBytes n.pendingOpen)} " ++
  s!"{p}.inbox={showInbox n.inbox} {p}.arr={showNatList (sortNat n.arriving)} " ++
  s!"{p}.res={showNatList (sortNat n.resolved)} {p}.recv={showRecv n.recv} {p}.closed={showNatList (sortNat n.closed)}"

def showStreams (l : List Stream) : String :=
  if l.isEmpty then "_" else ",".intercalate (l.map fun s => s!"{hexOrDash s.hash}:{showSide s.opener}")

def handle (op : String) (args : List String) : Option String :=
  match op with
  | "run" => do
    let pa ← kvBytes args "pa"
    let pb ← kvBytes args "pb"
    let c : Cfg := ⟨pa, pb, ← kvNat args "ta", ← kvNat args "tb", ← kvNat args "maxa", ← kvNat args "maxb"⟩
    let ops ← (kv args "ops").bind parseOps
    let tab ← (kv args "orc").bind parseOracle
    let H : Bytes → Bytes := fun pre => (lookup tab pre).getD []
    -- which digests does this run need?
    let spre := sessionPreimage pa pb
    match lookup tab spre with
    | none => some ("need " ++ hexOrDash spre)
    | some sid =>
      let pres := ops.filterMap fun o =>
        match o with
        | .add _ d => some (protocolPreimage sid d.pid d.ctx)
        | _ => none
      let missing := (pres.filter fun p => (lookup tab p).isNone).eraseDups
      if !missing.isEmpty then some ("need " ++ showBytesList missing) else
      let st := run H c ops
      let lower := if c.isLower .A then "A" else if c.isLower .B then "B" else "-"
      some (s!"ok sid={hexOrDash (c.sid H .A)} sidb={hexOrDash (c.sid H .B)} lower={lower} " ++
        showNode "a" st.a ++ " " ++ showNode "b" st.b ++
        s!" streams={showStreams st.streams} q={if decide (quiescent H c st) then 1 else 0}")
  | _ => none

end Driver.Solicitsys
