import Driver.Util
import Bifrost.Model.SolicitSys
import Bifrost.Model.SolicitHub
/-! Line protocol for the two-sided solicitation exchange (`Bifrost.SolicitSys`).

`solicitsys.run pa= pb= ta= tb= maxa= maxb= ops=<op>,<op>,… orc=<pre>:<hash>,…`

ops: `aA:<pid>:<ctx>:<peer>:<tpt>` add on side A (`aB:` on B), `rA:<id>` remove, `sA` loop
iteration, `dA` deliver the oldest exchange in flight towards A, `oA:<hash>` the pending
`openSolicitedStream(hash)` of A runs, `vA:<s>` stream `s` arrives at A.

BLAKE3 is an oracle: `orc` lists (preimage, digest) pairs computed by the harness with
zeebo/blake3; if the run needs a digest that is not listed the answer is `need <pre>,<pre>,…`. -/
namespace Driver.Solicitsys
open Bifrost Bifrost.Solicit Bifrost.SolicitSys Driver

def parseSide (s : String) : Option Side :=
  if s = "A" then some .A else if s = "B" then some .B else none

def parseOp (t : String) : Option Op :=
  match t.splitOn ":" with
  | [k, pid, ctx, peer, tpt] =>
    if (k.take 1).toString = "a" then do
      some (.add (← parseSide (k.drop 1).toString) ⟨← unhex pid, ← unhex ctx, ← unhex peer, ← tpt.toNat?⟩)
    else none
  | [k, v] =>
    match (k.take 1).toString with
    | "r" => do some (.remove (← parseSide (k.drop 1).toString) (← v.toNat?))
    | "o" => do some (.open (← parseSide (k.drop 1).toString) (← unhex v))
    | "v" => do some (.arrive (← parseSide (k.drop 1).toString) (← v.toNat?))
    | _ => none
  | [k] =>
    match (k.take 1).toString with
    | "s" => do some (.sync (← parseSide (k.drop 1).toString))
    | "d" => do some (.deliver (← parseSide (k.drop 1).toString))
    | _ => none
  | _ => none

def parseOps (s : String) : Option (List Op) :=
  if s = "_" then some [] else (s.splitOn ",").mapM parseOp

def parseOracle (s : String) : Option (List (Bytes × Bytes)) :=
  if s = "_" then some [] else
  (s.splitOn ",").mapM fun t =>
    match t.splitOn ":" with
    | [p, h] => do some (← unhex p, ← unhex h)
    | _ => none

def lookup (tab : List (Bytes × Bytes)) (pre : Bytes) : Option Bytes :=
  (tab.find? (·.1 = pre)).map (·.2)

def sortBytes (l : List Bytes) : List Bytes := (l.toArray.qsort (fun a b => lexLt a b)).toList
def sortNat (l : List Nat) : List Nat := (l.toArray.qsort (· < ·)).toList

def showInbox (l : List (List Bytes)) : String :=
  if l.isEmpty then "_" else "|".intercalate (l.map showBytesList)

def showRecv (l : List Delivery) : String :=
  let ps := (l.map fun r => (r.dir, r.stream)).toArray.qsort (fun a b => a.1 < b.1 ∨ (a.1 = b.1 ∧ a.2 < b.2))
  if ps.isEmpty then "_" else ",".intercalate (ps.toList.map fun p => s!"{p.1}:{p.2}")

def showSide : Side → String
  | .A => "A"
  | .B => "B"

def showNode (p : String) (n : Node) : String :=
  s!"{p}.dirs={showNatList (n.dirs.map (·.id))} {p}.early={showNatList ((n.dirs.filter (·.early)).map (·.id))} " ++
  s!"{p}.sent={showBytesList n.sent} {p}.remote={showBytesList n.remote} " ++
  s!"{p}.matched={showBytesList (sortBytes n.matched)} {p}.pend={showBytesList (sortBytes n.pendingOpen)} " ++
  s!"{p}.inbox={showInbox n.inbox} {p}.arr={showNatList (sortNat n.arriving)} " ++
  s!"{p}.res={showNatList (sortNat n.resolved)} {p}.recv={showRecv n.recv} {p}.closed={showNatList (sortNat n.closed)}"

def showStreams (l : List Stream) : String :=
  if l.isEmpty then "_" else ",".intercalate (l.map fun s => s!"{hexOrDash s.hash}:{showSide s.opener}")

/-- the answer for one link (the format of `run`) -/
def showLink (H : Bytes → Bytes) (c : Cfg) (st : State) : String :=
  let lower := if c.isLower .A then "A" else if c.isLower .B then "B" else "-"
  s!"ok sid={hexOrDash (c.sid H .A)} sidb={hexOrDash (c.sid H .B)} lower={lower} " ++
    showNode "a" st.a ++ " " ++ showNode "b" st.b ++
    s!" streams={showStreams st.streams} q={if decide (quiescent H c st) then 1 else 0}"

/-! `solicitsys.hub links=<pa>:<pb>:<ta>:<tb>:<maxa>:<maxb>;… ops=<op>,… orc=…` — a node (side A of
every link) with several links (`Bifrost.SolicitHub`). ops: `aH:<pid>:<ctx>:<peer>:<tpt>` /
`rH:<id>` directive added to / removed from the hub (all links), `L<i>.<op>` an op of `run` on
link `i` (not `aA` / `rA`). Answer: the per-link answers of `run`, joined by ` | `. -/

def parseCfg (s : String) : Option Cfg :=
  match s.splitOn ":" with
  | [pa, pb, ta, tb, ma, mb] => do
    some ⟨← unhex pa, ← unhex pb, ← ta.toNat?, ← tb.toNat?, ← ma.toNat?, ← mb.toNat?⟩
  | _ => none

def parseHubOp (t : String) : Option SolicitHub.Op :=
  if t.startsWith "aH:" then
    match t.splitOn ":" with
    | [_, pid, ctx, peer, tpt] => do some (.add ⟨← unhex pid, ← unhex ctx, ← unhex peer, ← tpt.toNat?⟩)
    | _ => none
  else if t.startsWith "rH:" then
    match t.splitOn ":" with
    | [_, id] => do some (.remove (← id.toNat?))
    | _ => none
  else if t.startsWith "L" then
    match ((t.drop 1).toString).splitOn "." with
    | [i, o] => do
      let o' ← parseOp o
      if SolicitHub.hubDir o' then none else some (.link (← i.toNat?) o')
    | _ => none
  else none

def parseHubOps (s : String) : Option (List SolicitHub.Op) :=
  if s = "_" then some [] else (s.splitOn ",").mapM parseHubOp

def handle (op : String) (args : List String) : Option String :=
  match op with
  | "run" => do
    let pa ← kvBytes args "pa"
    let pb ← kvBytes args "pb"
    let c : Cfg := ⟨pa, pb, ← kvNat args "ta", ← kvNat args "tb", ← kvNat args "maxa", ← kvNat args "maxb"⟩
    let ops ← (kv args "ops").bind parseOps
    let tab ← (kv args "orc").bind parseOracle
    let H : Bytes → Bytes := fun pre => (lookup tab pre).getD []
    -- which digests does this run need?
    let spre := sessionPreimage pa pb
    match lookup tab spre with
    | none => some ("need " ++ hexOrDash spre)
    | some sid =>
      let pres := ops.filterMap fun o =>
        match o with
        | .add _ d => some (protocolPreimage sid d.pid d.ctx)
        | _ => none
      let missing := (pres.filter fun p => (lookup tab p).isNone).eraseDups
      if !missing.isEmpty then some ("need " ++ showBytesList missing) else
      let st := run H c ops
      some (showLink H c st)
  | "hub" => do
    let cfgs ← ((← kv args "links").splitOn ";").mapM parseCfg
    let ops ← (kv args "ops").bind parseHubOps
    let tab ← (kv args "orc").bind parseOracle
    let H : Bytes → Bytes := fun pre => (lookup tab pre).getD []
    -- session ids first
    let spres := cfgs.map fun c => sessionPreimage c.pA c.pB
    let missS := (spres.filter fun p => (lookup tab p).isNone).eraseDups
    if !missS.isEmpty then some ("need " ++ showBytesList missS) else
    -- the protocol preimages: a hub directive is hashed under every link's session id, a
    -- spoke's directive under its own link's
    let idx := List.range cfgs.length
    let pres := (idx.zip cfgs).flatMap fun (i, c) =>
      let sid := c.sid H .A
      ops.filterMap fun o =>
        match o with
        | .add d => some (protocolPreimage sid d.pid d.ctx)
        | .link j (.add _ d) => if j = i then some (protocolPreimage sid d.pid d.ctx) else none
        | _ => none
    let missing := (pres.filter fun p => (lookup tab p).isNone).eraseDups
    if !missing.isEmpty then some ("need " ++ showBytesList missing) else
    let st := SolicitHub.run H cfgs ops
    some (" | ".intercalate ((cfgs.zip st).map fun (c, s) => showLink H c s))
  | _ => none

end Driver.Solicitsys
