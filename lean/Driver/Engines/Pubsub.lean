import Driver.Util
import Bifrost.Model.Pubsub
/-! Driver ops of engine `pubsub` (C27, C28, C29). -/
namespace Driver.Pubsub
open Bifrost Bifrost.Codec Bifrost.Sign Bifrost.Pubsub Driver

def sortNat (l : List Nat) : List Nat := (l.toArray.qsort (· < ·)).toList
def sortStr (l : List String) : List String := (l.toArray.qsort (· < ·)).toList

def plusNats (l : List Nat) : String := if l.isEmpty then "_" else "+".intercalate (l.map toString)

def parsePlusNats (s : String) : Option (List Nat) :=
  if s = "_" then some [] else (s.splitOn "+").mapM String.toNat?

/-! ### C27 -/

def parseTpl (s : String) : Option Tpl :=
  match s.splitOn "/" with
  | [p, l] => do some (← unhex p, ← l.toNat?)
  | _ => none

def showTpl (t : Tpl) : String := s!"{hexOrDash t.1}/{t.2}"

def parseList {α} (sep : String) (f : String → Option α) (s : String) : Option (List α) :=
  if s = "_" then some [] else (s.splitOn sep).mapM f

def parseChan (s : String) : Option (Bytes × Nat) :=
  match s.splitOn ":" with
  | [c, n] => do some (← unhex c, ← n.toNat?)
  | _ => none

def parsePc (s : String) : Option (Bytes × List Tpl) :=
  match s.splitOn ":" with
  | [c, l] => do some (← unhex c, ← parseList "+" parseTpl l)
  | _ => none

def parseRouter (args : List String) : Option Router := do
  let chans ← (kv args "chans").bind (parseList "," parseChan)
  let pc ← (kv args "pc").bind (parseList "," parsePc)
  let peers ← (kv args "peers").bind (parseList "," parseTpl)
  let seen ← kvBytesList args "seen"
  some { channels := chans, peerChannels := pc, peers := peers, seen := seen }

def showPubErr : PubErr → String
  | .decode => "decode"
  | .invalidInner => "invalidInner"
  | .sign e => s!"sign.{(toString (repr e)).replace "Bifrost.Sign.EavErr." ""}"

def showTpls (l : List Tpl) : String :=
  if l.isEmpty then "_" else ",".intercalate (sortStr (l.map showTpl))

/-- Oracle-driven evaluation of `handlePublishOne` (see `Driver.Sign.runEav`): the harness answers
`hash …`, `verify …` and `mid …` (BLAKE3 of the message key) with library primitives. -/
def runHandle (r : Router) (prev : Bytes) (m : SignedMsg) (args : List String) : String :=
  let probeSum : SumFn := fun _ _ => some []
  let probeVerify : VerifyFn := fun _ _ _ => true
  match Pubsub.extractAndVerify probeVerify probeSum m with
  | .error e => s!"rejected {showPubErr e}"
  | .ok (i, pk, _) =>
    match kvBytes args "hash" with
    | none => s!"hash ht={m.signature.hashType} data={hexOrDash m.data}"
    | some h =>
      let sum : SumFn := fun t d => if t = m.signature.hashType ∧ d = m.data then some h else none
      let body := signBody (pubContext i.channel) m.signature.hashType h
      match kvNat args "vbit" with
      | none => s!"verify pk={hexOrDash pk} body={hexOrDash body} sig={hexOrDash m.signature.sigData}"
      | some vb =>
        let verify : VerifyFn := fun pk' b' s' =>
          if pk' = pk ∧ b' = body ∧ s' = m.signature.sigData then vb = 1 else false
        let needMid : Bool :=
          match Pubsub.extractAndVerify verify sum m with
          | .error _ => false
          | .ok (i', _, _) => (lookupCh r.channels i'.channel).isSome
        match needMid, kvBytes args "mid" with
        | true, none => s!"mid key={hexOrDash (msgKey m)}"
        | _, midAns =>
          let mid : Bytes → Bytes := fun k => if k = msgKey m then midAns.getD [] else []
          match handlePublishOne verify sum mid r prev m with
          | (_, .rejected e, _) => s!"rejected {showPubErr e}"
          | (_, .notSubscribed ch, _) => s!"nosub ch={hexOrDash ch}"
          | (_, .duplicate, _) => "dup"
          | (r', .accepted ch sender data n, fw) =>
            s!"ok ch={hexOrDash ch} sender={hexOrDash sender} data={hexOrDash data} nsubs={n} fwd={showTpls fw} id={hexOrDash (r'.seen.headD [])}"

/-! ### C28 -/

def parseKnow (s : String) : Option (Nat × Nat) :=
  match s.splitOn "/" with
  | [c, p] => do some (← c.toNat?, ← p.toNat?)
  | _ => none

def parseCfg (s : String) : Option Net.Cfg :=
  match s.splitOn "|" with
  | [a, b, c] => do
    some { subs := ← parsePlusNats a, know := ← parseList "+" parseKnow b, peers := ← parsePlusNats c }
  | _ => none

def parsePub (s : String) : Option (Nat × Net.Msg) :=
  match s.splitOn "/" with
  | [n, i, o, c] => do some (← n.toNat?, ⟨← i.toNat?, ← o.toNat?, ← c.toNat?⟩)
  | _ => none

def cfgFun (l : List Net.Cfg) : Nat → Net.Cfg := fun n => l.getD n {}

/-! ### C29 -/

def parseSubEv (s : String) : Option Sub.Ev :=
  match s.splitOn ":" with
  | ["add", h] => do some (.add (← h.toNat?))
  | ["remove", h] => do some (.remove (← h.toNat?))
  | ["relA"] => some .relA
  | ["relB"] => some .relB
  | ["spawn", m] => do some (.spawn (← m.toNat?))
  | ["run", k] => do some (.run (← k.toNat?))
  | _ => none

def parseExecEv (s : String) : Option Exec.Ev :=
  match s.splitOn ":" with
  | ["addSub", c] => do some (.addSub (← c.toNat?))
  | ["release", c] => do some (.release (← c.toNat?))
  | ["addPeer", p] => do some (.addPeer (← p.toNat?))
  | ["endPeer", p] => do some (.endPeer (← p.toNat?))
  | ["region1"] => some .region1
  | ["region2"] => some .region2
  | ["wakeup"] => some .wakeup
  | _ => none

def parseCtlEv (s : String) : Option Ctl.Ev :=
  match s.splitOn ":" with
  | ["added", u, a, b] => do some (.added ⟨← u.toNat?, ← unhex a, ← unhex b⟩)
  | ["removed", u, a, b] => do some (.removed ⟨← u.toNat?, ← unhex a, ← unhex b⟩)
  | ["loop"] => some .loop
  | ["track", k] => do some (.track (← k.toNat?))
  | _ => none

def parseRecvEv (s : String) : Option Recv.Ev :=
  match s.splitOn ":" with
  | ["start"] => some .start
  | ["recv", k, c, b] => do some (.recv (← k.toNat?) (← c.toNat?) ((← b.toNat?) != 0))
  | ["end", k] => do some (.endS (← k.toNat?))
  | _ => none

def parseSendQEv (i : Nat) (s : String) : Option SendQ.Ev :=
  match s.splitOn ":" with
  | ["write"] => some (.write i)
  | ["write", p] => do some (.write (← p.toNat?))
  | ["take"] => some .take
  | ["flush"] => some .flush
  | _ => none

def parseReplaceEv (s : String) : Option Replace.Ev :=
  match s.splitOn ":" with
  | ["add"] => some .add
  | ["start"] => some .start
  | ["announce", b] => do some (.announce ((← b.toNat?) != 0))
  | ["publish", i] => do some (.publish (← i.toNat?))
  | ["take"] => some .take
  | ["end"] => some .endCur
  | _ => none

def dedupNat (l : List Nat) : List Nat := l.foldl (fun acc x => if acc.contains x then acc else acc ++ [x]) []

def handle (op : String) (args : List String) : Option String :=
  match op with
  | "inner" => do
    let d ← kvBytes args "data"
    match Inner.unmarshal d with
    | none => some "err"
    | some i => some s!"ok data={hexOrDash i.data} ch={hexOrDash i.channel} secs={i.seconds} nanos={i.nanos} valid={if i.validate then 1 else 0}"
  | "ctx" => do
    let ch ← kvBytes args "ch"
    some s!"ok {hexOrDash (pubContext ch)}"
  | "handle" => do
    let r ← parseRouter args
    let prev ← kvBytes args "prev"
    let frm ← kvBytes args "from"
    let spk ← kvBytes args "spk"
    let ht ← kvInt args "ht"
    let sg ← kvBytes args "sig"
    let data ← kvBytes args "data"
    let m : SignedMsg := { fromPeerId := frm, signature := { pubKey := spk, hashType := ht, sigData := sg }, data := data }
    some (runHandle r prev m args)
  | "targets" => do
    -- `execPublish` at (peer, link) granularity on the router's real tables
    let r ← parseRouter args
    let ch ← kvBytes args "ch"
    let frm ← kvBytes args "from"
    let prev ← kvBytes args "prev"
    some s!"ok {showTpls (execPublishTargets r ch frm prev)}"
  | "fwd" => do
    let know ← (kv args "know").bind (parseList "+" parseKnow)
    let peers ← (kv args "peers").bind parsePlusNats
    let origin ← kvNat args "origin"
    let prev ← kvNat args "prev"
    let ch ← kvNat args "ch"
    let nd : Net.Node := { know := know, peers := peers }
    some s!"ok {plusNats (sortNat (dedupNat (Net.fwdTargets nd ⟨0, origin, ch⟩ prev)))}"
  | "flood" => do
    let cfgs ← (kv args "nodes").bind (parseList ";" parseCfg)
    let pubs ← (kv args "pubs").bind (parseList "," parsePub)
    let ns := List.range cfgs.length
    let fuel := 10000
    let final := pubs.foldl (fun s (p : Nat × Net.Msg) =>
      Net.schedule ns fuel (Net.step s (.publish p.1 p.2))) (Net.init (cfgFun cfgs))
    let dels := ns.map fun n => s!"{n}:{plusNats (sortNat (final.nodes n).delivered)}"
    let seens := ns.map fun n => s!"{n}:{plusNats (sortNat (final.nodes n).seen)}"
    let echo := final.sent.any fun x => x.dst = x.msg.origin || x.dst = x.prev
    some s!"ok del={",".intercalate dels} seen={",".intercalate seens} quiescent={if Net.quiescent final ns then 1 else 0} sends={final.sent.length} echo={if echo then 1 else 0}"
  | "opens" => do
    let a ← kvBytes args "a"
    let b ← kvBytes args "b"
    some s!"ok {if opensStream a b then 1 else 0}"
  | "sub" => do
    let evs ← (kv args "evs").bind (parseList "," parseSubEv)
    let s := Sub.run {} evs
    let calls := s.calls.map fun c => s!"{c.1}/{c.2.1}"
    some s!"ok calls={if calls.isEmpty then "_" else ",".intercalate calls} handlers={plusNats (sortNat s.handlers)} pending={plusNats s.pending} inchan={if s.inChan then 1 else 0}"
  | "ctl" => do
    let evs ← (kv args "evs").bind (parseList "," parseCtlEv)
    let s := Ctl.run {} evs
    some s!"ok opened={plusNats (sortNat (s.opened.map (·.uuid)))} inc={s.inc.length} tracked={s.tracked.length}"
  | "recv" => do
    let evs ← (kv args "evs").bind (parseList "," parseRecvEv)
    let s := Recv.run {} evs
    some s!"ok know={plusNats (sortNat s.know)} cur={match s.cur with | some k => toString k | none => "-"} live={plusNats (sortNat s.live)}"
  | "replace" => do
    let cap ← kvNat args "cap"
    let evs ← (kv args "evs").bind (parseList "," parseReplaceEv)
    let pre := (kvNat args "pre").getD 0
    let s := if pre = 1 then Replace.runPre { cap := cap } evs else Replace.run { cap := cap } evs
    let q := match s.cur with | some x => plusNats x.queue | none => "-"
    let st := match s.cur with | some x => (if x.started then "1" else "0") | none => "-"
    some s!"ok panicked={if s.panicked then 1 else 0} started={st} queue={q} skipped={plusNats s.skipped} blockedInit={if s.blockedInit then 1 else 0}"
  | "sendq" => do
    let cap ← kvNat args "cap"
    let raw ← kv args "evs"
    let toks := if raw = "_" then [] else raw.splitOn ","
    let evs ← (toks.zipIdx.mapM fun (t, i) => parseSendQEv i t)
    let s := SendQ.run { cap := cap } evs
    some s!"ok inflight={if s.inflight.isSome then 1 else 0} queue={s.queue.length} blocked={if s.blocked = 0 then 0 else 1} accepted={s.accepted.length} delivered={s.delivered.length}"
  | "exec" => do
    let evs ← (kv args "evs").bind (parseList "," parseExecEv)
    let s := Exec.run {} evs
    let peers := sortNat (dedupNat s.known)
    let bel := peers.map fun p => s!"{p}:{plusNats (sortNat (Exec.belief s p))}"
    let chans := (s.channels.map fun e => s!"{e.1}:{e.2}")
    let ntold := peers.map fun p => s!"{p}:{(s.told p).length}"
    some s!"ok ntold={if ntold.isEmpty then "_" else ",".intercalate ntold} pc={s.pc} wake={if s.wake then 1 else 0} chans={if chans.isEmpty then "_" else ",".intercalate (sortStr chans)} pubbed={plusNats (sortNat s.pubbed)} inc={plusNats (sortNat s.inc)} running={plusNats (sortNat s.running)} beliefs={if bel.isEmpty then "_" else ",".intercalate bel}"
  | _ => none

end Driver.Pubsub
