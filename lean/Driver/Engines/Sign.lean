import Driver.Util
import Bifrost.Model.Sign
namespace Driver.Sign
open Bifrost Bifrost.Codec Bifrost.Sign Driver

/-- Oracle-driven evaluation. The harness answers `hash …` and `verify …` requests by calling
the standard library directly and re-sends the op with `hash=`/`vbit=` appended. The oracles
handed to the model answer only for exactly the inputs that were asked about. -/
def runEav (m : SignedMsg) (ctx : Bytes) (args : List String) : String :=
  let hashAns := kvBytes args "hash"
  let vbit := kvNat args "vbit"
  -- phase 1: which digest does the model need?
  let probeSum : SumFn := fun _ _ => some []
  let probeVerify : VerifyFn := fun _ _ _ => true
  match extractAndVerify probeVerify probeSum m ctx with
  | .error e => s!"err {repr e}"
  | .ok (pk, _) =>
    match hashAns with
    | none => s!"hash ht={m.signature.hashType} data={hexOrDash m.data}"
    | some h =>
      let sum : SumFn := fun t d => if t = m.signature.hashType ∧ d = m.data then some h else none
      let body := signBody ctx m.signature.hashType h
      match vbit with
      | none => s!"verify pk={hexOrDash pk} body={hexOrDash body} sig={hexOrDash m.signature.sigData}"
      | some vb =>
        let verify : VerifyFn := fun pk' b' s' =>
          if pk' = pk ∧ b' = body ∧ s' = m.signature.sigData then vb = 1 else false
        match extractAndVerify verify sum m ctx with
        | .ok (pk, id) => s!"ok pk={hexOrDash pk} id={hexOrDash id}"
        | .error e => s!"err {repr e}"

def handle (op : String) (args : List String) : Option String :=
  match op with
  | "body" => do
    let ctx ← kvBytes args "ctx"
    let ht ← kvInt args "ht"
    let h ← kvBytes args "h"
    some ("ok " ++ hexOrDash (signBody ctx ht h))
  | "hashed" => do
    -- NewSignatureWithHashedData with `sign := id`: the answer names the body to be signed
    let ctx ← kvBytes args "ctx"
    let ht ← kvInt args "ht"
    let hd ← kvBytes args "hd"
    let incl ← kvNat args "incl"
    let pub ← kvBytes args "pub"
    match newSignatureWithHashedData id pub ctx ht hd (incl = 1) with
    | none => some "err"
    | some s => some s!"ok ht={s.hashType} spk={hexOrDash s.pubKey} body={hexOrDash s.sigData}"
  | "newsig" => do
    -- NewSignature(ctx, sk, ht, data, incl): the digest is asked from the harness
    let ctx ← kvBytes args "ctx"
    let ht ← kvInt args "ht"
    let data ← kvBytes args "data"
    let incl ← kvNat args "incl"
    let pub ← kvBytes args "pub"
    if !hashTypeSupported ht then some "err" else
    match kvBytes args "hash" with
    | none => some s!"hash ht={ht} data={hexOrDash data}"
    | some h =>
      let sum : SumFn := fun t d => if t = ht ∧ d = data then some h else none
      match newSignatureIncl id pub sum ctx ht data (incl = 1) with
      | none => some "err"
      | some s => some s!"ok ht={s.hashType} spk={hexOrDash s.pubKey} body={hexOrDash s.sigData}"
  | "validate" => do
    let pk ← kvBytes args "pk"
    let ht ← kvInt args "ht"
    let sg ← kvBytes args "sig"
    some (if (Signature.mk pk ht sg).validate then "ok" else "err")
  | "vwp" => do
    let pk ← kvBytes args "pk"
    let ctx ← kvBytes args "ctx"
    let ht ← kvInt args "ht"
    let sg ← kvBytes args "sig"
    let data ← kvBytes args "data"
    let s : Signature := { hashType := ht, sigData := sg }
    let probe := verifyWithPublic (fun _ _ _ => true) (fun _ _ => some []) s ctx pk data
    if probe = .err then some "err" else
    match kvBytes args "hash" with
    | none => some s!"hash ht={ht} data={hexOrDash data}"
    | some h =>
      let sum : SumFn := fun t d => if t = ht ∧ d = data then some h else none
      let body := signBody ctx ht h
      match kvNat args "vbit" with
      | none => some s!"verify pk={hexOrDash pk} body={hexOrDash body} sig={hexOrDash sg}"
      | some vb =>
        let verify : VerifyFn := fun pk' b' s' => if pk' = pk ∧ b' = body ∧ s' = sg then vb = 1 else false
        match verifyWithPublic verify sum s ctx pk data with
        | .good => some "ok 1"
        | .bad => some "ok 0"
        | .err => some "err"
  | "eav" => do
    let frm ← kvBytes args "from"
    let spk ← kvBytes args "spk"
    let ht ← kvInt args "ht"
    let sg ← kvBytes args "sig"
    let data ← kvBytes args "data"
    let ctx ← kvBytes args "ctx"
    let m : SignedMsg := { fromPeerId := frm, signature := { pubKey := spk, hashType := ht, sigData := sg }, data := data }
    some (runEav m ctx args)
  | "eavwire" => do
    let wire ← kvBytes args "wire"
    let ctx ← kvBytes args "ctx"
    match SignedMsg.unmarshal wire with
    | none => some "err unmarshal"
    | some m => some (runEav m ctx args)
  | "unmarshal" => do
    let wire ← kvBytes args "wire"
    match SignedMsg.unmarshal wire with
    | none => some "err"
    | some m => some s!"ok from={hexOrDash m.fromPeerId} spk={hexOrDash m.signature.pubKey} ht={m.signature.hashType} sig={hexOrDash m.signature.sigData} data={hexOrDash m.data}"
  | _ => none

end Driver.Sign
