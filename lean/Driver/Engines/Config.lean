import Driver.Util
import Bifrost.Model.Config
namespace Driver.Config
open Bifrost Bifrost.Codec Bifrost.Config Driver

/-!
Oracle protocol: standard-library codecs are parameters of the model. When an op needs one,
the driver answers `ask <arg> <kind> <payload>`; the harness computes the answer by calling the
library directly on exactly that payload and re-sends the op with `<arg>=<answer>` appended.
Kinds: `pem` (pem.Decode; answer `none` or `type:bytes:rest` in hex), `quote` (strconv.Quote),
`json` (Timestamp.UnmarshalJSON; `none` or `secs,nanos`), `dur` (time.ParseDuration; `none` or
nanoseconds), `durfmt` (Duration.String), `tsfmt` (AsTime().Format(RFC3339Nano)), `url`
(url.Parse; `none` or hex of a canonical rendering), `re` (regexp.Compile; `none` or hex).
-/

def showRes {α : Type} (f : α → String) : Res α → String
  | .ok a => "ok " ++ f a
  | .err => "err"
  | .panic => "panic"

def optHex : Option Bytes → String
  | none => "nil"
  | some b => hexOrDash b

/-- The symbolic PEM encoder of the driver: `type ‖ 0 ‖ bytes` (types contain no zero byte). -/
def symEncode (t b : Bytes) : Bytes := t ++ 0 :: b

def symSplit : Bytes → Bytes × Bytes
  | [] => ([], [])
  | a :: rest => if a = 0 then ([], rest) else let r := symSplit rest; (a :: r.1, r.2)

def showBlock (d : Bytes) : String :=
  let r := symSplit d
  s!"type={hexOrDash r.1} bytes={hexOrDash r.2}"

def parsePemAnswer (s : String) : Option (Option (Bytes × Bytes × Bytes)) :=
  if s = "none" then some none else
  match s.splitOn ":" with
  | [t, b, r] => do
    let t ← unhex t
    let b ← unhex b
    let r ← unhex r
    some (some (t, b, r))
  | _ => none

/-- A PEM codec that knows the answer for exactly one input. -/
def pemOf (q : Bytes) (ans : Option (Bytes × Bytes × Bytes)) : PemCodec :=
  { encode := symEncode, decode := fun d => if d = q then ans else none }

/-- Run `f` with the PEM oracle for input `q` (ask for it first if not supplied). -/
def withPem (args : List String) (q : Bytes) (f : PemCodec → String) : Option String :=
  match kv args "pem" with
  | none => some s!"ask pem pem {hexOrDash q}"
  | some a => do
    let ans ← parsePemAnswer a
    some (f (pemOf q ans))

/-- PEM oracle for up to two inputs (`pem=`, `pem2=`); `none` entries are not needed. -/
def withPem2 (args : List String) (q1 q2 : Option Bytes) (f : PemCodec → String) : Option String :=
  let need (q : Option Bytes) (arg : String) : Option (Option (Bytes × Option (Bytes × Bytes × Bytes)) ⊕ String) :=
    match q with
    | none => some (.inl none)
    | some qb =>
      match kv args arg with
      | none => some (.inr s!"ask {arg} pem {hexOrDash qb}")
      | some a => (parsePemAnswer a).map fun ans => .inl (some (qb, ans))
  match need q1 "pem" with
  | none => none
  | some (.inr ask) => some ask
  | some (.inl e1) =>
    match need q2 "pem2" with
    | none => none
    | some (.inr ask) => some ask
    | some (.inl e2) =>
      let look (e : Option (Bytes × Option (Bytes × Bytes × Bytes))) (d : Bytes) : Option (Option (Bytes × Bytes × Bytes)) :=
        match e with
        | some (qb, ans) => if d = qb then some ans else none
        | none => none
      some (f { encode := symEncode, decode := fun d =>
        match look e1 d with
        | some a => a
        | none => (look e2 d).getD none })

/-- the PEM question a config key string leads to, if any -/
def pemQuestion (s : Bytes) : Option Bytes :=
  let t := trimSpace s
  if !t.isEmpty && hasPrefix t pemBegin then some t else none

def noPem : PemCodec := { encode := symEncode, decode := fun _ => none }

def parseTsAnswer (s : String) : Option (Option Ts) :=
  if s = "none" then some none else
  match s.splitOn "," with
  | [a, b] => do
    let a ← a.toInt?
    let b ← b.toInt?
    some (some (a, b))
  | _ => none

def parseIntAnswer (s : String) : Option (Option Int) :=
  if s = "none" then some none else (s.toInt?).map some

def parseBytesAnswer (s : String) : Option (Option Bytes) :=
  if s = "none" then some none else (unhex s).map some

def showKeyOpt (r : Res (Option Bytes)) : String := showRes optHex r

def showList (o : Option (List Bytes)) : String :=
  match o with
  | none => "err"
  | some l => "ok " ++ showBytesList l

def bool01 (s : String) : Option Bool := if s = "1" then some true else if s = "0" then some false else none

/-- keys in sorted order (Go maps are unordered; the harness sorts too). -/
def showPeers (m : List (Bytes × List Bytes)) : String :=
  if m.isEmpty then "_" else
  let keys := sortStrings (m.map (·.1))
  ";".intercalate (keys.map fun k =>
    match m.find? (fun kv => kv.1 = k) with
    | some kv => hexOrDash k ++ ":" ++ showBytesList kv.2
    | none => hexOrDash k ++ ":?")

def parseFs (s : String) : Option FsState :=
  if s = "missing" then some .missing
  else if s = "staterr" then some .statErr
  else if s = "dir" then some .dir
  else match s.splitOn ":" with
    | ["file", h] => (unhex h).map .file
    | _ => none

def showKeyErr (r : KeyErr) : String :=
  s!"key={optHex r.key} err={if r.err then 1 else 0}"

/-- `nil` or `<key type>:<hex raw bytes>` -/
def parseKeyVal (s : String) : Option (Option KeyVal) :=
  if s = "nil" then some none else
  match s.splitOn ":" with
  | [t, r] => do
    let t ← t.toInt?
    let r ← unhex r
    some (some ⟨t, r⟩)
  | _ => none

def parseOptKey (s : String) : Option (Option Bytes) :=
  if s = "nil" then some none else (unhex s).map some

def showPeerInfo (r : PeerInfo) : String :=
  s!"priv={optHex r.priv} pub={hexOrDash r.pub} id={hexOrDash r.id}"

def showFsAfter (before after : FsState) : String :=
  match after with
  | .missing => "missing"
  | .statErr => "staterr"
  | .dir => "dir"
  | .file b => if before = after then "same" else "file " ++ showBlock b

/-- run `f` with the PEM oracle for the content of a file state (no question for non-files) -/
def withFsPem (args : List String) (fs : FsState) (f : PemCodec → String) : Option String :=
  match fs with
  | .file b => withPem args b f
  | _ => some (f noPem)

def handle (op : String) (args : List String) : Option String :=
  match op with
  -- ---------- C11: Equals, key generation, nil keys ----------
  | "keyEquals" => do
    let a ← (← kv args "a") |> parseKeyVal
    let b ← (← kv args "b") |> parseKeyVal
    let a ← a
    some (if keyEquals a b then "ok 1" else "ok 0")
  | "generate" => do
    let typ ← kvInt args "typ"
    let src ← kvBytes args "src"
    if typ = keyTypeEd25519 ∧ 32 ≤ src.length then
      match kvBytes args "pub" with
      | none => some s!"ask pub edpub {hexOrDash (src.take 32)}"
      | some pub =>
        some (showRes (fun r => s!"priv={hexOrDash r.1} pub={hexOrDash r.2}")
          (generateKeyPair (fun x => if x = src.take 32 then pub else []) typ src))
    else
      some (showRes (fun r => s!"priv={hexOrDash r.1} pub={hexOrDash r.2}") (generateKeyPair (fun _ => []) typ src))
  | "marshalOpt" => do
    let which ← kv args "which"
    let k ← (← kv args "k") |> parseOptKey
    match which with
    | "priv" => some (showRes hexOrDash (marshalPrivateKeyOpt k))
    | "pub" => some (showRes hexOrDash (marshalPublicKeyOpt k))
    | "privPem" => some (showRes showBlock (marshalPrivKeyPemOpt noPem k))
    | "pubPem" => some (showRes showBlock (marshalPubKeyPemOpt noPem k))
    | "confPriv" => some (showRes hexOrDash (confMarshalPrivateKeyOpt k))
    | "confPub" => some (showRes hexOrDash (confMarshalPublicKeyOpt k))
    | _ => none
  -- ---------- C38: ValidatePeerID, static controller ----------
  | "validatePeerId" => do
    let s ← kvBytes args "s"
    some (if validatePeerId s then "ok 1" else "ok 0")
  | "staticCtl" => do
    let l ← kvBytesList args "l"
    let q ← kvBytesList args "q"
    let valid := if staticConfigValid l then 1 else 0
    match newStaticController l with
    | none => some s!"ok valid={valid} ctl=err"
    | some m =>
      let res := q.map fun pid => hexOrDash pid ++ ":" ++ showBytesList (resolveLookup m pid)
      some s!"ok valid={valid} ctl=ok res={if res.isEmpty then "_" else ";".intercalate res}"
  -- ---------- C39: read-only uses of key files ----------
  | "readPriv" => do
    let fs ← (kv args "fs").bind parseFs
    withFsPem args fs fun P => showRes showPeerInfo (readPrivPeer P fs)
  | "readPub" => do
    let fs ← (kv args "fs").bind parseFs
    withFsPem args fs fun P => showRes showPeerInfo (readPubPeer P fs)
  | "loadPub" => do
    let fs ← (kv args "fs").bind parseFs
    let gen ← kv args "gen"
    let gen ← if gen = "none" then some none else (unhex gen).map some
    let w ← (kv args "write").bind bool01
    withFsPem args fs fun P =>
      let r := loadPubKey P gen w fs
      showRes hexOrDash r.1 ++ " fs=" ++ showFsAfter fs r.2
  | "loadPriv" => do
    let fs ← (kv args "fs").bind parseFs
    let gen ← kv args "gen"
    let gen ← if gen = "none" then some none else (unhex gen).map some
    let w ← (kv args "write").bind bool01
    withFsPem args fs fun P =>
      let r := loadPrivKey P gen w fs
      showRes hexOrDash r.1 ++ " fs=" ++ showFsAfter fs r.2
  | "subscribe" => do
    let txt ← kvBytes args "txt"
    withPem args txt fun P => showRes showPeerInfo (privPeerOfPem P txt)
  | "daemon" => do
    let fs ← (kv args "fs").bind parseFs
    let gen ← kv args "gen"
    let gen ← if gen = "none" then some none else (unhex gen).map some
    let w ← (kv args "write").bind bool01
    withFsPem args fs fun P =>
      let r := daemonKey P gen w fs
      showRes hexOrDash r.1 ++ " fs=" ++ showFsAfter fs r.2
  -- ---------- strings ----------
  | "trimSpace" => do
    let s ← kvBytes args "s"
    some ("ok " ++ hexOrDash (trimSpace s))
  -- ---------- C11: keys ----------
  | "marshalPriv" => do
    let k ← kvBytes args "k"
    some ("ok " ++ hexOrDash (marshalPrivateKey k))
  | "unmarshalEdPriv" => do
    let d ← kvBytes args "d"
    some (showRes hexOrDash (unmarshalEd25519PrivateKey d))
  | "unmarshalPriv" => do
    let b ← kvBytes args "b"
    some (showRes hexOrDash (unmarshalPrivateKey b))
  | "marshalPub" => do
    let p ← kvBytes args "p"
    some ("ok " ++ hexOrDash (marshalPublicKey p))
  | "unmarshalPub" => do
    let b ← kvBytes args "b"
    some (showRes hexOrDash (unmarshalPublicKeyR b))
  | "getPublic" => do
    let k ← kvBytes args "k"
    some (showRes hexOrDash (getPublic k))
  | "idFromPriv" => do
    let k ← kvBytes args "k"
    some (showRes hexOrDash (idFromPrivateKey k))
  | "stdKey" => do
    let k ← kvBytes args "k"
    some (showRes (fun r => s!"priv={hexOrDash r.1} pub={hexOrDash r.2} std={hexOrDash (privKeyToStdKey r.1)}") (keyPairFromStdKey k))
  | "marshalPrivPem" => do
    let k ← kvBytes args "k"
    some ("ok " ++ showBlock (marshalPrivKeyPem noPem k))
  | "marshalPubPem" => do
    let p ← kvBytes args "p"
    some ("ok " ++ showBlock (marshalPubKeyPem noPem p))
  | "parseKeyPem" => do
    let d ← kvBytes args "d"
    withPem args d fun P =>
      showRes (fun r => s!"priv={optHex r.1} pub={optHex r.2}") (parseKeyPem P d)
  | "parsePrivKeyPem" => do
    let d ← kvBytes args "d"
    withPem args d fun P => showKeyOpt (parsePrivKeyPem P d)
  | "parsePubKeyPem" => do
    let d ← kvBytes args "d"
    withPem args d fun P => showKeyOpt (parsePubKeyPem P d)
  | "confPrivPem" => do
    let d ← kvBytes args "d"
    if d.isEmpty then some (showKeyOpt (parsePrivateKeyPEM noPem d)) else
    withPem args d fun P => showKeyOpt (parsePrivateKeyPEM P d)
  | "confPubPem" => do
    let d ← kvBytes args "d"
    if d.isEmpty then some (showKeyOpt (parsePublicKeyPEM noPem d)) else
    withPem args d fun P => showKeyOpt (parsePublicKeyPEM P d)
  | "confPriv" => do
    let s ← kvBytes args "s"
    let t := trimSpace s
    if !t.isEmpty && hasPrefix t pemBegin then
      withPem args t fun P => showKeyOpt (parsePrivateKey P s)
    else some (showKeyOpt (parsePrivateKey noPem s))
  | "confPub" => do
    let s ← kvBytes args "s"
    let t := trimSpace s
    if !t.isEmpty && hasPrefix t pemBegin then
      withPem args t fun P => showKeyOpt (parsePublicKey P s)
    else some (showKeyOpt (parsePublicKey noPem s))
  | "confMarshalPriv" => do
    let k ← kvBytes args "k"
    some ("ok " ++ hexOrDash (confMarshalPrivateKey k))
  | "confMarshalPub" => do
    let p ← kvBytes args "p"
    some ("ok " ++ hexOrDash (confMarshalPublicKey p))
  | "parsePeer" => do
    let priv ← kvBytes args "priv"
    let pub ← kvBytes args "pub"
    let id ← kvBytes args "id"
    withPem2 args (pemQuestion priv) (pemQuestion pub) fun P =>
      showRes (fun r => s!"priv={optHex r.priv} pub={hexOrDash r.pub} id={hexOrDash r.id}") (parsePeer P priv pub id)
  | "validatePubKey" => do
    let s ← kvBytes args "s"
    let id ← kvBytes args "id"
    withPem2 args (pemQuestion s) none fun P =>
      showRes (fun b => if b then "1" else "0") (validatePubKey P s id)
  -- ---------- C38: configuration parsers ----------
  | "protoId" => do
    let s ← kvBytes args "s"
    let allow ← (kv args "allow").bind bool01
    some (match parseProtocolId s allow with | some p => "ok " ++ hexOrDash p | none => "err")
  | "protoIds" => do
    let l ← kvBytesList args "l"
    let allow ← (kv args "allow").bind bool01
    some (showList (parseProtocolIds l allow))
  | "protoIdsUnique" => do
    let l ← kvBytesList args "l"
    let allow ← (kv args "allow").bind bool01
    some (showList (parseProtocolIdsUnique l allow))
  | "peerId" => do
    let s ← kvBytes args "s"
    some (match parsePeerId s with | some p => "ok " ++ hexOrDash p | none => "err")
  | "peerIds" => do
    let l ← kvBytesList args "l"
    let allow ← (kv args "allow").bind bool01
    some (showList (parsePeerIds l allow))
  | "peerIdsUnique" => do
    let l ← kvBytesList args "l"
    let allow ← (kv args "allow").bind bool01
    some (showList (parsePeerIdsUnique l allow))
  | "tptAddr" => do
    let s ← kvBytes args "s"
    some (match parseTptAddr s with
      | some (t, a) => s!"ok t={hexOrDash t} a={hexOrDash a}"
      | none => "err")
  | "peerAddrMap" => do
    let l ← kvBytesList args "l"
    let r := parsePeerAddressMap l
    some s!"ok errs={r.2} peers={showPeers r.1}"
  | "duration" => do
    let s ← kvBytes args "s"
    if s.isEmpty then some (match parseDuration (fun _ => none) s with | some d => s!"ok {d}" | none => "err") else
    match kv args "d" with
    | none => some s!"ask d dur {hexOrDash s}"
    | some a => do
      let ans ← parseIntAnswer a
      some (match parseDuration (fun x => if x = s then ans else none) s with | some d => s!"ok {d}" | none => "err")
  | "marshalDuration" => do
    let d ← kvInt args "d"
    let ie ← (kv args "ie").bind bool01
    if (marshalDuration (fun _ => [1]) d ie).isEmpty then some "ok -" else
    match kvBytes args "f" with
    | none => some s!"ask f durfmt {d}"
    | some f => some ("ok " ++ hexOrDash (marshalDuration (fun x => if x = d then f else []) d ie))
  | "timestamp" => do
    let s ← kvBytes args "s"
    if s.isEmpty then some "ok nil" else
    match kvBytes args "q" with
    | none => some s!"ask q quote {hexOrDash s}"
    | some q =>
      match kv args "j1" with
      | none => some s!"ask j1 json {hexOrDash q}"
      | some a1 => do
        let j1 ← parseTsAnswer a1
        let fin (json : Bytes → Option Ts) : String :=
          match parseTimestamp (fun x => if x = s then q else []) json s with
          | none => "err"
          | some none => "ok nil"
          | some (some t) => s!"ok {t.1},{t.2}"
        match j1 with
        | some _ => some (fin fun x => if x = q then j1 else none)
        | none =>
          match kv args "j2" with
          | none => some s!"ask j2 json {hexOrDash s}"
          | some a2 => do
            let j2 ← parseTsAnswer a2
            -- `q ≠ s` always (q is quoted); if they coincided the first answer wins, as in the model
            some (fin fun x => if x = q then j1 else if x = s then j2 else none)
  | "marshalTimestamp" => do
    let t ← kv args "t"
    if t = "nil" then some ("ok " ++ hexOrDash (marshalTimestamp (fun _ => [1]) none)) else
    match parseTsAnswer t with
    | some (some ts) =>
      match kvBytes args "f" with
      | none => some s!"ask f tsfmt {ts.1},{ts.2}"
      | some f => some ("ok " ++ hexOrDash (marshalTimestamp (fun x => if x = ts then f else []) (some ts)))
    | _ => none
  | "url" => do
    let s ← kvBytes args "s"
    let kind ← kv args "kind"       -- url | re
    if s.isEmpty then some "ok nil" else
    match kv args "u" with
    | none => some s!"ask u {kind} {hexOrDash s}"
    | some a => do
      let ans ← parseBytesAnswer a
      some (match parseOptional (fun x => if x = s then ans else none) s with
        | none => "err"
        | some none => "ok nil"
        | some (some v) => "ok " ++ hexOrDash v)
  | "validateUrl" => do
    let s ← kvBytes args "s"
    let allow ← (kv args "allow").bind bool01
    if s.isEmpty then some (if validateUrl (fun _ => (none : Option Bytes)) s allow then "ok" else "err") else
    match kv args "u" with
    | none => some s!"ask u url {hexOrDash s}"
    | some a => do
      let ans ← parseBytesAnswer a
      some (if validateUrl (fun x => if x = s then ans else none) s allow then "ok" else "err")
  | "urls" => do
    -- the answers for all non-empty entries are supplied up front: `u=<ans>,<ans>,…` (one per entry, `x` for empty entries)
    let l ← kvBytesList args "l"
    let allow ← (kv args "allow").bind bool01
    match kv args "u" with
    | none => some s!"ask u urls {showBytesList l}"
    | some a => do
      let toks := if a = "_" then [] else a.splitOn ","
      if toks.length ≠ l.length then none else
      let anss ← toks.mapM fun t => if t = "x" then some none else parseBytesAnswer t
      let table := l.zip anss
      let parse : Bytes → Option Bytes := fun x =>
        match table.find? (fun p => p.1 = x) with
        | some p => p.2
        | none => none
      some (showList (parseUrls parse l allow))
  -- ---------- C39: key files ----------
  | "openOrWrite" => do
    let fs ← (kv args "fs").bind parseFs
    let gen ← kv args "gen"
    let gen ← if gen = "none" then some none else (unhex gen).map some
    let w ← (kv args "write").bind bool01
    let render (r : Res (KeyErr × FsState)) : String :=
      showRes (fun r =>
        let fsS := match r.2 with
          | .missing => "missing"
          | .statErr => "staterr"
          | .dir => "dir"
          | .file b => if fs = r.2 then "same" else "file " ++ showBlock b
        showKeyErr r.1 ++ " fs=" ++ fsS) r
    match fs with
    | .file b => withPem args b fun P => render (openOrWrite P gen w fs)
    | _ => some (render (openOrWrite noPem gen w fs))
  | "openOrWritePreFix" => do
    let fs ← (kv args "fs").bind parseFs
    let w ← (kv args "write").bind bool01
    match fs with
    | .file b => withPem args b fun P => showRes (fun r => showKeyErr r.1) (openOrWritePreFix P none w fs)
    | _ => some (showRes (fun r => showKeyErr r.1) (openOrWritePreFix noPem none w fs))
  | _ => none

end Driver.Config
