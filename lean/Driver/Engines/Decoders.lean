import Driver.Util
import Bifrost.Model.Packets
import Bifrost.Gen.Limits
/-! Driver engine for C40: the allocation trace of the packet-session read loops, evaluated at
the limits the translator extracted from the call sites of the real code (`Gen.Limits`). -/
namespace Driver.Decoders
open Bifrost Bifrost.Packets Driver

def limitOf (which : String) : Option Nat :=
  match which with
  | "floodsub" => some Bifrost.Gen.Limits.floodsubSessionLimit
  | "solicitInit" => some Bifrost.Gen.Limits.solicitInitiateSessionLimit
  | "solicitHandler" => some Bifrost.Gen.Limits.solicitHandlerSessionLimit
  | _ => none

def oksOf (l : List Nat) : List Bool := l.map (· != 0)

/-- `n:have` = a frame announcing `n` bytes of which `have` are present (zero bytes);
`t:k` = `k` trailing bytes. -/
def frameBytes (tok : String) : Option Bytes :=
  match tok.splitOn ":" with
  | ["t", k] => do
    let k ← k.toNat?
    some (List.replicate k 0)
  | [n, h] => do
    let n ← n.toNat?
    let h ← h.toNat?
    some (le32 n ++ List.replicate h 0)
  | _ => none

def handle (op : String) (args : List String) : Option String :=
  match op with
  | "limits" =>
    some s!"floodsub={Bifrost.Gen.Limits.floodsubMaxMessageSize} floodsubSession={Bifrost.Gen.Limits.floodsubSessionLimit} solicit={Bifrost.Gen.Limits.solicitMaxMessageSize} solicitInit={Bifrost.Gen.Limits.solicitInitiateSessionLimit} solicitHandler={Bifrost.Gen.Limits.solicitHandlerSessionLimit}"
  | "sessalloc" => do
    let which ← kv args "which"
    let max ← limitOf which
    let data ← kvBytes args "chunks"
    let oks ← kvNatList args "oks"
    let a := recvAllocs max (data.length + 1) [data] (oksOf oks)
    some s!"allocs={showNatList a} limit={max}"
  | "sessallocf" => do
    let which ← kv args "which"
    let max ← limitOf which
    let fr ← kv args "frames"
    let parts ← (fr.splitOn ",").mapM frameBytes
    let oks ← kvNatList args "oks"
    let total := (parts.map List.length).sum
    let a := recvAllocs max (total + 1) parts (oksOf oks)
    some s!"allocs={showNatList a} limit={max}"
  | _ => none

end Driver.Decoders
