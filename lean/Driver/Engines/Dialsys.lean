import Driver.Util
import Bifrost.Model.DialSys
/-!
Driver engine for `Bifrost.DialSys`: replays a history of the real dialing subsystem (engine
`dialsys`) as a run of the model. A history is a list of tokens; every token that stands for an
event observed on the real code must be an ENABLED transition. `settle` runs the un-gated
internal steps of the routines (already-connected check, dialers section, await, backoff timer —
everything except the container store, which the engine gates) to their fixpoint, and lets
waiting callers return.
-/
namespace Driver.Dialsys
open Bifrost Bifrost.DialSys Driver
open Bifrost.Links (Link)

/-- the address number of an address string: its trailing decimal digits (`mem-h3-addr-2` ↦ 2) -/
def addrNo (s : List Char) : Nat :=
  let ds := (s.reverse.takeWhile Char.isDigit).reverse
  ds.foldl (fun acc c => acc * 10 + (c.toNat - '0'.toNat)) 0

def mkCfg (fixYield fixAdopt fixSrc : Bool) : Cfg :=
  { U := fun a p => a * 1000 + p, matchType := fun t => t = "mem".toList, addrNo := addrNo,
    -- dial addresses numbered ≥ 100 are symbolic names: `mem-h3-name-101` resolves to `mem-h3-addr-1`
    resolve := fun a => if a ≥ 100 then a - 100 else a,
    yieldExisting := fixYield, adoptNext := fixAdopt, srcAny := fixSrc }

/-- a caller waiting on a container -/
inductive Call where
  | dial (c : Nat) (k : Key)          -- `DialPeerAddr(X, addr)` in progress
  | tpt (c : Nat) (d : TptDir)        -- a `DialTptAddr` directive whose resolver is waiting
deriving Repr

structure Rep where
  cfg : Cfg
  s : State
  calls : List Call := []
  results : List (Nat × Nat) := []    -- call → link id returned / pushed
  brs : List String := []
  k : Nat := 0

def lp : Nat := 1

def entryOf (s : State) (i : Nat) : Option QuicTable.Entry := s.q.created.find? (fun e => e.2.id = i)

def sortNat (l : List Nat) : List Nat := (l.toArray.qsort (· < ·)).toList
def ids (l : List Link) : String := showNatList (sortNat (l.map (·.id)))
def nats (l : List Nat) : String := showNatList (sortNat l)
def dedup (l : List Nat) : List Nat := l.foldl (fun acc x => if acc.contains x then acc else acc ++ [x]) []

def joinOr (sep : String) (l : List String) : String := if l.isEmpty then "_" else sep.intercalate l

def showRt : Rt → String
  | .idle => "idle"
  | .checked => "chk"
  | .awaiting d => s!"aw{d}"
  | .backoff => "bo"
  | .got (some l) => s!"got{l.id}"
  | .got none => "got-"
  | .done => "done"

def showLnk : Option Link → String
  | some l => toString l.id
  | none => "-"

def keyLt (a b : Key) : Bool := a.1 < b.1 || (a.1 == b.1 && a.2 < b.2)

def showLds (s : State) : String :=
  let l := (s.lds.toArray.qsort (fun x y => keyLt x.key y.key)).toList
  joinOr ";" (l.map fun ld => s!"{ld.key.1}:{ld.key.2}:{ld.refs}:{showLnk ld.lnk}:{showRt ld.rt}")

def showTable (t : List QuicTable.Entry) : String :=
  let l := (t.map (fun e => (e.1, e.2.id))).toArray.qsort (fun x y => x.1 < y.1 || (x.1 == y.1 && x.2 < y.2))
  joinOr "," (l.toList.map (fun e => s!"{e.1}:{e.2}"))

def showDmap (s : State) : String :=
  let l := s.dmap.toArray.qsort (fun x y => x.1 < y.1 || (x.1 == y.1 && x.2 < y.2))
  joinOr "," (l.toList.map (fun e =>
    let p := ((getQD s e.2).map (·.peer)).getD 0
    s!"{e.1}:{e.2}:{p}"))

def showRes : DRes → String
  | .pending => "p"
  | .failed => "f"
  | .link l => s!"l{l.id}"

def showDialers (s : State) : String :=
  joinOr ";" (s.qdialers.reverse.map fun d => s!"{d.id}:{d.addr}:{d.peer}:{showRes d.res}")

def showResults (r : List (Nat × Nat)) : String :=
  let l := r.toArray.qsort (fun x y => x.1 < y.1)
  joinOr "," (l.toList.map fun e => s!"{e.1}:{e.2}")

def showState (r : Rep) : String :=
  let s := r.s
  let gs := (s.lds.filter (fun ld => match ld.rt with | .got _ => true | _ => false)).map
    (fun ld => s!"{ld.key.1}:{ld.key.2}")
  let pend := (s.qdialers.filter (fun d => d.res = .pending)).map (·.id)
  s!"table={showTable s.q.table} links={ids s.q.ctrl.links} closed={nats s.q.closedCb} " ++
  s!"pe={ids s.q.pendEst} pc={nats s.q.pendClose} pl={ids (s.q.pendLost.map (·.2))} pcl={ids s.q.pendCtrlLost} " ++
  s!"q={if quiescent s then 1 else 0} n={s.q.created.length} lds={showLds s} dm={showDmap s} dl={showDialers s} " ++
  s!"res={showResults r.results} gs={joinOr ";" gs} pend={nats pend} stale={nats (dedup s.staleStore)} " ++
  s!"late={nats (dedup s.q.late)} px={nats s.pendExit} nret={s.returned.length} npush={s.pushed.length}"

/-- the branch of the model a step takes (the case splits of the proofs) -/
def branchOf (cfg : Cfg) (s : State) : Op → String
  | .rtCheck k =>
    match QuicTable.lookupAddr s.q k.2 with
    | none => "check.free"
    | some l => if l.remote ≠ k.1 then "check.occupied" else if cfg.yieldExisting then "check.yield" else "check.nil"
  | .rtAttach k =>
    match dmapGet s k.2 with
    | none => "attach.new"
    | some d => if ((getQD s d).map (·.peer)) = some k.1 then "attach.share" else "attach.share-other-peer"
  | .rtAwait k =>
    match (getLD s k).map (·.rt) with
    | some (Rt.awaiting d) =>
      match (getQD s d).map (·.res) with
      | some DRes.failed => "await.failed"
      | some (DRes.link l) => if l.remote ≠ k.1 then "await.impostor" else "await.ok"
      | _ => "await.none"
    | _ => "await.none"
  | .rtTimer _ => "timer"
  | .rtStore k =>
    match (getLD s k).map (·.rt) with
    | some (Rt.got (some l)) => if l.id ∈ s.q.lostSeen ∨ l.id ∈ s.q.ctrl.closed then "store.stale" else "store.link"
    | some (Rt.got none) => "store.nil"
    | _ => "store.none"
  | .answer _ who => if who = 0 then "answer.fail" else "answer.link"
  | .dexit d =>
    match getQD s d with
    | some qd => if dmapGet s qd.addr = some d then "dexit.removes" else "dexit.gone"
    | none => "dexit.gone"
  | .inbound a _ => if (dmapGet s a).isSome then "inbound.clears-dialer" else "inbound"
  | .runEst l =>
    let fl := flushedBy s.q.ctrl (.est l)
    let hit := fl.any fun f => s.lds.any fun ld => ld.key.1 = f.1.remote ∧ ld.lnk = some f.1
    let adopt := cfg.adoptNext && fl.any fun f => s.lds.any fun ld =>
      ld.key.1 = f.1.remote ∧ ld.lnk = some f.1 ∧ f.2.2.any (fun nl => nl.remote = ld.key.1)
    (if l.id ∈ s.q.lostSeen then "est.late" else if fl.isEmpty then "est" else "est.replace") ++
      (if adopt then "+adopt" else if hit then "+clear" else "")
  | .runCtrlLost l =>
    let fl := flushedBy s.q.ctrl (.lost l)
    let hit := fl.any fun f => s.lds.any fun ld => ld.key.1 = f.1.remote ∧ ld.lnk = some f.1
    (if fl.isEmpty then "clost.miss" else "clost.flush") ++ (if hit then "+restart" else "")
  | .addRef k => if (getLD s k).isSome then "ref.existing" else "ref.new"
  | .release k => if ((getLD s k).map (·.refs)) = some 1 then "release.last" else "release"
  | .ret _ => "ret"
  | .tptAdd d =>
    if (tptKey cfg lp d).isSome then "tpt.resolve"
    else if d.dst = 0 ∨ d.taddr = [] then "tpt.skip-empty"
    else if (if cfg.srcAny then d.src ≠ 0 ∧ d.src ≠ lp else d.src ≠ lp) then "tpt.skip-src"
    else if lp = d.dst then "tpt.skip-self"
    else if (parseTptAddr d.taddr).isNone then "tpt.skip-parse"
    else "tpt.skip-type"
  | .tptPush _ => "tpt.push"
  | .tptDone _ => "tpt.done"
  | .strayAttach _ _ => "stray"
  | .close _ => "close"
  | .runClose _ => "rclose"
  | .runLost _ _ => "rlost"

def apply (r : Rep) (op : Op) : Rep :=
  { r with s := step r.cfg lp r.s op, brs := branchOf r.cfg r.s op :: r.brs }

/-- one pass of the un-gated routine steps, keys taken in the order `pri ++ rest` -/
def routinePass (r : Rep) (pri : List Key) : Rep :=
  let keys := pri ++ (r.s.lds.map (·.key)).filter (fun k => !pri.contains k)
  let r1 := keys.foldl (fun r k =>
    [Op.rtCheck k, Op.rtAttach k, Op.rtAwait k].foldl (fun r op =>
      if enabled r.cfg lp r.s op then apply r op else r) r) r
  -- the deferred removals of finished dialers run
  r1.s.pendExit.foldl (fun r d => if enabled r.cfg lp r.s (.dexit d) then apply r (.dexit d) else r) r1

def stateSig (s : State) : String := showLds s ++ "|" ++ showDmap s ++ "|" ++ showDialers s ++ "|" ++ nats s.pendExit

def routineFix : Nat → Rep → List Key → Rep
  | 0, r, _ => r
  | n + 1, r, pri =>
    let r' := routinePass r pri
    if stateSig r'.s = stateSig r.s then r' else routineFix n r' pri

/-- waiting callers whose container is filled return (and release their reference) -/
def returns (r : Rep) : Rep :=
  r.calls.foldl (fun r c =>
    match c with
    | .dial cid k =>
      match (getLD r.s k).bind (·.lnk) with
      | some l =>
        let r := apply (apply r (.ret k)) (.release k)
        { r with results := (cid, l.id) :: r.results,
                 calls := r.calls.filter (fun x => match x with | .dial c' _ => c' ≠ cid | _ => true) }
      | none => r
    | .tpt cid d =>
      match (tptKey r.cfg lp d).bind fun k => (getLD r.s k).bind (·.lnk) with
      | some l =>
        let r := apply (apply r (.tptPush d)) (.tptDone d)
        { r with results := (cid, l.id) :: r.results,
                 calls := r.calls.filter (fun x => match x with | .tpt c' _ => c' ≠ cid | _ => true) }
      | none => r) r

/-- the settled state: routine steps to their fixpoint, callers return, backoff timers fire and
the loop goes round — until nothing changes any more (a key retrying against an occupied address
cycles; a key awaiting a pending dial attempt waits) -/
def settle : Nat → Rep → List Key → Rep
  | 0, r, _ => r
  | n + 1, r, pri =>
    let r1 := returns (routineFix 50 r pri)
    let sig := stateSig r1.s
    let r2 := r1.s.lds.foldl (fun r ld => if ld.rt = .backoff then apply r (.rtTimer ld.key) else r) r1
    let r3 := returns (routineFix 50 r2 pri)
    -- a cycle (retrying against an occupied address): stay at the settled state, keep the branch record
    if stateSig r3.s = sig then { r1 with brs := r3.brs } else settle n r3 pri

def parseKeys (s : String) : Option (List Key) :=
  if s = "" then some [] else
  (s.splitOn ";").mapM fun t =>
    match t.splitOn "." with
    | [x, a] => do some ((← x.toNat?), (← a.toNat?))
    | _ => none

def unhexChars (s : String) : Option (List Char) :=
  if s = "-" then some [] else (unhex s).map (fun b => b.map (fun x => Char.ofNat x.toNat))

/-- Run one token. `Except` message = why the observed event is not an enabled transition. -/
def runTok (r : Rep) (tok : String) : Option (Except String Rep) :=
  let ev (op : Op) : Option (Except String Rep) :=
    if enabled r.cfg lp r.s op then some (.ok (apply r op)) else some (.error "not-enabled")
  match tok.splitOn ":" with
  | ["call", c, x, a] => do
    let k : Key := ((← x.toNat?), (← a.toNat?))
    let r := apply r (.addRef k)
    some (.ok { r with calls := r.calls ++ [.dial (← c.toNat?) k] })
  | ["cancel", c] => do
    let cid ← c.toNat?
    match r.calls.find? (fun x => match x with | .dial c' _ => c' = cid | .tpt c' _ => c' = cid) with
    | some (.dial _ k) =>
      let r := apply r (.release k)
      some (.ok { r with calls := r.calls.filter (fun x => match x with | .dial c' _ => c' ≠ cid | _ => true) })
    | some (.tpt _ d) =>
      let r := apply r (.tptDone d)
      some (.ok { r with calls := r.calls.filter (fun x => match x with | .tpt c' _ => c' ≠ cid | _ => true) })
    | none => some (.ok r)   -- the call has returned already
  | ["hold", x, a] => do some (.ok (apply r (.addRef ((← x.toNat?), (← a.toNat?)))))
  | ["drop", x, a] => do ev (.release ((← x.toNat?), (← a.toNat?)))
  | ["tpt", c, src, dst, ta] => do
    let d : TptDir := ⟨(← src.toNat?), (← dst.toNat?), (← unhexChars ta)⟩
    let r := apply r (.tptAdd d)
    if (tptKey r.cfg lp d).isSome then some (.ok { r with calls := r.calls ++ [.tpt (← c.toNat?) d] })
    else some (.ok r)
  | ["ans", d, who] => do ev (.answer (← d.toNat?) (← who.toNat?))
  | ["in", a, p] => do ev (.inbound (← a.toNat?) (← p.toNat?))
  | ["stray", a, x] => do ev (.strayAttach (← a.toNat?) (← x.toNat?))
  | ["st", x, a] => do ev (.rtStore ((← x.toNat?), (← a.toNat?)))
  | ["cl", i] => do ev (.close (← i.toNat?))
  | ["rc", i] => do ev (.runClose (← i.toNat?))
  | ["re", i] => do
    match entryOf r.s (← i.toNat?) with
    | some e => ev (.runEst e.2)
    | none => some (.error "no-such-link")
  | ["rl", i] => do
    match entryOf r.s (← i.toNat?) with
    | some e => ev (.runLost e.1 e.2)
    | none => some (.error "no-such-link")
  | ["cL", i] => do
    match entryOf r.s (← i.toNat?) with
    | some e => ev (.runCtrlLost e.2)
    | none => some (.error "no-such-link")
  | ["settle"] => some (.ok (settle 40 r []))
  | ["settle", pri] => do some (.ok (settle 40 r (← parseKeys pri)))
  | _ => none

def replay : Rep → List String → Option String
  | r, [] => some s!"ok {showState r} br={joinOr "," r.brs.reverse}"
  | r, t :: ts =>
    match runTok r t with
    | none => none
    | some (.error why) => some s!"disabled k={r.k} why={why} {showState r}"
    | some (.ok r') => replay { r' with k := r.k + 1 } ts

def handle (op : String) (args : List String) : Option String :=
  match op with
  | "run" => do
    let toks ← (kv args "ops").map fun s => if s = "_" then [] else s.splitOn ","
    let fy := (kvNat args "fixyield").getD 1 != 0
    let fr := (kvNat args "fixadopt").getD 1 != 0
    let fs := (kvNat args "fixsrc").getD 1 != 0
    let cfg := mkCfg fy fr fs
    replay { cfg := cfg, s := init cfg lp } toks
  | "resolve" => do
    -- the DialTptAddr decision alone
    let d : TptDir := ⟨(← kvNat args "src"), (← kvNat args "dst"), (← (kv args "addr").bind unhexChars)⟩
    let fs := (kvNat args "fixsrc").getD 1 != 0
    let cfg := mkCfg true true fs
    match resolveTpt cfg (← kvNat args "tpt") d with
    | none => some s!"none br={branchOf cfg (init cfg lp) (.tptAdd d)}"
    | some (x, a) => some s!"key peer={x} addr={hexOrDash (a.map (fun c => c.toNat.toUInt8))}"
  | _ => none

end Driver.Dialsys
