import Driver.Util
import Bifrost.Model.Codec
namespace Driver.Codec
open Bifrost Bifrost.Codec Driver

def okOrErr (o : Option Bytes) : String :=
  match o with
  | some b => "ok " ++ hexOrDash b
  | none => "err"

def handle (op : String) (args : List String) : Option String :=
  match op with
  | "b58enc" => do
    let b ← kvBytes args "b"
    some ("ok " ++ hexOrDash (B58.encode b))
  | "b58dec" => do
    let s ← kvBytes args "s"
    some (okOrErr (B58.decode s))
  | "idFromBytes" => do
    let b ← kvBytes args "b"
    some (okOrErr (idFromBytes b))
  | "idB58Decode" => do
    let s ← kvBytes args "s"
    some (okOrErr (idB58Decode s))
  | "extract" => do
    let id ← kvBytes args "id"
    some (okOrErr (extractPublicKey id))
  | "idFromPub" => do
    let pk ← kvBytes args "pk"
    some ("ok " ++ hexOrDash (idFromPublicKey pk))
  | "matches" => do
    let id ← kvBytes args "id"
    let pk ← kvBytes args "pk"
    some (if matchesPublicKey id pk then "ok 1" else "ok 0")
  | "unmarshalPub" => do
    let b ← kvBytes args "b"
    some (okOrErr (unmarshalPublicKey b))
  | "marshalPub" => do
    let pk ← kvBytes args "pk"
    some ("ok " ++ hexOrDash (marshalPublicKey pk))
  | "hashValidate" => do
    let t ← kvInt args "t"
    let d ← kvBytes args "d"
    some (if (Hash.mk t d).valid then "ok" else "err")
  | "hashUnmarshal" => do
    let b ← kvBytes args "b"
    match Hash.unmarshal b with
    | some h => some s!"ok t={h.type} d={hexOrDash h.digest}"
    | none => some "err"
  | "hashMarshal" => do
    let t ← kvInt args "t"
    let d ← kvBytes args "d"
    some ("ok " ++ hexOrDash (Hash.mk t d).marshal)
  | "hashParseB58" => do
    let s ← kvBytes args "s"
    match Hash.parseFromB58 s with
    | some h => some s!"ok t={h.type} d={hexOrDash h.digest}"
    | none => some "err"
  | "hashB58RoundTrip" => do
    let t ← kvInt args "t"
    let d ← kvBytes args "d"
    some (if Hash.parseFromB58 (Hash.mk t d).marshalString = some ⟨t, d⟩ then "ok 1" else "ok 0")
  | "hashUnmarshalInto" => do
    let rt ← kvInt args "rt"
    let rd ← kvBytes args "rd"
    let b ← kvBytes args "b"
    match Hash.unmarshalInto ⟨rt, rd⟩ b with
    | some h => some s!"ok t={h.type} d={hexOrDash h.digest}"
    | none => some "err"
  | "hashParseB58Into" => do
    let rt ← kvInt args "rt"
    let rd ← kvBytes args "rd"
    let s ← kvBytes args "s"
    match Hash.parseFromB58Into ⟨rt, rd⟩ s with
    | some h => some s!"ok t={h.type} d={hexOrDash h.digest}"
    | none => some "err"
  | "hashParseB58IntoPreFix" => do
    let rt ← kvInt args "rt"
    let rd ← kvBytes args "rd"
    let s ← kvBytes args "s"
    match Hash.parseFromB58IntoPreFix ⟨rt, rd⟩ s with
    | some h => some s!"ok t={h.type} d={hexOrDash h.digest}"
    | none => some "err"
  | "hashVerify" => do
    let t ← kvInt args "t"
    let d ← kvBytes args "d"
    let data ← kvBytes args "data"
    -- sum=none: the digest function rejects the type; otherwise its output
    let sm ← kv args "sum"
    let sum : Int → Bytes → Option Bytes := fun t' x =>
      if sm = "none" then none else if t' = t ∧ x = data then unhex sm else none
    some (if Hash.verifyData sum ⟨t, d⟩ data then "ok 1" else "ok 0")
  | "hashCompare" => do
    -- a / b = "nil" (nil pointer) or "<int32 type>:<hex digest>"
    let parseH : String → Option (Option Hash) := fun v =>
      if v = "nil" then some none else
      match v.splitOn ":" with
      | [t, d] => do
        let ti ← t.toInt?
        let db ← unhex d
        some (some ⟨ti, db⟩)
      | _ => none
    let a ← (← kv args "a") |> parseH
    let b ← (← kv args "b") |> parseH
    some (if Hash.compareOpt a b then "ok 1" else "ok 0")
  | "hashLen" => do
    let t ← kvInt args "t"
    some s!"ok {hashLen t} {if hashTypeValid t then 1 else 0} {if hashTypeSupported t then 1 else 0}"
  | "lex" => do
    let a ← kvBytes args "a"
    let b ← kvBytes args "b"
    some s!"ok {lexCmp a b}"
  | _ => none

end Driver.Codec
