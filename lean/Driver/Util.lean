import Bifrost.Model.Bytes
/-! Helpers for the line protocol: `engine.op key=value key=value …`. Bytes are hex, `-` = empty. -/
namespace Driver
open Bifrost

def kv (args : List String) (k : String) : Option String :=
  args.findSome? fun a =>
    match a.splitOn "=" with
    | k' :: v :: rest => if k' = k then some ("=".intercalate (v :: rest)) else none
    | _ => none

def kvBytes (args : List String) (k : String) : Option Bytes := (kv args k).bind unhex
def kvNat (args : List String) (k : String) : Option Nat := (kv args k).bind String.toNat?
def kvInt (args : List String) (k : String) : Option Int := (kv args k).bind String.toInt?

/-- list of byte strings separated by `,`; the token `_` is the empty list. -/
def parseBytesList (s : String) : Option (List Bytes) :=
  if s = "_" then some [] else (s.splitOn ",").mapM unhex

def kvBytesList (args : List String) (k : String) : Option (List Bytes) := (kv args k).bind parseBytesList

def showBytesList (l : List Bytes) : String :=
  if l.isEmpty then "_" else ",".intercalate (l.map hexOrDash)

def parseNatList (s : String) : Option (List Nat) :=
  if s = "_" then some [] else (s.splitOn ",").mapM String.toNat?

def kvNatList (args : List String) (k : String) : Option (List Nat) := (kv args k).bind parseNatList

def showNatList (l : List Nat) : String :=
  if l.isEmpty then "_" else ",".intercalate (l.map toString)

end Driver
