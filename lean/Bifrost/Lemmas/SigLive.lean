import Bifrost.Lemmas.SigPairSim
import Bifrost.Lemmas.SigPairMain
import Bifrost.Lemmas.SigSys
/-!
C23 liveness, transfer to the composed system `Bifrost.SigSys`: the vocabulary of the property
statement (`SendPending`, `SendSucceeded`, `SendDelivered`, `Fair`, `StableFrom`, `NoNewSends`,
`FreshAt`) and the transfer theorem `live_of_pinv`: an infinite execution of `SigSys.step` whose
suffix is stable for the two trackers projects (by `SigPair.view_step`) onto an infinite
execution of the stable-pair machine, fairness projects onto fairness, and `SigPair.pair_live`
gives the completion of every pending `Send`.
-/
namespace Bifrost
namespace SigLive
open Bifrost.SigSys Bifrost.SigPair Bifrost.SigPairCli Bifrost.Temporal

/-- the `Send` call `id` of tracker `(A → B)` has not returned -/
def SendPending (s : SigSys.State) (A B id : Nat) : Prop :=
  ∃ c, getClient s A B = some c ∧ ∃ sc, SigC.getSend c.st id = some sc ∧ sc.result = none

/-- the `Send` call `id` of tracker `(A → B)` has returned success -/
def SendSucceeded (s : SigSys.State) (A B id : Nat) : Prop :=
  ∃ c, getClient s A B = some c ∧ ∃ sc, SigC.getSend c.st id = some sc ∧ sc.result = some true

/-- the message of `Send` call `id` of tracker `(A → B)` has been handed to B's application -/
def SendDelivered (s : SigSys.State) (A B id : Nat) : Prop :=
  ∃ c, getClient s A B = some c ∧ ∃ sc, SigC.getSend c.st id = some sc ∧
    ∃ b, getClient s B A = some b ∧ ∃ ep, (sc.msg, ep) ∈ b.st.delivered

/-- no client-side stream end, `Send` cancellation or relay-side teardown for the pair from `N` on -/
def StableFrom (ev : Nat → SigSys.Ev) (A B ia ib N : Nat) : Prop := ∀ n, N ≤ n → Stable A B ia ib (ev n)

/-- no new `Send` call of either tracker from `N` on -/
def NoNewSends (ev : Nat → SigSys.Ev) (A B N : Nat) : Prop :=
  ∀ n, N ≤ n → ∀ m, ev n ≠ .sendStart A B m ∧ ev n ≠ .sendStart B A m

/-- Fairness for the internal actions of the two trackers, their relay calls and channels: each is
scheduled infinitely often; for `Send` iterations, those of the calls pending at `N`. (Disabled
actions are no-ops in `SigSys.step`, so this is what weak fairness guarantees up to stuttering.) -/
structure Fair (σ : Nat → SigSys.State) (ev : Nat → SigSys.Ev) (A B ia ib N : Nat) : Prop where
  sendStepA : ∀ id, SendPending (σ N) A B id → InfOften ev (.sendStep A B id)
  sendStepB : ∀ id, SendPending (σ N) B A id → InfOften ev (.sendStep B A id)
  recvStepA : InfOften ev (.recvStep A B)
  recvStepB : InfOften ev (.recvStep B A)
  clientTxA : InfOften ev (.clientTx A B)
  clientTxB : InfOften ev (.clientTx B A)
  clientRxA : InfOften ev (.clientRx A B)
  clientRxB : InfOften ev (.clientRx B A)
  srvRxA : InfOften ev (.srvRx ia)
  srvRxB : InfOften ev (.srvRx ib)
  srvLoopA : InfOften ev (.srvLoop ia)
  srvLoopB : InfOften ev (.srvLoop ib)
  srvTxA : InfOften ev (.srvTx ia)
  srvTxB : InfOften ev (.srvTx ib)

theorem reachable_exec {σ : Nat → SigSys.State} {ev : Nat → SigSys.Ev} (hex : IsExec SigSys.step σ ev)
    (h0 : SigSys.Reachable (σ 0)) : ∀ n, SigSys.Reachable (σ n) := by
  intro n
  induction n with
  | zero => exact h0
  | succ k ih => rw [hex k]; exact SigSys.Reachable.step _ ih

/-- the projected execution of the pair machine -/
def projRun (ev : Nat → SigSys.Ev) (A B ia ib N : Nat) (p0 : PState) : Nat → PState
  | 0 => p0
  | k + 1 => stepO (projRun ev A B ia ib N p0 k) (proj A B ia ib (ev (N + k)))

theorem proj_evOf_x {A B ia ib : Nat} (a : Act) : proj A B ia ib (evOf A B ia a) = some (true, a) := by
  cases a <;> simp [evOf, proj]

theorem proj_evOf_y {A B ia ib : Nat} (hAB : A ≠ B) (hi : ia ≠ ib) (a : Act) :
    proj A B ia ib (evOf B A ib a) = some (false, a) := by
  have h1 : ¬ (B = A ∧ A = B) := fun h => hAB h.2
  have h2 : ¬ ib = ia := fun h => hi h.symm
  cases a <;> simp [evOf, proj, h1, h2]

theorem pending_iff {s : SigSys.State} {A B : Nat} {c : Client} (hc : getClient s A B = some c) (id : Nat) :
    SendPending s A B id ↔ Pending c.st id := by
  constructor
  · rintro ⟨c', hc', sc, h1, h2⟩
    rw [hc] at hc'; cases hc'
    exact ⟨sc, h1, h2⟩
  · rintro ⟨sc, h1, h2⟩
    exact ⟨c, hc, sc, h1, h2⟩

/-- **Transfer.** If at `N` the view of the pair satisfies the pair invariant, the suffix from `N`
is stable, starts no new `Send` and is fair, then every `Send` call of either tracker that is
pending at `N` eventually returns success. -/
theorem live_of_pinv {σ : Nat → SigSys.State} {ev : Nat → SigSys.Ev} (hex : IsExec SigSys.step σ ev)
    (h0 : SigSys.Reachable (σ 0)) {A B ia ib N : Nat} {p0 : PState} (hv : View (σ N) A B ia ib p0)
    (hp : PInv p0) (hst : StableFrom ev A B ia ib N) (hns : NoNewSends ev A B N)
    (hfair : Fair σ ev A B ia ib N) :
    (∀ id, SendPending (σ N) A B id → ∃ m, N ≤ m ∧ SendSucceeded (σ m) A B id) ∧
    (∀ id, SendPending (σ N) B A id → ∃ m, N ≤ m ∧ SendSucceeded (σ m) B A id) := by
  have hreach := reachable_exec hex h0
  obtain ⟨_, _, _, _, _, _, hAB, hi⟩ := view_facts (hreach N) hv
  let ρ := projRun ev A B ia ib N p0
  let acts : Nat → PEv := fun k => proj A B ia ib (ev (N + k))
  have hexρ : IsExec stepO ρ acts := fun k => rfl
  have hview : ∀ k, View (σ (N + k)) A B ia ib (ρ k) := by
    intro k
    induction k with
    | zero => exact hv
    | succ k ih =>
      have : σ (N + (k + 1)) = SigSys.step (σ (N + k)) (ev (N + k)) := hex (N + k)
      rw [this]
      exact view_step (hreach _) ih _ (hst _ (by omega))
  obtain ⟨⟨cA, hcA, hstA, _⟩, ⟨cB, hcB, hstB, _⟩⟩ := view_clients hv
  let S : Bool → Nat → Prop := fun sd id => if sd then SendPending (σ N) A B id else SendPending (σ N) B A id
  have shift : ∀ e, InfOften ev e → ∀ k, ∃ m, k ≤ m ∧ ev (N + m) = e := by
    intro e he k
    obtain ⟨m, hm, hem⟩ := he (N + k)
    exact ⟨m - N, by omega, by rw [show N + (m - N) = m by omega]; exact hem⟩
  have hpf : PFair acts S := by
    intro sd a hna hS k
    have key : ∀ e, InfOften ev e → proj A B ia ib e = some (sd, a) → ∃ m, k ≤ m ∧ acts m = some (sd, a) := by
      intro e he hpe
      obtain ⟨m, hm, hem⟩ := shift e he k
      exact ⟨m, hm, by simp only [acts]; rw [hem]; exact hpe⟩
    cases sd with
    | true =>
      have hpe := proj_evOf_x (A := A) (B := B) (ia := ia) (ib := ib) a
      cases a with
      | sendStart m => exact absurd rfl (hna m)
      | sendStep id => exact key _ (hfair.sendStepA id (by simpa [S] using hS id rfl)) hpe
      | recvStep => exact key _ hfair.recvStepA hpe
      | tx => exact key _ hfair.clientTxA hpe
      | rx => exact key _ hfair.clientRxA hpe
      | srvRx => exact key _ hfair.srvRxA hpe
      | srvLoop => exact key _ hfair.srvLoopA hpe
      | srvTx => exact key _ hfair.srvTxA hpe
    | false =>
      have hpe := proj_evOf_y (A := A) (B := B) (ia := ia) (ib := ib) hAB hi a
      cases a with
      | sendStart m => exact absurd rfl (hna m)
      | sendStep id => exact key _ (hfair.sendStepB id (by simpa [S] using hS id rfl)) hpe
      | recvStep => exact key _ hfair.recvStepB hpe
      | tx => exact key _ hfair.clientTxB hpe
      | rx => exact key _ hfair.clientRxB hpe
      | srvRx => exact key _ hfair.srvRxB hpe
      | srvLoop => exact key _ hfair.srvLoopB hpe
      | srvTx => exact key _ hfair.srvTxB hpe
  have hnst : NoStart acts 0 := by
    intro k _ sd m he
    have := proj_some he
    cases sd with
    | true => simp only [if_true, evOf] at this; exact (hns (N + k) (by omega) m).1 this
    | false => simp only [Bool.false_eq_true, if_false, evOf] at this; exact (hns (N + k) (by omega) m).2 this
  have hp0 : PInv (ρ 0) := hp
  refine ⟨?_, ?_⟩
  · intro id hpend
    have hpx : Pending (ρ 0).x.cl id := by
      show Pending p0.x.cl id
      rw [← hstA]; exact (pending_iff hcA id).1 hpend
    have hS : ∀ id, Pending (ρ 0).x.cl id → S true id := by
      intro id' h'
      show SendPending (σ N) A B id'
      exact (pending_iff hcA id').2 (by rw [hstA]; exact h')
    obtain ⟨m, _, c, hc, hres⟩ := pair_live hexρ hp0 hpf hnst hS hpx
    obtain ⟨⟨cm, hcm, hstm, _⟩, _⟩ := view_clients (hview m)
    exact ⟨N + m, by omega, cm, hcm, c, by rw [hstm]; exact hc, hres⟩
  · intro id hpend
    have hpy : Pending (ρ 0).y.cl id := by
      show Pending p0.y.cl id
      rw [← hstB]; exact (pending_iff hcB id).1 hpend
    have hS : ∀ id, Pending (ρ 0).y.cl id → S false id := by
      intro id' h'
      show SendPending (σ N) B A id'
      exact (pending_iff hcB id').2 (by rw [hstB]; exact h')
    obtain ⟨m, _, c, hc, hres⟩ := pair_live_y hexρ hp0 hpf hnst hS hpy
    obtain ⟨_, ⟨cm, hcm, hstm, _⟩⟩ := view_clients (hview m)
    exact ⟨N + m, by omega, cm, hcm, c, by rw [hstm]; exact hc, hres⟩

/-! ### delivery (C21) -/

theorem delivered_of_succeeded {s : SigSys.State} (hr : SigSys.Reachable s) {A B id : Nat}
    (h : SendSucceeded s A B id) : SendDelivered s A B id := by
  obtain ⟨a, ha, sc, hsc, hres⟩ := h
  have hinv := SigSys.inv_of_reachable hr
  have hobs := SigSys.sendSuccessDelivered_of_inv hinv
  obtain ⟨ham, hme, hpeer⟩ := getClient_some ha
  unfold sendSuccessDelivered at hobs
  rw [List.all_eq_true] at hobs
  have h1 := hobs a ham
  rw [List.all_eq_true] at h1
  have h2 := h1 sc (SigClient.getSend_mem hsc)
  simp only [hres, ne_eq, not_true_eq_false, decide_false, Bool.false_or, List.any_eq_true, Bool.and_eq_true,
    decide_eq_true_eq] at h2
  obtain ⟨b, hb, ⟨hb1, hb2⟩, ⟨m, ep⟩, hm, hmeq⟩ := h2
  simp only at hmeq
  have hfind : ∃ b', getClient s B A = some b' := by
    cases hg : getClient s B A with
    | some b' => exact ⟨b', rfl⟩
    | none => exact absurd ⟨hb1.trans hpeer, hb2.trans hme⟩ (getClient_none hg b hb)
  obtain ⟨b', hb'⟩ := hfind
  obtain ⟨hb'm, hb'1, hb'2⟩ := getClient_some hb'
  have : b' = b := hinv.uniq b' hb'm b hb (by rw [hb'1, hb1, hpeer]) (by rw [hb'2, hb2, hme])
  subst this
  exact ⟨a, ha, sc, hsc, b', hb', ep, by rw [← hmeq]; exact hm⟩

/-! ### the "nobody has heard of the current epoch yet" start condition -/

/-- Side `(A → B)` with call `ia` has not been told the current session epoch: the tracker's
epoch and the relay's last announcement to it are older, and nothing in flight names a newer one. -/
def FreshSide (s : SigSys.State) (A B ia : Nat) : Prop :=
  ∀ c ch sc t, getClient s A B = some c → getChan s ia = some ch → Sig.getSCall s.srv ia = some sc →
    Sig.getSess s.srv sc.sess = some t →
    (∀ r ∈ ch.c2s, reqEpoch r ≤ t.seqno) ∧ (∀ e, c.st.open_ = some e → e < t.seqno) ∧
    (∀ e, sc.announced = some e → e < t.seqno) ∧ (∀ e, Sig.Resp.opened e ∈ ch.s2c ++ sc.outbox → e ≤ t.seqno)

theorem pinv_of_fresh {s : SigSys.State} (hr : SigSys.Reachable s) {A B ia ib : Nat} {p : PState}
    (hv : View s A B ia ib p) (hrdx : p.x.rd = false) (hrdy : p.y.rd = false)
    (hfa : FreshSide s A B ia) (hfb : FreshSide s B A ib) : PInv p := by
  obtain ⟨rx, ry, wx, wy, _, _, _, _⟩ := view_facts hr hv
  obtain ⟨sid, dtA, dtB, hs⟩ := hv.srv
  have ha := hfa _ _ _ _ hv.cliA hv.chA hs.ca hs.ss
  have hb := hfb _ _ _ _ hv.cliB hv.chB hs.cb hs.ss
  simp only [mkCall, mkSess_seqno] at ha hb
  obtain ⟨a1, a2, a3, a4⟩ := ha
  obtain ⟨b1, b2, b3, b4⟩ := hb
  refine ⟨⟨rx, hrdx, a1, fun e he => Nat.le_of_lt (a2 e he), fun e he => Nat.le_of_lt (a3 e he), a4, ?_, wx⟩,
    ⟨ry, hrdy, b1, fun e he => Nat.le_of_lt (b2 e he), fun e he => Nat.le_of_lt (b3 e he), b4, ?_, wy⟩, ?_, ?_⟩
  · intro h; exact absurd (a3 _ h) (Nat.lt_irrefl _)
  · intro h; exact absurd (b3 _ h) (Nat.lt_irrefl _)
  · intro m ho _; exact absurd (a2 _ ho) (Nat.lt_irrefl _)
  · intro m ho _; exact absurd (b2 _ ho) (Nat.lt_irrefl _)

/-- the pair invariant, once established, holds at every later point of a stable suffix -/
theorem pinv_later {σ : Nat → SigSys.State} {ev : Nat → SigSys.Ev} (hex : IsExec SigSys.step σ ev)
    (h0 : SigSys.Reachable (σ 0)) {A B ia ib N0 : Nat} {p0 : PState} (hv : View (σ N0) A B ia ib p0)
    (hp : PInv p0) (hst : StableFrom ev A B ia ib N0) :
    ∀ k, ∃ p, View (σ (N0 + k)) A B ia ib p ∧ PInv p := by
  have hreach := reachable_exec hex h0
  intro k
  induction k with
  | zero => exact ⟨p0, hv, hp⟩
  | succ k ih =>
    obtain ⟨p, hvp, hpp⟩ := ih
    have : σ (N0 + (k + 1)) = SigSys.step (σ (N0 + k)) (ev (N0 + k)) := hex (N0 + k)
    rw [this]
    exact ⟨_, view_step (hreach _) hvp _ (hst _ (by omega)), pinv_stepO hpp _⟩

/-- **C23 on the composed system.** Both trackers hold a live relay call at `N0`, neither has been
told the current session epoch yet (e.g. the partner has just re-attached — whatever was
transmitted before is in an old epoch: the F11 situation), from `N0` on the pair is stable, from
`N ≥ N0` on no new `Send` is started and the schedule is fair: then every `Send` of either tracker
pending at `N` eventually returns success, and its message has then been delivered to the partner's
application. -/
theorem progress {σ : Nat → SigSys.State} {ev : Nat → SigSys.Ev} (hex : IsExec SigSys.step σ ev)
    (h0 : SigSys.Reachable (σ 0)) {A B ia ib N0 N : Nat} (hlive : Live (σ N0) A B ia ib)
    (hfa : FreshSide (σ N0) A B ia) (hfb : FreshSide (σ N0) B A ib)
    (hst : StableFrom ev A B ia ib N0) (hN : N0 ≤ N) (hns : NoNewSends ev A B N)
    (hfair : Fair σ ev A B ia ib N) :
    (∀ id, SendPending (σ N) A B id → ∃ m, N ≤ m ∧ SendSucceeded (σ m) A B id ∧ SendDelivered (σ m) A B id) ∧
    (∀ id, SendPending (σ N) B A id → ∃ m, N ≤ m ∧ SendSucceeded (σ m) B A id ∧ SendDelivered (σ m) B A id) := by
  have hreach := reachable_exec hex h0
  obtain ⟨p0, hv0, hrx, hry⟩ := view_of_live (hreach N0) hlive
  have hp0 := pinv_of_fresh (hreach N0) hv0 hrx hry hfa hfb
  obtain ⟨p, hv, hp⟩ := pinv_later hex h0 hv0 hp0 hst (N - N0)
  rw [show N0 + (N - N0) = N by omega] at hv
  have hst' : StableFrom ev A B ia ib N := fun n hn => hst n (Nat.le_trans hN hn)
  obtain ⟨ha, hb⟩ := live_of_pinv hex h0 hv hp hst' hns hfair
  refine ⟨fun id h => ?_, fun id h => ?_⟩
  · obtain ⟨m, hm, hs⟩ := ha id h
    exact ⟨m, hm, hs, delivered_of_succeeded (hreach m) hs⟩
  · obtain ⟨m, hm, hs⟩ := hb id h
    exact ⟨m, hm, hs, delivered_of_succeeded (hreach m) hs⟩

end SigLive
end Bifrost
