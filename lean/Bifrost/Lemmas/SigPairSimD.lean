import Bifrost.Lemmas.SigPairSimC
/-!
Simulation `SigSys` ⟶ `SigPair`, part D: the events of the pair (side x = tracker `A → B`, call
`ia`) move the view like `SigPair.stepX`.
-/
namespace Bifrost
namespace SigPair
open Bifrost.SigSys

section
variable {s : SigSys.State} {A B ia ib : Nat} {p : PState}

theorem View.setClientX (hv : View s A B ia ib p) (st' : SigC.State) :
    View (setClient s { me := A, peer := B, st := st', call := some ia }) A B ia ib
      { p with x := { p.x with cl := st' } } := by
  refine ⟨?_, ?_, hv.chA, hv.chB, ?_⟩
  · exact getClient_setClient_same (c := { me := A, peer := B, st := st', call := some ia }) hv.cliA
  · rw [getClient_setClient_ne (by intro h; exact hv.ne h.1.symm)]; exact hv.cliB
  · obtain ⟨sid, dtA, dtB, hs⟩ := hv.srv
    exact ⟨sid, dtA, dtB, ⟨hs.ca, hs.cb, hs.ss, hs.xa, hs.ya, hs.ne, hs.nei⟩⟩

theorem View.setChanX (hv : View s A B ia ib p) (up' : List SigC.Req) (dn' : List Sig.Resp) :
    View (setChan s { call := ia, c2s := up', s2c := dn', open_ := true }) A B ia ib
      { p with x := { p.x with up := up', dn := dn' } } := by
  refine ⟨hv.cliA, hv.cliB, ?_, ?_, ?_⟩
  · exact getChan_setChan_same (ch := { call := ia, c2s := up', s2c := dn', open_ := true }) hv.chA
  · rw [getChan_setChan_ne (by exact hv.nei.symm)]; exact hv.chB
  · obtain ⟨sid, dtA, dtB, hs⟩ := hv.srv
    exact ⟨sid, dtA, dtB, ⟨hs.ca, hs.cb, hs.ss, hs.xa, hs.ya, hs.ne, hs.nei⟩⟩

theorem View.setSrv (hv : View s A B ia ib p) {srv' : Sig.State} {p' : PState}
    (hs : ∀ sid dtA dtB, SrvView s.srv A B ia ib p sid dtA dtB → SrvView srv' A B ia ib p' sid dtA dtB)
    (h1 : p'.x.cl = p.x.cl) (h2 : p'.x.up = p.x.up) (h3 : p'.x.dn = p.x.dn)
    (h4 : p'.y.cl = p.y.cl) (h5 : p'.y.up = p.y.up) (h6 : p'.y.dn = p.y.dn) :
    View { s with srv := srv' } A B ia ib p' := by
  refine ⟨?_, ?_, ?_, ?_, ?_⟩
  · rw [h1]; exact hv.cliA
  · rw [h4]; exact hv.cliB
  · rw [h2, h3]; exact hv.chA
  · rw [h5, h6]; exact hv.chB
  · obtain ⟨sid, dtA, dtB, h⟩ := hv.srv
    exact ⟨sid, dtA, dtB, hs _ _ _ h⟩

theorem view_liftX (hv : View s A B ia ib p) (f : SigC.State → SigC.State) :
    View (liftClient s A B f) A B ia ib { p with x := { p.x with cl := f p.x.cl } } := by
  unfold liftClient
  rw [hv.cliA]
  exact hv.setClientX (f p.x.cl)

theorem view_txX (hv : View s A B ia ib p) : View (SigSys.step s (.clientTx A B)) A B ia ib (stepX p .tx) := by
  simp only [SigSys.step, hv.cliA]
  rcases htx : SigC.txLoop p.x.cl with ⟨st', req⟩
  have h1 := hv.setClientX st'
  simp only [stepX, htx]
  cases req with
  | none =>
    simp only [Option.toList_none, List.append_nil]
    exact h1
  | some r =>
    simp only [h1.chA, Option.toList_some]
    exact h1.setChanX (p.x.up ++ [r]) p.x.dn

theorem view_rxX (hv : View s A B ia ib p) : View (SigSys.step s (.clientRx A B)) A B ia ib (stepX p .rx) := by
  simp only [SigSys.step, hv.cliA, hv.chA, stepX]
  cases hdn : p.x.dn with
  | nil => simpa [hdn] using hv
  | cons r rest =>
    simp only []
    have key : ∀ st', View (setChan (setClient s { me := A, peer := B, st := st', call := some ia })
        { call := ia, c2s := p.x.up, s2c := rest, open_ := true }) A B ia ib
        { p with x := { p.x with cl := st', dn := rest } } := fun st' =>
      (hv.setClientX st').setChanX p.x.up rest
    cases r <;> exact key _

theorem view_sendStartX (hv : View s A B ia ib p) (m : SigC.Msg) :
    View (SigSys.step s (.sendStart A B m)) A B ia ib (stepX p (.sendStart m)) :=
  view_liftX hv (fun st => if SigC.enabled st (.sendStart m) then SigC.step st (.sendStart m) else st)

theorem view_sendStepX (hv : View s A B ia ib p) (id : Nat) :
    View (SigSys.step s (.sendStep A B id)) A B ia ib (stepX p (.sendStep id)) :=
  view_liftX hv (fun st => if SigC.enabled st (.sendStep id) then SigC.step st (.sendStep id) else st)

theorem view_recvStepX (hv : View s A B ia ib p) :
    View (SigSys.step s (.recvStep A B)) A B ia ib (stepX p .recvStep) :=
  view_liftX hv (fun st => SigC.step st .recvStep)

theorem view_srvLoopX (hv : View s A B ia ib p) :
    View (SigSys.step s (.srvLoop ia)) A B ia ib (stepX p .srvLoop) := by
  obtain ⟨sid, dtA, dtB, hs⟩ := hv.srv
  have hen := srv_loop_enabled hs
  simp only [SigSys.step, stepX]
  by_cases h : p.x.box = [] ∧ p.x.wait < p.gen
  · rw [if_pos (hen.2 h), if_pos h]
    exact hv.setSrv (fun _ _ _ h => srv_loop h) rfl rfl rfl rfl rfl rfl
  · rw [if_neg (fun h' => h (hen.1 h')), if_neg h]
    exact hv

theorem view_srvTxX (hv : View s A B ia ib p) :
    View (SigSys.step s (.srvTx ia)) A B ia ib (stepX p .srvTx) := by
  obtain ⟨sid, dtA, dtB, hs⟩ := hv.srv
  simp only [SigSys.step, hs.ca, hv.chA, stepX]
  cases hb : p.x.box with
  | nil =>
    have : (mkCall ia A B sid dtA p.x).outbox = [] := hb
    simp only [this]; exact hv
  | cons r rest =>
    have : (mkCall ia A B sid dtA p.x).outbox = r :: rest := hb
    simp only [this, (srv_tx hs hb).1, if_true]
    have h1 : View { s with srv := Sig.step s.srv (.send_ ia r) } A B ia ib { p with x := { p.x with box := rest } } :=
      hv.setSrv (fun _ _ _ h => (srv_tx h hb).2) rfl rfl rfl rfl rfl rfl
    exact h1.setChanX p.x.up (p.x.dn ++ [r])

theorem relayReq_frame (q : PState) (r : SigC.Req) :
    (relayReq q r).x.cl = q.x.cl ∧ (relayReq q r).x.up = q.x.up ∧ (relayReq q r).x.dn = q.x.dn ∧
    (relayReq q r).y.cl = q.y.cl ∧ (relayReq q r).y.up = q.y.up ∧ (relayReq q r).y.dn = q.y.dn := by
  cases r <;> simp only [relayReq] <;> (repeat' split) <;> simp

theorem View.setSrvChanX (hv : View s A B ia ib p) {srv' : Sig.State} {p' : PState} (up' : List SigC.Req) (dn' : List Sig.Resp)
    (hs : ∀ sid dtA dtB, SrvView s.srv A B ia ib p sid dtA dtB → SrvView srv' A B ia ib p' sid dtA dtB)
    (h1 : p'.x.cl = p.x.cl) (h2 : p'.x.up = up') (h3 : p'.x.dn = dn')
    (h4 : p'.y.cl = p.y.cl) (h5 : p'.y.up = p.y.up) (h6 : p'.y.dn = p.y.dn) :
    View (setChan { s with srv := srv' } { call := ia, c2s := up', s2c := dn', open_ := true }) A B ia ib p' := by
  refine ⟨?_, ?_, ?_, ?_, ?_⟩
  · rw [h1]; exact hv.cliA
  · rw [h4]; exact hv.cliB
  · rw [h2, h3]
    exact getChan_setChan_same (s := { s with srv := srv' }) (ch := { call := ia, c2s := up', s2c := dn', open_ := true }) hv.chA
  · rw [h5, h6, getChan_setChan_ne (by exact hv.nei.symm)]; exact hv.chB
  · obtain ⟨sid, dtA, dtB, h⟩ := hv.srv
    exact ⟨sid, dtA, dtB, hs _ _ _ h⟩

theorem view_srvRxX (hv : View s A B ia ib p) :
    View (SigSys.step s (.srvRx ia)) A B ia ib (stepX p .srvRx) := by
  obtain ⟨sid, dtA, dtB, hs⟩ := hv.srv
  have hen := srv_rx_enabled hs
  simp only [SigSys.step, hs.ca, hv.chA, stepX]
  cases hup : p.x.up with
  | nil => simp only []; split <;> exact hv
  | cons r rest =>
    simp only []
    have hq : ∀ sid dtA dtB, SrvView s.srv A B ia ib p sid dtA dtB →
        SrvView s.srv A B ia ib { p with x := { p.x with up := rest } } sid dtA dtB :=
      fun _ _ _ h => ⟨h.ca, h.cb, h.ss, h.xa, h.ya, h.ne, h.nei⟩
    have hf := relayReq_frame { p with x := { p.x with up := rest } } r
    by_cases hrd : p.x.rd = true
    · have hn : ¬ ((!p.x.rd) = true) := by simp [hrd]
      cases r <;> simp only [hen.1, hen.2.1, hen.2.2] <;> rw [if_neg hn, if_pos hrd] <;> exact hv
    · have hn : (!p.x.rd) = true := by simpa using hrd
      cases r with
      | send e m =>
        simp only [hen.1]
        rw [if_pos hn, if_neg hrd]
        exact hv.setSrvChanX rest p.x.dn (fun _ _ _ h => srv_send (hq _ _ _ h) e m) hf.1 hf.2.1 hf.2.2.1 hf.2.2.2.1
          hf.2.2.2.2.1 hf.2.2.2.2.2
      | ack e k =>
        simp only [hen.2.1]
        rw [if_pos hn, if_neg hrd]
        exact hv.setSrvChanX rest p.x.dn (fun _ _ _ h => srv_ack (hq _ _ _ h) e k) hf.1 hf.2.1 hf.2.2.1 hf.2.2.2.1
          hf.2.2.2.2.1 hf.2.2.2.2.2
      | clear e k =>
        simp only [hen.2.2]
        rw [if_pos hn, if_neg hrd]
        exact hv.setSrvChanX rest p.x.dn (fun _ _ _ h => srv_clear (hq _ _ _ h) e k) hf.1 hf.2.1 hf.2.2.1 hf.2.2.2.1
          hf.2.2.2.2.1 hf.2.2.2.2.2

end

/-- the composed event in which tracker `A → B` / its relay call `ia` performs action `a` -/
def evOf (A B ia : Nat) : Act → SigSys.Ev
  | .sendStart m => .sendStart A B m
  | .sendStep id => .sendStep A B id
  | .recvStep => .recvStep A B
  | .tx => .clientTx A B
  | .rx => .clientRx A B
  | .srvRx => .srvRx ia
  | .srvLoop => .srvLoop ia
  | .srvTx => .srvTx ia

/-- an event of side x moves the view like `stepX` -/
theorem view_stepX {s : SigSys.State} {A B ia ib : Nat} {p : PState} (hv : View s A B ia ib p) (a : Act) :
    View (SigSys.step s (evOf A B ia a)) A B ia ib (stepX p a) := by
  cases a with
  | sendStart m => exact view_sendStartX hv m
  | sendStep id => exact view_sendStepX hv id
  | recvStep => exact view_recvStepX hv
  | tx => exact view_txX hv
  | rx => exact view_rxX hv
  | srvRx => exact view_srvRxX hv
  | srvLoop => exact view_srvLoopX hv
  | srvTx => exact view_srvTxX hv

/-- an event of side y moves the view like `stepX` on the swapped state -/
theorem view_stepY {s : SigSys.State} {A B ia ib : Nat} {p : PState} (hv : View s A B ia ib p) (a : Act) :
    View (SigSys.step s (evOf B A ib a)) A B ia ib (stepX p.swap a).swap :=
  (view_stepX hv.swap a).swap

theorem proj_some {A B ia ib : Nat} {e : SigSys.Ev} {sd : Bool} {a : Act}
    (h : proj A B ia ib e = some (sd, a)) : e = if sd then evOf A B ia a else evOf B A ib a := by
  cases e <;> simp only [proj] at h <;> first | (cases h; done) | skip
  all_goals
    split at h
    · simp only [Option.some.injEq, Prod.mk.injEq] at h
      obtain ⟨rfl, rfl⟩ := h
      simp_all [evOf]
    · split at h
      · simp only [Option.some.injEq, Prod.mk.injEq] at h
        obtain ⟨rfl, rfl⟩ := h
        simp_all [evOf]
      · cases h

end SigPair
end Bifrost
