import Bifrost.Lemmas.SigPairProg
/-!
C23 liveness, stable-pair machine: the synchronised regime and the rank of x's current `Send`.

* `SyncH`: the relay has announced the current epoch to this side, no announcement is in flight
  any more and the tracker is in the current epoch — stable (`sync_self`, `j_step`);
* `rk_total`: in the synchronised regime, while a `Send` of x is pending, x's slot has a rank;
* `rk_mono`: no action of either side (other than starting new `Send`s) raises
  `(pending sends, stage, position)`;
* `rk_prog`: the designated action of the stage lowers it.
-/
namespace Bifrost
namespace SigPair
open Bifrost.SigSys Bifrost.SigPairCli
set_option linter.unusedSimpArgs false

def noAnn (l : List Sig.Resp) : Prop := ∀ r ∈ l, isAnn r = false

structure SyncH (h : Half) (ep : Nat) : Prop where
  ann : h.ann = some ep
  opn : h.cl.open_ = some ep
  quiet : noAnn (h.dn ++ h.box)

/-- the invariant of the synchronised regime -/
structure J (p : PState) : Prop where
  inv : PInv p
  sx : SyncH p.x p.ep
  sy : SyncH p.y p.ep

theorem J.swap {p : PState} (h : J p) : J p.swap := ⟨h.inv.swap, h.sy, h.sx⟩

theorem noAnn_loopOut (ep : Nat) (o : Sig.Att) : noAnn (loopOut (some ep) ep o) := by
  unfold loopOut
  obtain ⟨call, recv, recvSent, recvClear, outAcked⟩ := o
  intro r hr
  cases outAcked <;> cases recvClear <;> cases recv <;> simp at hr <;>
    (try rcases hr with rfl | rfl | rfl) <;> (try rcases hr with rfl | rfl) <;> (try subst hr) <;> rfl

theorem rxEv_open_noAnn {r : Sig.Resp} (h : isAnn r = false) (s : SigC.State) : (rxEv r s).open_ = s.open_ := by
  cases r <;> simp only [rxEv, SigC.step, isAnn] at h ⊢
  case ack k =>
    unfold SigC.ackMsg
    split
    · split <;> rfl
    · rfl
  case clear k =>
    unfold SigC.clearMsg
    split <;> rfl
  case recv m => rfl
  all_goals first | rfl | (cases h)

theorem sync_self {p : PState} (a : Act) (hr : SigC.Reachable p.x.cl) (h : SyncH p.x p.ep) :
    SyncH (stepX p a).x p.ep := by
  obtain ⟨h1, h2, h3⟩ := h
  have hcl : ∀ (a : Act), a ≠ .rx → SyncH { p.x with cl := clAfter p.x a } p.ep :=
    fun a ha => ⟨h1, (clAfter_open hr a ha).trans h2, h3⟩
  cases a with
  | sendStart m => exact hcl (.sendStart m) (by simp)
  | sendStep id => exact hcl (.sendStep id) (by simp)
  | recvStep => exact hcl .recvStep (by simp)
  | tx => exact ⟨h1, (clAfter_open hr .tx (by simp)).trans h2, h3⟩
  | rx =>
    cases hd : p.x.dn with
    | nil =>
      have : stepX p .rx = p := by simp [stepX, hd]
      rw [this]; exact ⟨h1, h2, h3⟩
    | cons r rest =>
      have hst : stepX p .rx = { p with x := { p.x with cl := rxEv r p.x.cl, dn := rest } } := by simp [stepX, hd]
      rw [hst]
      rw [hd] at h3
      refine ⟨h1, ?_, fun r' hr' => h3 r' (by simp at hr' ⊢; exact Or.inr hr')⟩
      rw [show ({ p.x with cl := rxEv r p.x.cl, dn := rest } : Half).cl = rxEv r p.x.cl from rfl,
        rxEv_open_noAnn (h3 r (by simp))]
      exact h2
  | srvRx =>
    by_cases hrd : p.x.rd = true
    · have : stepX p .srvRx = p := by simp [stepX, hrd]
      rw [this]; exact ⟨h1, h2, h3⟩
    · cases hu : p.x.up with
      | nil =>
        have : stepX p .srvRx = p := by simp [stepX, hu]
        rw [this]; exact ⟨h1, h2, h3⟩
      | cons r rest =>
        have hst : stepX p .srvRx = relayReq { p with x := { p.x with up := rest } } r := by simp [stepX, hrd, hu]
        rw [hst]
        obtain ⟨ax, rd, e1, _⟩ := relayReq_self { p with x := { p.x with up := rest } } r
        rw [e1]
        exact ⟨h1, h2, h3⟩
  | srvLoop =>
    by_cases hen : p.x.box = [] ∧ p.x.wait < p.gen
    · have hst : stepX p .srvLoop =
          { p with x := { p.x with att := loopAtt p.x.att, wait := p.gen, ann := some p.ep,
                                   box := loopOut p.x.ann p.ep p.x.att },
                   gen := if p.x.att.recv.isSome then p.gen + 1 else p.gen } := by
        simp only [stepX, hen, and_self, if_true, List.nil_append]
      rw [hst]
      refine ⟨rfl, h2, ?_⟩
      rw [hen.1, List.append_nil] at h3
      intro r hr'
      simp only [List.mem_append] at hr'
      rcases hr' with hr' | hr'
      · exact h3 r hr'
      · rw [h1] at hr'; exact noAnn_loopOut _ _ r hr'
    · have : stepX p .srvLoop = p := by simp only [stepX]; simp [hen]
      rw [this]; exact ⟨h1, h2, h3⟩
  | srvTx =>
    cases hb : p.x.box with
    | nil =>
      have : stepX p .srvTx = p := by simp [stepX, hb]
      rw [this]; exact ⟨h1, h2, h3⟩
    | cons r rest =>
      have hst : stepX p .srvTx = { p with x := { p.x with box := rest, dn := p.x.dn ++ [r] } } := by
        simp [stepX, hb]
      rw [hst]
      rw [hb] at h3
      exact ⟨h1, h2, fun r' hr' => h3 r' (by simpa [List.append_assoc] using hr')⟩

theorem sync_other {p : PState} (a : Act) (h : SyncH p.y p.ep) : SyncH (stepX p a).y p.ep := by
  obtain ⟨a', h1, _⟩ := stepX_other p a
  rw [h1]
  exact ⟨h.ann, h.opn, h.quiet⟩

theorem j_step {p : PState} (h : J p) (sa : Bool × Act) : J (step p sa) := by
  obtain ⟨sd, a⟩ := sa
  refine ⟨pinv_step h.inv _, ?_, ?_⟩
  · cases sd with
    | true => simpa [step, stepX_ep] using sync_self a h.inv.hx.reach h.sx
    | false => simpa [step, stepX_ep] using sync_other (p := p.swap) a (by simpa using h.sx)
  · cases sd with
    | true => simpa [step, stepX_ep] using sync_other a h.sy
    | false => simpa [step, stepX_ep] using sync_self (p := p.swap) a (by simpa using h.inv.hy.reach) (by simpa using h.sy)

/-! ### the rank exists -/

theorem exists_pending {s : SigC.State} (hr : SigC.Reachable s) (hpos : 0 < pend s) : ∃ i, Pending s i := by
  obtain ⟨c, hc, hn⟩ := pend_pos_iff.1 hpos
  exact ⟨c.id, pending_of_mem (SigSysCli.nodup_of_reachable hr) hc hn⟩

theorem rk_total {p : PState} (hj : J p) (hpos : 0 < pend p.x.cl) : ∃ st j, Rk p st j := by
  cases hout : p.x.cl.out with
  | none =>
    obtain ⟨i, hi⟩ := exists_pending hj.inv.hx.reach hpos
    exact ⟨.free, i, hout, hi⟩
  | some o =>
    cases hc : p.x.cl.outCancel with
    | true => exact ⟨.cancel, 0, o, hout, hc⟩
    | false =>
      cases hs : p.x.cl.outSent with
      | false => exact ⟨.unsent, 0, o, hout, hs, hc⟩
      | true =>
        cases ha : p.x.cl.outAcked with
        | true => exact ⟨.acked, o.seqno, o, hout, rfl, ha, hc⟩
        | false =>
          obtain ⟨st, j, ht⟩ := hj.inv.tx o hj.sx.opn ⟨hout, hs, ha, hc⟩
          refine ⟨st, j, ?_⟩
          cases st <;> first | exact ⟨o, ⟨hout, hs, ha, hc⟩, ht⟩ | exact ht.elim

/-! ### monotonicity -/

/-- the rank is a function of the slot, the pending set and the token location -/
theorem rk_of_same {p p' : PState} (h1 : p'.x.cl.out = p.x.cl.out) (h2 : p'.x.cl.outSent = p.x.cl.outSent)
    (h3 : p'.x.cl.outAcked = p.x.cl.outAcked) (h4 : p'.x.cl.outCancel = p.x.cl.outCancel)
    (hp : ∀ i, Pending p.x.cl i → Pending p'.x.cl i)
    (htk : ∀ m st j, Sent p m → Sent p' m → Tk p m st j → ∃ st' j', Tk p' m st' j' ∧ LexLe (st'.num, j') (st.num, j))
    {st : Stage} {j : Nat} (hr : Rk p st j) :
    ∃ st' j', Rk p' st' j' ∧ LexLe (st'.num, j') (st.num, j) := by
  have tok : ∀ {st : Stage} {j : Nat} (m : SigC.Msg), Sent p m → Tk p m st j →
      ∃ st' j', Rk p' st' j' ∧ LexLe (st'.num, j') (st.num, j) := by
    intro st j m hs ht
    have hs' : Sent p' m := by
      obtain ⟨a1, a2, a3, a4⟩ := hs
      exact ⟨h1.trans a1, h2.trans a2, h3.trans a3, h4.trans a4⟩
    obtain ⟨st', j', ht', hle⟩ := htk m st j hs hs' ht
    refine ⟨st', j', ?_, hle⟩
    cases st' <;> first | exact ⟨m, hs', ht'⟩ | exact ht'.elim
  cases st <;> simp only [Rk] at hr
  case acked =>
    obtain ⟨o, a1, a2, a3, a4⟩ := hr
    exact ⟨.acked, j, ⟨o, h1.trans a1, a2, h3.trans a3, h4.trans a4⟩, LexLe.refl _⟩
  case unsent =>
    obtain ⟨o, a1, a2, a3⟩ := hr
    exact ⟨.unsent, j, ⟨o, h1.trans a1, h2.trans a2, h4.trans a3⟩, LexLe.refl _⟩
  case free => exact ⟨.free, j, ⟨h1.trans hr.1, hp _ hr.2⟩, LexLe.refl _⟩
  case cancel =>
    obtain ⟨o, a1, a2⟩ := hr
    exact ⟨.cancel, j, ⟨o, h1.trans a1, h4.trans a2⟩, LexLe.refl _⟩
  all_goals
    obtain ⟨m, hs, ht⟩ := hr
    exact tok m hs ht

theorem num_pos (st : Stage) : 1 ≤ st.num := by cases st <;> decide

/-- a rank for the state after the slot has been freed -/
theorem rk_freed {p' : PState} (hr : SigC.Reachable p'.x.cl) (hout : p'.x.cl.out = none) (hpos : 0 < pend p'.x.cl)
    {st : Stage} {j : Nat} (hst : Stage.free.num < st.num) :
    ∃ st' j', Rk p' st' j' ∧ LexLe (st'.num, j') (st.num, j) := by
  obtain ⟨i, hi⟩ := exists_pending hr hpos
  exact ⟨.free, i, ⟨hout, hi⟩, Or.inl hst⟩

/-- a rank for the state after the ack arrived -/
theorem rk_acked {p' : PState} {o : SigC.Msg} (h1 : p'.x.cl.out = some o) (h2 : p'.x.cl.outAcked = true)
    (h3 : p'.x.cl.outCancel = false) {st : Stage} {j : Nat} (hst : Stage.acked.num < st.num) :
    ∃ st' j', Rk p' st' j' ∧ LexLe (st'.num, j') (st.num, j) :=
  ⟨.acked, o.seqno, ⟨o, h1, rfl, h2, h3⟩, Or.inl hst⟩

/-! ### the slot under the tracker's own steps -/

theorem txLoop_sends (s : SigC.State) : (SigC.txLoop s).1.sends = s.sends := by
  unfold SigC.txLoop
  repeat' split
  all_goals rfl

/-- what one main-loop iteration does to the slot -/
inductive TxEff (s s' : SigC.State) : Prop
  | same : s'.out = s.out → s'.outSent = s.outSent → s'.outAcked = s.outAcked → s'.outCancel = s.outCancel → TxEff s s'
  | cleared (o : SigC.Msg) : s.out = some o → s.outCancel = true → s'.out = none → TxEff s s'
  | sent (o : SigC.Msg) : s.out = some o → s.outCancel = false → s.outSent = false → s'.out = some o →
      s'.outSent = true → s'.outAcked = s.outAcked → s'.outCancel = false → TxEff s s'

theorem txLoop_eff (s : SigC.State) : TxEff s (SigC.txLoop s).1 := by
  obtain ⟨open_, out, outSent, outAcked, outCancel, recv, recvProcessed, sends, delivered, emitted,
    accepted, ackedLog, failed⟩ := s
  cases open_ with
  | none => exact TxEff.same rfl rfl rfl rfl
  | some e =>
    cases out with
    | none =>
      cases recv <;> cases recvProcessed <;> exact TxEff.same rfl rfl rfl rfl
    | some o =>
      cases outCancel with
      | true => exact TxEff.cleared o rfl rfl (by simp [SigC.txLoop])
      | false =>
        cases outSent with
        | false => exact TxEff.sent o rfl rfl rfl (by simp [SigC.txLoop]) (by simp [SigC.txLoop]) (by simp [SigC.txLoop]) (by simp [SigC.txLoop])
        | true => cases recv <;> cases recvProcessed <;> exact TxEff.same rfl rfl rfl rfl

/-- what processing one non-announcement response does to the slot -/
inductive RxEff (s s' : SigC.State) : Prop
  | same : s'.out = s.out → s'.outSent = s.outSent → s'.outAcked = s.outAcked → s'.outCancel = s.outCancel → RxEff s s'
  | cleared (o : SigC.Msg) : s.out = some o → s.outCancel = true → s'.out = none → RxEff s s'
  | acked (o : SigC.Msg) : s.out = some o → s.outCancel = false → s'.out = some o → s'.outSent = s.outSent →
      s'.outAcked = true → s'.outCancel = false → RxEff s s'

theorem rxEv_eff {r : Sig.Resp} (h : isAnn r = false) (s : SigC.State) :
    RxEff s (rxEv r s) ∧ (rxEv r s).sends = s.sends := by
  obtain ⟨open_, out, outSent, outAcked, outCancel, recv, recvProcessed, sends, delivered, emitted,
    accepted, ackedLog, failed⟩ := s
  cases r <;> simp only [isAnn] at h
  case ack k =>
    simp only [rxEv, SigC.step, SigC.ackMsg]
    cases out with
    | none => exact ⟨RxEff.same rfl rfl rfl rfl, rfl⟩
    | some o =>
      by_cases hk : o.seqno = k
      · cases outCancel with
        | true => exact ⟨RxEff.cleared o rfl rfl (by simp [hk]), by simp [hk]⟩
        | false => exact ⟨RxEff.acked o rfl rfl (by simp [hk]) (by simp [hk]) (by simp [hk]) (by simp [hk]), by simp [hk]⟩
      · exact ⟨by simp [hk]; exact RxEff.same rfl rfl rfl rfl, by simp [hk]⟩
  case clear k =>
    simp only [rxEv, SigC.step, SigC.clearMsg]
    split <;> exact ⟨RxEff.same rfl rfl rfl rfl, rfl⟩
  case recv m => exact ⟨RxEff.same rfl rfl rfl rfl, rfl⟩
  case setPeer q => exact ⟨RxEff.same rfl rfl rfl rfl, rfl⟩
  case clearPeer q => exact ⟨RxEff.same rfl rfl rfl rfl, rfl⟩
  all_goals cases h

theorem recvStep_fields (s : SigC.State) :
    (SigC.recvStep s).out = s.out ∧ (SigC.recvStep s).outSent = s.outSent ∧
    (SigC.recvStep s).outAcked = s.outAcked ∧ (SigC.recvStep s).outCancel = s.outCancel ∧
    (SigC.recvStep s).sends = s.sends := by
  unfold SigC.recvStep
  split
  · split <;> simp
  · simp

end SigPair
end Bifrost
