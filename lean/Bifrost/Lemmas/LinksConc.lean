import Bifrost.Model.Links
import Bifrost.Model.LinksConc
import Bifrost.Lemmas.LinksBasic
/-! Interleavings of concurrent batches: the computed `merges` are exactly the `Merge`s; a merge
is a permutation of the batch that keeps every goroutine's sequence as a subsequence. -/
namespace Bifrost
namespace Links

theorem batchSize_nil : batchSize [] = 0 := rfl

theorem batchSize_cons (g : List Op) (gs : List (List Op)) :
    batchSize (g :: gs) = g.length + batchSize gs := by
  simp [batchSize]

theorem picks_size : ∀ (gs : List (List Op)) (x : Op) (r : List (List Op)),
    (x, r) ∈ picks gs → batchSize gs = batchSize r + 1
  | [], x, r, h => by simp [picks] at h
  | [] :: gs, x, r, h => by
    simp only [picks, List.mem_map] at h
    obtain ⟨p, hp, he⟩ := h
    cases he
    have := picks_size gs p.1 p.2 hp
    simp only [batchSize_cons, List.length_nil, Nat.zero_add]
    exact this
  | (y :: g) :: gs, x, r, h => by
    simp only [picks, List.mem_cons, List.mem_map] at h
    rcases h with he | ⟨p, hp, he⟩
    · cases he
      simp only [batchSize_cons, List.length_cons]
      omega
    · cases he
      have := picks_size gs p.1 p.2 hp
      simp only [batchSize_cons, List.length_cons]
      omega

theorem picks_nil_of_size {gs : List (List Op)} (h : batchSize gs = 0) : picks gs = [] := by
  cases hp : picks gs with
  | nil => rfl
  | cons p ps =>
    have := picks_size gs p.1 p.2 (by rw [hp]; exact List.mem_cons_self)
    omega

/-- The computed interleavings are exactly the `Merge`s. -/
theorem mem_mergesAux : ∀ (fuel : Nat) (gs : List (List Op)) (σ : List Op),
    batchSize gs ≤ fuel → (σ ∈ mergesAux fuel gs ↔ Merge gs σ)
  | 0, gs, σ, h => by
    have hp : picks gs = [] := picks_nil_of_size (by omega)
    simp only [mergesAux, List.mem_singleton]
    constructor
    · rintro rfl; exact Merge.done hp
    · intro hm
      cases hm with
      | done _ => rfl
      | pick hx _ => rw [hp] at hx; cases hx
  | fuel + 1, gs, σ, h => by
    simp only [mergesAux]
    split
    · rename_i he
      have hp : picks gs = [] := List.isEmpty_iff.1 he
      simp only [List.mem_singleton]
      constructor
      · rintro rfl; exact Merge.done hp
      · intro hm
        cases hm with
        | done _ => rfl
        | pick hx _ => rw [hp] at hx; cases hx
    · rename_i he
      simp only [List.mem_flatMap, List.mem_map]
      constructor
      · rintro ⟨q, hq, τ, hτ, rfl⟩
        have hs := picks_size gs q.1 q.2 hq
        exact Merge.pick hq ((mem_mergesAux fuel q.2 τ (by omega)).1 hτ)
      · intro hm
        cases hm with
        | done hp => rw [hp] at he; exact absurd rfl he
        | @pick _ r x τ hx hτ =>
          have hs := picks_size gs x r hx
          exact ⟨(x, r), hx, τ, (mem_mergesAux fuel r τ (by omega)).2 hτ, rfl⟩

theorem mem_merges (gs : List (List Op)) (σ : List Op) : σ ∈ merges gs ↔ Merge gs σ :=
  mem_mergesAux _ gs σ (Nat.le_refl _)

/-- The states computed for a batch are exactly the folds of `step` over its interleavings. -/
theorem mem_finals (s : State) (gs : List (List Op)) (s' : State) :
    s' ∈ finals s gs ↔ ∃ σ, Merge gs σ ∧ s' = σ.foldl step s := by
  simp only [finals, List.mem_map, mem_merges]
  constructor
  · rintro ⟨σ, h, rfl⟩; exact ⟨σ, h, rfl⟩
  · rintro ⟨σ, h, rfl⟩; exact ⟨σ, h, rfl⟩

theorem run_append (pre σ : List Op) : run (pre ++ σ) = σ.foldl step (run pre) := by
  simp [run, List.foldl_append]

/-! ### What a merge is -/

theorem picks_nil_mem : ∀ (gs : List (List Op)), picks gs = [] → ∀ g ∈ gs, g = []
  | [], _, g, hg => by cases hg
  | [] :: gs, h, g, hg => by
    simp only [picks, List.map_eq_nil_iff] at h
    rcases List.mem_cons.1 hg with rfl | hg
    · rfl
    · exact picks_nil_mem gs h g hg
  | (y :: g') :: gs, h, g, hg => by simp [picks] at h

theorem flatten_nil_of_all_nil : ∀ (gs : List (List Op)), (∀ g ∈ gs, g = []) → gs.flatten = []
  | [], _ => rfl
  | g :: gs, h => by
    have hg : g = [] := h g List.mem_cons_self
    subst hg
    simp only [List.flatten_cons, List.nil_append]
    exact flatten_nil_of_all_nil gs (fun g' hg' => h g' (List.mem_cons_of_mem _ hg'))

theorem picks_perm : ∀ (gs : List (List Op)) (x : Op) (r : List (List Op)),
    (x, r) ∈ picks gs → gs.flatten.Perm (x :: r.flatten)
  | [], x, r, h => by simp [picks] at h
  | [] :: gs, x, r, h => by
    simp only [picks, List.mem_map] at h
    obtain ⟨p, hp, he⟩ := h
    cases he
    simpa using picks_perm gs p.1 p.2 hp
  | (y :: g) :: gs, x, r, h => by
    simp only [picks, List.mem_cons, List.mem_map] at h
    rcases h with he | ⟨p, hp, he⟩
    · cases he
      simp
    · cases he
      have ih := picks_perm gs p.1 p.2 hp
      simp only [List.flatten_cons]
      exact (List.Perm.append_left (y :: g) ih).trans List.perm_middle

/-- A merge is a permutation of the ops of the batch… -/
theorem Merge.perm {gs : List (List Op)} {σ : List Op} (h : Merge gs σ) : σ.Perm gs.flatten := by
  induction h with
  | done hp => rw [flatten_nil_of_all_nil _ (picks_nil_mem _ hp)]
  | pick hx _ ih => exact (List.Perm.cons _ ih).trans (picks_perm _ _ _ hx).symm

theorem picks_mem : ∀ (gs : List (List Op)) (x : Op) (r : List (List Op)),
    (x, r) ∈ picks gs → ∀ g ∈ gs, g ∈ r ∨ ∃ g', g = x :: g' ∧ g' ∈ r
  | [], x, r, h, _, _ => by simp [picks] at h
  | [] :: gs, x, r, h, g, hg => by
    simp only [picks, List.mem_map] at h
    obtain ⟨p, hp, he⟩ := h
    cases he
    rcases List.mem_cons.1 hg with rfl | hg
    · exact Or.inl List.mem_cons_self
    · rcases picks_mem gs p.1 p.2 hp g hg with h1 | ⟨g', h1, h2⟩
      · exact Or.inl (List.mem_cons_of_mem _ h1)
      · exact Or.inr ⟨g', h1, List.mem_cons_of_mem _ h2⟩
  | (y :: g0) :: gs, x, r, h, g, hg => by
    simp only [picks, List.mem_cons, List.mem_map] at h
    rcases h with he | ⟨p, hp, he⟩
    · cases he
      rcases List.mem_cons.1 hg with rfl | hg
      · exact Or.inr ⟨g0, rfl, List.mem_cons_self⟩
      · exact Or.inl (List.mem_cons_of_mem _ hg)
    · cases he
      rcases List.mem_cons.1 hg with rfl | hg
      · exact Or.inl List.mem_cons_self
      · rcases picks_mem gs p.1 p.2 hp g hg with h1 | ⟨g', h1, h2⟩
        · exact Or.inl (List.mem_cons_of_mem _ h1)
        · exact Or.inr ⟨g', h1, List.mem_cons_of_mem _ h2⟩

/-- …that keeps the sequence of every goroutine as a subsequence. -/
theorem Merge.sublist {gs : List (List Op)} {σ : List Op} (h : Merge gs σ) :
    ∀ g ∈ gs, g.Sublist σ := by
  induction h with
  | done hp =>
    intro g hg
    rw [picks_nil_mem _ hp g hg]
    exact List.Sublist.refl _
  | pick hx _ ih =>
    intro g hg
    rcases picks_mem _ _ _ hx g hg with h1 | ⟨g', rfl, h2⟩
    · exact (ih g h1).trans (List.sublist_cons_self _ _)
    · exact (ih g' h2).cons_cons _

end Links
end Bifrost
