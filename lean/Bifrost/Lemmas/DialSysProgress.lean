import Bifrost.Lemmas.DialSysStep
/-! Progress of the dialing system (the code as fixed): an unresolved link dialer is never in a
state from which its routine cannot go on, and when the intended peer answers it resolves.
Helper lemmas for C05Sys. -/
namespace Bifrost
namespace DialSys
open Links (Link)

/-- The code as it is: all three fixes. -/
def Fixed (cfg : Cfg) : Prop := cfg.yieldExisting = true ∧ cfg.adoptNext = true

/-- an empty container means the routine is still working on it -/
def Live (s : State) : Prop := ∀ ld ∈ s.lds, ld.lnk = none → ld.rt ≠ .done ∧ ld.rt ≠ .got none

theorem live_setLD {s : State} (h : Live s) {ld' : LDialer}
    (hld : ld'.lnk = none → ld'.rt ≠ .done ∧ ld'.rt ≠ .got none) : Live (setLD s ld') :=
  forall_setLD (P := fun ld => ld.lnk = none → ld.rt ≠ .done ∧ ld.rt ≠ .got none) h hld

theorem live_addRefStep {s : State} (h : Live s) (k : Key) : Live (addRefStep s k) := by
  unfold addRefStep
  split
  · exact h
  · split
    · intro ld hld
      rcases List.mem_cons.1 hld with rfl | hld
      · intro _; exact ⟨by simp, by simp⟩
      · exact h ld hld
    · rename_i ld hg
      exact live_setLD h (h ld (getLD_some hg).1)

theorem live_releaseStep {s : State} (h : Live s) (k : Key) : Live (releaseStep s k) := by
  unfold releaseStep
  split
  · exact h
  · rename_i ld hg
    split
    · intro x hx; exact h x (List.mem_filter.1 hx).1
    · exact live_setLD h (h ld (getLD_some hg).1)

theorem live_applyFlushes {cfg : Cfg} (hfix : Fixed cfg) (fl : List (Link × Bool × Option Link))
    (hfl : ∀ f ∈ fl, f.2.1 = true → f.2.2 ≠ none) :
    ∀ (lds : List LDialer), (∀ ld ∈ lds, ld.lnk = none → ld.rt ≠ .done ∧ ld.rt ≠ .got none) →
      ∀ ld ∈ applyFlushes cfg fl lds, ld.lnk = none → ld.rt ≠ .done ∧ ld.rt ≠ .got none := by
  induction fl with
  | nil => intro lds h; exact h
  | cons f rest ih =>
    intro lds h
    apply ih (fun g hg => hfl g (List.mem_cons_of_mem _ hg))
    intro ld hld
    obtain ⟨y, hy, rfl⟩ := List.mem_map.1 hld
    unfold restartOne
    split
    · simp only [hfix.2, if_true]
      split
      · split
        · intro hl; cases hl
        · intro _; exact ⟨by simp, by simp⟩
      · rename_i hnone
        intro _
        have hf : f.2.1 = false := by
          cases hb : f.2.1
          · rfl
          · exact absurd hnone (hfl f List.mem_cons_self hb)
        simp only [hf, Bool.false_eq_true, if_false]
        exact ⟨by simp, by simp⟩
    · exact h y hy

theorem live_step {cfg : Cfg} {lp : Nat} (hfix : Fixed cfg) {s : State} (hwf : WF cfg lp s) (h : Live s)
    (op : Op) : Live (step cfg lp s op) := by
  have hstale : ∀ st, Live { s with staleStore := st } := fun _ => h
  cases op with
  | addRef k => exact live_addRefStep h k
  | release k => exact live_releaseStep h k
  | tptAdd d => simp only [step]; split; exact live_addRefStep h _; exact h
  | tptDone d => simp only [step]; split; exact live_releaseStep h _; exact h
  | ret k => simp only [step]; (repeat' split) <;> exact h
  | tptPush d => simp only [step]; (repeat' split) <;> exact h
  | rtCheck k =>
    simp only [step]
    split
    · split
      · split
        · exact live_setLD h (fun _ => ⟨by simp, by simp⟩)
        · split
          · exact live_setLD h (fun _ => ⟨by simp, by simp⟩)
          · simp only [hfix.1, if_true]
            exact live_setLD h (fun _ => ⟨by simp, by simp⟩)
      · exact h
    · exact h
  | rtAttach k =>
    simp only [step]
    split
    · split
      · split
        · exact live_setLD h (fun _ => ⟨by simp, by simp⟩)
        · exact live_setLD (s := { s with qdialers := _, dmap := _ }) h (fun _ => ⟨by simp, by simp⟩)
      · exact h
    · exact h
  | rtAwait k =>
    simp only [step]
    split
    · split
      · split
        · split
          · exact live_setLD h (fun _ => ⟨by simp, by simp⟩)
          · split
            · exact live_setLD h (fun _ => ⟨by simp, by simp⟩)
            · exact live_setLD h (fun _ => ⟨by simp, by simp⟩)
          · exact h
        · exact h
      · exact h
    · exact h
  | rtTimer k =>
    simp only [step]
    split
    · split
      · exact live_setLD h (fun _ => ⟨by simp, by simp⟩)
      · exact h
    · exact h
  | rtStore k =>
    simp only [step]
    cases hg : getLD s k with
    | none => exact h
    | some ld =>
      dsimp only
      obtain ⟨hmem, _⟩ := getLD_some hg
      by_cases hgot : ∃ ol, ld.rt = .got ol
      · obtain ⟨ol, hrt⟩ := hgot
        simp only [hrt]
        apply live_setLD (hstale _)
        intro hl
        simp only at hl
        subst hl
        -- the container was empty (the routine had not finished), so `got none` is excluded
        have hnone : ld.lnk = none := by
          cases hl' : ld.lnk with
          | none => rfl
          | some l =>
            have := ((hwf.ld_ok ld hmem).2.2.2 l hl').2.2
            rw [hrt] at this; cases this
        exact absurd hrt (h ld hmem hnone).2
      · split
        · rename_i ol hrt; exact absurd ⟨ol, hrt⟩ hgot
        · exact h
  | answer d who =>
    simp only [step]
    (repeat' split) <;> exact h
  | dexit d => simp only [step]; (repeat' split) <;> exact h
  | strayAttach a x => simp only [step]; split <;> exact h
  | inbound a p => exact h
  | close i => exact h
  | runClose i => exact h
  | runLost a l => exact h
  | runEst l =>
    simp only [step]
    split
    · refine live_applyFlushes hfix _ ?_ s.lds h
      intro f hf _ hn
      rw [(flushedBy_est_next hf).1] at hn; cases hn
    · exact h
  | runCtrlLost l =>
    simp only [step]
    split
    · refine live_applyFlushes hfix _ ?_ s.lds h
      intro f hf ht
      rw [(flushedBy_lost_next hf).2] at ht; cases ht
    · exact h

theorem live_run {cfg : Cfg} (hfix : Fixed cfg) (lp : Nat) (ops : List Op) : Live (run cfg lp ops) := by
  induction ops using Links.snoc_induction with
  | nil => intro ld hld; cases hld
  | snoc ops op ih => rw [run_snoc]; exact live_step hfix (wf_run cfg lp ops) ih op

/-! ### what the steps of a tail compute -/

theorem step_rtCheck_none {cfg : Cfg} {lp : Nat} {s : State} {k : Key} {ld : LDialer}
    (hg : getLD s k = some ld) (hrt : ld.rt = .idle) (hl : QuicTable.lookupAddr s.q k.2 = none) :
    step cfg lp s (.rtCheck k) = setLD s { ld with rt := .checked } := by
  simp [step, hg, hrt, hl]

theorem step_rtCheck_same {cfg : Cfg} (hfix : Fixed cfg) {lp : Nat} {s : State} {k : Key} {ld : LDialer} {l : Link}
    (hg : getLD s k = some ld) (hrt : ld.rt = .idle) (hl : QuicTable.lookupAddr s.q k.2 = some l)
    (hrem : l.remote = k.1) :
    step cfg lp s (.rtCheck k) = setLD s { ld with rt := .got (some l) } := by
  simp [step, hg, hrt, hl, hrem, hfix.1]

theorem step_rtAttach_some {cfg : Cfg} {lp : Nat} {s : State} {k : Key} {ld : LDialer} {d : Nat}
    (hg : getLD s k = some ld) (hrt : ld.rt = .checked) (hd : dmapGet s k.2 = some d) :
    step cfg lp s (.rtAttach k) = setLD s { ld with rt := .awaiting d } := by
  simp [step, hg, hrt, hd]

theorem step_rtAttach_none {cfg : Cfg} {lp : Nat} {s : State} {k : Key} {ld : LDialer}
    (hg : getLD s k = some ld) (hrt : ld.rt = .checked) (hd : dmapGet s k.2 = none) :
    step cfg lp s (.rtAttach k) =
      setLD { s with qdialers := ⟨s.qdialers.length, k.2, k.1, .pending⟩ :: s.qdialers,
                     dmap := (k.2, s.qdialers.length) :: s.dmap }
        { ld with rt := .awaiting s.qdialers.length } := by
  simp [step, hg, hrt, hd]

theorem step_rtAwait_failed {cfg : Cfg} {lp : Nat} {s : State} {k : Key} {ld : LDialer} {d : Nat} {qd : QDialer}
    (hg : getLD s k = some ld) (hrt : ld.rt = .awaiting d) (hq : getQD s d = some qd)
    (hres : qd.res = .failed) :
    step cfg lp s (.rtAwait k) = setLD s { ld with rt := .backoff } := by
  simp [step, hg, hrt, hq, hres]

theorem step_rtAwait_other {cfg : Cfg} {lp : Nat} {s : State} {k : Key} {ld : LDialer} {d : Nat} {qd : QDialer}
    {l : Link} (hg : getLD s k = some ld) (hrt : ld.rt = .awaiting d) (hq : getQD s d = some qd)
    (hres : qd.res = .link l) (hk : k.1 ≠ 0) (hne : l.remote ≠ k.1) :
    step cfg lp s (.rtAwait k) = setLD s { ld with rt := .backoff } := by
  simp [step, hg, hrt, hq, hres, hk, hne]

theorem step_rtAwait_link {cfg : Cfg} {lp : Nat} {s : State} {k : Key} {ld : LDialer} {d : Nat} {qd : QDialer}
    {l : Link} (hg : getLD s k = some ld) (hrt : ld.rt = .awaiting d) (hq : getQD s d = some qd)
    (hres : qd.res = .link l) (heq : l.remote = k.1) :
    step cfg lp s (.rtAwait k) = setLD s { ld with rt := .got (some l) } := by
  simp [step, hg, hrt, hq, hres, heq]

theorem step_rtTimer {cfg : Cfg} {lp : Nat} {s : State} {k : Key} {ld : LDialer}
    (hg : getLD s k = some ld) (hrt : ld.rt = .backoff) :
    step cfg lp s (.rtTimer k) = setLD s { ld with rt := .idle } := by
  simp [step, hg, hrt]

theorem step_rtStore_lnk {cfg : Cfg} {lp : Nat} {s : State} {k : Key} {ld : LDialer} {ol : Option Link}
    (hg : getLD s k = some ld) (hrt : ld.rt = .got ol) :
    getLD (step cfg lp s (.rtStore k)) k = some { ld with lnk := ol, rt := .done } := by
  simp only [step, hg, hrt]
  have hk := (getLD_some hg).2
  have : getLD ({ s with staleStore :=
      (match ol with
        | some l => if l.id ∈ s.q.lostSeen ∨ l.id ∈ s.q.ctrl.closed then [l.id] else []
        | none => []) ++ s.staleStore } : State) ({ ld with lnk := ol, rt := Rt.done } : LDialer).key = some ld := by
    show getLD s ld.key = some ld
    rw [hk]; exact hg
  have h2 := getLD_setLD_self this
  rw [← hk]; exact h2

theorem step_answer_link {cfg : Cfg} {lp : Nat} {s : State} {d who : Nat} {qd : QDialer}
    (hq : getQD s d = some qd) (hres : qd.res = .pending) (hw : who ≠ 0) :
    step cfg lp s (.answer d who) =
      { setQDRes (sessionAt cfg s (cfg.resolve qd.addr) who) d
          (.link (nextLink cfg s (cfg.resolve qd.addr) who)) with pendExit := d :: s.pendExit } := by
  simp [step, hq, hres, hw]

theorem step_dexit {cfg : Cfg} {lp : Nat} {s : State} {d : Nat} {qd : QDialer}
    (hq : getQD s d = some qd) (hin : d ∈ s.pendExit) (hm : dmapGet s qd.addr = some d) :
    step cfg lp s (.dexit d) = { s with pendExit := s.pendExit.erase d, dmap := dmapDel s.dmap qd.addr } := by
  simp [step, hq, hin, hm]

/-! ### progress -/

/-- the steps of a tail: the routine of key `k`, the removal of finished dialers, and dial
attempts answered by the peer the key asks for -/
def Internal (k : Key) : Op → Prop
  | .rtCheck k' => k' = k
  | .rtAttach k' => k' = k
  | .rtAwait k' => k' = k
  | .rtTimer k' => k' = k
  | .rtStore k' => k' = k
  | .dexit _ => True
  | .answer _ who => who = k.1
  | _ => False

/-- the container of key `k` holds a link to the key's peer -/
def Resolved (s : State) (k : Key) : Prop :=
  ∃ ld l, getLD s k = some ld ∧ ld.lnk = some l ∧ l.remote = k.1

/-- no other peer's link occupies the key's address -/
def NoOther (s : State) (k : Key) : Prop :=
  ∀ l, QuicTable.lookupAddr s.q k.2 = some l → l.remote = k.1

/-- what a progress lemma delivers -/
def Prog (cfg : Cfg) (lp : Nat) (s : State) (k : Key) : Prop :=
  ∃ tail, (∀ op ∈ tail, Internal k op) ∧ Resolved (runs cfg lp s tail) k

theorem Prog.cons {cfg : Cfg} {lp : Nat} {s : State} {k : Key} (op : Op) (hop : Internal k op)
    (h : Prog cfg lp (step cfg lp s op) k) : Prog cfg lp s k := by
  obtain ⟨tail, h1, h2⟩ := h
  refine ⟨op :: tail, ?_, ?_⟩
  · intro o ho
    rcases List.mem_cons.1 ho with rfl | ho
    · exact hop
    · exact h1 o ho
  · rw [runs_cons]; exact h2

theorem prog_got {cfg : Cfg} {lp : Nat} {s : State} (hwf : WF cfg lp s) {k : Key} {ld : LDialer} {l : Link}
    (hg : getLD s k = some ld) (hrt : ld.rt = .got (some l)) : Prog cfg lp s k := by
  refine ⟨[.rtStore k], ?_, ?_⟩
  · intro o ho; simp at ho; subst ho; exact rfl
  · obtain ⟨hmem, hkey⟩ := getLD_some hg
    refine ⟨_, l, step_rtStore_lnk (cfg := cfg) (lp := lp) hg hrt, rfl, ?_⟩
    rw [← hkey]; exact ((hwf.ld_ok ld hmem).2.2.1 l hrt).1

theorem prog_awaitLink {cfg : Cfg} {lp : Nat} {s : State} (hwf : WF cfg lp s) (hq : QuicTable.QInv s.q)
    {k : Key} {ld : LDialer} {d : Nat} {qd : QDialer} {l : Link}
    (hg : getLD s k = some ld) (hrt : ld.rt = .awaiting d) (hqd : getQD s d = some qd)
    (hres : qd.res = .link l) (heq : l.remote = k.1) : Prog cfg lp s k := by
  apply Prog.cons (.rtAwait k) rfl
  have hst := step_rtAwait_link (cfg := cfg) (lp := lp) hg hrt hqd hres heq
  have hkey := (getLD_some hg).2
  have hg' : getLD (step cfg lp s (.rtAwait k)) k = some { ld with rt := .got (some l) } := by
    rw [hst, ← hkey]
    exact getLD_setLD_self (ld := { ld with rt := .got (some l) }) (by simpa [hkey] using hg)
  exact prog_got (wf_step hwf hq _) hg' rfl

theorem lookupAddr_session (U : Nat → Nat → Nat) (q : QuicTable.State) (a p : Nat) :
    QuicTable.lookupAddr (QuicTable.step U q (.session a p)) a = some ⟨q.created.length, U a p, p⟩ := by
  simp [QuicTable.lookupAddr, QuicTable.step, QuicTable.stepWith]

theorem prog_awaitPending {cfg : Cfg} {lp : Nat} {s : State} (hwf : WF cfg lp s) (hq : QuicTable.QInv s.q)
    {k : Key} {ld : LDialer} {d : Nat} {qd : QDialer}
    (hg : getLD s k = some ld) (hrt : ld.rt = .awaiting d) (hqd : getQD s d = some qd)
    (hres : qd.res = .pending) : Prog cfg lp s k := by
  obtain ⟨hmem, hkey⟩ := getLD_some hg
  have hk0 : k.1 ≠ 0 := hkey ▸ (hwf.ld_ok ld hmem).1
  apply Prog.cons (.answer d k.1) rfl
  have hst := step_answer_link (cfg := cfg) (lp := lp) hqd hres hk0
  have hwf' := wf_step hwf hq (.answer d k.1)
  have hq' : QuicTable.QInv (step cfg lp s (.answer d k.1)).q := by
    rw [hst]
    show QuicTable.QInv (QuicTable.step cfg.U s.q (.session (cfg.resolve qd.addr) k.1))
    exact QuicTable.qinv_step _ hq _
  have hg' : getLD (step cfg lp s (.answer d k.1)) k = some ld := by rw [hst]; exact hg
  have hqd' : getQD (step cfg lp s (.answer d k.1)) d =
      some { qd with res := .link (nextLink cfg s (cfg.resolve qd.addr) k.1) } := by
    rw [hst]
    exact getQD_setQDRes (s := sessionAt cfg s (cfg.resolve qd.addr) k.1) hqd
  exact prog_awaitLink hwf' hq' hg' hrt hqd' rfl rfl

theorem prog_checked {cfg : Cfg} {lp : Nat} {s : State} (hwf : WF cfg lp s) (hq : QuicTable.QInv s.q)
    {k : Key} {ld : LDialer} (hg : getLD s k = some ld) (hrt : ld.rt = .checked) : Prog cfg lp s k := by
  obtain ⟨hmem, hkey⟩ := getLD_some hg
  -- the attach step on a state whose `t.dialers[a]` is known
  have attachNone : ∀ (s : State), WF cfg lp s → QuicTable.QInv s.q → getLD s k = some ld →
      dmapGet s k.2 = none → Prog cfg lp s k := by
    intro s hwf hq hg hd
    apply Prog.cons (.rtAttach k) rfl
    have hst := step_rtAttach_none (cfg := cfg) (lp := lp) hg hrt hd
    have hwf' := wf_step hwf hq (.rtAttach k)
    have hq' : QuicTable.QInv (step cfg lp s (.rtAttach k)).q := by rw [hst]; exact hq
    have hg' : getLD (step cfg lp s (.rtAttach k)) k = some { ld with rt := .awaiting s.qdialers.length } := by
      rw [hst, ← hkey]
      exact getLD_setLD_self (ld := { ld with rt := .awaiting s.qdialers.length })
        (ld' := ld) (by show getLD s ld.key = some ld; rw [hkey]; exact hg)
    have hqd' : getQD (step cfg lp s (.rtAttach k)) s.qdialers.length =
        some ⟨s.qdialers.length, k.2, k.1, .pending⟩ := by
      rw [hst]; simp [getQD]
    exact prog_awaitPending hwf' hq' hg' rfl hqd' rfl
  cases hd : dmapGet s k.2 with
  | none => exact attachNone s hwf hq hg hd
  | some d =>
    have hin := dmapGet_some hd
    obtain ⟨d1, d2⟩ := hwf.dmap_ok _ hin
    obtain ⟨qd, hqd⟩ := hwf.getQD_of_lt d1
    obtain ⟨hqm, hqid⟩ := getQD_some hqd
    have haddr : qd.addr = k.2 := d2 qd hqm hqid
    -- a finished dialer that is still in `t.dialers` leaves first (its deferred removal is pending)
    have leave : qd.res ≠ .pending → Prog cfg lp s k := by
      intro hfin
      have hpend : d ∈ s.pendExit := hwf.fin_pend _ hin qd hqm hqid hfin
      apply Prog.cons (.dexit d) trivial
      have hst := step_dexit (cfg := cfg) (lp := lp) hqd hpend (by simpa [haddr] using hd)
      have hwf' := wf_step hwf hq (.dexit d)
      rw [hst] at hwf' ⊢
      apply attachNone _ hwf' hq hg
      simpa [haddr] using dmapGet_del { s with pendExit := s.pendExit.erase d } k.2
    cases hres : qd.res with
    | link l => exact leave (by rw [hres]; simp)
    | failed => exact leave (by rw [hres]; simp)
    | pending =>
      apply Prog.cons (.rtAttach k) rfl
      have hst := step_rtAttach_some (cfg := cfg) (lp := lp) hg hrt hd
      have hwf' := wf_step hwf hq (.rtAttach k)
      have hq' : QuicTable.QInv (step cfg lp s (.rtAttach k)).q := by rw [hst]; exact hq
      have hg' : getLD (step cfg lp s (.rtAttach k)) k = some { ld with rt := .awaiting d } := by
        rw [hst, ← hkey]
        exact getLD_setLD_self (ld := { ld with rt := .awaiting d }) (by simpa [hkey] using hg)
      have hqd' : getQD (step cfg lp s (.rtAttach k)) d = some qd := by rw [hst]; exact hqd
      exact prog_awaitPending hwf' hq' hg' rfl hqd' hres

theorem prog_idle {cfg : Cfg} (hfix : Fixed cfg) {lp : Nat} {s : State} (hwf : WF cfg lp s)
    (hq : QuicTable.QInv s.q) {k : Key} {ld : LDialer} (hg : getLD s k = some ld) (hrt : ld.rt = .idle)
    (hno : NoOther s k) : Prog cfg lp s k := by
  have hkey := (getLD_some hg).2
  apply Prog.cons (.rtCheck k) rfl
  have hwf' := wf_step hwf hq (.rtCheck k)
  cases hl : QuicTable.lookupAddr s.q k.2 with
  | none =>
    have hst := step_rtCheck_none (cfg := cfg) (lp := lp) hg hrt hl
    have hq' : QuicTable.QInv (step cfg lp s (.rtCheck k)).q := by rw [hst]; exact hq
    have hg' : getLD (step cfg lp s (.rtCheck k)) k = some { ld with rt := .checked } := by
      rw [hst, ← hkey]
      exact getLD_setLD_self (ld := { ld with rt := .checked }) (by simpa [hkey] using hg)
    exact prog_checked hwf' hq' hg' rfl
  | some l =>
    have hst := step_rtCheck_same (lp := lp) hfix hg hrt hl (hno l hl)
    have hg' : getLD (step cfg lp s (.rtCheck k)) k = some { ld with rt := .got (some l) } := by
      rw [hst, ← hkey]
      exact getLD_setLD_self (ld := { ld with rt := .got (some l) }) (by simpa [hkey] using hg)
    exact prog_got hwf' hg' rfl

theorem prog_backoff {cfg : Cfg} (hfix : Fixed cfg) {lp : Nat} {s : State} (hwf : WF cfg lp s)
    (hq : QuicTable.QInv s.q) {k : Key} {ld : LDialer} (hg : getLD s k = some ld) (hrt : ld.rt = .backoff)
    (hno : NoOther s k) : Prog cfg lp s k := by
  have hkey := (getLD_some hg).2
  apply Prog.cons (.rtTimer k) rfl
  have hst := step_rtTimer (cfg := cfg) (lp := lp) hg hrt
  have hwf' := wf_step hwf hq (.rtTimer k)
  have hq' : QuicTable.QInv (step cfg lp s (.rtTimer k)).q := by rw [hst]; exact hq
  have hg' : getLD (step cfg lp s (.rtTimer k)) k = some { ld with rt := .idle } := by
    rw [hst, ← hkey]
    exact getLD_setLD_self (ld := { ld with rt := .idle }) (by simpa [hkey] using hg)
  have hno' : NoOther (step cfg lp s (.rtTimer k)) k := by rw [hst]; exact hno
  exact prog_idle hfix hwf' hq' hg' rfl hno'

/-- From every state satisfying the invariants in which no other peer's link occupies the
address: an unresolved key resolves with a link to its peer, by steps of its own routine and
dial attempts answered by that peer. -/
theorem prog_any {cfg : Cfg} (hfix : Fixed cfg) {lp : Nat} {s : State} (hwf : WF cfg lp s)
    (hq : QuicTable.QInv s.q) (hlive : Live s) {k : Key} {ld : LDialer} (hg : getLD s k = some ld)
    (hnone : ld.lnk = none) (hno : NoOther s k) : Prog cfg lp s k := by
  obtain ⟨hmem, hkey⟩ := getLD_some hg
  have hk0 : k.1 ≠ 0 := hkey ▸ (hwf.ld_ok ld hmem).1
  cases hrt : ld.rt with
  | idle => exact prog_idle hfix hwf hq hg hrt hno
  | checked => exact prog_checked hwf hq hg hrt
  | backoff => exact prog_backoff hfix hwf hq hg hrt hno
  | done => exact absurd hrt (hlive ld hmem hnone).1
  | got ol =>
    cases ol with
    | none => exact absurd hrt (hlive ld hmem hnone).2
    | some l => exact prog_got hwf hg hrt
  | awaiting d =>
    obtain ⟨dlt, _⟩ := (hwf.ld_ok ld hmem).2.1 d hrt
    obtain ⟨qd, hqd⟩ := hwf.getQD_of_lt dlt
    -- after an attempt that did not yield a link to the peer: back off, then go round the loop
    have retry : step cfg lp s (.rtAwait k) = setLD s { ld with rt := .backoff } → Prog cfg lp s k := by
      intro hst
      apply Prog.cons (.rtAwait k) rfl
      have hwf' := wf_step hwf hq (.rtAwait k)
      have hq' : QuicTable.QInv (step cfg lp s (.rtAwait k)).q := by rw [hst]; exact hq
      have hg' : getLD (step cfg lp s (.rtAwait k)) k = some { ld with rt := .backoff } := by
        rw [hst, ← hkey]
        exact getLD_setLD_self (ld := { ld with rt := .backoff }) (by simpa [hkey] using hg)
      have hno' : NoOther (step cfg lp s (.rtAwait k)) k := by rw [hst]; exact hno
      exact prog_backoff hfix hwf' hq' hg' rfl hno'
    cases hres : qd.res with
    | pending => exact prog_awaitPending hwf hq hg hrt hqd hres
    | failed => exact retry (step_rtAwait_failed hg hrt hqd hres)
    | link l =>
      by_cases heq : l.remote = k.1
      · exact prog_awaitLink hwf hq hg hrt hqd hres heq
      · exact retry (step_rtAwait_other hg hrt hqd hres hk0 heq)

end DialSys
end Bifrost
