import Bifrost.Model.Framing
import Bifrost.Model.Packets
import Bifrost.Lemmas.Varint
import Bifrost.Lemmas.Header
import Bifrost.Lemmas.Packets
import Bifrost.Lemmas.Conn
/-! Helper lemmas for C07–C09 (readAtLeast / readFull over chunked readers, varint prefix).

* `Bifrost/Lemmas/Header.lean`  — C07: `readAtLeast`/`readHeader` on the flattened stream,
  varint prefix facts, `StreamEstablish` round trip.
* `Bifrost/Lemmas/Packets.lean` — C08: `readFull` on the flattened stream, `rxPump`/`recvMsgs`.
* `Bifrost/Lemmas/Conn.lean`    — C09: `chop`, `connPump`, `connReads`.
-/
