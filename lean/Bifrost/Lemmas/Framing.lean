import Bifrost.Model.Framing
import Bifrost.Model.Packets
import Bifrost.Lemmas.Varint
/-! Helper lemmas for C07–C09 (readAtLeast / readFull over chunked readers, varint prefix). -/
namespace Bifrost
end Bifrost
