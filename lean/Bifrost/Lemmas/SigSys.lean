import Bifrost.Model.SigSys
import Bifrost.Lemmas.SigClient
import Bifrost.Lemmas.SigSessMain
import Bifrost.Lemmas.SigSysCli
import Bifrost.Lemmas.SigSysSrv
import Bifrost.Lemmas.SigSysInv
import Bifrost.Lemmas.SigSysStep
/-! Invariants of the composed signaling system (C21 end to end): the observation follows from
the inductive invariant `SigSys.Inv` (see SigSysInv.lean / SigSysStep.lean). -/
namespace Bifrost
namespace SigSys
open Bifrost.SigSysSrv Bifrost.SigSysCli

/-- Component reachability: the relay and every tracker of a reachable composed state are
reachable states of their own models, so all component invariants are available. -/
theorem srv_reachable {s : State} (h : Reachable s) : Sig.Reachable s.srv :=
  (inv_of_reachable h).srv.reach

theorem client_reachable {s : State} (h : Reachable s) {a : Client} (ha : a ∈ s.clients) :
    SigC.Reachable a.st :=
  ((inv_of_reachable h).cli a ha).reach

theorem sendSuccessDelivered_of_inv {s : State} (hinv : Inv s) : sendSuccessDelivered s = true := by
  unfold sendSuccessDelivered
  rw [List.all_eq_true]
  intro a ha
  rw [List.all_eq_true]
  intro c hc
  by_cases hr : c.result = some true
  · have hok := hinv.cli a ha
    have cinv := SigClient.inv_of_reachable hok.reach
    obtain ⟨ep, hep⟩ := cinv.sa c hc hr
    obtain ⟨b, hb, hb1, hb2, m, ep', hm, hk⟩ := hok.acked _ hep
    have hbok := hinv.cli b hb
    have binv := SigClient.inv_of_reachable hbok.reach
    have hacc := binv.da m ep' hm
    obtain ⟨a', ha', e1, e2, c', hc', hm'⟩ := hbok.acc _ hacc
    have : a' = a := hinv.uniq a' ha' a ha (e1.trans hb2) (e2.trans hb1)
    subst this
    have hid : c'.id = c.id := by
      rw [← cinv.k1 c' hc', hm']
      exact hk
    have : c' = c := eq_of_nodup_ids (nodup_of_reachable hok.reach) hc' hc hid
    subst this
    rw [Bool.or_eq_true]
    right
    rw [List.any_eq_true]
    refine ⟨b, hb, ?_⟩
    simp only [Bool.and_eq_true, decide_eq_true_eq, List.any_eq_true]
    exact ⟨⟨hb1, hb2⟩, (m, ep'), hm, hm'.symm⟩
  · simp [hr]

theorem reachable_foldl (evs : List Ev) : ∀ s, Reachable s → Reachable (evs.foldl step s) := by
  induction evs with
  | nil => intro s h; exact h
  | cons e r ih => intro s h; exact ih _ (Reachable.step e h)

theorem reachable_run (evs : List Ev) : Reachable (run evs) :=
  reachable_foldl evs _ Reachable.init

end SigSys
end Bifrost
