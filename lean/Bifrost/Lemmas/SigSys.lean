import Bifrost.Model.SigSys
import Bifrost.Lemmas.SigClient
import Bifrost.Lemmas.SigSessMain
/-! Invariants of the composed signaling system (C21 end to end). -/
namespace Bifrost
end Bifrost
