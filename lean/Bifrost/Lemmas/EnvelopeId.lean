import Bifrost.Lemmas.Envelope
/-!
Lemmas about the envelope id and the structural guards of `BuildEnvelope`:
* `strconv.Itoa` is injective, hence the length-prefixed context strings determine the envelope
  id, the context and the grant index (`grantEncContext_inj`);
* grants are bound to the envelope id: under another id (or context) no grant decrypts
  (`unlock_foreign_binding`);
* which id `BuildEnvelope` puts in the envelope (`build_envelopeId`);
* the guards (`build_guards`), nil configuration (`buildOpt_none`), unsupported keys
  (`buildKeys_unsupported`).
Core Lean only.
-/
namespace Bifrost
namespace Envelope

/-! ### `strconv.Itoa` is injective -/

theorem digit_inj (a b : Nat) (ha : a < 10) (hb : b < 10)
    (h : UInt8.ofNat (48 + a) = UInt8.ofNat (48 + b)) : a = b := by
  have h2 := congrArg UInt8.toNat h
  rw [UInt8.toNat_ofNat', UInt8.toNat_ofNat'] at h2
  omega

theorem itoaAux_length_le : ∀ (fuel n : Nat) (acc : Bytes), acc.length ≤ (itoaAux fuel n acc).length
  | 0, _, acc => by simp [itoaAux]
  | fuel + 1, n, acc => by
    rw [itoaAux]
    split
    · simp
    · have := itoaAux_length_le fuel (n / 10) (UInt8.ofNat (48 + n % 10) :: acc)
      simp only [List.length_cons] at this
      omega

theorem itoaAux_length_lt (fuel n : Nat) (acc : Bytes) : acc.length < (itoaAux (fuel + 1) n acc).length := by
  rw [itoaAux]
  split
  · simp
  · have := itoaAux_length_le fuel (n / 10) (UInt8.ofNat (48 + n % 10) :: acc)
    simp only [List.length_cons] at this
    omega

theorem itoaAux_inj : ∀ (fuel fuel' n m : Nat) (acc acc' : Bytes), n < fuel → m < fuel' →
    acc.length = acc'.length → itoaAux fuel n acc = itoaAux fuel' m acc' → n = m ∧ acc = acc'
  | 0, _, _, _, _, _, hn, _, _, _ => by omega
  | _ + 1, 0, _, _, _, _, _, hm, _, _ => by omega
  | fuel + 1, fuel' + 1, n, m, acc, acc', hn, hm, hl, h => by
    rw [itoaAux, itoaAux] at h
    by_cases h1 : n < 10
    · by_cases h2 : m < 10
      · rw [if_pos h1, if_pos h2] at h
        simp only [List.cons.injEq] at h
        have := digit_inj (n % 10) (m % 10) (Nat.mod_lt _ (by decide)) (Nat.mod_lt _ (by decide)) h.1
        exact ⟨by omega, h.2⟩
      · rw [if_pos h1, if_neg h2] at h
        exfalso
        have hf : fuel' = (fuel' - 1) + 1 := by omega
        rw [hf] at h
        have := itoaAux_length_lt (fuel' - 1) (m / 10) (UInt8.ofNat (48 + m % 10) :: acc')
        rw [← h] at this
        simp only [List.length_cons] at this
        omega
    · by_cases h2 : m < 10
      · rw [if_neg h1, if_pos h2] at h
        exfalso
        have hf : fuel = (fuel - 1) + 1 := by omega
        rw [hf] at h
        have := itoaAux_length_lt (fuel - 1) (n / 10) (UInt8.ofNat (48 + n % 10) :: acc)
        rw [h] at this
        simp only [List.length_cons] at this
        omega
      · rw [if_neg h1, if_neg h2] at h
        obtain ⟨hd, ha⟩ := itoaAux_inj fuel fuel' (n / 10) (m / 10) _ _ (by omega) (by omega)
          (by simp [hl]) h
        simp only [List.cons.injEq] at ha
        have := digit_inj (n % 10) (m % 10) (Nat.mod_lt _ (by decide)) (Nat.mod_lt _ (by decide)) ha.1
        exact ⟨by omega, ha.2⟩

theorem itoa_inj (n m : Nat) (h : itoa n = itoa m) : n = m :=
  (itoaAux_inj (n + 1) (m + 1) n m [] [] (by omega) (by omega) rfl h).1

/-! ### the context strings determine every operand -/

theorem lenPrefixed_append_inj (a a' r r' : Bytes) (h : lenPrefixed a ++ r = lenPrefixed a' ++ r') :
    a = a' ∧ r = r' := by
  unfold lenPrefixed at h
  simp only [List.append_assoc, List.singleton_append] at h
  obtain ⟨h1, h2⟩ := append_sep_inj 58 _ _ _ _ (itoa_no_colon _) (itoa_no_colon _) h
  exact List.append_inj h2 (itoa_inj _ _ h1)

/-- the grant encryption context determines the envelope id, the context and the grant index -/
theorem grantEncContext_inj (envId envId' ctx ctx' : Bytes) (gi gi' : Nat)
    (h : grantEncContext envId ctx gi = grantEncContext envId' ctx' gi') :
    envId = envId' ∧ ctx = ctx' ∧ gi = gi' := by
  unfold grantEncContext at h
  simp only [List.append_assoc] at h
  have h1 := List.append_cancel_left (List.append_cancel_left h)
  obtain ⟨hid, h2⟩ := lenPrefixed_append_inj _ _ _ _ h1
  obtain ⟨hctx, h3⟩ := lenPrefixed_append_inj _ _ _ _ (List.append_cancel_left h2)
  exact ⟨hid, hctx, itoa_inj _ _ (List.append_cancel_left h3)⟩

/-- the key derivation context determines the envelope id and the context -/
theorem kdContext_inj (envId envId' ctx ctx' : Bytes) (h : kdContext envId ctx = kdContext envId' ctx') :
    envId = envId' ∧ ctx = ctx' := by
  unfold kdContext at h
  simp only [List.append_assoc] at h
  have h1 := List.append_cancel_left (List.append_cancel_left h)
  obtain ⟨hid, h2⟩ := lenPrefixed_append_inj _ _ _ _ h1
  have h3 := List.append_cancel_left h2
  rw [← List.append_nil (lenPrefixed ctx), ← List.append_nil (lenPrefixed ctx')] at h3
  exact ⟨hid, (lenPrefixed_append_inj _ _ _ _ h3).1⟩

section
variable {S : Type} [DecidableEq S]

/-! ### grants are bound to the envelope id and the context -/

theorem collect_other_binding (P : Prims) (hP : PrimsSecure P) (F : Scalars S) (dk : DedupKey S) (keypairs : List Bytes)
    (envId ctx envId' ctx' : Bytes) (hne : envId' ≠ envId ∨ ctx' ≠ ctx) (matched : Nat → List Bytes) :
    ∀ (pairs : List (GrantConfig × List (S × S))) (gi : Nat) (gs : List Grant) (acc : Acc S) (unl : List Nat),
      mkGrants P F keypairs envId ctx gi pairs = .ok gs →
      collect P F dk matched envId' ctx' gi gs acc unl = (acc, unl)
  | [], gi, gs, acc, unl, h => by
    simp only [mkGrants, Outcome.ok.injEq] at h
    subst h
    rfl
  | (gc, sh) :: rest, gi, gs, acc, unl, h => by
    rw [mkGrants] at h
    split at h
    · cases h
    · cases h
    · rename_i cts hcts
      split at h
      · rename_i gs' hrest
        simp only [Outcome.ok.injEq] at h
        subst h
        have hectx : grantEncContext envId' ctx' gi ≠ grantEncContext envId ctx gi := by
          intro he
          obtain ⟨h1, h2, _⟩ := grantEncContext_inj _ _ _ _ _ _ he
          rcases hne with hne | hne
          · exact hne h1
          · exact hne h2
        obtain ⟨hlen, htry⟩ := tryDecrypt_other_ctx P hP keypairs _ _ _ hectx matched _ _ hcts
        rw [collect]
        simp only [hlen, ne_eq, not_true_eq_false, ↓reduceIte, htry]
        exact collect_other_binding P hP F dk keypairs envId ctx envId' ctx' hne matched rest (gi + 1) gs' acc unl hrest
      · cases h
      · cases h

/-- what `UnlockEnvelope` returns when no grant decrypted -/
theorem finish_nil (P : Prims) (F : Scalars S) (ctx : Bytes) (env : Envelope) :
    finish P F ctx env ([] : List (S × S)) [] =
      if 0 < u32 (env.threshold + 1) then
        .locked { success := false, sharesAvailable := 0, sharesNeeded := u32 (env.threshold + 1), unlockedGrantIndexes := [] }
      else .err .recover := by
  unfold finish
  have h0 : u32 ([] : List (S × S)).length = 0 := rfl
  simp only [h0]
  split
  · rfl
  · simp [recover]

/-- **Grants are bound to the envelope id and to the context.** Take the grants of a sealed
envelope and put them into ANY envelope `env'` that carries another id (or unseal under another
context) — every other field of `env'` arbitrary, any keys: no grant decrypts. -/
theorem unlock_foreign_binding (P : Prims) (hP : PrimsSecure P) (F : Scalars S)
    (secret : S) (coeff : Nat → S) (nonce ctx payload : Bytes) (keypairs : List Bytes) (cfg : Config) (env : Envelope)
    (hb : build P F secret coeff nonce ctx payload keypairs cfg = .ok env)
    (env' : Envelope) (hg : env'.grants = env.grants) (ctx' : Bytes)
    (hne : env'.envelopeId ≠ env.envelopeId ∨ ctx' ≠ ctx) (sks : List Bytes) :
    unlock P F ctx' env' sks = .err .noGrants ∨ unlock P F ctx' env' sks = .err .noKeypairs ∨
      unlock P F ctx' env' sks = .err .contextMismatch ∨
      unlock P F ctx' env' sks = finish P F ctx' env' [] [] := by
  obtain ⟨_, _, _, sum, _, _, gs, hgs, hgr, _⟩ := build_ok P F secret coeff nonce ctx payload keypairs cfg env hb
  unfold unlock unlockWith
  split
  · exact Or.inl rfl
  split
  · exact Or.inr (Or.inl rfl)
  split
  · exact Or.inr (Or.inr (Or.inl rfl))
  · right; right; right
    rw [hg, hgr, collect_other_binding P hP F _ keypairs env.envelopeId ctx env'.envelopeId ctx' hne _ _ 0 gs {} [] hgs]

/-- … in particular such an envelope never opens. -/
theorem unlock_foreign_binding_not_opened (P : Prims) (hP : PrimsSecure P) (F : Scalars S)
    (secret : S) (coeff : Nat → S) (nonce ctx payload : Bytes) (keypairs : List Bytes) (cfg : Config) (env : Envelope)
    (hb : build P F secret coeff nonce ctx payload keypairs cfg = .ok env)
    (env' : Envelope) (hg : env'.grants = env.grants) (ctx' : Bytes)
    (hne : env'.envelopeId ≠ env.envelopeId ∨ ctx' ≠ ctx) (sks : List Bytes) (p : Bytes) (r : UnlockResult) :
    unlock P F ctx' env' sks ≠ .opened p r := by
  intro h
  rcases unlock_foreign_binding P hP F secret coeff nonce ctx payload keypairs cfg env hb env' hg ctx' hne sks with
    h1 | h1 | h1 | h1
  · rw [h1] at h; cases h
  · rw [h1] at h; cases h
  · rw [h1] at h; cases h
  · rw [h1, finish_nil] at h
    split at h <;> cases h

/-- **Re-labelling**: a sealed envelope whose id field alone is replaced by another id, unsealed
under the right context with any keys, reaches no share at all. -/
theorem unlock_relabel (P : Prims) (hP : PrimsSecure P) (F : Scalars S)
    (secret : S) (coeff : Nat → S) (nonce ctx payload : Bytes) (keypairs : List Bytes) (cfg : Config) (env : Envelope)
    (hb : build P F secret coeff nonce ctx payload keypairs cfg = .ok env)
    (hw : cfg.totalShares < 2 ^ 32) (id' : Bytes) (hne : id' ≠ env.envelopeId) (sks : List Bytes) :
    unlock P F ctx { env with envelopeId := id' } sks =
      .locked { success := false, sharesAvailable := 0, sharesNeeded := cfg.threshold + 1, unlockedGrantIndexes := [] } := by
  obtain ⟨_, hk, hg, sum, hsum, hth, gs, hgs, hgr, hkp, het, hch, _⟩ :=
    build_ok P F secret coeff nonce ctx payload keypairs cfg env hb
  have htot : totalOf cfg sum < 2 ^ 32 := by
    unfold totalOf
    split
    · exact hw
    · exact sumShares_lt _ _ _ _ (by decide) hsum
  have husable_le : usableShares cfg.grants (totalOf cfg sum) ≤ totalOf cfg sum := by
    rw [usableShares_eq_reachCount]; exact reachCount_le _ _ _
  have hgne : env.grants ≠ [] := by
    rw [hgr]
    have := mkGrants_length P F keypairs env.envelopeId ctx _ _ _ hgs
    rw [place_length] at this
    intro h0
    rw [h0] at this
    exact hg (List.length_eq_zero_iff.mp this.symm)
  have hgE : env.grants.isEmpty = false := by
    cases hgl : env.grants with
    | nil => exact absurd hgl hgne
    | cons a l => rfl
  have hkE : env.keypairs.isEmpty = false := by
    rw [hkp]
    cases hkl : keypairs with
    | nil => exact absurd hkl hk
    | cons a l => rfl
  unfold unlock unlockWith
  simp only [hgE, hkE, Bool.false_eq_true, ↓reduceIte, hch, ne_eq, not_true_eq_false]
  rw [hgr, collect_other_binding P hP F _ keypairs env.envelopeId ctx id' ctx (Or.inl hne) _ _ 0 gs {} [] hgs]
  rw [finish_nil]
  simp only [het]
  rw [u32_of_lt (show cfg.threshold + 1 < 2 ^ 32 by omega), if_pos (by omega)]

/-! ### which id `BuildEnvelope` uses -/

theorem build_envelopeId (P : Prims) (F : Scalars S) (secret : S) (coeff : Nat → S) (nonce ctx payload : Bytes)
    (keypairs : List Bytes) (cfg : Config) (env : Envelope)
    (h : build P F secret coeff nonce ctx payload keypairs cfg = .ok env) :
    env.envelopeId = if cfg.envelopeId.isEmpty then P.idHash (F.encode secret) ctx else cfg.envelopeId := by
  unfold build at h
  split at h
  · cases h
  split at h
  · cases h
  split at h
  · cases h
  split at h
  · cases h
  simp only at h
  split at h
  · cases h
  split at h
  · cases h
  split at h
  · cases h
  · cases h
  simp only [Outcome.ok.injEq] at h
  subst h
  rfl

/-! ### the structural guards -/

theorem build_guards (P : Prims) (F : Scalars S) (secret : S) (coeff : Nat → S) (nonce ctx payload : Bytes)
    (keypairs : List Bytes) (cfg : Config) :
    (payload = [] → build P F secret coeff nonce ctx payload keypairs cfg = .err .emptyPayload) ∧
    (payload ≠ [] → keypairs = [] → build P F secret coeff nonce ctx payload keypairs cfg = .err .noKeypairs) ∧
    (payload ≠ [] → keypairs ≠ [] → cfg.grants = [] →
      build P F secret coeff nonce ctx payload keypairs cfg = .err .noGrants) ∧
    (payload ≠ [] → keypairs ≠ [] → cfg.grants ≠ [] → sumShares keypairs.length cfg.grants 0 = none →
      build P F secret coeff nonce ctx payload keypairs cfg = .err .invalidKeypairIndex) := by
  refine ⟨?_, ?_, ?_, ?_⟩
  · intro hp
    subst hp
    simp [build]
  · intro hp hk
    subst hk
    have : payload.isEmpty = false := by cases payload <;> simp_all
    simp [build, this]
  · intro hp hk hg
    have h1 : payload.isEmpty = false := by cases payload <;> simp_all
    have h2 : keypairs.isEmpty = false := by cases keypairs <;> simp_all
    simp [build, h1, h2, hg]
  · intro hp hk hg hs
    have h1 : payload.isEmpty = false := by cases payload <;> simp_all
    have h2 : keypairs.isEmpty = false := by cases keypairs <;> simp_all
    have h3 : cfg.grants.isEmpty = false := by cases hgl : cfg.grants <;> simp_all
    unfold build
    simp only [h1, h2, h3, Bool.false_eq_true, ↓reduceIte]
    rw [hs]

/-- an index that is out of range makes the validation loop fail -/
theorem sumShares_bad_index (nkeys : Nat) : ∀ (gcs : List GrantConfig) (acc : Nat),
    (∃ gc ∈ gcs, ∃ k ∈ gc.keypairIndexes, nkeys ≤ k) → sumShares nkeys gcs acc = none
  | [], _, h => by obtain ⟨_, hm, _⟩ := h; cases hm
  | gc :: rest, acc, h => by
    rw [sumShares]
    split
    · rfl
    · rename_i hany
      obtain ⟨gc', hm, k, hk, hle⟩ := h
      rcases List.mem_cons.mp hm with rfl | hm'
      · exfalso
        apply hany
        rw [List.any_eq_true]
        exact ⟨k, hk, by simpa using hle⟩
      · exact sumShares_bad_index nkeys rest _ ⟨gc', hm', k, hk, hle⟩

/-- a nil configuration is never accepted (and never panics) -/
theorem buildOpt_none (P : Prims) (F : Scalars S) (secret : S) (coeff : Nat → S) (nonce ctx payload : Bytes)
    (keypairs : List Bytes) :
    buildOpt P F secret coeff nonce ctx payload keypairs none =
      if payload = [] then .err .emptyPayload else if keypairs = [] then .err .noKeypairs else .err .noGrants := by
  unfold buildOpt
  obtain ⟨g1, g2, g3, _⟩ := build_guards P F secret coeff nonce ctx payload keypairs ((none : Option Config).getD {})
  by_cases hp : payload = []
  · rw [if_pos hp]; exact g1 hp
  · rw [if_neg hp]
    by_cases hk : keypairs = []
    · rw [if_pos hk]; exact g2 hp hk
    · rw [if_neg hk]; exact g3 hp hk rfl

/-- a recipient key of an unsupported type: never an envelope -/
theorem buildKeys_unsupported (P : Prims) (F : Scalars S) (secret : S) (coeff : Nat → S) (nonce ctx payload : Bytes)
    (keys : List (Option Bytes)) (cfg : Option Config) (hbad : none ∈ keys) (env : Envelope) :
    buildKeys P F secret coeff nonce ctx payload keys cfg ≠ .ok env := by
  unfold buildKeys
  have hall : keys.all Option.isSome = false := by
    rw [List.all_eq_false]
    exact ⟨none, hbad, by simp⟩
  split
  · rw [hall]; simp
  · simp
  · simp

/-- with supported keys only, `buildKeys` is `buildOpt` -/
theorem buildKeys_supported (P : Prims) (F : Scalars S) (secret : S) (coeff : Nat → S) (nonce ctx payload : Bytes)
    (pems : List Bytes) (cfg : Option Config) :
    buildKeys P F secret coeff nonce ctx payload (pems.map some) cfg =
      buildOpt P F secret coeff nonce ctx payload pems cfg := by
  unfold buildKeys
  have hm : (pems.map some).map (fun k => k.getD []) = pems := by
    rw [List.map_map]
    conv => rhs; rw [← List.map_id pems]
    rfl
  have hall : (pems.map some).all Option.isSome = true := by
    rw [List.all_eq_true]
    intro x hx
    obtain ⟨_, _, rfl⟩ := List.mem_map.mp hx
    rfl
  rw [hm, hall]
  cases buildOpt P F secret coeff nonce ctx payload pems cfg <;> rfl

end

end Envelope
end Bifrost
