/-!
A small, generic toolkit for liveness over infinite executions of a labelled transition system
whose step function is TOTAL (a disabled action is a no-op), as all the LTSs of this framework are.

* an execution is a pair `σ : Nat → S` (states), `ev : Nat → A` (schedule) with
  `σ (n+1) = step (σ n) (ev n)`;
* fairness of an action `a` is "scheduled infinitely often" (`InfOften ev a`). Because disabled
  actions are no-ops, this is implied by — and for the purpose of proving progress equivalent to —
  weak fairness ("continuously enabled ⇒ eventually taken"): a weakly fair scheduler may skip `a`
  only while `a` is disabled, i.e. while taking it would change nothing
  (`infOften_of_weakFair` below makes this precise);
* `Eventually`, `Always`, invariants along a suffix (`always_of_step`);
* the proof rule (`wf_rank`): a ranking RELATION `R s α` into a well-founded order such that no
  step of the suffix raises the rank and the step of the designated ("helpful") action of the
  current rank lowers it, gives `Eventually goal`. `wf_measure` is the special case of a measure
  function. The rule is proved once, here, by well-founded induction; no bound on the number of
  steps appears anywhere.
Core Lean only.
-/
namespace Bifrost
namespace Temporal

variable {S A : Type}

/-- `σ, ev` is an execution of `step` -/
def IsExec (step : S → A → S) (σ : Nat → S) (ev : Nat → A) : Prop := ∀ n, σ (n + 1) = step (σ n) (ev n)

def Eventually (σ : Nat → S) (n : Nat) (P : S → Prop) : Prop := ∃ m, n ≤ m ∧ P (σ m)
def Always (σ : Nat → S) (n : Nat) (P : S → Prop) : Prop := ∀ m, n ≤ m → P (σ m)

/-- the action is scheduled infinitely often -/
def InfOften (ev : Nat → A) (a : A) : Prop := ∀ n, ∃ m, n ≤ m ∧ ev m = a

/-- weak fairness of `a` w.r.t. an enabledness predicate: if `a` is enabled from `n` on, it is taken at some `m ≥ n` -/
def WeakFair (σ : Nat → S) (ev : Nat → A) (en : S → A → Prop) (a : A) : Prop :=
  ∀ n, (∀ m, n ≤ m → en (σ m) a) → ∃ m, n ≤ m ∧ ev m = a

theorem Eventually.mono {σ : Nat → S} {n : Nat} {P Q : S → Prop} (h : Eventually σ n P)
    (hpq : ∀ s, P s → Q s) : Eventually σ n Q :=
  let ⟨m, hm, hp⟩ := h; ⟨m, hm, hpq _ hp⟩

theorem Eventually.of_le {σ : Nat → S} {n n' : Nat} {P : S → Prop} (h : Eventually σ n' P) (hn : n ≤ n') :
    Eventually σ n P :=
  let ⟨m, hm, hp⟩ := h; ⟨m, Nat.le_trans hn hm, hp⟩

theorem Always.of_le {σ : Nat → S} {n n' : Nat} {P : S → Prop} (h : Always σ n P) (hn : n ≤ n') :
    Always σ n' P := fun m hm => h m (Nat.le_trans hn hm)

theorem Always.and {σ : Nat → S} {n : Nat} {P Q : S → Prop} (h1 : Always σ n P) (h2 : Always σ n Q) :
    Always σ n (fun s => P s ∧ Q s) := fun m hm => ⟨h1 m hm, h2 m hm⟩

/-- An inductive invariant of the steps allowed on the suffix holds on the whole suffix. -/
theorem always_of_step {step : S → A → S} {σ : Nat → S} {ev : Nat → A} (hex : IsExec step σ ev)
    {N : Nat} {I : S → Prop} {ok : A → Prop} (h0 : I (σ N)) (hok : ∀ n, N ≤ n → ok (ev n))
    (hstep : ∀ s a, I s → ok a → I (step s a)) : Always σ N I := by
  intro m hm
  induction m with
  | zero =>
    have : N = 0 := Nat.le_zero.1 hm
    subst this; exact h0
  | succ k ih =>
    by_cases hk : N ≤ k
    · rw [hex k]; exact hstep _ _ (ih hk) (hok k hk)
    · have : N = k + 1 := by omega
      subst this; exact h0

/-- A predicate that holds now and is stable under the steps allowed on the suffix holds forever
(same as `always_of_step`, named for the "eventually always" phase arguments). -/
theorem stable_always {step : S → A → S} {σ : Nat → S} {ev : Nat → A} (hex : IsExec step σ ev)
    {N n : Nat} (hn : N ≤ n) {P : S → Prop} {ok : A → Prop} (h0 : P (σ n)) (hok : ∀ n, N ≤ n → ok (ev n))
    (hstep : ∀ s a, P s → ok a → P (step s a)) : Always σ n P :=
  always_of_step hex h0 (fun k hk => hok k (Nat.le_trans hn hk)) hstep

/-- With total steps, weak fairness w.r.t. ANY enabledness predicate whose disabled actions are
no-ops yields, for every `n`, either a later occurrence of the action or a later state in which it
is a no-op; so replacing weak fairness by `InfOften` only adds stuttering steps. (Documentation
lemma: it is the reason `InfOften` is used as the fairness notion.) -/
theorem infOften_of_weakFair {step : S → A → S} {σ : Nat → S} {ev : Nat → A} {en : S → A → Prop} {a : A}
    (hw : WeakFair σ ev en a) (hno : ∀ s, ¬ en s a → step s a = s) (n : Nat) :
    (∃ m, n ≤ m ∧ ev m = a) ∨ (∃ m, n ≤ m ∧ step (σ m) a = σ m) := by
  by_cases h : ∀ m, n ≤ m → en (σ m) a
  · exact Or.inl (hw n h)
  · have ⟨m, hm⟩ := Classical.not_forall.1 h
    have ⟨hnm, hne⟩ := Classical.not_imp.1 hm
    exact Or.inr ⟨m, hnm, hno _ hne⟩

/-- **Ranking rule.** `R s α`: "state `s` has rank (at most) `α`" in a well-founded order `r`;
`hlp α` is the designated action of rank `α`. If on the suffix from `N`, for non-goal states,
* (`hfair`) whenever a state has rank `α`, the action `hlp α` is scheduled later,
* (`hmono`) no step raises the rank (the successor has some rank `α' ≤ α`, or the goal holds),
* (`hprog`) the step of `hlp α` from a state of rank `α` lowers the rank (or reaches the goal),
then from every ranked state of the suffix the goal is eventually reached. -/
theorem wf_rank {α : Type} {r : α → α → Prop} (wf : WellFounded r)
    {σ : Nat → S} {ev : Nat → A} {N : Nat}
    {R : S → α → Prop} {goal : S → Prop} {hlp : α → A}
    (hfair : ∀ n, N ≤ n → ∀ a, R (σ n) a → ¬ goal (σ n) → ∃ m, n ≤ m ∧ ev m = hlp a)
    (hmono : ∀ n, N ≤ n → ∀ a, R (σ n) a → ¬ goal (σ n) →
      goal (σ (n + 1)) ∨ ∃ a', R (σ (n + 1)) a' ∧ (a' = a ∨ r a' a))
    (hprog : ∀ n, N ≤ n → ∀ a, R (σ n) a → ¬ goal (σ n) → ev n = hlp a →
      goal (σ (n + 1)) ∨ ∃ a', R (σ (n + 1)) a' ∧ r a' a) :
    ∀ a n, N ≤ n → R (σ n) a → Eventually σ n goal := by
  intro a
  induction a using wf.induction with
  | _ a ih =>
    intro n hn hR
    by_cases hg : goal (σ n)
    · exact ⟨n, Nat.le_refl _, hg⟩
    · obtain ⟨m, hnm, hev⟩ := hfair n hn a hR hg
      -- walk from n to m: the rank stays `a` unless the goal or a smaller rank shows up
      have aux : ∀ k, Eventually σ n goal ∨ R (σ (n + k)) a := by
        intro k
        induction k with
        | zero => exact Or.inr hR
        | succ k ihk =>
          rcases ihk with h | h
          · exact Or.inl h
          · by_cases hgk : goal (σ (n + k))
            · exact Or.inl ⟨n + k, by omega, hgk⟩
            · rcases hmono (n + k) (by omega) a h hgk with hg' | ⟨a', hR', he | hlt⟩
              · exact Or.inl ⟨n + k + 1, by omega, hg'⟩
              · subst he; exact Or.inr hR'
              · exact Or.inl ((ih a' hlt (n + k + 1) (by omega) hR').of_le (by omega))
      rcases aux (m - n) with h | h
      · exact h
      · have hm : n + (m - n) = m := by omega
        rw [hm] at h
        by_cases hgm : goal (σ m)
        · exact ⟨m, hnm, hgm⟩
        · rcases hprog m (by omega) a h hgm hev with hg' | ⟨a', hR', hlt⟩
          · exact ⟨m + 1, by omega, hg'⟩
          · exact (ih a' hlt (m + 1) (by omega) hR').of_le (by omega)

/-- **Measure rule** (the special case of a measure function): `μ` never increases on a step of
the suffix taken from a non-goal state satisfying the invariant `I`, and strictly decreases when
the designated, always eventually scheduled action `hlp (μ s)` runs; then the goal is eventually
reached from every state of the suffix. -/
theorem wf_measure {α : Type} {r : α → α → Prop} (wf : WellFounded r)
    {σ : Nat → S} {ev : Nat → A} {N : Nat} {I : S → Prop} (hI : Always σ N I)
    {μ : S → α} {goal : S → Prop} {hlp : α → A}
    (hfair : ∀ n, N ≤ n → ¬ goal (σ n) → ∃ m, n ≤ m ∧ ev m = hlp (μ (σ n)))
    (hmono : ∀ n, N ≤ n → I (σ n) → ¬ goal (σ n) →
      goal (σ (n + 1)) ∨ μ (σ (n + 1)) = μ (σ n) ∨ r (μ (σ (n + 1))) (μ (σ n)))
    (hprog : ∀ n, N ≤ n → I (σ n) → ¬ goal (σ n) → ev n = hlp (μ (σ n)) →
      goal (σ (n + 1)) ∨ r (μ (σ (n + 1))) (μ (σ n))) :
    ∀ n, N ≤ n → Eventually σ n goal := by
  intro n hn
  refine wf_rank (σ := σ) (ev := ev) (N := N) (goal := goal) (R := fun s a => μ s = a) (hlp := hlp) wf ?_ ?_ ?_ (μ (σ n)) n hn rfl
  · intro k hk a hR hg
    subst hR; exact hfair k hk hg
  · intro k hk a hR hg
    subst hR
    rcases hmono k hk (hI k hk) hg with h | h | h
    · exact Or.inl h
    · exact Or.inr ⟨_, rfl, Or.inl h⟩
    · exact Or.inr ⟨_, rfl, Or.inr h⟩
  · intro k hk a hR hg hev
    subst hR
    rcases hprog k hk (hI k hk) hg hev with h | h
    · exact Or.inl h
    · exact Or.inr ⟨_, rfl, h⟩

end Temporal
end Bifrost
