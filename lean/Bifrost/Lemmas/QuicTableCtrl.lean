import Bifrost.Model.QuicTable
import Bifrost.Lemmas.Links
/-! One controller critical section, seen from the QUIC transport: which `Close()` requests it
issues (`newClosed`) and which links it can remove from the tables. Helper lemmas for C06Quic. -/
namespace Bifrost
namespace QuicTable
open Links (Link)

theorem newClosed_of_append {c c' : Links.State} {new : List Nat}
    (h : c'.closed = new ++ c.closed) : newClosed c c' = new := by
  unfold newClosed
  rw [h, List.length_append, Nat.add_sub_cancel]
  exact List.take_left

theorem foldl_flush_closed_eq (l : List Link) : ∀ (s : Links.State),
    (l.foldl Links.flush s).closed = (l.map (·.id)).reverse ++ s.closed := by
  induction l with
  | nil => intro s; rfl
  | cons a l ih =>
    intro s
    rw [List.foldl_cons, ih]
    simp [Links.flush_closed]

/-- Every history whose links all come from a list with unique ids is well formed. -/
theorem wfh_of_subset {ops : List Links.Op} {L : List Link}
    (hsub : ∀ x ∈ Links.histLinks ops, x ∈ L)
    (hinj : ∀ x ∈ L, ∀ y ∈ L, x.id = y.id → x = y) : Links.WFH ops :=
  fun x hx y hy hid => hinj x (hsub x hx) y (hsub y hy) hid

theorem histLinks_snoc_est (cops : List Links.Op) (l : Link) :
    Links.histLinks (cops ++ [.est l]) = Links.histLinks cops ++ [l] := by
  simp [Links.histLinks, Links.histLinkOf, List.filterMap_append]

theorem histLinks_snoc_lost (cops : List Links.Op) (l : Link) :
    Links.histLinks (cops ++ [.lost l]) = Links.histLinks cops ++ [l] := by
  simp [Links.histLinks, Links.histLinkOf, List.filterMap_append]

theorem histLinks_snoc_start (cops : List Links.Op) (lp : Nat) :
    Links.histLinks (cops ++ [.start lp]) = Links.histLinks cops := by
  simp [Links.histLinks, Links.histLinkOf, List.filterMap_append]

theorem histLinks_snoc_shutdown (cops : List Links.Op) :
    Links.histLinks (cops ++ [.shutdown]) = Links.histLinks cops := by
  simp [Links.histLinks, Links.histLinkOf, List.filterMap_append]

/-- What one controller section does to `closed` and to the table, from any reachable
controller state: it only prepends to `closed`; every link it removes from `links` is in the
prepended part (so its `Close()` is requested); an establishment it rejects (transport exited,
self-dial) is in the prepended part. -/
theorem ctrl_step_closed' (cops : List Links.Op) (op : Links.Op)
    (hwf : Links.WFH (cops ++ [op])) :
    ∃ new, (Links.step (Links.run cops) op).closed = new ++ (Links.run cops).closed ∧
      (∀ x ∈ (Links.run cops).links, x ∉ (Links.step (Links.run cops) op).links → x.id ∈ new) ∧
      (∀ l, op = .est l →
        ((Links.run cops).running = false ∨ l.remote = (Links.run cops).localPeer) → l.id ∈ new) ∧
      (∀ l, op = .lost l → ∀ i ∈ new, i = l.id) := by
  have hI := Links.inv_run cops (Links.WFH_prefix hwf)
  generalize Links.run cops = s at hI ⊢
  cases op with
  | start lp =>
    refine ⟨[], ?_, ?_, ?_, ?_⟩
    · simp only [Links.step]; split <;> rfl
    · intro x hx hnx
      exfalso; apply hnx
      simp only [Links.step]; split <;> exact hx
    · intro l h; cases h
    · intro l h; cases h
  | shutdown =>
    refine ⟨(s.links.map (·.id)).reverse, ?_, ?_, ?_, ?_⟩
    · simp only [Links.step]
      exact foldl_flush_closed_eq s.links s
    · intro x hx _
      simp only [List.mem_reverse, List.mem_map]
      exact ⟨x, hx, rfl⟩
    · intro l h; cases h
    · intro l h; cases h
  | lost l =>
    rcases Links.step_lost_cases s l with ⟨el, hel, helid, hst⟩ | ⟨_, hst⟩
    · refine ⟨[el.id], ?_, ?_, ?_, ?_⟩
      · rw [hst]; rfl
      · intro x hx hnx
        rw [hst, Links.flush_links, List.mem_filter] at hnx
        have hu : x.uuid = el.uuid := by
          apply Classical.byContradiction
          intro hne
          exact hnx ⟨hx, by simpa using hne⟩
        have : x = el := Links.inj_of_nodup_map (·.uuid) hI.nd_uuid x hx el hel hu
        simp [this]
      · intro l' h; cases h
      · intro l' h i hi
        cases h
        simp only [List.mem_singleton] at hi
        rw [hi, helid]
    · refine ⟨[], ?_, ?_, ?_, ?_⟩
      · rw [hst]; rfl
      · intro x hx hnx; rw [hst] at hnx; exact absurd hx hnx
      · intro l' h; cases h
      · intro l' _ i hi; cases hi
  | est l =>
    by_cases hc : s.running = false ∨ l.remote = s.localPeer
    · refine ⟨[l.id], ?_, ?_, ?_, ?_⟩
      · rw [Links.step_est_closed hc]; rfl
      · intro x hx hnx; rw [Links.step_est_closed hc] at hnx; exact absurd hx hnx
      · intro l' h _
        cases h
        simp
      · intro l' h; cases h
    · have hr : s.running = true := by
        cases hrr : s.running
        · exact absurd (Or.inl hrr) hc
        · rfl
      have hself : l.remote ≠ s.localPeer := fun e => hc (Or.inr e)
      cases hlk : Links.lookup s l.uuid with
      | none =>
        refine ⟨[], ?_, ?_, ?_, ?_⟩
        · rw [Links.step_est_new hr hself hlk]; rfl
        · intro x hx hnx
          rw [Links.step_est_new hr hself hlk] at hnx
          exact absurd (List.mem_cons_of_mem _ hx) hnx
        · intro l' h hrej
          cases h
          exact absurd hrej hc
        · intro l' h; cases h
      | some el =>
        obtain ⟨hel, _⟩ := Links.lookup_some hlk
        by_cases hid : el.id = l.id
        · refine ⟨[], ?_, ?_, ?_, ?_⟩
          · rw [Links.step_est_dup hr hself hlk hid]; rfl
          · intro x hx hnx
            rw [Links.step_est_dup hr hself hlk hid] at hnx
            exact absurd hx hnx
          · intro l' h hrej
            cases h
            exact absurd hrej hc
          · intro l' h; cases h
        · refine ⟨[el.id], ?_, ?_, ?_, ?_⟩
          · rw [Links.step_est_replace hr hself hlk hid]; rfl
          · intro x hx hnx
            rw [Links.step_est_replace hr hself hlk hid] at hnx
            have hu : x.uuid = el.uuid := by
              apply Classical.byContradiction
              intro hne
              apply hnx
              apply List.mem_cons_of_mem
              rw [Links.flush_links, List.mem_filter]
              exact ⟨hx, by simpa using hne⟩
            have : x = el := Links.inj_of_nodup_map (·.uuid) hI.nd_uuid x hx el hel hu
            simp [this]
          · intro l' h hrej
            cases h
            exact absurd hrej hc
          · intro l' h; cases h

theorem ctrl_step_closed (cops : List Links.Op) (op : Links.Op)
    (hwf : Links.WFH (cops ++ [op])) :
    ∃ new, (Links.step (Links.run cops) op).closed = new ++ (Links.run cops).closed ∧
      (∀ x ∈ (Links.run cops).links, x ∉ (Links.step (Links.run cops) op).links → x.id ∈ new) ∧
      (∀ l, op = .est l →
        ((Links.run cops).running = false ∨ l.remote = (Links.run cops).localPeer) → l.id ∈ new) := by
  obtain ⟨new, h1, h2, h3, _⟩ := ctrl_step_closed' cops op hwf
  exact ⟨new, h1, h2, h3⟩

end QuicTable
end Bifrost
