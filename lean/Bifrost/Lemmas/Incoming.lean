import Bifrost.Model.Incoming
import Bifrost.Lemmas.Header
import Bifrost.Lemmas.IncomingHeader
/-!
Helper lemmas for the dispatch clause of C07 and the stream clause of C04:
`handleIncomingStream` expressed through the header reader on the flattened stream, and the
specification-level outcomes the property theorems are stated with.
-/
namespace Bifrost
namespace Incoming
open Framing

/-- The outcome "closed without being dispatched". -/
def rejected : Outcome := { dispatched := none, delivered := none, closed := true }

/-- What a handler must see on a stream of link `lnk` whose header named `pid` and was followed
by `rest`. -/
def factsOf (lnk : Link) (pid rest : Bytes) : Facts :=
  { pid := pid, streamPeer := lnk.remotePeer, linkLocal := lnk.localPeer,
    linkRemote := lnk.remotePeer, linkUUID := lnk.uuid, unread := rest, deadlineArmed := false }

/-- The directive that must be issued for protocol `pid` on link `lnk`. -/
def directiveOf (lnk : Link) (pid : Bytes) : Directive :=
  { protocolID := pid, localPeerID := lnk.localPeer, remotePeerID := lnk.remotePeer }

/-- The handler is handed the stream exactly for these two answers of the lookup. -/
def Lookup.delivers : Lookup → Bool
  | .accepts | .handlerErr => true
  | _ => false

/-- The stream stays open exactly when a handler accepted it. -/
def Lookup.keepsOpen : Lookup → Bool
  | .accepts => true
  | _ => false

/-- The outcome once a header naming `pid` was accepted with `rest` left unread. -/
def afterHeader (lnk : Link) (pid rest : Bytes) (env : Lookup) : Outcome :=
  { dispatched := some (directiveOf lnk pid)
    delivered := if env.delivers then some (factsOf lnk pid rest) else none
    closed := !env.keepsOpen }

theorem handle_of_error {max : Nat} {lnk : Link} {cs : Reader} {env : Lookup} {e : HdrErr}
    (h : readHeader max cs = .error e) : handleIncomingStream max lnk cs env = rejected := by
  unfold handleIncomingStream
  simp only [h]
  rfl

theorem handle_of_ok {max : Nat} {lnk : Link} {cs : Reader} {env : Lookup} {pid : Bytes}
    {r : Reader} {a : Nat} (h : readHeader max cs = .ok (pid, r, a)) :
    handleIncomingStream max lnk cs env = afterHeader lnk pid r.flatten env := by
  unfold handleIncomingStream
  simp only [h]
  cases env <;> rfl

/-- `handleIncomingStream` through the observable result of the header reader. -/
theorem handle_eq_observe (max : Nat) (lnk : Link) (cs : Reader) (env : Lookup) :
    handleIncomingStream max lnk cs env =
      match observeR max cs with
      | .ok (pid, rest, _) => afterHeader lnk pid rest env
      | .error _ => rejected := by
  unfold observeR
  cases h : readHeader max cs with
  | error e => simp only [handle_of_error h]
  | ok p =>
    obtain ⟨pid, r, a⟩ := p
    simp only [handle_of_ok h]

/-- …and so through the flattened byte stream only. -/
theorem handle_eq_flat (max : Nat) (lnk : Link) (cs : Reader) (env : Lookup) :
    handleIncomingStream max lnk cs env =
      match readHeaderFlat max cs.flatten with
      | .ok (pid, rest, _) => afterHeader lnk pid rest env
      | .error _ => rejected := by
  rw [handle_eq_observe, observeR_eq_flat]

/-- A well-formed stream: the header is accepted. -/
theorem handle_of_wellFormed {max : Nat} {lnk : Link} {cs : Reader} {env : Lookup}
    {pid rest : Bytes} (h : WellFormed max cs.flatten pid rest) :
    handleIncomingStream max lnk cs env = afterHeader lnk pid rest env := by
  obtain ⟨a, ha⟩ := readHeaderFlat_of_wellFormed max _ pid rest h
  rw [handle_eq_flat, ha]

/-- Not well-formed: rejected. -/
theorem handle_of_not_wellFormed {max : Nat} {lnk : Link} {cs : Reader} {env : Lookup}
    (h : ¬ ∃ pid rest, WellFormed max cs.flatten pid rest) :
    handleIncomingStream max lnk cs env = rejected := by
  rw [handle_eq_flat]
  cases hr : readHeaderFlat max cs.flatten with
  | error e => rfl
  | ok p =>
    obtain ⟨pid, rest, a⟩ := p
    exact absurd ⟨pid, rest, wellFormed_of_readHeaderFlat max _ pid rest a hr⟩ h

/-- Either the stream is well-formed and the header accepted, or it is rejected. -/
theorem handle_cases (max : Nat) (lnk : Link) (cs : Reader) (env : Lookup) :
    (∃ pid rest, WellFormed max cs.flatten pid rest ∧
        handleIncomingStream max lnk cs env = afterHeader lnk pid rest env) ∨
    ((¬ ∃ pid rest, WellFormed max cs.flatten pid rest) ∧
        handleIncomingStream max lnk cs env = rejected) := by
  by_cases h : ∃ pid rest, WellFormed max cs.flatten pid rest
  · obtain ⟨pid, rest, hw⟩ := h
    exact Or.inl ⟨pid, rest, hw, handle_of_wellFormed hw⟩
  · exact Or.inr ⟨h, handle_of_not_wellFormed h⟩

/-- What the opener writes for a valid, in-limit protocol ID, followed by any payload, is
well-formed with exactly that protocol ID and payload. -/
theorem wellFormed_marshal (max : Nat) (pid payload : Bytes) (hv : pidValid pid = true)
    (hs : (encodeEstablish pid).length ≤ 100000) (hmax : (encodeEstablish pid).length ≤ max) :
    WellFormed max (marshalHeader pid ++ payload) pid payload :=
  wellFormed_of_readHeaderFlat max _ pid payload _ (readHeaderFlat_marshal max pid payload hv hs hmax)

/-! ### Refuting well-formedness of the malformed classes -/

theorem not_wellFormed_short {max : Nat} {flat : Bytes} (h : flat.length < 4) :
    ¬ ∃ pid rest, WellFormed max flat pid rest := by
  rintro ⟨pid, rest, hw⟩
  obtain ⟨L, n, h4, _⟩ := hw.prefix4
  omega

theorem not_wellFormed_badPrefix {max : Nat} {flat : Bytes}
    (h : ∀ L n, Pb.consume (flat.take 4) ≠ .ok L n) :
    ¬ ∃ pid rest, WellFormed max flat pid rest := by
  rintro ⟨pid, rest, hw⟩
  obtain ⟨L, n, _, hC, _⟩ := hw.prefix4
  exact h L n hC

/-- A complete varint prefix `pre` (ending within four bytes) announcing `L`: the stream can only
be well-formed if `L` is non-zero and in range and at least `L` bytes follow, and then the body is
exactly the next `L` bytes. -/
theorem wellFormed_after_prefix {max : Nat} {pre tail pid rest : Bytes} {L : Nat}
    (hC : Pb.consume pre = .ok L pre.length) (hp4 : pre.length ≤ 4)
    (hw : WellFormed max (pre ++ tail) pid rest) :
    L ≠ 0 ∧ L ≤ max ∧ L ≤ tail.length ∧ decodeEstablish (tail.take L) = .ok pid ∧
      pidValid pid = true ∧ rest = tail.drop L := by
  obtain ⟨L', n, h4, hC', hL0, hLmax, _, hlen, hdec, hv, hr⟩ := hw.prefix4
  rw [List.take_append, List.take_of_length_le hp4, Pb.consume_prefix_append pre _ L hC] at hC'
  injection hC' with hL hn
  subst hL hn
  rw [List.drop_left] at hdec
  rw [List.length_append] at hlen
  refine ⟨hL0, hLmax, by omega, hdec, hv, ?_⟩
  rw [hr, ← List.drop_drop, List.drop_left]

end Incoming
end Bifrost
