import Bifrost.Model.LinksGen
/-! Helper lemmas for the handler-generation layer: the tables never read `closed`. -/
namespace Bifrost
namespace LinksGen
open Links

/-- the state without the record of closed links -/
def core (s : State) : State := { s with closed := [] }

theorem core_flush (s : State) (el : Link) : core (flush s el) = core (flush (core s) el) := by
  simp [core, flush]

theorem core_foldl_flush (l : List Link) (s : State) :
    core (l.foldl flush s) = core (l.foldl flush (core s)) := by
  induction l generalizing s with
  | nil => simp [core]
  | cons a r ih =>
    simp only [List.foldl_cons]
    rw [ih (flush s a), ih (flush (core s) a), core_flush]

theorem core_links (s : State) : (core s).links = s.links := rfl
theorem core_lookup (s : State) (u : Nat) : lookup (core s) u = lookup s u := rfl

theorem core_step (s : State) (o : Op) : core (step s o) = core (step (core s) o) := by
  cases o with
  | start lp => simp only [step]; split <;> simp_all [core]
  | shutdown =>
    simp only [step, core_links]
    have h := core_foldl_flush s.links s
    simp only [core] at h ⊢
    simp_all
  | est l =>
    simp only [step, core_lookup]
    have hr : (core s).running = s.running := rfl
    have hp : (core s).localPeer = s.localPeer := rfl
    rw [hr, hp]
    split
    · simp [core]
    · split
      · simp [core]
      · split
        · split
          · rfl
          · simp [core, flush]
        · simp [core]
  | lost l =>
    simp only [step, core_lookup, core_links]
    split
    · split
      · exact core_flush _ _
      · split
        · exact core_flush _ _
        · rfl
    · split
      · exact core_flush _ _
      · rfl

theorem core_reject (s : State) (l : Link) : core (reject s l) = core s := by
  simp [core, reject]

theorem core_congr {a b : State} (h : core a = core b) (o : Op) : core (step a o) = core (step b o) := by
  rw [core_step a, core_step b, h]

end LinksGen
end Bifrost

namespace Bifrost
namespace LinksGen
open Links

theorem gstep_op_s (ck : Bool) (t : GState) (o : Op) : (gstep ck t (.op o)).s = step t.s o := by
  cases o with
  | start lp =>
    simp only [gstep]
    split
    · rename_i h; simp [step, h]
    · rfl
  | shutdown => rfl
  | est l => rfl
  | lost l => rfl

theorem foldl_flush_closed_mem (l : List Link) (s : State) (i : Nat) :
    i ∈ (l.foldl flush s).closed ↔ i ∈ l.map (·.id) ∨ i ∈ s.closed := by
  induction l generalizing s with
  | nil => simp
  | cons a r ih =>
    simp only [List.foldl_cons, List.map_cons, List.mem_cons]
    rw [ih]
    simp only [flush, List.mem_cons]
    constructor
    · rintro (h | h | h)
      · exact Or.inl (Or.inr h)
      · exact Or.inl (Or.inl h)
      · exact Or.inr h
    · rintro ((h | h) | h)
      · exact Or.inr (Or.inl h)
      · exact Or.inl h
      · exact Or.inr (Or.inr h)

/-- `closed` only grows. -/
theorem step_closed_mono (s : State) (o : Op) (i : Nat) (h : i ∈ s.closed) : i ∈ (step s o).closed := by
  cases o with
  | start lp => simp only [step]; split <;> simp_all
  | shutdown =>
    simp only [step]
    exact (foldl_flush_closed_mem s.links s i).2 (Or.inr h)
  | est l =>
    simp only [step]
    split
    · simp [h]
    · split
      · simp [h]
      · split
        · split
          · exact h
          · simp [flush, h]
        · exact h
  | lost l =>
    simp only [step]
    split
    · split
      · simp [flush, h]
      · split
        · simp [flush, h]
        · exact h
    · split
      · simp [flush, h]
      · exact h

theorem gstep_closed_mono (t : GState) (o : GOp) (i : Nat) (h : i ∈ t.s.closed) :
    i ∈ (gstep true t o).s.closed := by
  cases o with
  | op o => rw [gstep_op_s]; exact step_closed_mono _ _ _ h
  | estVia g l =>
    simp only [gstep]
    split
    · simp [reject, h]
    · exact step_closed_mono _ _ _ h

theorem gruns_closed_mono (ops : List GOp) (t : GState) (i : Nat) (h : i ∈ t.s.closed) :
    i ∈ (gruns true t ops).s.closed := by
  induction ops generalizing t with
  | nil => exact h
  | cons o r ih => exact ih _ (gstep_closed_mono t o i h)

end LinksGen
end Bifrost
