import Bifrost.Model.Framing
import Bifrost.Gen.Limits
import Bifrost.Lemmas.Varint
/-! Helper lemmas for C07: `readAtLeast` / `readHeader` depend only on the flattened stream;
varint prefix facts; `StreamEstablish` round trip. -/
namespace Bifrost
namespace Pb

theorem appendAux_length_le (f : Nat) : ∀ (k v : Nat), k ≤ f → v < 128 ^ (k + 1) →
    (appendAux f v).length ≤ k + 1 := by
  induction f with
  | zero => intro k v _ _; simp [appendAux]
  | succ f ih =>
    intro k v hk hv
    unfold appendAux
    by_cases h : v < 128
    · simp [h]
    · simp only [h, ↓reduceIte, List.length_cons]
      cases k with
      | zero => simp at hv; omega
      | succ k =>
        have : v / 128 < 128 ^ (k + 1) := by
          rw [Nat.pow_succ] at hv
          exact Nat.div_lt_of_lt_mul (by simpa [Nat.mul_comm] using hv)
        have := ih k (v / 128) (by omega) this
        omega

theorem append_length_le3 (v : Nat) (hv : v ≤ 100000) : (append v).length ≤ 3 :=
  appendAux_length_le 9 2 v (by omega) (by norm_num; omega)

/-- A varint that parses from a prefix of the buffer parses identically from the whole buffer. -/
theorem consumeFrom_take (b : Bytes) : ∀ (i k v n : Nat),
    consumeFrom i (b.take k) = .ok v n → consumeFrom i b = .ok v n := by
  induction b with
  | nil => intro i k v n h; simpa using h
  | cons x rest ih =>
    intro i k v n h
    cases k with
    | zero => simp [consumeFrom] at h
    | succ k =>
      rw [List.take_succ_cons] at h
      unfold consumeFrom at h ⊢
      by_cases h9 : i ≥ 9
      · simpa [h9] using h
      · simp only [h9, ↓reduceIte] at h ⊢
        by_cases hx : x < 0x80
        · simpa [hx] using h
        · simp only [hx, ↓reduceIte] at h ⊢
          cases hc : consumeFrom (i + 1) (rest.take k) with
          | ok v' n' =>
            rw [hc] at h
            rw [ih (i + 1) k v' n' hc]
            exact h
          | eof => rw [hc] at h; cases h
          | overflow => rw [hc] at h; cases h

theorem consume_take (b : Bytes) (k v n : Nat) (h : consume (b.take k) = .ok v n) :
    consume b = .ok v n := consumeFrom_take b 0 k v n h

end Pb

namespace PW

theorem decodeVarint_append (v : Nat) (hv : v < 2 ^ 64) (rest : Bytes) :
    decodeVarint (Pb.append v ++ rest) = .ok (v, rest) := by
  unfold decodeVarint
  rw [Pb.consume_append v hv rest]
  simp only [two64, Nat.mod_eq_of_lt hv, List.drop_left']

theorem takeLen_append (p rest : Bytes) (hl : p.length < 2 ^ 63) :
    takeLen (Pb.append p.length ++ (p ++ rest)) = .ok (p, rest) := by
  unfold takeLen
  rw [decodeVarint_append p.length (by omega)]
  have h63 : ¬ p.length ≥ two63 := by unfold two63; omega
  have hle : ¬ p.length > (p ++ rest).length := by rw [List.length_append]; omega
  simp only [h63, hle, ↓reduceIte, List.take_left', List.drop_left']

theorem decodeLoop_nil (s : Schema) (f : Nat) (acc : Raw) : decodeLoop s f [] acc = .ok acc := by
  cases f <;> simp [decodeLoop]

theorem tag_1_2 : tag 1 2 = Pb.append 10 := rfl

end PW

namespace Framing

/-- `readAtLeast` with `min = cap = m`, phrased on the flattened stream. -/
def atLeastFlat (flat have_ : Bytes) (m : Nat) : Option (Bytes × Bytes) :=
  if m ≤ flat.length + have_.length then
    some (have_ ++ flat.take (m - have_.length), flat.drop (m - have_.length))
  else none

theorem readAtLeast_flat (cs : Reader) (have_ : Bytes) (m : Nat) (h : have_.length ≤ m) :
    (readAtLeast cs have_ m m).map (fun p => (p.1, p.2.flatten)) = atLeastFlat cs.flatten have_ m := by
  induction cs generalizing have_ with
  | nil =>
    unfold readAtLeast atLeastFlat
    by_cases hm : have_.length ≥ m
    · simp [hm]
    · simp [hm]
  | cons ch rest ih =>
    unfold readAtLeast
    by_cases hm : have_.length ≥ m
    · have e : m - have_.length = 0 := by omega
      simp only [hm, ↓reduceIte, Option.map_some, atLeastFlat, e, List.take_zero, List.drop_zero,
        List.append_nil]
      rw [if_pos (by omega)]
    · simp only [hm, ↓reduceIte]
      by_cases hc : ch.length ≤ m - have_.length
      · simp only [hc, ↓reduceIte]
        rw [ih (have_ ++ ch) (by rw [List.length_append]; omega)]
        unfold atLeastFlat
        simp only [List.flatten_cons, List.length_append]
        by_cases hl : m ≤ rest.flatten.length + (have_.length + ch.length)
        · rw [if_pos hl, if_pos (by omega)]
          rw [List.take_append, List.drop_append, List.take_of_length_le hc,
            List.drop_of_length_le hc, List.append_assoc, List.nil_append]
          have e : m - (have_.length + ch.length) = m - have_.length - ch.length := by omega
          rw [e]
        · rw [if_neg hl, if_neg (by omega)]
      · have hc' : m - have_.length ≤ ch.length := by omega
        have hlen : (have_ ++ ch.take (m - have_.length)).length ≥ m := by
          rw [List.length_append, List.length_take]; omega
        rw [if_neg hc, if_pos hlen]
        simp only [Option.map_some, atLeastFlat, List.flatten_cons, List.length_append]
        rw [if_pos (by omega), List.take_append_of_le_length hc',
          List.drop_append_of_le_length hc']

/-- `readHeader` phrased on the flattened stream. -/
def readHeaderFlat (maxSize : Nat) (flat : Bytes) : Except HdrErr (Bytes × Bytes × Nat) :=
  match atLeastFlat flat [] 4 with
  | none => .error .io
  | some (b4, f1) =>
    match Pb.consume b4 with
    | .eof | .overflow => .error .badPrefix
    | .ok headerLen n =>
      if headerLen > maxInt32 then .error .badLen
      else if headerLen > maxSize ∨ headerLen = 0 then .error .badLen
      else
        let pre := (b4.drop n).take headerLen
        let nHave := b4.length - n
        let body : Option (Bytes × Bytes) :=
          if nHave ≥ headerLen then some (pre, f1)
          else atLeastFlat f1 pre headerLen
        match body with
        | none => .error .io
        | some (hb, f2) =>
          match decodeEstablish hb with
          | .error _ => .error .badProto
          | .ok pid => if pidValid pid then .ok (pid, f2, headerLen) else .error .badPid

/-- The observable outcome of `readHeader` (unread bytes flattened). -/
def observeR (max : Nat) (cs : Reader) : Except HdrErr (Bytes × Bytes × Nat) :=
  match readHeader max cs with
  | .ok (pid, r, a) => .ok (pid, r.flatten, a)
  | .error e => .error e

theorem observeR_eq_flat (max : Nat) (cs : Reader) :
    observeR max cs = readHeaderFlat max cs.flatten := by
  unfold observeR readHeader readHeaderFlat
  have h1 := readAtLeast_flat cs [] 4 (by simp)
  cases hA : readAtLeast cs [] 4 4 with
  | none =>
    rw [hA] at h1
    simp only [Option.map_none] at h1
    rw [← h1]
  | some p =>
    obtain ⟨b4, r1⟩ := p
    rw [hA] at h1
    simp only [Option.map_some] at h1
    rw [← h1]
    simp only
    cases hC : Pb.consume b4 with
    | eof => rfl
    | overflow => rfl
    | ok headerLen n =>
      simp only
      by_cases g1 : headerLen > maxInt32
      · simp [g1]
      by_cases g2 : headerLen > max ∨ headerLen = 0
      · simp [g1, g2]
      simp only [g1, g2, ↓reduceIte]
      by_cases g3 : b4.length - n ≥ headerLen
      · simp only [g3, ↓reduceIte]
        cases decodeEstablish (List.take headerLen (List.drop n b4)) with
        | error e => rfl
        | ok pid => dsimp only; cases pidValid pid <;> rfl
      · simp only [g3, ↓reduceIte]
        have h2 := readAtLeast_flat r1 (List.take headerLen (List.drop n b4)) headerLen
          (by rw [List.length_take]; omega)
        cases hB : readAtLeast r1 (List.take headerLen (List.drop n b4)) headerLen headerLen with
        | none =>
          rw [hB] at h2
          simp only [Option.map_none] at h2
          rw [← h2]
        | some p2 =>
          obtain ⟨hb, r2⟩ := p2
          rw [hB] at h2
          simp only [Option.map_some] at h2
          rw [← h2]
          simp only
          cases decodeEstablish hb with
          | error e => rfl
          | ok pid => dsimp only; cases pidValid pid <;> rfl

theorem readHeader_error_of_observeR (max : Nat) (cs : Reader) (e : HdrErr)
    (h : observeR max cs = .error e) : readHeader max cs = .error e := by
  unfold observeR at h
  split at h
  · cases h
  · rename_i e' he
    injection h with h
    rw [he, h]

theorem decode_establish (pid : Bytes) (hl : pid.length < 2 ^ 63) :
    PW.decode establishSchema (PW.encBytes 1 pid) = .ok { fields := [(1, .bytes pid)] } := by
  unfold PW.decode
  unfold PW.decodeLoop
  have hne : (PW.encBytes 1 pid).isEmpty = false := by
    simp [PW.encBytes, PW.tag, Pb.append_ne_nil]
  rw [hne]
  have hv : PW.decodeVarint (PW.encBytes 1 pid) = .ok (10, Pb.append pid.length ++ (pid ++ [])) := by
    rw [PW.encBytes, PW.tag_1_2, List.append_assoc, PW.decodeVarint_append 10 (by norm_num)]
    simp
  simp only [Bool.false_eq_true, ↓reduceIte, hv]
  have h1 : PW.toInt32 (10 / 8) = 1 := by decide
  have h2 : PW.findSpec establishSchema 1 = some ⟨1, .bytes⟩ := by decide
  simp only [h1, h2]
  rw [PW.takeLen_append pid [] hl]
  simp [PW.decodeLoop_nil]


theorem encodeEstablish_eq (pid : Bytes) (hne : pid ≠ []) :
    encodeEstablish pid = [0x0a] ++ Pb.append pid.length ++ pid := by
  unfold encodeEstablish PW.encBytesOpt
  have : pid.isEmpty = false := by simpa using hne
  rw [this]
  rfl

theorem encodeEstablish_length (pid : Bytes) (hne : pid ≠ []) :
    (encodeEstablish pid).length = 1 + (Pb.append pid.length).length + pid.length := by
  rw [encodeEstablish_eq pid hne]; simp; omega

theorem encodeEstablish_length_ge (pid : Bytes) (hne : pid ≠ []) :
    3 ≤ (encodeEstablish pid).length := by
  rw [encodeEstablish_length pid hne]
  have := Pb.append_length_pos pid.length
  have := List.length_pos_iff.mpr hne
  omega

theorem decodeEstablish_encode (pid : Bytes) (hne : pid ≠ []) (hl : pid.length < 2 ^ 63) :
    decodeEstablish (encodeEstablish pid) = .ok pid := by
  unfold decodeEstablish encodeEstablish PW.encBytesOpt
  have : pid.isEmpty = false := by simpa using hne
  rw [this]
  simp only [Bool.false_eq_true, ↓reduceIte]
  rw [decode_establish pid hl]
  simp [PW.Raw.lastBytes]

/-- After a well-formed in-range varint prefix, `readHeaderFlat` reduces to reading the body. -/
theorem readHeaderFlat_prefix (max L : Nat) (X : Bytes) (hL0 : L ≠ 0) (hLmax : L ≤ max)
    (hL : L ≤ 100000) (hlen : 4 ≤ (Pb.append L).length + X.length) :
    readHeaderFlat max (Pb.append L ++ X) =
      match (if 4 - (Pb.append L).length ≥ L
              then some ((X.take (4 - (Pb.append L).length)).take L, X.drop (4 - (Pb.append L).length))
              else atLeastFlat (X.drop (4 - (Pb.append L).length))
                ((X.take (4 - (Pb.append L).length)).take L) L) with
      | none => .error .io
      | some (hb, f2) =>
        match decodeEstablish hb with
        | .error _ => .error .badProto
        | .ok pid => if pidValid pid then .ok (pid, f2, L) else .error .badPid := by
  have hp3 := Pb.append_length_le3 L hL
  have hp1 := Pb.append_length_pos L
  generalize hA : Pb.append L = A at *
  have hA4 : atLeastFlat (A ++ X) [] 4 = some (A ++ X.take (4 - A.length), X.drop (4 - A.length)) := by
    unfold atLeastFlat
    rw [if_pos (by simp only [List.length_append, List.length_nil]; omega)]
    simp only [List.length_nil, Nat.sub_zero, List.nil_append]
    rw [List.take_append, List.drop_append, List.take_of_length_le (by omega),
      List.drop_of_length_le (by omega), List.nil_append]
  have hC : Pb.consume (A ++ X.take (4 - A.length)) = .ok L A.length := by
    rw [← hA]; exact Pb.consume_append L (by omega) _
  unfold readHeaderFlat
  rw [hA4]
  simp only
  rw [hC]
  simp only
  have g1 : ¬ L > maxInt32 := by unfold maxInt32; omega
  have g2 : ¬ (L > max ∨ L = 0) := by omega
  have hlen' : (A ++ X.take (4 - A.length)).length - A.length = 4 - A.length := by
    rw [List.length_append, List.length_take]; omega
  simp only [g1, g2, ↓reduceIte, List.drop_left', hlen']
  rfl

theorem pidValid_ne_nil (pid : Bytes) (hv : pidValid pid = true) : pid ≠ [] := by
  intro h
  subst h
  simp [pidValid] at hv

/-- A marshalled header followed by any payload reads back exactly. -/
theorem readHeaderFlat_marshal (max : Nat) (pid rest : Bytes) (hv : pidValid pid = true)
    (hs : (encodeEstablish pid).length ≤ 100000) (hmax : (encodeEstablish pid).length ≤ max) :
    readHeaderFlat max (marshalHeader pid ++ rest) = .ok (pid, rest, (encodeEstablish pid).length) := by
  have hne := pidValid_ne_nil pid hv
  have h3 := encodeEstablish_length_ge pid hne
  have hpl : pid.length < 2 ^ 63 := by
    have := encodeEstablish_length pid hne
    omega
  have hdec := decodeEstablish_encode pid hne hpl
  generalize hE : encodeEstablish pid = enc at *
  have hp3 := Pb.append_length_le3 enc.length hs
  have hp1 := Pb.append_length_pos enc.length
  unfold marshalHeader
  rw [hE, List.append_assoc,
    readHeaderFlat_prefix max enc.length (enc ++ rest) (by omega) hmax hs
      (by rw [List.length_append]; omega)]
  generalize (Pb.append enc.length).length = p at *
  have hbody : (if 4 - p ≥ enc.length
              then some (((enc ++ rest).take (4 - p)).take enc.length, (enc ++ rest).drop (4 - p))
              else atLeastFlat ((enc ++ rest).drop (4 - p))
                (((enc ++ rest).take (4 - p)).take enc.length) enc.length) = some (enc, rest) := by
    by_cases hq : 4 - p ≥ enc.length
    · have e : 4 - p = enc.length := by omega
      rw [if_pos hq, e]
      simp
    · rw [if_neg hq]
      have hq' : 4 - p ≤ enc.length := by omega
      rw [List.take_take, Nat.min_eq_right hq', List.take_append_of_le_length hq',
        List.drop_append_of_le_length hq']
      unfold atLeastFlat
      rw [if_pos (by simp only [List.length_append, List.length_drop, List.length_take]; omega)]
      have e1 : (enc.take (4 - p)).length = 4 - p := by rw [List.length_take]; omega
      have e2 : enc.length - (4 - p) = (enc.drop (4 - p)).length := by rw [List.length_drop]
      rw [e1, e2, List.take_left' rfl, List.drop_left' rfl, List.take_append_drop]
  rw [hbody]
  simp only [hdec, hv, ↓reduceIte]

theorem consume_zero_cons (t : Bytes) : Pb.consume (0 :: t) = .ok 0 1 := by
  unfold Pb.consume Pb.consumeFrom
  simp

/-- A zero length prefix is rejected. -/
theorem readHeaderFlat_zero (max : Nat) (tail : Bytes) (hlen : 3 ≤ tail.length) :
    readHeaderFlat max (0 :: tail) = .error .badLen := by
  unfold readHeaderFlat atLeastFlat
  rw [if_pos (by simp only [List.length_cons, List.length_nil]; omega)]
  simp only [List.length_nil, Nat.sub_zero, List.nil_append, List.take_succ_cons]
  rw [consume_zero_cons]
  simp [maxInt32]

/-- A length prefix above the limit is rejected. -/
theorem readHeaderFlat_oversize (max n : Nat) (tail : Bytes) (hn : max < n) (hn64 : n < 2 ^ 64) :
    ∃ e, readHeaderFlat max (Pb.append n ++ tail) = .error e := by
  unfold readHeaderFlat atLeastFlat
  by_cases hl : 4 ≤ (Pb.append n ++ tail).length + ([] : Bytes).length
  · rw [if_pos hl]
    simp only [List.length_nil, Nat.sub_zero, List.nil_append]
    cases hC : Pb.consume ((Pb.append n ++ tail).take 4) with
    | eof => exact ⟨_, rfl⟩
    | overflow => exact ⟨_, rfl⟩
    | ok v k =>
      have h1 := Pb.consume_take _ _ _ _ hC
      rw [Pb.consume_append n hn64 tail] at h1
      injection h1 with h1 _
      subst h1
      simp only
      by_cases g1 : n > maxInt32
      · exact ⟨_, by rw [if_pos g1]⟩
      · rw [if_neg g1, if_pos (Or.inl hn)]
        exact ⟨_, rfl⟩
  · rw [if_neg hl]
    exact ⟨_, rfl⟩

/-- A stream that ends before the announced header is complete is rejected. -/
theorem readHeaderFlat_truncated (max : Nat) (pid : Bytes) (k : Nat)
    (hs : (encodeEstablish pid).length ≤ 100000) (hmax : (encodeEstablish pid).length ≤ max)
    (hne : pid ≠ []) (hk : k < (marshalHeader pid).length) :
    ∃ e, readHeaderFlat max ((marshalHeader pid).take k) = .error e := by
  have h3 := encodeEstablish_length_ge pid hne
  unfold marshalHeader at hk ⊢
  generalize hE : encodeEstablish pid = enc at *
  have hp3 := Pb.append_length_le3 enc.length hs
  have hp1 := Pb.append_length_pos enc.length
  rw [List.length_append] at hk
  by_cases hk4 : 4 ≤ k
  · have hsplit : (Pb.append enc.length ++ enc).take k
        = Pb.append enc.length ++ enc.take (k - (Pb.append enc.length).length) := by
      rw [List.take_append, List.take_of_length_le (by omega)]
    rw [hsplit, readHeaderFlat_prefix max enc.length _ (by omega) hmax hs
      (by rw [List.length_take]; omega)]
    generalize (Pb.append enc.length).length = p at *
    rw [if_neg (by omega)]
    unfold atLeastFlat
    rw [if_neg (by simp only [List.length_drop, List.length_take]; omega)]
    exact ⟨_, rfl⟩
  · unfold readHeaderFlat atLeastFlat
    rw [if_neg (by simp only [List.length_take, List.length_append, List.length_nil]; omega)]
    exact ⟨_, rfl⟩

/-- Whatever `readHeader` accepts has a valid protocol ID and a non-zero in-limit allocation. -/
theorem readHeader_accepted (max : Nat) (cs : Reader) (pid : Bytes) (r : Reader) (a : Nat)
    (h : readHeader max cs = .ok (pid, r, a)) :
    pidValid pid = true ∧ 0 < a ∧ a ≤ max := by
  unfold readHeader at h
  split at h
  · cases h
  split at h
  · cases h
  · cases h
  split at h
  · cases h
  split at h
  · cases h
  rename_i hmax
  simp only at h
  split at h
  · cases h
  split at h
  · cases h
  split at h
  · rename_i hv
    injection h with h
    injection h with h1 h2
    injection h2 with h2 h3
    subst h1 h3
    exact ⟨hv, by omega, by omega⟩
  · cases h

end Framing
end Bifrost
