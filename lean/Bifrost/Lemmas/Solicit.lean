import Bifrost.Model.Solicit
import Bifrost.Lemmas.ProtoRoundTrip
/-! Helper lemmas for C30 and C32 (lexicographic order, uvarint/multihash prefix-freeness, merge intersection). -/
namespace Bifrost

/-! ### `lexLt` is a strict total order -/

theorem lexLt_irrefl : ∀ a : Bytes, lexLt a a = false := by
  intro a
  induction a with
  | nil => rfl
  | cons x xs ih =>
    have : ¬ x < x := by rw [UInt8.lt_iff_toNat_lt]; omega
    simp [lexLt, this, ih]

theorem lexLt_asymm : ∀ a b : Bytes, lexLt a b = true → lexLt b a = false := by
  intro a
  induction a with
  | nil => intro b _; cases b <;> rfl
  | cons x xs ih =>
    intro b h
    cases b with
    | nil => simp [lexLt] at h
    | cons y ys =>
      unfold lexLt at h ⊢
      by_cases hxy : x < y
      · have hyx : ¬ y < x := by rw [UInt8.lt_iff_toNat_lt] at hxy ⊢; omega
        simp [hyx, hxy]
      · by_cases hyx : y < x
        · simp [hxy, hyx] at h
        · simp only [hxy, hyx, ↓reduceIte] at h ⊢
          simpa using ih ys h

theorem lexLt_trans : ∀ a b c : Bytes, lexLt a b = true → lexLt b c = true → lexLt a c = true := by
  intro a
  induction a with
  | nil =>
    intro b c hab hbc
    cases c with
    | nil => cases b <;> simp [lexLt] at hbc
    | cons => rfl
  | cons x xs ih =>
    intro b c hab hbc
    cases b with
    | nil => simp [lexLt] at hab
    | cons y ys =>
      cases c with
      | nil => simp [lexLt] at hbc
      | cons z zs =>
        unfold lexLt at hab hbc ⊢
        by_cases hxy : x < y
        · by_cases hyz : y < z
          · have : x < z := by rw [UInt8.lt_iff_toNat_lt] at hxy hyz ⊢; omega
            simp [this]
          · by_cases hzy : z < y
            · simp [hyz, hzy] at hbc
            · have : x < z := by rw [UInt8.lt_iff_toNat_lt] at hxy hyz hzy ⊢; omega
              simp [this]
        · by_cases hyx : y < x
          · simp [hxy, hyx] at hab
          · simp only [hxy, hyx, ↓reduceIte] at hab
            by_cases hyz : y < z
            · have : x < z := by rw [UInt8.lt_iff_toNat_lt] at hxy hyx hyz ⊢; omega
              simp [this]
            · by_cases hzy : z < y
              · simp [hyz, hzy] at hbc
              · simp only [hyz, hzy, ↓reduceIte] at hbc
                have h1 : ¬ x < z := by rw [UInt8.lt_iff_toNat_lt] at hxy hyx hyz hzy ⊢; omega
                have h2 : ¬ z < x := by rw [UInt8.lt_iff_toNat_lt] at hxy hyx hyz hzy ⊢; omega
                simp only [h1, h2, ↓reduceIte]
                exact ih ys zs hab hbc

theorem lexLt_trichotomy : ∀ a b : Bytes, lexLt a b = false → lexLt b a = false → a = b := by
  intro a
  induction a with
  | nil => intro b h _; cases b with
    | nil => rfl
    | cons => simp [lexLt] at h
  | cons x xs ih =>
    intro b h1 h2
    cases b with
    | nil => simp [lexLt] at h2
    | cons y ys =>
      unfold lexLt at h1 h2
      by_cases hxy : x < y
      · simp [hxy] at h1
      · by_cases hyx : y < x
        · simp [hyx] at h2
        · simp only [hxy, hyx, ↓reduceIte] at h1 h2
          have : x = y := by
            apply UInt8.toNat_inj.mp
            rw [UInt8.lt_iff_toNat_lt] at hxy hyx; omega
          rw [this, ih ys h1 h2]

/-- `≤` (i.e. `¬ b < a`) is transitive. -/
theorem lexLe_trans (a b c : Bytes) (hab : lexLt b a = false) (hbc : lexLt c b = false) :
    lexLt c a = false := by
  cases hca : lexLt c a with
  | false => rfl
  | true =>
    cases hab' : lexLt a b with
    | true =>
      have := lexLt_trans c a b hca hab'
      rw [this] at hbc; cases hbc
    | false =>
      have := lexLt_trichotomy a b hab' hab
      subst this
      rw [hca] at hbc; cases hbc

theorem lexLt_of_lt_of_le (a b c : Bytes) (hab : lexLt a b = true) (hbc : lexLt c b = false) :
    lexLt a c = true := by
  cases hbc' : lexLt b c with
  | true => exact lexLt_trans a b c hab hbc'
  | false =>
    have := lexLt_trichotomy b c hbc' hbc
    subst this; exact hab

/-! ### uvarint decoding only looks at the bytes it consumes -/

namespace Uv

theorem decodeFrom_append (x : Bytes) : ∀ (i v n : Nat) (y : Bytes),
    decodeFrom i x = .ok v n → decodeFrom i (x ++ y) = .ok v n ∧ n ≤ x.length := by
  induction x with
  | nil => intro i v n y h; simp [decodeFrom] at h
  | cons a rest ih =>
    intro i v n y h
    rw [List.cons_append]
    unfold decodeFrom at h ⊢
    by_cases h10 : i ≥ 10
    · simp [h10] at h
    · simp only [h10, ↓reduceIte] at h ⊢
      by_cases ha : a < 0x80
      · simp only [ha, ↓reduceIte] at h ⊢
        by_cases h9 : i = 9 ∧ a > 1
        · simp [h9] at h
        · simp only [h9, ↓reduceIte] at h ⊢
          injection h with hv hn
          subst hn
          exact ⟨by rw [hv], by simp⟩
      · simp only [ha, ↓reduceIte] at h ⊢
        cases hc : decodeFrom (i + 1) rest with
        | ok v' n' =>
          rw [hc] at h
          have := ih (i + 1) v' n' y hc
          rw [this.1]
          simp only at h ⊢
          injection h with hv hn
          subst hn
          exact ⟨by rw [hv], by simp; exact this.2⟩
        | eof => rw [hc] at h; cases h
        | overflow => rw [hc] at h; cases h

theorem decode_append (x y : Bytes) (v n : Nat) (h : decode x = .ok v n) :
    decode (x ++ y) = .ok v n ∧ n ≤ x.length :=
  decodeFrom_append x 0 v n y h

end Uv

/-! ### multihash prefix-freeness -/

namespace Codec

/-- Total length of the multihash at the head of a stream, as determined by its two varints. -/
def mhLen (s : Bytes) : Option Nat :=
  match Uv.decode s with
  | .ok _ n =>
    match Uv.decode (s.drop n) with
    | .ok dlen m => some (n + m + dlen % 2 ^ 64)
    | _ => none
  | _ => none

theorem mhLen_of_decodeMultihash (a : Bytes) (r : Nat × Bytes) (h : decodeMultihash a = some r)
    (b : Bytes) : mhLen (a ++ b) = some a.length := by
  unfold decodeMultihash at h
  split at h
  · cases h
  · cases h1 : Uv.decode a with
    | ok code n =>
      rw [h1] at h
      simp only at h
      cases h2 : Uv.decode (a.drop n) with
      | ok dlen m =>
        rw [h2] at h
        simp only at h
        split at h
        · cases h
        · rename_i hlen
          have hlen' : ((a.drop n).drop m).length = dlen % 2 ^ 64 := by
            simpa using hlen
          obtain ⟨e1, hn⟩ := Uv.decode_append a b code n h1
          obtain ⟨e2, hm⟩ := Uv.decode_append (a.drop n) b dlen m h2
          unfold mhLen
          rw [e1]
          simp only
          rw [List.drop_append_of_le_length hn, e2]
          simp only [List.length_drop] at hlen' hm
          simp only [Option.some.injEq]
          omega
      | eof => rw [h2] at h; cases h
      | overflow => rw [h2] at h; cases h
    | eof => rw [h1] at h; cases h
    | overflow => rw [h1] at h; cases h

theorem decodeMultihash_prefix_free (a b c d : Bytes) (ra rc : Nat × Bytes)
    (ha : decodeMultihash a = some ra) (hc : decodeMultihash c = some rc)
    (h : a ++ b = c ++ d) : a = c ∧ b = d := by
  have h1 := mhLen_of_decodeMultihash a ra ha b
  have h2 := mhLen_of_decodeMultihash c rc hc d
  rw [h, h2] at h1
  injection h1 with h1
  exact List.append_inj h h1.symm

theorem idFromBytes_accepts (b id : Bytes) (h : idFromBytes b = some id) :
    ∃ r, decodeMultihash b = some r := by
  unfold idFromBytes at h
  split at h
  · rename_i r hr
    exact ⟨r, hr⟩
  · cases h

theorem idFromBytes_prefix_free (a b c d : Bytes)
    (ha : idFromBytes a = some a) (hc : idFromBytes c = some c)
    (h : a ++ b = c ++ d) : a = c ∧ b = d := by
  obtain ⟨ra, hra⟩ := idFromBytes_accepts a a ha
  obtain ⟨rc, hrc⟩ := idFromBytes_accepts c c hc
  exact decodeMultihash_prefix_free a b c d ra rc hra hrc h

end Codec

namespace Solicit

/-! ### session preimage -/

theorem sessionPreimage_comm (a b : Bytes) : sessionPreimage a b = sessionPreimage b a := by
  unfold sessionPreimage
  cases hba : lexLt b a with
  | true =>
    have := lexLt_asymm b a hba
    simp [this]
  | false =>
    cases hab : lexLt a b with
    | true => simp
    | false =>
      have := lexLt_trichotomy a b hab hba
      subst this
      simp

theorem sessionPreimage_cases (a b : Bytes) :
    sessionPreimage a b = a ++ b ∨ sessionPreimage a b = b ++ a := by
  unfold sessionPreimage
  split
  · exact Or.inr rfl
  · exact Or.inl rfl

/-! ### protocol preimage -/

theorem protocolPreimage_inj (sid sid' pid pid' ctx ctx' : Bytes)
    (hs : sid.length = sid'.length) (hp : pid.length < 2 ^ 64) (hp' : pid'.length < 2 ^ 64)
    (h : protocolPreimage sid pid ctx = protocolPreimage sid' pid' ctx') :
    sid = sid' ∧ pid = pid' ∧ ctx = ctx' := by
  unfold protocolPreimage at h
  simp only [List.append_assoc] at h
  obtain ⟨h1, h2⟩ := List.append_inj h hs
  have d1 := Uv.decode_put pid.length hp (pid ++ ctx)
  have d2 := Uv.decode_put pid'.length hp' (pid' ++ ctx')
  rw [h2, d2] at d1
  injection d1 with hv hn
  have hput : Uv.put pid.length = Uv.put pid'.length := by rw [hv]
  rw [hput] at h2
  have h3 := List.append_cancel_left h2
  obtain ⟨h4, h5⟩ := List.append_inj h3 hv.symm
  exact ⟨h1, h4, h5⟩

/-! ### two-pointer intersection -/

theorem findMatching_sublist (l r : List Bytes) : (findMatching l r).Sublist l := by
  fun_induction findMatching l r with
  | case1 => exact List.Sublist.refl _
  | case2 => exact List.nil_sublist _
  | case3 x xs y ys h ih => exact ih.trans (List.sublist_cons_self x xs)
  | case4 x xs y ys h1 h2 ih => exact ih
  | case5 x xs y ys h1 h2 ih => exact ih.cons_cons x

theorem findMatching_mem_iff (l r : List Bytes)
    (hl : l.Pairwise (fun a b => lexLt b a = false))
    (hr : r.Pairwise (fun a b => lexLt b a = false)) (z : Bytes) :
    z ∈ findMatching l r ↔ z ∈ l ∧ z ∈ r := by
  fun_induction findMatching l r with
  | case1 => simp
  | case2 => simp
  | case3 x xs y ys h ih =>
    rw [List.pairwise_cons] at hl
    rw [ih hl.2 hr]
    have hx : x ∉ y :: ys := by
      intro hm
      rw [List.mem_cons] at hm
      rcases hm with rfl | hm
      · rw [lexLt_irrefl] at h; cases h
      · have h1 := (List.pairwise_cons.mp hr).1 x hm
        have h2 := lexLt_asymm x y h
        have := lexLt_trichotomy y x h2 h1
        subst this
        rw [lexLt_irrefl] at h; cases h
    constructor
    · rintro ⟨h1, h2⟩
      exact ⟨List.mem_cons_of_mem _ h1, h2⟩
    · rintro ⟨h1, h2⟩
      rw [List.mem_cons] at h1
      rcases h1 with rfl | h1
      · exact absurd h2 hx
      · exact ⟨h1, h2⟩
  | case4 x xs y ys h1 h2 ih =>
    have hr' := List.pairwise_cons.mp hr
    rw [ih hl hr'.2]
    have hy : y ∉ x :: xs := by
      intro hm
      rw [List.mem_cons] at hm
      rcases hm with rfl | hm
      · rw [lexLt_irrefl] at h2; cases h2
      · have h3 := (List.pairwise_cons.mp hl).1 y hm
        have h4 := lexLt_asymm y x h2
        have := lexLt_trichotomy x y h4 h3
        subst this
        rw [lexLt_irrefl] at h2; cases h2
    constructor
    · rintro ⟨h3, h4⟩
      exact ⟨h3, List.mem_cons_of_mem _ h4⟩
    · rintro ⟨h3, h4⟩
      rw [List.mem_cons] at h4
      rcases h4 with rfl | h4
      · exact absurd h3 hy
      · exact ⟨h3, h4⟩
  | case5 x xs y ys h1 h2 ih =>
    have hxy : x = y := lexLt_trichotomy x y (by simpa using h1) (by simpa using h2)
    subst hxy
    have hl' := List.pairwise_cons.mp hl
    have hr' := List.pairwise_cons.mp hr
    rw [List.mem_cons, ih hl'.2 hr'.2, List.mem_cons, List.mem_cons]
    constructor
    · rintro (h | ⟨h3, h4⟩)
      · exact ⟨Or.inl h, Or.inl h⟩
      · exact ⟨Or.inr h3, Or.inr h4⟩
    · rintro ⟨h3 | h3, h4 | h4⟩
      · exact Or.inl h3
      · exact Or.inl h3
      · exact Or.inl h4
      · exact Or.inr ⟨h3, h4⟩

/-! ### insertion sort -/

theorem insertSorted_perm (x : Bytes) (l : List Bytes) : (insertSorted x l).Perm (x :: l) := by
  induction l with
  | nil => exact List.Perm.refl _
  | cons y ys ih =>
    unfold insertSorted
    split
    · exact (ih.cons y).trans (List.Perm.swap x y ys)
    · exact List.Perm.refl _

theorem insertSorted_sorted (x : Bytes) (l : List Bytes)
    (hl : l.Pairwise (fun a b => lexLt b a = false)) :
    (insertSorted x l).Pairwise (fun a b => lexLt b a = false) := by
  induction l with
  | nil => simp [insertSorted]
  | cons y ys ih =>
    have hl' := List.pairwise_cons.mp hl
    unfold insertSorted
    split
    · rename_i hyx
      rw [List.pairwise_cons]
      refine ⟨?_, ih hl'.2⟩
      intro z hz
      have hz' := (insertSorted_perm x ys).mem_iff.mp hz
      rw [List.mem_cons] at hz'
      rcases hz' with rfl | hz'
      · exact lexLt_asymm y z hyx
      · exact hl'.1 z hz'
    · rename_i hyx
      have hyx' : lexLt y x = false := by simpa using hyx
      rw [List.pairwise_cons]
      refine ⟨?_, hl⟩
      intro z hz
      rw [List.mem_cons] at hz
      rcases hz with rfl | hz
      · exact hyx'
      · exact lexLe_trans x y z hyx' (hl'.1 z hz)

theorem sortHashes_sorted_perm (l : List Bytes) :
    (sortHashes l).Pairwise (fun a b => lexLt b a = false) ∧ (sortHashes l).Perm l := by
  induction l with
  | nil => exact ⟨List.Pairwise.nil, List.Perm.refl _⟩
  | cons x xs ih =>
    have e : sortHashes (x :: xs) = insertSorted x (sortHashes xs) := rfl
    rw [e]
    exact ⟨insertSorted_sorted x _ ih.1, (insertSorted_perm x _).trans (ih.2.cons x)⟩

end Solicit

end Bifrost
