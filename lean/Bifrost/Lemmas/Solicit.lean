import Bifrost.Model.Solicit
/-! Helper lemmas for C30 and C32 (lexicographic order, uvarint/multihash prefix-freeness, merge intersection). -/
namespace Bifrost
end Bifrost
