import Bifrost.Lemmas.SigBase
/-! Registry-side invariants (C24, C25). -/
namespace Bifrost
end Bifrost
