import Bifrost.Lemmas.SigRegMain
import Bifrost.Lemmas.SigRegZero
/-! Registry-side invariants (C24, C25). The development is split over
`SigBase` (getter/setter lemmas), `SigRegInv` (the invariant `SigReg.Inv` and the frame lemma),
`SigRegFrame` (session-internal and listener-internal events), `SigRegListen` (`lreg`, `lend`),
`SigRegInit` (`init`), `SigRegEnd` (`end_`), `SigRegMain` (`Reachable s → Inv s` and the derived
observations), `SigRegZero` (`0` is never a wanted/announced peer id). -/
