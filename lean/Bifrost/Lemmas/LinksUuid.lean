import Bifrost.Model.Links
import Bifrost.Lemmas.LinksBasic
import Bifrost.Lemmas.LinksInv
import Bifrost.Lemmas.LinksFacts
/-!
Links whose uuid changes after establishment (`HandleLinkLost` slow path).

In a history the record of an `est`/`lost` op carries the uuid the link object reports AT THAT
CALL. The controller stores a link under the uuid it had when it was established
(`establishedLink.uuid`) and removes it under that key, so a loss report is processed by link
identity whatever uuid it carries: with a matching entry under the reported uuid on the fast
path, otherwise (the entry is absent or ANOTHER link object) by the identity search.

Histories in which only the `est` records of a link object agree (`WFE`) are reduced to the
well-formed histories of `LinksInv` by rewriting every loss report to the establishment record
of its link object; the tables cannot tell the difference.
-/
namespace Bifrost
namespace Links

def estLinkOf : Op → Option Link
  | .est l => some l
  | _ => none

def estLinks (ops : List Op) : List Link := ops.filterMap estLinkOf

/-- Only the establishment records of a link object have to agree. -/
def WFE (ops : List Op) : Prop :=
  ∀ l ∈ estLinks ops, ∀ l' ∈ estLinks ops, l.id = l'.id → l = l'

theorem estLinks_append (a b : List Op) : estLinks (a ++ b) = estLinks a ++ estLinks b := by
  simp [estLinks, List.filterMap_append]

theorem WFE_prefix {a b : List Op} (h : WFE (a ++ b)) : WFE a := by
  intro l hl l' hl' hid
  apply h l _ l' _ hid <;> rw [estLinks_append] <;> exact List.mem_append_left _ ‹_›

theorem estLinks_sub_histLinks (ops : List Op) : ∀ l ∈ estLinks ops, l ∈ histLinks ops := by
  intro l hl
  simp only [estLinks, List.mem_filterMap] at hl
  obtain ⟨op, hop, he⟩ := hl
  simp only [histLinks, List.mem_filterMap]
  refine ⟨op, hop, ?_⟩
  cases op <;> simp_all [estLinkOf, histLinkOf]

theorem WFE_of_WFH {ops : List Op} (h : WFH ops) : WFE ops :=
  fun l hl l' hl' hid => h l (estLinks_sub_histLinks ops l hl) l' (estLinks_sub_histLinks ops l' hl') hid

theorem WFE_perm_suffix {pre a b : List Op} (hp : a.Perm b) (h : WFE (pre ++ b)) : WFE (pre ++ a) := by
  have hm : ∀ l, l ∈ estLinks (pre ++ a) → l ∈ estLinks (pre ++ b) := by
    intro l hl
    rw [estLinks_append] at hl ⊢
    rcases List.mem_append.1 hl with hl | hl
    · exact List.mem_append_left _ hl
    · exact List.mem_append_right _ ((hp.filterMap estLinkOf).mem_iff.1 hl)
  exact fun l hl l' hl' hid => h l (hm l hl) l' (hm l' hl') hid

/-- Bridge from a history predicate stated with any copy of `estLinkOf`. -/
theorem wfe_of_eq {f : Op → Option Link} (hf : f = estLinkOf) {ops : List Op}
    (h : ∀ l ∈ ops.filterMap f, ∀ l' ∈ ops.filterMap f, l.id = l'.id → l = l') : WFE ops := by
  subst hf; exact h

/-! ### A loss is processed by link identity -/

/-- `HandleLinkLost` as a function of the link object alone. -/
def lostById (s : State) (i : Nat) : State :=
  match s.links.find? (fun x => x.id = i) with
  | some el => flush s el
  | none => s

theorem step_lost_eq_lostById {s : State} (hnd : (s.links.map (·.id)).Nodup) (l : Link) :
    step s (.lost l) = lostById s l.id := by
  simp only [step, lostById]
  split
  · rename_i el hlk
    split
    · rename_i hid
      have hel := (lookup_some hlk).1
      cases hf : s.links.find? (fun x => x.id = l.id) with
      | none => exact absurd hid (findId_none hf el hel)
      | some el' =>
        obtain ⟨hel', hid'⟩ := findId_some hf
        have : el' = el := inj_of_nodup_map (·.id) hnd el' hel' el hel (hid'.trans hid.symm)
        rw [this]
    · rfl
  · rfl

theorem specStep_lost_congr (sp : Spec) {l l' : Link} (h : l.id = l'.id) :
    specStep sp (.lost l) = specStep sp (.lost l') := by
  simp only [specStep, h]

/-! ### Rewriting loss reports to establishment records -/

/-- The record a loss report is rewritten to: the establishment record of the link object,
or a fixed one if the object is never established. -/
def canon (E : List Link) (l : Link) : Link :=
  match E.find? (fun x => x.id = l.id) with
  | some x => x
  | none => ⟨l.id, 0, 0⟩

theorem canon_id (E : List Link) (l : Link) : (canon E l).id = l.id := by
  unfold canon
  split
  · rename_i x hf; exact (findId_some hf).2
  · rfl

def normOp (E : List Link) : Op → Op
  | .lost l => .lost (canon E l)
  | op => op

def norm (E : List Link) (ops : List Op) : List Op := ops.map (normOp E)

theorem norm_append (E : List Link) (a b : List Op) : norm E (a ++ b) = norm E a ++ norm E b := by
  simp [norm]

theorem estLinks_norm (E : List Link) (ops : List Op) : estLinks (norm E ops) = estLinks ops := by
  induction ops with
  | nil => rfl
  | cons op ops ih =>
    simp only [norm, List.map_cons, estLinks] at ih ⊢
    cases op <;> simp [normOp, estLinkOf, List.filterMap_cons, ih]

theorem mem_histLinks_norm {E : List Link} {ops : List Op} {x : Link}
    (hx : x ∈ histLinks (norm E ops)) :
    x ∈ estLinks ops ∨ ∃ l, x = canon E l := by
  simp only [histLinks, norm, List.mem_filterMap, List.mem_map] at hx
  obtain ⟨op', ⟨op, hop, rfl⟩, he⟩ := hx
  cases op with
  | start lp => simp [normOp, histLinkOf] at he
  | shutdown => simp [normOp, histLinkOf] at he
  | est l =>
    simp only [normOp, histLinkOf, Option.some.injEq] at he
    subst he
    left
    simp only [estLinks, List.mem_filterMap]
    exact ⟨.est l, hop, rfl⟩
  | lost l =>
    simp only [normOp, histLinkOf, Option.some.injEq] at he
    exact Or.inr ⟨l, he.symm⟩

/-- Rewritten with its own establishment records, a `WFE` history is well formed. -/
theorem WFH_norm {ops : List Op} (h : WFE ops) : WFH (norm (estLinks ops) ops) := by
  intro a ha b hb hid
  have key : ∀ (x : Link), x ∈ estLinks ops → ∀ (l : Link), (canon (estLinks ops) l).id = x.id →
      canon (estLinks ops) l = x := by
    intro x hx l hcl
    have hlx : l.id = x.id := (canon_id _ l).symm.trans hcl
    unfold canon
    cases hf : (estLinks ops).find? (fun y => y.id = l.id) with
    | some y =>
      obtain ⟨hy, hyid⟩ := findId_some hf
      exact h y hy x hx (hyid.trans hlx)
    | none => exact absurd hlx.symm (findId_none hf x hx)
  rcases mem_histLinks_norm ha with ha | ⟨la, rfl⟩ <;> rcases mem_histLinks_norm hb with hb | ⟨lb, rfl⟩
  · exact h a ha b hb hid
  · exact (key a ha lb hid.symm).symm
  · exact key b hb la hid
  · have hl : la.id = lb.id := (canon_id _ la).symm.trans (hid.trans (canon_id _ lb))
    unfold canon
    rw [hl]

theorem specRun_norm (E : List Link) (ops : List Op) : specRun (norm E ops) = specRun ops := by
  induction ops using snoc_induction with
  | nil => rfl
  | snoc ops op ih =>
    rw [norm_append, show norm E [op] = [normOp E op] from rfl, specRun_snoc, specRun_snoc, ih]
    cases op with
    | lost l => exact specStep_lost_congr _ (canon_id E l)
    | _ => rfl

/-- The tables cannot tell a history from its rewriting. -/
theorem run_norm (E : List Link) (ops : List Op) : WFH (norm E ops) → run (norm E ops) = run ops := by
  induction ops using snoc_induction with
  | nil => intro _; rfl
  | snoc ops op ih =>
    intro hwf
    rw [norm_append] at hwf
    have hpre : WFH (norm E ops) := WFH_prefix hwf
    have hrun := ih hpre
    rw [norm_append, show norm E [op] = [normOp E op] from rfl, run_snoc, run_snoc, hrun]
    cases op with
    | lost l =>
      have hnd : ((run ops).links.map (·.id)).Nodup := hrun ▸ (inv_run _ hpre).nd_id
      show step (run ops) (.lost (canon E l)) = step (run ops) (.lost l)
      rw [step_lost_eq_lostById hnd, step_lost_eq_lostById hnd, canon_id]
    | _ => rfl

/-- The refinement invariant holds after every history in which the establishment records of
each link object agree - whatever uuids its loss reports carry. -/
theorem inv_run_wfe (ops : List Op) (h : WFE ops) :
    ∃ ops', Inv ops' (run ops) (specRun ops) := by
  have hw := WFH_norm h
  have hI := inv_run _ hw
  rw [run_norm _ _ hw, specRun_norm] at hI
  exact ⟨_, hI⟩

/-! ### Consequences for a loss report carrying any uuid -/

theorem lost_any_uuid {ops : List Op} {l : Link} (h : WFE (ops ++ [.lost l])) :
    (∀ x ∈ (run (ops ++ [.lost l])).links, x.id ≠ l.id) ∧
    (∀ x ∈ (run ops).links, x.id ≠ l.id → x ∈ (run (ops ++ [.lost l])).links) ∧
    (∀ x ∈ (run ops).links, x.id = l.id → l.id ∈ (run (ops ++ [.lost l])).closed) ∧
    (∀ x, x ∈ (run (ops ++ [.lost l])).peerLinks ↔ x ∈ (run (ops ++ [.lost l])).links) := by
  obtain ⟨_, hI⟩ := inv_run_wfe ops (WFE_prefix h)
  obtain ⟨_, hI'⟩ := inv_run_wfe _ h
  refine ⟨?_, ?_, ?_, hI'.peer⟩
  · intro x hx
    rw [run_snoc] at hx
    rcases step_lost_cases (run ops) l with ⟨el, hel, hid, hst⟩ | ⟨hno, hst⟩
    · rw [hst] at hx
      obtain ⟨hx1, hx2⟩ := List.mem_filter.1 hx
      intro hxid
      have : x = el := inj_of_nodup_map (·.id) hI.nd_id x hx1 el hel (hxid.trans hid.symm)
      subst this
      simp at hx2
    · rw [hst] at hx; exact hno x hx
  · intro x hx hne
    rw [run_snoc]
    rcases step_lost_cases (run ops) l with ⟨el, hel, hid, hst⟩ | ⟨_, hst⟩
    · rw [hst, flush_links, List.mem_filter]
      refine ⟨hx, ?_⟩
      have : x.uuid ≠ el.uuid := by
        intro e
        have : x = el := inj_of_nodup_map (·.uuid) hI.nd_uuid x hx el hel e
        exact hne (this ▸ hid)
      simpa using this
    · rw [hst]; exact hx
  · intro x hx hxid
    rw [run_snoc]
    rcases step_lost_cases (run ops) l with ⟨el, _, hid, hst⟩ | ⟨hno, _⟩
    · rw [hst, flush_closed, hid]; exact List.mem_cons_self
    · exact absurd hxid (hno x hx)

/-! ### The code before the fix

`flushEstablishedLink` deleted `c.links[el.lnk.GetUUID()]`, the entry under the uuid the link
reports NOW (`cu`), after the slow path had deleted the entry under the stored key. -/

/-- The slow path of `HandleLinkLost` before the fix, for a link found by identity. -/
def lostSlowUnfixed (s : State) (el : Link) (cu : Nat) : State :=
  { s with
    links := s.links.filter (fun x => x.uuid ≠ el.uuid ∧ x.uuid ≠ cu)
    peerLinks := s.peerLinks.filter (fun x => x.id ≠ el.id)
    closed := el.id :: s.closed }

end Links
end Bifrost
