import Bifrost.Model.Framing
import Bifrost.Model.Incoming
/-!
The way a reader reports the end of the stream (bare `(0, err)` read, or the final bytes
together with the error) does not matter to `readAtLeast` / `readStreamEstablishHeader` /
`HandleIncomingStream`: helper lemmas for Props/C07 and Props/C07Dispatch.
-/
namespace Bifrost
namespace Framing

theorem readAtLeastE_eq (cs : Reader) (wl : Bool) (have_ : Bytes) (min cap : Nat) :
    readAtLeastE cs wl have_ min cap = readAtLeast cs have_ min cap := by
  induction cs generalizing have_ with
  | nil => simp [readAtLeastE, readAtLeast]
  | cons ch rest ih =>
    unfold readAtLeastE readAtLeast
    by_cases hm : have_.length ≥ min
    · simp [hm]
    · simp only [hm, ↓reduceIte]
      by_cases hc : ch.length ≤ cap - have_.length
      · simp only [hc, ↓reduceIte]
        by_cases hl : (rest.isEmpty && wl) = true
        · rw [if_pos hl]
          have hr : rest = [] := by
            cases rest with
            | nil => rfl
            | cons _ _ => simp at hl
          subst hr
          simp [readAtLeast]
        · rw [if_neg hl]
          exact ih (have_ ++ ch)
      · simp only [hc, ↓reduceIte]

theorem readHeaderE_eq (max : Nat) (cs : Reader) (wl : Bool) :
    readHeaderE max cs wl = readHeader max cs := by
  unfold readHeaderE readHeader
  simp only [readAtLeastE_eq]

end Framing

namespace Incoming
open Framing

theorem handleIncomingStreamE_eq (max : Nat) (lnk : Link) (cs : Reader) (wl : Bool) (env : Lookup) :
    handleIncomingStreamE max lnk cs wl env = handleIncomingStream max lnk cs env := by
  unfold handleIncomingStreamE handleIncomingStream
  rw [readHeaderE_eq]

end Incoming
end Bifrost
