import Bifrost.Model.Wrappers
/-! Invariant of the hold-open handler LTS (fixed code) and its consequences. -/
namespace Bifrost.Wrappers.Hold

/-- Inductive invariant of the fixed code. -/
structure Inv (s : State) : Prop where
  out : s.released = false → s.outstanding = (if s.rigid then 1 else 0) + s.pendingRel
  outRel : s.released = true → s.outstanding = 0
  rigidPos : s.rigid = true → s.valCount > 0
  need : s.released = false → s.valCount > 0 → s.rigid = false → s.pendingAcq > 0

theorem inv_init : Inv {} := by
  constructor <;> simp

theorem inv_step (s : State) (o : Op) (h : Inv s) : Inv (step s o) := by
  obtain ⟨vc, rg, hr, pa, pr, out, rel⟩ := s
  obtain ⟨h1, h2, h3, h4⟩ := h
  simp only at h1 h2 h3 h4
  cases o <;> cases rg <;> cases rel <;> cases hr <;>
    simp [step, enabled, stepCommon, dropRigid, takeRef] at h1 h2 h3 h4 ⊢ <;>
    (try split) <;> (try split) <;> constructor <;> simp_all <;> omega

theorem inv_run (ops : List Op) : Inv (run ops) := by
  unfold run
  suffices ∀ s, Inv s → Inv (ops.foldl step s) from this _ inv_init
  induction ops with
  | nil => intro s h; exact h
  | cons o rest ih => intro s h; exact ih _ (inv_step s o h)

/-- `valCount` is the number of links added and not yet removed (truncated subtraction on both
sides: the code guards the decrement with `valCount > 0`). -/
theorem valCount_step (s : State) (o : Op) :
    (step s o).valCount = (match o with | .add => s.valCount + 1 | .remove => s.valCount - 1 | _ => s.valCount) := by
  obtain ⟨vc, rg, hr, pa, pr, out, rel⟩ := s
  cases o <;> cases rg <;> cases hr <;> cases rel <;>
    simp [step, enabled, stepCommon, dropRigid, takeRef] <;>
    (try split) <;> (try split) <;> simp_all <;> omega

theorem valCount_run (ops : List Op) : (run ops).valCount = liveLinks ops := by
  unfold run liveLinks
  suffices ∀ (s : State) (n : Nat), s.valCount = n →
      (ops.foldl step s).valCount =
        ops.foldl (fun n o => match o with | .add => n + 1 | .remove => n - 1 | _ => n) n from
    this _ _ rfl
  induction ops with
  | nil => intro s n h; exact h
  | cons o rest ih =>
    intro s n h
    apply ih
    rw [valCount_step, h]

/-- Running the pending acquire goroutines. -/
theorem drain_acquire (n : Nat) (s : State) (h : s.pendingAcq = n) :
    let s' := (List.replicate n Op.acquire).foldl step s
    s'.pendingAcq = 0 ∧ s'.pendingRel = s.pendingRel ∧ s'.valCount = s.valCount ∧ s'.released = s.released := by
  induction n generalizing s with
  | zero => simp [h]
  | succ k ih =>
    have hk : (step s .acquire).pendingAcq = k := by
      obtain ⟨vc, rg, hr, pa, pr, out, rel⟩ := s
      simp only at h
      subst h
      simp [step, enabled, takeRef]
      split <;> simp
    have hs : (step s .acquire).pendingRel = s.pendingRel ∧ (step s .acquire).valCount = s.valCount ∧
        (step s .acquire).released = s.released := by
      obtain ⟨vc, rg, hr, pa, pr, out, rel⟩ := s
      simp [step, enabled, takeRef]
      split <;> (try split) <;> simp
    have := ih (step s .acquire) hk
    simp only [List.replicate_succ, List.foldl_cons]
    refine ⟨this.1, ?_, ?_, ?_⟩
    · rw [this.2.1, hs.1]
    · rw [this.2.2.1, hs.2.1]
    · rw [this.2.2.2, hs.2.2]

/-- Running the pending release goroutines. -/
theorem drain_release (n : Nat) (s : State) (h : s.pendingRel = n) :
    let s' := (List.replicate n Op.release).foldl step s
    s'.pendingRel = 0 ∧ s'.pendingAcq = s.pendingAcq ∧ s'.valCount = s.valCount ∧ s'.released = s.released := by
  induction n generalizing s with
  | zero => simp [h]
  | succ k ih =>
    have hk : (step s .release).pendingRel = k := by
      obtain ⟨vc, rg, hr, pa, pr, out, rel⟩ := s
      simp only at h
      subst h
      simp [step, enabled, stepCommon]
    have hs : (step s .release).pendingAcq = s.pendingAcq ∧ (step s .release).valCount = s.valCount ∧
        (step s .release).released = s.released := by
      obtain ⟨vc, rg, hr, pa, pr, out, rel⟩ := s
      simp [step, enabled, stepCommon]
      split <;> simp
    have := ih (step s .release) hk
    simp only [List.replicate_succ, List.foldl_cons]
    refine ⟨this.1, ?_, ?_, ?_⟩
    · rw [this.2.1, hs.1]
    · rw [this.2.2.1, hs.2.1]
    · rw [this.2.2.2, hs.2.2]

end Bifrost.Wrappers.Hold
