import Bifrost.Model.ProtoWire
import Bifrost.Model.Framing
import Bifrost.Model.Packets
/-! Allocation-bound lemmas for C40. -/
namespace Bifrost

namespace Pb

/-- A successfully consumed varint occupies at least one byte and no more than the input. -/
theorem consumeFrom_bounds : ∀ (d : Bytes) (i v n : Nat),
    consumeFrom i d = .ok v n → 1 ≤ n ∧ n ≤ d.length := by
  intro d
  induction d with
  | nil => intro i v n h; simp [consumeFrom] at h
  | cons x rest ih =>
    intro i v n h
    unfold consumeFrom at h
    split at h
    · split at h
      · simp only [VarintRes.ok.injEq] at h
        simp only [List.length_cons]; omega
      · cases h
    · split at h
      · simp only [VarintRes.ok.injEq] at h
        simp only [List.length_cons]; omega
      · split at h
        · rename_i v' n' heq
          simp only [VarintRes.ok.injEq] at h
          have := ih _ _ _ heq
          simp only [List.length_cons]; omega
        · rename_i e hne
          rw [h] at hne
          exact absurd rfl (hne _ _)

theorem consume_bounds (d : Bytes) (v n : Nat) (h : consume d = .ok v n) :
    1 ≤ n ∧ n ≤ d.length := consumeFrom_bounds d 0 v n h

end Pb

namespace PW

/-- `decodeVarint` strictly shrinks the input. -/
theorem decodeVarint_rest_lt (d : Bytes) (v : Nat) (rest : Bytes)
    (h : decodeVarint d = .ok (v, rest)) : rest.length + 1 ≤ d.length := by
  unfold decodeVarint at h
  split at h
  · rename_i v' n heq
    have hb := Pb.consume_bounds d v' n heq
    simp only [Except.ok.injEq, Prod.mk.injEq] at h
    rw [← h.2, List.length_drop]; omega
  · cases h
  · cases h

/-- A length-delimited payload plus what follows it is strictly smaller than the input. -/
theorem takeLen_lt (d p rest : Bytes) (h : takeLen d = .ok (p, rest)) :
    p.length + rest.length + 1 ≤ d.length := by
  unfold takeLen at h
  split at h
  · cases h
  · rename_i len r heq
    have hr := decodeVarint_rest_lt d len r heq
    split at h
    · cases h
    · split at h
      · cases h
      · simp only [Except.ok.injEq, Prod.mk.injEq] at h
        rw [← h.1, ← h.2, List.length_take, List.length_drop]; omega

theorem decodePackedLoop_length : ∀ (fuel : Nat) (d : Bytes) (acc vs : List Nat),
    decodePackedLoop fuel d acc = .ok vs → vs.length ≤ acc.length + d.length := by
  intro fuel
  induction fuel with
  | zero =>
    intro d acc vs h
    simp only [decodePackedLoop, Except.ok.injEq] at h
    rw [← h, List.length_reverse]; omega
  | succ fuel ih =>
    intro d acc vs h
    unfold decodePackedLoop at h
    split at h
    · simp only [Except.ok.injEq] at h
      rw [← h, List.length_reverse]; omega
    · split at h
      · cases h
      · rename_i v rest heq
        have hr := decodeVarint_rest_lt d v rest heq
        have := ih rest (v :: acc) vs h
        simp only [List.length_cons] at this
        omega

/-- Each packed varint consumes at least one byte of the payload. -/
theorem decodePacked_length (p : Bytes) (vs : List Nat) (h : decodePacked p = .ok vs) :
    vs.length ≤ p.length := by
  have := decodePackedLoop_length (p.length + 1) p [] vs h
  simpa using this

/-- The allocation invariant of the `UnmarshalVT` loop. -/
def Inv (total : Nat) (d : Bytes) (acc : Raw) : Prop :=
  (∀ f ∈ acc.fields, ∀ b, f.2 = Val.bytes b → b.length ≤ total) ∧
  acc.fields.length + d.length ≤ total ∧ acc.unknown.length + d.length ≤ total

theorem decodeLoop_inv (s : Schema) (total : Nat) : ∀ (fuel : Nat) (d : Bytes) (acc r : Raw),
    decodeLoop s fuel d acc = .ok r → Inv total d acc → Inv total [] r := by
  intro fuel
  induction fuel with
  | zero =>
    intro d acc r h hinv
    simp only [decodeLoop, Except.ok.injEq] at h
    subst h
    obtain ⟨h1, h2, h3⟩ := hinv
    exact ⟨h1, by simp only [List.length_nil]; omega, by simp only [List.length_nil]; omega⟩
  | succ fuel ih =>
    intro d acc r h hinv
    obtain ⟨h1, h2, h3⟩ := hinv
    -- adding one varint field
    have stepV : ∀ (num v : Nat) (rest rest2 : Bytes), rest.length + 1 ≤ d.length →
        rest2.length + 1 ≤ rest.length →
        Inv total rest2 { acc with fields := acc.fields ++ [(num, Val.varint v)] } := by
      intro num v rest rest2 hr hr2
      refine ⟨?_, ?_, ?_⟩
      · intro f hf b hb
        simp only [List.mem_append, List.mem_singleton] at hf
        rcases hf with hf | hf
        · exact h1 f hf b hb
        · subst hf; cases hb
      · simp only [List.length_append, List.length_cons, List.length_nil]; omega
      · show acc.unknown.length + rest2.length ≤ total
        omega
    unfold decodeLoop at h
    split at h
    · simp only [Except.ok.injEq] at h
      subst h
      exact ⟨h1, by simp only [List.length_nil]; omega, by simp only [List.length_nil]; omega⟩
    · split at h
      · cases h
      · rename_i wire rest heq
        have hr := decodeVarint_rest_lt d wire rest heq
        simp only at h
        split at h
        · cases h
        · split at h
          · cases h
          · split at h
            · rename_i spec hspec
              split at h
              · -- bytes
                split at h
                · cases h
                · split at h
                  · cases h
                  · rename_i p rest2 htl
                    have ht := takeLen_lt rest p rest2 htl
                    refine ih _ _ _ h ⟨?_, ?_, ?_⟩
                    · intro f hf b hb
                      simp only [List.mem_append, List.mem_singleton] at hf
                      rcases hf with hf | hf
                      · exact h1 f hf b hb
                      · subst hf
                        simp only [Val.bytes.injEq] at hb
                        subst hb; omega
                    · simp only [List.length_append, List.length_cons, List.length_nil]; omega
                    · show acc.unknown.length + rest2.length ≤ total
                      omega
              · -- varint
                split at h
                · cases h
                · split at h
                  · cases h
                  · rename_i v rest2 hdv
                    have hr2 := decodeVarint_rest_lt rest v rest2 hdv
                    exact ih _ _ _ h (stepV _ _ rest rest2 hr hr2)
              · -- packed
                split at h
                · split at h
                  · cases h
                  · rename_i v rest2 hdv
                    have hr2 := decodeVarint_rest_lt rest v rest2 hdv
                    exact ih _ _ _ h (stepV _ _ rest rest2 hr hr2)
                · split at h
                  · split at h
                    · cases h
                    · rename_i p rest2 htl
                      have ht := takeLen_lt rest p rest2 htl
                      split at h
                      · cases h
                      · rename_i vs hvs
                        have hl := decodePacked_length p vs hvs
                        refine ih _ _ _ h ⟨?_, ?_, ?_⟩
                        · intro f hf b hb
                          simp only [List.mem_append, List.mem_map] at hf
                          rcases hf with hf | ⟨v, _, hf⟩
                          · exact h1 f hf b hb
                          · subst hf; cases hb
                        · simp only [List.length_append, List.length_map]; omega
                        · show acc.unknown.length + rest2.length ≤ total
                          omega
                  · cases h
            · -- unknown field
              split at h
              · cases h
              · rename_i n hsk
                split at h
                · cases h
                · rename_i hn
                  refine ih _ _ _ h ⟨h1, ?_, ?_⟩
                  · show acc.fields.length + (d.drop n).length ≤ total
                    rw [List.length_drop]; omega
                  · show (acc.unknown ++ d.take n).length + (d.drop n).length ≤ total
                    rw [List.length_append, List.length_take, List.length_drop]; omega

theorem decode_inv (s : Schema) (d : Bytes) (r : Raw) (h : decode s d = .ok r) :
    Inv d.length [] r :=
  decodeLoop_inv s d.length (d.length + 1) d {} r h
    ⟨(by intro f hf; cases hf), (by simp), (by simp)⟩

end PW

namespace Framing

theorem readHeaderAlloc_le (max : Nat) (cs : Reader) : readHeaderAlloc max cs ≤ 4 + max := by
  unfold readHeaderAlloc
  split
  · omega
  · split
    · omega
    · omega
    · split
      · omega
      · split
        · omega
        · rename_i h; omega

end Framing

namespace Packets
open Framing (Reader)

theorem rxMaxAlloc_le (max : Nat) : ∀ (fuel : Nat) (cs : Reader), rxMaxAlloc max fuel cs ≤ max := by
  intro fuel
  induction fuel with
  | zero => intro cs; simp [rxMaxAlloc]
  | succ fuel ih =>
    intro cs
    unfold rxMaxAlloc
    split
    · simp only
      split
      · exact ih _
      · split
        · omega
        · split
          · exact Nat.max_le.mpr ⟨by omega, ih _⟩
          · omega
    · omega

theorem recvAllocs_bounded (max : Nat) : ∀ (fuel : Nat) (cs : Reader) (oks : List Bool),
    ∀ n ∈ recvAllocs max fuel cs oks, 0 < n ∧ n ≤ max := by
  intro fuel
  induction fuel with
  | zero => intro cs oks n hn; simp [recvAllocs] at hn
  | succ fuel ih =>
    intro cs oks n hn
    unfold recvAllocs at hn
    split at hn
    · simp only at hn
      split at hn
      · exact ih _ _ n hn
      · split at hn
        · simp at hn
        · split at hn
          · split at hn
            · simp only [List.mem_singleton] at hn; omega
            · rcases List.mem_cons.mp hn with h | h
              · omega
              · exact ih _ _ n h
            · rcases List.mem_cons.mp hn with h | h
              · omega
              · exact ih _ _ n h
          · simp only [List.mem_singleton] at hn; omega
    · simp at hn

end Packets
end Bifrost
