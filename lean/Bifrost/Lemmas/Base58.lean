import Bifrost.Model.Base58
import Mathlib.Data.Nat.Digits.Lemmas
/-! Base58 round trip, via Mathlib's `Nat.digits` / `Nat.ofDigits`. -/
namespace Bifrost
namespace B58

/-! ### alphabet -/

theorem valOf_charOf : ∀ d, d < 58 → valOf (charOf d) = some d := by decide

/-! ### positional notation -/

theorem toDigitsLE_eq_digits (base : Nat) (hb : 1 < base) : ∀ (fuel n : Nat), n < base ^ fuel →
    toDigitsLE base fuel n = Nat.digits base n := by
  intro fuel
  induction fuel with
  | zero =>
    intro n hn
    have : n = 0 := by simpa using hn
    subst this
    simp [toDigitsLE]
  | succ fuel ih =>
    intro n hn
    unfold toDigitsLE
    by_cases h0 : n = 0
    · subst h0; simp
    · rw [if_neg h0, Nat.digits_def' hb (Nat.pos_of_ne_zero h0)]
      congr 1
      apply ih
      rw [Nat.pow_succ] at hn
      exact Nat.div_lt_of_lt_mul (by rwa [Nat.mul_comm] at hn)

theorem ofDigitsBE_reverse (base : Nat) : ∀ l : List Nat,
    ofDigitsBE base l.reverse = Nat.ofDigits base l := by
  intro l
  induction l with
  | nil => rfl
  | cons d l ih =>
    rw [List.reverse_cons, ofDigitsBE, List.foldl_append]
    simp only [List.foldl_cons, List.foldl_nil]
    rw [Nat.ofDigits_cons]
    have : List.foldl (fun acc d => acc * base + d) 0 l.reverse = Nat.ofDigits base l := ih
    rw [this]
    ring

theorem ofDigitsBE_eq (base : Nat) (l : List Nat) :
    ofDigitsBE base l = Nat.ofDigits base l.reverse := by
  rw [← ofDigitsBE_reverse, List.reverse_reverse]

theorem ofDigitsBE_zeros (base z : Nat) (r : List Nat) :
    ofDigitsBE base (List.replicate z 0 ++ r) = ofDigitsBE base r := by
  unfold ofDigitsBE
  rw [List.foldl_append]
  congr 1
  induction z with
  | zero => rfl
  | succ z ih => rw [List.replicate_succ, List.foldl_cons]; simpa using ih

/-! ### leading zeros -/

theorem leadingZeros_spec (l : List Nat) :
    ∃ r, l = List.replicate (leadingZeros l) 0 ++ r ∧ (∀ h : r ≠ [], r.head h ≠ 0) := by
  induction l with
  | nil => exact ⟨[], rfl, fun h => absurd rfl h⟩
  | cons x t ih =>
    cases x with
    | zero =>
      obtain ⟨r, hr, hh⟩ := ih
      refine ⟨r, ?_, hh⟩
      show 0 :: t = List.replicate (leadingZeros t + 1) 0 ++ r
      rw [List.replicate_succ, List.cons_append, ← hr]
    | succ n =>
      refine ⟨(n + 1) :: t, rfl, ?_⟩
      intro _
      simp

theorem leadingZeros_zeros (z : Nat) (r : List Nat) (hr : ∀ h : r ≠ [], r.head h ≠ 0) :
    leadingZeros (List.replicate z 0 ++ r) = z := by
  induction z with
  | zero =>
    cases r with
    | nil => rfl
    | cons x t =>
      cases x with
      | zero => exact absurd rfl (hr (by simp))
      | succ n => rfl
  | succ z ih =>
    rw [List.replicate_succ, List.cons_append]
    show leadingZeros (List.replicate z 0 ++ r) + 1 = z + 1
    rw [ih]

/-! ### sizes -/

theorem pow256_le (k : Nat) : 256 ^ k ≤ 58 ^ (2 * k) := by
  rw [Nat.pow_mul]
  exact Nat.pow_le_pow_left (by norm_num) k

theorem digits_head_ne_zero (base n : Nat) :
    ∀ h : (Nat.digits base n).reverse ≠ [], (Nat.digits base n).reverse.head h ≠ 0 := by
  intro h
  rw [List.head_reverse]
  have hn : n ≠ 0 := by
    intro e; subst e; simp at h
  exact Nat.getLast_digit_ne_zero base hn

/-! ### the digit-level round trip -/

theorem decodeDigits_encodeDigits (b : Bytes) : decodeDigits (encodeDigits b) = b := by
  obtain ⟨r, hr, hh⟩ := leadingZeros_spec (b.map UInt8.toNat)
  have hlt : ∀ x ∈ b.map UInt8.toNat, x < 256 := by
    intro x hx
    obtain ⟨y, _, rfl⟩ := List.mem_map.mp hx
    exact y.toNat_lt
  have hrlt : ∀ x ∈ r.reverse, x < 256 := by
    intro x hx
    apply hlt
    rw [hr]
    exact List.mem_append_right _ (List.mem_reverse.mp hx)
  have hrlen : r.length ≤ b.length := by
    have := congrArg List.length hr
    simp at this
    omega
  -- the big number
  have hN : ofDigitsBE 256 (b.map UInt8.toNat) = Nat.ofDigits 256 r.reverse := by
    conv => lhs; rw [hr]
    rw [ofDigitsBE_zeros, ofDigitsBE_eq]
  have hNlt : Nat.ofDigits 256 r.reverse < 58 ^ (2 * b.length + 1) := by
    have h1 := Nat.ofDigits_lt_base_pow_length (b := 256) (by norm_num) hrlt
    rw [List.length_reverse] at h1
    have h2 : 256 ^ r.length ≤ 256 ^ b.length := Nat.pow_le_pow_right (by norm_num) hrlen
    have h3 := pow256_le b.length
    have h4 : 58 ^ (2 * b.length) < 58 ^ (2 * b.length + 1) :=
      Nat.pow_lt_pow_right (by norm_num) (by omega)
    omega
  have hE : encodeDigits b = List.replicate (leadingZeros (b.map UInt8.toNat)) 0 ++
      (Nat.digits 58 (Nat.ofDigits 256 r.reverse)).reverse := by
    unfold encodeDigits
    simp only [hN]
    rw [toDigitsLE_eq_digits 58 (by norm_num) _ _ hNlt]
  generalize hz : leadingZeros (b.map UInt8.toNat) = z at *
  generalize hNN : Nat.ofDigits 256 r.reverse = N at *
  unfold decodeDigits
  rw [hE]
  simp only
  rw [leadingZeros_zeros z _ (digits_head_ne_zero 58 N), ofDigitsBE_zeros, ofDigitsBE_eq,
    List.reverse_reverse, Nat.ofDigits_digits]
  have hfuel : N < 256 ^ ((List.replicate z 0 ++ (Nat.digits 58 N).reverse).length + 1) := by
    have h1 : N < 58 ^ (Nat.digits 58 N).length := Nat.lt_base_pow_length_digits (by norm_num)
    have h2 : 58 ^ (Nat.digits 58 N).length ≤ 256 ^ (Nat.digits 58 N).length :=
      Nat.pow_le_pow_left (by norm_num) _
    have h3 : 256 ^ (Nat.digits 58 N).length ≤
        256 ^ ((List.replicate z 0 ++ (Nat.digits 58 N).reverse).length + 1) :=
      Nat.pow_le_pow_right (by norm_num) (by simp; omega)
    omega
  rw [toDigitsLE_eq_digits 256 (by norm_num) _ _ hfuel, ← hNN]
  rw [Nat.digits_ofDigits 256 (by norm_num) r.reverse hrlt
    (by intro h; rw [List.getLast_reverse]; exact hh _)]
  rw [List.reverse_reverse, ← hr, List.map_map]
  have : (UInt8.ofNat ∘ UInt8.toNat) = id := by
    funext x; simp
  rw [this, List.map_id]

theorem toDigitsLE_lt (base : Nat) (hb : 0 < base) : ∀ (fuel n d : Nat),
    d ∈ toDigitsLE base fuel n → d < base := by
  intro fuel
  induction fuel with
  | zero => intro n d h; simp [toDigitsLE] at h
  | succ fuel ih =>
    intro n d h
    unfold toDigitsLE at h
    by_cases h0 : n = 0
    · simp [h0] at h
    · rw [if_neg h0, List.mem_cons] at h
      rcases h with h | h
      · rw [h]; exact Nat.mod_lt _ hb
      · exact ih _ _ h

theorem encodeDigits_lt (b : Bytes) : ∀ d ∈ encodeDigits b, d < 58 := by
  intro d hd
  unfold encodeDigits at hd
  simp only [List.mem_append, List.mem_replicate, List.mem_reverse] at hd
  rcases hd with hd | hd
  · omega
  · exact toDigitsLE_lt 58 (by norm_num) _ _ _ hd

theorem encodeDigits_ne_nil (b : Bytes) (hne : b ≠ []) : encodeDigits b ≠ [] := by
  intro h
  have := decodeDigits_encodeDigits b
  rw [h] at this
  exact hne this.symm

theorem mapM_valOf_charOf : ∀ ds : List Nat, (∀ d ∈ ds, d < 58) →
    (ds.map charOf).mapM valOf = some ds := by
  intro ds
  induction ds with
  | nil => intro _; rfl
  | cons d ds ih =>
    intro h
    rw [List.map_cons, List.mapM_cons, valOf_charOf d (h d (by simp)),
      ih (fun x hx => h x (List.mem_cons_of_mem _ hx))]
    rfl

theorem decode_nil : decode [] = none := rfl

theorem decode_encode (b : Bytes) (hne : b ≠ []) : decode (encode b) = some b := by
  unfold decode encode
  have h1 : ((encodeDigits b).map charOf).isEmpty = false := by
    simpa using encodeDigits_ne_nil b hne
  rw [h1, mapM_valOf_charOf _ (encodeDigits_lt b)]
  simp only [Bool.false_eq_true, ↓reduceIte, decodeDigits_encodeDigits]

theorem encode_eq_nil (b : Bytes) : encode b = [] ↔ b = [] := by
  constructor
  · intro h
    by_contra hne
    have := decode_encode b hne
    rw [h, decode_nil] at this
    cases this
  · intro h; subst h; rfl

end B58
end Bifrost
