import Bifrost.Model.Varint
import Mathlib.Tactic.Ring
import Mathlib.Tactic.Linarith
namespace Bifrost

theorem UInt8.ofNat_toNat_lt {v : Nat} (h : v < 256) : (UInt8.ofNat v).toNat = v := by
  simp [UInt8.toNat_ofNat', Nat.mod_eq_of_lt h]

namespace Pb

theorem appendAux_ne_nil (f v : Nat) : appendAux f v ≠ [] := by
  cases f <;> simp [appendAux] <;> split <;> simp

theorem append_ne_nil (v : Nat) : append v ≠ [] := appendAux_ne_nil 9 v

theorem append_length_pos (v : Nat) : 0 < (append v).length :=
  List.length_pos_iff.mpr (append_ne_nil v)

theorem consumeFrom_appendAux : ∀ (f v i : Nat) (rest : Bytes), i ≤ 9 → v < 2 ^ (64 - 7 * i) →
    v < 128 ^ (f + 1) →
    consumeFrom i (appendAux f v ++ rest) = .ok (v <<< (7 * i)) (appendAux f v).length := by
  intro f
  induction f with
  | zero =>
    intro v i rest hi hv hf
    have h : v < 128 := by simpa using hf
    simp only [appendAux, List.cons_append, List.nil_append, List.length_cons, List.length_nil]
    unfold consumeFrom
    have hx : (UInt8.ofNat v).toNat = v := UInt8.ofNat_toNat_lt (by omega)
    by_cases h9 : i ≥ 9
    · have : i = 9 := by omega
      subst this
      have hv2 : v < 2 := by simpa using hv
      have : UInt8.ofNat v < 2 := by
        rw [UInt8.lt_iff_toNat_lt, hx]; simpa using hv2
      simp [this, hx]
    · have : UInt8.ofNat v < 0x80 := by
        rw [UInt8.lt_iff_toNat_lt, hx]; simpa using h
      simp [h9, this, hx]
  | succ f ih =>
    intro v i rest hi hv hf
    unfold appendAux
    by_cases h : v < 128
    · simp only [h, ↓reduceIte, List.cons_append, List.nil_append, List.length_cons, List.length_nil]
      unfold consumeFrom
      have hx : (UInt8.ofNat v).toNat = v := UInt8.ofNat_toNat_lt (by omega)
      by_cases h9 : i ≥ 9
      · have : i = 9 := by omega
        subst this
        have hv2 : v < 2 := by simpa using hv
        have : UInt8.ofNat v < 2 := by
          rw [UInt8.lt_iff_toNat_lt, hx]; simpa using hv2
        simp [this, hx]
      · have : UInt8.ofNat v < 0x80 := by
          rw [UInt8.lt_iff_toNat_lt, hx]; simpa using h
        simp [h9, this, hx]
    · simp only [h, ↓reduceIte, List.cons_append, List.length_cons]
      have hi8 : i ≤ 8 := by
        by_contra hc
        have : i = 9 := by omega
        subst this
        simp at hv; omega
      have hx : (UInt8.ofNat (v % 128 + 128)).toNat = v % 128 + 128 :=
        UInt8.ofNat_toNat_lt (by omega)
      have hge : ¬ (UInt8.ofNat (v % 128 + 128) < 0x80) := by
        rw [UInt8.lt_iff_toNat_lt, hx]; simp
      have hdiv : v / 128 < 2 ^ (64 - 7 * (i + 1)) := by
        have e : 64 - 7 * i = (64 - 7 * (i + 1)) + 7 := by omega
        rw [e, Nat.pow_add] at hv
        exact Nat.div_lt_of_lt_mul (by simpa [Nat.mul_comm] using hv)
      have hdivf : v / 128 < 128 ^ (f + 1) := by
        rw [Nat.pow_succ] at hf
        exact Nat.div_lt_of_lt_mul (by simpa [Nat.mul_comm] using hf)
      have := ih (v / 128) (i + 1) rest (by omega) hdiv hdivf
      unfold consumeFrom
      simp only [show ¬ i ≥ 9 by omega, ↓reduceIte, hge, this, hx]
      congr 1
      simp only [Nat.shiftLeft_eq]
      have e : 7 * (i + 1) = 7 * i + 7 := by ring
      rw [e, Nat.pow_add]
      have := Nat.div_add_mod v 128
      have h128 : (2:Nat) ^ 7 = 128 := by norm_num
      rw [h128]
      calc (v % 128 + 128 - 128) * 2 ^ (7 * i) + v / 128 * (2 ^ (7 * i) * 128)
          = (128 * (v / 128) + v % 128) * 2 ^ (7 * i) := by
            rw [Nat.add_sub_cancel]; ring
        _ = v * 2 ^ (7 * i) := by rw [this]

/-- AppendVarint then ConsumeVarint returns the value and consumes exactly the prefix,
for every uint64 and any trailing bytes. -/
theorem consume_append (v : Nat) (hv : v < 2 ^ 64) (rest : Bytes) :
    consume (append v ++ rest) = .ok v (append v).length := by
  have h70 : v < 128 ^ (9 + 1) := by
    have : (2:Nat) ^ 64 ≤ 128 ^ 10 := by norm_num
    omega
  have := consumeFrom_appendAux 9 v 0 rest (by omega) (by simpa using hv) h70
  simpa [consume, append] using this

end Pb
end Bifrost
