import Bifrost.Lemmas.SigEpochB
/-!
Epoch bounds, composed system: the events in which the relay takes a step (`srvEnd`, `srvLoop`,
`srvRx`, `srvTx`, `connect`), and `ele_of_reachable`: the invariant `ELe` holds in every reachable
state of the composed system.
-/
namespace Bifrost
namespace SigEpoch
open Bifrost.SigSys Bifrost.SigPair Bifrost.SigSysSrv

theorem ele_srvEnd {s : SigSys.State} (h : ELe s) (call : Nat) : ELe (SigSys.step s (.srvEnd call)) := by
  simp only [SigSys.step]
  split
  · exact ele_setSrv h (mono_sEnd s.srv call)
  · exact h

theorem ele_srvLoop {s : SigSys.State} (h : ELe s) (call : Nat) : ELe (SigSys.step s (.srvLoop call)) := by
  simp only [SigSys.step]
  split
  · exact ele_setSrv h (mono_sLoop s.srv call)
  · exact h

theorem ele_srvRx {s : SigSys.State} (h : ELe s) (call : Nat) : ELe (SigSys.step s (.srvRx call)) := by
  simp only [SigSys.step]
  split
  · rename_i ch sc hch hsc
    obtain ⟨hchm, hchc⟩ := getChan_some hch
    split
    · rename_i r rest hc2s
      have hsub : ∀ x ∈ rest, x ∈ ch.c2s := fun x hx => by rw [hc2s]; exact List.mem_cons_of_mem _ hx
      have key : ∀ {srv' : Sig.State}, Mono s.srv srv' →
          ELe (setChan { s with srv := srv' } { ch with c2s := rest }) := by
        intro srv' hm
        have h1 := ele_setSrv h hm
        exact ele_setChan h1 ((h1.chan ch hchm).sub rfl (fun _ hr => hr) hsub)
      cases r with
      | ack e k =>
        simp only []
        split
        · exact key (mono_sAck s.srv call e k)
        · exact h
      | clear e k =>
        simp only []
        split
        · exact key (mono_sClear s.srv call e k)
        · exact h
      | send e m =>
        simp only []
        split
        · exact key (mono_sSend s.srv call e (toSrvMsg m) true sc.src)
        · exact h
    · exact h
  · exact h

theorem ele_srvTx {s : SigSys.State} (h : ELe s) (call : Nat) : ELe (SigSys.step s (.srvTx call)) := by
  simp only [SigSys.step]
  split
  · rename_i sc ch hsc hch
    obtain ⟨hchm, hchc⟩ := getChan_some hch
    have hchc' : ch.call = call := hchc
    split
    · rename_i r rest hout
      have hhead : r ∈ sc.outbox := by rw [hout]; exact List.mem_cons_self
      split
      · have hm : Mono s.srv (Sig.step s.srv (.send_ call r)) := mono_sTx s.srv call r
        have h1 : ELe { s with srv := Sig.step s.srv (.send_ call r) } := ele_setSrv h hm
        split
        · have hco := h1.chan ch hchm
          refine ele_setChan h1 ⟨hco.1, ?_⟩
          intro e he
          rcases List.mem_append.1 he with he | he
          · exact hco.2 e he
          · simp only [List.mem_singleton] at he
            subst he
            show Bnd (Sig.step s.srv (.send_ call (Sig.Resp.opened e))) ch.call e
            rw [hchc']
            exact hm.bnd _ _ ((h.srv call sc hsc).2 e hhead)
        · exact h1
      · exact h
    · exact h
  · exact h

theorem ele_connect {s : SigSys.State} (hinv : SigSys.Inv s) (h : ELe s) (me peer : Nat) :
    ELe (SigSys.step s (.connect me peer)) := by
  simp only [SigSys.step]
  split
  · rename_i c hc
    obtain ⟨hmem, hme, hpeer⟩ := getClient_some hc
    split
    · exact h
    · rename_i hcall
      have hcnone : c.call = none := by
        cases hcc : c.call with
        | none => rfl
        | some x => rw [hcc] at hcall; exact absurd rfl hcall
      split
      · exact h
      · rename_i hen
        have hen' : Sig.enabled s.srv (.init s.nextCall me peer) = true := by simpa using hen
        have hfresh : Sig.getSCall s.srv s.nextCall = none := by
          simp only [Sig.enabled, Bool.and_eq_true, Option.isNone_iff_eq_none] at hen'
          exact hen'.1.1.1.1
        have him : InitMono s.srv s.nextCall (Sig.step s.srv (.init s.nextCall me peer)) :=
          initMono_sInit (good_of hinv) s.nextCall me peer hfresh
        have hne : ∀ id, (callPair s.srv id).isSome = true → id ≠ s.nextCall := by
          intro id hid e
          rw [e] at hid
          simp [callPair, hfresh] at hid
        have h1 : ELe { s with srv := Sig.step s.srv (.init s.nextCall me peer),
                               chans := s.chans ++ [{ call := s.nextCall }], nextCall := s.nextCall + 1 } := by
          refine ⟨h.closed, ?_, ?_, him.le h.srv⟩
          · intro a ha id e h1 h2
            have : id ≠ s.nextCall := hne id (by rw [(hinv.cli a ha).call id h1]; rfl)
            exact him.bnd id e this (h.cli a ha id e h1 h2)
          · intro ch hch
            rcases List.mem_append.1 hch with hch | hch
            · have : ch.call ≠ s.nextCall := hne _ (hinv.chan ch hch).ex
              exact (h.chan ch hch).mono (fun n => him.bnd _ n this)
            · simp only [List.mem_singleton] at hch
              subst hch
              exact ⟨by simp, by simp⟩
        refine ele_setClient h1 ?_ ?_
        · intro hn; cases hn
        · intro id e _ he
          have he' : c.st.open_ = some e := he
          rw [h.closed c hmem hcnone] at he'
          cases he'
  · exact h

theorem ele_step {s : SigSys.State} (hinv : SigSys.Inv s) (h : ELe s) (e : SigSys.Ev) : ELe (SigSys.step s e) := by
  cases e with
  | newClient me peer => exact ele_newClient h me peer
  | connect me peer => exact ele_connect hinv h me peer
  | disconnect me peer => exact ele_disconnect h me peer
  | srvEnd call => exact ele_srvEnd h call
  | sendStart me peer m => exact ele_sendStart h me peer m
  | sendStep me peer id => exact ele_sendStep h me peer id
  | sendCancel me peer id => exact ele_sendCancel h me peer id
  | recvStep me peer => exact ele_recvStep h me peer
  | clientTx me peer => exact ele_clientTx h me peer
  | clientRx me peer => exact ele_clientRx h me peer
  | srvRx call => exact ele_srvRx h call
  | srvLoop call => exact ele_srvLoop h call
  | srvTx call => exact ele_srvTx h call

theorem ele_of_reachable {s : SigSys.State} (h : SigSys.Reachable s) : ELe s := by
  induction h with
  | init => exact ele_init
  | step e hr ih => exact ele_step (SigSys.inv_of_reachable hr) ih e

end SigEpoch
end Bifrost
