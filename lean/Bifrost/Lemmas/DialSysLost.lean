import Bifrost.Lemmas.DialSysCtrl
/-! Restart after loss: what a controller section does to the link dialers, and the invariant
relating the link held by a container to the controller tables. Helper lemmas for C05Sys. -/
namespace Bifrost
namespace DialSys
open Links (Link)

/-! ### `applyFlushes` -/

/-- the `RestartAllRoutines` filter accepts the dialer: same peer, and its container holds the flushed link -/
def Hit (f : Link × Bool × Option Link) (ld : LDialer) : Prop := ld.key.1 = f.1.remote ∧ ld.lnk = some f.1

theorem restartOne_nohit (cfg : Cfg) {f : Link × Bool × Option Link} {ld : LDialer} (h : ¬ Hit f ld) :
    restartOne cfg f.1 f.2.1 f.2.2 ld = ld := by
  unfold Hit at h; unfold restartOne; rw [if_neg h]

/-- what the filter does to a dialer it accepts: it takes over the replacement (a link to the
same peer), or it is cleared -/
theorem restartOne_hit (cfg : Cfg) {f : Link × Bool × Option Link} {ld : LDialer} (h : Hit f ld) :
    (∃ nl, f.2.2 = some nl ∧ nl.remote = ld.key.1 ∧ restartOne cfg f.1 f.2.1 f.2.2 ld = { ld with lnk := some nl }) ∨
    (restartOne cfg f.1 f.2.1 f.2.2 ld).lnk = none := by
  unfold Hit at h; unfold restartOne; rw [if_pos h]
  split
  · rename_i nl hnl
    have hnl' : f.2.2 = some nl := by
      split at hnl
      · exact hnl
      · cases hnl
    split
    · rename_i hrem; exact Or.inl ⟨nl, hnl', hrem, rfl⟩
    · exact Or.inr rfl
  · exact Or.inr rfl

/-- a dialer the filter never accepts is left exactly as it is -/
theorem applyFlushes_nohit (cfg : Cfg) (fl : List (Link × Bool × Option Link)) :
    ∀ (lds : List LDialer) (ld : LDialer), ld ∈ lds → (∀ f ∈ fl, ¬ Hit f ld) →
      ld ∈ applyFlushes cfg fl lds := by
  induction fl with
  | nil => intro lds ld h _; exact h
  | cons f rest ih =>
    intro lds ld h hno
    apply ih _ ld _ (fun g hg => hno g (List.mem_cons_of_mem _ hg))
    exact List.mem_map.2 ⟨ld, h, restartOne_nohit cfg (hno f List.mem_cons_self)⟩

/-- every dialer after the flushes of a section (at most one flush per section) comes from one
before: untouched if the filter did not accept it; otherwise holding the replacement, or empty -/
theorem mem_applyFlushes_one (cfg : Cfg) (f : Link × Bool × Option Link) (lds : List LDialer) (ld' : LDialer)
    (h : ld' ∈ applyFlushes cfg [f] lds) :
    ∃ ld ∈ lds, ld'.key = ld.key ∧
      ((ld' = ld ∧ ¬ Hit f ld) ∨ (Hit f ld ∧ (ld'.lnk = none ∨ ∃ nl, f.2.2 = some nl ∧ ld'.lnk = some nl))) := by
  simp only [applyFlushes, List.foldl_cons, List.foldl_nil] at h
  obtain ⟨ld, hld, rfl⟩ := List.mem_map.1 h
  refine ⟨ld, hld, restartOne_key cfg f.1 f.2.1 f.2.2 ld, ?_⟩
  by_cases hh : Hit f ld
  · right
    refine ⟨hh, ?_⟩
    rcases restartOne_hit cfg hh with ⟨nl, h1, _, h3⟩ | h3
    · right; exact ⟨nl, h1, by rw [h3]⟩
    · left; exact h3
  · left; exact ⟨restartOne_nohit cfg hh, hh⟩

/-- a single flush without next link: the accepted dialer is cleared and restarted -/
theorem applyFlushes_single_hit (cfg : Cfg) {l : Link} {lds : List LDialer} {ld : LDialer}
    (h : ld ∈ lds) (hh : Hit (l, false, none) ld) :
    { ld with lnk := none, rt := .idle } ∈ applyFlushes cfg [(l, false, none)] lds := by
  simp only [applyFlushes, List.foldl_cons, List.foldl_nil]
  refine List.mem_map.2 ⟨ld, h, ?_⟩
  unfold Hit at hh
  unfold restartOne
  rw [if_pos hh]
  simp

/-- the flush list of one controller section has at most one element -/
theorem flushedBy_le_one (c : Links.State) (op : Links.Op) (hop : (∃ l, op = .est l) ∨ (∃ l, op = .lost l)) :
    flushedBy c op = [] ∨ ∃ f, flushedBy c op = [f] := by
  rcases hop with ⟨l, rfl⟩ | ⟨l, rfl⟩ <;> simp only [flushedBy] <;> (repeat' split) <;>
    first
    | exact Or.inl rfl
    | exact Or.inr ⟨_, rfl⟩

/-! ### the link in a container and the controller tables -/

/-- where the link held by a container stands with the controller -/
def CGood (lp : Nat) (q : QuicTable.State) (stale : List Nat) (L : Link) : Prop :=
  L.id ∈ stale ∨ L.id ∈ q.late ∨ L.remote = lp ∨ L ∈ q.pendEst ∨ L ∈ q.ctrl.links

def CInv (lp : Nat) (s : State) : Prop :=
  ∀ ld ∈ s.lds, ∀ L, ld.lnk = some L → CGood lp s.q s.staleStore L

/-- every non-empty container of `s'` was the same non-empty container in `s` -/
def LnkSub (s s' : State) : Prop :=
  ∀ ld' ∈ s'.lds, ∀ L, ld'.lnk = some L → ∃ ld ∈ s.lds, ld.lnk = some L

theorem lnkSub_of_eq {s s' : State} (h : s'.lds = s.lds) : LnkSub s s' := by
  intro ld' hld' L hL
  exact ⟨ld', h ▸ hld', hL⟩

theorem lnkSub_setLD {s s0 : State} {k : Key} {ld ld' : LDialer} (hg : getLD s k = some ld)
    (hl : ld'.lnk = ld.lnk) (h0 : s0.lds = s.lds) : LnkSub s (setLD s0 ld') := by
  intro x hx L hL
  rcases mem_setLD hx with ⟨rfl, _⟩ | ⟨hx, _⟩
  · exact ⟨ld, (getLD_some hg).1, hl ▸ hL⟩
  · exact ⟨x, h0 ▸ hx, hL⟩

theorem lnkSub_addRefStep (s : State) (k : Key) : LnkSub s (addRefStep s k) := by
  unfold addRefStep
  split
  · exact lnkSub_of_eq rfl
  · split
    · intro x hx L hL
      rcases List.mem_cons.1 hx with rfl | hx
      · cases hL
      · exact ⟨x, hx, hL⟩
    · rename_i ld hg
      exact lnkSub_setLD hg rfl rfl

theorem lnkSub_releaseStep (s : State) (k : Key) : LnkSub s (releaseStep s k) := by
  unfold releaseStep
  split
  · exact lnkSub_of_eq rfl
  · rename_i ld hg
    split
    · intro x hx L hL
      exact ⟨x, (List.mem_filter.1 hx).1, hL⟩
    · exact lnkSub_setLD hg rfl rfl

theorem cgood_mono {lp : Nat} {q q' : QuicTable.State} {st st' : List Nat} {L : Link}
    (hst : ∀ i ∈ st, i ∈ st') (hlate : ∀ i ∈ q.late, i ∈ q'.late)
    (hpe : L ∈ q.pendEst → L ∈ q'.pendEst ∨ L.id ∈ q'.late ∨ L.remote = lp ∨ L ∈ q'.ctrl.links)
    (hl : L ∈ q.ctrl.links → L ∈ q'.ctrl.links)
    (h : CGood lp q st L) : CGood lp q' st' L := by
  rcases h with h | h | h | h | h
  · exact Or.inl (hst _ h)
  · exact Or.inr (Or.inl (hlate _ h))
  · exact Or.inr (Or.inr (Or.inl h))
  · rcases hpe h with h' | h' | h' | h'
    · exact Or.inr (Or.inr (Or.inr (Or.inl h')))
    · exact Or.inr (Or.inl h')
    · exact Or.inr (Or.inr (Or.inl h'))
    · exact Or.inr (Or.inr (Or.inr (Or.inr h')))
  · exact Or.inr (Or.inr (Or.inr (Or.inr (hl h))))

theorem cinv_of {lp : Nat} {s s' : State} (hsub : LnkSub s s')
    (hgood : ∀ L, CGood lp s.q s.staleStore L → CGood lp s'.q s'.staleStore L)
    (h : CInv lp s) : CInv lp s' := by
  intro ld' hld' L hL
  obtain ⟨ld, hld, hl⟩ := hsub ld' hld' L hL
  exact hgood L (h ld hld L hl)

/-- transport-side `QuicTable` transitions keep `pendEst` (or extend it), `late` and the controller -/
theorem qside (U : Nat → Nat → Nat) (q : QuicTable.State) (o : QuicTable.Op)
    (ho : (∃ a p, o = .session a p) ∨ (∃ i, o = .close i) ∨ (∃ i, o = .runClose i) ∨ (∃ a l, o = .runLost a l)) :
    (∀ L ∈ q.pendEst, L ∈ (QuicTable.step U q o).pendEst) ∧
    (QuicTable.step U q o).late = q.late ∧ (QuicTable.step U q o).ctrl = q.ctrl := by
  rcases ho with ⟨a, p, rfl⟩ | ⟨i, rfl⟩ | ⟨i, rfl⟩ | ⟨a, l, rfl⟩
  · exact ⟨fun L hL => List.mem_cons_of_mem _ hL, rfl, rfl⟩
  · simp only [QuicTable.step, QuicTable.stepWith]
    rw [QuicTable.closeBody_pendEst, QuicTable.closeBody_late, QuicTable.closeBody_ctrl]
    exact ⟨fun _ h => h, rfl, rfl⟩
  · simp only [QuicTable.step, QuicTable.stepWith]
    split
    · rw [QuicTable.closeBody_pendEst, QuicTable.closeBody_late, QuicTable.closeBody_ctrl]
      exact ⟨fun _ h => h, rfl, rfl⟩
    · exact ⟨fun _ h => h, rfl, rfl⟩
  · simp only [QuicTable.step, QuicTable.stepWith]
    split
    · exact ⟨fun _ h => h, rfl, rfl⟩
    · exact ⟨fun _ h => h, rfl, rfl⟩

theorem cgood_qside {lp : Nat} (U : Nat → Nat → Nat) (q : QuicTable.State) (o : QuicTable.Op)
    (ho : (∃ a p, o = .session a p) ∨ (∃ i, o = .close i) ∨ (∃ i, o = .runClose i) ∨ (∃ a l, o = .runLost a l))
    (st : List Nat) (L : Link) (h : CGood lp q st L) : CGood lp (QuicTable.step U q o) st L := by
  obtain ⟨h1, h2, h3⟩ := qside U q o ho
  exact cgood_mono (fun _ hi => hi) (fun i hi => h2 ▸ hi) (fun hp => Or.inl (h1 L hp)) (fun hl => h3 ▸ hl) h

/-- a controller section: a container still holding `L` afterwards was not flushed, so `L` is
still where it was — or has moved from "waiting for `HandleLinkEstablished`" into the tables; a
container that took over the replacement holds the link the section has just entered in the tables -/
theorem cinv_ctrl {cfg : Cfg} {lp : Nat} {s : State} (hwf : WF cfg lp s) (h : CInv lp s)
    (op : Links.Op) (hop : (∃ l, op = .est l) ∨ (∃ l, op = .lost l)) (q' : QuicTable.State)
    (hfl : ∀ x ∈ s.q.ctrl.links, x ∉ q'.ctrl.links → ∃ hn nx, (x, hn, nx) ∈ flushedBy s.q.ctrl op)
    (hnext : ∀ f ∈ flushedBy s.q.ctrl op, ∀ nl, f.2.2 = some nl → nl ∈ q'.ctrl.links)
    (hlate : ∀ i ∈ s.q.late, i ∈ q'.late)
    (hpe : ∀ L ∈ s.q.pendEst, L ∈ q'.pendEst ∨ L.id ∈ q'.late ∨ L.remote = lp ∨ L ∈ q'.ctrl.links) :
    CInv lp { s with q := q', lds := applyFlushes cfg (flushedBy s.q.ctrl op) s.lds } := by
  have keep : ∀ ld ∈ s.lds, ∀ L, ld.lnk = some L → (∀ f ∈ flushedBy s.q.ctrl op, ¬ Hit f ld) →
      CGood lp q' s.staleStore L := by
    intro ld hld L hL hno
    refine cgood_mono (fun _ hi => hi) hlate (fun hp => hpe L hp) ?_ (h ld hld L hL)
    intro hin
    apply Classical.byContradiction
    intro hgone
    obtain ⟨hn, nx, hf⟩ := hfl L hin hgone
    exact hno _ hf ⟨((hwf.ld_ok ld hld).2.2.2 L hL).1.symm, hL⟩
  intro ld' hld' L hL
  rcases flushedBy_le_one s.q.ctrl op hop with he | ⟨f, he⟩
  · rw [he] at hld'
    exact keep ld' hld' L hL (by rw [he]; intro f hf; cases hf)
  · rw [he] at hld'
    obtain ⟨ld, hld, _, hcase⟩ := mem_applyFlushes_one cfg f s.lds ld' hld'
    rcases hcase with ⟨rfl, hno⟩ | ⟨_, hn | ⟨nl, hnl, hl'⟩⟩
    · exact keep ld' hld L hL (by rw [he]; intro g hg; rw [List.mem_singleton.1 hg]; exact hno)
    · rw [hn] at hL; cases hL
    · rw [hl'] at hL
      cases hL
      exact Or.inr (Or.inr (Or.inr (Or.inr (hnext f (by rw [he]; exact List.mem_singleton.2 rfl) _ hnl))))

theorem stale_mono (cfg : Cfg) (lp : Nat) (s : State) (op : Op) :
    ∀ i ∈ s.staleStore, i ∈ (step cfg lp s op).staleStore := by
  intro i hi
  cases op <;> simp only [step, addRefStep, releaseStep, sessionAt] <;> (repeat' split) <;>
    first
    | exact hi
    | exact List.mem_append_right _ hi

theorem cinv_step {cfg : Cfg} {lp : Nat} {s : State} (hwf : WF cfg lp s) (hq : QuicTable.QInv s.q)
    (hrun : s.q.ctrl.running = true ∧ s.q.ctrl.localPeer = lp) (hph : EstPhase s.q) (h : CInv lp s)
    (op : Op) : CInv lp (step cfg lp s op) := by
  -- ops that touch neither `q` nor a container
  have plain : LnkSub s (step cfg lp s op) → (step cfg lp s op).q = s.q → CInv lp (step cfg lp s op) := by
    intro hsub hqe
    refine cinv_of hsub ?_ h
    intro L hg
    rw [hqe]
    exact cgood_mono (stale_mono cfg lp s op) (fun _ hi => hi) (fun hp => Or.inl hp) (fun hl => hl) hg
  cases op with
  | addRef k => exact plain (lnkSub_addRefStep s k) (addRefStep_q s k)
  | release k => exact plain (lnkSub_releaseStep s k) (releaseStep_q s k)
  | tptAdd d =>
    apply plain
    · simp only [step]; split; exact lnkSub_addRefStep s _; exact lnkSub_of_eq rfl
    · rw [step_q]; rfl
  | tptDone d =>
    apply plain
    · simp only [step]; split; exact lnkSub_releaseStep s _; exact lnkSub_of_eq rfl
    · rw [step_q]; rfl
  | ret k =>
    apply plain
    · simp only [step]; (repeat' split) <;> exact lnkSub_of_eq rfl
    · rw [step_q]; rfl
  | tptPush d =>
    apply plain
    · simp only [step]; (repeat' split) <;> exact lnkSub_of_eq rfl
    · rw [step_q]; rfl
  | rtCheck k =>
    apply plain
    · simp only [step]
      (repeat' split) <;> first | exact lnkSub_of_eq rfl | exact lnkSub_setLD (by assumption) (by rfl) (by rfl)
    · rw [step_q]; rfl
  | rtAttach k =>
    apply plain
    · simp only [step]
      (repeat' split) <;> first | exact lnkSub_of_eq rfl | exact lnkSub_setLD (by assumption) (by rfl) (by rfl)
    · rw [step_q]; rfl
  | rtAwait k =>
    apply plain
    · simp only [step]
      (repeat' split) <;> first | exact lnkSub_of_eq rfl | exact lnkSub_setLD (by assumption) (by rfl) (by rfl)
    · rw [step_q]; rfl
  | rtTimer k =>
    apply plain
    · simp only [step]
      (repeat' split) <;> first | exact lnkSub_of_eq rfl | exact lnkSub_setLD (by assumption) (by rfl) (by rfl)
    · rw [step_q]; rfl
  | dexit d =>
    apply plain
    · simp only [step]; (repeat' split) <;> exact lnkSub_of_eq rfl
    · rw [step_q]; rfl
  | strayAttach a x =>
    apply plain
    · simp only [step]; (repeat' split) <;> exact lnkSub_of_eq rfl
    · rw [step_q]; rfl
  | rtStore k =>
    simp only [step]
    cases hg : getLD s k with
    | none => exact h
    | some ld =>
      dsimp only
      obtain ⟨hmem, hkey⟩ := getLD_some hg
      by_cases hgot : ∃ ol, ld.rt = .got ol
      · obtain ⟨ol, hrt⟩ := hgot
        simp only [hrt]
        intro x hx L hL
        simp only [setLD_q, setLD_staleStore]
        rcases mem_setLD hx with ⟨rfl, _⟩ | ⟨hx, _⟩
        · -- the container being filled
          simp only at hL
          subst hL
          obtain ⟨a0, hcr⟩ := ((hwf.ld_ok ld hmem).2.2.1 L hrt).2
          by_cases hst : L.id ∈ s.q.lostSeen ∨ L.id ∈ s.q.ctrl.closed
          · left; simp [hst]
          · rcases hph _ hcr with h1 | h1 | h1
            · exact Or.inr (Or.inr (Or.inr (Or.inl h1)))
            · exact Or.inr (Or.inr (Or.inr (Or.inr h1)))
            · exact absurd (Or.inr h1) hst
        · exact cgood_mono (fun i hi => List.mem_append_right _ hi) (fun _ hi => hi) (fun hp => Or.inl hp)
            (fun hl => hl) (h x hx L hL)
      · split
        · rename_i ol hrt; exact absurd ⟨ol, hrt⟩ hgot
        · exact h
  | answer d who =>
    simp only [step]
    cases hg : getQD s d with
    | none => exact h
    | some qd =>
      dsimp only
      by_cases hp : qd.res = .pending
      · rw [if_pos hp]
        by_cases hw : who = 0
        · rw [if_pos hw]; exact h
        · rw [if_neg hw]
          intro ld hld L hL
          exact cgood_qside cfg.U s.q (.session (cfg.resolve qd.addr) who) (Or.inl ⟨_, _, rfl⟩) _ L (h ld hld L hL)
      · rw [if_neg hp]; exact h
  | inbound a p =>
    intro ld hld L hL
    exact cgood_qside cfg.U s.q (.session a p) (Or.inl ⟨_, _, rfl⟩) _ L (h ld hld L hL)
  | close i =>
    intro ld hld L hL
    exact cgood_qside cfg.U s.q (.close i) (Or.inr (Or.inl ⟨_, rfl⟩)) _ L (h ld hld L hL)
  | runClose i =>
    intro ld hld L hL
    exact cgood_qside cfg.U s.q (.runClose i) (Or.inr (Or.inr (Or.inl ⟨_, rfl⟩))) _ L (h ld hld L hL)
  | runLost a l =>
    intro ld hld L hL
    exact cgood_qside cfg.U s.q (.runLost a l) (Or.inr (Or.inr (Or.inr ⟨_, _, rfl⟩))) _ L (h ld hld L hL)
  | runCtrlLost l =>
    simp only [step]
    split
    · rename_i hin
      have hq' : (QuicTable.step cfg.U s.q (.runCtrlLost l)) =
          QuicTable.ctrlStep { s.q with pendCtrlLost := s.q.pendCtrlLost.erase l,
                                        lostSeen := l.id :: s.q.lostSeen } (.lost l) := by
        simp [QuicTable.step, QuicTable.stepWith, hin]
      apply cinv_ctrl hwf h (.lost l) (Or.inr ⟨l, rfl⟩)
      · intro x hx hgone
        rw [hq'] at hgone
        exact ⟨false, none, removed_flushed_lost (ctrl_nd_uuid hq) l x hx hgone⟩
      · intro f hf nl hnl
        rw [(flushedBy_lost_next hf).1] at hnl; cases hnl
      · intro i hi; rw [hq']; exact hi
      · intro L hL; left; rw [hq']; exact hL
    · exact h
  | runEst l =>
    simp only [step]
    split
    · rename_i hin
      have hq' : (QuicTable.step cfg.U s.q (.runEst l)) =
          QuicTable.ctrlStep { s.q with pendEst := s.q.pendEst.erase l,
                                        late := if l.id ∈ s.q.lostSeen then l.id :: s.q.late else s.q.late }
            (.est l) := by
        simp [QuicTable.step, QuicTable.stepWith, hin]
      have hlate : ∀ i ∈ s.q.late, i ∈ (if l.id ∈ s.q.lostSeen then l.id :: s.q.late else s.q.late) := by
        intro i hi; split
        · exact List.mem_cons_of_mem _ hi
        · exact hi
      -- when the section flushes (replaces) a link, the link being established is accepted
      have hacc : ∀ f ∈ flushedBy s.q.ctrl (.est l), l ∈ (Links.step s.q.ctrl (.est l)).links := by
        intro f hf
        obtain ⟨cops, hc, hwfh, hsub⟩ := hq.ctrl_hist
        have hop : ∀ x, Links.histLinkOf (.est l) = some x → ∃ a, (a, x) ∈ s.q.created := by
          intro x hx
          simp only [Links.histLinkOf, Option.some.injEq] at hx
          subst hx
          exact hq.pe_cr _ hin
        obtain ⟨hwf', _⟩ := QuicTable.wfh_snoc hq hsub hop
        have hself : l.remote ≠ s.q.ctrl.localPeer := by
          intro hs
          simp only [flushedBy, hrun.1, Bool.not_true, Bool.false_eq_true, if_false, hs, if_true] at hf
          cases hf
        have := Links.est_mem hwf' (hc ▸ hrun.1) (hc ▸ hself)
        rw [Links.run_snoc, ← hc] at this
        exact this
      apply cinv_ctrl hwf h (.est l) (Or.inl ⟨l, rfl⟩)
      · intro x hx hgone
        rw [hq'] at hgone
        exact ⟨true, some l, removed_flushed_est (ctrl_nd_uuid hq) l x hx hgone⟩
      · intro f hf nl hnl
        rw [(flushedBy_est_next hf).1] at hnl
        cases hnl
        rw [hq']
        exact hacc f hf
      · intro i hi; rw [hq']; exact hlate i hi
      · intro L hL
        rw [hq']
        by_cases hLl : L = l
        · subst hLl
          by_cases hseen : L.id ∈ s.q.lostSeen
          · right; left
            show L.id ∈ (if L.id ∈ s.q.lostSeen then L.id :: s.q.late else s.q.late)
            rw [if_pos hseen]; exact List.mem_cons_self
          · by_cases hself : L.remote = lp
            · exact Or.inr (Or.inr (Or.inl hself))
            · -- accepted into the tables
              right; right; right
              obtain ⟨cops, hc, hwfh, hsub⟩ := hq.ctrl_hist
              have hop : ∀ x, Links.histLinkOf (.est L) = some x → ∃ a, (a, x) ∈ s.q.created := by
                intro x hx
                simp only [Links.histLinkOf, Option.some.injEq] at hx
                subst hx
                exact hq.pe_cr _ hin
              obtain ⟨hwf', _⟩ := QuicTable.wfh_snoc hq hsub hop
              have := Links.est_mem hwf' (hc ▸ hrun.1) (hc ▸ (hrun.2 ▸ hself))
              rw [Links.run_snoc, ← hc] at this
              exact this
        · left
          exact (List.mem_erase_of_ne hLl).2 hL
    · exact h

theorem cinv_run (cfg : Cfg) (lp : Nat) (ops : List Op) : CInv lp (run cfg lp ops) := by
  induction ops using Links.snoc_induction with
  | nil => intro ld hld; cases hld
  | snoc ops op ih =>
    rw [run_snoc]
    exact cinv_step (wf_run cfg lp ops) (qinv_run cfg lp ops) (running_run cfg lp ops)
      (estPhase_run cfg lp ops) ih op

end DialSys
end Bifrost
