import Bifrost.Model.Tls
import Bifrost.Model.Crypto
/-! Helper lemmas for C03 (TLS identity binding). -/
namespace Bifrost
namespace Tls
open Codec

theorem oidEqual_iff (a b : Oid) : oidEqual a b = true ↔ a = b := by
  induction a generalizing b with
  | nil => cases b <;> simp [oidEqual]
  | cons x xs ih =>
    cases b with
    | nil => simp [oidEqual]
    | cons y ys => simp [oidEqual, ih]

theorem oidEqual_refl (a : Oid) : oidEqual a a = true := (oidEqual_iff a a).mpr rfl

/-- the extension found carries the key OID and is the first one that does -/
theorem findKeyExt_some (extId : Oid) (es : List Ext) (e : Ext) :
    findKeyExt extId es = some e ↔
      ∃ pre post, es = pre ++ e :: post ∧ e.id = extId ∧ ∀ x ∈ pre, x.id ≠ extId := by
  induction es with
  | nil => simp [findKeyExt]
  | cons x rest ih =>
    unfold findKeyExt
    by_cases hx : oidEqual x.id extId = true
    · rw [if_pos hx]
      have hxe := (oidEqual_iff _ _).mp hx
      constructor
      · intro h
        injection h with h
        subst h
        exact ⟨[], rest, rfl, hxe, by simp⟩
      · rintro ⟨pre, post, hes, _, hpre⟩
        cases pre with
        | nil =>
          simp only [List.nil_append, List.cons.injEq] at hes
          rw [hes.1]
        | cons p ps =>
          simp only [List.cons_append, List.cons.injEq] at hes
          exact absurd (hes.1 ▸ hxe) (hpre p (by simp))
    · rw [if_neg hx]
      have hxe : x.id ≠ extId := fun h => hx ((oidEqual_iff _ _).mpr h)
      rw [ih]
      constructor
      · rintro ⟨pre, post, hes, hid, hpre⟩
        refine ⟨x :: pre, post, by simp [hes], hid, ?_⟩
        intro y hy
        rcases List.mem_cons.mp hy with rfl | hy
        · exact hxe
        · exact hpre y hy
      · rintro ⟨pre, post, hes, hid, hpre⟩
        cases pre with
        | nil =>
          simp only [List.nil_append, List.cons.injEq] at hes
          exact absurd (hes.1 ▸ hid) hxe
        | cons p ps =>
          simp only [List.cons_append, List.cons.injEq] at hes
          exact ⟨ps, post, hes.2, hid, fun y hy => hpre y (by simp [hy])⟩

theorem findKeyExt_none (extId : Oid) (es : List Ext) :
    findKeyExt extId es = none ↔ ∀ x ∈ es, x.id ≠ extId := by
  induction es with
  | nil => simp [findKeyExt]
  | cons x rest ih =>
    unfold findKeyExt
    by_cases hx : oidEqual x.id extId = true
    · rw [if_pos hx]
      have hxe := (oidEqual_iff _ _).mp hx
      simp [hxe]
    · rw [if_neg hx]
      have hxe : x.id ≠ extId := fun h => hx ((oidEqual_iff _ _).mpr h)
      simp [ih, hxe]

theorem findKeyExt_id (extId : Oid) (es : List Ext) (e : Ext) (h : findKeyExt extId es = some e) :
    e.id = extId := by
  obtain ⟨_, _, _, hid, _⟩ := (findKeyExt_some extId es e).mp h
  exact hid

/-- `removeFirst` is `List.erase`. -/
theorem removeFirst_eq_erase (id : Oid) (l : List Oid) : removeFirst id l = l.erase id := by
  induction l with
  | nil => rfl
  | cons o rest ih =>
    unfold removeFirst
    by_cases h : oidEqual o id = true
    · rw [if_pos h]
      have := (oidEqual_iff _ _).mp h
      subst this
      simp
    · rw [if_neg h]
      have hne : o ≠ id := fun e => h ((oidEqual_iff _ _).mpr e)
      rw [ih, List.erase_cons_tail (by simpa using hne)]

/-- after removal nothing unhandled remains iff the list was empty or exactly `[id]` -/
theorem removeFirst_nil (id : Oid) (l : List Oid) :
    removeFirst id l = [] ↔ l = [] ∨ l = [id] := by
  cases l with
  | nil => simp [removeFirst]
  | cons o rest =>
    unfold removeFirst
    by_cases h : oidEqual o id = true
    · rw [if_pos h]
      have := (oidEqual_iff _ _).mp h
      subst this
      simp
    · rw [if_neg h]
      have hne : o ≠ id := fun e => h ((oidEqual_iff _ _).mpr e)
      simp [hne]

theorem parseAll_map_some (cs : List Cert) : parseAll (cs.map some) = some cs := by
  induction cs with
  | nil => rfl
  | cons c rest ih => simp [parseAll, ih]

theorem parseAll_none_of_mem (raw : List (Option Cert)) (h : none ∈ raw) : parseAll raw = none := by
  induction raw with
  | nil => cases h
  | cons x rest ih =>
    cases x with
    | none => rfl
    | some c =>
      have : none ∈ rest := by simpa using h
      simp [parseAll, ih this]

theorem parseAll_some (raw : List (Option Cert)) (cs : List Cert) (h : parseAll raw = some cs) :
    raw = cs.map some := by
  induction raw generalizing cs with
  | nil => simp [parseAll] at h; subst h; rfl
  | cons x rest ih =>
    cases x with
    | none => simp [parseAll] at h
    | some c =>
      unfold parseAll at h
      split at h
      · cases h
      · rename_i cs' hcs
        injection h with h
        subst h
        simp [ih cs' hcs]

/-- Exact characterisation of acceptance by `PubKeyFromCertChain`. -/
theorem pubKeyFromCertChain_ok_iff (extId : Oid) (pfx : Bytes) (V : VerifyFn) (P : ParseFn)
    (chain : List Cert) (pk : Bytes) :
    pubKeyFromCertChain extId pfx V P chain = .ok pk ↔
      ∃ cert ext pkb sig spki,
        chain = [cert] ∧
        findKeyExt extId cert.exts = some ext ∧
        removeFirst ext.id cert.unhandledCritical = [] ∧ cert.verifyRest = true ∧
        cert.selfSigOk = true ∧
        P ext.value = some (pkb, sig) ∧
        unmarshalPublicKey pkb = some pk ∧
        cert.pkix = some spki ∧
        V pk (pfx ++ spki) sig = true := by
  constructor
  · intro h
    unfold pubKeyFromCertChain at h
    split at h
    · rename_i cert
      split at h
      · cases h
      · rename_i ext hext
        simp only at h
        split at h
        · cases h
        · rename_i hx
          split at h
          · cases h
          · rename_i hs
            split at h
            · cases h
            · rename_i pkb sig hp
              split at h
              · cases h
              · rename_i pk' hpk
                split at h
                · cases h
                · rename_i spki hspki
                  split at h
                  · rename_i hv
                    injection h with h
                    subst h
                    simp only [Bool.not_eq_eq_eq_not, Bool.not_true, Bool.and_eq_false_imp,
                      List.isEmpty_iff, Bool.not_eq_false] at hx hs
                    have hx' : removeFirst ext.id cert.unhandledCritical = [] ∧ cert.verifyRest = true := by
                      cases hr : removeFirst ext.id cert.unhandledCritical with
                      | nil =>
                        cases hvr : cert.verifyRest with
                        | true => exact ⟨rfl, rfl⟩
                        | false => simp [hr, hvr] at hx
                      | cons a l => simp [hr] at hx
                    exact ⟨cert, ext, pkb, sig, spki, rfl, hext, hx'.1, hx'.2, by simpa using hs,
                      hp, hpk, hspki, hv⟩
                  · cases h
    · cases h
  · rintro ⟨cert, ext, pkb, sig, spki, rfl, hext, hr, hvr, hs, hp, hpk, hspki, hv⟩
    simp [pubKeyFromCertChain, hext, hr, hvr, hs, hp, hpk, hspki, hv]

/-- `establish` succeeds exactly when the chain is accepted, the expected-peer constraint (if
any) is met, and then names the ID of the accepted key. -/
theorem establish_ok_iff (extId : Oid) (pfx : Bytes) (V : VerifyFn) (P : ParseFn)
    (remote : Bytes) (presented : List Cert) (id : Bytes) :
    establish extId pfx V P remote presented = .ok id ↔
      ∃ pk, pubKeyFromCertChain extId pfx V P presented = .ok pk ∧ id = idFromPublicKey pk ∧
        (remote = [] ∨ remote = id) := by
  unfold establish verifyPeerCertificate determineSessionIdentity
  rw [parseAll_map_some]
  simp only
  cases hc : pubKeyFromCertChain extId pfx V P presented with
  | error e => simp
  | ok pk =>
    simp only [matchesPublicKey]
    cases remote with
    | nil =>
      simp only [List.isEmpty_nil, Bool.not_true, Bool.false_and, Bool.false_eq_true, ↓reduceIte,
        Except.ok.injEq, true_or, and_true]
      constructor
      · intro h; exact ⟨pk, rfl, h.symm⟩
      · rintro ⟨pk', hpk', hid⟩; subst hpk'; exact hid.symm
    | cons r rs =>
      by_cases hm : idFromPublicKey pk = r :: rs
      · simp only [List.isEmpty_cons, Bool.not_false, hm, decide_true, Bool.not_true,
          Bool.and_false, Bool.false_eq_true, ↓reduceIte, Except.ok.injEq, reduceCtorEq, false_or]
        constructor
        · intro h; exact ⟨pk, rfl, by rw [← h, hm], by rw [← h]⟩
        · rintro ⟨pk', hpk', hid, _⟩; subst hpk'; rw [hid, hm]
      · simp only [List.isEmpty_cons, Bool.not_false, hm, decide_false, Bool.not_false,
          Bool.and_self, ↓reduceIte, reduceCtorEq, Except.ok.injEq, false_or, false_iff,
          not_exists, not_and]
        intro pk' hpk' hid heq
        subst hpk' hid
        exact hm heq.symm

/-- every failure of `establish` is a failure of the closure or of the chain function -/
theorem establish_error_of_chain_error (extId : Oid) (pfx : Bytes) (V : VerifyFn) (P : ParseFn)
    (remote : Bytes) (presented : List Cert) (e : Err)
    (h : pubKeyFromCertChain extId pfx V P presented = .error e) :
    establish extId pfx V P remote presented = .error e := by
  unfold establish verifyPeerCertificate
  rw [parseAll_map_some]
  simp [h]

/-! ### ASN.1 codec of `signedKey` (trusted `encoding/asn1`): what completeness needs -/

structure Asn1Codec where
  marshal : Bytes → Bytes → Bytes
  parse : ParseFn
  roundtrip : ∀ p s, parse (marshal p s) = some (p, s)

def toyMarshal (p s : Bytes) : Bytes := List.replicate p.length 1 ++ 0 :: (p ++ s)

def toyParse (b : Bytes) : Option (Bytes × Bytes) :=
  let n := (b.takeWhile (· == 1)).length
  let rest := b.drop (n + 1)
  some (rest.take n, rest.drop n)

theorem takeWhile_ones (n : Nat) (t : Bytes) :
    (List.replicate n (1 : UInt8) ++ 0 :: t).takeWhile (· == 1) = List.replicate n 1 := by
  induction n with
  | zero => simp
  | succ k ih => simp [List.replicate_succ, ih]

def ToyAsn1 : Asn1Codec where
  marshal := toyMarshal
  parse := toyParse
  roundtrip := by
    intro p s
    unfold toyParse toyMarshal
    simp only [takeWhile_ones, List.length_replicate]
    have : (List.replicate p.length (1 : UInt8) ++ 0 :: (p ++ s)).drop (p.length + 1) = p ++ s := by
      rw [show List.replicate p.length (1 : UInt8) ++ 0 :: (p ++ s)
          = (List.replicate p.length 1 ++ [0]) ++ (p ++ s) by simp]
      exact List.drop_left' (by simp)
    rw [this]
    simp

end Tls
end Bifrost
