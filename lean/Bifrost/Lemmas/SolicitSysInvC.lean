import Bifrost.Lemmas.SolicitSysBase
/-! Inductive invariants of the two-sided solicitation model, part C: streams, resolution, deliveries. -/
namespace Bifrost.SolicitSys
open Bifrost Bifrost.Solicit

structure InvC (H : Bytes → Bytes) (c : Cfg) (st : State) : Prop where
  resolvedNodup : ∀ x, (st.node x).resolved.Nodup
  arrivingNodup : ∀ x, (st.node x).arriving.Nodup
  arrivingOk : ∀ x, ∀ s ∈ (st.node x).arriving,
    s ∉ (st.node x).resolved ∧ ∃ sr, st.streams[s]? = some sr ∧ sr.opener = x.other
  resolvedLt : ∀ x, ∀ s ∈ (st.node x).resolved, s < st.streams.length
  streamHandled : ∀ s sr, st.streams[s]? = some sr →
    s ∈ (st.node sr.opener).resolved ∧
      (s ∈ (st.node sr.opener.other).arriving ∨ s ∈ (st.node sr.opener.other).resolved)
  closedIff : ∀ x s, s ∈ (st.node x).closed ↔
    (s ∈ (st.node x).resolved ∧ ∀ r ∈ (st.node x).recv, r.stream ≠ s)
  recvResolved : ∀ x, ∀ r ∈ (st.node x).recv, r.stream ∈ (st.node x).resolved
  recvSound : ∀ x, ∀ r ∈ (st.node x).recv, ∃ sr, st.streams[r.stream]? = some sr ∧
    admits r.d (c.view x) = true ∧ dirHash H c x r.d = sr.hash

/-- directive instances have distinct identities -/
structure InvD (st : State) : Prop where
  dirIds : ∀ x, ∀ i ∈ (st.node x).dirs, i.id < (st.node x).nextDir
  dirNodup : ∀ x, ((st.node x).dirs.map (·.id)).Nodup

theorem invC_frame (H : Bytes → Bytes) (c : Cfg) (st st' : State) (h : InvC H c st)
    (hs : st'.streams = st.streams)
    (hr : ∀ y, (st'.node y).resolved = (st.node y).resolved)
    (ha : ∀ y, (st'.node y).arriving = (st.node y).arriving)
    (hv : ∀ y, (st'.node y).recv = (st.node y).recv)
    (hc : ∀ y, (st'.node y).closed = (st.node y).closed) : InvC H c st' := by
  obtain ⟨h1, h2, h3, h4, h5, h6, h7, h8⟩ := h
  constructor <;> simp only [hs, hr, ha, hv, hc] <;> assumption

theorem invD_frame (st st' : State) (h : InvD st)
    (hd : ∀ y, (st'.node y).dirs = (st.node y).dirs)
    (hn : ∀ y, (st'.node y).nextDir = (st.node y).nextDir) : InvD st' := by
  obtain ⟨h1, h2⟩ := h
  constructor <;> simp only [hd, hn] <;> assumption

/-- what `resolveOn` does for a stream not yet resolved on this node -/
theorem resolveOn_closedIff (H : Bytes → Bytes) (c : Cfg) (x : Side) (n : Node) (h : Bytes) (s : Nat)
    (hs : s ∉ n.resolved)
    (h6 : ∀ t, t ∈ n.closed ↔ (t ∈ n.resolved ∧ ∀ r ∈ n.recv, r.stream ≠ t))
    (h7 : ∀ r ∈ n.recv, r.stream ∈ n.resolved) (t : Nat) :
    t ∈ (resolveOn H c x n h s).closed ↔
      (t ∈ (resolveOn H c x n h s).resolved ∧ ∀ r ∈ (resolveOn H c x n h s).recv, r.stream ≠ t) := by
  rw [mem_resolveOn_closed, resolveOn_resolved]
  simp only [mem_resolveOn_recv, List.mem_append, List.mem_singleton]
  by_cases e : t = s
  · subst e
    have hnc : t ∉ n.closed := fun hc => hs ((h6 t).mp hc).1
    constructor
    · rintro (hc | ⟨_, hno⟩)
      · exact absurd hc hnc
      · refine ⟨Or.inr rfl, ?_⟩
        rintro r (hr | ⟨i, hi, ha, hh, rfl⟩)
        · intro e; exact hs (e ▸ h7 r hr)
        · exact absurd ⟨ha, hh⟩ (hno i hi)
    · rintro ⟨_, hall⟩
      refine Or.inr ⟨rfl, ?_⟩
      intro i hi hc
      exact hall ⟨i.id, i.d, t⟩ (Or.inr ⟨i, hi, hc.1, hc.2, rfl⟩) rfl
  · constructor
    · rintro (hc | ⟨e', _⟩)
      · obtain ⟨h1, h2⟩ := (h6 t).mp hc
        refine ⟨Or.inl h1, ?_⟩
        rintro r (hr | ⟨i, hi, ha, hh, rfl⟩)
        · exact h2 r hr
        · exact fun e' => e e'.symm
      · exact absurd e' e
    · rintro ⟨hr | hr, hall⟩
      · exact Or.inl ((h6 t).mpr ⟨hr, fun r hr' => hall r (Or.inl hr')⟩)
      · exact absurd hr e

theorem invC_init (H : Bytes → Bytes) (c : Cfg) : InvC H c {} := by
  constructor <;> intro x <;> cases x <;> simp [State.node]

theorem invD_init : InvD {} := by
  constructor <;> intro x <;> cases x <;> simp [State.node]

theorem getElem?_append_lt {α} (l : List α) (a : α) (s : Nat) (x : α) (h : l[s]? = some x) :
    (l ++ [a])[s]? = some x := by
  have hlt : s < l.length := by
    rcases Nat.lt_or_ge s l.length with h' | h'
    · exact h'
    · rw [List.getElem?_eq_none h'] at h; cases h
  rw [List.getElem?_append_left hlt]; exact h

theorem lt_of_getElem? {α} (l : List α) (s : Nat) (x : α) (h : l[s]? = some x) : s < l.length := by
  rcases Nat.lt_or_ge s l.length with h' | h'
  · exact h'
  · rw [List.getElem?_eq_none h'] at h; cases h

theorem getElem?_append_cases {α} (l : List α) (a x : α) (s : Nat) (h : (l ++ [a])[s]? = some x) :
    l[s]? = some x ∨ (s = l.length ∧ x = a) := by
  rcases Nat.lt_or_ge s l.length with h' | h'
  · rw [List.getElem?_append_left h'] at h; exact Or.inl h
  · rw [List.getElem?_append_right h'] at h
    have : s - l.length = 0 := by
      rcases Nat.eq_zero_or_pos (s - l.length) with h0 | h0
      · exact h0
      · rw [List.getElem?_eq_none (by simp; omega)] at h; cases h
    rw [this] at h
    simp at h
    exact Or.inr ⟨by omega, h.symm⟩

theorem invC_step (H : Bytes → Bytes) (c : Cfg) (st : State) (o : Op) (h : InvC H c st) : InvC H c (step H c st o) := by
  have hh0 := h
  obtain ⟨h1, h2, h3, h4, h5, h6, h7, h8⟩ := h
  cases o with
  | add x d =>
    refine invC_frame H c st _ hh0 (by simp [step]) ?_ ?_ ?_ ?_ <;>
      (intro y; rcases eq_or_other x y with rfl | rfl <;> simp [step])
  | remove x d =>
    refine invC_frame H c st _ hh0 (by simp [step]) ?_ ?_ ?_ ?_ <;>
      (intro y; rcases eq_or_other x y with rfl | rfl <;> simp [step])
  | sync x =>
    by_cases he : hashList H c x (st.node x) = (st.node x).sent
    · refine invC_frame H c st _ hh0 (by simp [step, he]) ?_ ?_ ?_ ?_ <;>
        (intro y; rcases eq_or_other x y with rfl | rfl <;> simp [step, he])
    · refine invC_frame H c st _ hh0 (by simp [step, he]) ?_ ?_ ?_ ?_ <;>
        (intro y; rcases eq_or_other x y with rfl | rfl <;> simp [step, he])
  | deliver x =>
    cases hi : (st.node x).inbox with
    | nil => simp only [step, hi]; exact hh0
    | cons m rest =>
      refine invC_frame H c st _ hh0 (by simp [step, hi]) ?_ ?_ ?_ ?_ <;>
        (intro y; rcases eq_or_other x y with rfl | rfl <;> simp [step, hi])
  | «open» x hh =>
    by_cases hp : hh ∈ (st.node x).pendingOpen
    · have hsn : st.streams.length ∉ (st.node x).resolved := fun hc => Nat.lt_irrefl _ (h4 x _ hc)
      have hsn' : st.streams.length ∉ (st.node x.other).resolved := fun hc => Nat.lt_irrefl _ (h4 _ _ hc)
      have hsa : ∀ y, st.streams.length ∉ (st.node y).arriving := by
        intro y hc
        obtain ⟨_, sr, hsr, _⟩ := h3 y _ hc
        exact Nat.lt_irrefl _ (lt_of_getElem? _ _ _ hsr)
      have hx : (step H c st (.open x hh)).node x =
          resolveOn H c x { st.node x with pendingOpen := (st.node x).pendingOpen.erase hh } hh st.streams.length := by
        simp [step, hp]
      have ho : (step H c st (.open x hh)).node x.other =
          { st.node x.other with arriving := (st.node x.other).arriving ++ [st.streams.length] } := by
        simp [step, hp]
      have hs : (step H c st (.open x hh)).streams = st.streams ++ [⟨hh, x⟩] := by simp [step, hp]
      constructor
      · intro y; rcases eq_or_other x y with rfl | rfl
        · rw [hx, resolveOn_resolved]; simp only; rw [List.nodup_append]
          exact ⟨h1 y, by simp, by intro a ha b hb; simp at hb; subst hb; intro e; subst e; exact hsn ha⟩
        · rw [ho]; exact h1 _
      · intro y; rcases eq_or_other x y with rfl | rfl
        · rw [hx, resolveOn_arriving]; exact h2 y
        · rw [ho]; simp only; rw [List.nodup_append]
          exact ⟨h2 _, by simp, by intro a ha b hb; simp at hb; subst hb; intro e; subst e; exact hsa _ ha⟩
      · intro y; rcases eq_or_other x y with rfl | rfl
        · rw [hx, resolveOn_arriving, resolveOn_resolved, hs]; simp only
          intro s hsm
          obtain ⟨hn, sr, hsr, hop⟩ := h3 y s hsm
          refine ⟨?_, sr, getElem?_append_lt _ _ _ _ hsr, hop⟩
          simp only [List.mem_append, List.mem_singleton]
          rintro (hc | rfl)
          · exact hn hc
          · exact hsa _ hsm
        · rw [ho, hs]; simp only [List.mem_append, List.mem_singleton]
          rintro s (hsm | rfl)
          · obtain ⟨hn, sr, hsr, hop⟩ := h3 _ s hsm
            exact ⟨hn, sr, getElem?_append_lt _ _ _ _ hsr, hop⟩
          · exact ⟨hsn', ⟨hh, x⟩, by simp, by simp⟩
      · intro y; rcases eq_or_other x y with rfl | rfl
        · rw [hx, resolveOn_resolved, hs]; simp only [List.mem_append, List.mem_singleton, List.length_append, List.length_singleton]
          rintro s (hsm | rfl)
          · have := h4 y s hsm; omega
          · omega
        · rw [ho, hs]; simp only [List.length_append, List.length_singleton]
          intro s hsm; have := h4 _ s hsm; omega
      · intro s sr hsr
        rw [hs] at hsr
        rcases getElem?_append_cases _ _ _ _ hsr with hsr | ⟨rfl, rfl⟩
        · obtain ⟨ha, hb⟩ := h5 s sr hsr
          rcases eq_or_other x sr.opener with e | e
          · rw [e] at ha hb ⊢
            rw [hx, ho, resolveOn_resolved]
            simp only [List.mem_append, List.mem_singleton]
            exact ⟨Or.inl ha, hb.imp Or.inl id⟩
          · have e' : sr.opener.other = x := by rw [e]; simp
            rw [e'] at hb ⊢
            rw [e, ho, hx, resolveOn_resolved, resolveOn_arriving]
            simp only [List.mem_append, List.mem_singleton]
            rw [e] at ha
            exact ⟨ha, hb.imp id Or.inl⟩
        · simp only
          rw [hx, ho, resolveOn_resolved]
          simp
      · intro y; rcases eq_or_other x y with rfl | rfl
        · rw [hx]
          exact resolveOn_closedIff H c y _ hh _ hsn (h6 y) (h7 y)
        · rw [ho]; exact h6 _
      · intro y; rcases eq_or_other x y with rfl | rfl
        · rw [hx, resolveOn_resolved]; simp only [mem_resolveOn_recv, List.mem_append, List.mem_singleton]
          rintro r (hr | ⟨i, _, _, _, rfl⟩)
          · exact Or.inl (h7 y r hr)
          · exact Or.inr rfl
        · rw [ho]; exact h7 _
      · intro y; rcases eq_or_other x y with rfl | rfl
        · rw [hx, hs]; simp only [mem_resolveOn_recv]
          rintro r (hr | ⟨i, _, ha, hhh, rfl⟩)
          · obtain ⟨sr, hsr, hh'⟩ := h8 y r hr
            exact ⟨sr, getElem?_append_lt _ _ _ _ hsr, hh'⟩
          · exact ⟨⟨hh, y⟩, by simp, ha, hhh⟩
        · rw [ho, hs]
          intro r hr
          obtain ⟨sr, hsr, hh'⟩ := h8 _ r hr
          exact ⟨sr, getElem?_append_lt _ _ _ _ hsr, hh'⟩
    · simp only [step, hp]
      exact hh0
  | arrive x s =>
    by_cases hp : s ∈ (st.node x).arriving
    · cases hs : st.streams[s]? with
      | none => simp only [step, hp, hs]; exact hh0
      | some sr =>
        obtain ⟨hsn, sr', hsr', hop⟩ := h3 x s hp
        rw [hs] at hsr'; cases hsr'
        have hx : (step H c st (.arrive x s)).node x =
            resolveOn H c x { st.node x with arriving := (st.node x).arriving.erase s } sr.hash s := by
          simp [step, hp, hs]
        have ho : (step H c st (.arrive x s)).node x.other = st.node x.other := by simp [step, hp, hs]
        have hst : (step H c st (.arrive x s)).streams = st.streams := by simp [step, hp, hs]
        constructor
        · intro y; rcases eq_or_other x y with rfl | rfl
          · rw [hx, resolveOn_resolved]; simp only; rw [List.nodup_append]
            exact ⟨h1 y, by simp, by intro a ha b hb; simp at hb; subst hb; intro e; subst e; exact hsn ha⟩
          · rw [ho]; exact h1 _
        · intro y; rcases eq_or_other x y with rfl | rfl
          · rw [hx, resolveOn_arriving]; exact (h2 y).erase s
          · rw [ho]; exact h2 _
        · intro y; rcases eq_or_other x y with rfl | rfl
          · rw [hx, resolveOn_arriving, resolveOn_resolved, hst]; simp only
            intro t ht
            have htne : t ≠ s := fun e => by
              subst e; exact (List.Nodup.not_mem_erase (h2 y)) ht
            obtain ⟨hn, sr2, hsr2, hop2⟩ := h3 y t (List.mem_of_mem_erase ht)
            refine ⟨?_, sr2, hsr2, hop2⟩
            simp only [List.mem_append, List.mem_singleton]
            rintro (hc | hc)
            · exact hn hc
            · exact htne hc
          · rw [ho, hst]; exact h3 _
        · intro y; rcases eq_or_other x y with rfl | rfl
          · rw [hx, resolveOn_resolved, hst]; simp only [List.mem_append, List.mem_singleton]
            rintro t (ht | rfl)
            · exact h4 y t ht
            · exact lt_of_getElem? _ _ _ hs
          · rw [ho, hst]; exact h4 _
        · intro t sr2 hsr2
          rw [hst] at hsr2
          obtain ⟨ha, hb⟩ := h5 t sr2 hsr2
          rcases eq_or_other x sr2.opener with e | e
          · rw [e] at ha hb ⊢
            rw [hx, ho, resolveOn_resolved]
            simp only [List.mem_append, List.mem_singleton]
            exact ⟨Or.inl ha, hb⟩
          · have e' : sr2.opener.other = x := by rw [e]; simp
            rw [e'] at hb ⊢
            rw [e, ho, hx, resolveOn_resolved, resolveOn_arriving]
            simp only [List.mem_append, List.mem_singleton]
            rw [e] at ha
            refine ⟨ha, ?_⟩
            rcases hb with hb | hb
            · by_cases ets : t = s
              · exact Or.inr (Or.inr ets)
              · exact Or.inl ((List.mem_erase_of_ne ets).mpr hb)
            · exact Or.inr (Or.inl hb)
        · intro y; rcases eq_or_other x y with rfl | rfl
          · rw [hx]
            exact resolveOn_closedIff H c y _ sr.hash _ hsn (h6 y) (h7 y)
          · rw [ho]; exact h6 _
        · intro y; rcases eq_or_other x y with rfl | rfl
          · rw [hx, resolveOn_resolved]; simp only [mem_resolveOn_recv, List.mem_append, List.mem_singleton]
            rintro r (hr | ⟨i, _, _, _, rfl⟩)
            · exact Or.inl (h7 y r hr)
            · exact Or.inr rfl
          · rw [ho]; exact h7 _
        · intro y; rcases eq_or_other x y with rfl | rfl
          · rw [hx, hst]; simp only [mem_resolveOn_recv]
            rintro r (hr | ⟨i, _, ha, hhh, rfl⟩)
            · exact h8 y r hr
            · exact ⟨sr, hs, ha, hhh⟩
          · rw [ho, hst]; exact h8 _
    · simp only [step, hp]
      exact hh0

theorem invD_step (H : Bytes → Bytes) (c : Cfg) (st : State) (o : Op) (h : InvD st) : InvD (step H c st o) := by
  have hh0 := h
  obtain ⟨h9, h10⟩ := h
  cases o with
  | add x d =>
    constructor
    · intro y; rcases eq_or_other x y with rfl | rfl <;> simp [step]
      · intro i hi; rcases hi with hi | rfl
        · have := h9 y i hi; omega
        · simp
      · exact h9 _
    · intro y; rcases eq_or_other x y with rfl | rfl <;> simp [step]
      · rw [List.nodup_append]
        refine ⟨h10 y, by simp, ?_⟩
        intro a ha b hb
        simp at hb; subst hb
        simp at ha
        obtain ⟨i, hi, rfl⟩ := ha
        have := h9 y i hi; omega
      · exact h10 _
  | remove x d =>
    constructor
    · intro y; rcases eq_or_other x y with rfl | rfl <;> simp [step]
      · intro i hi _; exact h9 y i hi
      · exact h9 _
    · intro y; rcases eq_or_other x y with rfl | rfl <;> simp [step]
      · exact List.Nodup.sublist (List.Sublist.map _ List.filter_sublist) (h10 y)
      · exact h10 _
  | sync x =>
    by_cases he : hashList H c x (st.node x) = (st.node x).sent
    · refine invD_frame st _ hh0 ?_ ?_ <;> (intro y; rcases eq_or_other x y with rfl | rfl <;> simp [step, he])
    · refine invD_frame st _ hh0 ?_ ?_ <;> (intro y; rcases eq_or_other x y with rfl | rfl <;> simp [step, he])
  | deliver x =>
    cases hi : (st.node x).inbox with
    | nil => simp only [step, hi]; exact hh0
    | cons m rest =>
      refine invD_frame st _ hh0 ?_ ?_ <;> (intro y; rcases eq_or_other x y with rfl | rfl <;> simp [step, hi])
  | «open» x hh =>
    by_cases hp : hh ∈ (st.node x).pendingOpen
    · refine invD_frame st _ hh0 ?_ ?_ <;> (intro y; rcases eq_or_other x y with rfl | rfl <;> simp [step, hp])
    · simp only [step, hp]; exact hh0
  | arrive x s =>
    by_cases hp : s ∈ (st.node x).arriving
    · cases hs : st.streams[s]? with
      | none => simp only [step, hp, hs]; exact hh0
      | some sr =>
        refine invD_frame st _ hh0 ?_ ?_ <;> (intro y; rcases eq_or_other x y with rfl | rfl <;> simp [step, hp, hs])
    · simp only [step, hp]; exact hh0

end Bifrost.SolicitSys
