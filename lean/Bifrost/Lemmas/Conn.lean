import Bifrost.Model.Packets
import Bifrost.Lemmas.Varint
/-! Helper lemmas for C09: `chop`, `connPump`, `connReads`. -/
namespace Bifrost
namespace Packets
open Framing (Reader)

theorem chop_flatten (k fuel : Nat) (ch : Bytes) (h : ch.length < fuel) :
    (chop k fuel ch).flatten = ch := by
  induction fuel generalizing ch with
  | zero => omega
  | succ f ih =>
    unfold chop
    by_cases he : ch.isEmpty = true
    · have : ch = [] := by simpa using he
      simp [this]
    · simp only [he]
      by_cases hs : ch.length ≤ k ∨ k = 0
      · simp [hs]
      · simp only [hs, ↓reduceIte, Bool.false_eq_true, List.flatten_cons]
        rw [ih (ch.drop k) (by rw [List.length_drop]; omega), List.take_append_drop]

theorem chop_sizes (k fuel : Nat) (hk : 0 < k) (ch : Bytes) :
    ∀ p ∈ chop k fuel ch, 0 < p.length ∧ p.length ≤ k := by
  induction fuel generalizing ch with
  | zero => simp [chop]
  | succ f ih =>
    unfold chop
    by_cases he : ch.isEmpty = true
    · simp [he]
    · have hne : ch ≠ [] := by simpa using he
      have hpos : 0 < ch.length := List.length_pos_iff.mpr hne
      simp only [he]
      by_cases hs : ch.length ≤ k ∨ k = 0
      · simp only [hs, ↓reduceIte, Bool.false_eq_true, List.mem_singleton]
        rintro p rfl
        omega
      · simp only [hs, ↓reduceIte, Bool.false_eq_true, List.mem_cons]
        rintro p (rfl | hp)
        · rw [List.length_take]; omega
        · exact ih _ p hp

theorem connPump_flatten (k : Nat) (cs : Reader) : (connPump k cs).flatten = cs.flatten := by
  induction cs with
  | nil => simp [connPump]
  | cons ch rest ih =>
    simp only [connPump, List.flatten_append, List.flatten_cons, ih]
    rw [chop_flatten k _ ch (by omega)]

theorem connPump_sizes (k : Nat) (hk : 0 < k) (cs : Reader) :
    ∀ p ∈ connPump k cs, 0 < p.length ∧ p.length ≤ k := by
  induction cs with
  | nil => simp [connPump]
  | cons ch rest ih =>
    simp only [connPump, List.mem_append]
    rintro p (hp | hp)
    · exact chop_sizes k _ hk ch p hp
    · exact ih p hp

/-- Re-inserting what each read discarded gives a prefix of the queued bytes; a read discards
bytes iff it reported a short buffer. -/
theorem connReads_loss (q : List Bytes) (bufs : List Nat) :
    ∃ dropped : List Bytes,
      dropped.length = (connReads q bufs).length ∧
      (List.zipWith (fun r d => r.1 ++ d) (connReads q bufs) dropped).flatten <+: q.flatten ∧
      (∀ i (h : i < (connReads q bufs).length) (h' : i < dropped.length),
        (dropped[i] ≠ [] ↔ ((connReads q bufs)[i]).2 = true)) := by
  induction q generalizing bufs with
  | nil => exact ⟨[], by simp [connReads]⟩
  | cons p q ih =>
    cases bufs with
    | nil => exact ⟨[], by simp [connReads]⟩
    | cons b bs =>
      obtain ⟨d, hd1, hd2, hd3⟩ := ih bs
      refine ⟨p.drop b :: d, ?_, ?_, ?_⟩
      · simp [connReads, hd1]
      · simp only [connReads, List.zipWith_cons_cons, List.flatten_cons, List.take_append_drop]
        exact (List.prefix_append_right_inj p).mpr hd2
      · intro i h h'
        cases i with
        | zero =>
          simp only [connReads, List.getElem_cons_zero, decide_eq_true_eq]
          rw [Ne, List.drop_eq_nil_iff]
          omega
        | succ i =>
          simp only [connReads, List.getElem_cons_succ]
          exact hd3 i (by simpa [connReads] using h) (by simpa using h')

/-- With read buffers at least as large as every queued piece, each read returns one whole
piece and never reports a short buffer. -/
theorem connReads_big (k : Nat) (q : List Bytes) (bufs : List Nat)
    (hq : ∀ p ∈ q, p.length ≤ k) (hb : ∀ b ∈ bufs, k ≤ b) :
    connReads q bufs = (q.take bufs.length).map (fun p => (p, false)) := by
  induction q generalizing bufs with
  | nil => simp [connReads]
  | cons p q ih =>
    cases bufs with
    | nil => simp [connReads]
    | cons b bs =>
      have h1 : p.length ≤ b := Nat.le_trans (hq p (by simp)) (hb b (by simp))
      simp only [connReads, List.length_cons, List.take_succ_cons, List.map_cons]
      rw [ih bs (fun p' hp' => hq p' (by simp [hp'])) (fun b' hb' => hb b' (by simp [hb'])),
        List.take_of_length_le h1]
      simp; omega

theorem connReads_big_fst (k : Nat) (q : List Bytes) (bufs : List Nat)
    (hq : ∀ p ∈ q, p.length ≤ k) (hb : ∀ b ∈ bufs, k ≤ b) :
    (connReads q bufs).map (·.1) = q.take bufs.length := by
  rw [connReads_big k q bufs hq hb, List.map_map]
  exact List.map_id _

end Packets
end Bifrost
