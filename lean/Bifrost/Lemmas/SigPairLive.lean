import Bifrost.Lemmas.SigPairQueue
import Bifrost.Lemmas.Temporal
/-!
C23 liveness on the stable-pair machine, phases 1 and 2: along every fair infinite execution of
`SigPair.stepO` that starts in a state satisfying the pair invariant,
* the relay eventually announces the current epoch to side x (`ev_ann`),
* every `Opened`/`Closed` announcement still in flight is eventually consumed (`ev_flush`),
hence side x is eventually — and from then on always — synchronised (`ev_sync`, `SyncH`).
No bound on the number of steps: both are instances of `Temporal.wf_measure`.
-/
namespace Bifrost
namespace SigPair
open Bifrost.SigSys Bifrost.SigPairCli Bifrost.Temporal
set_option linter.unusedSimpArgs false

abbrev PEv := Option (Bool × Act)

/-- fairness: every internal action of either side is scheduled infinitely often — except
starting new `Send` calls (the application's choice), and iterations of `Send` calls other than
those in `S` (`S side id`: the calls that matter, e.g. those pending at the start of the suffix) -/
def PFair (acts : Nat → PEv) (S : Bool → Nat → Prop) : Prop :=
  ∀ (sd : Bool) (a : Act), (∀ m, a ≠ .sendStart m) → (∀ id, a = .sendStep id → S sd id) →
    InfOften acts (some (sd, a))

@[simp] theorem stepO_ep (p : PState) (o : PEv) : (stepO p o).ep = p.ep := by
  cases o <;> simp [stepO]

theorem pinv_stepO {p : PState} (h : PInv p) (o : PEv) : PInv (stepO p o) := by
  cases o with
  | none => exact h
  | some sa => exact pinv_step h sa

theorem always_pinv {ρ : Nat → PState} {acts : Nat → PEv} (hex : IsExec stepO ρ acts) {N : Nat}
    (h0 : PInv (ρ N)) : Always ρ N PInv :=
  always_of_step (ok := fun _ => True) hex h0 (fun _ _ => trivial) (fun _ o h _ => pinv_stepO h o)

theorem qeffO (p : PState) (o : PEv) : QEff p.x (stepO p o).x p.ep := by
  cases o with
  | none => exact QEff.same rfl rfl rfl
  | some sa => exact qeff p sa.1 sa.2

/-! ### phase 1: the current epoch is announced -/

def Announced (s : PState) : Prop := s.x.ann = some s.ep

theorem announced_stable {p : PState} (h : Announced p) (o : PEv) : Announced (stepO p o) := by
  unfold Announced at *
  rw [stepO_ep]
  cases qeffO p o with
  | same _ _ a => rw [a]; exact h
  | tx r _ _ a => rw [a]; exact h
  | rx r _ _ a => rw [a]; exact h
  | loop _ _ _ a => exact a

theorem ev_ann {ρ : Nat → PState} {acts : Nat → PEv} (hex : IsExec stepO ρ acts) {N : Nat}
    {S : Bool → Nat → Prop}
    (hinv : Always ρ N PInv) (hfair : PFair acts S) : ∀ n, N ≤ n → Eventually ρ n Announced := by
  refine wf_measure (ev := acts) (r := fun a b : Nat => a < b) Nat.lt_wfRel.wf hinv
    (μ := fun s => s.x.box.length)
    (hlp := fun k => if k = 0 then some (true, Act.srvLoop) else some (true, Act.srvTx)) ?_ ?_ ?_
  · intro n _ _
    split
    · exact hfair true .srvLoop (by simp) (by simp) n
    · exact hfair true .srvTx (by simp) (by simp) n
  · intro n _ hI hg
    rw [hex n]
    cases qeffO (ρ n) (acts n) with
    | same _ b _ => exact Or.inr (Or.inl (by simp only [b]))
    | tx r b _ _ => exact Or.inr (Or.inr (by simp only [b, List.length_cons]; omega))
    | rx r _ b _ => exact Or.inr (Or.inl (by simp only [b]))
    | loop _ _ _ a => exact Or.inl (by unfold Announced; rw [stepO_ep]; exact a)
  · intro n _ hI hg hev
    rw [hex n, hev]
    cases hb : (ρ n).x.box with
    | nil =>
      simp only [List.length_nil, if_true, stepO]
      left
      have hen : (ρ n).x.box = [] ∧ (ρ n).x.wait < (ρ n).gen := by
        refine ⟨hb, ?_⟩
        rcases Nat.lt_or_ge (ρ n).x.wait (ρ n).gen with h | h
        · exact h
        · exact absurd (hI.hx.wake.2 h).1 hg
      unfold Announced
      simp only [step, if_true, stepX_srvLoop_en hen]
    | cons r rest =>
      simp only [List.length_cons, Nat.add_one_ne_zero, if_false, stepO]
      right
      simp only [step, if_true, stepX_srvTx_cons hb]
      omega

/-! ### phase 2: stale announcements are flushed -/

def Flushed (s : PState) : Prop := noAnn (s.x.dn ++ s.x.box)

/-- the measure of phase 2 -/
def flushM (s : PState) : Nat := 2 * lastAnn (s.x.dn ++ s.x.box) + (if s.x.dn = [] then 1 else 0)

theorem ev_flush {ρ : Nat → PState} {acts : Nat → PEv} (hex : IsExec stepO ρ acts) {N : Nat}
    {S : Bool → Nat → Prop}
    (hann : Always ρ N Announced) (hfair : PFair acts S) : ∀ n, N ≤ n → Eventually ρ n Flushed := by
  refine wf_measure (ev := acts) (r := fun a b : Nat => a < b) Nat.lt_wfRel.wf hann
    (μ := flushM)
    (hlp := fun k => if k % 2 = 1 then some (true, Act.srvTx) else some (true, Act.rx)) ?_ ?_ ?_
  · intro n _ _
    split
    · exact hfair true .srvTx (by simp) (by simp) n
    · exact hfair true .rx (by simp) (by simp) n
  · intro n _ hI hg
    have hpos : 0 < lastAnn ((ρ n).x.dn ++ (ρ n).x.box) := by
      rcases Nat.eq_zero_or_pos (lastAnn ((ρ n).x.dn ++ (ρ n).x.box)) with h | h
      · exact absurd (lastAnn_eq_zero.1 h) hg
      · exact h
    rw [hex n]
    right
    unfold flushM
    cases qeffO (ρ n) (acts n) with
    | same a b _ => left; simp only [a, b]
    | tx r b a _ =>
      have : (stepO (ρ n) (acts n)).x.dn ++ (stepO (ρ n) (acts n)).x.box = (ρ n).x.dn ++ (ρ n).x.box := by
        rw [a, b]; simp
      rw [this, a]
      by_cases hd : (ρ n).x.dn = []
      · right; simp [hd]
      · left; simp [hd]
    | rx r a b _ =>
      have : (ρ n).x.dn ++ (ρ n).x.box = r :: ((stepO (ρ n) (acts n)).x.dn ++ (stepO (ρ n) (acts n)).x.box) := by
        rw [a, b]; simp
      rw [this] at hpos ⊢
      have := lastAnn_tail hpos
      right
      simp only [a]
      split <;> simp <;> omega
    | loop a b c d =>
      have hq : noAnn (stepO (ρ n) (acts n)).x.box := by
        rw [b, hI]; exact noAnn_loopOut _ _
      left
      rw [lastAnn_append_noAnn hq, c, a, List.append_nil]
  · intro n _ hI hg hev
    have hpos : 0 < lastAnn ((ρ n).x.dn ++ (ρ n).x.box) := by
      rcases Nat.eq_zero_or_pos (lastAnn ((ρ n).x.dn ++ (ρ n).x.box)) with h | h
      · exact absurd (lastAnn_eq_zero.1 h) hg
      · exact h
    rw [hex n, hev]
    right
    cases hd : (ρ n).x.dn with
    | nil =>
      have hm : flushM (ρ n) % 2 = 1 := by simp [flushM, hd]
      simp only [hm, if_true, stepO]
      cases hb : (ρ n).x.box with
      | nil => simp [hd, hb, lastAnn] at hpos
      | cons r rest =>
        simp only [step, if_true, stepX_srvTx_cons hb]
        simp [flushM, hd, hb]
    | cons r rest =>
      have hm : ¬ flushM (ρ n) % 2 = 1 := by simp [flushM, hd]
      simp only [hm, if_false, stepO]
      simp only [step, if_true, stepX_rx_cons hd]
      rw [hd] at hpos
      have := lastAnn_tail (r := r) (l := rest ++ (ρ n).x.box) (by simpa using hpos)
      simp only [flushM, hd, List.cons_append]
      split <;> simp <;> omega

end SigPair
end Bifrost
