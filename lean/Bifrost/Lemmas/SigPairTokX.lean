import Bifrost.Lemmas.SigPairTokY
/-!
C23 liveness, stable-pair machine: how the location `Tk` of side x's in-flight message moves
under the actions of side x itself (the sender), and the two assembled statements
`tk_step` (no action of either side moves the message backwards) used for the token invariant
and for the monotonicity of the liveness measure.
-/
namespace Bifrost
namespace SigPair
open Bifrost.SigSys Bifrost.SigPairCli
set_option linter.unusedSimpArgs false

/-- x's tracker steps that only touch the tracker state -/
theorem tk_x_cl {p : PState} {m : SigC.Msg} {st : Stage} {j : Nat} (cl' : SigC.State) (ht : Tk p m st j) :
    Tk { p with x := { p.x with cl := cl' } } m st j := by
  cases st <;> simp only [Tk, FwdG, AckG] at ht ⊢ <;> exact ht

theorem txLoop_sent {s : SigC.State} {m : SigC.Msg} (h1 : s.out = some m) (h2 : s.outSent = true)
    (h3 : s.outCancel = false) : onlyAckQ (SigC.txLoop s).2.toList := by
  unfold SigC.txLoop
  cases s.open_ with
  | none => simpa using onlyAckQ_nil
  | some e =>
    simp only [h1, h2, h3]
    cases s.recv with
    | none => simpa using onlyAckQ_nil
    | some r =>
      cases s.recvProcessed with
      | false => simpa using onlyAckQ_nil
      | true => simpa using onlyAckQ_cons.2 ⟨⟨e, r.seqno, rfl⟩, onlyAckQ_nil⟩

/-- x's tracker: one iteration of its main loop while its message is in flight -/
theorem tk_x_tx {p : PState} {m : SigC.Msg} {st : Stage} {j : Nat} (hs : Sent p m) (ht : Tk p m st j) :
    ∃ st' j', Tk (step p (true, .tx)) m st' j' ∧ LexLe (st'.num, j') (st.num, j) := by
  obtain ⟨x, y, gen, ep⟩ := p
  have hstep : step ⟨x, y, gen, ep⟩ (true, .tx) =
      ⟨{ x with cl := (SigC.txLoop x.cl).1, up := x.up ++ (SigC.txLoop x.cl).2.toList }, y, gen, ep⟩ := by
    simp [step, stepX]
  rw [hstep]
  have hq := txLoop_sent hs.1 hs.2.1 hs.2.2.2
  have hqa : ∀ {l}, onlyAckQ l → onlyAckQ (l ++ (SigC.txLoop x.cl).2.toList) := fun h => onlyAckQ_append.2 ⟨h, hq⟩
  cases st <;> simp only [Tk, FwdG, AckG] at ht
  case sndUp =>
    obtain ⟨post, hat, hp⟩ := ht
    refine same_stage (st := .sndUp) ?_ _ _ rfl rfl
    simp only [Tk]
    exact ⟨_, hat.append_right _, hqa hp⟩
  case relE => exact same_stage (st := .relE) (by simp only [Tk]; exact ⟨ht.1, hqa ht.2.1, ht.2.2⟩) _ _ rfl rfl
  case relB => exact same_stage (st := .relB) (by simp only [Tk]; exact ⟨ht.1, hqa ht.2.1, ht.2.2⟩) _ _ rfl rfl
  case rcvBox =>
    obtain ⟨⟨g1, g2, g3, g4, g5⟩, h2⟩ := ht
    exact same_stage (st := .rcvBox) (by simp only [Tk, FwdG]; exact ⟨⟨g1, g2, g3, g4, hqa g5⟩, h2⟩) _ _ rfl rfl
  case rcvDn =>
    obtain ⟨⟨g1, g2, g3, g4, g5⟩, h2⟩ := ht
    exact same_stage (st := .rcvDn) (by simp only [Tk, FwdG]; exact ⟨⟨g1, g2, g3, g4, hqa g5⟩, h2⟩) _ _ rfl rfl
  case rcvU =>
    obtain ⟨⟨g1, g2, g3, g4, g5⟩, h2⟩ := ht
    exact same_stage (st := .rcvU) (by simp only [Tk, FwdG]; exact ⟨⟨g1, g2, g3, g4, hqa g5⟩, h2⟩) _ _ rfl rfl
  case rcvP =>
    obtain ⟨⟨g1, g2, g3, g4, g5⟩, h2⟩ := ht
    exact same_stage (st := .rcvP) (by simp only [Tk, FwdG]; exact ⟨⟨g1, g2, g3, g4, hqa g5⟩, h2⟩) _ _ rfl rfl
  case ackUp =>
    obtain ⟨g1, g2, g3, g4⟩ := ht
    exact same_stage (st := .ackUp) (by simp only [Tk]; exact ⟨g1, g2, hqa g3, g4⟩) _ _ rfl rfl
  case ackAttE =>
    obtain ⟨⟨g1, g2, g3⟩, g4⟩ := ht
    exact same_stage (st := .ackAttE) (by simp only [Tk, AckG]; exact ⟨⟨g1, hqa g2, g3⟩, g4⟩) _ _ rfl rfl
  case ackAttB =>
    obtain ⟨⟨g1, g2, g3⟩, g4⟩ := ht
    exact same_stage (st := .ackAttB) (by simp only [Tk, AckG]; exact ⟨⟨g1, hqa g2, g3⟩, g4⟩) _ _ rfl rfl
  all_goals first
    | exact same_stage (by simp only [Tk, FwdG, AckG]; exact ht) _ _ rfl rfl
    | exact ht.elim

/-- x's tracker processes the next response; the message stays in flight (`hs'`) -/
theorem tk_x_rx {p : PState} {m : SigC.Msg} {st : Stage} {j : Nat} (hs : Sent p m)
    (hs' : Sent (step p (true, .rx)) m) (ht : Tk p m st j) :
    ∃ st' j', Tk (step p (true, .rx)) m st' j' ∧ LexLe (st'.num, j') (st.num, j) := by
  obtain ⟨x, y, gen, ep⟩ := p
  cases hb : x.dn with
  | nil =>
    have : step ⟨x, y, gen, ep⟩ (true, .rx) = ⟨x, y, gen, ep⟩ := by simp [step, stepX, hb]
    rw [this]; exact ⟨st, j, ht, LexLe.refl _⟩
  | cons r rest =>
    have hstep : step ⟨x, y, gen, ep⟩ (true, .rx) = ⟨{ x with cl := rxEv r x.cl, dn := rest }, y, gen, ep⟩ := by
      simp [step, stepX, hb]
    rw [hstep] at hs' ⊢
    cases st <;> simp only [Tk, FwdG, AckG, hb] at ht
    case ackDn =>
      obtain ⟨post, hat⟩ := ht
      cases j with
      | zero =>
        obtain ⟨rfl, rfl⟩ := hat.head
        exfalso
        have h3 := hs'.2.2.1
        obtain ⟨h1, _, _, h4⟩ := hs
        simp only at h1 h4
        simp [rxEv, SigC.step, SigC.ackMsg, h1, h4] at h3
      | succ j =>
        refine to_stage .ackDn j ?_ (Or.inr ⟨rfl, Nat.le_succ _⟩)
        simp only [Tk]
        exact ⟨post, hat.tail⟩
    all_goals first
      | exact same_stage (by simp only [Tk, FwdG, AckG]; exact ht) _ _ rfl rfl
      | exact ht.elim


/-- shape of the state after the relay's reader of x's call processed request `r` -/
theorem x_srvRx_shape {x y : Half} {gen ep : Nat} {r : SigC.Req} {rest : List SigC.Req}
    (hrd : x.rd = false) (hup : x.up = r :: rest) :
    ∃ ax ay rd gen', step ⟨x, y, gen, ep⟩ (true, .srvRx) =
        ⟨{ x with up := rest, att := ax, rd := rd }, { y with att := ay }, gen', ep⟩ ∧
      ax.outAcked = x.att.outAcked ∧
      ((∃ e k, r = .ack e k) → ay.recv = y.att.recv ∧ ay.recvSent = y.att.recvSent ∧ ay.recvClear = y.att.recvClear) ∧
      (∀ m', r = .send ep m' → ay.recv = some (toSrvMsg m')) := by
  have hstep : step ⟨x, y, gen, ep⟩ (true, .srvRx) = relayReq ⟨{ x with up := rest }, y, gen, ep⟩ r := by
    simp [step, stepX, hrd, hup]
  rw [hstep]
  cases r with
  | send e m' =>
    simp only [relayReq]
    split
    · rename_i hlt
      exact ⟨x.att, y.att, true, gen, rfl, rfl, by simp, by intro m' h; cases h; omega⟩
    · split
      · rename_i hne
        exact ⟨x.att, y.att, x.rd, gen, rfl, rfl, by simp, by intro m' h; cases h; exact absurd rfl hne⟩
      · exact ⟨x.att, { y.att with recv := some (toSrvMsg m'), recvSent := none }, x.rd, gen + 1, rfl, rfl, by simp,
          by intro m'' h; cases h; rfl⟩
  | clear e k =>
    simp only [relayReq]
    split
    · exact ⟨x.att, y.att, true, gen, rfl, rfl, by simp, by simp⟩
    · split
      · exact ⟨x.att, y.att, x.rd, gen, rfl, rfl, by simp, by simp⟩
      · split
        · exact ⟨x.att, { y.att with recv := none }, x.rd, gen, rfl, rfl, by simp, by simp⟩
        · split
          · exact ⟨x.att, { y.att with recvSent := none, recvClear := some k }, x.rd, gen, rfl, rfl, by simp, by simp⟩
          · exact ⟨x.att, y.att, x.rd, gen, rfl, rfl, by simp, by simp⟩
  | ack e k =>
    simp only [relayReq]
    split
    · exact ⟨x.att, y.att, true, gen, rfl, rfl, fun _ => ⟨rfl, rfl, rfl⟩, by simp⟩
    · split
      · exact ⟨x.att, y.att, x.rd, gen, rfl, rfl, fun _ => ⟨rfl, rfl, rfl⟩, by simp⟩
      · split
        · exact ⟨{ x.att with recvSent := none }, { y.att with outAcked := some k }, x.rd, gen + 1, rfl, rfl,
            fun _ => ⟨rfl, rfl, rfl⟩, by simp⟩
        · exact ⟨x.att, y.att, x.rd, gen, rfl, rfl, fun _ => ⟨rfl, rfl, rfl⟩, by simp⟩

/-- the relay's reader of x's call processes the next request -/
theorem tk_x_srvRx {p : PState} {m : SigC.Msg} {st : Stage} {j : Nat} (ht : Tk p m st j) :
    ∃ st' j', Tk (step p (true, .srvRx)) m st' j' ∧ LexLe (st'.num, j') (st.num, j) := by
  obtain ⟨x, y, gen, ep⟩ := p
  by_cases hrd : x.rd = true
  · have : step ⟨x, y, gen, ep⟩ (true, .srvRx) = ⟨x, y, gen, ep⟩ := by simp [step, stepX, hrd]
    rw [this]; exact ⟨st, j, ht, LexLe.refl _⟩
  cases hb : x.up with
  | nil =>
    have : step ⟨x, y, gen, ep⟩ (true, .srvRx) = ⟨x, y, gen, ep⟩ := by simp [step, stepX, hb]
    rw [this]; exact ⟨st, j, ht, LexLe.refl _⟩
  | cons r rest =>
    obtain ⟨ax, ay, rd, gen', hstep, hax, hack, hsend⟩ :=
      x_srvRx_shape (x := x) (y := y) (gen := gen) (ep := ep) (by simpa using hrd) hb
    rw [hstep]
    cases st <;> simp only [Tk, FwdG, AckG, hb] at ht
    case sndUp =>
      obtain ⟨post, hat, hp⟩ := ht
      cases j with
      | zero =>
        obtain ⟨rfl, rfl⟩ := hat.head
        have hr := hsend m rfl
        by_cases hbx : y.box = []
        · refine to_stage .relE 0 ?_ (Or.inl (show Stage.relE.num < Stage.sndUp.num by decide))
          simp only [Tk]; exact ⟨hr, hp, hbx⟩
        · refine to_stage .relB y.box.length ?_ (Or.inl (show Stage.relB.num < Stage.sndUp.num by decide))
          simp only [Tk]; exact ⟨hr, hp, hbx, trivial⟩
      | succ j =>
        refine to_stage .sndUp j ?_ (Or.inr ⟨rfl, Nat.le_succ _⟩)
        simp only [Tk]; exact ⟨post, hat.tail, hp⟩
    case relE =>
      obtain ⟨g1, g2, g3⟩ := ht
      obtain ⟨hq1, hq2⟩ := onlyAckQ_cons.1 g2
      obtain ⟨e1, e2, e3⟩ := hack hq1
      exact same_stage (st := .relE) (by simp only [Tk, e1]; exact ⟨g1, hq2, g3⟩) _ _ rfl rfl
    case relB =>
      obtain ⟨g1, g2, g3⟩ := ht
      obtain ⟨hq1, hq2⟩ := onlyAckQ_cons.1 g2
      obtain ⟨e1, e2, e3⟩ := hack hq1
      exact same_stage (st := .relB) (by simp only [Tk, e1]; exact ⟨g1, hq2, g3⟩) _ _ rfl rfl
    case rcvBox =>
      obtain ⟨⟨g1, g2, g3, g4, g5⟩, h2⟩ := ht
      obtain ⟨hq1, hq2⟩ := onlyAckQ_cons.1 g5
      obtain ⟨e1, e2, e3⟩ := hack hq1
      exact same_stage (st := .rcvBox) (by simp only [Tk, FwdG, e1, e2, e3]; exact ⟨⟨g1, g2, g3, g4, hq2⟩, h2⟩) _ _ rfl rfl
    case rcvDn =>
      obtain ⟨⟨g1, g2, g3, g4, g5⟩, h2⟩ := ht
      obtain ⟨hq1, hq2⟩ := onlyAckQ_cons.1 g5
      obtain ⟨e1, e2, e3⟩ := hack hq1
      exact same_stage (st := .rcvDn) (by simp only [Tk, FwdG, e1, e2, e3]; exact ⟨⟨g1, g2, g3, g4, hq2⟩, h2⟩) _ _ rfl rfl
    case rcvU =>
      obtain ⟨⟨g1, g2, g3, g4, g5⟩, h2⟩ := ht
      obtain ⟨hq1, hq2⟩ := onlyAckQ_cons.1 g5
      obtain ⟨e1, e2, e3⟩ := hack hq1
      exact same_stage (st := .rcvU) (by simp only [Tk, FwdG, e1, e2, e3]; exact ⟨⟨g1, g2, g3, g4, hq2⟩, h2⟩) _ _ rfl rfl
    case rcvP =>
      obtain ⟨⟨g1, g2, g3, g4, g5⟩, h2⟩ := ht
      obtain ⟨hq1, hq2⟩ := onlyAckQ_cons.1 g5
      obtain ⟨e1, e2, e3⟩ := hack hq1
      exact same_stage (st := .rcvP) (by simp only [Tk, FwdG, e1, e2, e3]; exact ⟨⟨g1, g2, g3, g4, hq2⟩, h2⟩) _ _ rfl rfl
    case ackUp =>
      obtain ⟨g1, g2, g3, g4⟩ := ht
      obtain ⟨hq1, hq2⟩ := onlyAckQ_cons.1 g3
      obtain ⟨e1, e2, e3⟩ := hack hq1
      exact same_stage (st := .ackUp) (by simp only [Tk, e1, e2]; exact ⟨g1, g2, hq2, g4⟩) _ _ rfl rfl
    case ackAttE =>
      obtain ⟨⟨g1, g2, g3, g4⟩, g5⟩ := ht
      obtain ⟨hq1, hq2⟩ := onlyAckQ_cons.1 g2
      obtain ⟨e1, e2, e3⟩ := hack hq1
      exact same_stage (st := .ackAttE) (by simp only [Tk, AckG, e1, e2, hax]; exact ⟨⟨g1, hq2, g3, g4⟩, g5⟩) _ _ rfl rfl
    case ackAttB =>
      obtain ⟨⟨g1, g2, g3, g4⟩, g5⟩ := ht
      obtain ⟨hq1, hq2⟩ := onlyAckQ_cons.1 g2
      obtain ⟨e1, e2, e3⟩ := hack hq1
      exact same_stage (st := .ackAttB) (by simp only [Tk, AckG, e1, e2, hax]; exact ⟨⟨g1, hq2, g3, g4⟩, g5⟩) _ _ rfl rfl
    all_goals first
      | exact same_stage (by simp only [Tk, FwdG, AckG]; exact ht) _ _ rfl rfl
      | exact ht.elim

theorem At_loopOut_ack (ann : Option Nat) (ep : Nat) (o : Sig.Att) (k : Nat) (h : o.outAcked = some k) :
    ∃ j post, At (loopOut ann ep o) (Sig.Resp.ack k) j post := by
  unfold loopOut
  rw [h]
  refine ⟨(if ann ≠ some ep then [Sig.Resp.opened ep] else []).length,
    ((match o.recvClear with | some k => [Sig.Resp.clear k] | none => []) ++
      (match o.recv with | some m => [Sig.Resp.recv m] | none => [])),
    (if ann ≠ some ep then [Sig.Resp.opened ep] else []), ?_, rfl⟩
  simp only [List.append_assoc, List.singleton_append, List.cons_append, List.nil_append]
  rfl

/-- one iteration of the write loop of x's relay call -/
theorem tk_x_srvLoop {p : PState} {m : SigC.Msg} {st : Stage} {j : Nat} (ht : Tk p m st j) :
    ∃ st' j', Tk (step p (true, .srvLoop)) m st' j' ∧ LexLe (st'.num, j') (st.num, j) := by
  obtain ⟨x, y, gen, ep⟩ := p
  by_cases hen : x.box = [] ∧ x.wait < gen
  · have hstep : step ⟨x, y, gen, ep⟩ (true, .srvLoop) =
        ⟨{ x with att := loopAtt x.att, wait := gen, ann := some ep, box := loopOut x.ann ep x.att }, y,
          if x.att.recv.isSome then gen + 1 else gen, ep⟩ := by
      simp only [step, stepX]
      simp only [hen, and_self, if_true, List.nil_append]
    rw [hstep]
    cases st <;> simp only [Tk, FwdG, AckG, hen.1] at ht
    case ackAttE =>
      obtain ⟨⟨g1, _⟩, _⟩ := ht
      obtain ⟨j', post, hj'⟩ := At_loopOut_ack x.ann ep x.att _ g1
      refine to_stage .ackBox j' ?_ (Or.inl (show Stage.ackBox.num < Stage.ackAttE.num by decide))
      simp only [Tk]
      exact ⟨post, hj'⟩
    case ackAttB => exact absurd rfl ht.2.1
    case ackBox =>
      obtain ⟨post, hat⟩ := ht
      exact absurd rfl hat.ne_nil
    all_goals first
      | exact same_stage (by simp only [Tk, FwdG, AckG]; exact ht) _ _ rfl rfl
      | exact ht.elim
  · have : step ⟨x, y, gen, ep⟩ (true, .srvLoop) = ⟨x, y, gen, ep⟩ := by
      simp only [step, stepX]
      simp [hen]
    rw [this]; exact ⟨st, j, ht, LexLe.refl _⟩

/-- x's relay call transmits the next response of its outbox -/
theorem tk_x_srvTx {p : PState} {m : SigC.Msg} {st : Stage} {j : Nat} (ht : Tk p m st j) :
    ∃ st' j', Tk (step p (true, .srvTx)) m st' j' ∧ LexLe (st'.num, j') (st.num, j) := by
  obtain ⟨x, y, gen, ep⟩ := p
  cases hb : x.box with
  | nil =>
    have : step ⟨x, y, gen, ep⟩ (true, .srvTx) = ⟨x, y, gen, ep⟩ := by simp [step, stepX, hb]
    rw [this]; exact ⟨st, j, ht, LexLe.refl _⟩
  | cons r rest =>
    have hstep : step ⟨x, y, gen, ep⟩ (true, .srvTx) = ⟨{ x with box := rest, dn := x.dn ++ [r] }, y, gen, ep⟩ := by
      simp [step, stepX, hb]
    rw [hstep]
    cases st <;> simp only [Tk, FwdG, AckG, hb] at ht
    case ackDn =>
      obtain ⟨post, hat⟩ := ht
      exact same_stage (st := .ackDn) (by simp only [Tk]; exact ⟨_, hat.append_right _⟩) _ _ rfl rfl
    case ackBox =>
      obtain ⟨post, hat⟩ := ht
      cases j with
      | zero =>
        obtain ⟨rfl, rfl⟩ := hat.head
        refine to_stage .ackDn x.dn.length ?_ (Or.inl (show Stage.ackDn.num < Stage.ackBox.num by decide))
        simp only [Tk]
        exact ⟨[], At.snoc _ _⟩
      | succ j =>
        refine to_stage .ackBox j ?_ (Or.inr ⟨rfl, Nat.le_succ _⟩)
        simp only [Tk]
        exact ⟨post, hat.tail⟩
    case ackAttE => simp at ht
    case ackAttB =>
      obtain ⟨g1, _, g3⟩ := ht
      subst g3
      cases rest with
      | nil =>
        refine to_stage .ackAttE 0 ?_ (Or.inl (show Stage.ackAttE.num < Stage.ackAttB.num by decide))
        simp only [Tk, AckG]; exact ⟨g1, trivial⟩
      | cons r' rest' =>
        refine to_stage .ackAttB (r' :: rest').length ?_ (Or.inr ⟨rfl, by simp⟩)
        simp only [Tk, AckG]; exact ⟨g1, by simp, trivial⟩
    all_goals first
      | exact same_stage (by simp only [Tk, FwdG, AckG]; exact ht) _ _ rfl rfl
      | exact ht.elim

end SigPair
end Bifrost
