import Bifrost.Lemmas.SolicitSysBase
/-! Inductive invariants of the two-sided solicitation model, part B: matched hashes and opened streams. -/
namespace Bifrost.SolicitSys
open Bifrost Bifrost.Solicit

/-- hashes of the streams opened by side `x` -/
def opened (st : State) (x : Side) : List Bytes := (st.streams.filter (fun s => s.opener = x)).map (·.hash)

@[simp] theorem opened_setNode (st : State) (x y : Side) (n : Node) : opened (st.setNode x n) y = opened st y := by
  simp [opened]

theorem opened_pushStream_self (st : State) (x : Side) (h : Bytes) :
    opened (st.pushStream ⟨h, x⟩) x = opened st x ++ [h] := by
  simp [opened, List.filter_append]

theorem opened_pushStream_other (st : State) (x : Side) (h : Bytes) :
    opened (st.pushStream ⟨h, x⟩) x.other = opened st x.other := by
  simp [opened, List.filter_append]

structure InvB (c : Cfg) (st : State) : Prop where
  higherNoOpen : ∀ x, c.isLower x = false → (st.node x).pendingOpen = []
  openerLower : ∀ sr ∈ st.streams, c.isLower sr.opener = true
  openNodup : ∀ x, ((st.node x).pendingOpen ++ opened st x).Nodup
  openMatched : ∀ x h, h ∈ (st.node x).pendingOpen ∨ h ∈ opened st x → h ∈ (st.node x).matched
  matchedOpen : ∀ x, c.isLower x = true → ∀ h ∈ (st.node x).matched, h ∈ (st.node x).pendingOpen ∨ h ∈ opened st x

/-- what `evaluate` does to the bookkeeping of opened streams -/
theorem evaluate_invB (lo : Bool) (n : Node) (op : List Bytes)
    (h1 : lo = false → n.pendingOpen = [])
    (h3 : (n.pendingOpen ++ op).Nodup)
    (h4 : ∀ h, h ∈ n.pendingOpen ∨ h ∈ op → h ∈ n.matched)
    (h5 : lo = true → ∀ h ∈ n.matched, h ∈ n.pendingOpen ∨ h ∈ op) :
    (lo = false → (evaluate lo n).pendingOpen = []) ∧
    ((evaluate lo n).pendingOpen ++ op).Nodup ∧
    (∀ h, h ∈ (evaluate lo n).pendingOpen ∨ h ∈ op → h ∈ (evaluate lo n).matched) ∧
    (lo = true → ∀ h ∈ (evaluate lo n).matched, h ∈ (evaluate lo n).pendingOpen ∨ h ∈ op) := by
  have hf := mem_fresh (findMatching n.sent n.remote) n.matched
  have hn := fresh_nodup (findMatching n.sent n.remote) n.matched
  cases lo with
  | false =>
    simp only [evaluate_pending, evaluate_matched]
    refine ⟨fun _ => h1 rfl, h3, ?_, ?_⟩
    · intro h hh; simp; exact Or.inl (h4 h hh)
    · exact fun h => Bool.noConfusion h
  | true =>
    simp only [evaluate_pending, evaluate_matched]
    refine ⟨fun h => Bool.noConfusion h, ?_, ?_, ?_⟩
    · simp only [if_true]
      rw [List.append_assoc, List.nodup_append] at *
      grind [List.nodup_append]
    · grind
    · grind

theorem invB_step (H : Bytes → Bytes) (c : Cfg) (st : State) (o : Op) (h : InvB c st) : InvB c (step H c st o) := by
  obtain ⟨h1, h2, h3, h4, h5⟩ := h
  cases o with
  | add x d =>
    constructor <;> (try intro y) <;> (try rcases eq_or_other x y with rfl | rfl) <;> simp [step] <;> grind [other_other]
  | remove x d =>
    constructor <;> (try intro y) <;> (try rcases eq_or_other x y with rfl | rfl) <;> simp [step] <;> grind [other_other]
  | sync x =>
    by_cases he : hashList H c x (st.node x) = (st.node x).sent
    · have hx : (step H c st (.sync x)).node x = evaluate (c.isLower x) (st.node x) := by simp [step, he]
      have ho : (step H c st (.sync x)).node x.other = st.node x.other := by simp [step, he]
      have hs : (step H c st (.sync x)).streams = st.streams := by simp [step, he]
      have hop : ∀ y, opened (step H c st (.sync x)) y = opened st y := by intro y; simp [opened, hs]
      obtain ⟨e1, e2, e3, e4⟩ := evaluate_invB (c.isLower x) (st.node x) (opened st x) (h1 x) (h3 x) (h4 x) (h5 x)
      constructor <;> (try intro y) <;> (try rcases eq_or_other x y with rfl | rfl) <;>
        simp only [hx, ho, hs, hop] <;> first | assumption | grind
    · have hx : (step H c st (.sync x)).node x = evaluate (c.isLower x)
          { st.node x with sent := hashList H c x (st.node x),
                           everSent := (st.node x).everSent ++ hashList H c x (st.node x) } := by
        simp [step, he]
      have ho : (step H c st (.sync x)).node x.other =
          { st.node x.other with inbox := (st.node x.other).inbox ++ [hashList H c x (st.node x)] } := by
        simp [step, he]
      have hs : (step H c st (.sync x)).streams = st.streams := by simp [step, he]
      have hop : ∀ y, opened (step H c st (.sync x)) y = opened st y := by intro y; simp [opened, hs]
      obtain ⟨e1, e2, e3, e4⟩ := evaluate_invB (c.isLower x)
        { st.node x with sent := hashList H c x (st.node x),
                         everSent := (st.node x).everSent ++ hashList H c x (st.node x) } (opened st x) (h1 x) (h3 x) (h4 x) (h5 x)
      constructor <;> (try intro y) <;> (try rcases eq_or_other x y with rfl | rfl) <;>
        simp only [hx, ho, hs, hop] <;> first | assumption | grind
  | deliver x =>
    cases hi : (st.node x).inbox with
    | nil => simp only [step, hi]; exact ⟨h1, h2, h3, h4, h5⟩
    | cons m rest =>
      have hx : (step H c st (.deliver x)).node x = evaluate (c.isLower x)
          { st.node x with inbox := rest, remote := m.take (c.max x) } := by
        simp [step, hi]
      have ho : (step H c st (.deliver x)).node x.other = st.node x.other := by
        simp [step, hi]
      have hs : (step H c st (.deliver x)).streams = st.streams := by simp [step, hi]
      have hop : ∀ y, opened (step H c st (.deliver x)) y = opened st y := by intro y; simp [opened, hs]
      obtain ⟨e1, e2, e3, e4⟩ := evaluate_invB (c.isLower x)
        { st.node x with inbox := rest, remote := m.take (c.max x) } (opened st x) (h1 x) (h3 x) (h4 x) (h5 x)
      constructor <;> (try intro y) <;> (try rcases eq_or_other x y with rfl | rfl) <;>
        simp only [hx, ho, hs, hop] <;> first | assumption | grind
  | «open» x hh =>
    by_cases hp : hh ∈ (st.node x).pendingOpen
    · have hlo : c.isLower x = true := by
        cases hl : c.isLower x with
        | true => rfl
        | false => rw [h1 x hl] at hp; cases hp
      have hx : ((step H c st (.open x hh)).node x).pendingOpen = (st.node x).pendingOpen.erase hh := by simp [step, hp]
      have hxm : ((step H c st (.open x hh)).node x).matched = (st.node x).matched := by simp [step, hp]
      have ho : ((step H c st (.open x hh)).node x.other).pendingOpen = (st.node x.other).pendingOpen := by simp [step, hp]
      have hom : ((step H c st (.open x hh)).node x.other).matched = (st.node x.other).matched := by simp [step, hp]
      have hs : (step H c st (.open x hh)).streams = st.streams ++ [⟨hh, x⟩] := by simp [step, hp]
      have hop1 : opened (step H c st (.open x hh)) x = opened st x ++ [hh] := by
        simp [step, hp, opened, List.filter_append]
      have hop2 : opened (step H c st (.open x hh)) x.other = opened st x.other := by
        simp [step, hp, opened, List.filter_append]
      have hnd := h3 x
      constructor
      · intro y; rcases eq_or_other x y with rfl | rfl
        · intro hl; rw [hl] at hlo; cases hlo
        · rw [ho]; exact h1 _
      · intro sr; rw [hs]; simp only [List.mem_append, List.mem_singleton]
        rintro (h | rfl)
        · exact h2 sr h
        · exact hlo
      · intro y; rcases eq_or_other x y with rfl | rfl
        · rw [hx, hop1]
          have hperm : ((st.node y).pendingOpen.erase hh ++ (opened st y ++ [hh])).Perm ((st.node y).pendingOpen ++ opened st y) := by
            have := List.perm_cons_erase hp
            grind [List.perm_append_comm, List.Perm.append_right, List.perm_middle]
          exact hperm.nodup_iff.mpr hnd
        · rw [ho, hop2]; exact h3 _
      · intro y; rcases eq_or_other x y with rfl | rfl
        · rw [hx, hop1, hxm]; intro h hh'; apply h4 y h
          grind [List.mem_of_mem_erase]
        · rw [ho, hop2, hom]; exact h4 _
      · intro y; rcases eq_or_other x y with rfl | rfl
        · rw [hx, hop1, hxm]; intro hl h hm
          have := h5 y hl h hm
          by_cases e : h = hh
          · subst e; simp
          · grind [List.mem_erase_of_ne]
        · rw [ho, hop2, hom]; exact h5 _
    · simp only [step, hp]
      exact ⟨h1, h2, h3, h4, h5⟩
  | arrive x s =>
    by_cases hp : s ∈ (st.node x).arriving
    · cases hs : st.streams[s]? with
      | none => simp only [step, hp, hs]; exact ⟨h1, h2, h3, h4, h5⟩
      | some sr =>
        constructor <;> (try intro y) <;> (try rcases eq_or_other x y with rfl | rfl) <;> simp [step, hp, hs] <;> grind [other_other]
    · simp only [step, hp]
      exact ⟨h1, h2, h3, h4, h5⟩

end Bifrost.SolicitSys
