import Bifrost.Lemmas.SigPairInv
/-!
C23 liveness, stable-pair machine: how the location `Tk` of side x's in-flight message moves
under the actions of side y (the receiver). Every lemma has the form
"`Tk p m st j` ⇒ after the step there is a location `(st', j')` that is lexicographically not
larger" (`LexLe` on `(Stage.num, position)`), which is at once the preservation of the token
invariant and the monotonicity of the liveness measure.
-/
namespace Bifrost
namespace SigPair
open Bifrost.SigSys Bifrost.SigPairCli
set_option linter.unusedSimpArgs false

theorem LexLe.refl (a : Nat × Nat) : LexLe a a := Or.inr ⟨rfl, Nat.le_refl _⟩

theorem At.append_right {α : Type} {l : List α} {x : α} {j : Nat} {post : List α} (h : At l x j post) (l' : List α) :
    At (l ++ l') x j (post ++ l') := by
  obtain ⟨pre, rfl, hj⟩ := h
  exact ⟨pre, by simp, hj⟩

theorem At.tail {α : Type} {r : α} {l : List α} {x : α} {j : Nat} {post : List α} (h : At (r :: l) x (j + 1) post) :
    At l x j post := by
  obtain ⟨pre, he, hj⟩ := h
  cases pre with
  | nil => simp at hj
  | cons a pre =>
    simp only [List.cons_append, List.cons.injEq] at he
    exact ⟨pre, he.2, by simpa using hj⟩

theorem At.head {α : Type} {r : α} {l : List α} {x : α} {post : List α} (h : At (r :: l) x 0 post) :
    r = x ∧ l = post := by
  obtain ⟨pre, he, hj⟩ := h
  cases pre with
  | nil => simpa using he
  | cons a pre => simp at hj

theorem At.snoc {α : Type} (l : List α) (x : α) : At (l ++ [x]) x l.length [] := ⟨l, rfl, rfl⟩

theorem At.ne_nil {α : Type} {l : List α} {x : α} {j : Nat} {post : List α} (h : At l x j post) : l ≠ [] := by
  obtain ⟨pre, rfl, _⟩ := h
  simp

theorem same_stage {p' : PState} {m : SigC.Msg} {st : Stage} {j : Nat} (h : Tk p' m st j) (st0 : Stage) (j0 : Nat)
    (he : st0 = st) (hj : j0 = j) :
    ∃ st' j', Tk p' m st' j' ∧ LexLe (st'.num, j') (st0.num, j0) := by
  subst he hj; exact ⟨_, _, h, LexLe.refl _⟩

theorem to_stage {p' : PState} {m : SigC.Msg} (st' : Stage) (j' : Nat) {st : Stage} {j : Nat} (h : Tk p' m st' j')
    (hl : LexLe (st'.num, j') (st.num, j)) :
    ∃ st' j', Tk p' m st' j' ∧ LexLe (st'.num, j') (st.num, j) := ⟨st', j', h, hl⟩


/-! ### y's own sender weight never grows (stage `rcvP`) -/

theorem wt_sendStep {s : SigC.State} (hr : SigC.Reachable s) (id : Nat) :
    wt (guarded s (.sendStep id)) ≤ wt s := by
  have hidle := idle_of_reachable hr
  obtain ⟨_, _, _, h4, _, heff⟩ := guarded_sendStep hr id
  unfold guarded
  generalize (if SigC.enabled s (.sendStep id) = true then SigC.step s (.sendStep id) else s) = s' at *
  cases heff with
  | keep a1 a2 a3 a4 a5 => simp only [wt, a1, a2, a4, h4]; exact Nat.le_refl _
  | take c a1 a2 a3 a4 a5 a6 a7 =>
    obtain ⟨f1, _, f3⟩ := hidle.free a1
    simp only [wt, a1, a3, a4, a6, h4, f1, f3]
    simp
  | done o a1 a2 a3 a4 a5 a6 a7 =>
    simp only [wt, a1, a4]
    split
    · omega
    · split <;> omega

theorem wt_ackMsg (s : SigC.State) (k : Nat) : wt (SigC.ackMsg s k) ≤ wt s := by
  unfold SigC.ackMsg
  split
  · rename_i h
    cases ho : s.out with
    | none => simp [ho] at h
    | some o =>
      split
      · rename_i hc
        simp [wt, ho, hc, pend]
      · rename_i hc
        simp [wt, ho, hc, pend]
  · exact Nat.le_refl _

theorem open_of_sync {h : Half} {gen ep : Nat} (hi : HalfInv h gen ep) (hann : h.ann = some ep)
    (h1 : onlyAckR h.dn) (h2 : onlyAckR h.box) : h.cl.open_ = some ep := by
  have := hi.sync hann
  rwa [syncAfter_onlyAck (onlyAckR_append.2 ⟨h1, h2⟩)] at this

/-- y's tracker: an iteration of one of its own `Send` calls -/
theorem tk_y_sendStep {p : PState} {m : SigC.Msg} {st : Stage} {j : Nat} (hy : SigC.Reachable p.y.cl)
    (id : Nat) (ht : Tk p m st j) :
    ∃ st' j', Tk (step p (false, .sendStep id)) m st' j' ∧ LexLe (st'.num, j') (st.num, j) := by
  obtain ⟨x, y, gen, ep⟩ := p
  have hstep : step ⟨x, y, gen, ep⟩ (false, .sendStep id) =
      ⟨x, { y with cl := guarded y.cl (.sendStep id) }, gen, ep⟩ := by
    simp [step, stepX, PState.swap]
  rw [hstep]
  obtain ⟨_, h2, h3, _, _, _⟩ := guarded_sendStep hy id
  have hw := wt_sendStep hy id
  cases st <;> simp only [Tk, FwdG, AckG] at ht
  case rcvP =>
    obtain ⟨hg, g1, g2, g3, g4, g5⟩ := ht
    refine to_stage .rcvP (wt (guarded y.cl (.sendStep id))) ?_ (Or.inr ⟨rfl, by subst g5; exact hw⟩)
    simp only [Tk, FwdG]
    exact ⟨hg, by simpa [guarded] using h2.trans g1, by simpa [guarded] using h3.trans g2, g3, g4, trivial⟩
  case rcvU =>
    obtain ⟨hg, g1, g2, g3, g4⟩ := ht
    refine same_stage (st := .rcvU) ?_ _ _ rfl rfl
    simp only [Tk, FwdG]
    exact ⟨hg, by simpa [guarded] using h2.trans g1, by simpa [guarded] using h3.trans g2, g3, g4⟩
  all_goals first
    | exact same_stage (by simp only [Tk, FwdG, AckG]; exact ht) _ _ rfl rfl
    | exact ht.elim

/-- y's tracker: `Recv` takes the message -/
theorem tk_y_recvStep {p : PState} {m : SigC.Msg} {st : Stage} {j : Nat} (ht : Tk p m st j) :
    ∃ st' j', Tk (step p (false, .recvStep)) m st' j' ∧ LexLe (st'.num, j') (st.num, j) := by
  obtain ⟨x, y, gen, ep⟩ := p
  have hstep : step ⟨x, y, gen, ep⟩ (false, .recvStep) =
      ⟨x, { y with cl := SigC.recvStep y.cl }, gen, ep⟩ := by
    simp [step, stepX, PState.swap, SigC.step]
  rw [hstep]
  cases st <;> simp only [Tk, FwdG, AckG] at ht
  case rcvP =>
    obtain ⟨hg, g1, g2, g3, g4, g5⟩ := ht
    refine same_stage (st := .rcvP) ?_ _ _ rfl rfl
    simp only [Tk, FwdG]
    have : SigC.recvStep y.cl = y.cl := by simp [SigC.recvStep, g1, g2]
    rw [this]
    exact ⟨hg, g1, g2, g3, g4, g5⟩
  case rcvU =>
    obtain ⟨hg, g1, g2, g3, g4⟩ := ht
    refine to_stage .rcvP (wt (SigC.recvStep y.cl)) ?_ (Or.inl (show Stage.rcvP.num < Stage.rcvU.num by decide))
    simp only [Tk, FwdG]
    refine ⟨hg, ?_, ?_, g3, g4, trivial⟩ <;> simp [SigC.recvStep, g1, g2]
  all_goals first
    | exact same_stage (by simp only [Tk, FwdG, AckG]; exact ht) _ _ rfl rfl
    | exact ht.elim


theorem ackMsg_recv (s : SigC.State) (k : Nat) :
    (SigC.ackMsg s k).recv = s.recv ∧ (SigC.ackMsg s k).recvProcessed = s.recvProcessed := by
  unfold SigC.ackMsg
  split
  · split <;> exact ⟨rfl, rfl⟩
  · exact ⟨rfl, rfl⟩

/-- y's tracker processes the next response -/
theorem tk_y_rx {p : PState} {m : SigC.Msg} {st : Stage} {j : Nat} (ht : Tk p m st j) :
    ∃ st' j', Tk (step p (false, .rx)) m st' j' ∧ LexLe (st'.num, j') (st.num, j) := by
  obtain ⟨x, y, gen, ep⟩ := p
  cases hb : y.dn with
  | nil =>
    have : step ⟨x, y, gen, ep⟩ (false, .rx) = ⟨x, y, gen, ep⟩ := by simp [step, stepX, PState.swap, hb]
    rw [this]; exact ⟨st, j, ht, LexLe.refl _⟩
  | cons r rest =>
    have hstep : step ⟨x, y, gen, ep⟩ (false, .rx) = ⟨x, { y with cl := rxEv r y.cl, dn := rest }, gen, ep⟩ := by
      simp [step, stepX, PState.swap, hb]
    rw [hstep]
    cases st <;> simp only [Tk, FwdG, AckG, hb] at ht
    case rcvP =>
      obtain ⟨hg, g1, g2, g3, g4, g5⟩ := ht
      obtain ⟨⟨k, rfl⟩, g3b⟩ := onlyAckR_cons.1 g3
      obtain ⟨e1, e2⟩ := ackMsg_recv y.cl k
      refine to_stage .rcvP (wt (SigC.ackMsg y.cl k)) ?_ (Or.inr ⟨rfl, by subst g5; exact wt_ackMsg _ _⟩)
      simp only [Tk, FwdG, rxEv, SigC.step]
      exact ⟨hg, e1.trans g1, e2.trans g2, g3b, g4, trivial⟩
    case rcvU =>
      obtain ⟨hg, g1, g2, g3, g4⟩ := ht
      obtain ⟨⟨k, rfl⟩, g3b⟩ := onlyAckR_cons.1 g3
      obtain ⟨e1, e2⟩ := ackMsg_recv y.cl k
      refine same_stage (st := .rcvU) ?_ _ _ rfl rfl
      simp only [Tk, FwdG, rxEv, SigC.step]
      exact ⟨hg, e1.trans g1, e2.trans g2, g3b, g4⟩
    case rcvDn =>
      obtain ⟨hg, ⟨post, hat, hp⟩, h4⟩ := ht
      cases j with
      | zero =>
        obtain ⟨rfl, rfl⟩ := hat.head
        refine to_stage .rcvU 0 ?_ (Or.inl (show Stage.rcvU.num < Stage.rcvDn.num by decide))
        simp only [Tk, FwdG, rxEv, SigC.step, SigC.recvMsg]
        exact ⟨hg, by simp, by simp, hp, h4⟩
      | succ j =>
        refine to_stage .rcvDn j ?_ (Or.inr ⟨rfl, Nat.le_succ _⟩)
        simp only [Tk, FwdG]
        exact ⟨hg, ⟨post, hat.tail, hp⟩, h4⟩
    all_goals first
      | exact same_stage (by simp only [Tk, FwdG, AckG]; exact ht) _ _ rfl rfl
      | exact ht.elim

theorem txLoop_unproc {s : SigC.State} (h : s.recvProcessed = false) :
    (SigC.txLoop s).1.recv = s.recv ∧ (SigC.txLoop s).1.recvProcessed = false := by
  unfold SigC.txLoop
  repeat' split
  all_goals first | exact ⟨rfl, h⟩ | simp_all

/-- y's tracker: one iteration of its main loop -/
theorem tk_y_tx {p : PState} {m : SigC.Msg} {st : Stage} {j : Nat} (hy : HalfInv p.y p.gen p.ep) (ht : Tk p m st j) :
    ∃ st' j', Tk (step p (false, .tx)) m st' j' ∧ LexLe (st'.num, j') (st.num, j) := by
  obtain ⟨x, y, gen, ep⟩ := p
  have hstep : step ⟨x, y, gen, ep⟩ (false, .tx) =
      ⟨x, { y with cl := (SigC.txLoop y.cl).1, up := y.up ++ (SigC.txLoop y.cl).2.toList }, gen, ep⟩ := by
    simp [step, stepX, PState.swap]
  rw [hstep]
  cases st <;> simp only [Tk, FwdG, AckG] at ht
  case ackUp =>
    obtain ⟨g1, g2, g3, post, hat⟩ := ht
    refine same_stage (st := .ackUp) ?_ _ _ rfl rfl
    simp only [Tk]
    exact ⟨g1, g2, g3, _, hat.append_right _⟩
  case rcvU =>
    obtain ⟨hg, g1, g2, g3, g4⟩ := ht
    obtain ⟨e1, e2⟩ := txLoop_unproc g2
    refine same_stage (st := .rcvU) ?_ _ _ rfl rfl
    simp only [Tk, FwdG]
    exact ⟨hg, e1.trans g1, e2, g3, g4⟩
  case rcvP =>
    obtain ⟨hg, g1, g2, g3, g4, g5⟩ := ht
    have hopen : y.cl.open_ = some ep := open_of_sync hy hg.2.2.2.1 g3 g4
    subst g5
    cases hout : y.cl.out with
    | none =>
      refine to_stage .ackUp y.up.length ?_ (Or.inl (show Stage.ackUp.num < Stage.rcvP.num by decide))
      simp only [Tk, SigC.txLoop, hopen, hout, g1, g2]
      exact ⟨hg.1, hg.2.1, hg.2.2.2.2, [], by simpa using At.snoc y.up _⟩
    | some o =>
      by_cases hc : y.cl.outCancel = true
      · refine to_stage .rcvP (wt (SigC.txLoop y.cl).1) ?_ (Or.inr ⟨rfl, ?_⟩)
        · simp only [Tk, FwdG, SigC.txLoop, hopen, hout, hc, if_true]
          exact ⟨hg, g1, g2, g3, g4, trivial⟩
        · simp [SigC.txLoop, hopen, hout, hc, wt, pend]
      · by_cases hs : y.cl.outSent = true
        · refine to_stage .ackUp y.up.length ?_ (Or.inl (show Stage.ackUp.num < Stage.rcvP.num by decide))
          simp only [Tk, SigC.txLoop, hopen, hout, hc, hs, g1, g2]
          exact ⟨hg.1, hg.2.1, hg.2.2.2.2, [], by simpa using At.snoc y.up _⟩
        · refine to_stage .rcvP (wt (SigC.txLoop y.cl).1) ?_ (Or.inr ⟨rfl, ?_⟩)
          · simp only [Tk, FwdG, SigC.txLoop, hopen, hout, hc, hs]
            exact ⟨hg, g1, g2, g3, g4, trivial⟩
          · simp [SigC.txLoop, hopen, hout, hc, hs, wt, pend]
  all_goals first
    | exact same_stage (by simp only [Tk, FwdG, AckG]; exact ht) _ _ rfl rfl
    | exact ht.elim


/-- What the relay's reader of side y does with the next request of y's c2s, as far as the
location of x's message is concerned: either y's attachment is untouched and x's keeps its ack
(`quiet`), or an ack request for exactly what y's attachment remembers having forwarded fires. -/
inductive YRx (x y : Half) (gen ep : Nat) (r : SigC.Req) (rest : List SigC.Req) : PState → Prop
  | quiet (a : Sig.Att) (rd : Bool) (gen' : Nat) : a.outAcked = x.att.outAcked →
      (∀ k, r = .ack ep k → y.att.recvSent ≠ some k) →
      YRx x y gen ep r rest ⟨{ x with att := a }, { y with up := rest, rd := rd }, gen', ep⟩
  | fire (k : Nat) : r = .ack ep k → y.att.recvSent = some k →
      YRx x y gen ep r rest ⟨{ x with att := { x.att with outAcked := some k } },
        { y with up := rest, att := { y.att with recvSent := none } }, gen + 1, ep⟩

theorem y_srvRx_cases {x y : Half} {gen ep : Nat} {r : SigC.Req} {rest : List SigC.Req}
    (hrd : y.rd = false) (hup : y.up = r :: rest) :
    YRx x y gen ep r rest (step ⟨x, y, gen, ep⟩ (false, .srvRx)) := by
  have hstep : step ⟨x, y, gen, ep⟩ (false, .srvRx) =
      (relayReq ⟨{ y with up := rest }, x, gen, ep⟩ r).swap := by
    simp [step, stepX, PState.swap, hrd, hup]
  rw [hstep]
  cases r with
  | send e m' =>
    simp only [relayReq]
    split
    · exact YRx.quiet x.att true gen rfl (by simp)
    · split
      · have := YRx.quiet (x := x) (y := y) (gen := gen) (ep := ep) (r := .send e m') (rest := rest) x.att y.rd gen rfl (by simp)
        simpa [PState.swap] using this
      · exact YRx.quiet { x.att with recv := some (toSrvMsg m'), recvSent := none } y.rd (gen + 1) rfl (by simp)
  | clear e k' =>
    simp only [relayReq]
    split
    · exact YRx.quiet x.att true gen rfl (by simp)
    · split
      · have := YRx.quiet (x := x) (y := y) (gen := gen) (ep := ep) (r := .clear e k') (rest := rest) x.att y.rd gen rfl (by simp)
        simpa [PState.swap] using this
      · split
        · exact YRx.quiet { x.att with recv := none } y.rd gen rfl (by simp)
        · split
          · exact YRx.quiet { x.att with recvSent := none, recvClear := some k' } y.rd gen rfl (by simp)
          · have := YRx.quiet (x := x) (y := y) (gen := gen) (ep := ep) (r := .clear e k') (rest := rest) x.att y.rd gen rfl (by simp)
            simpa [PState.swap] using this
  | ack e k' =>
    simp only [relayReq]
    split
    · rename_i hlt
      exact YRx.quiet x.att true gen rfl (by intro k hk; cases hk; omega)
    · split
      · rename_i hne
        have := YRx.quiet (x := x) (y := y) (gen := gen) (ep := ep) (r := .ack e k') (rest := rest) x.att y.rd gen rfl
          (by intro k hk; cases hk; exact absurd rfl hne)
        simpa [PState.swap] using this
      · rename_i hne
        have he : ep = e := Classical.not_not.1 hne
        subst he
        split
        · rename_i hs
          exact YRx.fire k' rfl hs
        · rename_i hs
          have := YRx.quiet (x := x) (y := y) (gen := gen) (ep := ep) (r := .ack ep k') (rest := rest) x.att y.rd gen rfl
            (by intro k hk; cases hk; exact hs)
          simpa [PState.swap] using this

/-- the relay's reader of y's call processes the next request -/
theorem tk_y_srvRx {p : PState} {m : SigC.Msg} {st : Stage} {j : Nat} (ht : Tk p m st j) :
    ∃ st' j', Tk (step p (false, .srvRx)) m st' j' ∧ LexLe (st'.num, j') (st.num, j) := by
  obtain ⟨x, y, gen, ep⟩ := p
  by_cases hrd : y.rd = true
  · have : step ⟨x, y, gen, ep⟩ (false, .srvRx) = ⟨x, y, gen, ep⟩ := by simp [step, stepX, PState.swap, hrd]
    rw [this]; exact ⟨st, j, ht, LexLe.refl _⟩
  cases hb : y.up with
  | nil =>
    have : step ⟨x, y, gen, ep⟩ (false, .srvRx) = ⟨x, y, gen, ep⟩ := by simp [step, stepX, PState.swap, hb]
    rw [this]; exact ⟨st, j, ht, LexLe.refl _⟩
  | cons r rest =>
    have hc := y_srvRx_cases (x := x) (gen := gen) (ep := ep) (by simpa using hrd) hb
    generalize step ⟨x, y, gen, ep⟩ (false, .srvRx) = p' at hc
    cases hc with
    | quiet a rd gen' ha hq =>
      cases st <;> simp only [Tk, FwdG, AckG, hb] at ht
      case ackUp =>
        obtain ⟨g1, g2, g3, post, hat⟩ := ht
        cases j with
        | zero =>
          obtain ⟨rfl, rfl⟩ := hat.head
          exact absurd g1 (hq _ rfl)
        | succ j =>
          refine to_stage .ackUp j ?_ (Or.inr ⟨rfl, Nat.le_succ _⟩)
          simp only [Tk]
          exact ⟨g1, g2, g3, post, hat.tail⟩
      all_goals first
        | exact same_stage (by simp only [Tk, FwdG, AckG, ha]; exact ht) _ _ rfl rfl
        | exact ht.elim
    | fire k hr hs =>
      have toAck : ∀ {st0 : Stage} {j0 : Nat}, Stage.ackAttB.num < st0.num → k = m.seqno → onlyAckQ x.up →
          y.att.recv = none →
          ∃ st' j', Tk ⟨{ x with att := { x.att with outAcked := some k } },
            { y with up := rest, att := { y.att with recvSent := none } }, gen + 1, ep⟩ m st' j' ∧
            LexLe (st'.num, j') (st0.num, j0) := by
        intro st0 j0 hlt hk hq hrv
        by_cases hbx : x.box = []
        · refine to_stage .ackAttE 0 ?_ (Or.inl (Nat.lt_trans (show Stage.ackAttE.num < Stage.ackAttB.num by decide) hlt))
          simp only [Tk, AckG]
          exact ⟨⟨by rw [hk], hq, hrv, trivial⟩, hbx⟩
        · refine to_stage .ackAttB x.box.length ?_ (Or.inl hlt)
          simp only [Tk, AckG]
          exact ⟨⟨by rw [hk], hq, hrv, trivial⟩, hbx, trivial⟩
      cases st <;> simp only [Tk, FwdG, AckG, hb] at ht
      case ackUp =>
        obtain ⟨g1, g2, g3, _⟩ := ht
        exact toAck (by decide) (by rw [hs] at g1; cases g1; rfl) g3 g2
      case rcvP =>
        obtain ⟨⟨g1, g2, _, _, g3⟩, _⟩ := ht
        exact toAck (by decide) (by rw [hs] at g1; cases g1; rfl) g3 g2
      case rcvU =>
        obtain ⟨⟨g1, g2, _, _, g3⟩, _⟩ := ht
        exact toAck (by decide) (by rw [hs] at g1; cases g1; rfl) g3 g2
      case rcvDn =>
        obtain ⟨⟨g1, g2, _, _, g3⟩, _⟩ := ht
        exact toAck (by decide) (by rw [hs] at g1; cases g1; rfl) g3 g2
      case rcvBox =>
        obtain ⟨⟨g1, g2, _, _, g3⟩, _⟩ := ht
        exact toAck (by decide) (by rw [hs] at g1; cases g1; rfl) g3 g2
      case ackAttE => rw [hs] at ht; exact absurd ht.1.2.2.2 (by simp)
      case ackAttB => rw [hs] at ht; exact absurd ht.1.2.2.2 (by simp)
      all_goals first
        | exact same_stage (by simp only [Tk, FwdG, AckG]; exact ht) _ _ rfl rfl
        | exact ht.elim

theorem At_loopOut_recv (ann : Option Nat) (ep : Nat) (o : Sig.Att) (mm : Sig.Msg) (h : o.recv = some mm) :
    ∃ j, At (loopOut ann ep o) (Sig.Resp.recv mm) j [] := by
  unfold loopOut
  rw [h]
  exact ⟨_, At.snoc _ _⟩

theorem onlyAckR_loopOut {ann : Option Nat} {ep : Nat} {o : Sig.Att} (h1 : ann = some ep) (h2 : o.recv = none)
    (h3 : o.recvClear = none) : onlyAckR (loopOut ann ep o) := by
  unfold loopOut
  rw [h1, h2, h3]
  cases o.outAcked with
  | none => simpa using onlyAckR_nil
  | some k => simpa using onlyAckR_cons.2 ⟨⟨k, rfl⟩, onlyAckR_nil⟩

/-- one iteration of the write loop of y's relay call -/
theorem tk_y_srvLoop {p : PState} {m : SigC.Msg} {st : Stage} {j : Nat} (ht : Tk p m st j) :
    ∃ st' j', Tk (step p (false, .srvLoop)) m st' j' ∧ LexLe (st'.num, j') (st.num, j) := by
  obtain ⟨x, y, gen, ep⟩ := p
  by_cases hen : y.box = [] ∧ y.wait < gen
  · have hstep : step ⟨x, y, gen, ep⟩ (false, .srvLoop) =
        ⟨x, { y with att := loopAtt y.att, wait := gen, ann := some ep, box := loopOut y.ann ep y.att },
          if y.att.recv.isSome then gen + 1 else gen, ep⟩ := by
      simp only [step, stepX, PState.swap]
      simp only [hen, and_self, if_true, List.nil_append]
      rfl
    rw [hstep]
    cases st <;> simp only [Tk, FwdG, AckG, hen.1] at ht
    case relE =>
      obtain ⟨g1, g2, _⟩ := ht
      obtain ⟨j', hj'⟩ := At_loopOut_recv y.ann ep y.att _ g1
      refine to_stage .rcvBox j' ?_ (Or.inl (show Stage.rcvBox.num < Stage.relE.num by decide))
      simp only [Tk, FwdG, loopAtt, g1]
      exact ⟨⟨by simp, trivial, trivial, trivial, g2⟩, [], hj', onlyAckR_nil⟩
    case relB => exact absurd rfl ht.2.2.1
    case rcvBox =>
      obtain ⟨_, post, hat, _⟩ := ht
      exact absurd rfl hat.ne_nil
    case rcvDn =>
      obtain ⟨⟨g1, g2, g3, g4, g5⟩, h2, h3⟩ := ht
      refine same_stage (st := .rcvDn) ?_ _ _ rfl rfl
      simp only [Tk, FwdG, loopAtt, g2]
      exact ⟨⟨g1, trivial, trivial, trivial, g5⟩, h2, onlyAckR_loopOut g4 g2 g3⟩
    case rcvU =>
      obtain ⟨⟨g1, g2, g3, g4, g5⟩, h1, h2, h3, h4⟩ := ht
      refine same_stage (st := .rcvU) ?_ _ _ rfl rfl
      simp only [Tk, FwdG, loopAtt, g2]
      exact ⟨⟨g1, trivial, trivial, trivial, g5⟩, h1, h2, h3, onlyAckR_loopOut g4 g2 g3⟩
    case rcvP =>
      obtain ⟨⟨g1, g2, g3, g4, g5⟩, h1, h2, h3, h4, h5⟩ := ht
      refine same_stage (st := .rcvP) ?_ _ _ rfl rfl
      simp only [Tk, FwdG, loopAtt, g2]
      exact ⟨⟨g1, trivial, trivial, trivial, g5⟩, h1, h2, h3, onlyAckR_loopOut g4 g2 g3, h5⟩
    case ackUp =>
      obtain ⟨g1, g2, g3, g4⟩ := ht
      refine same_stage (st := .ackUp) ?_ _ _ rfl rfl
      simp only [Tk, loopAtt, g2]
      exact ⟨g1, trivial, g3, g4⟩
    case ackAttE =>
      obtain ⟨⟨g1, g2, g3, g4⟩, g5⟩ := ht
      refine same_stage (st := .ackAttE) ?_ _ _ rfl rfl
      simp only [Tk, AckG, loopAtt, g3]
      exact ⟨⟨g1, g2, trivial, g4⟩, g5⟩
    case ackAttB =>
      obtain ⟨⟨g1, g2, g3, g4⟩, g5⟩ := ht
      refine same_stage (st := .ackAttB) ?_ _ _ rfl rfl
      simp only [Tk, AckG, loopAtt, g3]
      exact ⟨⟨g1, g2, trivial, g4⟩, g5⟩
    all_goals first
      | exact same_stage (by simp only [Tk, FwdG, AckG]; exact ht) _ _ rfl rfl
      | exact ht.elim
  · have : step ⟨x, y, gen, ep⟩ (false, .srvLoop) = ⟨x, y, gen, ep⟩ := by
      simp only [step, stepX, PState.swap]
      simp [hen]
    rw [this]; exact ⟨st, j, ht, LexLe.refl _⟩

/-- y's relay call transmits the next response of its outbox -/
theorem tk_y_srvTx {p : PState} {m : SigC.Msg} {st : Stage} {j : Nat} (ht : Tk p m st j) :
    ∃ st' j', Tk (step p (false, .srvTx)) m st' j' ∧ LexLe (st'.num, j') (st.num, j) := by
  obtain ⟨x, y, gen, ep⟩ := p
  cases hb : y.box with
  | nil =>
    have : step ⟨x, y, gen, ep⟩ (false, .srvTx) = ⟨x, y, gen, ep⟩ := by simp [step, stepX, PState.swap, hb]
    rw [this]; exact ⟨st, j, ht, LexLe.refl _⟩
  | cons r rest =>
    have hstep : step ⟨x, y, gen, ep⟩ (false, .srvTx) = ⟨x, { y with box := rest, dn := y.dn ++ [r] }, gen, ep⟩ := by
      simp [step, stepX, PState.swap, hb]
    rw [hstep]
    cases st <;> simp only [Tk, FwdG, AckG, hb] at ht
    case ackDn => exact same_stage (by simpa [Tk] using ht) _ _ rfl rfl
    case ackBox => exact same_stage (by simpa [Tk] using ht) _ _ rfl rfl
    case ackAttE => exact same_stage (by simpa [Tk, AckG] using ht) _ _ rfl rfl
    case ackAttB => exact same_stage (by simpa [Tk, AckG] using ht) _ _ rfl rfl
    case ackUp => exact same_stage (by simpa [Tk] using ht) _ _ rfl rfl
    case rcvP =>
      obtain ⟨hg, h1, h2, h3, h4, h5⟩ := ht
      obtain ⟨h4a, h4b⟩ := onlyAckR_cons.1 h4
      refine same_stage (st := .rcvP) ?_ _ _ rfl rfl
      simp only [Tk, FwdG]
      exact ⟨hg, h1, h2, onlyAckR_append.2 ⟨h3, onlyAckR_cons.2 ⟨h4a, onlyAckR_nil⟩⟩, h4b, h5⟩
    case rcvU =>
      obtain ⟨hg, h1, h2, h3, h4⟩ := ht
      obtain ⟨h4a, h4b⟩ := onlyAckR_cons.1 h4
      refine same_stage (st := .rcvU) ?_ _ _ rfl rfl
      simp only [Tk, FwdG]
      exact ⟨hg, h1, h2, onlyAckR_append.2 ⟨h3, onlyAckR_cons.2 ⟨h4a, onlyAckR_nil⟩⟩, h4b⟩
    case rcvDn =>
      obtain ⟨hg, ⟨post, hat, hp⟩, h4⟩ := ht
      obtain ⟨h4a, h4b⟩ := onlyAckR_cons.1 h4
      refine same_stage (st := .rcvDn) ?_ _ _ rfl rfl
      simp only [Tk, FwdG]
      exact ⟨hg, ⟨_, hat.append_right [r], onlyAckR_append.2 ⟨hp, onlyAckR_cons.2 ⟨h4a, onlyAckR_nil⟩⟩⟩, h4b⟩
    case rcvBox =>
      obtain ⟨hg, post, hat, hp⟩ := ht
      cases j with
      | zero =>
        obtain ⟨rfl, rfl⟩ := hat.head
        refine to_stage .rcvDn y.dn.length ?_ (Or.inl (show Stage.rcvDn.num < Stage.rcvBox.num by decide))
        simp only [Tk, FwdG]
        exact ⟨hg, ⟨[], At.snoc _ _, onlyAckR_nil⟩, hp⟩
      | succ j =>
        refine to_stage .rcvBox j ?_ (Or.inr ⟨rfl, Nat.le_succ _⟩)
        simp only [Tk, FwdG]
        exact ⟨hg, post, hat.tail, hp⟩
    case relE => simp at ht
    case relB =>
      obtain ⟨h1, h2, _, h3⟩ := ht
      subst h3
      cases rest with
      | nil =>
        refine to_stage .relE 0 ?_ (Or.inl (show Stage.relE.num < Stage.relB.num by decide))
        simp only [Tk]; exact ⟨h1, h2, trivial⟩
      | cons r' rest' =>
        refine to_stage .relB (r' :: rest').length ?_ (Or.inr ⟨rfl, by simp⟩)
        simp only [Tk]; exact ⟨h1, h2, by simp, trivial⟩
    case sndUp => exact same_stage (by simpa [Tk] using ht) _ _ rfl rfl

end SigPair
end Bifrost
