import Bifrost.Lemmas.SigLive
import Bifrost.Lemmas.SigPairCancel
/-!
C23 liveness: the pair invariant holds of the view of EVERY reachable state of the composed
system in which the two trackers hold live relay calls (`pinv_of_live_of`), by induction on
reachability: liveness of the pair is created only by an effective connect (`Back`), right after
which neither side has heard of the new epoch (`FreshConn`, then `pinv_of_fresh`); every other
event that keeps the pair live is a stable event (`view_step`, `pinv_stepO`) or a `Send`
cancellation (`SigPairCancel`). The two facts about the composed system are taken as hypotheses
here and proved in `SigEpoch.lean` / `SigLiveBack.lean`.
-/
namespace Bifrost
namespace SigLive
open Bifrost.SigSys Bifrost.SigPair Bifrost.SigPairCli Bifrost.Temporal

/-- statement of `SigEpoch.fresh_after_connect` -/
def FreshConn : Prop :=
  ∀ {s : SigSys.State}, SigSys.Reachable s → ∀ {A B ia ib : Nat},
    (∀ c, getClient s B A = some c → c.call = none) → Live (SigSys.step s (.connect B A)) A B ia ib →
    FreshSide (SigSys.step s (.connect B A)) A B ia ∧ FreshSide (SigSys.step s (.connect B A)) B A ib

/-- statement of `SigLiveBack.live_back` -/
def Back : Prop :=
  ∀ {s : SigSys.State}, SigSys.Reachable s → ∀ (e : SigSys.Ev) {A B ia ib : Nat},
    Live (SigSys.step s e) A B ia ib →
    (Live s A B ia ib ∧ (Stable A B ia ib e ∨ (∃ id, e = .sendCancel A B id) ∨ (∃ id, e = .sendCancel B A id))) ∨
    (e = .connect A B ∧ ∀ c, getClient s A B = some c → c.call = none) ∨
    (e = .connect B A ∧ ∀ c, getClient s B A = some c → c.call = none)

theorem live_swap {s : SigSys.State} {A B ia ib : Nat} (h : Live s A B ia ib) : Live s B A ib ia :=
  ⟨h.cliB, h.cliA, h.chB, h.chA, h.srvB, h.srvA⟩

theorem pinv_of_live_of (hfresh : FreshConn) (hback : Back) {s : SigSys.State} (hr : SigSys.Reachable s) :
    ∀ {A B ia ib : Nat}, Live s A B ia ib → ∃ p, View s A B ia ib p ∧ PInv p := by
  induction hr with
  | init =>
    intro A B ia ib hl
    obtain ⟨c, hc, _⟩ := hl.cliA
    simp [getClient] at hc
  | step e hr ih =>
    rename_i s
    intro A B ia ib hl
    have hr' : SigSys.Reachable (SigSys.step s e) := SigSys.Reachable.step e hr
    rcases hback hr e hl with ⟨hls, hcase⟩ | ⟨rfl, hnone⟩ | ⟨rfl, hnone⟩
    · obtain ⟨p, hv, hp⟩ := ih hls
      rcases hcase with hst | ⟨id, rfl⟩ | ⟨id, rfl⟩
      · exact ⟨_, view_step hr hv e hst, pinv_stepO hp _⟩
      · exact ⟨_, view_cancel_x hv id, pinv_cancel_x hp id⟩
      · exact ⟨_, view_cancel_y hv id, pinv_cancel_y hp id⟩
    · -- (A → B) has just (re-)connected
      obtain ⟨f1, f2⟩ := hfresh hr hnone (live_swap hl)
      obtain ⟨p, hv, hx, hy⟩ := view_of_live hr' hl
      exact ⟨p, hv, pinv_of_fresh hr' hv hx hy f2 f1⟩
    · -- (B → A) has just (re-)connected
      obtain ⟨f1, f2⟩ := hfresh hr hnone hl
      obtain ⟨p, hv, hx, hy⟩ := view_of_live hr' hl
      exact ⟨p, hv, pinv_of_fresh hr' hv hx hy f1 f2⟩

/-- The full statement of C23 on the composed system, from the two facts. -/
theorem progress_full_of (hfresh : FreshConn) (hback : Back)
    {σ : Nat → SigSys.State} {ev : Nat → SigSys.Ev} (hex : IsExec SigSys.step σ ev)
    (h0 : SigSys.Reachable (σ 0)) {A B ia ib N : Nat} (hlive : Live (σ N) A B ia ib)
    (hst : StableFrom ev A B ia ib N) (hns : NoNewSends ev A B N) (hfair : Fair σ ev A B ia ib N) :
    (∀ id, SendPending (σ N) A B id → ∃ m, N ≤ m ∧ SendSucceeded (σ m) A B id ∧ SendDelivered (σ m) A B id) ∧
    (∀ id, SendPending (σ N) B A id → ∃ m, N ≤ m ∧ SendSucceeded (σ m) B A id ∧ SendDelivered (σ m) B A id) := by
  have hreach := reachable_exec hex h0
  obtain ⟨p, hv, hp⟩ := pinv_of_live_of hfresh hback (hreach N) hlive
  obtain ⟨ha, hb⟩ := live_of_pinv hex h0 hv hp hst hns hfair
  refine ⟨fun id h => ?_, fun id h => ?_⟩
  · obtain ⟨m, hm, hs⟩ := ha id h
    exact ⟨m, hm, hs, delivered_of_succeeded (hreach m) hs⟩
  · obtain ⟨m, hm, hs⟩ := hb id h
    exact ⟨m, hm, hs, delivered_of_succeeded (hreach m) hs⟩

end SigLive
end Bifrost
