import Bifrost.Model.Codec
import Bifrost.Lemmas.Header
/-! Uvarint round trip / range, and the two-field ProtoWire round trip used by
`crypto.PublicKey` and `hash.Hash`. -/
namespace Bifrost

namespace Uv

/-- Whatever protobuf's `ConsumeVarint` accepts, Go's `binary.Uvarint` accepts identically. -/
theorem decodeFrom_of_consumeFrom (b : Bytes) : ∀ (i v n : Nat), i ≤ 9 →
    Pb.consumeFrom i b = .ok v n → decodeFrom i b = .ok v n := by
  induction b with
  | nil => intro i v n _ h; simp [Pb.consumeFrom] at h
  | cons x rest ih =>
    intro i v n hi h
    unfold Pb.consumeFrom at h
    unfold decodeFrom
    have h10 : ¬ i ≥ 10 := by omega
    simp only [h10, ↓reduceIte]
    by_cases h9 : i ≥ 9
    · have e : i = 9 := by omega
      subst e
      simp only [ge_iff_le, Nat.le_refl, ↓reduceIte] at h
      by_cases hx : x < 2
      · simp only [hx, ↓reduceIte] at h
        have hx80 : x < 0x80 := by
          rw [UInt8.lt_iff_toNat_lt] at hx ⊢
          have : (2 : UInt8).toNat = 2 := rfl
          have : (0x80 : UInt8).toNat = 128 := rfl
          omega
        have hx1 : ¬ x > 1 := by
          rw [gt_iff_lt, UInt8.lt_iff_toNat_lt]
          rw [UInt8.lt_iff_toNat_lt] at hx
          have : (2 : UInt8).toNat = 2 := rfl
          have : (1 : UInt8).toNat = 1 := rfl
          omega
        simp only [hx80, ↓reduceIte, hx1, and_false]
        exact h
      · simp only [hx, ↓reduceIte] at h
        cases h
    · simp only [h9, ↓reduceIte] at h
      by_cases hx : x < 0x80
      · simp only [hx, ↓reduceIte] at h ⊢
        have : ¬ (i = 9 ∧ x > 1) := by omega
        simp only [this, ↓reduceIte]
        exact h
      · simp only [hx, ↓reduceIte] at h ⊢
        cases hc : Pb.consumeFrom (i + 1) rest with
        | ok v' n' =>
          rw [hc] at h
          rw [ih (i + 1) v' n' (by omega) hc]
          exact h
        | eof => rw [hc] at h; cases h
        | overflow => rw [hc] at h; cases h

/-- `PutUvarint` then `Uvarint` returns the value and the number of bytes written. -/
theorem decode_put (v : Nat) (hv : v < 2 ^ 64) (rest : Bytes) :
    decode (put v ++ rest) = .ok v (put v).length :=
  decodeFrom_of_consumeFrom _ 0 _ _ (by omega) (Pb.consume_append v hv rest)

/-- A decoded uvarint fits in a uint64. -/
theorem decodeFrom_lt (b : Bytes) : ∀ (i v n : Nat),
    decodeFrom i b = .ok v n → v + 2 ^ (7 * i) ≤ 2 ^ 64 := by
  induction b with
  | nil => intro i v n h; simp [decodeFrom] at h
  | cons x rest ih =>
    intro i v n h
    unfold decodeFrom at h
    by_cases h10 : i ≥ 10
    · simp [h10] at h
    simp only [h10, ↓reduceIte] at h
    have hxn : x.toNat < 256 := x.toNat_lt
    by_cases hx : x < 0x80
    · simp only [hx, ↓reduceIte] at h
      have hx' : x.toNat < 128 := by
        rw [UInt8.lt_iff_toNat_lt] at hx; exact hx
      by_cases h9 : i = 9 ∧ x > 1
      · simp [h9] at h
      · simp only [h9, ↓reduceIte] at h
        injection h with h _
        subst h
        rw [Nat.shiftLeft_eq]
        by_cases e : i = 9
        · subst e
          have hx1 : x.toNat ≤ 1 := by
            have : ¬ x > 1 := by simpa using h9
            rw [gt_iff_lt, UInt8.lt_iff_toNat_lt] at this
            have : (1 : UInt8).toNat = 1 := rfl
            omega
          have e63 : (2 : Nat) ^ (7 * 9) = 9223372036854775808 := by norm_num
          have e64 : (2 : Nat) ^ 64 = 18446744073709551616 := by norm_num
          rw [e63, e64]
          omega
        · have hi : i ≤ 8 := by omega
          have h1 : x.toNat * 2 ^ (7 * i) ≤ 127 * 2 ^ (7 * i) := Nat.mul_le_mul_right _ (by omega)
          have h2 : 128 * 2 ^ (7 * i) ≤ 2 ^ 64 := by
            have : (128 : Nat) = 2 ^ 7 := by norm_num
            rw [this, ← Nat.pow_add]
            exact Nat.pow_le_pow_right (by omega) (by omega)
          omega
    · simp only [hx, ↓reduceIte] at h
      cases hc : decodeFrom (i + 1) rest with
      | ok v' n' =>
        rw [hc] at h
        have := ih (i + 1) v' n' hc
        injection h with h _
        subst h
        rw [Nat.shiftLeft_eq]
        have e : 7 * (i + 1) = 7 + 7 * i := by omega
        rw [e, Nat.pow_add] at this
        have h1 : (x.toNat - 128) * 2 ^ (7 * i) ≤ 127 * 2 ^ (7 * i) :=
          Nat.mul_le_mul_right _ (by omega)
        have : (2 : Nat) ^ 7 = 128 := by norm_num
        omega
      | eof => rw [hc] at h; cases h
      | overflow => rw [hc] at h; cases h

theorem decode_lt (b : Bytes) (v n : Nat) (h : decode b = .ok v n) : v < 2 ^ 64 := by
  have := decodeFrom_lt b 0 v n h
  simp at this
  omega

end Uv

namespace PW

/-- The schema shared by `crypto.PublicKey` and `hash.Hash`. -/
abbrev vbSchema : Schema := [⟨1, .varint⟩, ⟨2, .bytes⟩]

theorem encVarint_1 (v : Nat) : encVarint 1 v = Pb.append 8 ++ Pb.append v := rfl
theorem encBytes_2 (b : Bytes) : encBytes 2 b = Pb.append 18 ++ (Pb.append b.length ++ b) := by
  unfold encBytes; rw [List.append_assoc]; rfl

theorem encVarint_ne_nil (n v : Nat) : encVarint n v ≠ [] := by
  simp [encVarint, tag, Pb.append_ne_nil]

theorem encBytes_ne_nil (n : Nat) (b : Bytes) : encBytes n b ≠ [] := by
  simp [encBytes, tag, Pb.append_ne_nil]

theorem decodeLoop_stepV (fuel v : Nat) (hv : v < 2 ^ 64) (rest : Bytes) (acc : Raw) :
    decodeLoop vbSchema (fuel + 1) (encVarint 1 v ++ rest) acc =
      decodeLoop vbSchema fuel rest { acc with fields := acc.fields ++ [(1, .varint v)] } := by
  rw [decodeLoop]
  have hne : (encVarint 1 v ++ rest).isEmpty = false := by
    simp [encVarint_ne_nil]
  rw [hne]
  have hd : decodeVarint (encVarint 1 v ++ rest) = .ok (8, Pb.append v ++ rest) := by
    rw [encVarint_1, List.append_assoc, decodeVarint_append 8 (by norm_num)]
  simp only [Bool.false_eq_true, ↓reduceIte, hd]
  have h1 : toInt32 (8 / 8) = 1 := by decide
  have h2 : findSpec vbSchema 1 = some ⟨1, .varint⟩ := by decide
  simp only [h1, h2]
  rw [decodeVarint_append v hv]
  simp

theorem decodeLoop_stepB (fuel : Nat) (b : Bytes) (hb : b.length < 2 ^ 63) (rest : Bytes) (acc : Raw) :
    decodeLoop vbSchema (fuel + 1) (encBytes 2 b ++ rest) acc =
      decodeLoop vbSchema fuel rest { acc with fields := acc.fields ++ [(2, .bytes b)] } := by
  rw [decodeLoop]
  have hne : (encBytes 2 b ++ rest).isEmpty = false := by
    simp [encBytes_ne_nil]
  rw [hne]
  have hd : decodeVarint (encBytes 2 b ++ rest) = .ok (18, Pb.append b.length ++ (b ++ rest)) := by
    rw [encBytes_2, List.append_assoc, decodeVarint_append 18 (by norm_num), List.append_assoc]
  simp only [Bool.false_eq_true, ↓reduceIte, hd]
  have h1 : toInt32 (18 / 8) = 2 := by decide
  have h2 : findSpec vbSchema 2 = some ⟨2, .bytes⟩ := by decide
  simp only [h1, h2]
  rw [takeLen_append b rest hb]
  simp

/-- The fields produced by decoding the canonical two-field message. -/
def vbFields (v : Nat) (b : Bytes) : List (Nat × Val) :=
  (if v = 0 then [] else [(1, .varint v)]) ++ (if b.isEmpty then [] else [(2, .bytes b)])

theorem decodeLoop_vb (fuel v : Nat) (b : Bytes) (hv : v < 2 ^ 64) (hb : b.length < 2 ^ 63) :
    decodeLoop vbSchema (fuel + 2) (encVarintOpt 1 v ++ encBytesOpt 2 b) {} =
      .ok { fields := vbFields v b } := by
  unfold encVarintOpt encBytesOpt vbFields
  by_cases h0 : v = 0
  · by_cases hE : b.isEmpty
    · simp [h0, hE, decodeLoop_nil]
    · simp only [h0, hE, ↓reduceIte, List.nil_append, Bool.false_eq_true]
      have := decodeLoop_stepB (fuel + 1) b hb [] {}
      rw [List.append_nil] at this
      rw [this, decodeLoop_nil]
      simp
  · by_cases hE : b.isEmpty
    · simp only [h0, hE, ↓reduceIte, List.append_nil]
      have := decodeLoop_stepV (fuel + 1) v hv [] {}
      rw [List.append_nil] at this
      rw [this, decodeLoop_nil]
      simp
    · simp only [h0, hE, ↓reduceIte, Bool.false_eq_true]
      rw [decodeLoop_stepV (fuel + 1) v hv]
      have := decodeLoop_stepB fuel b hb [] { fields := ({} : Raw).fields ++ [(1, .varint v)] }
      rw [List.append_nil] at this
      rw [this, decodeLoop_nil]
      simp

theorem decode_vb (v : Nat) (b : Bytes) (hv : v < 2 ^ 64) (hb : b.length < 2 ^ 63) :
    decode vbSchema (encVarintOpt 1 v ++ encBytesOpt 2 b) = .ok { fields := vbFields v b } := by
  unfold decode
  cases hd : (encVarintOpt 1 v ++ encBytesOpt 2 b) with
  | nil =>
    have h1 : encVarintOpt 1 v = [] := (List.append_eq_nil_iff.mp hd).1
    have h2 : encBytesOpt 2 b = [] := (List.append_eq_nil_iff.mp hd).2
    have hv0 : v = 0 := by
      unfold encVarintOpt at h1
      by_cases h : v = 0
      · exact h
      · rw [if_neg h] at h1; exact absurd h1 (encVarint_ne_nil 1 v)
    have hb0 : b.isEmpty = true := by
      unfold encBytesOpt at h2
      by_cases h : b.isEmpty
      · exact h
      · rw [if_neg h] at h2; exact absurd h2 (encBytes_ne_nil 2 b)
    simp [decodeLoop_nil, vbFields, hv0, hb0]
  | cons x xs =>
    rw [← hd]
    have : (encVarintOpt 1 v ++ encBytesOpt 2 b).length + 1 = xs.length + 2 := by
      rw [hd]; simp
    rw [this]
    exact decodeLoop_vb xs.length v b hv hb

theorem vb_lastVarint (v : Nat) (b : Bytes) : (Raw.mk (vbFields v b) []).lastVarint 1 = v := by
  unfold Raw.lastVarint vbFields
  by_cases h0 : v = 0 <;> by_cases hE : b.isEmpty <;> simp [h0, hE]

theorem vb_lastBytes (v : Nat) (b : Bytes) : (Raw.mk (vbFields v b) []).lastBytes 2 = b := by
  unfold Raw.lastBytes vbFields
  by_cases h0 : v = 0 <;> by_cases hE : b.isEmpty <;> simp [h0, hE]
  all_goals (simpa using hE)

theorem toInt32_int32ToU64 (t : Int) (hlo : -(2 ^ 31) ≤ t) (hhi : t < 2 ^ 31) :
    toInt32 (Codec.int32ToU64 t) = t := by
  unfold toInt32 Codec.int32ToU64
  by_cases h : t < 0
  · simp only [h, ↓reduceIte, Int.ofNat_eq_natCast]
    split <;> omega
  · simp only [h, ↓reduceIte, Int.ofNat_eq_natCast]
    split <;> omega

theorem int32ToU64_lt (t : Int) (hlo : -(2 ^ 31) ≤ t) (hhi : t < 2 ^ 31) :
    Codec.int32ToU64 t < 2 ^ 64 := by
  unfold Codec.int32ToU64
  split <;> omega

end PW
end Bifrost
