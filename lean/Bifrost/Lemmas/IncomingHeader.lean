import Bifrost.Model.Incoming
import Bifrost.Lemmas.Header
/-!
Helper lemmas for C07 (dispatch clause): a declarative characterisation of the byte streams the
header reader accepts (`WellFormed`), proved equivalent to `readHeaderFlat` / `readHeader`.
-/
namespace Bifrost
namespace Pb

/-- A varint that parses consumed at least one byte and no more than the buffer holds. -/
theorem consumeFrom_bounds (b : Bytes) : ∀ (i v n : Nat),
    consumeFrom i b = .ok v n → 1 ≤ n ∧ n ≤ b.length := by
  induction b with
  | nil => intro i v n h; simp [consumeFrom] at h
  | cons x rest ih =>
    intro i v n h
    unfold consumeFrom at h
    by_cases h9 : i ≥ 9
    · simp only [h9, ↓reduceIte] at h
      split at h
      · injection h with _ hn; subst hn; simp
      · cases h
    · simp only [h9, ↓reduceIte] at h
      by_cases hx : x < 0x80
      · simp only [hx, ↓reduceIte] at h
        injection h with _ hn; subst hn; simp
      · simp only [hx, ↓reduceIte] at h
        cases hc : consumeFrom (i + 1) rest with
        | ok v' n' =>
          rw [hc] at h
          injection h with _ hn
          have := ih (i + 1) v' n' hc
          subst hn
          simp only [List.length_cons]
          omega
        | eof => rw [hc] at h; cases h
        | overflow => rw [hc] at h; cases h

theorem consume_bounds (b : Bytes) (v n : Nat) (h : consume b = .ok v n) :
    1 ≤ n ∧ n ≤ b.length := consumeFrom_bounds b 0 v n h

/-- A varint that parses from a buffer parses identically from exactly the bytes it consumed. -/
theorem consumeFrom_take_self (b : Bytes) : ∀ (i v n : Nat),
    consumeFrom i b = .ok v n → consumeFrom i (b.take n) = .ok v n := by
  induction b with
  | nil => intro i v n h; simp [consumeFrom] at h
  | cons x rest ih =>
    intro i v n h
    have hb := consumeFrom_bounds (x :: rest) i v n h
    obtain ⟨m, rfl⟩ : ∃ m, n = m + 1 := ⟨n - 1, by omega⟩
    rw [List.take_succ_cons]
    unfold consumeFrom at h ⊢
    by_cases h9 : i ≥ 9
    · simpa [h9] using h
    · simp only [h9, ↓reduceIte] at h ⊢
      by_cases hx : x < 0x80
      · simpa [hx] using h
      · simp only [hx, ↓reduceIte] at h ⊢
        cases hc : consumeFrom (i + 1) rest with
        | ok v' n' =>
          rw [hc] at h
          injection h with hv hn
          have hn' : n' = m := by omega
          subst hn'
          rw [ih (i + 1) v' n' hc]
          simp [hv]
        | eof => rw [hc] at h; cases h
        | overflow => rw [hc] at h; cases h

theorem consume_take_self (b : Bytes) (v n : Nat) (h : consume b = .ok v n) :
    consume (b.take n) = .ok v n := consumeFrom_take_self b 0 v n h

/-- A complete varint followed by anything parses to the same value and length. -/
theorem consume_prefix_append (p x : Bytes) (v : Nat) (h : consume p = .ok v p.length) :
    consume (p ++ x) = .ok v p.length := by
  apply consume_take (p ++ x) p.length
  rw [List.take_left' rfl]
  exact h

end Pb
end Bifrost

namespace Bifrost
namespace PW

theorem decodeVarint_length (d rest : Bytes) (v : Nat) (h : decodeVarint d = .ok (v, rest)) :
    rest.length + 1 ≤ d.length := by
  unfold decodeVarint at h
  cases hc : Pb.consume d with
  | ok v' n =>
    rw [hc] at h
    injection h with h
    injection h with _ hr
    have := Pb.consume_bounds d v' n hc
    subst hr
    rw [List.length_drop]
    omega
  | eof => rw [hc] at h; cases h
  | overflow => rw [hc] at h; cases h

theorem takeLen_length (d p rest : Bytes) (h : takeLen d = .ok (p, rest)) :
    p.length + rest.length + 1 ≤ d.length := by
  unfold takeLen at h
  cases hv : decodeVarint d with
  | error e => rw [hv] at h; cases h
  | ok q =>
    obtain ⟨len, r'⟩ := q
    rw [hv] at h
    have hl := decodeVarint_length d r' len hv
    simp only at h
    split at h
    · cases h
    · split at h
      · cases h
      · rename_i h2
        injection h with h
        injection h with hp hr
        subst hp hr
        rw [List.length_take, List.length_drop]
        omega

theorem lastBytes_snoc (acc : Raw) (n' : Nat) (p : Bytes) (n : Nat) :
    Raw.lastBytes { acc with fields := acc.fields ++ [(n', Val.bytes p)] } n
      = if n' = n then p else acc.lastBytes n := by
  unfold Raw.lastBytes
  rw [List.foldl_append]
  simp

theorem lastBytes_unknown (acc : Raw) (u : Bytes) (n : Nat) :
    Raw.lastBytes { acc with unknown := u } n = acc.lastBytes n := rfl

end PW

namespace Framing

theorem findSpec_establish (n : Int) (spec : PW.FieldSpec)
    (h : PW.findSpec establishSchema n = some spec) : spec = ⟨1, .bytes⟩ := by
  unfold PW.findSpec at h
  have := List.mem_of_find?_eq_some h
  simpa [establishSchema] using this

/-- The `UnmarshalVT` loop can only end with a non-empty protocol ID if it already had one or
at least three bytes (tag, length, one byte of ID) were still to be decoded. -/
theorem decodeLoop_lastBytes (fuel : Nat) : ∀ (d : Bytes) (acc r : PW.Raw),
    PW.decodeLoop establishSchema fuel d acc = .ok r → r.lastBytes 1 ≠ [] →
    acc.lastBytes 1 ≠ [] ∨ 3 ≤ d.length := by
  induction fuel with
  | zero =>
    intro d acc r h hr
    unfold PW.decodeLoop at h
    injection h with h
    subst h
    exact Or.inl hr
  | succ fuel ih =>
    intro d acc r h hr
    unfold PW.decodeLoop at h
    by_cases he : d.isEmpty
    · simp only [he, ↓reduceIte] at h
      injection h with h
      subst h
      exact Or.inl hr
    simp only [he] at h
    cases hv : PW.decodeVarint d with
    | error e => rw [hv] at h; simp at h
    | ok q =>
      obtain ⟨wire, rest⟩ := q
      have hl := PW.decodeVarint_length d rest wire hv
      rw [hv] at h
      simp only [Bool.false_eq_true, ↓reduceIte] at h
      split at h
      · cases h
      split at h
      · cases h
      split at h
      · rename_i spec hs
        have := findSpec_establish _ spec hs
        subst this
        simp only at h
        split at h
        · cases h
        cases ht : PW.takeLen rest with
        | error e => rw [ht] at h; cases h
        | ok q2 =>
          obtain ⟨p, rest2⟩ := q2
          have hl2 := PW.takeLen_length rest p rest2 ht
          rw [ht] at h
          simp only at h
          rcases ih rest2 _ r h hr with h1 | h1
          · rw [PW.lastBytes_snoc] at h1
            simp only [↓reduceIte] at h1
            have : 0 < p.length := List.length_pos_iff.mpr h1
            right; omega
          · right; omega
      · cases hk : PW.skip d with
        | error e => rw [hk] at h; cases h
        | ok n =>
          rw [hk] at h
          simp only at h
          split at h
          · cases h
          · rcases ih _ _ r h hr with h1 | h1
            · exact Or.inl h1
            · right
              rw [List.length_drop] at h1
              omega

/-- A body that decodes to a non-empty protocol ID has at least three bytes. -/
theorem decodeEstablish_length (body pid : Bytes) (h : decodeEstablish body = .ok pid)
    (hne : pid ≠ []) : 3 ≤ body.length := by
  unfold decodeEstablish at h
  cases hd : PW.decode establishSchema body with
  | error e => rw [hd] at h; cases h
  | ok r =>
    rw [hd] at h
    injection h with h
    unfold PW.decode at hd
    rcases decodeLoop_lastBytes _ body {} r hd (by rw [h]; exact hne) with h1 | h1
    · exact absurd rfl h1
    · exact h1


/-- Declarative well-formedness of the start of a byte stream: `flat` is a varint length prefix
`pre` that ends within the first four bytes (it need not be minimal), followed by a `body` of
exactly the announced, non-zero, in-limit length that decodes to the valid protocol ID `pid`,
followed by `rest`. -/
def WellFormed (max : Nat) (flat pid rest : Bytes) : Prop :=
  ∃ pre body : Bytes,
    flat = pre ++ body ++ rest ∧
    Pb.consume pre = .ok body.length pre.length ∧
    pre.length ≤ 4 ∧
    body.length ≠ 0 ∧ body.length ≤ max ∧ body.length ≤ maxInt32 ∧
    decodeEstablish body = .ok pid ∧ pidValid pid = true

/-- After ANY complete in-range varint prefix that ends within four bytes, `readHeaderFlat`
reduces to reading the body (generalises `readHeaderFlat_prefix` to non-minimal prefixes). -/
theorem readHeaderFlat_prefix_gen (max L : Nat) (A X : Bytes)
    (hC : Pb.consume A = .ok L A.length) (hA4 : A.length ≤ 4)
    (hL0 : L ≠ 0) (hLmax : L ≤ max) (hL32 : L ≤ maxInt32) (hlen : 4 ≤ A.length + X.length) :
    readHeaderFlat max (A ++ X) =
      match (if 4 - A.length ≥ L
              then some ((X.take (4 - A.length)).take L, X.drop (4 - A.length))
              else atLeastFlat (X.drop (4 - A.length))
                ((X.take (4 - A.length)).take L) L) with
      | none => .error .io
      | some (hb, f2) =>
        match decodeEstablish hb with
        | .error _ => .error .badProto
        | .ok pid => if pidValid pid then .ok (pid, f2, L) else .error .badPid := by
  have hp1 := (Pb.consume_bounds A L A.length hC).1
  have hA4' : atLeastFlat (A ++ X) [] 4 = some (A ++ X.take (4 - A.length), X.drop (4 - A.length)) := by
    unfold atLeastFlat
    rw [if_pos (by simp only [List.length_append, List.length_nil]; omega)]
    simp only [List.length_nil, Nat.sub_zero, List.nil_append]
    rw [List.take_append, List.drop_append, List.take_of_length_le (by omega),
      List.drop_of_length_le (by omega), List.nil_append]
  have hC' : Pb.consume (A ++ X.take (4 - A.length)) = .ok L A.length :=
    Pb.consume_prefix_append A _ L hC
  unfold readHeaderFlat
  rw [hA4']
  simp only
  rw [hC']
  simp only
  have g1 : ¬ L > maxInt32 := by omega
  have g2 : ¬ (L > max ∨ L = 0) := by omega
  have hlen' : (A ++ X.take (4 - A.length)).length - A.length = 4 - A.length := by
    rw [List.length_append, List.length_take]; omega
  simp only [g1, g2, ↓reduceIte, List.drop_left', hlen']
  rfl

/-- Well-formed streams are accepted, with exactly `pid` and `rest`. -/
theorem readHeaderFlat_of_wellFormed (max : Nat) (flat pid rest : Bytes)
    (h : WellFormed max flat pid rest) :
    ∃ a, readHeaderFlat max flat = .ok (pid, rest, a) := by
  obtain ⟨pre, body, hflat, hC, hp4, hL0, hLmax, hL32, hdec, hv⟩ := h
  have hne := pidValid_ne_nil pid hv
  have h3 := decodeEstablish_length body pid hdec hne
  have hp1 := (Pb.consume_bounds pre _ _ hC).1
  refine ⟨body.length, ?_⟩
  subst hflat
  rw [List.append_assoc, readHeaderFlat_prefix_gen max body.length pre (body ++ rest) hC hp4 hL0
    hLmax hL32 (by rw [List.length_append]; omega)]
  generalize pre.length = p at *
  have hbody : (if 4 - p ≥ body.length
              then some (((body ++ rest).take (4 - p)).take body.length, (body ++ rest).drop (4 - p))
              else atLeastFlat ((body ++ rest).drop (4 - p))
                (((body ++ rest).take (4 - p)).take body.length) body.length) = some (body, rest) := by
    by_cases hq : 4 - p ≥ body.length
    · have e : 4 - p = body.length := by omega
      rw [if_pos hq, e]
      simp
    · rw [if_neg hq]
      have hq' : 4 - p ≤ body.length := by omega
      rw [List.take_take, Nat.min_eq_right hq', List.take_append_of_le_length hq',
        List.drop_append_of_le_length hq']
      unfold atLeastFlat
      rw [if_pos (by simp only [List.length_append, List.length_drop, List.length_take]; omega)]
      have e1 : (body.take (4 - p)).length = 4 - p := by rw [List.length_take]; omega
      have e2 : body.length - (4 - p) = (body.drop (4 - p)).length := by rw [List.length_drop]
      rw [e1, e2, List.take_left' rfl, List.drop_left' rfl, List.take_append_drop]
  rw [hbody]
  simp only [hdec, hv, ↓reduceIte]

/-- Whatever `readHeaderFlat` accepts is well-formed: in particular no byte between the header
and `rest` is lost, although the reader always pulls four bytes first. -/
theorem wellFormed_of_readHeaderFlat (max : Nat) (flat pid rest : Bytes) (a : Nat)
    (h : readHeaderFlat max flat = .ok (pid, rest, a)) : WellFormed max flat pid rest := by
  unfold readHeaderFlat atLeastFlat at h
  by_cases h4 : 4 ≤ flat.length + ([] : Bytes).length
  swap
  · rw [if_neg h4] at h; cases h
  rw [if_pos h4] at h
  simp only [List.length_nil, Nat.sub_zero, List.nil_append, Nat.add_zero] at h h4
  cases hC : Pb.consume (flat.take 4) with
  | eof => rw [hC] at h; cases h
  | overflow => rw [hC] at h; cases h
  | ok L n =>
    rw [hC] at h
    simp only at h
    have hb := Pb.consume_bounds _ _ _ hC
    rw [List.length_take, Nat.min_eq_left h4] at hb
    by_cases g1 : L > maxInt32
    · rw [if_pos g1] at h; cases h
    rw [if_neg g1] at h
    by_cases g2 : L > max ∨ L = 0
    · rw [if_pos g2] at h; cases h
    rw [if_neg g2] at h
    have hpre : Pb.consume (flat.take n) = .ok L (flat.take n).length := by
      have := Pb.consume_take_self _ _ _ hC
      rw [List.take_take, Nat.min_eq_left hb.2] at this
      rw [this, List.length_take, Nat.min_eq_left (by omega)]
    have hpl : (flat.take n).length = n := by rw [List.length_take]; omega
    have hlen4 : (flat.take 4).length - n = 4 - n := by
      rw [List.length_take, Nat.min_eq_left h4]
    rw [hlen4] at h
    have hd4 : (flat.take 4).drop n = (flat.drop n).take (4 - n) := by
      rw [List.drop_take]
    by_cases g3 : 4 - n ≥ L
    · rw [if_pos g3] at h
      simp only at h
      cases hdec : decodeEstablish (List.take L (List.drop n (List.take 4 flat))) with
      | error e => rw [hdec] at h; cases h
      | ok pid' =>
        rw [hdec] at h
        simp only at h
        by_cases hv : pidValid pid' = true
        · rw [if_pos hv] at h
          injection h with h
          injection h with h1 h2
          injection h2 with h2 _
          subst h1 h2
          have hne := pidValid_ne_nil pid' hv
          have h3 := decodeEstablish_length _ _ hdec hne
          rw [List.length_take, List.length_drop, List.length_take] at h3
          have hn1 : n = 1 := by omega
          have hL3 : L = 3 := by omega
          subst hn1 hL3
          refine ⟨flat.take 1, (flat.take 4).drop 1 |>.take 3, ?_, ?_, by rw [hpl]; omega, ?_, ?_, ?_, hdec, hv⟩
          · have e : List.take 3 (List.drop 1 (List.take 4 flat)) = (flat.drop 1).take 3 := by
              rw [hd4, List.take_take]; rfl
            rw [e]
            have : flat.drop 4 = (flat.drop 1).drop 3 := by rw [List.drop_drop]
            rw [this, List.append_assoc, List.take_append_drop, List.take_append_drop]
          · have e : (List.take 3 (List.drop 1 (List.take 4 flat))).length = 3 := by
              rw [List.length_take, List.length_drop, List.length_take]; omega
            rw [e]; exact hpre
          · rw [List.length_take, List.length_drop, List.length_take]; omega
          · rw [List.length_take, List.length_drop, List.length_take]; omega
          · rw [List.length_take, List.length_drop, List.length_take]; omega
        · rw [if_neg hv] at h; cases h
    · rw [if_neg g3] at h
      have hpl' : (List.take L (List.drop n (List.take 4 flat))).length = 4 - n := by
        rw [List.length_take, List.length_drop, List.length_take]; omega
      have hpe : List.take L (List.drop n (List.take 4 flat)) = (flat.drop n).take (4 - n) := by
        rw [hd4, List.take_take, Nat.min_eq_right (by omega)]
      by_cases g4 : L ≤ (flat.drop 4).length + (List.take L (List.drop n (List.take 4 flat))).length
      swap
      · rw [if_neg g4] at h; cases h
      rw [if_pos g4] at h
      simp only at h
      rw [hpl'] at h g4
      rw [hpe] at h
      cases hdec : decodeEstablish ((flat.drop n).take (4 - n) ++ (flat.drop 4).take (L - (4 - n))) with
      | error e => rw [hdec] at h; cases h
      | ok pid' =>
        rw [hdec] at h
        simp only at h
        by_cases hv : pidValid pid' = true
        · rw [if_pos hv] at h
          injection h with h
          injection h with h1 h2
          injection h2 with h2 _
          subst h1 h2
          rw [List.length_drop] at g4
          have hbody : (flat.drop n).take (4 - n) ++ (flat.drop 4).take (L - (4 - n)) = (flat.drop n).take L := by
            have e4 : flat.drop 4 = (flat.drop n).drop (4 - n) := by
              rw [List.drop_drop]; congr 1; omega
            rw [e4]
            have : L = (4 - n) + (L - (4 - n)) := by omega
            conv => rhs; rw [this, List.take_add]
          have hrest : (flat.drop 4).drop (L - (4 - n)) = (flat.drop n).drop L := by
            rw [List.drop_drop, List.drop_drop]; congr 1; omega
          have hblen : ((flat.drop n).take L).length = L := by
            rw [List.length_take, List.length_drop]; omega
          rw [hbody] at hdec
          refine ⟨flat.take n, (flat.drop n).take L, ?_, ?_, by rw [hpl]; omega, ?_, ?_, ?_, hdec, hv⟩
          · rw [hrest, List.append_assoc, List.take_append_drop, List.take_append_drop]
          · rw [hblen]; exact hpre
          · rw [hblen]; omega
          · rw [hblen]; omega
          · rw [hblen]; omega
        · rw [if_neg hv] at h; cases h

/-- The header reader accepts exactly the well-formed streams. -/
theorem readHeaderFlat_ok_iff (max : Nat) (flat pid rest : Bytes) :
    (∃ a, readHeaderFlat max flat = .ok (pid, rest, a)) ↔ WellFormed max flat pid rest :=
  ⟨fun ⟨a, h⟩ => wellFormed_of_readHeaderFlat max flat pid rest a h,
   readHeaderFlat_of_wellFormed max flat pid rest⟩


/-- The operational reading of well-formedness: the first four bytes hold a varint `L` of `n`
bytes, the stream has `n + L` bytes, the `L` bytes after the prefix decode to `pid`, and `rest`
is everything after them. (Used to refute well-formedness of the malformed classes.) -/
theorem WellFormed.prefix4 {max : Nat} {flat pid rest : Bytes} (h : WellFormed max flat pid rest) :
    ∃ L n, 4 ≤ flat.length ∧ Pb.consume (flat.take 4) = .ok L n ∧ L ≠ 0 ∧ L ≤ max ∧
      L ≤ maxInt32 ∧ n + L ≤ flat.length ∧ decodeEstablish ((flat.drop n).take L) = .ok pid ∧
      pidValid pid = true ∧ rest = flat.drop (n + L) := by
  obtain ⟨pre, body, hflat, hC, hp4, hL0, hLmax, hL32, hdec, hv⟩ := h
  have h3 := decodeEstablish_length body pid hdec (pidValid_ne_nil pid hv)
  have hp1 := (Pb.consume_bounds pre _ _ hC).1
  subst hflat
  refine ⟨body.length, pre.length, by simp only [List.length_append]; omega, ?_, hL0, hLmax, hL32,
    by simp only [List.length_append]; omega, ?_, hv, ?_⟩
  · rw [List.append_assoc, List.take_append, List.take_of_length_le hp4]
    exact Pb.consume_prefix_append pre _ _ hC
  · rw [List.append_assoc, List.drop_left, List.take_left' rfl]
    exact hdec
  · rw [List.append_assoc, ← List.drop_drop, List.drop_left, List.drop_left]

/-- A stream starts with at most one well-formed header. -/
theorem WellFormed.unique {max : Nat} {flat pid rest pid' rest' : Bytes}
    (h : WellFormed max flat pid rest) (h' : WellFormed max flat pid' rest') :
    pid = pid' ∧ rest = rest' := by
  obtain ⟨L, n, _, hC, _, _, _, _, hd, _, hr⟩ := h.prefix4
  obtain ⟨L', n', _, hC', _, _, _, _, hd', _, hr'⟩ := h'.prefix4
  rw [hC] at hC'
  injection hC' with hL hn
  subst hL hn
  rw [hd] at hd'
  injection hd' with hp
  exact ⟨hp, by rw [hr, hr']⟩

end Framing
end Bifrost
