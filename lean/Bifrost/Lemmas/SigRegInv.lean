import Bifrost.Lemmas.SigBase
/-! The inductive invariant of the relay-server LTS used for C24/C25. -/
namespace Bifrost
namespace SigReg
open Bifrost.Sig

/-- the call id registered on side `isA` of a session tracker -/
def oursCall (t : Sess) (isA : Bool) : Option Nat := ((t.sides isA).1).map (·.call)

/-- Prop form of `SCall.attached`. -/
def Attd (s : State) (c : SCall) : Prop := ∃ t, getSess s c.sess = some t ∧ oursCall t c.isA = some c.id

theorem attached_iff (s : State) (c : SCall) : c.attached s = true ↔ Attd s c := by
  unfold Attd SCall.attached SCall.oursOther oursCall
  cases h : getSess s c.sess with
  | none => simp
  | some t =>
    simp only [Option.some.injEq, exists_eq_left']
    cases h2 : (t.sides c.isA).1 <;> simp

theorem sessKey_inj {a b a' b' : Nat} (h1 : (sessKey a b).1 = (sessKey a' b').1)
    (h2 : (sessKey a b).2 = (sessKey a' b').2) : a = a' ∧ b = b' := by
  unfold sessKey at h1 h2
  split at h1 <;> split at h1 <;> simp_all

structure Inv (s : State) : Prop where
  tkLt : ∀ x t, getTkr s x = some t → x < s.next
  ssLt : ∀ x t, getSess s x = some t → x < s.next
  pmTk : ∀ p x, lookupPeer s p = some x → ∃ t, getTkr s x = some t ∧ t.pid = p
  smSs : ∀ k x, lookupSess s k = some x → ∃ t, getSess s x = some t ∧ (t.a, t.b) = k
  pmNd : (s.peerMap.map (·.1)).Nodup
  scNd : (s.scalls.map (·.id)).Nodup
  lcNd : (s.lcalls.map (·.id)).Nodup
  tkIn : ∀ x t, getTkr s x = some t → (t.listening = true ∨ t.wants ≠ []) → lookupPeer s t.pid = some x
  pmLive : ∀ p x t, lookupPeer s p = some x → getTkr s x = some t → t.listening = true ∨ t.wants ≠ []
  lsnr : ∀ x t, getTkr s x = some t → t.listening = true →
    ∃ i l, getLCall s i = some l ∧ l.ended = false ∧ l.tkr = x ∧ l.myNonce = t.nonce
  lcTk : ∀ i l, getLCall s i = some l → ∃ t, getTkr s l.tkr = some t ∧ t.pid = l.pid ∧
    l.myNonce ≤ t.nonce ∧ l.waitGen ≤ t.gen ∧ (l.ended = false → l.myNonce = t.nonce → t.listening = true)
  lcUniq : ∀ i i' l l', getLCall s i = some l → getLCall s i' = some l' → l.tkr = l'.tkr →
    l.myNonce = l'.myNonce → i = i'
  lcRepl : ∀ i l t, getLCall s i = some l → getTkr s l.tkr = some t → l.ended = false → l.failing = false →
    l.myNonce ≠ t.nonce → l.runnable = true ∨ l.waitGen < t.gen
  lcQ : ∀ i l t, getLCall s i = some l → getTkr s l.tkr = some t → l.ended = false → l.failing = false →
    l.runnable = false → t.gen ≤ l.waitGen → l.outbox = [] ∧ ∀ w, w ∈ l.sentWant ↔ w ∈ t.wants
  ssIn : ∀ x t isA cid, getSess s x = some t → oursCall t isA = some cid → lookupSess s (t.a, t.b) = some x
  smLive : ∀ k x t, lookupSess s k = some x → getSess s x = some t → ∃ isA cid, oursCall t isA = some cid
  attC : ∀ x t isA cid, getSess s x = some t → oursCall t isA = some cid →
    ∃ c, getSCall s cid = some c ∧ c.sess = x ∧ c.isA = isA ∧ c.ended = false
  scOk : ∀ i c, getSCall s i = some c → c.src ≠ c.dst ∧
    (∃ t, getSess s c.sess = some t ∧ (t.a, t.b) = (sessKey c.src c.dst).1 ∧ c.waitGen ≤ t.gen) ∧
    (∃ dt, getTkr s c.dstTkr = some dt ∧ dt.pid = c.dst)
  scRepl : ∀ i c t, getSCall s i = some c → getSess s c.sess = some t → c.ended = false → c.failing = false →
    oursCall t c.isA ≠ some c.id → c.waitGen < t.gen
  wants : ∀ x t w, getTkr s x = some t →
    (w ∈ t.wants ↔ ∃ i c, getSCall s i = some c ∧ c.ended = false ∧ Attd s c ∧ c.src = w ∧ c.dstTkr = x)

/-- session tracker frame: same key, same attached call ids, generation not decreasing -/
def SessFr (t t' : Sess) : Prop :=
  t'.a = t.a ∧ t'.b = t.b ∧ (∀ isA, oursCall t' isA = oursCall t isA) ∧ t.gen ≤ t'.gen

/-- session call frame -/
def SCallFr (s : State) (c c' : SCall) : Prop :=
  c'.id = c.id ∧ c'.src = c.src ∧ c'.dst = c.dst ∧ c'.sess = c.sess ∧ c'.dstTkr = c.dstTkr ∧ c'.ended = c.ended ∧
    (c.failing = true → c'.failing = true) ∧
    (c'.waitGen = c.waitGen ∨ ∃ t, getSess s c.sess = some t ∧ c'.waitGen = t.gen ∧
      (c'.failing = true ∨ oursCall t c.isA = some c.id))

theorem SessFr.refl (t : Sess) : SessFr t t := by simp [SessFr]
theorem SCallFr.refl (s : State) (c : SCall) : SCallFr s c c := by simp [SCallFr]

/-- Frame for the session-internal events (`send`, `ack`, `clear`, `loop`, `send_`): the session
trackers keep their attachments' call ids; session calls keep identity, ends and status. -/
theorem frameS {s s' : State} (hinv : Inv s)
    (htk : s'.tkrs = s.tkrs) (hpm : s'.peerMap = s.peerMap) (hsm : s'.sessMap = s.sessMap)
    (hlc : s'.lcalls = s.lcalls) (hnx : s'.next = s.next)
    (hids : s'.scalls.map (·.id) = s.scalls.map (·.id))
    (hss : ∀ x t, getSess s x = some t → ∃ t', getSess s' x = some t' ∧ SessFr t t')
    (hss' : ∀ x t', getSess s' x = some t' → ∃ t, getSess s x = some t ∧ SessFr t t')
    (hsc : ∀ i c, getSCall s i = some c → ∃ c', getSCall s' i = some c' ∧ SCallFr s c c')
    (hsc' : ∀ i c', getSCall s' i = some c' → ∃ c, getSCall s i = some c ∧ SCallFr s c c') :
    Inv s' := by
  have gtk := getTkr_congr htk
  have gpm := lookupPeer_congr hpm
  have gsm := lookupSess_congr hsm
  have glc := getLCall_congr hlc
  have hisA : ∀ c c' : SCall, c'.src = c.src → c'.dst = c.dst → c'.isA = c.isA := by
    intro c c' h1 h2; simp [SCall.isA, h1, h2]
  constructor
  · grind [Inv, SessFr, SCallFr]
  · grind [Inv, SessFr, SCallFr]
  · grind [Inv, SessFr, SCallFr]
  · grind [Inv, SessFr, SCallFr]
  · grind [Inv, SessFr, SCallFr]
  · grind [Inv, SessFr, SCallFr]
  · grind [Inv, SessFr, SCallFr]
  · grind [Inv, SessFr, SCallFr]
  · grind [Inv, SessFr, SCallFr]
  · grind [Inv, SessFr, SCallFr]
  · grind [Inv, SessFr, SCallFr]
  · grind [Inv, SessFr, SCallFr]
  · grind [Inv, SessFr, SCallFr]
  · grind [Inv, SessFr, SCallFr]
  · grind [Inv, SessFr, SCallFr]
  · grind [Inv, SessFr, SCallFr]
  · grind [Inv, SessFr, SCallFr]
  · grind [Inv, SessFr, SCallFr]
  · grind [Inv, SessFr, SCallFr]
  · grind [Inv, Attd, SessFr, SCallFr]

end SigReg
end Bifrost
