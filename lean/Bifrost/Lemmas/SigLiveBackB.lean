import Bifrost.Lemmas.SigLiveBackA
import Bifrost.Lemmas.SigRegZero
/-!
Backward preservation of relay-call liveness, part B: the teardown `end_` (only the ended call's
own attachment disappears) and the registration `init` (only the fresh call is new).
-/
namespace Bifrost
namespace SigLiveBack
open Bifrost.Sig Bifrost.SigReg

theorem oursCall_congr {t t' : Sess} (h1 : t'.attA = t.attA) (h2 : t'.attB = t.attB) (b : Bool) :
    oursCall t' b = oursCall t b := by
  cases b <;> simp [oursCall, Sess.sides, h1, h2]

/-- rewriting the tracker found at `x`, not adding attachments with ids in `P` -/
theorem Back.setSess_sub {s : Sig.State} (P : Nat → Prop) {t t' : Sess} {x : Nat} (ht : getSess s x = some t)
    (hsid : t'.sid = t.sid) (h : ∀ b j, oursCall t' b = some j → P j → oursCall t b = some j) :
    Back s (Sig.setSess s t') P := by
  refine Back.setSess P ?_
  intro t0 ht0 b j ho hp
  rw [hsid, getSess_sid ht, ht] at ht0
  cases ht0
  exact h b j ho hp

theorem back_maybeReleaseSession (P : Nat → Prop) (s : Sig.State) (k : Nat × Nat) :
    Back s (maybeReleaseSession s k) P := by
  unfold maybeReleaseSession
  split
  · exact Back.refl _ _
  rename_i sid hl
  split
  · exact Back.refl _ _
  rename_i t ht
  split
  · exact Back.refl _ _
  · refine Back.trans (Back.of_eq P (s' := { s with sessMap := s.sessMap.filter (·.1 ≠ k) }) rfl rfl) ?_
    exact Back.setSess_same P (t := t) (x := sid) ht rfl (oursCall_bcast t)

theorem back_sEnd (P : Nat → Prop) (s : Sig.State) (call : Nat) : Back s (sEnd s call) P := by
  unfold sEnd
  split
  · exact Back.refl _ _
  rename_i c hc
  have hid := getSCall_id hc
  have h0 : Back s (Sig.setSCall s { c with ended := true, failing := true, outbox := [] }) P :=
    Back.setSCall P (c := c) (by simpa [hid] using hc) rfl rfl (by simp) (by simp) id
  simp only [SigReg.getSess_setSCall]
  split
  · exact h0
  rename_i t ht
  rcases hsd : t.sides c.isA with ⟨oursO, otherO⟩
  simp only []
  cases oursO with
  | none => exact h0
  | some ours =>
    simp only []
    split
    · exact h0
    · have h1 : Back s (Sig.setSess (Sig.setSCall s { c with ended := true, failing := true, outbox := [] })
          ({ t.setSides c.isA none (otherO.map fun o => { o with recv := none, recvSent := none }) with
              seqno := (t.setSides c.isA none (otherO.map fun o => { o with recv := none, recvSent := none })).seqno + 1 } : Sess).bcast) P := by
        refine h0.trans (Back.setSess_sub P (t := t) (x := c.sess) (by simpa using ht) (by simp [Sess.bcast]) ?_)
        intro b j ho _
        rw [oursCall_bcast] at ho
        have ho := (oursCall_congr (t := t.setSides c.isA none (otherO.map fun o => { o with recv := none, recvSent := none })) rfl rfl b).symm.trans ho
        rw [oursCall_setSides] at ho
        rw [oursCall_of_sides hsd]
        by_cases hb : b = c.isA
        · rw [if_pos hb] at ho; simp at ho
        · rw [if_neg hb] at ho
          rw [if_neg hb]
          simpa [Option.map_map, Function.comp_def] using ho
      refine Back.trans ?_ (Back.sessEq P (SigSess.SessEq_maybeReleasePeer _ _))
      have h2 := h1.trans (back_maybeReleaseSession P _ (sessKey c.src c.dst).1)
      refine h2.trans ?_
      split
      · exact Back.sessEq P (SigSess.SessEq_setTkr _ _)
      · exact Back.refl _ _

/-- the record of an ended call says so -/
theorem sEnd_ended {s : Sig.State} {call : Nat} {c : SCall} (hc : getSCall s call = some c) :
    ∃ c', getSCall (sEnd s call) call = some c' ∧ c'.ended = true := by
  have h := sEnd_scalls s call
  rw [hc] at h
  simp only [] at h
  rw [getSCall_congr h, getSCall_setSCall]
  have hid := getSCall_id hc
  refine ⟨{ c with ended := true, failing := true, outbox := [] }, ?_, rfl⟩
  simp [hid, hc]

/-- appending a call record whose id is not in `P` -/
theorem Back.appendCall {s : Sig.State} (P : Nat → Prop) (nc : SCall) (h : ¬ P nc.id) :
    Back s { s with scalls := s.scalls ++ [nc] } P := by
  refine ⟨fun x t' b j ht' ho _ => ⟨t', ht', ho⟩, ?_⟩
  intro i c' hp hc' he
  refine ⟨c', ?_, rfl, rfl, he, id, id⟩
  have hc'' : (s.scalls ++ [nc]).find? (fun y => decide (y.id = i)) = some c' := hc'
  rw [List.find?_append] at hc''
  show s.scalls.find? (fun y => decide (y.id = i)) = some c'
  cases h0 : s.scalls.find? (fun y => decide (y.id = i)) with
  | some d => rw [h0] at hc''; simpa using hc''
  | none =>
    rw [h0] at hc''
    simp only [Option.none_or, List.find?_cons, List.find?_nil] at hc''
    split at hc''
    · rename_i hd
      simp only [decide_eq_true_eq] at hd
      exact absurd (hd ▸ hp) h
    · cases hc''

/-- `getSession`: nothing is attached to a freshly allocated tracker -/
theorem back_getSession (P : Nat → Prop) (s : Sig.State) (k : Nat × Nat) :
    Back s (getSession s k).1 P ∧
    (∀ t0, getSess (getSession s k).1 (getSession s k).2.sid = some t0 →
      ∀ b j, oursCall (getSession s k).2 b = some j → oursCall t0 b = some j) := by
  unfold getSession
  split
  · rename_i sid hl
    split
    · rename_i t ht
      refine ⟨Back.refl _ _, ?_⟩
      intro t0 ht0 b j ho
      simp only [] at ht0 ho
      rw [getSess_sid ht, ht] at ht0
      cases ht0
      exact ho
    · rename_i hn
      refine ⟨Back.refl _ _, ?_⟩
      intro t0 ht0
      simp only [] at ht0
      rw [hn] at ht0
      cases ht0
  · refine ⟨?_, ?_⟩
    · refine ⟨?_, fun i c' _ hc' he => ⟨c', hc', rfl, rfl, he, id, id⟩⟩
      intro x t' b j ht' ho _
      have ht'' : (s.sesss ++ [({ sid := s.next, a := k.1, b := k.2 } : Sess)]).find? (fun y => decide (y.sid = x)) = some t' := ht'
      rw [List.find?_append] at ht''
      cases h0 : s.sesss.find? (fun y => decide (y.sid = x)) with
      | some d =>
        rw [h0] at ht''
        simp only [Option.some_or, Option.some.injEq] at ht''
        subst ht''
        exact ⟨d, h0, ho⟩
      | none =>
        rw [h0] at ht''
        simp only [Option.none_or, List.find?_cons, List.find?_nil] at ht''
        split at ht''
        · simp only [Option.some.injEq] at ht''
          subst ht''
          cases b <;> simp [oursCall, Sess.sides] at ho
        · cases ht''
    · intro t0 _ b j ho
      cases b <;> simp [oursCall, Sess.sides] at ho

theorem back_sInit (s : Sig.State) (call src dst : Nat) :
    Back s (sInit s call src dst) (fun j => j ≠ call) := by
  unfold sInit
  rcases hgp : getPeer s dst with ⟨s1, dt, ex⟩
  simp only []
  have hs1 : SigSess.SessEq s s1 := by have := SigSess.SessEq_getPeer s dst; rw [hgp] at this; exact this
  generalize hs2 : (if src ∈ dt.wants then s1 else setTkr s1 ({ dt with wants := insertSorted src dt.wants }).bcast) = s2
  have hs2' : SigSess.SessEq s s2 := by
    subst hs2; split
    · exact hs1
    · exact hs1.trans (SigSess.SessEq_setTkr _ _)
  rcases hkk : sessKey src dst with ⟨k, isA⟩
  simp only []
  have hg := back_getSession (fun j => j ≠ call) s2 k
  rcases hgs : getSession s2 k with ⟨s3, t⟩
  rw [hgs] at hg
  simp only [] at hg ⊢
  rcases hsd : t.sides isA with ⟨o1, other⟩
  simp only []
  refine ((Back.sessEq _ hs2').trans hg.1).trans (Back.trans (Back.setSess _ ?_) (Back.appendCall _ _ (by simp)))
  intro t0 ht0 b j ho hp
  have hsid : ((({ t.setSides isA (some { call := call }) (other.map fun o => { o with recv := none, recvSent := none }) with
      seqno := (t.setSides isA (some { call := call }) (other.map fun o => { o with recv := none, recvSent := none })).seqno + 1 } : Sess).bcast).sid) = t.sid := by
    simp [Sess.bcast]
  rw [hsid] at ht0
  refine hg.2 t0 ht0 b j ?_
  rw [oursCall_bcast] at ho
  have ho := (oursCall_congr (t := t.setSides isA (some { call := call }) (other.map fun o => { o with recv := none, recvSent := none })) rfl rfl b).symm.trans ho
  rw [oursCall_setSides] at ho
  rw [oursCall_of_sides hsd]
  by_cases hb : b = isA
  · rw [if_pos hb] at ho
    simp only [Option.map_some, Option.some.injEq] at ho
    exact absurd ho.symm hp
  · rw [if_neg hb] at ho
    rw [if_neg hb]
    simpa [Option.map_map, Function.comp_def] using ho

end SigLiveBack
end Bifrost
