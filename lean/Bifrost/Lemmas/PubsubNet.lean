import Bifrost.Model.Pubsub
/-! Invariants of the floodsub network model (`Bifrost.Pubsub.Net`) for C28: safety part
(at most once, no echo). -/
namespace Bifrost
namespace Pubsub
namespace Net

/-! ### how a step changes one node -/

/-- The ways a single step can change a node. -/
inductive NodeChange (nd : Node) : Node → Prop where
  | same : NodeChange nd nd
  | hvm (m : Msg) (prev : Nat) : NodeChange nd (hvm nd m prev)
  | queue (q : List (Msg × Nat)) (hq : ∀ x ∈ q, x ∈ nd.queue) : NodeChange nd { nd with queue := q }
  | know (k : List (Nat × Nat)) : NodeChange nd { nd with know := k }
  | subs (k : List Nat) : NodeChange nd { nd with subs := k }
  | peers (k : List Nat) : NodeChange nd { nd with peers := k }

theorem setNode_nodes (s : State) (n : Nat) (nd : Node) (k : Nat) :
    (s.setNode n nd).nodes k = if k = n then nd else s.nodes k := rfl

theorem setNode_wire (s : State) (n : Nat) (nd : Node) : (s.setNode n nd).wire = s.wire := rfl
theorem setNode_sent (s : State) (n : Nat) (nd : Node) : (s.setNode n nd).sent = s.sent := rfl

/-- Every step changes every node in one of the listed ways. -/
theorem step_nodeChange (s : State) (ev : Ev) (k : Nat) : NodeChange (s.nodes k) ((step s ev).nodes k) := by
  cases ev with
  | publish n m =>
    simp only [step, setNode_nodes]
    split
    · rename_i h; subst h; exact .hvm m m.origin
    · exact .same
  | recv i =>
    simp only [step]
    split
    · exact .same
    · rename_i f t m _
      split
      · simp only [setNode_nodes]
        split
        · rename_i h; subst h; exact .hvm m f
        · exact .same
      · exact .same
  | fwd n =>
    simp only [step]
    split
    · exact .same
    · rename_i m prev rest hq
      simp only [setNode_nodes]
      split
      · rename_i h
        subst h
        refine .queue rest ?_
        intro x hx
        rw [hq]
        exact List.mem_cons_of_mem _ hx
      · exact .same
  | learn n p ch b =>
    simp only [step, setNode_nodes]
    split
    · rename_i h; subst h; exact .know _
    · exact .same
  | setSub n ch b =>
    simp only [step, setNode_nodes]
    split
    · rename_i h; subst h; exact .subs _
    · exact .same
  | setPeer n p b =>
    simp only [step, setNode_nodes]
    split
    · rename_i h; subst h; exact .peers _
    · exact .same
  | lose i => exact .same

/-! ### at most once -/

/-- Node invariant: a delivered id is in the seen set and was delivered once. -/
def NodeOk (nd : Node) : Prop := ∀ id, nd.delivered.count id ≤ 1 ∧ (id ∈ nd.delivered → id ∈ nd.seen)

theorem hvm_nodeOk (nd : Node) (m : Msg) (prev : Nat) (h : NodeOk nd) : NodeOk (hvm nd m prev) := by
  unfold hvm
  split
  · exact h
  · rename_i hs
    have hns : m.id ∉ nd.seen := by simpa using hs
    intro id
    simp only
    split
    · constructor
      · rw [List.count_cons]
        by_cases e : m.id = id
        · subst e
          have : m.id ∉ nd.delivered := fun hd => hns ((h m.id).2 hd)
          rw [List.count_eq_zero_of_not_mem this]
          simp
        · have : (m.id == id) = false := by simpa using e
          rw [this]
          simpa using (h id).1
      · intro hd
        rcases List.mem_cons.mp hd with e | e
        · rw [e]; exact List.mem_cons_self
        · exact List.mem_cons_of_mem _ ((h id).2 e)
    · exact ⟨(h id).1, fun hd => List.mem_cons_of_mem _ ((h id).2 hd)⟩

theorem nodeChange_nodeOk {nd nd' : Node} (c : NodeChange nd nd') (h : NodeOk nd) : NodeOk nd' := by
  cases c with
  | same => exact h
  | hvm m prev => exact hvm_nodeOk nd m prev h
  | queue q _ => exact h
  | know k => exact h
  | subs k => exact h
  | peers k => exact h

theorem run_nodeOk (s : State) (evs : List Ev) (h : ∀ k, NodeOk (s.nodes k)) :
    ∀ k, NodeOk ((run s evs).nodes k) := by
  induction evs generalizing s with
  | nil => exact h
  | cons ev rest ih =>
    apply ih
    intro k
    exact nodeChange_nodeOk (step_nodeChange s ev k) (h k)

theorem init_nodeOk (cfg : Nat → Cfg) (k : Nat) : NodeOk ((init cfg).nodes k) := by
  intro id
  simp [init]

/-! ### no echo -/

/-- Every recorded send avoids the origin and the previous hop, and the previous hop is the
one recorded when the sender accepted the message. -/
def SentOk (s : State) : Prop :=
  (∀ x ∈ s.sent, x.dst ≠ x.msg.origin ∧ x.dst ≠ x.prev ∧ (x.msg.id, x.prev) ∈ (s.nodes x.src).firstHop) ∧
  (∀ n m p, (m, p) ∈ (s.nodes n).queue → (m.id, p) ∈ (s.nodes n).firstHop)

theorem hvm_firstHop_mono (nd : Node) (m : Msg) (prev : Nat) (x : Nat × Nat) (h : x ∈ nd.firstHop) :
    x ∈ (hvm nd m prev).firstHop := by
  unfold hvm
  split
  · exact h
  · exact List.mem_cons_of_mem _ h

theorem hvm_queue_firstHop (nd : Node) (m : Msg) (prev : Nat)
    (h : ∀ m' p, (m', p) ∈ nd.queue → (m'.id, p) ∈ nd.firstHop) :
    ∀ m' p, (m', p) ∈ (hvm nd m prev).queue → (m'.id, p) ∈ (hvm nd m prev).firstHop := by
  unfold hvm
  split
  · exact h
  · intro m' p hq
    simp only at hq ⊢
    rcases List.mem_append.mp hq with hq | hq
    · exact List.mem_cons_of_mem _ (h m' p hq)
    · simp only [List.mem_singleton, Prod.mk.injEq] at hq
      rw [hq.1, hq.2]
      exact List.mem_cons_self

theorem nodeChange_firstHop_mono {nd nd' : Node} (c : NodeChange nd nd') (x : Nat × Nat)
    (h : x ∈ nd.firstHop) : x ∈ nd'.firstHop := by
  cases c with
  | same => exact h
  | hvm m prev => exact hvm_firstHop_mono nd m prev x h
  | queue q _ => exact h
  | know k => exact h
  | subs k => exact h
  | peers k => exact h

theorem nodeChange_queue_firstHop {nd nd' : Node} (c : NodeChange nd nd')
    (h : ∀ m' p, (m', p) ∈ nd.queue → (m'.id, p) ∈ nd.firstHop) :
    ∀ m' p, (m', p) ∈ nd'.queue → (m'.id, p) ∈ nd'.firstHop := by
  cases c with
  | same => exact h
  | hvm m prev => exact hvm_queue_firstHop nd m prev h
  | queue q hq => intro m' p hm; exact h m' p (hq _ hm)
  | know k => exact h
  | subs k => exact h
  | peers k => exact h

theorem fwdTargets_spec (nd : Node) (m : Msg) (prev p : Nat) (h : p ∈ fwdTargets nd m prev) :
    p ≠ m.origin ∧ p ≠ prev ∧ p ∈ nd.peers ∧ (m.ch, p) ∈ nd.know := by
  unfold fwdTargets at h
  rw [List.mem_filter] at h
  obtain ⟨h1, h2⟩ := h
  simp only [Bool.and_eq_true, decide_eq_true_eq, List.contains_iff_mem] at h2
  obtain ⟨⟨ho, hp⟩, hpe⟩ := h2
  refine ⟨ho, hp, hpe, ?_⟩
  rw [List.mem_map] at h1
  obtain ⟨e, he, hep⟩ := h1
  rw [List.mem_filter] at he
  obtain ⟨he1, he2⟩ := he
  have : e.1 = m.ch := by simpa using he2
  rw [← this, ← hep]
  exact he1

/-- the sent log only grows, and only in `fwd` steps, by the forwarding targets -/
theorem step_sent (s : State) (ev : Ev) (x : Sent) (hx : x ∈ (step s ev).sent) :
    x ∈ s.sent ∨ ∃ rest, (s.nodes x.src).queue = (x.msg, x.prev) :: rest ∧
      x.dst ∈ fwdTargets (s.nodes x.src) x.msg x.prev ∧ ev = .fwd x.src := by
  cases ev with
  | publish n m => left; simpa [step, setNode_sent] using hx
  | recv i =>
    left
    simp only [step] at hx
    split at hx
    · exact hx
    · split at hx
      · simpa [setNode_sent] using hx
      · simpa using hx
  | fwd n =>
    simp only [step] at hx
    split at hx
    · left; exact hx
    · rename_i m prev rest hq
      simp only [setNode_sent, List.mem_append, List.mem_map] at hx
      rcases hx with hx | ⟨p, hp, rfl⟩
      · left; exact hx
      · right; exact ⟨rest, hq, hp, rfl⟩
  | learn n p ch b => left; simpa [step, setNode_sent] using hx
  | setSub n ch b => left; simpa [step, setNode_sent] using hx
  | setPeer n p b => left; simpa [step, setNode_sent] using hx
  | lose i => left; simpa [step] using hx

theorem step_sentOk (s : State) (ev : Ev) (h : SentOk s) : SentOk (step s ev) := by
  obtain ⟨h1, h2⟩ := h
  constructor
  · intro x hx
    rcases step_sent s ev x hx with hold | ⟨rest, hq, ht, _⟩
    · obtain ⟨a, b, c⟩ := h1 x hold
      exact ⟨a, b, nodeChange_firstHop_mono (step_nodeChange s ev x.src) _ c⟩
    · obtain ⟨a, b, _, _⟩ := fwdTargets_spec _ _ _ _ ht
      refine ⟨a, b, nodeChange_firstHop_mono (step_nodeChange s ev x.src) _ ?_⟩
      apply h2 x.src x.msg x.prev
      rw [hq]
      exact List.mem_cons_self
  · intro n
    exact nodeChange_queue_firstHop (step_nodeChange s ev n) (h2 n)

theorem run_sentOk (s : State) (evs : List Ev) (h : SentOk s) : SentOk (run s evs) := by
  induction evs generalizing s with
  | nil => exact h
  | cons ev rest ih => exact ih (step s ev) (step_sentOk s ev h)

theorem init_sentOk (cfg : Nat → Cfg) : SentOk (init cfg) := by
  constructor
  · intro x hx; simp [init] at hx
  · intro n m p hq; simp [init] at hq

end Net
end Pubsub
end Bifrost
