import Bifrost.Lemmas.SolicitSysBase
/-! Inductive invariants of the two-sided solicitation model, part A: the exchanged lists. -/
namespace Bifrost.SolicitSys
open Bifrost Bifrost.Solicit

def pendingRemote (mx : Nat) (n : Node) : List Bytes :=
  match n.inbox.getLast? with
  | some m => m.take mx
  | none => n.remote

structure InvA (c : Cfg) (st : State) : Prop where
  sentSorted : ∀ x, Srt (st.node x).sent
  remoteSorted : ∀ x, Srt (st.node x).remote
  inboxSorted : ∀ x, ∀ m ∈ (st.node x).inbox, Srt m
  sentEver : ∀ x, ∀ h ∈ (st.node x).sent, h ∈ (st.node x).everSent
  remoteEver : ∀ x, ∀ h ∈ (st.node x).remote, h ∈ (st.node x.other).everSent
  inboxEver : ∀ x, ∀ m ∈ (st.node x).inbox, ∀ h ∈ m, h ∈ (st.node x.other).everSent
  matchedEver : ∀ x, ∀ h ∈ (st.node x).matched, h ∈ (st.node x).everSent ∧ h ∈ (st.node x.other).everSent
  chan : ∀ x, pendingRemote (c.max x) (st.node x) = (st.node x.other).sent.take (c.max x)
  evald : ∀ x, ∀ h ∈ findMatching (st.node x).sent (st.node x).remote, h ∈ (st.node x).matched
  matchedNodup : ∀ x, (st.node x).matched.Nodup


theorem ev_matchedEver (lo : Bool) (n : Node) (E1 E2 : List Bytes) (hs : Srt n.sent) (hr : Srt n.remote)
    (h1 : ∀ h ∈ n.sent, h ∈ E1) (h2 : ∀ h ∈ n.remote, h ∈ E2) (h3 : ∀ h ∈ n.matched, h ∈ E1 ∧ h ∈ E2) :
    ∀ h ∈ (evaluate lo n).matched, h ∈ E1 ∧ h ∈ E2 := by
  intro h hm
  rw [mem_evaluate_matched] at hm
  rcases hm with hm | hm
  · exact h3 h hm
  · rw [findMatching_mem_iff _ _ hs hr] at hm
    exact ⟨h1 h hm.1, h2 h hm.2⟩

theorem ev_evald (lo : Bool) (n : Node) :
    ∀ h ∈ findMatching (evaluate lo n).sent (evaluate lo n).remote, h ∈ (evaluate lo n).matched := by
  intro h hm
  rw [mem_evaluate_matched]
  exact Or.inr hm

theorem ev_nodup (lo : Bool) (n : Node) (h : n.matched.Nodup) : (evaluate lo n).matched.Nodup := by
  rw [evaluate_matched]; exact nodup_append_fresh _ _ h

theorem getLast?_append_singleton' {α} (l : List α) (a : α) : (l ++ [a]).getLast? = some a := by
  simp

theorem invA_step (H : Bytes → Bytes) (c : Cfg) (st : State) (o : Op) (h : InvA c st) : InvA c (step H c st o) := by
  obtain ⟨h1, h2, h3, h4, h5, h6, h7, h8, h9, h10⟩ := h
  simp only [pendingRemote] at h8
  cases o with
  | add x d =>
    constructor <;> intro y <;> rcases eq_or_other x y with rfl | rfl <;> simp [step, pendingRemote] <;> grind [other_other]
  | remove x d =>
    constructor <;> intro y <;> rcases eq_or_other x y with rfl | rfl <;> simp [step, pendingRemote] <;> grind [other_other]
  | «open» x hh =>
    by_cases hp : hh ∈ (st.node x).pendingOpen
    · constructor <;> intro y <;> rcases eq_or_other x y with rfl | rfl <;> simp [step, hp, pendingRemote] <;> grind [other_other]
    · simp only [step, hp]
      exact ⟨h1, h2, h3, h4, h5, h6, h7, by simpa [pendingRemote] using h8, h9, h10⟩
  | arrive x s =>
    by_cases hp : s ∈ (st.node x).arriving
    · cases hs : st.streams[s]? with
      | none => simp only [step, hp, hs]; exact ⟨h1, h2, h3, h4, h5, h6, h7, by simpa [pendingRemote] using h8, h9, h10⟩
      | some sr =>
        constructor <;> intro y <;> rcases eq_or_other x y with rfl | rfl <;> simp [step, hp, hs, pendingRemote] <;> grind [other_other]
    · simp only [step, hp]
      exact ⟨h1, h2, h3, h4, h5, h6, h7, by simpa [pendingRemote] using h8, h9, h10⟩
  | sync x =>
    by_cases he : hashList H c x (st.node x) = (st.node x).sent
    · constructor <;> intro y <;> rcases eq_or_other x y with rfl | rfl <;> simp [step, he, pendingRemote]
      all_goals first
        | exact ev_matchedEver _ _ _ _ (h1 _) (h2 _) (h4 _) (h5 _) (h7 _)
        | exact ev_evald _ _
        | exact ev_nodup _ _ (h10 _)
        | grind [other_other]
    · have hsl := hashList_sorted H c x (st.node x)
      have hx : (step H c st (.sync x)).node x = evaluate (c.isLower x)
          { st.node x with sent := hashList H c x (st.node x),
                           everSent := (st.node x).everSent ++ hashList H c x (st.node x) } := by
        simp [step, he]
      have ho : (step H c st (.sync x)).node x.other =
          { st.node x.other with inbox := (st.node x.other).inbox ++ [hashList H c x (st.node x)] } := by
        simp [step, he]
      have hme : ∀ h ∈ ((step H c st (.sync x)).node x).matched,
          h ∈ ((step H c st (.sync x)).node x).everSent ∧ h ∈ ((step H c st (.sync x)).node x.other).everSent := by
        rw [hx, ho]
        refine ev_matchedEver _ _ _ _ hsl (h2 _) ?_ (h5 _) ?_
        · intro h hh; simp; exact Or.inr hh
        · intro h hh; simp; exact ⟨Or.inl (h7 x h hh).1, (h7 x h hh).2⟩
      constructor <;> intro y <;> rcases eq_or_other x y with rfl | rfl
      case matchedEver.inl => exact hme
      case evald.inl => rw [hx]; exact ev_evald _ _
      case matchedNodup.inl => rw [hx]; exact ev_nodup _ _ (h10 _)
      all_goals clear hme hx ho
      all_goals simp [step, he, pendingRemote]
      all_goals first
        | exact hsl
        | (clear h8; grind [other_other])
        | grind [other_other]
  | deliver x =>
    cases hi : (st.node x).inbox with
    | nil => simp only [step, hi]; exact ⟨h1, h2, h3, h4, h5, h6, h7, by simpa [pendingRemote] using h8, h9, h10⟩
    | cons m rest =>
      have hm : Srt m := h3 x m (by rw [hi]; exact List.mem_cons_self)
      have hmt : Srt (m.take (c.max x)) := srt_take _ _ hm
      have h8x := h8 x
      rw [hi] at h8x
      have hx : (step H c st (.deliver x)).node x = evaluate (c.isLower x)
          { st.node x with inbox := rest, remote := m.take (c.max x) } := by
        simp [step, hi]
      have ho : (step H c st (.deliver x)).node x.other = st.node x.other := by
        simp [step, hi]
      have hme : ∀ h ∈ ((step H c st (.deliver x)).node x).matched,
          h ∈ ((step H c st (.deliver x)).node x).everSent ∧ h ∈ ((step H c st (.deliver x)).node x.other).everSent := by
        rw [hx, ho]
        refine ev_matchedEver _ _ _ _ (h1 _) hmt (h4 _) ?_ (h7 _)
        intro h hh
        exact h6 x m (by rw [hi]; exact List.mem_cons_self) h (List.mem_of_mem_take hh)
      constructor <;> intro y <;> rcases eq_or_other x y with rfl | rfl
      case matchedEver.inl => exact hme
      case evald.inl => rw [hx]; exact ev_evald _ _
      case matchedNodup.inl => rw [hx]; exact ev_nodup _ _ (h10 _)
      all_goals clear hme hx ho
      all_goals simp [step, hi, pendingRemote]
      all_goals first
        | exact hmt
        | (clear h8 h8x; grind [other_other])
        | grind [other_other]

end Bifrost.SolicitSys
