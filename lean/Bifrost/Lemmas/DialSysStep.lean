import Bifrost.Lemmas.DialSysInv
/-! Every transition of the dialing system preserves `WF`. Helper lemmas for C05Sys. -/
namespace Bifrost
namespace DialSys
open Links (Link)

theorem wf_addRefStep {cfg : Cfg} {lp : Nat} {s : State} (h : WF cfg lp s) (k : Key) :
    WF cfg lp (addRefStep s k) := by
  unfold addRefStep
  split
  · exact h
  · rename_i hk
    split
    · rename_i hn
      exact
      { ids := h.ids, res_cr := h.res_cr, dmap_ok := h.dmap_ok, dmap_nd := h.dmap_nd, fin_pend := h.fin_pend,
        pend_lt := h.pend_lt
        keys_nd := by
          show (k :: s.lds.map (·.key)).Nodup
          refine List.nodup_cons.2 ⟨?_, h.keys_nd⟩
          intro hm
          obtain ⟨ld, hld, hkk⟩ := List.mem_map.1 hm
          exact getLD_none hn ld hld hkk
        ld_ok := by
          intro ld hld
          rcases List.mem_cons.1 hld with rfl | hld
          · exact ⟨hk, fun d hd => (by cases hd), fun l hl => (by cases hl), fun l hl => (by cases hl)⟩
          · exact h.ld_ok ld hld
        ret_ok := h.ret_ok, push_ok := h.push_ok }
    · rename_i ld hg
      obtain ⟨hmem, hkey⟩ := getLD_some hg
      refine h.setLD ?_
      exact h.ld_ok ld hmem

theorem wf_releaseStep {cfg : Cfg} {lp : Nat} {s : State} (h : WF cfg lp s) (k : Key) :
    WF cfg lp (releaseStep s k) := by
  unfold releaseStep
  split
  · exact h
  · rename_i ld hg
    obtain ⟨hmem, hkey⟩ := getLD_some hg
    split
    · exact
      { ids := h.ids, res_cr := h.res_cr, dmap_ok := h.dmap_ok, dmap_nd := h.dmap_nd, fin_pend := h.fin_pend,
        pend_lt := h.pend_lt
        keys_nd := by
          show ((s.lds.filter (fun x => x.key ≠ k)).map (·.key)).Nodup
          exact Links.nodup_map_filter _ _ h.keys_nd
        ld_ok := fun x hx => h.ld_ok x (List.mem_filter.1 hx).1
        ret_ok := h.ret_ok, push_ok := h.push_ok }
    · refine h.setLD ?_
      exact h.ld_ok ld hmem

theorem LDOk_restartOne (cfg : Cfg) {cr : List QuicTable.Entry} {qds : List QDialer} {ld : LDialer}
    (el : Link) (hn : Bool) (next : Option Link) (hnext : ∀ nl, next = some nl → ∃ a, (a, nl) ∈ cr)
    (h : LDOk cr qds ld) : LDOk cr qds (restartOne cfg el hn next ld) := by
  unfold restartOne
  split
  · rename_i hc
    obtain ⟨h1, h2, h3, h4⟩ := h
    have hdone : ld.rt = .done := (h4 el hc.2).2.2
    split
    · rename_i nl hnl
      have hnl' : next = some nl := by
        split at hnl
        · exact hnl
        · cases hnl
      split
      · rename_i hrem
        refine ⟨h1, ?_, ?_, ?_⟩
        · intro d hd; rw [hdone] at hd; cases hd
        · intro l hl; rw [hdone] at hl; cases hl
        · intro l hl
          simp only [Option.some.injEq] at hl
          subst hl
          exact ⟨hrem, hnext _ hnl', hdone⟩
      · exact ⟨h1, fun d hd => (by cases hd), fun l hl => (by cases hl), fun l hl => (by cases hl)⟩
    · refine ⟨h1, ?_, ?_, ?_⟩
      · intro d hd
        simp only at hd
        split at hd
        · rw [hdone] at hd; cases hd
        · cases hd
      · intro l hl
        simp only at hl
        split at hl
        · rw [hdone] at hl; cases hl
        · cases hl
      · intro l hl; cases hl
  · exact h

theorem restartOne_key (cfg : Cfg) (el : Link) (hn : Bool) (next : Option Link) (ld : LDialer) :
    (restartOne cfg el hn next ld).key = ld.key := by
  unfold restartOne
  split
  · split
    · split <;> rfl
    · rfl
  · rfl

theorem wf_applyFlushes {cfg : Cfg} {lp : Nat} (fl : List (Link × Bool × Option Link)) :
    ∀ {s : State}, WF cfg lp s → (∀ f ∈ fl, ∀ nl, f.2.2 = some nl → ∃ a, (a, nl) ∈ s.q.created) →
      WF cfg lp { s with lds := applyFlushes cfg fl s.lds } := by
  induction fl with
  | nil => intro s h _; exact h
  | cons f rest ih =>
    intro s h hn
    have h1 := h.mapLD (restartOne cfg f.1 f.2.1 f.2.2) (restartOne_key cfg f.1 f.2.1 f.2.2)
      (fun ld hld => LDOk_restartOne cfg f.1 f.2.1 f.2.2 (hn f List.mem_cons_self) (h.ld_ok ld hld))
    exact ih h1 (fun g hg => hn g (List.mem_cons_of_mem _ hg))

/-- the replacement a `HandleLinkEstablished` section hands to `flushEstablishedLink` is the link
being established -/
theorem flushedBy_est_next {c : Links.State} {l : Link} {f : Link × Bool × Option Link}
    (h : f ∈ flushedBy c (.est l)) : f.2.2 = some l ∧ f.2.1 = true := by
  simp only [flushedBy] at h
  split at h
  · cases h
  · split at h
    · cases h
    · split at h
      · split at h
        · cases h
        · simp only [List.mem_singleton] at h
          subst h
          exact ⟨rfl, rfl⟩
      · cases h

theorem flushedBy_lost_next {c : Links.State} {l : Link} {f : Link × Bool × Option Link}
    (h : f ∈ flushedBy c (.lost l)) : f.2.2 = none ∧ f.2.1 = false := by
  simp only [flushedBy] at h
  split at h
  · split at h
    · simp only [List.mem_singleton] at h
      subst h
      exact ⟨rfl, rfl⟩
    · split at h
      · simp only [List.mem_singleton] at h
        subst h
        exact ⟨rfl, rfl⟩
      · cases h
  · split at h
    · simp only [List.mem_singleton] at h
      subst h
      exact ⟨rfl, rfl⟩
    · cases h

theorem lookupAddr_created {q : QuicTable.State} (hq : QuicTable.QInv q) {a : Nat} {l : Link}
    (h : QuicTable.lookupAddr q a = some l) : (a, l) ∈ q.created ∧ (a, l) ∈ q.table := by
  unfold QuicTable.lookupAddr at h
  cases hf : q.table.find? (fun e => e.1 = a) with
  | none => simp [hf] at h
  | some e =>
    simp [hf] at h
    have h1 := List.mem_of_find?_eq_some hf
    have h2 : e.1 = a := by simpa using List.find?_some hf
    have : e = (a, l) := by cases e; simp_all
    subst this
    exact ⟨QuicTable.table_sub_created hq _ h1, h1⟩

theorem session_created (cfg : Cfg) (s : State) (a p : Nat) :
    (QuicTable.step cfg.U s.q (.session a p)).created = (a, nextLink cfg s a p) :: s.q.created := by
  rw [QuicTable.step_created]; rfl

/-- `HandleSession` at address `a`: a link is created, the entries of `t.dialers` for `a` go. -/
theorem wf_sessionAt {cfg : Cfg} {lp : Nat} {s : State} (h : WF cfg lp s) (a p : Nat) :
    WF cfg lp (sessionAt cfg s a p) := by
  unfold sessionAt
  have h1 := h.setQ (QuicTable.step cfg.U s.q (.session a p))
    (by intro e he; rw [session_created]; exact List.mem_cons_of_mem _ he)
  exact h1.delDmap a

/-- a pending dialer's dial succeeds: `HandleSession`, then `SetResult(lnk, nil)` -/
theorem wf_answerLink {cfg : Cfg} {lp : Nat} {s : State} (h : WF cfg lp s) {d who : Nat} {qd : QDialer}
    (hg : getQD s d = some qd) :
    WF cfg lp { setQDRes (sessionAt cfg s (cfg.resolve qd.addr) who) d
                  (.link (nextLink cfg s (cfg.resolve qd.addr) who)) with pendExit := d :: s.pendExit } := by
  have hs := wf_sessionAt h (cfg.resolve qd.addr) who
  have hg' : getQD (sessionAt cfg s (cfg.resolve qd.addr) who) d = some qd := hg
  refine hs.finishDialer hg' _ ?_
  intro l hl
  cases hl
  show _ ∈ (QuicTable.step cfg.U s.q (.session (cfg.resolve qd.addr) who)).created
  rw [session_created]; exact List.mem_cons_self

theorem wf_step {cfg : Cfg} {lp : Nat} {s : State} (h : WF cfg lp s) (hq : QuicTable.QInv s.q) (op : Op) :
    WF cfg lp (step cfg lp s op) := by
  cases op with
  | addRef k => exact wf_addRefStep h k
  | release k => exact wf_releaseStep h k
  | tptAdd d => simp only [step]; split; exact wf_addRefStep h _; exact h
  | tptDone d => simp only [step]; split; exact wf_releaseStep h _; exact h
  | ret k =>
    simp only [step]
    split
    · rename_i ld hg
      obtain ⟨hmem, hkey⟩ := getLD_some hg
      split
      · rename_i l hl
        obtain ⟨_, _, _, h4⟩ := h.ld_ok ld hmem
        exact
        { ids := h.ids, res_cr := h.res_cr, dmap_ok := h.dmap_ok, dmap_nd := h.dmap_nd, fin_pend := h.fin_pend,
          pend_lt := h.pend_lt, keys_nd := h.keys_nd, ld_ok := h.ld_ok
          ret_ok := by
            intro e he
            rcases List.mem_cons.1 he with rfl | he
            · rw [← hkey]; exact ⟨(h4 l hl).1, (h4 l hl).2.1⟩
            · exact h.ret_ok e he
          push_ok := h.push_ok }
      · exact h
    · exact h
  | tptPush d =>
    simp only [step]
    split
    · rename_i k hk
      split
      · rename_i ld hg
        obtain ⟨hmem, hkey⟩ := getLD_some hg
        split
        · rename_i l hl
          obtain ⟨_, _, _, h4⟩ := h.ld_ok ld hmem
          exact
          { ids := h.ids, res_cr := h.res_cr, dmap_ok := h.dmap_ok, dmap_nd := h.dmap_nd, fin_pend := h.fin_pend,
            pend_lt := h.pend_lt, keys_nd := h.keys_nd, ld_ok := h.ld_ok, ret_ok := h.ret_ok
            push_ok := by
              intro e he
              rcases List.mem_cons.1 he with rfl | he
              · exact ⟨k, hk, hkey ▸ (h4 l hl).1, (h4 l hl).2.1⟩
              · exact h.push_ok e he }
        · exact h
      · exact h
    · exact h
  | rtCheck k =>
    simp only [step]
    split
    · rename_i ld hg
      obtain ⟨hmem, hkey⟩ := getLD_some hg
      obtain ⟨o1, o2, o3, o4⟩ := h.ld_ok ld hmem
      split
      · rename_i hidle
        have hlnk : ∀ l, ld.lnk = some l → False := by
          intro l hl
          have := (o4 l hl).2.2
          rw [hidle] at this; cases this
        split
        · exact h.setLD ⟨o1, fun d hd => (by cases hd), fun l hl => (by cases hl),
            fun l hl => (hlnk l hl).elim⟩
        · rename_i l hl
          split
          · exact h.setLD ⟨o1, fun d hd => (by cases hd), fun l hl => (by cases hl),
              fun l hl => (hlnk l hl).elim⟩
          · rename_i hrem
            have hrem' : l.remote = k.1 := Classical.not_not.1 hrem
            split
            · refine h.setLD ⟨o1, fun d hd => (by cases hd), ?_, fun l hl => (hlnk l hl).elim⟩
              intro l' hl'
              simp only [Rt.got.injEq, Option.some.injEq] at hl'
              subst hl'
              rw [hkey]
              exact ⟨hrem', k.2, (lookupAddr_created hq hl).1⟩
            · exact h.setLD ⟨o1, fun d hd => (by cases hd), fun l hl => (by cases hl),
                fun l hl => (hlnk l hl).elim⟩
      · exact h
    · exact h
  | rtAttach k =>
    simp only [step]
    split
    · rename_i ld hg
      obtain ⟨hmem, hkey⟩ := getLD_some hg
      obtain ⟨o1, o2, o3, o4⟩ := h.ld_ok ld hmem
      split
      · rename_i hch
        have hlnk : ∀ l, ld.lnk = some l → False := by
          intro l hl
          have := (o4 l hl).2.2
          rw [hch] at this; cases this
        split
        · rename_i d hd
          have hin := dmapGet_some hd
          obtain ⟨d1, d2⟩ := h.dmap_ok _ hin
          refine h.setLD
            ⟨o1, ?_, fun l hl => (by cases hl), fun l hl => (hlnk l hl).elim⟩
          intro d' hd'
          simp only [Rt.awaiting.injEq] at hd'
          subst hd'
          refine ⟨d1, ?_⟩
          intro qd hqd hid
          rw [hkey]
          exact d2 qd hqd hid
        · rename_i hfree
          have hn := h.newDialer k.2 k.1 hfree
          refine hn.setLD ⟨o1, ?_, fun l hl => (by cases hl),
            fun l hl => (hlnk l hl).elim⟩
          intro d' hd'
          simp only [Rt.awaiting.injEq] at hd'
          subst hd'
          refine ⟨by simp, ?_⟩
          intro qd hqd hid
          rcases List.mem_cons.1 hqd with rfl | hq'
          · rw [hkey]
          · exact absurd hid (Nat.ne_of_lt (h.id_lt qd hq'))
      · exact h
    · exact h
  | rtAwait k =>
    simp only [step]
    split
    · rename_i ld hg
      obtain ⟨hmem, hkey⟩ := getLD_some hg
      obtain ⟨o1, o2, o3, o4⟩ := h.ld_ok ld hmem
      split
      · rename_i d haw
        have hlnk : ∀ l, ld.lnk = some l → False := by
          intro l hl
          have := (o4 l hl).2.2
          rw [haw] at this; cases this
        split
        · rename_i qd hqd
          obtain ⟨hqm, hqid⟩ := getQD_some hqd
          split
          · exact h.setLD ⟨o1, fun d hd => (by cases hd), fun l hl => (by cases hl),
              fun l hl => (hlnk l hl).elim⟩
          · rename_i l hres
            split
            · exact h.setLD ⟨o1, fun d hd => (by cases hd), fun l hl => (by cases hl),
                fun l hl => (hlnk l hl).elim⟩
            · rename_i hno
              refine h.setLD ⟨o1, fun d hd => (by cases hd), ?_, fun l hl => (hlnk l hl).elim⟩
              intro l' hl'
              simp only [Rt.got.injEq, Option.some.injEq] at hl'
              subst hl'
              have hk1 : k.1 ≠ 0 := hkey ▸ o1
              have hrem : l.remote = k.1 := by
                apply Classical.byContradiction
                intro hne
                exact hno ⟨hk1, hne⟩
              have haddr : qd.addr = ld.key.2 := (o2 d haw).2 qd hqm hqid
              have _ := haddr
              exact ⟨hkey ▸ hrem, cfg.resolve qd.addr, h.res_cr qd hqm l hres⟩
          · exact h
        · exact h
      · exact h
    · exact h
  | rtTimer k =>
    simp only [step]
    split
    · rename_i ld hg
      obtain ⟨hmem, hkey⟩ := getLD_some hg
      obtain ⟨o1, o2, o3, o4⟩ := h.ld_ok ld hmem
      split
      · rename_i hb
        have hlnk : ∀ l, ld.lnk = some l → False := by
          intro l hl
          have := (o4 l hl).2.2
          rw [hb] at this; cases this
        exact h.setLD
          ⟨o1, fun d hd => (by cases hd), fun l hl => (by cases hl), fun l hl => (hlnk l hl).elim⟩
      · exact h
    · exact h
  | rtStore k =>
    simp only [step]
    cases hg : getLD s k with
    | none => exact h
    | some ld =>
      obtain ⟨hmem, hkey⟩ := getLD_some hg
      obtain ⟨o1, o2, o3, o4⟩ := h.ld_ok ld hmem
      dsimp only
      by_cases hgot : ∃ ol, ld.rt = .got ol
      · obtain ⟨ol, hrt⟩ := hgot
        simp only [hrt]
        refine (h.setStale _).setLD ⟨o1, fun d hd => (by cases hd), fun l hl => (by cases hl), ?_⟩
        intro l hl
        simp only at hl
        subst hl
        exact ⟨(o3 l hrt).1, (o3 l hrt).2, rfl⟩
      · split
        · rename_i ol hrt; exact absurd ⟨ol, hrt⟩ hgot
        · exact h
  | answer d who =>
    simp only [step]
    split
    · rename_i qd hg
      split
      · split
        · exact h.finishDialer hg .failed (fun l hl => by cases hl)
        · exact wf_answerLink h hg
      · exact h
    · exact h
  | dexit d =>
    simp only [step]
    by_cases hin : d ∈ s.pendExit
    · rw [if_pos hin]
      -- a dialer whose removal is pending exists
      obtain ⟨qd, hqd⟩ := h.getQD_of_lt (h.pend_lt d hin)
      rw [hqd]
      exact h.dexit hqd
    · rw [if_neg hin]; exact h
  | strayAttach a x =>
    simp only [step]
    split
    · exact h
    · rename_i hfree
      exact h.newDialer a x hfree
  | inbound a p => exact wf_sessionAt h a p
  | close i =>
    exact h.setQ _ (by
      intro e he
      have := created_mono cfg lp s (.close i) e he
      simpa [step] using this)
  | runClose i =>
    exact h.setQ _ (by
      intro e he
      have := created_mono cfg lp s (.runClose i) e he
      simpa [step] using this)
  | runLost a l =>
    exact h.setQ _ (by
      intro e he
      have := created_mono cfg lp s (.runLost a l) e he
      simpa [step] using this)
  | runEst l =>
    simp only [step]
    split
    · rename_i hin
      have h1 := h.setQ (QuicTable.step cfg.U s.q (.runEst l)) (by
        intro e he
        have := created_mono cfg lp s (.runEst l) e he
        simpa [step, hin] using this)
      apply wf_applyFlushes _ h1
      intro f hf nl hnl
      rw [(flushedBy_est_next hf).1] at hnl
      cases hnl
      obtain ⟨a, ha⟩ := hq.pe_cr _ hin
      refine ⟨a, ?_⟩
      have := created_mono cfg lp s (.runEst l) _ ha
      simpa [step, hin] using this
    · exact h
  | runCtrlLost l =>
    simp only [step]
    split
    · rename_i hin
      have h1 := h.setQ (QuicTable.step cfg.U s.q (.runCtrlLost l)) (by
        intro e he
        have := created_mono cfg lp s (.runCtrlLost l) e he
        simpa [step, hin] using this)
      apply wf_applyFlushes _ h1
      intro f hf nl hnl
      rw [(flushedBy_lost_next hf).1] at hnl
      cases hnl
    · exact h

theorem wf_run (cfg : Cfg) (lp : Nat) (ops : List Op) : WF cfg lp (run cfg lp ops) := by
  induction ops using Links.snoc_induction with
  | nil => exact wf_init cfg lp
  | snoc ops op ih => rw [run_snoc]; exact wf_step ih (qinv_run cfg lp ops) op

theorem wf_runs {cfg : Cfg} {lp : Nat} {s : State} (h : WF cfg lp s) (hq : QuicTable.QInv s.q)
    (tail : List Op) : WF cfg lp (runs cfg lp s tail) ∧ QuicTable.QInv (runs cfg lp s tail).q := by
  induction tail generalizing s with
  | nil => exact ⟨h, hq⟩
  | cons op t ih =>
    rw [runs_cons]
    apply ih (wf_step h hq op)
    rcases step_q_cases cfg lp s op with h1 | ⟨o, _, h1⟩
    · rw [h1]; exact hq
    · rw [h1]; exact QuicTable.qinv_step _ hq o

end DialSys
end Bifrost
