import Bifrost.Model.SigClientRecv
import Bifrost.Lemmas.SigClient
/-! Helper lemmas about `ClientPeerRef.Recv` at call level (`Bifrost.SigC.recvIter`, `cstep`). -/
namespace Bifrost
namespace SigClient
open SigC

/-- Whatever the caller's context does, the effect of an iteration on the tracker is the LTS step. -/
theorem recvIter_fst (s : State) (sel : Sel) : (recvIter s sel).1 = recvStep s := by
  unfold recvIter
  cases s.recv <;> cases s.recvProcessed <;> cases sel <;> rfl

/-- The iteration returns a message exactly when a message is pending and unprocessed, and then
it is that message. -/
theorem recvIter_returned_iff (s : State) (sel : Sel) (r : Msg) :
    (recvIter s sel).2 = .returned r ↔ (s.recv = some r ∧ s.recvProcessed = false) := by
  unfold recvIter
  cases h : s.recv <;> cases hp : s.recvProcessed <;> cases sel <;> simp

theorem recvIter_not_returned (s : State) (sel : Sel) (h : ∀ r, (recvIter s sel).2 ≠ .returned r) :
    recvStep s = s := by
  unfold recvStep
  cases hr : s.recv with
  | none => rfl
  | some r =>
    cases hp : s.recvProcessed with
    | true => simp
    | false => exact absurd ((recvIter_returned_iff s sel r).2 ⟨hr, hp⟩) (h r)

theorem recvStep_delivered (s : State) (r : Msg) (hr : s.recv = some r) (hp : s.recvProcessed = false) :
    (recvStep s).delivered = (r, s.open_) :: s.delivered := by
  simp [recvStep, hr, hp]

theorem sendStep_delivered (s : State) (id : Nat) : (sendStep s id).delivered = s.delivered := by
  cases hc : getSend s id with
  | none => simp [sendStep, hc]
  | some c =>
    obtain ⟨cid, cmsg, ctx, cep, cres⟩ := c
    obtain ⟨open_, out, outSent, outAcked, outCancel, recv, recvProcessed, sends, delivered, emitted,
      accepted, ackedLog, failed⟩ := s
    cases cres with
    | some b => simp [sendStep, hc]
    | none =>
      cases open_ with
      | none => simp [sendStep, hc, setSend]
      | some e =>
        cases out with
        | none => by_cases hep : cep = some e <;> cases ctx <;> simp [sendStep, hc, hep, setSend]
        | some o =>
          by_cases hoid : o.seqno = cid <;> by_cases hep : cep = some e <;> cases ctx <;>
            cases outAcked <;> simp [sendStep, hc, hep, hoid, setSend]

theorem step_delivered_of_ne (s : State) (e : Ev) (he : e ≠ .recvStep) :
    (step s e).delivered = s.delivered := by
  cases e with
  | close => rfl
  | opened e => simp only [step, opened]; split <;> rfl
  | recvMsg m v g => simp only [step, recvMsg]; split <;> rfl
  | clearMsg k => simp only [step, clearMsg]; split <;> rfl
  | ackMsg k => simp only [step, ackMsg]; split <;> (try split) <;> rfl
  | txLoop =>
    simp only [step, txLoop]
    repeat' split
    all_goals rfl
  | sendStart m => rfl
  | sendStep id => exact sendStep_delivered s id
  | sendCancel id =>
    simp only [step, sendCancel, setSend]
    repeat' split
    all_goals rfl
  | recvStep => exact absurd rfl he

/-- Call-level invariant: the tracker is reachable and the ghost `delivered` is exactly the list
of messages returned by `Recv` calls. -/
structure CInv (c : CallState) : Prop where
  reach : Reachable c.st
  ret : c.returned = c.st.delivered.map (·.1)

theorem cinv_init : CInv {} := ⟨.init, rfl⟩

theorem cinv_cstep {c : CallState} (h : CInv c) (e : Ev) (sel : Sel) (hen : enabled c.st e = true) :
    CInv (cstep c e sel) := by
  by_cases he : e = .recvStep
  · subst he
    have hfst := recvIter_fst c.st sel
    have hreach : Reachable (recvStep c.st) := Reachable.step .recvStep h.reach hen
    unfold cstep
    simp only
    cases hout : (recvIter c.st sel) with
    | mk st' out =>
      have hst : st' = recvStep c.st := by rw [← hfst, hout]
      cases out with
      | returned r =>
        have hr := (recvIter_returned_iff c.st sel r).1 (by rw [hout])
        simp only
        refine ⟨by rw [hst]; exact hreach, ?_⟩
        simp only
        rw [hst, recvStep_delivered c.st r hr.1 hr.2, h.ret]
        rfl
      | canceled =>
        have hns : recvStep c.st = c.st := recvIter_not_returned c.st sel (by intro r; rw [hout]; simp)
        simp only
        refine ⟨by rw [hst]; exact hreach, ?_⟩
        simp only
        rw [hst, hns]; exact h.ret
      | again =>
        have hns : recvStep c.st = c.st := recvIter_not_returned c.st sel (by intro r; rw [hout]; simp)
        simp only
        refine ⟨by rw [hst]; exact hreach, ?_⟩
        simp only
        rw [hst, hns]; exact h.ret
  · have hc : cstep c e sel = { c with st := step c.st e } := by
      cases e <;> first | rfl | exact absurd rfl he
    rw [hc]
    refine ⟨Reachable.step e h.reach hen, ?_⟩
    simp only
    rw [step_delivered_of_ne c.st e he]
    exact h.ret

theorem cinv_of_creachable {c : CallState} (h : CReachable c) : CInv c := by
  induction h with
  | init => exact cinv_init
  | step e sel _ hen ih => exact cinv_cstep ih e sel hen

end SigClient
end Bifrost
