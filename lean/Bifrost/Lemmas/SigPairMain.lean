import Bifrost.Lemmas.SigPairLive
/-!
C23 liveness on the stable-pair machine, assembled: along every fair infinite execution of
`SigPair.stepO` from a state satisfying the pair invariant, in which no new `Send` is started
after `N`,
* both sides are eventually and forever synchronised (`ev_sync`),
* the number of pending `Send` calls of side x eventually reaches 0 (`ev_done`, an instance of
  the ranking rule `Temporal.wf_rank` with the measure
  `(pending sends, stage of the current send, position)` of `SigPairMono`),
* hence every `Send` call of side x that is pending at `N` eventually returns success
  (`pair_live`), and symmetrically for side y (`pair_live_y`).
-/
namespace Bifrost
namespace SigPair
open Bifrost.SigSys Bifrost.SigPairCli Bifrost.Temporal
set_option linter.unusedSimpArgs false

/-- no new `Send` call is started from `N` on -/
def NoStart (acts : Nat → PEv) (N : Nat) : Prop := ∀ n, N ≤ n → ∀ sd m, acts n ≠ some (sd, .sendStart m)

/-! ### synchronisation is reached and stays -/

theorem syncAfter_noAnn {l : List Sig.Resp} (h : noAnn l) (o : Option Nat) : syncAfter o l = o := by
  induction l with
  | nil => rfl
  | cons r l ih =>
    have h1 : isAnn r = false := h r (by simp)
    have h2 : noAnn l := fun x hx => h x (List.mem_cons_of_mem _ hx)
    cases r <;> simp only [isAnn] at h1 <;> first | (simpa [syncAfter] using ih h2) | cases h1

def SyncedX (s : PState) : Prop := PInv s ∧ SyncH s.x s.ep

theorem syncedX_stepO {p : PState} (h : SyncedX p) (o : PEv) : SyncedX (stepO p o) := by
  refine ⟨pinv_stepO h.1 o, ?_⟩
  rw [stepO_ep]
  cases o with
  | none => exact h.2
  | some sa =>
    obtain ⟨sd, a⟩ := sa
    cases sd with
    | true => simpa [stepO, step] using sync_self a h.1.hx.reach h.2
    | false => simpa [stepO, step] using sync_other (p := p.swap) a (by simpa using h.2)

theorem ev_syncx {ρ : Nat → PState} {acts : Nat → PEv} (hex : IsExec stepO ρ acts) {N : Nat}
    {S : Bool → Nat → Prop}
    (hinv : Always ρ N PInv) (hfair : PFair acts S) : ∀ n, N ≤ n → ∃ n1, n ≤ n1 ∧ Always ρ n1 SyncedX := by
  intro n hn
  obtain ⟨n0, hn0, ha⟩ := ev_ann hex hinv hfair n hn
  have hann : Always ρ n0 Announced :=
    always_of_step (ok := fun _ => True) hex ha (fun _ _ => trivial) (fun _ o h _ => announced_stable h o)
  obtain ⟨n1, hn1, hf⟩ := ev_flush hex hann hfair n0 (Nat.le_refl _)
  refine ⟨n1, Nat.le_trans hn0 hn1, ?_⟩
  have hi := hinv n1 (by omega)
  have h1 : SyncedX (ρ n1) := by
    refine ⟨hi, hann n1 hn1, ?_, hf⟩
    have := hi.hx.sync (hann n1 hn1)
    rwa [syncAfter_noAnn hf] at this
  exact always_of_step (ok := fun _ => True) hex h1 (fun _ _ => trivial) (fun _ o h _ => syncedX_stepO h o)

/-! ### the mirrored execution -/

def flipO : PEv → PEv
  | some (sd, a) => some (!sd, a)
  | none => none

theorem stepO_swap (p : PState) (o : PEv) : (stepO p o).swap = stepO p.swap (flipO o) := by
  cases o with
  | none => rfl
  | some sa => obtain ⟨sd, a⟩ := sa; exact step_swap p sd a

theorem exec_swap {ρ : Nat → PState} {acts : Nat → PEv} (hex : IsExec stepO ρ acts) :
    IsExec stepO (fun n => (ρ n).swap) (fun n => flipO (acts n)) := by
  intro n
  show (ρ (n + 1)).swap = _
  rw [hex n, stepO_swap]

theorem fair_swap {acts : Nat → PEv} {S : Bool → Nat → Prop} (h : PFair acts S) :
    PFair (fun n => flipO (acts n)) (fun sd => S (!sd)) := by
  intro sd a ha hS n
  obtain ⟨m, hm, he⟩ := h (!sd) a ha hS n
  exact ⟨m, hm, by simp [he, flipO]⟩

theorem noStart_swap {acts : Nat → PEv} {N : Nat} (h : NoStart acts N) : NoStart (fun n => flipO (acts n)) N := by
  intro n hn sd m he
  cases ha : acts n with
  | none => simp [ha, flipO] at he
  | some sa =>
    obtain ⟨sd', a'⟩ := sa
    simp only [ha, flipO, Option.some.injEq, Prod.mk.injEq] at he
    exact h n hn sd' m (by rw [ha, he.2])

theorem ev_sync {ρ : Nat → PState} {acts : Nat → PEv} (hex : IsExec stepO ρ acts) {N : Nat}
    {S : Bool → Nat → Prop}
    (hinv : Always ρ N PInv) (hfair : PFair acts S) : ∃ n1, N ≤ n1 ∧ Always ρ n1 J := by
  obtain ⟨n1, hn1, h1⟩ := ev_syncx hex hinv hfair N (Nat.le_refl _)
  have hinv' : Always (fun n => (ρ n).swap) N PInv := fun m hm => (hinv m hm).swap
  obtain ⟨n2, hn2, h2⟩ := ev_syncx (exec_swap hex) hinv' (fair_swap hfair) n1 hn1
  refine ⟨n2, Nat.le_trans hn1 hn2, fun m hm => ?_⟩
  have a := h1 m (Nat.le_trans hn2 hm)
  have b := h2 m hm
  exact ⟨a.1, a.2, by simpa using b.2⟩

/-! ### phase 3: the pending sends of side x complete -/

abbrev Rank := Nat × Stage × Nat

def rkKey (a : Rank) : Nat × Nat × Nat := (a.1, a.2.1.num, a.2.2)

def RankLt : Rank → Rank → Prop :=
  InvImage (Prod.Lex (fun a b : Nat => a < b) (Prod.Lex (fun a b : Nat => a < b) (fun a b : Nat => a < b))) rkKey

theorem rankLt_wf : WellFounded RankLt :=
  InvImage.wf rkKey (Prod.lex Nat.lt_wfRel (Prod.lex Nat.lt_wfRel Nat.lt_wfRel)).wf

theorem rankLt_of_pend {a b : Rank} (h : a.1 < b.1) : RankLt a b := Prod.Lex.left _ _ h

theorem rankLt_of_lex {n : Nat} {st st' : Stage} {j j' : Nat} (h : LexLt (st'.num, j') (st.num, j)) :
    RankLt (n, st', j') (n, st, j) := by
  refine Prod.Lex.right _ ?_
  rcases h with h | ⟨h1, h2⟩
  · exact Prod.Lex.left _ _ h
  · simp only at h1 h2
    show Prod.Lex _ _ (st'.num, j') (st.num, j)
    rw [h1]
    exact Prod.Lex.right _ h2

theorem Stage.num_inj {a b : Stage} (h : a.num = b.num) : a = b := by
  cases a <;> cases b <;> first | rfl | (simp [Stage.num] at h)

theorem hlp_not_start (st : Stage) (j : Nat) : ∀ m, (st.hlp j).2 ≠ .sendStart m := by
  intro m; cases st <;> simp [Stage.hlp]

def Done (s : PState) : Prop := pend s.x.cl = 0

theorem ev_done {ρ : Nat → PState} {acts : Nat → PEv} (hex : IsExec stepO ρ acts) {N : Nat}
    {S : Bool → Nat → Prop}
    (hJ : Always ρ N J) (hfair : PFair acts S) (hns : NoStart acts N)
    (hS : ∀ k, N ≤ k → ∀ id, Pending (ρ k).x.cl id → S true id) : ∀ n, N ≤ n → Eventually ρ n Done := by
  intro n hn
  by_cases hd : Done (ρ n)
  · exact ⟨n, Nat.le_refl _, hd⟩
  have hpos : 0 < pend (ρ n).x.cl := Nat.pos_of_ne_zero hd
  obtain ⟨st, j, hr⟩ := rk_total (hJ n hn) hpos
  refine wf_rank (σ := ρ) (ev := acts) (N := N) (goal := Done) rankLt_wf
    (R := fun s a => J s ∧ pend s.x.cl = a.1 ∧ Rk s a.2.1 a.2.2)
    (hlp := fun a => some (a.2.1.hlp a.2.2)) ?_ ?_ ?_ (pend (ρ n).x.cl, st, j) n hn ⟨hJ n hn, rfl, hr⟩
  · intro k hk a ⟨hj, _, hrk⟩ _
    refine hfair (a.2.1.hlp a.2.2).1 (a.2.1.hlp a.2.2).2 (hlp_not_start _ _) ?_ k
    intro id hid
    obtain ⟨n0, st0, j0⟩ := a
    simp only at hrk hid ⊢
    cases st0 <;> simp only [Stage.hlp, Act.sendStep.injEq] at hid ⊢ <;> try (exact absurd hid (by simp))
    case acked =>
      subst hid
      obtain ⟨o, b1, b2, b3, b4⟩ := hrk
      obtain ⟨c, hc, _, hk2⟩ := (SigClient.inv_of_reachable hj.inv.hx.reach).k2 o b1
      rcases hk2 with ⟨hn, _⟩ | ⟨_, hcan⟩
      · exact hS k hk _ ⟨c, by rw [← b2]; exact hc, hn⟩
      · rw [b4] at hcan; cases hcan
    case free =>
      subst hid
      exact hS k hk _ hrk.2
  · -- no step raises the rank
    intro k hk a ⟨hj, hp, hrk⟩ hg
    have hpos : 0 < pend (ρ k).x.cl := Nat.pos_of_ne_zero hg
    have hj' := hJ (k + 1) (by omega)
    rw [hex k] at hj' ⊢
    cases hact : acts k with
    | none => exact Or.inr ⟨a, ⟨hj, hp, hrk⟩, Or.inl rfl⟩
    | some sa =>
      obtain ⟨sd, act⟩ := sa
      rw [hact] at hj'
      have hnst : ∀ m', act ≠ .sendStart m' := fun m' he => hns k hk sd m' (by rw [hact, he])
      rcases rk_mono hj hpos hrk sd act hnst with hlt | ⟨heq, st', j', hr', hle⟩
      · by_cases hd' : Done (stepO (ρ k) (some (sd, act)))
        · exact Or.inl hd'
        · obtain ⟨st', j', hr'⟩ := rk_total hj' (Nat.pos_of_ne_zero hd')
          exact Or.inr ⟨(pend (step (ρ k) (sd, act)).x.cl, st', j'), ⟨hj', rfl, hr'⟩,
            Or.inr (rankLt_of_pend (by simp only; rw [← hp]; exact hlt))⟩
      · refine Or.inr ⟨(a.1, st', j'), ⟨hj', heq.trans hp, hr'⟩, ?_⟩
        by_cases he : (st'.num, j') = (a.2.1.num, a.2.2)
        · left
          have h1 : st' = a.2.1 := Stage.num_inj (Prod.mk.inj he).1
          have h2 : j' = a.2.2 := (Prod.mk.inj he).2
          rw [h1, h2]
        · right
          exact rankLt_of_lex (LexLt.of_le_ne hle he)
  · -- the designated action lowers it
    intro k hk a ⟨hj, hp, hrk⟩ hg hev
    have hpos : 0 < pend (ρ k).x.cl := Nat.pos_of_ne_zero hg
    have hj' := hJ (k + 1) (by omega)
    rw [hex k, hev] at hj' ⊢
    rcases rk_prog hj hpos hrk with hlt | ⟨heq, st', j', hr', hlt⟩
    · by_cases hd' : Done (stepO (ρ k) (some (a.2.1.hlp a.2.2)))
      · exact Or.inl hd'
      · obtain ⟨st', j', hr'⟩ := rk_total hj' (Nat.pos_of_ne_zero hd')
        exact Or.inr ⟨(pend (step (ρ k) (a.2.1.hlp a.2.2)).x.cl, st', j'), ⟨hj', rfl, hr'⟩,
          rankLt_of_pend (by simp only; rw [← hp]; exact hlt)⟩
    · exact Or.inr ⟨(a.1, st', j'), ⟨hj', heq.trans hp, hr'⟩, rankLt_of_lex hlt⟩

/-! ### a pending `Send` can only end by returning success (no cancellation on the suffix) -/

/-- the `Send` call `id` exists and has not returned an error -/
def Alive (s : SigC.State) (id : Nat) : Prop :=
  ∃ c, SigC.getSend s id = some c ∧ (c.result = none ∨ c.result = some true)

theorem alive_congr {s s' : SigC.State} (h : s'.sends = s.sends) {id : Nat} (ha : Alive s id) : Alive s' id := by
  obtain ⟨c, hc, hr⟩ := ha
  exact ⟨c, by simpa [SigC.getSend, h] using hc, hr⟩

theorem rxEv_sends (r : Sig.Resp) (s : SigC.State) : (rxEv r s).sends = s.sends := by
  cases r <;> simp only [rxEv, SigC.step]
  case opened e => unfold SigC.opened; split <;> rfl
  case closed => rfl
  case ack k =>
    unfold SigC.ackMsg
    split
    · split <;> rfl
    · rfl
  case clear k => unfold SigC.clearMsg; split <;> rfl
  case recv m => rfl

theorem alive_setSend {s : SigC.State} {c' : SigC.SendCall} (hr : c'.result = none ∨ c'.result = some true)
    {id : Nat} (ha : Alive s id) : Alive (SigC.setSend s c') id := by
  obtain ⟨c, hc, hres⟩ := ha
  unfold Alive
  rw [SigClient.getSend_setSend]
  by_cases he : id = c'.id
  · exact ⟨c', by simp [he] at hc ⊢; simp [hc], hr⟩
  · exact ⟨c, by simp [he, hc], hres⟩

theorem alive_clAfter {h : Half} (hr : SigC.Reachable h.cl) (a : Act) {id : Nat} (ha : Alive h.cl id) :
    Alive (clAfter h a) id := by
  cases a <;> simp only [clAfter]
  case sendStart m =>
    unfold guarded
    split
    · obtain ⟨c, hc, hres⟩ := ha
      exact ⟨c, SigClient.getSend_sendStart hc, hres⟩
    · exact ha
  case sendStep id' =>
    unfold guarded
    split
    · rename_i hen
      simp only [SigC.enabled] at hen
      cases hg : SigC.getSend h.cl id' with
      | none => simp [hg] at hen
      | some c0 =>
        simp only [hg, Option.isNone_iff_eq_none] at hen
        have hcases := SigClient.sendStep_cases hg hen (SigClient.inv_of_reachable hr).k0
        show Alive (SigC.sendStep h.cl id') id
        generalize SigC.sendStep h.cl id' = t at hcases
        cases hcases with
        | keep c' _ _ h3 _ => exact alive_setSend (Or.inl h3) ha
        | take c' _ _ h3 _ _ _ =>
          exact alive_setSend (Or.inl h3) (alive_congr (s := h.cl) rfl ha)
        | done c' o _ _ h3 _ _ _ =>
          exact alive_setSend (Or.inr h3) (alive_congr (s := h.cl) rfl ha)
    · exact ha
  case recvStep => exact alive_congr (recvStep_fields h.cl).2.2.2.2 ha
  case tx => exact alive_congr (txLoop_sends h.cl) ha
  case rx =>
    cases h.dn with
    | nil => exact ha
    | cons r rest => exact alive_congr (rxEv_sends r h.cl) ha
  all_goals exact ha

theorem alive_stepO {p : PState} (hr : SigC.Reachable p.x.cl) (o : PEv) {id : Nat} (ha : Alive p.x.cl id) :
    Alive (stepO p o).x.cl id := by
  cases o with
  | none => exact ha
  | some sa =>
    obtain ⟨sd, a⟩ := sa
    cases sd with
    | true =>
      show Alive (step p (true, a)).x.cl id
      rw [(step_cl_x p a).1]; exact alive_clAfter hr a ha
    | false =>
      show Alive (step p (false, a)).x.cl id
      rw [(step_cl_y p a).1]; exact ha

/-! ### no new pending `Send` appears unless one is started -/

theorem pending_back_setSend {s : SigC.State} {c0 c' : SigC.SendCall} (hg : SigC.getSend s c'.id = some c0)
    (hn : c0.result = none) {i : Nat} (h : Pending (SigC.setSend s c') i) : Pending s i := by
  obtain ⟨c, hc, hr⟩ := h
  rw [SigClient.getSend_setSend] at hc
  by_cases he : i = c'.id
  · subst he; exact ⟨c0, hg, hn⟩
  · simp only [he, if_false] at hc; exact ⟨c, hc, hr⟩

theorem pending_back_clAfter {h : Half} (hr : SigC.Reachable h.cl) (a : Act) (hns : ∀ m, a ≠ .sendStart m)
    {i : Nat} (hp : Pending (clAfter h a) i) : Pending h.cl i := by
  cases a <;> simp only [clAfter] at hp
  case sendStart m => exact absurd rfl (hns m)
  case sendStep id' =>
    unfold guarded at hp
    split at hp
    · rename_i hen
      simp only [SigC.enabled] at hen
      cases hg : SigC.getSend h.cl id' with
      | none => simp [hg] at hen
      | some c0 =>
        simp only [hg, Option.isNone_iff_eq_none] at hen
        have hcases := SigClient.sendStep_cases hg hen (SigClient.inv_of_reachable hr).k0
        have hid := SigClient.getSend_id hg
        have hp' : Pending (SigC.sendStep h.cl id') i := hp
        generalize SigC.sendStep h.cl id' = t at hcases hp'
        cases hcases with
        | keep c' h1 _ _ _ => exact pending_back_setSend (by rw [h1, hid]; exact hg) hen hp'
        | take c' h1 _ _ _ _ _ =>
          exact pending_back_setSend (s := h.cl) (by rw [h1, hid]; exact hg) hen
            ((pending_congr (s := SigC.setSend h.cl c') rfl).1 hp')
        | done c' o h1 _ _ _ _ _ =>
          exact pending_back_setSend (s := h.cl) (by rw [h1, hid]; exact hg) hen
            ((pending_congr (s := SigC.setSend h.cl c') rfl).1 hp')
    · exact hp
  case recvStep => exact (pending_congr (recvStep_fields h.cl).2.2.2.2).1 hp
  case tx => exact (pending_congr (txLoop_sends h.cl)).1 hp
  case rx =>
    cases hd : h.dn with
    | nil => simpa [hd] using hp
    | cons r rest => rw [hd] at hp; exact (pending_congr (rxEv_sends r h.cl)).1 hp
  all_goals exact hp

theorem pending_back_stepO {p : PState} (hr : SigC.Reachable p.x.cl) (o : PEv)
    (hns : ∀ sd m, o ≠ some (sd, .sendStart m)) {i : Nat} (hp : Pending (stepO p o).x.cl i) : Pending p.x.cl i := by
  cases o with
  | none => exact hp
  | some sa =>
    obtain ⟨sd, a⟩ := sa
    cases sd with
    | true =>
      have hp' : Pending (step p (true, a)).x.cl i := hp
      rw [(step_cl_x p a).1] at hp'
      exact pending_back_clAfter hr a (fun m he => hns true m (by rw [he])) hp'
    | false =>
      have hp' : Pending (step p (false, a)).x.cl i := hp
      rw [(step_cl_y p a).1] at hp'
      exact hp'

theorem pending_back {ρ : Nat → PState} {acts : Nat → PEv} (hex : IsExec stepO ρ acts) {N : Nat}
    (hinv : Always ρ N PInv) (hns : NoStart acts N) {i : Nat} :
    ∀ k, N ≤ k → Pending (ρ k).x.cl i → Pending (ρ N).x.cl i := by
  intro k hk
  induction k with
  | zero =>
    have : N = 0 := Nat.le_zero.1 hk
    subst this; exact id
  | succ k ih =>
    by_cases hk' : N ≤ k
    · intro hp
      rw [hex k] at hp
      exact ih hk' (pending_back_stepO (hinv k hk').hx.reach (acts k) (fun sd m => hns k hk' sd m) hp)
    · have : N = k + 1 := by omega
      subst this; exact id

/-- **Liveness of the stable pair (side x).** On every infinite execution of the pair machine that
satisfies the pair invariant at `N`, starts no new `Send` from `N` on and is fair (every internal
action of either side, and every iteration of a `Send` call of side x pending at `N`, is
scheduled infinitely often), every `Send` call of side x that is pending at `N` eventually
returns success. -/
theorem pair_live {ρ : Nat → PState} {acts : Nat → PEv} (hex : IsExec stepO ρ acts) {N : Nat}
    {S : Bool → Nat → Prop} (h0 : PInv (ρ N)) (hfair : PFair acts S) (hns : NoStart acts N)
    (hS : ∀ id, Pending (ρ N).x.cl id → S true id) {id : Nat} (hp : Pending (ρ N).x.cl id) :
    ∃ m, N ≤ m ∧ ∃ c, SigC.getSend (ρ m).x.cl id = some c ∧ c.result = some true := by
  have hinv := always_pinv hex h0
  have halive : Always ρ N (fun s => PInv s ∧ Alive s.x.cl id) :=
    always_of_step (ok := fun _ => True) hex
      ⟨h0, by obtain ⟨c, hc, hn⟩ := hp; exact ⟨c, hc, Or.inl hn⟩⟩ (fun _ _ => trivial)
      (fun s o h _ => ⟨pinv_stepO h.1 o, alive_stepO h.1.hx.reach o h.2⟩)
  obtain ⟨n1, hn1, hJ⟩ := ev_sync hex hinv hfair
  have hns' : NoStart acts n1 := fun n hn => hns n (Nat.le_trans hn1 hn)
  have hS' : ∀ k, n1 ≤ k → ∀ id, Pending (ρ k).x.cl id → S true id :=
    fun k hk id hpk => hS id (pending_back hex hinv hns k (Nat.le_trans hn1 hk) hpk)
  obtain ⟨m, hm, hd⟩ := ev_done hex hJ hfair hns' hS' n1 (Nat.le_refl _)
  refine ⟨m, Nat.le_trans hn1 hm, ?_⟩
  obtain ⟨c, hc, hres⟩ := (halive m (Nat.le_trans hn1 hm)).2
  refine ⟨c, hc, ?_⟩
  rcases hres with hres | hres
  · exfalso
    have : 0 < pend (ρ m).x.cl := pend_pos_iff.2 ⟨c, SigClient.getSend_mem hc, hres⟩
    unfold Done at hd
    omega
  · exact hres

/-- the same for side y -/
theorem pair_live_y {ρ : Nat → PState} {acts : Nat → PEv} (hex : IsExec stepO ρ acts) {N : Nat}
    {S : Bool → Nat → Prop} (h0 : PInv (ρ N)) (hfair : PFair acts S) (hns : NoStart acts N)
    (hS : ∀ id, Pending (ρ N).y.cl id → S false id) {id : Nat} (hp : Pending (ρ N).y.cl id) :
    ∃ m, N ≤ m ∧ ∃ c, SigC.getSend (ρ m).y.cl id = some c ∧ c.result = some true :=
  pair_live (ρ := fun n => (ρ n).swap) (S := fun sd => S (!sd)) (exec_swap hex) h0.swap (fair_swap hfair)
    (noStart_swap hns) hS hp

end SigPair
end Bifrost
