import Bifrost.Model.Links
import Bifrost.Lemmas.LinksBasic
import Bifrost.Lemmas.LinksInv
/-! Consequences of the invariant used by the C04 / C06 statements. -/
namespace Bifrost
namespace Links

/-- Bridge from a history predicate stated with any copy of `histLinkOf`. -/
theorem wfh_of_eq {f : Op → Option Link} (hf : f = histLinkOf) {ops : List Op}
    (h : ∀ l ∈ ops.filterMap f, ∀ l' ∈ ops.filterMap f, l.id = l'.id → l = l') : WFH ops := by
  subst hf; exact h

/-! ### `est` keeps running / localPeer -/

theorem step_est_running (s : State) (l : Link) : (step s (.est l)).running = s.running := by
  simp only [step]
  repeat' split
  all_goals rfl

theorem step_est_localPeer (s : State) (l : Link) :
    (step s (.est l)).localPeer = s.localPeer := by
  simp only [step]
  repeat' split
  all_goals rfl

/-! ### Only `est x` can put `x` into the table -/

theorem step_links_subset (s : State) (op : Op) (x : Link) (hx : x ∈ (step s op).links) :
    x ∈ s.links ∨ op = .est x := by
  cases op with
  | start lp =>
    left
    simp only [step] at hx
    split at hx <;> exact hx
  | shutdown =>
    simp only [step, foldl_flush_self_links] at hx
    cases hx
  | lost l =>
    left
    rcases step_lost_cases s l with ⟨el, _, _, hst⟩ | ⟨_, hst⟩
    · rw [hst] at hx; exact (List.mem_filter.1 hx).1
    · rw [hst] at hx; exact hx
  | est l =>
    by_cases hc : s.running = false ∨ l.remote = s.localPeer
    · rw [step_est_closed hc] at hx; exact Or.inl hx
    · have hr : s.running = true := by
        cases hrr : s.running
        · exact absurd (Or.inl hrr) hc
        · rfl
      have hself : l.remote ≠ s.localPeer := fun e => hc (Or.inr e)
      cases hlk : lookup s l.uuid with
      | none =>
        rw [step_est_new hr hself hlk] at hx
        rcases List.mem_cons.1 hx with rfl | hx
        · exact Or.inr rfl
        · exact Or.inl hx
      | some el =>
        by_cases hid : el.id = l.id
        · rw [step_est_dup hr hself hlk hid] at hx; exact Or.inl hx
        · rw [step_est_replace hr hself hlk hid] at hx
          rcases List.mem_cons.1 hx with rfl | hx
          · exact Or.inr rfl
          · exact Or.inl (List.mem_filter.1 hx).1

/-! ### `lost` -/

theorem lost_gone {ops : List Op} {l : Link} (h : WFH (ops ++ [.lost l])) :
    l ∉ (run (ops ++ [.lost l])).links ∧
    (∀ p, l ∉ getPeerLinks (run (ops ++ [.lost l])) p) ∧
    (l ∈ (run ops).links → l.id ∈ (run (ops ++ [.lost l])).closed) := by
  have hI := inv_run ops (WFH_prefix h)
  have key : l ∉ (run (ops ++ [.lost l])).links ∧
      (l ∈ (run ops).links → l.id ∈ (run (ops ++ [.lost l])).closed) := by
    rw [run_snoc]
    rcases step_lost_cases (run ops) l with ⟨el, hel, hid, hst⟩ | ⟨hno, hst⟩
    · rw [hst]
      refine ⟨?_, ?_⟩
      · intro hl
        obtain ⟨hl1, hl2⟩ := List.mem_filter.1 hl
        have : l = el := inj_of_nodup_map (·.id) hI.nd_id l hl1 el hel hid.symm
        subst this
        simp at hl2
      · intro _
        rw [flush_closed, hid]
        exact List.mem_cons_self
    · rw [hst]
      exact ⟨fun hl => hno l hl rfl, fun hl => absurd rfl (hno l hl)⟩
  refine ⟨key.1, ?_, key.2⟩
  intro p hp
  exact key.1 (List.mem_filter.1 hp).1

theorem lost_keeps_others {ops : List Op} {l : Link} (h : WFH (ops ++ [.lost l])) :
    ∀ x ∈ (run ops).links, x.id ≠ l.id → x ∈ (run (ops ++ [.lost l])).links := by
  have hI := inv_run ops (WFH_prefix h)
  intro x hx hne
  rw [run_snoc]
  rcases step_lost_cases (run ops) l with ⟨el, hel, hid, hst⟩ | ⟨_, hst⟩
  · rw [hst, flush_links, List.mem_filter]
    refine ⟨hx, ?_⟩
    have : x.uuid ≠ el.uuid := by
      intro e
      have : x = el := inj_of_nodup_map (·.uuid) hI.nd_uuid x hx el hel e
      exact hne (this ▸ hid)
    simpa using this
  · rw [hst]; exact hx

theorem lost_never_again (pre : List Op) (l : Link) (h : WFH (pre ++ [.lost l])) :
    ∀ (post : List Op),
    (∀ op ∈ post, op ≠ .est l) → l ∉ (run (pre ++ [.lost l] ++ post)).links := by
  intro post
  induction post using snoc_induction with
  | nil =>
    intro _
    rw [List.append_nil]
    exact (lost_gone h).1
  | snoc post op ih =>
    intro hno hl
    rw [← List.append_assoc, run_snoc] at hl
    rcases step_links_subset _ _ _ hl with hl' | hop
    · exact ih (fun o ho => hno o (List.mem_append_left _ ho)) hl'
    · exact hno op (List.mem_append_right _ List.mem_cons_self) hop

/-! ### `est` of a foreign link while running enters the table -/

theorem est_mem {ops : List Op} {l : Link} (h : WFH (ops ++ [.est l]))
    (hr : (run ops).running = true) (hself : l.remote ≠ (run ops).localPeer) :
    l ∈ (run (ops ++ [.est l])).links := by
  have hI := inv_run ops (WFH_prefix h)
  rw [run_snoc]
  cases hlk : lookup (run ops) l.uuid with
  | none =>
    rw [step_est_new hr hself hlk]; exact List.mem_cons_self
  | some el =>
    by_cases hid : el.id = l.id
    · rw [step_est_dup hr hself hlk hid]
      have hel := (lookup_some hlk).1
      have : el = l := h el (mem_hist_snoc _ (hI.hist el hel)) l (mem_hist_est _ _) hid
      exact this ▸ hel
    · rw [step_est_replace hr hself hlk hid]; exact List.mem_cons_self

theorem est_self_closed {ops : List Op} {l : Link} (h : WFH (ops ++ [.est l]))
    (hself : l.remote = (run ops).localPeer) :
    l.id ∈ (run (ops ++ [.est l])).closed ∧
    (run (ops ++ [.est l])).links = (run ops).links ∧
    (run (ops ++ [.est l])).peerLinks = (run ops).peerLinks ∧
    l ∉ (run ops).links := by
  have hI := inv_run ops (WFH_prefix h)
  rw [run_snoc, step_est_closed (Or.inr hself)]
  exact ⟨List.mem_cons_self, rfl, rfl, fun hl => hI.notself l hl hself⟩

theorem late_loss_replacement {ops : List Op} {l1 l2 : Link} (hid : l1.id ≠ l2.id)
    (h : WFH (ops ++ [.est l1, .est l2, .lost l1]))
    (hrun : (run ops).running = true) (hself : l2.remote ≠ (run ops).localPeer) :
    l2 ∈ (run (ops ++ [.est l1, .est l2, .lost l1])).links ∧
    l1 ∉ (run (ops ++ [.est l1, .est l2, .lost l1])).links := by
  have e : ops ++ [.est l1, .est l2, .lost l1] = ((ops ++ [.est l1]) ++ [.est l2]) ++ [.lost l1] := by
    simp
  rw [e] at h ⊢
  have hB : WFH ((ops ++ [.est l1]) ++ [.est l2]) := WFH_prefix h
  have hr : (run (ops ++ [.est l1])).running = true := by
    rw [run_snoc, step_est_running]; exact hrun
  have hs : l2.remote ≠ (run (ops ++ [.est l1])).localPeer := by
    rw [run_snoc, step_est_localPeer]; exact hself
  have h2 := est_mem hB hr hs
  exact ⟨lost_keeps_others h l2 h2 (fun e => hid e.symm), (lost_gone h).1⟩

/-! ### resolveEstablishLink -/

theorem mem_resolve {s : State} {src dst : Nat} {x : Link} :
    x ∈ resolveEstablishLink s src dst ↔
      (src = 0 ∨ src = s.localPeer) ∧ x ∈ s.peerLinks ∧ x.remote = dst := by
  unfold resolveEstablishLink
  split
  · rename_i hc
    constructor
    · intro hx; cases hx
    · rintro ⟨h0 | h0, _⟩
      · exact absurd h0 hc.1
      · exact absurd h0 hc.2
  · rename_i hc
    have : src = 0 ∨ src = s.localPeer := by
      by_cases h0 : src = 0
      · exact Or.inl h0
      · by_cases h1 : src = s.localPeer
        · exact Or.inr h1
        · exact absurd ⟨h0, h1⟩ hc
    simp only [List.mem_filter, decide_eq_true_eq, this, true_and]

end Links
end Bifrost
