import Bifrost.Lemmas.SigPairSimE
/-!
Simulation `SigSys` ⟶ `SigPair`: along a stable suffix, the view of two mutually attached
trackers `a = (A → B)`, `b = (B → A)` inside a reachable composed state moves exactly like
`SigPair.step`, and every other event leaves the view unchanged (`view_step`); a live pair has a
view (`view_of_live`); the component invariants seen through the view (`view_facts`).
-/
namespace Bifrost
namespace SigPair
open Bifrost.SigSys Bifrost.SigSysSrv

theorem ite_ite_none {α : Type} {c1 c2 : Prop} [Decidable c1] [Decidable c2] {x y : α}
    (h : (if c1 then some x else if c2 then some y else none) = none) : ¬ c1 ∧ ¬ c2 := by
  split at h
  · cases h
  · split at h
    · cases h
    · exact ⟨by assumption, by assumption⟩

theorem not_isPair {A B me peer : Nat} (h : ¬ (me = A ∧ peer = B) ∧ ¬ (me = B ∧ peer = A)) : ¬ isPair A B me peer := by
  rintro (h' | h')
  · exact h.1 h'
  · exact h.2 h'

theorem view_step {s : SigSys.State} {A B ia ib : Nat} {p : PState} (h : SigSys.Reachable s)
    (hv : View s A B ia ib p) (e : SigSys.Ev) (he : Stable A B ia ib e) :
    View (SigSys.step s e) A B ia ib (stepO p (proj A B ia ib e)) := by
  have hinv := SigSys.inv_of_reachable h
  cases hp : proj A B ia ib e with
  | some sa =>
    obtain ⟨sd, a⟩ := sa
    have := proj_some hp
    subst this
    cases sd
    · exact view_stepY hv a
    · exact view_stepX hv a
  | none =>
    simp only [stepO]
    cases e with
    | newClient me peer => exact view_newClient hv me peer
    | connect me peer => exact view_connect hinv hv me peer
    | disconnect me peer => exact view_disconnectO hinv hv he
    | srvEnd c => exact view_srvEndO hv he.1 he.2
    | sendStart me peer m => simp only [SigSys.step]; exact view_liftO hv (not_isPair (ite_ite_none hp)) _
    | sendStep me peer id => simp only [SigSys.step]; exact view_liftO hv (not_isPair (ite_ite_none hp)) _
    | sendCancel me peer id => simp only [SigSys.step]; exact view_liftO hv he _
    | recvStep me peer => simp only [SigSys.step]; exact view_liftO hv (not_isPair (ite_ite_none hp)) _
    | clientTx me peer => exact view_clientTxO hinv hv (not_isPair (ite_ite_none hp))
    | clientRx me peer => exact view_clientRxO hinv hv (not_isPair (ite_ite_none hp))
    | srvRx c => have := ite_ite_none hp; exact view_srvRxO hv this.1 this.2
    | srvLoop c => have := ite_ite_none hp; exact view_srvLoopO hv this.1 this.2
    | srvTx c => have := ite_ite_none hp; exact view_srvTxO hv this.1 this.2

/-- C22's no-lost-wake-up invariant of call `ia`, read on the view -/
theorem srv_wakeX {srv : Sig.State} {A B ia ib : Nat} {p : PState} {sid dtA dtB : Nat}
    (hg : SigSess.Good srv) (hs : SrvView srv A B ia ib p sid dtA dtB) : WakeOk p.x p.gen p.ep := by
  obtain ⟨t, ht, hci⟩ := hg.inv.calls ia _ hs.ca
  rw [mkCall_sess, hs.ss] at ht
  cases ht
  have hgen := hci.gen
  have hw := hci.wake
  simp only [mkSess_gen] at hgen
  refine ⟨hgen, fun hle => ?_⟩
  unfold SigSess.WakeCond at hw
  rw [mkCall_isA, mkSess_sides, mkSess_gen, mkSess_seqno] at hw
  rcases hw with hw | hw | hw | ⟨o, ho, _, hann, hrest⟩
  · cases hw
  · cases hw
  · have : p.x.wait < p.gen := hw
    omega
  · simp only [Option.some.injEq] at ho
    subst ho
    have hann' : p.x.ann = some p.ep := by
      have : (mkCall ia A B sid dtA p.x).announced = some p.ep := by simpa using hann
      exact this
    refine ⟨hann', ?_⟩
    rcases hrest with hr | hr
    · cases hr
    · exact hr

/-- facts every view of a reachable state has (from the component invariants) -/
theorem view_facts {s : SigSys.State} {A B ia ib : Nat} {p : PState} (h : SigSys.Reachable s)
    (hv : View s A B ia ib p) :
    SigC.Reachable p.x.cl ∧ SigC.Reachable p.y.cl ∧ WakeOk p.x p.gen p.ep ∧ WakeOk p.y p.gen p.ep ∧
    p.x.att.call = ia ∧ p.y.att.call = ib ∧ A ≠ B ∧ ia ≠ ib := by
  have hinv := SigSys.inv_of_reachable h
  have hg := SigSys.good_of hinv
  obtain ⟨sid, dtA, dtB, hs⟩ := hv.srv
  exact ⟨(hinv.cli _ (getClient_some hv.cliA).1).reach, (hinv.cli _ (getClient_some hv.cliB).1).reach,
    srv_wakeX hg hs, srv_wakeX hg hs.swap, hs.xa, hs.ya, hs.ne, hs.nei⟩

theorem eq_mkSess {t : Sig.Sess} {A B : Nat} {x y : Sig.Att} (hk : (t.a, t.b) = (Sig.sessKey A B).1)
    (hs : t.sides (Sig.sessKey A B).2 = (some x, some y)) : t = mkSess t.sid A B t.seqno t.gen x y := by
  obtain ⟨sid, a, b, seqno, attA, attB, gen⟩ := t
  unfold mkSess
  unfold Sig.sessKey at hk hs
  split <;> simp_all [Sig.Sess.sides]

theorem client_eta {c : Client} {A B ia : Nat} (h1 : c.me = A) (h2 : c.peer = B) (h3 : c.call = some ia) :
    c = { me := A, peer := B, st := c.st, call := some ia } := by
  obtain ⟨_, _, _, _⟩ := c
  simp only at h1 h2 h3
  subst h1 h2 h3
  rfl

theorem chan_eta {c : Chan} {ia : Nat} (h1 : c.call = ia) (h2 : c.open_ = true) :
    c = { call := ia, c2s := c.c2s, s2c := c.s2c, open_ := true } := by
  obtain ⟨_, _, _, _⟩ := c
  simp only at h1 h2
  subst h1 h2
  rfl

theorem scall_eta {c : Sig.SCall} {ia A B sid : Nat} (h1 : c.id = ia) (h2 : c.src = A) (h3 : c.dst = B) (h4 : c.sess = sid)
    (h5 : c.readerDone = false) (h6 : c.failing = false) (h7 : c.ended = false) (cl : SigC.State)
    (up : List SigC.Req) (dn : List Sig.Resp) (att : Sig.Att) :
    c = mkCall ia A B sid c.dstTkr ⟨cl, up, dn, att, c.waitGen, c.announced, c.outbox, false⟩ := by
  obtain ⟨_, _, _, _, _, _, _, _, _, _, _⟩ := c
  simp only at h1 h2 h3 h4 h5 h6 h7
  subst h1 h2 h3 h4 h5 h6 h7
  rfl

theorem view_of_live {s : SigSys.State} {A B ia ib : Nat} (h : SigSys.Reachable s) (hl : Live s A B ia ib) :
    ∃ p, View s A B ia ib p ∧ p.x.rd = false ∧ p.y.rd = false := by
  have hinv := SigSys.inv_of_reachable h
  have hreg := SigReg.inv_of_reachable hinv.srv.reach
  obtain ⟨cA, hcA, hcallA⟩ := hl.cliA
  obtain ⟨cB, hcB, hcallB⟩ := hl.cliB
  obtain ⟨chA, hchA, hopA⟩ := hl.chA
  obtain ⟨chB, hchB, hopB⟩ := hl.chB
  obtain ⟨scA, hscA, heA, hfA, hrA, haA⟩ := hl.srvA
  obtain ⟨scB, hscB, heB, hfB, hrB, haB⟩ := hl.srvB
  obtain ⟨hmA, hmeA, hpeerA⟩ := getClient_some hcA
  obtain ⟨hmB, hmeB, hpeerB⟩ := getClient_some hcB
  have hchcA := (getChan_some hchA).2
  have hchcB := (getChan_some hchB).2
  have hpA := (hinv.cli cA hmA).call ia hcallA
  have hpB := (hinv.cli cB hmB).call ib hcallB
  rw [callPair_of hscA, hmeA, hpeerA] at hpA
  rw [callPair_of hscB, hmeB, hpeerB] at hpB
  simp only [Option.some.injEq, Prod.mk.injEq] at hpA hpB
  obtain ⟨hsrcA, hdstA⟩ := hpA
  obtain ⟨hsrcB, hdstB⟩ := hpB
  have hidA := SigReg.getSCall_id hscA
  have hidB := SigReg.getSCall_id hscB
  obtain ⟨hsd, ⟨tA, htA, hkA, _⟩, _⟩ := hreg.scOk ia scA hscA
  obtain ⟨_, ⟨tB, htB, hkB, _⟩, _⟩ := hreg.scOk ib scB hscB
  have hne : A ≠ B := by rw [hsrcA, hdstA] at hsd; exact hsd
  obtain ⟨tA', htA', hoA⟩ := (SigReg.attached_iff _ _).1 haA
  obtain ⟨tB', htB', hoB⟩ := (SigReg.attached_iff _ _).1 haB
  rw [htA] at htA'; cases htA'
  rw [htB] at htB'; cases htB'
  rw [hsrcA, hdstA] at hkA
  rw [hsrcB, hdstB, (sessKey_swap hne).1] at hkB
  have hlA := hreg.ssIn _ _ _ _ htA hoA
  have hlB := hreg.ssIn _ _ _ _ htB hoB
  rw [hkA] at hlA
  rw [hkB, hlA] at hlB
  have hsess : scB.sess = scA.sess := by simpa using hlB.symm
  rw [hsess, htA] at htB
  cases htB
  have hisA : scA.isA = (Sig.sessKey A B).2 := by simp [Sig.SCall.isA, hsrcA, hdstA]
  have hisB : scB.isA = !(Sig.sessKey A B).2 := by simp [Sig.SCall.isA, hsrcB, hdstB, (sessKey_swap hne).2]
  rw [hisA, hidA] at hoA
  rw [hisB, hidB] at hoB
  unfold SigReg.oursCall at hoA hoB
  rw [sides_not] at hoB
  obtain ⟨x, hx, hxc⟩ := Option.map_eq_some_iff.1 hoA
  obtain ⟨y, hy, hyc⟩ := Option.map_eq_some_iff.1 hoB
  have hsides : tA.sides (Sig.sessKey A B).2 = (some x, some y) := Prod.ext hx hy
  have htEq := eq_mkSess hkA hsides
  have hsid := SigReg.getSess_sid htA
  have hnei : ia ≠ ib := by
    intro e
    rw [e, hscB] at hscA
    cases hscA
    exact hne (hsrcA.symm.trans hsrcB)
  refine ⟨{ x := { cl := cA.st, up := chA.c2s, dn := chA.s2c, att := x, wait := scA.waitGen, ann := scA.announced,
                   box := scA.outbox, rd := false },
            y := { cl := cB.st, up := chB.c2s, dn := chB.s2c, att := y, wait := scB.waitGen, ann := scB.announced,
                   box := scB.outbox, rd := false },
            gen := tA.gen, ep := tA.seqno }, ⟨?_, ?_, ?_, ?_, ?_⟩, rfl, rfl⟩
  · rw [hcA]; exact congrArg some (client_eta hmeA hpeerA hcallA)
  · rw [hcB]; exact congrArg some (client_eta hmeB hpeerB hcallB)
  · rw [hchA]; exact congrArg some (chan_eta hchcA hopA)
  · rw [hchB]; exact congrArg some (chan_eta hchcB hopB)
  · refine ⟨scA.sess, scA.dstTkr, scB.dstTkr, ⟨?_, ?_, ?_, hxc, hyc, hne, hnei⟩⟩
    · rw [hscA]; exact congrArg some (scall_eta hidA hsrcA hdstA rfl hrA hfA heA cA.st chA.c2s chA.s2c x)
    · rw [hscB]; exact congrArg some (scall_eta hidB hsrcB hdstB hsess hrB hfB heB cB.st chB.c2s chB.s2c y)
    · rw [htA]
      show some tA = some (mkSess scA.sess A B tA.seqno tA.gen x y)
      rw [← hsid]
      exact congrArg some htEq

end SigPair
end Bifrost
