import Bifrost.Model.QuicTable
import Bifrost.Lemmas.QuicTableCtrl
import Bifrost.Lemmas.QuicTableInv
import Bifrost.Lemmas.QuicTableStep
/-! Consequences of the invariant used by the C06Quic statements: quiescence, the history
variables `lostSeen` / `late` as statements about the schedule, losses never remove another link. -/
namespace Bifrost
namespace QuicTable
open Links (Link)

theorem quiescent_iff (s : State) :
    quiescent s = true ↔ s.pendEst = [] ∧ s.pendClose = [] ∧ s.pendLost = [] ∧ s.pendCtrlLost = [] := by
  simp [quiescent, List.isEmpty_iff, and_assoc]

/-! ### `created` is the list of sessions of the history -/

/-- The links created by the sessions of a history, newest first; the id is the creation index. -/
def sessions (U : Nat → Nat → Nat) (ops : List Op) : List Entry :=
  ops.foldl (fun acc op =>
    match op with
    | .session a p => (a, ⟨acc.length, U a p, p⟩) :: acc
    | _ => acc) []

theorem sessions_snoc (U : Nat → Nat → Nat) (ops : List Op) (op : Op) :
    sessions U (ops ++ [op]) =
      match op with
      | .session a p => (a, ⟨(sessions U ops).length, U a p, p⟩) :: sessions U ops
      | _ => sessions U ops := by
  simp [sessions, List.foldl_append]

theorem closeBody_created (s : State) (i : Nat) : (closeBody s i).created = s.created := by
  rcases closeBody_cases s i with hs | ⟨_, _, _, _, hs⟩ <;> rw [hs]

theorem closeBody_table (s : State) (i : Nat) : (closeBody s i).table = s.table := by
  rcases closeBody_cases s i with hs | ⟨_, _, _, _, hs⟩ <;> rw [hs]

theorem closeBody_ctrl (s : State) (i : Nat) : (closeBody s i).ctrl = s.ctrl := by
  rcases closeBody_cases s i with hs | ⟨_, _, _, _, hs⟩ <;> rw [hs]

theorem closeBody_late (s : State) (i : Nat) : (closeBody s i).late = s.late := by
  rcases closeBody_cases s i with hs | ⟨_, _, _, _, hs⟩ <;> rw [hs]

theorem closeBody_lostSeen (s : State) (i : Nat) : (closeBody s i).lostSeen = s.lostSeen := by
  rcases closeBody_cases s i with hs | ⟨_, _, _, _, hs⟩ <;> rw [hs]

theorem step_created (U : Nat → Nat → Nat) (s : State) (op : Op) :
    (step U s op).created =
      match op with
      | .session a p => (a, ⟨s.created.length, U a p, p⟩) :: s.created
      | _ => s.created := by
  cases op with
  | start lp => rfl
  | shutdown => rfl
  | session a p => rfl
  | runEst l => simp only [step, stepWith]; split <;> rfl
  | close i => exact closeBody_created s i
  | runClose i =>
    simp only [step, stepWith]; split
    · rw [closeBody_created]
    · rfl
  | runLost a l => simp only [step, stepWith]; split <;> rfl
  | runCtrlLost l => simp only [step, stepWith]; split <;> rfl

theorem created_eq_sessions (U : Nat → Nat → Nat) (ops : List Op) :
    (run U ops).created = sessions U ops := by
  induction ops using Links.snoc_induction with
  | nil => rfl
  | snoc ops op ih =>
    rw [run_snoc, step_created, sessions_snoc, ih]

/-- A link's uuid is `U address peer` (`NewLinkUUID(localAddr, remoteAddr, remotePeerID)`). -/
theorem sessions_uuid (U : Nat → Nat → Nat) (ops : List Op) :
    ∀ e ∈ sessions U ops, e.2.uuid = U e.1 e.2.remote := by
  induction ops using Links.snoc_induction with
  | nil => intro e he; cases he
  | snoc ops op ih =>
    rw [sessions_snoc]
    cases op with
    | session a p =>
      intro e he
      simp only [List.mem_cons] at he
      rcases he with rfl | he
      · rfl
      · exact ih e he
    | _ => exact ih

/-! ### the history variables name schedules -/

theorem step_lostSeen (U : Nat → Nat → Nat) (s : State) (op : Op) (i : Nat) :
    i ∈ (step U s op).lostSeen ↔
      i ∈ s.lostSeen ∨ ∃ l, op = .runCtrlLost l ∧ l.id = i ∧ l ∈ s.pendCtrlLost := by
  cases op with
  | start lp => simp [step, stepWith]
  | shutdown => simp [step, stepWith]
  | session a p => simp [step, stepWith]
  | runEst l => simp only [step, stepWith]; split <;> simp
  | close i' => simp [step, stepWith, closeBody_lostSeen]
  | runClose i' => simp only [step, stepWith]; split <;> simp [closeBody_lostSeen]
  | runLost a l => simp only [step, stepWith]; split <;> simp
  | runCtrlLost l =>
    simp only [step, stepWith]
    split
    · rename_i hl
      simp only [ctrlStep_lostSeen, List.mem_cons, Op.runCtrlLost.injEq, exists_eq_left']
      constructor
      · rintro (h | h)
        · exact Or.inr ⟨h.symm, hl⟩
        · exact Or.inl h
      · rintro (h | ⟨h, _⟩)
        · exact Or.inr h
        · exact Or.inl h.symm
    · rename_i hl
      simp only [Op.runCtrlLost.injEq, exists_eq_left']
      constructor
      · exact Or.inl
      · rintro (h | ⟨_, h⟩)
        · exact h
        · exact absurd h hl

theorem step_late (U : Nat → Nat → Nat) (s : State) (op : Op) (i : Nat) :
    i ∈ (step U s op).late ↔
      i ∈ s.late ∨ ∃ l, op = .runEst l ∧ l.id = i ∧ l ∈ s.pendEst ∧ i ∈ s.lostSeen := by
  cases op with
  | start lp => simp [step, stepWith]
  | shutdown => simp [step, stepWith]
  | session a p => simp [step, stepWith]
  | close i' => simp [step, stepWith, closeBody_late]
  | runClose i' => simp only [step, stepWith]; split <;> simp [closeBody_late]
  | runLost a l => simp only [step, stepWith]; split <;> simp
  | runCtrlLost l => simp only [step, stepWith]; split <;> simp
  | runEst l =>
    simp only [step, stepWith]
    split
    · rename_i hl
      simp only [ctrlStep_late, Op.runEst.injEq, exists_eq_left']
      split
      · rename_i hs
        simp only [List.mem_cons]
        constructor
        · rintro (h | h)
          · exact Or.inr ⟨h.symm, hl, h ▸ hs⟩
          · exact Or.inl h
        · rintro (h | ⟨h, _⟩)
          · exact Or.inr h
          · exact Or.inl h.symm
      · rename_i hs
        constructor
        · exact Or.inl
        · rintro (h | ⟨h, _, h3⟩)
          · exact h
          · exact absurd (h ▸ h3) hs
    · rename_i hl
      simp only [Op.runEst.injEq, exists_eq_left']
      constructor
      · exact Or.inl
      · rintro (h | ⟨_, h, _⟩)
        · exact h
        · exact absurd h hl

/-- Decompose `ops ++ [op] = pre ++ x :: post`. -/
theorem snoc_eq_append_cons {α : Type} {ops pre post : List α} {op x : α}
    (h : ops ++ [op] = pre ++ x :: post) :
    (post = [] ∧ ops = pre ∧ op = x) ∨ ∃ post', post = post' ++ [op] ∧ ops = pre ++ x :: post' := by
  rcases List.eq_nil_or_concat post with rfl | ⟨post', b, rfl⟩
  · left
    have : ops ++ [op] = pre ++ [x] := h
    obtain ⟨h1, h2⟩ := List.append_inj' this rfl
    exact ⟨rfl, h1, by simpa using h2⟩
  · right
    have : ops ++ [op] = (pre ++ x :: post') ++ [b] := by
      rw [h]; simp
    obtain ⟨h1, h2⟩ := List.append_inj' this rfl
    have hb : op = b := by simpa using h2
    exact ⟨post', by rw [hb, List.concat_eq_append], h1⟩

/-- `i ∈ lostSeen` iff the history contains an enabled `runCtrlLost` of link `i`: the
controller's `HandleLinkLost` section has run for it. -/
theorem lostSeen_iff (U : Nat → Nat → Nat) (ops : List Op) (i : Nat) :
    i ∈ (run U ops).lostSeen ↔
      ∃ pre l post, ops = pre ++ .runCtrlLost l :: post ∧ l.id = i ∧ l ∈ (run U pre).pendCtrlLost := by
  induction ops using Links.snoc_induction with
  | nil =>
    constructor
    · intro h; cases h
    · rintro ⟨pre, l, post, h, _⟩
      exact absurd h (by simp)
  | snoc ops op ih =>
    rw [run_snoc, step_lostSeen]
    constructor
    · rintro (h | ⟨l, rfl, hid, hl⟩)
      · obtain ⟨pre, l, post, h1, h2, h3⟩ := ih.1 h
        exact ⟨pre, l, post ++ [op], by rw [h1]; simp, h2, h3⟩
      · exact ⟨ops, l, [], rfl, hid, hl⟩
    · rintro ⟨pre, l, post, h1, h2, h3⟩
      rcases snoc_eq_append_cons h1 with ⟨_, rfl, rfl⟩ | ⟨post', _, h5⟩
      · exact Or.inr ⟨l, rfl, h2, h3⟩
      · exact Or.inl (ih.2 ⟨pre, l, post', h5, h2, h3⟩)

/-- `i ∈ late` iff the history contains an enabled `runEst` of link `i` at a point where the
controller's `HandleLinkLost` section had already run for it. -/
theorem late_iff (U : Nat → Nat → Nat) (ops : List Op) (i : Nat) :
    i ∈ (run U ops).late ↔
      ∃ pre l post, ops = pre ++ .runEst l :: post ∧ l.id = i ∧ l ∈ (run U pre).pendEst ∧
        i ∈ (run U pre).lostSeen := by
  induction ops using Links.snoc_induction with
  | nil =>
    constructor
    · intro h; cases h
    · rintro ⟨pre, l, post, h, _⟩
      exact absurd h (by simp)
  | snoc ops op ih =>
    rw [run_snoc, step_late]
    constructor
    · rintro (h | ⟨l, rfl, hid, hl, hs⟩)
      · obtain ⟨pre, l, post, h1, h2, h3⟩ := ih.1 h
        exact ⟨pre, l, post ++ [op], by rw [h1]; simp, h2, h3⟩
      · exact ⟨ops, l, [], rfl, hid, hl, hs⟩
    · rintro ⟨pre, l, post, h1, h2, h3⟩
      rcases snoc_eq_append_cons h1 with ⟨_, rfl, rfl⟩ | ⟨post', _, h5⟩
      · exact Or.inr ⟨l, rfl, h2, h3⟩
      · exact Or.inl (ih.2 ⟨pre, l, post', h5, h2, h3⟩)

/-! ### both controller tables hold the same links -/

theorem ctrl_peer_iff {s : State} (h : QInv s) : ∀ x, x ∈ s.ctrl.peerLinks ↔ x ∈ s.ctrl.links := by
  obtain ⟨cops, hc, hwf, _⟩ := h.ctrl_hist
  rw [hc]
  exact (Links.inv_run cops hwf).peer

/-! ### a loss never removes another link -/

/-- The transport half of `handleLinkLost` removes nothing but the lost link itself from the
address table and does not touch the controller. -/
theorem runLost_keeps {U : Nat → Nat → Nat} {s : State} (h : QInv s) (a : Nat) (l : Link) :
    (∀ e ∈ s.table, e.2 ≠ l → e ∈ (step U s (.runLost a l)).table) ∧
    (step U s (.runLost a l)).ctrl = s.ctrl := by
  simp only [step, stepWith]
  split
  · refine ⟨?_, rfl⟩
    intro e he hne
    simp only
    split
    · rename_i hrel
      simp only [decide_eq_true_eq] at hrel
      simp only [List.mem_filter, decide_eq_true_eq, ne_eq]
      refine ⟨he, ?_⟩
      intro hk
      have hf := table_find h he hk
      rw [hf] at hrel
      have : e = (a, l) := Option.some.inj hrel
      exact hne (by rw [this])
    · exact he
  · exact ⟨fun e he _ => he, rfl⟩

/-- The controller half (`HandleLinkLost`) removes nothing but the lost link object from either
controller table and does not touch the address table. -/
theorem runCtrlLost_keeps {U : Nat → Nat → Nat} {s : State} (h : QInv s) (l : Link)
    (hl : ∃ a, (a, l) ∈ s.created) :
    (step U s (.runCtrlLost l)).table = s.table ∧
    (∀ x ∈ s.ctrl.links, x.id ≠ l.id → x ∈ (step U s (.runCtrlLost l)).ctrl.links) ∧
    (∀ x ∈ s.ctrl.peerLinks, x.id ≠ l.id → x ∈ (step U s (.runCtrlLost l)).ctrl.peerLinks) := by
  by_cases hin : l ∈ s.pendCtrlLost
  · have hI' := qinv_step U h (.runCtrlLost l)
    have hst : step U s (.runCtrlLost l) = ctrlStep
        { s with
          pendCtrlLost := s.pendCtrlLost.erase l
          lostSeen := l.id :: s.lostSeen } (.lost l) := by
      simp [step, stepWith, hin]
    obtain ⟨cops, hc, hwf, hsub⟩ := h.ctrl_hist
    have hop : ∀ x, Links.histLinkOf (.lost l) = some x → ∃ a, (a, x) ∈ s.created := by
      intro x hx
      simp only [Links.histLinkOf, Option.some.injEq] at hx
      subst hx
      exact hl
    obtain ⟨hwf', _⟩ := wfh_snoc h hsub hop
    have hkeep : ∀ x ∈ s.ctrl.links, x.id ≠ l.id → x ∈ (step U s (.runCtrlLost l)).ctrl.links := by
      intro x hx hne
      rw [hst]
      show x ∈ (Links.step s.ctrl (.lost l)).links
      have := Links.lost_keeps_others hwf' x (hc ▸ hx) hne
      rw [Links.run_snoc, ← hc] at this
      exact this
    refine ⟨by rw [hst]; rfl, hkeep, ?_⟩
    intro x hx hne
    exact (ctrl_peer_iff hI' x).2 (hkeep x ((ctrl_peer_iff h x).1 hx) hne)
  · have hst : step U s (.runCtrlLost l) = s := by simp [step, stepWith, hin]
    rw [hst]
    exact ⟨rfl, fun x hx _ => hx, fun x hx _ => hx⟩

end QuicTable
end Bifrost
