import Bifrost.Lemmas.SigSessStep
/-! Session-side invariant holds in every reachable state; consequences used by C20, C22. -/
namespace Bifrost
namespace SigSess
open Bifrost.Sig

structure Good (s : State) : Prop where
  inv : Inv s
  nodup : (ids s).Nodup

theorem Inv_init : Inv ({} : State) := by
  refine ⟨?_, ?_, ?_, ?_⟩
  · intro sid t h; simp [getSess] at h
  · intro k sid h; simp at h
  · intro x h; simp at h
  · intro id c h; simp [getSCall] at h

theorem not_mem_ids {s : State} {call : Nat} (h : getSCall s call = none) : call ∉ ids s := by
  intro hm
  unfold ids at hm
  obtain ⟨c, hc, hid⟩ := List.mem_map.1 hm
  have := List.find?_eq_none.1 h c hc
  simp [hid] at this

theorem Good_step {s : State} (h : Good s) (e : Ev) (hen : enabled s e = true) : Good (step s e) := by
  obtain ⟨hinv, hnd⟩ := h
  cases e with
  | init call src dst =>
    have hfresh : getSCall s call = none := by
      simp only [enabled, Bool.and_eq_true, Option.isNone_iff_eq_none] at hen
      exact hen.1.1.1.1
    refine ⟨Inv_sInit hinv call src dst hfresh, ?_⟩
    show (ids (sInit s call src dst)).Nodup
    rw [ids_sInit]
    refine List.nodup_append.2 ⟨hnd, by simp, ?_⟩
    intro a ha b hb
    simp at hb; subst hb
    intro e; subst e
    exact not_mem_ids hfresh ha
  | send call ep m v g => exact ⟨Inv_sSend hinv _ _ _ _ _, by show (ids (sSend _ _ _ _ _ _)).Nodup; rw [ids_sSend]; exact hnd⟩
  | ack call ep k => exact ⟨Inv_sAck hinv _ _ _, by show (ids (sAck _ _ _ _)).Nodup; rw [ids_sAck]; exact hnd⟩
  | clear call ep k => exact ⟨Inv_sClear hinv _ _ _, by show (ids (sClear _ _ _ _)).Nodup; rw [ids_sClear]; exact hnd⟩
  | loop call => exact ⟨Inv_sLoop hinv _ hen, by show (ids (sLoop _ _)).Nodup; rw [ids_sLoop]; exact hnd⟩
  | send_ call r => exact ⟨Inv_sTx hinv _ _, by show (ids ((sTx _ _ _).getD _)).Nodup; rw [ids_sTx]; exact hnd⟩
  | end_ call => exact ⟨Inv_sEnd hinv _, by show (ids (sEnd _ _)).Nodup; rw [ids_sEnd]; exact hnd⟩
  | lreg call pid =>
    have := SessEq_lReg s call pid
    exact ⟨Inv_SessEq hinv this, by show (ids (lReg _ _ _)).Nodup; rw [ids_SessEq this]; exact hnd⟩
  | lloop call w n =>
    have := SessEq_lLoop s call w n
    exact ⟨Inv_SessEq hinv this, by show (ids ((lLoop _ _ _ _).getD _)).Nodup; rw [ids_SessEq this]; exact hnd⟩
  | lusurped call =>
    have := SessEq_lUsurped s call
    exact ⟨Inv_SessEq hinv this, by show (ids ((lUsurped _ _).getD _)).Nodup; rw [ids_SessEq this]; exact hnd⟩
  | ltx call r =>
    have := SessEq_lTx s call r
    exact ⟨Inv_SessEq hinv this, by show (ids ((lTx _ _ _).getD _)).Nodup; rw [ids_SessEq this]; exact hnd⟩
  | lend call =>
    have := SessEq_lEnd s call
    exact ⟨Inv_SessEq hinv this, by show (ids (lEnd _ _)).Nodup; rw [ids_SessEq this]; exact hnd⟩

theorem reachable_good {s : State} (h : Reachable s) : Good s := by
  induction h with
  | init => exact ⟨Inv_init, by simp [ids]⟩
  | step e _ hen ih => exact Good_step ih e hen

theorem Good.find {s : State} (h : Good s) {c : SCall} (hc : c ∈ s.scalls) : getSCall s c.id = some c :=
  find?_of_nodup SCall.id _ c h.nodup hc

/-- the per-call invariant of a call of a reachable state -/
theorem reachable_call {s : State} (h : Reachable s) {c : SCall} (hc : c ∈ s.scalls) :
    ∃ t, getSess s c.sess = some t ∧ CallInv (Acc s c) t c :=
  let g := reachable_good h
  g.inv.calls _ _ (g.find hc)

/-! ### concrete traces -/

def enabledAll : State → List Ev → Bool
  | _, [] => true
  | s, e :: r => enabled s e && enabledAll (step s e) r

theorem reachable_foldl (evs : List Ev) :
    ∀ s, Reachable s → enabledAll s evs = true → Reachable (evs.foldl step s) := by
  induction evs with
  | nil => intro s h _; exact h
  | cons e r ih =>
    intro s h he
    simp only [enabledAll, Bool.and_eq_true] at he
    exact ih _ (Reachable.step e h he.1) he.2

theorem reachable_run (evs : List Ev) (h : enabledAll {} evs = true) : Reachable (run evs) :=
  reachable_foldl evs _ Reachable.init h

end SigSess
end Bifrost
