import Bifrost.Lemmas.Envelope
import Bifrost.Lemmas.EnvelopeShamir
import Mathlib.Algebra.Field.ZMod
import Mathlib.Tactic.NormNum.Prime
/-!
Concrete instances of the hypotheses used by the envelope theorems (non-vacuity):
the toy primitives satisfy `PrimsLaw`; ℤ/251 with a one-byte codec (which, like the real
scalar codec, has aliasing encodings) satisfies `CodecLaw`.
-/
namespace Bifrost
namespace Envelope

theorem stripOnes_frame (n : Nat) (rest : Bytes) :
    stripOnes (List.replicate n 1 ++ 0 :: rest) = (n, 0 :: rest) := by
  induction n with
  | zero => simp [stripOnes]
  | succ n ih =>
    rw [List.replicate_succ, List.cons_append, stripOnes, ih]
    simp

theorem unframe_frame (b rest : Bytes) : unframe (frame b ++ rest) = some (b, rest) := by
  unfold unframe frame
  rw [List.append_assoc, List.cons_append, stripOnes_frame]
  simp

theorem toyPrims_law : PrimsLaw toyPrims where
  shadow_fails := by
    intro sk ctx m c hg
    simp [toyPrims] at hg
  pk_roundtrip := by
    intro sk ctx m c _ h
    simp only [toyPrims, Option.some.injEq] at h
    subst h
    simp [toyPrims, toyPkDec, List.append_assoc, unframe_frame]
  aead_roundtrip := by
    intro k n p
    simp [toyPrims, toyOpen, List.append_assoc, unframe_frame]

theorem toyPrims_secure : PrimsSecure toyPrims where
  toPrimsLaw := toyPrims_law
  pk_bind := by
    intro pk ctx m c sk ctx' m' h1 h2
    simp only [toyPrims, Option.some.injEq] at h1
    subst h1
    simp only [toyPrims, toyPkDec, List.append_assoc, unframe_frame] at h2
    split at h2
    · rename_i h
      simp only [Option.some.injEq] at h2
      exact ⟨h.1.symm, h.2.symm, h2.symm⟩
    · cases h2
  aead_only := by
    intro k k' n p p' h
    simp only [toyPrims, toyOpen, List.append_assoc, unframe_frame] at h
    split at h
    · simp only [Option.some.injEq] at h
      exact h.symm
    · cases h

/-- the toy primitives with shadow keys satisfy the laws: keys of at most two bytes are genuine,
longer ones report the public key of their first two bytes and decrypt nothing -/
theorem shadowPrims_law : PrimsLaw shadowPrims where
  pk_roundtrip := by
    intro sk ctx m c hg h
    have hl : sk.length ≤ 2 := by simpa [shadowPrims] using hg
    have ht : sk.take 2 = sk := List.take_of_length_le hl
    simp only [shadowPrims, toyPrims, Option.some.injEq] at h
    subst h
    simp [shadowPrims, hl, ht, toyPkDec, List.append_assoc, unframe_frame]
  shadow_fails := by
    intro sk ctx m c hg _
    have hl : ¬ sk.length ≤ 2 := by simpa [shadowPrims] using hg
    simp [shadowPrims, hl]
  aead_roundtrip := by
    intro k n p
    simp [shadowPrims, toyPrims, toyOpen, List.append_assoc, unframe_frame]

instance : Fact (Nat.Prime 251) := ⟨by norm_num⟩

/-- one-byte codec of ℤ/251: bytes 251..255 alias 0..4 -/
def z251Decode (b : Bytes) : Option (ZMod 251) :=
  match b with
  | [x] => some (x.toNat : ZMod 251)
  | _ => none

def z251Encode (s : ZMod 251) : Bytes := [UInt8.ofNat s.val]

/-- the toy scalar field -/
def z251 : Scalars (ZMod 251) := fieldScalars (ZMod 251) z251Decode z251Encode

theorem z251_law : CodecLaw z251 where
  decode_encode := by
    intro s
    have hlt : s.val < 251 := ZMod.val_lt s
    have : (UInt8.ofNat s.val).toNat = s.val := by
      simp [UInt8.toNat_ofNat']
      omega
    simp [z251, fieldScalars, z251Decode, z251Encode, this]
  encode_len := by
    intro s
    simp [z251, fieldScalars, z251Encode]

/-- the aliasing of the toy codec: two different byte strings, one scalar -/
theorem z251_alias : z251Decode [1] = z251Decode [252] ∧ ([1] : Bytes) ≠ [252] := by
  refine ⟨?_, by decide⟩
  simp only [z251Decode]
  rfl

end Envelope
end Bifrost
