import Bifrost.Lemmas.QuicTableInv
/-! Every transition of the composed system preserves the invariant `QInv`. -/
namespace Bifrost
namespace QuicTable
open Links (Link)

theorem ctrl_links_created {s : State} (h : QInv s) : ∀ x ∈ s.ctrl.links, ∃ a, (a, x) ∈ s.created := by
  obtain ⟨cops, hc, hwf, hsub⟩ := h.ctrl_hist
  intro x hx
  rw [hc] at hx
  exact hsub x ((Links.inv_run cops hwf).hist x hx)

/-- A controller section, wrapped: the wrapper may shrink `pendEst` / `pendCtrlLost` and grow
the history variables; the three op-specific obligations are left to the caller. -/
theorem qinv_ctrlStep {s : State} (h : QInv s) (op : Links.Op)
    (hop : ∀ x, Links.histLinkOf op = some x → ∃ a, (a, x) ∈ s.created)
    (pe' pcl' : List Link) (seen' late' : List Nat)
    (hpe : ∀ l ∈ pe', l ∈ s.pendEst) (hpcl : ∀ l ∈ pcl', l ∈ s.pendCtrlLost)
    (hseen : ∀ i ∈ s.lostSeen, i ∈ seen')
    (h_phase : ∀ e ∈ s.created, e.2 ∈ s.pendCtrlLost → e.2 ∈ pcl' ∨ e.2.id ∈ seen')
    (h_seenlate : ∀ l ∈ (Links.step s.ctrl op).links, l.id ∈ seen' → l.id ∈ late')
    (h_tbl : ∀ e ∈ s.table, e.2 ∉ pe' → e.2 ∈ s.pendEst →
      e.2.id ∉ newClosed s.ctrl (Links.step s.ctrl op) → e.2 ∈ (Links.step s.ctrl op).links) :
    QInv (ctrlStep { s with pendEst := pe', pendCtrlLost := pcl', lostSeen := seen', late := late' } op) := by
  obtain ⟨cops, hc, hwf, hsub⟩ := h.ctrl_hist
  obtain ⟨hwf', hsub'⟩ := wfh_snoc h hsub hop
  obtain ⟨new, hnew, hrem, _⟩ := ctrl_step_closed cops op hwf'
  rw [← hc] at hnew hrem
  have hnc : newClosed s.ctrl (Links.step s.ctrl op) = new := newClosed_of_append hnew
  constructor
  · exact h.cr_lt
  · exact h.cr_nd
  · exact h.cb_lt
  · exact h.tbl_latest
  · refine ⟨cops ++ [op], ?_, hwf', hsub'⟩
    show Links.step s.ctrl op = Links.run (cops ++ [op])
    rw [Links.run_snoc, hc]
  · intro l hl; exact h.pe_cr l (hpe l hl)
  · exact h.pl_cr
  · intro l hl; exact h.pcl_cr l (hpcl l hl)
  · intro e he hcl
    rcases h.cb_phase e he hcl with h1 | h1 | h1
    · exact Or.inl h1
    · exact Or.inr (h_phase e he h1)
    · exact Or.inr (Or.inr (hseen _ h1))
  · exact h_seenlate
  · intro e he hopen hpe' hpc
    simp only [ctrlStep_pendClose, List.mem_append, not_or] at hpc
    show e.2 ∈ (Links.step s.ctrl op).links
    by_cases hin : e.2 ∈ s.pendEst
    · exact h_tbl e he hpe' hin hpc.1
    · have hl := h.tbl_ctrl e he hopen hin hpc.2
      apply Classical.byContradiction
      intro hn
      have := hrem e.2 hl hn
      rw [hnc] at hpc
      exact hpc.1 this
  · intro e he hopen hpc
    simp only [ctrlStep_pendClose, List.mem_append, not_or] at hpc
    exact h.cr_tbl e he hopen hpc.2

theorem ctrl_links_mono {s : State} {op : Links.Op} (hne : ∀ x, op ≠ .est x) :
    ∀ x ∈ (Links.step s.ctrl op).links, x ∈ s.ctrl.links := by
  intro x hx
  rcases Links.step_links_subset _ _ _ hx with h | h
  · exact h
  · exact absurd h (hne x)

theorem qinv_start {s : State} (h : QInv s) (lp : Nat) : QInv (ctrlStep s (.start lp)) := by
  have := qinv_ctrlStep h (.start lp) (by intro x hx; cases hx) s.pendEst s.pendCtrlLost s.lostSeen s.late
    (fun _ hl => hl) (fun _ hl => hl) (fun _ hi => hi) (fun _ _ h1 => Or.inl h1)
    (fun l hl hs => h.seen_late l (ctrl_links_mono (by intro x hx; cases hx) l hl) hs)
    (fun e _ h1 h2 _ => absurd h2 h1)
  exact this

theorem qinv_shutdown {s : State} (h : QInv s) : QInv (ctrlStep s .shutdown) := by
  have := qinv_ctrlStep h .shutdown (by intro x hx; cases hx) s.pendEst s.pendCtrlLost s.lostSeen s.late
    (fun _ hl => hl) (fun _ hl => hl) (fun _ hi => hi) (fun _ _ h1 => Or.inl h1)
    (fun l hl hs => h.seen_late l (ctrl_links_mono (by intro x hx; cases hx) l hl) hs)
    (fun e _ h1 h2 _ => absurd h2 h1)
  exact this

theorem qinv_runEst {s : State} (h : QInv s) (l : Link) (hl : l ∈ s.pendEst) :
    QInv (ctrlStep { s with pendEst := s.pendEst.erase l,
                            late := if l.id ∈ s.lostSeen then l.id :: s.late else s.late } (.est l)) := by
  obtain ⟨cops, hc, hwf, hsub⟩ := h.ctrl_hist
  have hop : ∀ x, Links.histLinkOf (.est l) = some x → ∃ a, (a, x) ∈ s.created := by
    intro x hx
    simp only [Links.histLinkOf, Option.some.injEq] at hx
    subst hx
    exact h.pe_cr _ hl
  obtain ⟨hwf', _⟩ := wfh_snoc h hsub hop
  obtain ⟨new, hnew, _, hrej⟩ := ctrl_step_closed cops (.est l) hwf'
  rw [← hc] at hnew hrej
  have hnc : newClosed s.ctrl (Links.step s.ctrl (.est l)) = new := newClosed_of_append hnew
  have := qinv_ctrlStep h (.est l) hop (s.pendEst.erase l) s.pendCtrlLost s.lostSeen
    (if l.id ∈ s.lostSeen then l.id :: s.late else s.late)
    (fun _ hx => List.mem_of_mem_erase hx) (fun _ hx => hx) (fun _ hi => hi) (fun _ _ h1 => Or.inl h1)
    (by
      intro x hx hs
      have hmono : ∀ i ∈ s.late, i ∈ (if l.id ∈ s.lostSeen then l.id :: s.late else s.late) := by
        intro i hi; split
        · exact List.mem_cons_of_mem _ hi
        · exact hi
      rcases Links.step_links_subset _ _ _ hx with hx' | hx'
      · exact hmono _ (h.seen_late x hx' hs)
      · simp only [Links.Op.est.injEq] at hx'
        subst hx'
        simp [hs])
    (by
      intro e _ hne hin hnc'
      have hel : e.2 = l := by
        apply Classical.byContradiction
        intro hne'
        exact hne ((List.mem_erase_of_ne hne').2 hin)
      rw [hel] at hnc' ⊢
      rw [hnc] at hnc'
      by_cases hc' : s.ctrl.running = false ∨ l.remote = s.ctrl.localPeer
      · exact absurd (hrej l rfl hc') hnc'
      · have hr : s.ctrl.running = true := by
          cases hrr : s.ctrl.running
          · exact absurd (Or.inl hrr) hc'
          · rfl
        have hself : l.remote ≠ s.ctrl.localPeer := fun e => hc' (Or.inr e)
        have := Links.est_mem hwf' (hc ▸ hr) (hc ▸ hself)
        rw [Links.run_snoc, ← hc] at this
        exact this)
  exact this

theorem qinv_runCtrlLost {s : State} (h : QInv s) (l : Link) (hl : l ∈ s.pendCtrlLost) :
    QInv (ctrlStep { s with pendCtrlLost := s.pendCtrlLost.erase l,
                            lostSeen := l.id :: s.lostSeen } (.lost l)) := by
  obtain ⟨cops, hc, hwf, hsub⟩ := h.ctrl_hist
  have hop : ∀ x, Links.histLinkOf (.lost l) = some x → ∃ a, (a, x) ∈ s.created := by
    intro x hx
    simp only [Links.histLinkOf, Option.some.injEq] at hx
    subst hx
    exact h.pcl_cr _ hl
  obtain ⟨hwf', _⟩ := wfh_snoc h hsub hop
  have hgone : l ∉ (Links.step s.ctrl (.lost l)).links := by
    have := (Links.lost_gone hwf').1
    rw [Links.run_snoc, ← hc] at this
    exact this
  have := qinv_ctrlStep h (.lost l) hop s.pendEst (s.pendCtrlLost.erase l) (l.id :: s.lostSeen) s.late
    (fun _ hx => hx) (fun _ hx => List.mem_of_mem_erase hx) (fun _ hi => List.mem_cons_of_mem _ hi)
    (by
      intro e _ h1
      by_cases hel : e.2 = l
      · right; rw [hel]; exact List.mem_cons_self
      · left; exact (List.mem_erase_of_ne hel).2 h1)
    (by
      intro x hx hs
      have hx' := ctrl_links_mono (s := s) (op := .lost l) (by intro y hy; cases hy) x hx
      rcases List.mem_cons.1 hs with hs | hs
      · exfalso
        obtain ⟨a, ha⟩ := ctrl_links_created h x hx'
        obtain ⟨b, hb⟩ := h.pcl_cr _ hl
        have : x = l := created_link_inj h ha hb hs
        exact hgone (this ▸ hx)
      · exact h.seen_late x hx' hs)
    (fun e _ h1 h2 _ => absurd h2 h1)
  exact this

/-! ### transport-side transitions -/

theorem qinv_session (U : Nat → Nat → Nat) {s : State} (h : QInv s) (a p : Nat) :
    QInv (step U s (.session a p)) := by
  have hstep : step U s (.session a p) =
      { s with
        created := (a, ⟨s.created.length, U a p, p⟩) :: s.created
        table := (a, ⟨s.created.length, U a p, p⟩) :: s.table.filter (fun e => e.1 ≠ a)
        pendClose := (match s.table.find? (fun e => e.1 = a) with
          | some e => [e.2.id]
          | none => []) ++ s.pendClose
        pendEst := ⟨s.created.length, U a p, p⟩ :: s.pendEst } := rfl
  rw [hstep]
  generalize hl : (⟨s.created.length, U a p, p⟩ : Link) = l
  have hlid : l.id = s.created.length := by rw [← hl]
  have hfresh : ∀ e ∈ s.created, e.2.id ≠ l.id := by
    intro e he; rw [hlid]; exact Nat.ne_of_lt (h.cr_lt e he)
  constructor
  · intro e he
    simp only [List.mem_cons, List.length_cons] at he ⊢
    rcases he with rfl | he
    · simp [hlid]
    · exact Nat.lt_succ_of_lt (h.cr_lt e he)
  · simp only [List.map_cons, List.nodup_cons, List.mem_map, not_exists, not_and]
    exact ⟨fun e he => hfresh e he, h.cr_nd⟩
  · intro i hi
    simp only [List.length_cons]
    exact Nat.lt_succ_of_lt (h.cb_lt i hi)
  · intro e he
    simp only [List.mem_cons, List.mem_filter, decide_eq_true_eq, ne_eq] at he
    rcases he with rfl | ⟨he, hk⟩
    · simp
    · simp only [List.find?_cons]
      have : ¬ (a = e.1) := fun x => hk x.symm
      simp only [this, decide_false]
      exact h.tbl_latest e he
  · obtain ⟨cops, hc, hwf, hsub⟩ := h.ctrl_hist
    refine ⟨cops, hc, hwf, ?_⟩
    intro x hx
    obtain ⟨b, hb⟩ := hsub x hx
    exact ⟨b, List.mem_cons_of_mem _ hb⟩
  · intro x hx
    simp only [List.mem_cons] at hx
    rcases hx with rfl | hx
    · exact ⟨a, List.mem_cons_self⟩
    · obtain ⟨b, hb⟩ := h.pe_cr x hx
      exact ⟨b, List.mem_cons_of_mem _ hb⟩
  · intro e he
    exact ⟨List.mem_cons_of_mem _ (h.pl_cr e he).1, (h.pl_cr e he).2⟩
  · intro x hx
    obtain ⟨b, hb⟩ := h.pcl_cr x hx
    exact ⟨b, List.mem_cons_of_mem _ hb⟩
  · intro e he hcl
    simp only [List.mem_cons] at he
    rcases he with rfl | he
    · exfalso
      have := h.cb_lt _ hcl
      simp only [hlid] at this
      exact Nat.lt_irrefl _ this
    · exact h.cb_phase e he hcl
  · exact h.seen_late
  · intro e he hopen hpe hpc
    simp only [List.mem_cons, List.mem_filter, decide_eq_true_eq, ne_eq] at he
    simp only [List.mem_cons, not_or, List.mem_append] at hpe hpc
    rcases he with rfl | ⟨he, _⟩
    · exact absurd rfl hpe.1
    · exact h.tbl_ctrl e he hopen hpe.2 hpc.2
  · intro e he hopen hpc
    simp only [List.mem_cons] at he
    simp only [List.mem_append, not_or] at hpc
    rcases he with rfl | he
    · exact List.mem_cons_self
    · have het := h.cr_tbl e he hopen hpc.2
      apply List.mem_cons_of_mem
      simp only [List.mem_filter, decide_eq_true_eq, ne_eq]
      refine ⟨het, ?_⟩
      intro hk
      have hf := table_find h het hk
      rw [hf] at hpc
      exact hpc.1 List.mem_cons_self

theorem qinv_closeBody {s : State} (h : QInv s) (i : Nat) : QInv (closeBody s i) := by
  rcases closeBody_cases s i with hs | ⟨e, he, hid, hn, hs⟩
  · rw [hs]; exact h
  · rw [hs]
    constructor
    · exact h.cr_lt
    · exact h.cr_nd
    · intro j hj
      simp only [List.mem_cons] at hj
      rcases hj with rfl | hj
      · rw [← hid]; exact h.cr_lt e he
      · exact h.cb_lt j hj
    · exact h.tbl_latest
    · exact h.ctrl_hist
    · exact h.pe_cr
    · intro e' he'
      simp only [List.mem_cons] at he' ⊢
      rcases he' with rfl | he'
      · exact ⟨he, Or.inl hid⟩
      · exact ⟨(h.pl_cr e' he').1, Or.inr (h.pl_cr e' he').2⟩
    · exact h.pcl_cr
    · intro e' he' hcl
      simp only [List.mem_cons] at hcl ⊢
      rcases hcl with hcl | hcl
      · left; left
        exact created_inj h e' he' e he (hcl.trans hid.symm)
      · rcases h.cb_phase e' he' hcl with h1 | h1 | h1
        · exact Or.inl (Or.inr h1)
        · exact Or.inr (Or.inl h1)
        · exact Or.inr (Or.inr h1)
    · exact h.seen_late
    · intro e' he' hopen hpe hpc
      simp only [List.mem_cons, not_or] at hopen
      exact h.tbl_ctrl e' he' hopen.2 hpe hpc
    · intro e' he' hopen hpc
      simp only [List.mem_cons, not_or] at hopen
      exact h.cr_tbl e' he' hopen.2 hpc

/-- A started `go x.Close()` has run: drop it from the pending multiset. Sound once the link is
closed (or never existed). -/
theorem qinv_erase_pendClose {s : State} (h : QInv s) (i : Nat)
    (hcl : ∀ e ∈ s.created, e.2.id = i → i ∈ s.closedCb) :
    QInv { s with pendClose := s.pendClose.erase i } := by
  have key : ∀ e ∈ s.created, e.2.id ∉ s.closedCb → e.2.id ∉ s.pendClose.erase i → e.2.id ∉ s.pendClose := by
    intro e he hopen hpc hin
    by_cases hei : e.2.id = i
    · exact hopen (hei ▸ hcl e he hei)
    · exact hpc ((List.mem_erase_of_ne hei).2 hin)
  constructor
  · exact h.cr_lt
  · exact h.cr_nd
  · exact h.cb_lt
  · exact h.tbl_latest
  · exact h.ctrl_hist
  · exact h.pe_cr
  · exact h.pl_cr
  · exact h.pcl_cr
  · exact h.cb_phase
  · exact h.seen_late
  · intro e he hopen hpe hpc
    exact h.tbl_ctrl e he hopen hpe (key e (table_sub_created h e he) hopen hpc)
  · intro e he hopen hpc
    exact h.cr_tbl e he hopen (key e he hopen hpc)

theorem qinv_runClose {s : State} (h : QInv s) (i : Nat) :
    QInv (closeBody { s with pendClose := s.pendClose.erase i } i) := by
  rw [closeBody_pendClose]
  have h1 := qinv_closeBody h i
  have h2 := qinv_erase_pendClose h1 i (by
    intro e he hid
    have : (closeBody s i).created = s.created := by
      rcases closeBody_cases s i with hs | ⟨_, _, _, _, hs⟩ <;> rw [hs]
    rw [this] at he
    exact closeBody_closed s i ⟨e, he, hid⟩)
  have hpc : (closeBody s i).pendClose = s.pendClose := by
    rcases closeBody_cases s i with hs | ⟨_, _, _, _, hs⟩ <;> rw [hs]
  rw [hpc] at h2
  exact h2

theorem qinv_runLost {s : State} (h : QInv s) (a : Nat) (l : Link) (hl : (a, l) ∈ s.pendLost) :
    QInv { s with
      pendLost := s.pendLost.erase (a, l)
      table := if (decide (s.table.find? (fun e => e.1 = a) = some (a, l))) = true
        then s.table.filter (fun e => e.1 ≠ a) else s.table
      pendCtrlLost := l :: s.pendCtrlLost } := by
  obtain ⟨hcr, hclosed⟩ := h.pl_cr _ hl
  have hsubT : ∀ e, e ∈ (if (decide (s.table.find? (fun e => e.1 = a) = some (a, l))) = true
      then s.table.filter (fun e => e.1 ≠ a) else s.table) → e ∈ s.table := by
    intro e he
    split at he
    · exact (List.mem_filter.1 he).1
    · exact he
  constructor
  · exact h.cr_lt
  · exact h.cr_nd
  · exact h.cb_lt
  · intro e he; exact h.tbl_latest e (hsubT e he)
  · exact h.ctrl_hist
  · exact h.pe_cr
  · intro e he; exact h.pl_cr e (List.mem_of_mem_erase he)
  · intro x hx
    simp only [List.mem_cons] at hx
    rcases hx with rfl | hx
    · exact ⟨a, hcr⟩
    · exact h.pcl_cr x hx
  · intro e he hcl
    rcases h.cb_phase e he hcl with h1 | h1 | h1
    · by_cases hel : e = (a, l)
      · right; left; rw [hel]; exact List.mem_cons_self
      · left; exact (List.mem_erase_of_ne hel).2 h1
    · right; left; exact List.mem_cons_of_mem _ h1
    · exact Or.inr (Or.inr h1)
  · exact h.seen_late
  · intro e he hopen hpe hpc
    exact h.tbl_ctrl e (hsubT e he) hopen hpe hpc
  · intro e he hopen hpc
    have het := h.cr_tbl e he hopen hpc
    show e ∈ (if (decide (s.table.find? (fun e => e.1 = a) = some (a, l))) = true
      then s.table.filter (fun e => e.1 ≠ a) else s.table)
    split
    · rename_i hrel
      simp only [decide_eq_true_eq] at hrel
      simp only [List.mem_filter, decide_eq_true_eq, ne_eq]
      refine ⟨het, ?_⟩
      intro hk
      have hf := table_find h het hk
      rw [hf] at hrel
      have : e = (a, l) := Option.some.inj hrel
      rw [this] at hopen
      exact hopen hclosed
    · exact het

/-- Every transition preserves the invariant. -/
theorem qinv_step (U : Nat → Nat → Nat) {s : State} (h : QInv s) (op : Op) : QInv (step U s op) := by
  cases op with
  | start lp => exact qinv_start h lp
  | shutdown => exact qinv_shutdown h
  | session a p => exact qinv_session U h a p
  | runEst l =>
    by_cases hl : l ∈ s.pendEst
    · have : step U s (.runEst l) = ctrlStep
          { s with
            pendEst := s.pendEst.erase l
            late := if l.id ∈ s.lostSeen then l.id :: s.late else s.late } (.est l) := by
        simp [step, stepWith, hl]
      rw [this]; exact qinv_runEst h l hl
    · have : step U s (.runEst l) = s := by simp [step, stepWith, hl]
      rw [this]; exact h
  | close i => exact qinv_closeBody h i
  | runClose i =>
    by_cases hi : i ∈ s.pendClose
    · have : step U s (.runClose i) = closeBody { s with pendClose := s.pendClose.erase i } i := by
        simp [step, stepWith, hi]
      rw [this]; exact qinv_runClose h i
    · have : step U s (.runClose i) = s := by simp [step, stepWith, hi]
      rw [this]; exact h
  | runLost a l =>
    by_cases hl : (a, l) ∈ s.pendLost
    · have : step U s (.runLost a l) =
          { s with
            pendLost := s.pendLost.erase (a, l)
            table := if (decide (s.table.find? (fun e => e.1 = a) = some (a, l))) = true
              then s.table.filter (fun e => e.1 ≠ a) else s.table
            pendCtrlLost := l :: s.pendCtrlLost } := by
        simp [step, stepWith, hl]
      rw [this]; exact qinv_runLost h a l hl
    · have : step U s (.runLost a l) = s := by simp [step, stepWith, hl]
      rw [this]; exact h
  | runCtrlLost l =>
    by_cases hl : l ∈ s.pendCtrlLost
    · have : step U s (.runCtrlLost l) = ctrlStep
          { s with
            pendCtrlLost := s.pendCtrlLost.erase l
            lostSeen := l.id :: s.lostSeen } (.lost l) := by
        simp [step, stepWith, hl]
      rw [this]; exact qinv_runCtrlLost h l hl
    · have : step U s (.runCtrlLost l) = s := by simp [step, stepWith, hl]
      rw [this]; exact h

theorem run_snoc (U : Nat → Nat → Nat) (ops : List Op) (op : Op) :
    run U (ops ++ [op]) = step U (run U ops) op := by
  simp [run, List.foldl_append]

theorem qinv_run (U : Nat → Nat → Nat) (ops : List Op) : QInv (run U ops) := by
  induction ops using Links.snoc_induction with
  | nil => exact qinv_init
  | snoc ops op ih => rw [run_snoc]; exact qinv_step U ih op

end QuicTable
end Bifrost
