import Bifrost.Lemmas.SigPair
/-!
How the stable-pair machine (`SigPair`) sits inside the composed signaling system (`SigSys`):
the hypothesis "both clients hold a live relay call" (`Live`), the events of a stable suffix
(`Stable`), the projection of composed events onto pair actions (`proj`), and the relay-side
wake-up condition on a `Half` (`WakeOk`, the record-level content of C22's `WakeCond`).
Definitions only; the simulation theorem is in `SigPairSim.lean`.
-/
namespace Bifrost
namespace SigPair
open Bifrost.SigSys

/-- Both trackers `a = (A → B)` and `b = (B → A)` hold a live Session RPC at the relay: the
client has the call open (`call = some id`, stream pair open), and the relay's handler of that
call is running (not ended, not returning, reader not stopped) and is the registered attachment
of its side of the session. -/
structure Live (s : SigSys.State) (A B ia ib : Nat) : Prop where
  cliA : ∃ c, getClient s A B = some c ∧ c.call = some ia
  cliB : ∃ c, getClient s B A = some c ∧ c.call = some ib
  chA : ∃ ch, getChan s ia = some ch ∧ ch.open_ = true
  chB : ∃ ch, getChan s ib = some ch ∧ ch.open_ = true
  srvA : ∃ c, Sig.getSCall s.srv ia = some c ∧ c.ended = false ∧ c.failing = false ∧ c.readerDone = false ∧
    c.attached s.srv = true
  srvB : ∃ c, Sig.getSCall s.srv ib = some c ∧ c.ended = false ∧ c.failing = false ∧ c.readerDone = false ∧
    c.attached s.srv = true

/-- is `(me, peer)` one of the two trackers of the pair? -/
def isPair (A B me peer : Nat) : Prop := (me = A ∧ peer = B) ∨ (me = B ∧ peer = A)

instance (A B me peer : Nat) : Decidable (isPair A B me peer) := by unfold isPair; exact inferInstance

/-- The events of a stable suffix: no client-side stream end, no `Send` cancellation of the two
trackers, no relay-side teardown of their two calls. Everything else may happen, including any
event of any other tracker / call (their connects, disconnects, teardowns), and `connect A B`
(a no-op while the call is open). -/
def Stable (A B ia ib : Nat) : SigSys.Ev → Prop
  | .disconnect me peer => ¬ isPair A B me peer
  | .sendCancel me peer _ => ¬ isPair A B me peer
  | .srvEnd c => c ≠ ia ∧ c ≠ ib
  | _ => True

/-- projection of a composed event onto an action of the pair (`true` = side `A → B`) -/
def proj (A B ia ib : Nat) : SigSys.Ev → Option (Bool × Act)
  | .sendStart me peer m =>
    if me = A ∧ peer = B then some (true, .sendStart m) else if me = B ∧ peer = A then some (false, .sendStart m) else none
  | .sendStep me peer id =>
    if me = A ∧ peer = B then some (true, .sendStep id) else if me = B ∧ peer = A then some (false, .sendStep id) else none
  | .recvStep me peer =>
    if me = A ∧ peer = B then some (true, .recvStep) else if me = B ∧ peer = A then some (false, .recvStep) else none
  | .clientTx me peer =>
    if me = A ∧ peer = B then some (true, .tx) else if me = B ∧ peer = A then some (false, .tx) else none
  | .clientRx me peer =>
    if me = A ∧ peer = B then some (true, .rx) else if me = B ∧ peer = A then some (false, .rx) else none
  | .srvRx c => if c = ia then some (true, .srvRx) else if c = ib then some (false, .srvRx) else none
  | .srvLoop c => if c = ia then some (true, .srvLoop) else if c = ib then some (false, .srvLoop) else none
  | .srvTx c => if c = ia then some (true, .srvTx) else if c = ib then some (false, .srvTx) else none
  | _ => none

def stepO (p : PState) : Option (Bool × Act) → PState
  | some sa => step p sa
  | none => p

/-- C22's no-lost-wake-up condition on the records of one side (partner attached): the write
loop's wait generation never exceeds the tracker's, and a sleeping loop has announced the
current epoch and has nothing to relay. -/
def WakeOk (h : Half) (gen ep : Nat) : Prop :=
  h.wait ≤ gen ∧ (gen ≤ h.wait → h.ann = some ep ∧ h.att.recv = none ∧ h.att.outAcked = none)

end SigPair
end Bifrost
