import Bifrost.Model.Pubsub
/-! Helper lemmas for C28, Part 8 (`Pubsub.Replace`): invariants of the fixed `writePacket`. -/
namespace Bifrost.Pubsub.Replace

/-- the fixed step never sets `panicked` -/
theorem step_panicked (s : State) (ev : Ev) : (step s ev).panicked = s.panicked := by
  cases ev <;> simp only [step]
  · cases hc : s.cur with
    | none => rfl
    | some x => by_cases hx : x.started <;> simp [hx]
  · by_cases h : (s.panicked || !s.announced) = true
    · simp [h]
    · simp only [h]
      cases hc : s.cur with
      | none => rfl
      | some x => rfl
  · cases hc : s.cur with
    | none => rfl
    | some x => by_cases hx : x.started <;> simp [hx]

/-- Invariant: an unstarted registered session always has room for the initial set. -/
def Room (s : State) : Prop := ∀ x, s.cur = some x → x.started = false → x.queue.length < s.cap

theorem step_cap (s : State) (ev : Ev) : (step s ev).cap = s.cap := by
  cases ev <;> simp only [step]
  · cases hc : s.cur with
    | none => rfl
    | some x => by_cases hx : x.started <;> simp [hx]
  · by_cases h : (s.panicked || !s.announced) = true
    · simp [h]
    · simp only [h]
      cases hc : s.cur with
      | none => rfl
      | some x => rfl
  · cases hc : s.cur with
    | none => rfl
    | some x => by_cases hx : x.started <;> simp [hx]

theorem write_room (c : Nat) (x : Sess) (id : Nat) (hx : x.started = false) (h : x.queue.length < c) :
    (write c x id).1.started = false ∧ (write c x id).1.queue.length < c := by
  unfold write
  simp only [hx]
  by_cases h2 : x.queue.length + 1 < c
  · simp [h2]
  · simp [h2, hx, h]

theorem step_room (s : State) (ev : Ev) (hc : 0 < s.cap) (h : Room s) : Room (step s ev) := by
  intro y hy hst
  cases ev with
  | add =>
    simp only [step] at hy ⊢
    cases hy
    simpa using hc
  | start =>
    simp only [step] at hy ⊢
    cases hcur : s.cur with
    | none => simp [hcur] at hy
    | some x =>
      simp only [hcur] at hy ⊢
      by_cases hx : x.started
      · simp only [hx, if_true] at hy ⊢
        rw [hcur] at hy; cases hy; simp [hx] at hst
      · simp only [hx] at hy
        simp at hy
        subst hy
        simp at hst
  | announce b =>
    simp only [step] at hy ⊢
    exact h y hy hst
  | publish id =>
    simp only [step] at hy ⊢
    by_cases hp : (s.panicked || !s.announced) = true
    · simp only [hp, if_true] at hy ⊢
      exact h y hy hst
    · simp only [hp] at hy ⊢
      cases hcur : s.cur with
      | none => simp [hcur] at hy
      | some x =>
        simp only [hcur] at hy ⊢
        simp at hy
        subst hy
        by_cases hx : x.started
        · unfold write at hst
          simp only [hx, if_true] at hst
          by_cases h3 : x.queue.length < s.cap <;> simp [h3, hx] at hst
        · have hx' : x.started = false := by simpa using hx
          exact (write_room s.cap x id hx' (h x hcur hx')).2
  | take =>
    simp only [step] at hy ⊢
    cases hcur : s.cur with
    | none => simp [hcur] at hy
    | some x =>
      simp only [hcur] at hy ⊢
      by_cases hx : x.started
      · simp only [hx, if_true] at hy
        simp at hy
        subst hy
        simp [hx] at hst
      · simp only [hx] at hy ⊢
        exact h y (by simpa using hy) hst
  | endCur =>
    simp only [step] at hy
    cases hy

theorem run_room (evs : List Ev) (s : State) (hc : 0 < s.cap) (h : Room s) :
    Room (run s evs) ∧ (run s evs).cap = s.cap := by
  induction evs generalizing s with
  | nil => exact ⟨h, rfl⟩
  | cons ev evs ih =>
    have hc' : 0 < (step s ev).cap := by rw [step_cap]; exact hc
    have := ih (step s ev) hc' (step_room s ev hc h)
    exact ⟨this.1, by show (run (step s ev) evs).cap = s.cap; rw [this.2, step_cap]⟩

theorem run_panicked (evs : List Ev) (s : State) : (run s evs).panicked = s.panicked := by
  induction evs generalizing s with
  | nil => rfl
  | cons ev evs ih => exact (ih (step s ev)).trans (step_panicked s ev)

end Bifrost.Pubsub.Replace
