import Bifrost.Lemmas.SigPairRank
/-!
C23 liveness, stable-pair machine: `rk_mono` — in the synchronised regime no action of either
side (other than starting a new `Send`) raises the measure
`(number of pending sends of x, stage of x's current send, position)`.
-/
namespace Bifrost
namespace SigPair
open Bifrost.SigSys Bifrost.SigPairCli
set_option linter.unusedSimpArgs false

/-- conclusion of the monotonicity / progress statements -/
def Down (lt : Nat × Nat → Nat × Nat → Prop) (p p' : PState) (st : Stage) (j : Nat) : Prop :=
  pend p'.x.cl < pend p.x.cl ∨
    (pend p'.x.cl = pend p.x.cl ∧ ∃ st' j', Rk p' st' j' ∧ lt (st'.num, j') (st.num, j))

theorem htk_of {p : PState} (hj : J p) (sd : Bool) (a : Act) (hns : ∀ m', a ≠ .sendStart m') :
    ∀ m st j, Sent p m → Sent (step p (sd, a)) m → Tk p m st j →
      ∃ st' j', Tk (step p (sd, a)) m st' j' ∧ LexLe (st'.num, j') (st.num, j) := by
  intro m st j hs hs' ht
  obtain ⟨st', j', h1, h2⟩ := tk_step hj.inv.hy hs sd a hs' ht
  rcases h2 with ⟨m', hm'⟩ | h2
  · exact absurd hm' (hns m')
  · exact ⟨st', j', h1, h2⟩

/-- the tracker of x is untouched -/
theorem rk_mono_cl_same {p : PState} (hj : J p) (sd : Bool) (a : Act) (hns : ∀ m', a ≠ .sendStart m')
    (hcl : (step p (sd, a)).x.cl = p.x.cl) {st : Stage} {j : Nat} (hr : Rk p st j) :
    Down LexLe p (step p (sd, a)) st j := by
  refine Or.inr ⟨by rw [hcl], ?_⟩
  exact rk_of_same (by rw [hcl]) (by rw [hcl]) (by rw [hcl]) (by rw [hcl]) (fun i hi => by rw [hcl]; exact hi)
    (htk_of hj sd a hns) hr

theorem out_some_of_rk {p : PState} {st : Stage} {j : Nat} (hr : Rk p st j) (hst : st ≠ .free) :
    ∃ o, p.x.cl.out = some o := by
  cases st <;> simp only [Rk] at hr
  case free => exact absurd rfl hst
  case acked => obtain ⟨o, h, _⟩ := hr; exact ⟨o, h⟩
  case unsent => obtain ⟨o, h, _⟩ := hr; exact ⟨o, h⟩
  case cancel => obtain ⟨o, h, _⟩ := hr; exact ⟨o, h⟩
  all_goals
    obtain ⟨m, hs, _⟩ := hr
    exact ⟨m, hs.1⟩

theorem cancel_of_rk {p : PState} {st : Stage} {j : Nat} (hr : Rk p st j) (hc : p.x.cl.outCancel = true) :
    st = .cancel ∨ st = .free := by
  cases st <;> simp only [Rk] at hr
  case free => exact Or.inr rfl
  case cancel => exact Or.inl rfl
  case acked => obtain ⟨o, _, _, _, h⟩ := hr; rw [hc] at h; cases h
  case unsent => obtain ⟨o, _, _, h⟩ := hr; rw [hc] at h; cases h
  all_goals
    obtain ⟨m, hs, _⟩ := hr
    have := hs.2.2.2
    rw [hc] at this; cases this

theorem free_lt_cancel : Stage.free.num < Stage.cancel.num := by decide

theorem rk_mono {p : PState} (hj : J p) (hpos : 0 < pend p.x.cl) {st : Stage} {j : Nat} (hr : Rk p st j)
    (sd : Bool) (a : Act) (hns : ∀ m', a ≠ .sendStart m') :
    Down LexLe p (step p (sd, a)) st j := by
  have hreach := hj.inv.hx.reach
  have hidle := idle_of_reachable hreach
  cases sd with
  | false => exact rk_mono_cl_same hj false a hns (step_cl_y p a).1 hr
  | true =>
    have hcl := (step_cl_x p a).1
    have hreach' : SigC.Reachable (step p (true, a)).x.cl := (pinv_step hj.inv (true, a)).hx.reach
    cases a with
    | sendStart m' => exact absurd rfl (hns m')
    | srvRx => exact rk_mono_cl_same hj true _ hns hcl hr
    | srvLoop => exact rk_mono_cl_same hj true _ hns hcl hr
    | srvTx => exact rk_mono_cl_same hj true _ hns hcl hr
    | recvStep =>
      simp only [clAfter] at hcl
      obtain ⟨f1, f2, f3, f4, f5⟩ := recvStep_fields p.x.cl
      refine Or.inr ⟨by rw [hcl]; exact pend_congr f5, ?_⟩
      exact rk_of_same (by rw [hcl]; exact f1) (by rw [hcl]; exact f2) (by rw [hcl]; exact f3) (by rw [hcl]; exact f4)
        (fun i hi => by rw [hcl]; exact (pending_congr f5).2 hi) (htk_of hj true _ hns) hr
    | sendStep id =>
      simp only [clAfter] at hcl
      obtain ⟨_, _, _, f4, _, heff⟩ := guarded_sendStep hreach id
      unfold guarded at hcl
      generalize (if SigC.enabled p.x.cl (.sendStep id) = true then SigC.step p.x.cl (.sendStep id) else p.x.cl) = c' at *
      cases heff with
      | keep a1 a2 a3 a4 a5 =>
        refine Or.inr ⟨by rw [hcl]; exact a4, ?_⟩
        exact rk_of_same (by rw [hcl]; exact a1) (by rw [hcl]; exact a2) (by rw [hcl]; exact a3) (by rw [hcl]; exact f4)
          (fun i hi => by rw [hcl]; exact a5 i hi) (htk_of hj true _ hns) hr
      | take c a1 a2 a3 a4 a5 a6 a7 =>
        refine Or.inr ⟨by rw [hcl]; exact a6, ?_⟩
        by_cases hst : st = .free
        · subst hst
          obtain ⟨g1, g2, g3⟩ := hidle.free a1
          exact ⟨.unsent, 0, ⟨c.msg, by rw [hcl]; exact a3, by rw [hcl]; exact a4.trans g1, by rw [hcl]; exact f4.trans g3⟩,
            Or.inl (show Stage.unsent.num < Stage.free.num by decide)⟩
        · obtain ⟨o, ho⟩ := out_some_of_rk hr hst
          rw [a1] at ho; cases ho
      | done o a1 a2 a3 a4 a5 a6 a7 =>
        exact Or.inl (by rw [hcl]; omega)
    | tx =>
      simp only [clAfter] at hcl
      have hsends := txLoop_sends p.x.cl
      have hpend : pend (step p (true, .tx)).x.cl = pend p.x.cl := by rw [hcl]; exact pend_congr hsends
      refine Or.inr ⟨hpend, ?_⟩
      cases txLoop_eff p.x.cl with
      | same a1 a2 a3 a4 =>
        exact rk_of_same (by rw [hcl]; exact a1) (by rw [hcl]; exact a2) (by rw [hcl]; exact a3) (by rw [hcl]; exact a4)
          (fun i hi => by rw [hcl]; exact (pending_congr hsends).2 hi) (htk_of hj true _ hns) hr
      | cleared o a1 a2 a3 =>
        rcases cancel_of_rk hr a2 with rfl | rfl
        · exact rk_freed hreach' (by rw [hcl]; exact a3) (by rw [hpend]; exact hpos) free_lt_cancel
        · simp only [Rk] at hr; rw [a1] at hr; cases hr.1
      | sent o a1 a2 a3 a4 a5 a6 a7 =>
        have hs1 : (step p (true, .tx)).x.cl.out = some o := by rw [hcl]; exact a4
        have hs2 : (step p (true, .tx)).x.cl.outSent = true := by rw [hcl]; exact a5
        have hs4 : (step p (true, .tx)).x.cl.outCancel = false := by rw [hcl]; exact a7
        cases st <;> simp only [Rk] at hr
        case acked =>
          obtain ⟨o', b1, b2, b3, b4⟩ := hr
          rw [a1] at b1; cases b1
          exact ⟨.acked, j, ⟨o, hs1, b2, by rw [hcl]; exact a6.trans b3, hs4⟩, LexLe.refl _⟩
        case unsent =>
          cases hack : p.x.cl.outAcked with
          | true => exact rk_acked hs1 (by rw [hcl]; exact a6.trans hack) hs4 (by decide)
          | false =>
            refine ⟨.sndUp, p.x.up.length, ⟨o, ⟨hs1, hs2, by rw [hcl]; exact a6.trans hack, hs4⟩,
              tk_sent_now hj.sx.opn a1 a3 a2⟩, Or.inl (show Stage.sndUp.num < Stage.unsent.num by decide)⟩
        case free => rw [a1] at hr; cases hr.1
        case cancel => obtain ⟨o', _, b2⟩ := hr; rw [a2] at b2; cases b2
        all_goals
          obtain ⟨m, hs, _⟩ := hr
          have := hs.2.1
          rw [a3] at this; cases this
    | rx =>
      simp only [clAfter] at hcl
      cases hd : p.x.dn with
      | nil =>
        have : step p (true, .rx) = p := by simp [step, stepX, hd]
        rw [this]
        exact Or.inr ⟨rfl, st, j, hr, LexLe.refl _⟩
      | cons r rest =>
        simp only [hd] at hcl
        have hna : isAnn r = false := hj.sx.quiet r (by simp [hd])
        obtain ⟨heff, hsends⟩ := rxEv_eff hna p.x.cl
        have hpend : pend (step p (true, .rx)).x.cl = pend p.x.cl := by rw [hcl]; exact pend_congr hsends
        refine Or.inr ⟨hpend, ?_⟩
        cases heff with
        | same a1 a2 a3 a4 =>
          exact rk_of_same (by rw [hcl]; exact a1) (by rw [hcl]; exact a2) (by rw [hcl]; exact a3) (by rw [hcl]; exact a4)
            (fun i hi => by rw [hcl]; exact (pending_congr hsends).2 hi) (htk_of hj true _ hns) hr
        | cleared o a1 a2 a3 =>
          rcases cancel_of_rk hr a2 with rfl | rfl
          · exact rk_freed hreach' (by rw [hcl]; exact a3) (by rw [hpend]; exact hpos) free_lt_cancel
          · simp only [Rk] at hr; rw [a1] at hr; cases hr.1
        | acked o a1 a2 a3 a4 a5 a6 =>
          have hs1 : (step p (true, .rx)).x.cl.out = some o := by rw [hcl]; exact a3
          have hs3 : (step p (true, .rx)).x.cl.outAcked = true := by rw [hcl]; exact a5
          have hs4 : (step p (true, .rx)).x.cl.outCancel = false := by rw [hcl]; exact a6
          cases st <;> simp only [Rk] at hr
          case acked =>
            obtain ⟨o', b1, b2, b3, b4⟩ := hr
            rw [a1] at b1; cases b1
            exact ⟨.acked, j, ⟨o, hs1, b2, hs3, hs4⟩, LexLe.refl _⟩
          case unsent =>
            obtain ⟨o', b1, b2, b3⟩ := hr
            exact ⟨.unsent, j, ⟨o, hs1, by rw [hcl]; exact a4.trans b2, hs4⟩, LexLe.refl _⟩
          case free => rw [a1] at hr; cases hr.1
          case cancel => obtain ⟨o', _, b2⟩ := hr; rw [a2] at b2; cases b2
          all_goals exact rk_acked hs1 hs3 hs4 (by decide)

/-! ### progress -/

theorem rk_of_tk {p' : PState} {m : SigC.Msg} {st' : Stage} {j' : Nat} (hs' : Sent p' m) (ht' : Tk p' m st' j') :
    Rk p' st' j' := by
  cases st' <;> first | exact ⟨m, hs', ht'⟩ | exact ht'.elim

/-- a token stage whose designated action does not touch x's tracker -/
theorem rk_prog_tok {p : PState} (hj : J p) {st : Stage} {j : Nat} {m : SigC.Msg} (hs : Sent p m) (ht : Tk p m st j)
    (hcl : (step p (st.hlp j)).x.cl = p.x.cl) : Down LexLt p (step p (st.hlp j)) st j := by
  have hs' : Sent (step p (st.hlp j)) m := by unfold Sent; rw [hcl]; exact hs
  obtain ⟨st', j', ht', hlt⟩ := tk_prog hj.inv hs hs' ht
  exact Or.inr ⟨by rw [hcl], st', j', rk_of_tk hs' ht', hlt⟩

theorem rk_prog {p : PState} (hj : J p) (hpos : 0 < pend p.x.cl) {st : Stage} {j : Nat} (hr : Rk p st j) :
    Down LexLt p (step p (st.hlp j)) st j := by
  have hreach := hj.inv.hx.reach
  have hopen := hj.sx.opn
  cases st <;> simp only [Rk] at hr
  case acked =>
    obtain ⟨o, b1, b2, b3, b4⟩ := hr
    subst b2
    have hcl := (step_cl_x p (.sendStep o.seqno)).1
    simp only [clAfter, guarded] at hcl
    have := sendStep_completes hreach hopen b1 b3 b4
    simp only at this
    exact Or.inl (by simp only [Stage.hlp]; rw [hcl]; omega)
  case unsent =>
    obtain ⟨o, b1, b2, b3⟩ := hr
    have hcl := (step_cl_x p .tx).1
    simp only [clAfter] at hcl
    have hsends := txLoop_sends p.x.cl
    have hpend : pend (step p (true, .tx)).x.cl = pend p.x.cl := by rw [hcl]; exact pend_congr hsends
    have e1 : (SigC.txLoop p.x.cl).1.out = some o := by simp [SigC.txLoop, hopen, b1, b2, b3]
    have e2 : (SigC.txLoop p.x.cl).1.outSent = true := by simp [SigC.txLoop, hopen, b1, b2, b3]
    have e3 : (SigC.txLoop p.x.cl).1.outAcked = p.x.cl.outAcked := by simp [SigC.txLoop, hopen, b1, b2, b3]
    have e4 : (SigC.txLoop p.x.cl).1.outCancel = false := by simp [SigC.txLoop, hopen, b1, b2, b3]
    refine Or.inr ⟨hpend, ?_⟩
    simp only [Stage.hlp]
    cases hack : p.x.cl.outAcked with
    | true =>
      exact ⟨.acked, o.seqno, ⟨o, by rw [hcl]; exact e1, rfl, by rw [hcl]; exact e3.trans hack, by rw [hcl]; exact e4⟩,
        Or.inl (show Stage.acked.num < Stage.unsent.num by decide)⟩
    | false =>
      exact ⟨.sndUp, p.x.up.length, ⟨o, ⟨by rw [hcl]; exact e1, by rw [hcl]; exact e2, by rw [hcl]; exact e3.trans hack,
        by rw [hcl]; exact e4⟩, tk_sent_now hopen b1 b2 b3⟩, Or.inl (show Stage.sndUp.num < Stage.unsent.num by decide)⟩
  case free =>
    obtain ⟨b1, b2⟩ := hr
    have hcl := (step_cl_x p (.sendStep j)).1
    simp only [clAfter, guarded] at hcl
    obtain ⟨⟨o, c1⟩, c2, c3, c4, _⟩ := sendStep_takes hreach hopen b1 b2
    simp only [Stage.hlp]
    exact Or.inr ⟨by rw [hcl]; exact c2, .unsent, 0, ⟨o, by rw [hcl]; exact c1, by rw [hcl]; exact c3, by rw [hcl]; exact c4⟩,
      Or.inl (show Stage.unsent.num < Stage.free.num by decide)⟩
  case cancel =>
    obtain ⟨o, b1, b2⟩ := hr
    have hcl := (step_cl_x p .tx).1
    simp only [clAfter] at hcl
    have hsends := txLoop_sends p.x.cl
    have hpend : pend (step p (true, .tx)).x.cl = pend p.x.cl := by rw [hcl]; exact pend_congr hsends
    have e1 : (SigC.txLoop p.x.cl).1.out = none := by simp [SigC.txLoop, hopen, b1, b2]
    have hreach' : SigC.Reachable (step p (true, .tx)).x.cl := (pinv_step hj.inv (true, .tx)).hx.reach
    obtain ⟨i, hi⟩ := exists_pending hreach' (by rw [hpend]; exact hpos)
    simp only [Stage.hlp]
    exact Or.inr ⟨hpend, .free, i, ⟨by rw [hcl]; exact e1, hi⟩, Or.inl (show Stage.free.num < Stage.cancel.num by decide)⟩
  case ackDn =>
    obtain ⟨m, hs, ht⟩ := hr
    have hcl := (step_cl_x p .rx).1
    simp only [clAfter] at hcl
    have htk := ht
    simp only [Tk] at htk
    obtain ⟨post, pre, hd, _⟩ := htk
    cases pre with
    | nil =>
      -- the ack is at the head of x's s2c: the tracker marks the message acknowledged
      simp only [List.nil_append] at hd
      simp only [hd] at hcl
      obtain ⟨heff, hsends⟩ := rxEv_eff (r := .ack m.seqno) rfl p.x.cl
      have hpend : pend (step p (true, .rx)).x.cl = pend p.x.cl := by rw [hcl]; exact pend_congr hsends
      simp only [Stage.hlp]
      refine Or.inr ⟨hpend, ?_⟩
      obtain ⟨s1, s2, s3, s4⟩ := hs
      have e1 : (rxEv (.ack m.seqno) p.x.cl).out = some m := by simp [rxEv, SigC.step, SigC.ackMsg, s1, s4]
      have e3 : (rxEv (.ack m.seqno) p.x.cl).outAcked = true := by simp [rxEv, SigC.step, SigC.ackMsg, s1, s4]
      have e4 : (rxEv (.ack m.seqno) p.x.cl).outCancel = false := by simp [rxEv, SigC.step, SigC.ackMsg, s1, s4]
      exact ⟨.acked, m.seqno, ⟨m, by rw [hcl]; exact e1, rfl, by rw [hcl]; exact e3, by rw [hcl]; exact e4⟩,
        Or.inl (show Stage.acked.num < Stage.ackDn.num by decide)⟩
    | cons r pre =>
      simp only [List.cons_append] at hd
      simp only [hd] at hcl
      have hna : isAnn r = false := hj.sx.quiet r (by simp [hd])
      obtain ⟨heff, hsends⟩ := rxEv_eff hna p.x.cl
      have hpend : pend (step p (true, .rx)).x.cl = pend p.x.cl := by rw [hcl]; exact pend_congr hsends
      simp only [Stage.hlp]
      refine Or.inr ⟨hpend, ?_⟩
      cases heff with
      | same a1 a2 a3 a4 =>
        have hs' : Sent (step p (true, .rx)) m := by
          obtain ⟨s1, s2, s3, s4⟩ := hs
          exact ⟨by rw [hcl]; exact a1.trans s1, by rw [hcl]; exact a2.trans s2, by rw [hcl]; exact a3.trans s3,
            by rw [hcl]; exact a4.trans s4⟩
        obtain ⟨st', j', ht', hlt⟩ := tk_prog (st := .ackDn) hj.inv hs hs' ht
        exact ⟨st', j', rk_of_tk hs' ht', hlt⟩
      | cleared o a1 a2 a3 => have := hs.2.2.2; rw [a2] at this; cases this
      | acked o a1 a2 a3 a4 a5 a6 =>
        exact ⟨.acked, o.seqno, ⟨o, by rw [hcl]; exact a3, rfl, by rw [hcl]; exact a5, by rw [hcl]; exact a6⟩,
          Or.inl (show Stage.acked.num < Stage.ackDn.num by decide)⟩
  case ackBox => obtain ⟨m, hs, ht⟩ := hr; exact rk_prog_tok hj hs ht (step_cl_x p _).1
  case ackAttE => obtain ⟨m, hs, ht⟩ := hr; exact rk_prog_tok hj hs ht (step_cl_x p _).1
  case ackAttB => obtain ⟨m, hs, ht⟩ := hr; exact rk_prog_tok hj hs ht (step_cl_x p _).1
  case sndUp => obtain ⟨m, hs, ht⟩ := hr; exact rk_prog_tok hj hs ht (step_cl_x p _).1
  case ackUp => obtain ⟨m, hs, ht⟩ := hr; exact rk_prog_tok hj hs ht (step_cl_y p _).1
  case rcvP => obtain ⟨m, hs, ht⟩ := hr; exact rk_prog_tok hj hs ht (step_cl_y p _).1
  case rcvU => obtain ⟨m, hs, ht⟩ := hr; exact rk_prog_tok hj hs ht (step_cl_y p _).1
  case rcvDn => obtain ⟨m, hs, ht⟩ := hr; exact rk_prog_tok hj hs ht (step_cl_y p _).1
  case rcvBox => obtain ⟨m, hs, ht⟩ := hr; exact rk_prog_tok hj hs ht (step_cl_y p _).1
  case relE => obtain ⟨m, hs, ht⟩ := hr; exact rk_prog_tok hj hs ht (step_cl_y p _).1
  case relB => obtain ⟨m, hs, ht⟩ := hr; exact rk_prog_tok hj hs ht (step_cl_y p _).1

end SigPair
end Bifrost
