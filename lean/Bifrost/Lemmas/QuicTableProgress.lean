import Bifrost.Lemmas.QuicTable
/-! Progress: from every reachable state, running the pending goroutines (and nothing else)
reaches a quiescent state. Helper lemmas for C06Quic. -/
namespace Bifrost
namespace QuicTable
open Links (Link)

/-- Continue a run from a state. -/
def runs (U : Nat → Nat → Nat) (s : State) (tail : List Op) : State := tail.foldl (step U) s

theorem run_append (U : Nat → Nat → Nat) (ops tail : List Op) :
    run U (ops ++ tail) = runs U (run U ops) tail := by
  simp [run, runs, List.foldl_append]

theorem runs_cons (U : Nat → Nat → Nat) (s : State) (op : Op) (tail : List Op) :
    runs U s (op :: tail) = runs U (step U s op) tail := rfl

theorem qinv_runs (U : Nat → Nat → Nat) {s : State} (h : QInv s) (tail : List Op) :
    QInv (runs U s tail) := by
  induction tail generalizing s with
  | nil => exact h
  | cons op tail ih => rw [runs_cons]; exact ih (qinv_step U h op)

/-- The op is the body of a goroutine (not an environment action). -/
def IsAsync : Op → Prop
  | .runEst _ => True
  | .runClose _ => True
  | .runLost _ _ => True
  | .runCtrlLost _ => True
  | _ => False

/-! ### a link whose loss is on its way to the controller is closed -/

def PclClosed (s : State) : Prop := ∀ l ∈ s.pendCtrlLost, l.id ∈ s.closedCb

theorem closeBody_closedCb_mono (s : State) (i : Nat) : ∀ j ∈ s.closedCb, j ∈ (closeBody s i).closedCb := by
  intro j hj
  rcases closeBody_cases s i with hs | ⟨_, _, _, _, hs⟩ <;> rw [hs]
  · exact hj
  · exact List.mem_cons_of_mem _ hj

theorem closeBody_pendCtrlLost (s : State) (i : Nat) : (closeBody s i).pendCtrlLost = s.pendCtrlLost := by
  rcases closeBody_cases s i with hs | ⟨_, _, _, _, hs⟩ <;> rw [hs]

theorem closeBody_pendEst (s : State) (i : Nat) : (closeBody s i).pendEst = s.pendEst := by
  rcases closeBody_cases s i with hs | ⟨_, _, _, _, hs⟩ <;> rw [hs]

theorem closeBody_pendClose' (s : State) (i : Nat) : (closeBody s i).pendClose = s.pendClose := by
  rcases closeBody_cases s i with hs | ⟨_, _, _, _, hs⟩ <;> rw [hs]

theorem closeBody_of_closed (s : State) (i : Nat) (h : i ∈ s.closedCb) : closeBody s i = s := by
  rcases closeBody_cases s i with hs | ⟨_, _, _, hn, _⟩
  · exact hs
  · exact absurd h hn

theorem pclClosed_step (U : Nat → Nat → Nat) {s : State} (h : QInv s) (hp : PclClosed s) (op : Op) :
    PclClosed (step U s op) := by
  cases op with
  | start lp => exact hp
  | shutdown => exact hp
  | session a p => exact hp
  | runEst l =>
    simp only [step, stepWith]; split
    · exact hp
    · exact hp
  | close i =>
    intro l hl
    simp only [step, stepWith, closeBody_pendCtrlLost] at hl
    exact closeBody_closedCb_mono s i _ (hp l hl)
  | runClose i =>
    simp only [step, stepWith]; split
    · intro l hl
      rw [closeBody_pendCtrlLost] at hl
      exact closeBody_closedCb_mono _ i _ (hp l hl)
    · exact hp
  | runLost a l =>
    simp only [step, stepWith]; split
    · rename_i hl
      intro x hx
      simp only [Bool.true_or, if_true, List.mem_cons] at hx
      rcases hx with rfl | hx
      · exact (h.pl_cr _ hl).2
      · exact hp x hx
    · exact hp
  | runCtrlLost l =>
    simp only [step, stepWith]; split
    · intro x hx
      exact hp x (List.mem_of_mem_erase hx)
    · exact hp

theorem pclClosed_run (U : Nat → Nat → Nat) (ops : List Op) : PclClosed (run U ops) := by
  induction ops using Links.snoc_induction with
  | nil => intro l hl; cases hl
  | snoc ops op ih => rw [run_snoc]; exact pclClosed_step U (qinv_run U ops) ih op

/-! ### the phases -/

/-- Phase 1: run every pending `go HandleLinkEstablished`. -/
theorem drain_pendEst (U : Nat → Nat → Nat) : ∀ (n : Nat) (s : State), s.pendEst.length = n →
    ∃ tail, (∀ op ∈ tail, IsAsync op) ∧ (runs U s tail).pendEst = [] := by
  intro n
  induction n with
  | zero =>
    intro s hn
    exact ⟨[], (by intro op h; cases h), List.eq_nil_of_length_eq_zero hn⟩
  | succ n ih =>
    intro s hn
    match hpe : s.pendEst, hn with
    | l :: rest, hn =>
      have hl : l ∈ s.pendEst := by rw [hpe]; exact List.mem_cons_self
      have hst : (step U s (.runEst l)).pendEst = rest := by
        simp [step, stepWith, hpe]
      obtain ⟨tail, ht, hq⟩ := ih (step U s (.runEst l)) (by rw [hst]; simpa [hpe] using hn)
      refine ⟨.runEst l :: tail, ?_, hq⟩
      intro op hop
      rcases List.mem_cons.1 hop with rfl | hop
      · trivial
      · exact ht op hop

/-- Phase 2 / 5: run every pending `go x.Close()`. If all of them are for closed links, no new
`handleLinkLost` goroutine is started. -/
theorem drain_pendClose (U : Nat → Nat → Nat) : ∀ (n : Nat) (s : State), s.pendClose.length = n →
    ∃ tail, (∀ op ∈ tail, IsAsync op) ∧ (runs U s tail).pendClose = [] ∧
      (runs U s tail).pendEst = s.pendEst ∧ (runs U s tail).pendCtrlLost = s.pendCtrlLost ∧
      ((∀ i ∈ s.pendClose, i ∈ s.closedCb) → (runs U s tail).pendLost = s.pendLost) := by
  intro n
  induction n with
  | zero =>
    intro s hn
    exact ⟨[], (by intro op h; cases h), List.eq_nil_of_length_eq_zero hn, rfl, rfl, fun _ => rfl⟩
  | succ n ih =>
    intro s hn
    match hpc : s.pendClose, hn with
    | i :: rest, hn =>
      have hi : i ∈ s.pendClose := by rw [hpc]; exact List.mem_cons_self
      have hst : step U s (.runClose i) = closeBody { s with pendClose := rest } i := by
        simp [step, stepWith, hpc]
      have h1 : (step U s (.runClose i)).pendClose = rest := by rw [hst, closeBody_pendClose']
      have h2 : (step U s (.runClose i)).pendEst = s.pendEst := by rw [hst, closeBody_pendEst]
      have h3 : (step U s (.runClose i)).pendCtrlLost = s.pendCtrlLost := by
        rw [hst, closeBody_pendCtrlLost]
      obtain ⟨tail, ht, hq1, hq2, hq3, hq4⟩ := ih (step U s (.runClose i)) (by rw [h1]; simpa using hn)
      refine ⟨.runClose i :: tail, ?_, hq1, by rw [runs_cons, hq2, h2], by rw [runs_cons, hq3, h3], ?_⟩
      · intro op hop
        rcases List.mem_cons.1 hop with rfl | hop
        · trivial
        · exact ht op hop
      · intro hall
        have hic : i ∈ s.closedCb := hall i List.mem_cons_self
        have hnoop : step U s (.runClose i) = { s with pendClose := rest } := by
          rw [hst]; exact closeBody_of_closed _ i hic
        rw [runs_cons, hq4 (by
          rw [hnoop]
          intro j hj
          exact hall j (List.mem_cons_of_mem _ hj)), hnoop]

/-- Phase 3: run the table half of every pending `go handleLinkLost`. -/
theorem drain_pendLost (U : Nat → Nat → Nat) : ∀ (n : Nat) (s : State), s.pendLost.length = n →
    ∃ tail, (∀ op ∈ tail, IsAsync op) ∧ (runs U s tail).pendLost = [] ∧
      (runs U s tail).pendEst = s.pendEst ∧ (runs U s tail).pendClose = s.pendClose := by
  intro n
  induction n with
  | zero =>
    intro s hn
    exact ⟨[], (by intro op h; cases h), List.eq_nil_of_length_eq_zero hn, rfl, rfl⟩
  | succ n ih =>
    intro s hn
    match hpl : s.pendLost, hn with
    | (a, l) :: rest, hn =>
      have hl : (a, l) ∈ s.pendLost := by rw [hpl]; exact List.mem_cons_self
      have h1 : (step U s (.runLost a l)).pendLost = rest := by simp [step, stepWith, hpl]
      have h2 : (step U s (.runLost a l)).pendEst = s.pendEst := by simp [step, stepWith, hl]
      have h3 : (step U s (.runLost a l)).pendClose = s.pendClose := by simp [step, stepWith, hl]
      obtain ⟨tail, ht, hq1, hq2, hq3⟩ := ih (step U s (.runLost a l)) (by rw [h1]; simpa using hn)
      refine ⟨.runLost a l :: tail, ?_, hq1, by rw [runs_cons, hq2, h2], by rw [runs_cons, hq3, h3]⟩
      intro op hop
      rcases List.mem_cons.1 hop with rfl | hop
      · trivial
      · exact ht op hop

/-- Phase 4: run the controller half (`HandleLinkLost`) of every loss. The `Close()` requests it
issues are all for links that are already closed. -/
theorem drain_pendCtrlLost (U : Nat → Nat → Nat) : ∀ (n : Nat) (s : State), s.pendCtrlLost.length = n →
    QInv s → PclClosed s → (∀ i ∈ s.pendClose, i ∈ s.closedCb) →
    ∃ tail, (∀ op ∈ tail, IsAsync op) ∧ (runs U s tail).pendCtrlLost = [] ∧
      (runs U s tail).pendEst = s.pendEst ∧ (runs U s tail).pendLost = s.pendLost ∧
      (∀ i ∈ (runs U s tail).pendClose, i ∈ (runs U s tail).closedCb) := by
  intro n
  induction n with
  | zero =>
    intro s hn _ _ hall
    exact ⟨[], (by intro op h; cases h), List.eq_nil_of_length_eq_zero hn, rfl, rfl, hall⟩
  | succ n ih =>
    intro s hn hI hP hall
    match hpcl : s.pendCtrlLost, hn with
    | l :: rest, hn =>
      have hl : l ∈ s.pendCtrlLost := by rw [hpcl]; exact List.mem_cons_self
      have hst : step U s (.runCtrlLost l) = ctrlStep
          { s with
            pendCtrlLost := rest
            lostSeen := l.id :: s.lostSeen } (.lost l) := by
        simp [step, stepWith, hpcl]
      -- the Close() requests of this section
      obtain ⟨cops, hc, hwf, hsub⟩ := hI.ctrl_hist
      have hop : ∀ x, Links.histLinkOf (.lost l) = some x → ∃ a, (a, x) ∈ s.created := by
        intro x hx
        simp only [Links.histLinkOf, Option.some.injEq] at hx
        subst hx
        exact hI.pcl_cr _ hl
      obtain ⟨hwf', _⟩ := wfh_snoc hI hsub hop
      obtain ⟨new, hnew, _, _, hlostnew⟩ := ctrl_step_closed' cops (.lost l) hwf'
      rw [← hc] at hnew
      have hnc : newClosed s.ctrl (Links.step s.ctrl (.lost l)) = new := newClosed_of_append hnew
      have hall' : ∀ i ∈ (step U s (.runCtrlLost l)).pendClose, i ∈ (step U s (.runCtrlLost l)).closedCb := by
        intro i hi
        rw [hst] at hi ⊢
        simp only [ctrlStep_pendClose, ctrlStep_closedCb, List.mem_append] at hi ⊢
        rcases hi with hi | hi
        · rw [hnc] at hi
          rw [hlostnew l rfl i hi]
          exact hP l hl
        · exact hall i hi
      have h1 : (step U s (.runCtrlLost l)).pendCtrlLost = rest := by rw [hst]; rfl
      have h2 : (step U s (.runCtrlLost l)).pendEst = s.pendEst := by rw [hst]; rfl
      have h3 : (step U s (.runCtrlLost l)).pendLost = s.pendLost := by rw [hst]; rfl
      obtain ⟨tail, ht, hq1, hq2, hq3, hq4⟩ := ih (step U s (.runCtrlLost l)) (by rw [h1]; simpa using hn)
        (qinv_step U hI _) (pclClosed_step U hI hP _) hall'
      refine ⟨.runCtrlLost l :: tail, ?_, hq1, by rw [runs_cons, hq2, h2], by rw [runs_cons, hq3, h3], hq4⟩
      intro op hop
      rcases List.mem_cons.1 hop with rfl | hop
      · trivial
      · exact ht op hop

theorem runs_append (U : Nat → Nat → Nat) (s : State) (t1 t2 : List Op) :
    runs U s (t1 ++ t2) = runs U (runs U s t1) t2 := by
  simp [runs, List.foldl_append]

/-- From every state satisfying the invariants, some sequence of goroutine bodies reaches a
quiescent state. -/
theorem reach_quiescent (U : Nat → Nat → Nat) (s : State) (hI : QInv s) (hP : PclClosed s) :
    ∃ tail, (∀ op ∈ tail, IsAsync op) ∧ quiescent (runs U s tail) = true := by
  have pclRuns : ∀ (s : State), QInv s → PclClosed s → ∀ tail, PclClosed (runs U s tail) := by
    intro s hI hP tail
    induction tail generalizing s with
    | nil => exact hP
    | cons op tail ih => rw [runs_cons]; exact ih _ (qinv_step U hI op) (pclClosed_step U hI hP op)
  obtain ⟨t1, a1, e1⟩ := drain_pendEst U _ s rfl
  obtain ⟨t2, a2, c2, e2, _, _⟩ := drain_pendClose U _ (runs U s t1) rfl
  obtain ⟨t3, a3, l3, e3, c3⟩ := drain_pendLost U _ (runs U (runs U s t1) t2) rfl
  have hI3 := qinv_runs U (qinv_runs U (qinv_runs U hI t1) t2) t3
  have hP3 := pclRuns _ (qinv_runs U (qinv_runs U hI t1) t2)
    (pclRuns _ (qinv_runs U hI t1) (pclRuns _ hI hP t1) t2) t3
  obtain ⟨t4, a4, p4, e4, l4, c4⟩ := drain_pendCtrlLost U _ (runs U (runs U (runs U s t1) t2) t3) rfl
    hI3 hP3 (by rw [c3, c2]; intro i hi; cases hi)
  obtain ⟨t5, a5, c5, e5, p5, l5⟩ := drain_pendClose U _ (runs U (runs U (runs U (runs U s t1) t2) t3) t4) rfl
  refine ⟨t1 ++ t2 ++ t3 ++ t4 ++ t5, ?_, ?_⟩
  · intro op hop
    simp only [List.mem_append] at hop
    rcases hop with (((h | h) | h) | h) | h
    · exact a1 op h
    · exact a2 op h
    · exact a3 op h
    · exact a4 op h
    · exact a5 op h
  · rw [runs_append, runs_append, runs_append, runs_append, quiescent_iff]
    refine ⟨?_, c5, ?_, ?_⟩
    · rw [e5, e4, e3, e2, e1]
    · rw [l5 c4, l4, l3]
    · rw [p5, p4]

end QuicTable
end Bifrost
