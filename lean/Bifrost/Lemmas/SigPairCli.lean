import Bifrost.Lemmas.SigClient
import Bifrost.Lemmas.SigSysCli
/-!
Client-tracker facts used by the C23 liveness proof (all about `Bifrost.SigC` alone): the number
of pending `Send` calls, the "idle slot" invariant, and the exact effect of every tracker step on
the outgoing slot `(out, outSent, outAcked, outCancel)`.
-/
namespace Bifrost
namespace SigPairCli
open Bifrost.SigC Bifrost.SigClient

/-- number of `Send` calls that have not returned -/
def pendL (l : List SendCall) : Nat := l.countP (fun c => c.result.isNone)
def pend (s : State) : Nat := pendL s.sends

/-- the `Send` call `id` has not returned -/
def Pending (s : State) (id : Nat) : Prop := ∃ c, getSend s id = some c ∧ c.result = none

theorem setL_of_fresh {l : List SendCall} {c : SendCall} (h : ∀ x ∈ l, x.id ≠ c.id) : setL l c = l := by
  induction l with
  | nil => rfl
  | cons a l ih =>
    simp only [setL, List.map_cons]
    have h1 := h a (by simp)
    simp only [h1, if_false]
    congr 1
    exact ih (fun x hx => h x (List.mem_cons_of_mem _ hx))

theorem pendL_setL {l : List SendCall} (hn : (l.map (·.id)).Nodup) {c c' : SendCall}
    (hc : findL l c'.id = some c) :
    pendL (setL l c') + (if c.result.isNone then 1 else 0) = pendL l + (if c'.result.isNone then 1 else 0) := by
  induction l with
  | nil => simp [findL] at hc
  | cons a l ih =>
    simp only [List.map_cons, List.nodup_cons] at hn
    by_cases ha : a.id = c'.id
    · have hac : a = c := by simpa [findL, ha] using hc
      subst hac
      have hfresh : ∀ x ∈ l, x.id ≠ c'.id := by
        intro x hx he
        exact hn.1 (by rw [ha, ← he]; exact List.mem_map_of_mem hx)
      have : setL (a :: l) c' = c' :: l := by
        simp only [setL, List.map_cons, ha, if_true]
        congr 1
        exact setL_of_fresh hfresh
      rw [this]
      simp only [pendL, List.countP_cons]
      split <;> split <;> simp_all <;> omega
    · have hc' : findL l c'.id = some c := by simpa [findL, ha] using hc
      have := ih hn.2 hc'
      have h2 : setL (a :: l) c' = a :: setL l c' := by simp [setL, ha]
      rw [h2]
      simp only [pendL, List.countP_cons] at this ⊢
      omega

theorem pend_pos_iff {s : State} : 0 < pend s ↔ ∃ c ∈ s.sends, c.result = none := by
  simp [pend, pendL, List.countP_pos_iff]

theorem pending_of_mem {s : State} (hn : (s.sends.map (·.id)).Nodup) {c : SendCall} (hc : c ∈ s.sends)
    (hr : c.result = none) : Pending s c.id := by
  refine ⟨c, ?_, hr⟩
  exact SigReg_find hn hc
where
  SigReg_find {l : List SendCall} (hn : (l.map (·.id)).Nodup) {c : SendCall} (hc : c ∈ l) :
      l.find? (fun x => decide (x.id = c.id)) = some c := by
    induction l with
    | nil => simp at hc
    | cons a l ih =>
      simp only [List.map_cons, List.nodup_cons] at hn
      simp only [List.find?_cons]
      rcases List.mem_cons.1 hc with h | h
      · subst h; simp
      · have : a.id ≠ c.id := by
          intro he; apply hn.1; rw [he]; exact List.mem_map_of_mem h
        simp [this, ih hn.2 h]

/-! ### the idle-slot invariant -/

/-- a free slot has all its flags cleared, and a cancellation in progress belongs to a `Send`
that has returned with an error -/
structure Idle (s : State) : Prop where
  free : s.out = none → s.outSent = false ∧ s.outAcked = false ∧ s.outCancel = false
  canc : s.outCancel = true → ∃ o c, s.out = some o ∧ getSend s o.seqno = some c ∧ c.result = some false

theorem idle_init : Idle {} := ⟨by simp, by simp⟩

theorem idle_step {s : State} (hr : Reachable s) (h : Idle s) (e : Ev) (hen : enabled s e = true) : Idle (step s e) := by
  have hinv := inv_of_reachable hr
  obtain ⟨hf, hc⟩ := h
  cases e with
  | close => exact ⟨by simp [step, close], by simp [step, close]⟩
  | opened e =>
    simp only [step, opened]
    split
    · exact ⟨hf, hc⟩
    · exact ⟨fun h => by simpa using (hf h).2.2, by simpa [getSend] using hc⟩
  | recvMsg m v g =>
    simp only [step, recvMsg]
    split <;> exact ⟨by simpa using hf, by simpa [getSend] using hc⟩
  | clearMsg k =>
    simp only [step, clearMsg]
    split <;> exact ⟨by simpa using hf, by simpa [getSend] using hc⟩
  | ackMsg k =>
    simp only [step, ackMsg]
    split
    · split
      · exact ⟨by simp, by simp⟩
      · rename_i h1 h2
        refine ⟨?_, ?_⟩
        · intro h; simp only at h; simp [h] at h1
        · intro h; simp only at h; exact absurd h h2
    · exact ⟨hf, hc⟩
  | txLoop =>
    simp only [step, txLoop]
    split
    · exact ⟨hf, hc⟩
    · split
      · split
        · exact ⟨by simp, by simp⟩
        · split
          · rename_i hcan _
            exact ⟨by simp_all, by simp_all⟩
          · split
            · split
              · exact ⟨by simpa using hf, by simpa [getSend] using hc⟩
              · exact ⟨hf, hc⟩
            · exact ⟨hf, hc⟩
      · split
        · split
          · exact ⟨by simpa using hf, by simpa [getSend] using hc⟩
          · exact ⟨hf, hc⟩
        · exact ⟨hf, hc⟩
  | sendStart m =>
    refine ⟨by simpa [step, sendStart] using hf, ?_⟩
    intro h
    obtain ⟨o, c, h1, h2, h3⟩ := hc (by simpa [step, sendStart] using h)
    exact ⟨o, c, by simpa [step, sendStart] using h1, getSend_sendStart h2, h3⟩
  | sendStep id =>
    simp only [enabled] at hen
    cases hg : getSend s id with
    | none => simp [hg] at hen
    | some c =>
      simp only [hg, Option.isNone_iff_eq_none] at hen
      have hcases := sendStep_cases hg hen hinv.k0
      show Idle (sendStep s id)
      generalize sendStep s id = s' at hcases
      have hid := getSend_id hg
      cases hcases with
      | keep c' h1 h2 h3 h4 =>
        refine ⟨by simpa [setSend_def] using hf, ?_⟩
        intro h
        obtain ⟨o, c0, g1, g2, g3⟩ := hc (by simpa [setSend_def] using h)
        refine ⟨o, c0, by simpa [setSend_def] using g1, ?_, g3⟩
        rw [getSend_setSend]
        have : o.seqno ≠ c'.id := by
          intro he
          rw [he, h1, hid, hg] at g2
          cases g2
          rw [hen] at g3; cases g3
        simp [this, g2]
      | take c' h1 h2 h3 h4 h5 h6 =>
        have := (hf h6).2.2
        exact ⟨by simp [setSend_def], by simp [setSend_def, this]⟩
      | done c' o h1 h2 h3 h4 h5 h6 =>
        have hnc : s.outCancel = false := by
          cases hcn : s.outCancel with
          | false => rfl
          | true =>
            obtain ⟨o', c0, g1, g2, g3⟩ := hc hcn
            rw [h4] at g1; cases g1
            rw [h5, hid, hg] at g2; cases g2
            rw [hen] at g3; cases g3
        exact ⟨by simp [setSend_def, hnc], by simp [setSend_def, hnc]⟩
  | sendCancel id =>
    simp only [enabled] at hen
    cases hg : getSend s id with
    | none => simp [hg] at hen
    | some c =>
      simp only [hg, Option.isNone_iff_eq_none] at hen
      have hid := getSend_id hg
      simp only [step, sendCancel, hg, hen, Option.isSome_none, Bool.false_eq_true, if_false]
      have hkeep : ∀ (o : Msg) c0, getSend s o.seqno = some c0 → c0.result = some false →
          ∃ c1, getSend (setSend s { c with result := some false }) o.seqno = some c1 ∧ c1.result = some false := by
        intro o c0 g2 g3
        rw [getSend_setSend]
        by_cases he : o.seqno = c.id
        · simp [he]; rw [← he, g2]; simp
        · simp [he, g2, g3]
      split
      · refine ⟨by simpa [setSend_def] using hf, ?_⟩
        intro h
        obtain ⟨o, c0, g1, g2, g3⟩ := hc (by simpa [setSend_def] using h)
        obtain ⟨c1, k1, k2⟩ := hkeep o c0 g2 g3
        exact ⟨o, c1, by simpa [setSend_def] using g1, k1, k2⟩
      · split
        · rename_i hout
          split
          · exact ⟨by simp, by simp⟩
          · split
            · refine ⟨?_, ?_⟩
              · intro h; simp only [setSend_def] at h; simp [h] at hout
              · intro _
                cases ho : s.out with
                | none => simp [ho] at hout
                | some o =>
                  simp only [ho, Option.map_some, Option.some.injEq] at hout
                  refine ⟨o, { c with result := some false }, by simp [setSend_def, ho], ?_, rfl⟩
                  show getSend (setSend s { c with result := some false }) o.seqno = _
                  rw [getSend_setSend, hout]
                  simp [hid, hg]
            · refine ⟨by simpa [setSend_def] using hf, ?_⟩
              intro h
              obtain ⟨o, c0, g1, g2, g3⟩ := hc (by simpa [setSend_def] using h)
              obtain ⟨c1, k1, k2⟩ := hkeep o c0 g2 g3
              exact ⟨o, c1, by simpa [setSend_def] using g1, k1, k2⟩
        · refine ⟨by simpa [setSend_def] using hf, ?_⟩
          intro h
          obtain ⟨o, c0, g1, g2, g3⟩ := hc (by simpa [setSend_def] using h)
          obtain ⟨c1, k1, k2⟩ := hkeep o c0 g2 g3
          exact ⟨o, c1, by simpa [setSend_def] using g1, k1, k2⟩
  | recvStep =>
    simp only [step, recvStep]
    split
    · split
      · exact ⟨hf, hc⟩
      · exact ⟨by simpa using hf, by simpa [getSend] using hc⟩
    · exact ⟨hf, hc⟩

theorem idle_of_reachable {s : State} (h : Reachable s) : Idle s := by
  induction h with
  | init => exact idle_init
  | step e hr hen ih => exact idle_step hr ih e hen

/-! ### the effect of one `Send` iteration on the slot -/

theorem pending_setSend {s : State} {c' : SendCall} (hr : c'.result = none) {i : Nat} (h : Pending s i) :
    Pending (setSend s c') i := by
  obtain ⟨c, hc, hn⟩ := h
  unfold Pending
  rw [getSend_setSend]
  by_cases he : i = c'.id
  · exact ⟨c', by simp [he] at hc ⊢; simp [hc], hr⟩
  · exact ⟨c, by simp [he, hc], hn⟩

theorem pending_congr {s s' : State} (h : s'.sends = s.sends) {i : Nat} : Pending s' i ↔ Pending s i := by
  simp [Pending, getSend, h]

theorem pend_congr {s s' : State} (h : s'.sends = s.sends) : pend s' = pend s := by simp [pend, h]

/-- What one (guarded) iteration of `Send` `id` does to the slot and to the set of pending calls. -/
inductive SendEff (s : State) (id : Nat) (s' : State) : Prop
  | keep : s'.out = s.out → s'.outSent = s.outSent → s'.outAcked = s.outAcked → pend s' = pend s →
      (∀ i, Pending s i → Pending s' i) → SendEff s id s'
  | take (c : SendCall) : s.out = none → getSend s id = some c → s'.out = some c.msg →
      s'.outSent = s.outSent → s'.outAcked = s.outAcked → pend s' = pend s →
      (∀ i, Pending s i → Pending s' i) → SendEff s id s'
  | done (o : Msg) : s.out = some o → o.seqno = id → s.outAcked = true → s'.out = none →
      s'.outSent = false → s'.outAcked = false → pend s' + 1 = pend s → SendEff s id s'

theorem guarded_sendStep {s : State} (hr : Reachable s) (id : Nat) :
    let s' := if enabled s (.sendStep id) then step s (.sendStep id) else s
    s'.open_ = s.open_ ∧ s'.recv = s.recv ∧ s'.recvProcessed = s.recvProcessed ∧ s'.outCancel = s.outCancel ∧
      s'.delivered = s.delivered ∧ SendEff s id s' := by
  intro s'
  have hinv := inv_of_reachable hr
  have hnd := SigSysCli.nodup_of_reachable hr
  by_cases hen : enabled s (.sendStep id) = true
  · have hs' : s' = sendStep s id := by simp [s', hen, step]
    simp only [enabled] at hen
    cases hg : getSend s id with
    | none => simp [hg] at hen
    | some c =>
      simp only [hg, Option.isNone_iff_eq_none] at hen
      have hcases := sendStep_cases hg hen hinv.k0
      rw [hs']
      generalize sendStep s id = t at hcases
      have hid := getSend_id hg
      cases hcases with
      | keep c' h1 h2 h3 h4 =>
        have hp := pendL_setL (c' := c') hnd (by rw [h1, hid]; exact hg)
        refine ⟨rfl, rfl, rfl, rfl, rfl, SendEff.keep rfl rfl rfl ?_ (fun i hi => pending_setSend h3 hi)⟩
        simp only [hen, h3, Option.isNone_none, if_true] at hp
        show pendL (setL s.sends c') = pendL s.sends
        omega
      | take c' h1 h2 h3 h4 h5 h6 =>
        have hp := pendL_setL (c' := c') hnd (by rw [h1, hid]; exact hg)
        refine ⟨rfl, rfl, rfl, rfl, rfl, SendEff.take c h6 hg rfl rfl rfl ?_ ?_⟩
        · simp only [hen, h3, Option.isNone_none, if_true] at hp
          show pendL (setL s.sends c') = pendL s.sends
          omega
        · intro i hi
          have : Pending (setSend s c') i := pending_setSend h3 hi
          exact (pending_congr (s := setSend s c') rfl).1 this
      | done c' o h1 h2 h3 h4 h5 h6 =>
        have hp := pendL_setL (c' := c') hnd (by rw [h1, hid]; exact hg)
        refine ⟨rfl, rfl, rfl, rfl, rfl, SendEff.done o h4 (h5.trans hid) h6 rfl rfl rfl ?_⟩
        simp only [hen, h3, Option.isNone_none, if_true, Option.isNone_some] at hp
        show pendL (setL s.sends c') + 1 = pendL s.sends
        simpa using hp
  · have hs' : s' = s := by simp [s', hen]
    rw [hs']
    exact ⟨rfl, rfl, rfl, rfl, rfl, SendEff.keep rfl rfl rfl rfl (fun _ h => h)⟩

theorem sendStep_out_free {s : State} {id e : Nat} {c : SendCall} (hg : getSend s id = some c)
    (hn : c.result = none) (ho : s.open_ = some e) (hout : s.out = none) :
    (sendStep s id).out = some c.msg := by
  obtain ⟨cid, cmsg, ctx, cep, cres⟩ := c
  obtain ⟨open_, out, outSent, outAcked, outCancel, recv, recvProcessed, sends, delivered, emitted,
    accepted, ackedLog, failed⟩ := s
  simp only at hn ho hout
  subst hn ho hout
  by_cases hep : cep = some e <;> cases ctx <;> simp [sendStep, hg, hep, setSend]

theorem enabled_sendStep_of_pending {s : State} {id : Nat} (hp : Pending s id) :
    enabled s (.sendStep id) = true := by
  obtain ⟨c, hg, hn⟩ := hp
  simp [enabled, hg, hn]

/-- with the session open and the slot free, an iteration of a pending `Send` takes the slot -/
theorem sendStep_takes {s : State} (hr : Reachable s) {id e : Nat} (ho : s.open_ = some e) (hout : s.out = none)
    (hp : Pending s id) :
    let s' := if enabled s (.sendStep id) then step s (.sendStep id) else s
    (∃ o, s'.out = some o) ∧ pend s' = pend s ∧ s'.outSent = false ∧ s'.outCancel = false ∧ s'.open_ = s.open_ := by
  intro s'
  have hidle := idle_of_reachable hr
  obtain ⟨h1, _, _, h4, _, heff⟩ := guarded_sendStep hr id
  have hs' : s' = sendStep s id := by simp [s', enabled_sendStep_of_pending hp, step]
  obtain ⟨c, hg, hn⟩ := hp
  have hso := sendStep_out_free hg hn ho hout
  rw [← hs'] at hso
  refine ⟨⟨_, hso⟩, ?_, ?_, h4.trans (hidle.free hout).2.2, h1⟩
  · cases heff with
    | keep a1 a2 a3 a4 a5 => exact a4
    | take c a1 a2 a3 a4 a5 a6 a7 => exact a6
    | done o a1 => rw [hout] at a1; cases a1
  · cases heff with
    | keep a1 a2 a3 a4 a5 => exact a2.trans (hidle.free hout).1
    | take c a1 a2 a3 a4 a5 a6 a7 => exact a4.trans (hidle.free hout).1
    | done o a1 => rw [hout] at a1; cases a1

/-- the owner's iteration after the ack arrived: the `Send` returns success -/
theorem sendStep_completes {s : State} (hr : Reachable s) {o : Msg} {e : Nat} (ho : s.open_ = some e)
    (hout : s.out = some o) (hack : s.outAcked = true) (hnc : s.outCancel = false) :
    let s' := if enabled s (.sendStep o.seqno) then step s (.sendStep o.seqno) else s
    pend s' + 1 = pend s := by
  intro s'
  have hinv := inv_of_reachable hr
  obtain ⟨c, hg, hm, hk⟩ := hinv.k2 o hout
  rcases hk with ⟨hn, htx⟩ | ⟨_, hcan⟩
  · have hid := getSend_id hg
    have hs' : s' = sendStep s o.seqno := by simp [s', enabled_sendStep_of_pending ⟨c, hg, hn⟩, step]
    obtain ⟨_, _, _, _, _, heff⟩ := guarded_sendStep hr o.seqno
    have hres : ∃ c', getSend (sendStep s o.seqno) o.seqno = some c' ∧ c'.result = some true := by
      obtain ⟨cid, cmsg, ctx, cep, cres⟩ := c
      obtain ⟨open_, out, outSent, outAcked, outCancel, recv, recvProcessed, sends, delivered, emitted,
        accepted, ackedLog, failed⟩ := s
      simp only at hn ho hout hack htx hm hid hg
      subst hn ho hout hack htx hm
      simp only [getSend_def] at hg
      by_cases hep : cep = some e <;>
        simp [sendStep, hg, hid, hep, getSend_def, setSend_def, findL_setL]
    cases heff with
    | keep a1 a2 a3 a4 a5 =>
      exfalso
      obtain ⟨c', hc', hr'⟩ := hres
      obtain ⟨c'', hc'', hn''⟩ := a5 _ ⟨c, hg, hn⟩
      have hc3 : getSend s' o.seqno = some c'' := hc''
      rw [hs', hc'] at hc3; cases hc3
      rw [hr'] at hn''; cases hn''
    | take c0 a1 => rw [hout] at a1; cases a1
    | done o' a1 a2 a3 a4 a5 a6 a7 => exact a7
  · rw [hnc] at hcan; cases hcan

end SigPairCli
end Bifrost
