import Bifrost.Model.Links
/-! Basic helper lemmas for C04 and C06: histories, lookup, flush. -/
namespace Bifrost
namespace Links

/-! ### Histories (mirror of `Props.C06.linkOf/linksOf/WF`, which live downstream) -/

def histLinkOf : Op → Option Link
  | .est l => some l
  | .lost l => some l
  | _ => none

def histLinks (ops : List Op) : List Link := ops.filterMap histLinkOf

def WFH (ops : List Op) : Prop :=
  ∀ l ∈ histLinks ops, ∀ l' ∈ histLinks ops, l.id = l'.id → l = l'

theorem histLinks_append (a b : List Op) : histLinks (a ++ b) = histLinks a ++ histLinks b := by
  simp [histLinks, List.filterMap_append]

theorem WFH_prefix {a b : List Op} (h : WFH (a ++ b)) : WFH a := by
  intro l hl l' hl' hid
  apply h l _ l' _ hid <;> rw [histLinks_append] <;> exact List.mem_append_left _ ‹_›

theorem mem_hist_est (ops : List Op) (l : Link) : l ∈ histLinks (ops ++ [.est l]) := by
  simp [histLinks, histLinkOf]

theorem mem_hist_lost (ops : List Op) (l : Link) : l ∈ histLinks (ops ++ [.lost l]) := by
  simp [histLinks, histLinkOf]

theorem mem_hist_snoc {ops : List Op} {x : Link} (op : Op) (h : x ∈ histLinks ops) :
    x ∈ histLinks (ops ++ [op]) := by
  rw [histLinks_append]; exact List.mem_append_left _ h

/-! ### run / specRun peel the last op -/

theorem snoc_induction {α : Type} {P : List α → Prop} (nil : P [])
    (snoc : ∀ l a, P l → P (l ++ [a])) : ∀ l, P l := by
  intro l
  rw [← List.reverse_reverse l]
  induction l.reverse with
  | nil => exact nil
  | cons a t ih => rw [List.reverse_cons]; exact snoc _ _ ih

theorem run_snoc (ops : List Op) (op : Op) : run (ops ++ [op]) = step (run ops) op := by
  simp [run, List.foldl_append]

theorem specRun_snoc (ops : List Op) (op : Op) :
    specRun (ops ++ [op]) = specStep (specRun ops) op := by
  simp [specRun, List.foldl_append]

/-! ### lookup / find -/

theorem lookup_some {s : State} {u : Nat} {el : Link} (h : lookup s u = some el) :
    el ∈ s.links ∧ el.uuid = u := by
  unfold lookup at h
  refine ⟨List.mem_of_find?_eq_some h, ?_⟩
  simpa using List.find?_some h

theorem lookup_none {s : State} {u : Nat} (h : lookup s u = none) :
    ∀ x ∈ s.links, x.uuid ≠ u := by
  unfold lookup at h
  simpa using h

theorem findId_some {ls : List Link} {i : Nat} {el : Link}
    (h : ls.find? (fun x => x.id = i) = some el) : el ∈ ls ∧ el.id = i := by
  refine ⟨List.mem_of_find?_eq_some h, ?_⟩
  simpa using List.find?_some h

theorem findId_none {ls : List Link} {i : Nat}
    (h : ls.find? (fun x => x.id = i) = none) : ∀ x ∈ ls, x.id ≠ i := by
  simpa using h

/-! ### Nodup helpers -/

theorem inj_of_nodup_map {α β : Type} (f : α → β) :
    ∀ {l : List α}, (l.map f).Nodup → ∀ x ∈ l, ∀ y ∈ l, f x = f y → x = y
  | [], _, x, hx, _, _, _ => by cases hx
  | a :: l, h, x, hx, y, hy, hxy => by
    rw [List.map_cons, List.nodup_cons] at h
    rcases List.mem_cons.1 hx with rfl | hx' <;> rcases List.mem_cons.1 hy with rfl | hy'
    · rfl
    · exact absurd (hxy ▸ List.mem_map_of_mem hy') h.1
    · exact absurd (hxy ▸ List.mem_map_of_mem hx') h.1
    · exact inj_of_nodup_map f h.2 x hx' y hy' hxy

theorem nodup_map_filter {α β : Type} (f : α → β) (p : α → Bool) {l : List α}
    (h : (l.map f).Nodup) : ((l.filter p).map f).Nodup :=
  h.sublist ((List.filter_sublist).map f)

/-! ### flush -/

@[simp] theorem flush_links (s : State) (el : Link) :
    (flush s el).links = s.links.filter (fun x => x.uuid ≠ el.uuid) := rfl
@[simp] theorem flush_peerLinks (s : State) (el : Link) :
    (flush s el).peerLinks = s.peerLinks.filter (fun x => x.id ≠ el.id) := rfl
@[simp] theorem flush_closed (s : State) (el : Link) :
    (flush s el).closed = el.id :: s.closed := rfl
@[simp] theorem flush_running (s : State) (el : Link) : (flush s el).running = s.running := rfl
@[simp] theorem flush_localPeer (s : State) (el : Link) :
    (flush s el).localPeer = s.localPeer := rfl

theorem foldl_flush_links (l : List Link) : ∀ (s : State) (x : Link),
    x ∈ (l.foldl flush s).links ↔ x ∈ s.links ∧ ∀ e ∈ l, x.uuid ≠ e.uuid := by
  induction l with
  | nil => intro s x; simp
  | cons a l ih =>
    intro s x
    rw [List.foldl_cons, ih]
    simp only [flush_links, List.mem_filter, List.mem_cons, forall_eq_or_imp, decide_eq_true_eq,
      ne_eq, and_assoc]

theorem foldl_flush_peerLinks (l : List Link) : ∀ (s : State) (x : Link),
    x ∈ (l.foldl flush s).peerLinks ↔ x ∈ s.peerLinks ∧ ∀ e ∈ l, x.id ≠ e.id := by
  induction l with
  | nil => intro s x; simp
  | cons a l ih =>
    intro s x
    rw [List.foldl_cons, ih]
    simp only [flush_peerLinks, List.mem_filter, List.mem_cons, forall_eq_or_imp,
      decide_eq_true_eq, ne_eq, and_assoc]

theorem foldl_flush_closed (l : List Link) : ∀ (s : State) (i : Nat),
    i ∈ (l.foldl flush s).closed ↔ i ∈ l.map (·.id) ∨ i ∈ s.closed := by
  induction l with
  | nil => intro s i; simp
  | cons a l ih =>
    intro s i
    rw [List.foldl_cons, ih]
    simp only [flush_closed, List.mem_cons, List.map_cons]
    constructor
    · rintro (h | h | h)
      · exact Or.inl (Or.inr h)
      · exact Or.inl (Or.inl h)
      · exact Or.inr h
    · rintro ((h | h) | h)
      · exact Or.inr (Or.inl h)
      · exact Or.inl h
      · exact Or.inr (Or.inr h)

theorem foldl_flush_running (l : List Link) : ∀ (s : State),
    (l.foldl flush s).running = s.running := by
  induction l with
  | nil => intro s; rfl
  | cons a l ih => intro s; rw [List.foldl_cons, ih]; rfl

theorem foldl_flush_localPeer (l : List Link) : ∀ (s : State),
    (l.foldl flush s).localPeer = s.localPeer := by
  induction l with
  | nil => intro s; rfl
  | cons a l ih => intro s; rw [List.foldl_cons, ih]; rfl

theorem foldl_flush_self_links (s : State) : (s.links.foldl flush s).links = [] := by
  rw [List.eq_nil_iff_forall_not_mem]
  intro x hx
  rw [foldl_flush_links] at hx
  exact hx.2 x hx.1 rfl

theorem foldl_flush_self_peerLinks (s : State) (h : ∀ x, x ∈ s.peerLinks → x ∈ s.links) :
    (s.links.foldl flush s).peerLinks = [] := by
  rw [List.eq_nil_iff_forall_not_mem]
  intro x hx
  rw [foldl_flush_peerLinks] at hx
  exact hx.2 x (h x hx.1) rfl

end Links
end Bifrost
