import Bifrost.Model.SigClient
import Bifrost.Lemmas.SigClient
/-! Client-tracker facts used by the end-to-end composition (C21E2E): how the ghost logs and the
list of `Send` calls evolve along one step. -/
namespace Bifrost
namespace SigSysCli
open Bifrost.SigC Bifrost.SigClient

/-! ### identities / messages of the `Send` calls never change -/

def keys (l : List SendCall) : List (Nat × Msg) := l.map fun c => (c.id, c.msg)

theorem keys_ids (l : List SendCall) : (keys l).map (·.1) = l.map (·.id) := by
  simp [keys, List.map_map, Function.comp_def]

theorem eq_of_nodup_ids {l : List SendCall} (hn : (l.map (·.id)).Nodup) {x y : SendCall}
    (hx : x ∈ l) (hy : y ∈ l) (h : x.id = y.id) : x = y := by
  induction l with
  | nil => simp at hx
  | cons a l ih =>
    simp only [List.map_cons, List.nodup_cons, List.mem_map, not_exists, not_and] at hn
    rcases List.mem_cons.1 hx with hx1 | hx1 <;> rcases List.mem_cons.1 hy with hy1 | hy1
    · rw [hx1, hy1]
    · rw [hx1] at h; exact absurd h.symm (hn.1 y hy1)
    · rw [hy1] at h; exact absurd h (hn.1 x hx1)
    · exact ih hn.2 hx1 hy1

theorem keys_setL {l : List SendCall} {c c' : SendCall} (hn : (l.map (·.id)).Nodup)
    (hc : c ∈ l) (hid : c'.id = c.id) (hm : c'.msg = c.msg) : keys (setL l c') = keys l := by
  unfold keys setL
  rw [List.map_map]
  apply List.map_congr_left
  intro x hx
  simp only [Function.comp]
  split
  · rename_i h
    have : x = c := eq_of_nodup_ids hn hx hc (h.trans hid)
    subst this
    rw [hid, hm]
  · rfl

/-- The `(id, msg)` list of the `Send` calls only grows, and only by `sendStart`. -/
theorem keys_step {s : State} (hinv : Inv s) (hn : (s.sends.map (·.id)).Nodup) (e : Ev) :
    keys (step s e).sends = keys s.sends ++ (match e with | .sendStart m => [(m.seqno, m)] | _ => []) := by
  cases e with
  | close => simp [step, close]
  | opened e => simp only [step, opened]; split <;> simp
  | recvMsg m v g => simp only [step, recvMsg]; split <;> simp
  | clearMsg k => simp only [step, clearMsg]; split <;> simp
  | ackMsg k =>
    simp only [step, ackMsg]
    repeat' split
    all_goals simp
  | txLoop =>
    simp only [step, txLoop]
    repeat' split
    all_goals simp
  | sendStart m => simp [step, sendStart, keys]
  | recvStep =>
    simp only [step, recvStep]
    repeat' split
    all_goals simp
  | sendCancel id =>
    simp only [step, sendCancel, List.append_nil]
    split
    · rfl
    · rename_i c hc
      have hk : keys (setL s.sends { c with result := some false }) = keys s.sends :=
        keys_setL hn (findL_mem hc) rfl rfl
      simp only [setSend_def]
      repeat' split
      all_goals first | rfl | exact hk
  | sendStep id =>
    simp only [step, List.append_nil]
    cases hc : getSend s id with
    | none => simp only [sendStep, hc]
    | some c =>
      cases hr : c.result with
      | some b => simp only [sendStep, hc, hr, Option.isSome_some, if_true]
      | none =>
        have hcases := sendStep_cases hc hr hinv.k0
        have hm := findL_mem hc
        generalize sendStep s id = s' at hcases
        cases hcases with
        | keep c' h1 h2 _ _ => exact keys_setL hn hm h1 h2
        | take c' h1 h2 _ _ _ _ => exact keys_setL (l := s.sends) hn hm h1 h2
        | done c' o h1 h2 _ _ _ _ => exact keys_setL (l := s.sends) hn hm h1 h2

/-- Sequence numbers of `Send` calls are distinct. -/
theorem nodup_of_reachable {s : State} (h : Reachable s) : (s.sends.map (·.id)).Nodup := by
  induction h with
  | init => simp
  | @step s e hr hen ih =>
    have hk := keys_step (inv_of_reachable hr) ih e
    rw [← keys_ids, hk]
    rw [List.map_append, keys_ids]
    cases e with
    | sendStart m =>
      simp only [enabled, Bool.and_eq_true, List.all_eq_true, decide_eq_true_eq] at hen
      refine List.nodup_append.2 ⟨ih, by simp, ?_⟩
      intro a ha b hb
      simp at hb
      subst hb
      obtain ⟨c, hc, rfl⟩ := List.mem_map.1 ha
      have := hen.1 c hc
      simpa using this
    | _ => simpa using ih

/-- What the composition needs to know about "before ≤ after" for one tracker. -/
structure StLe (s s' : State) : Prop where
  del : ∀ x ∈ s.delivered, x ∈ s'.delivered
  snd : ∀ c ∈ s.sends, ∃ c' ∈ s'.sends, c'.msg = c.msg

theorem StLe.refl (s : State) : StLe s s := ⟨fun _ h => h, fun c h => ⟨c, h, rfl⟩⟩

theorem StLe.trans {a b c : State} (h1 : StLe a b) (h2 : StLe b c) : StLe a c :=
  ⟨fun x h => h2.del x (h1.del x h), fun x h =>
    let ⟨y, hy, e1⟩ := h1.snd x h
    let ⟨z, hz, e2⟩ := h2.snd y hy
    ⟨z, hz, e2.trans e1⟩⟩

theorem delivered_step (s : State) (e : Ev) : ∀ x ∈ s.delivered, x ∈ (step s e).delivered := by
  intro x hx
  cases e with
  | close => exact hx
  | opened e => simp only [step, opened]; split <;> exact hx
  | recvMsg m v g => simp only [step, recvMsg]; split <;> exact hx
  | clearMsg k => simp only [step, clearMsg]; split <;> exact hx
  | ackMsg k =>
    simp only [step, ackMsg]
    repeat' split
    all_goals exact hx
  | txLoop =>
    simp only [step, txLoop]
    repeat' split
    all_goals exact hx
  | sendStart m => exact hx
  | recvStep =>
    simp only [step, recvStep]
    repeat' split
    all_goals first | exact hx | exact List.mem_cons_of_mem _ hx
  | sendCancel id =>
    simp only [step, sendCancel]
    repeat' split
    all_goals exact hx
  | sendStep id =>
    simp only [step, sendStep]
    repeat' split
    all_goals exact hx

theorem stLe_step {s : State} (h : Reachable s) (e : Ev) : StLe s (step s e) := by
  refine ⟨delivered_step s e, ?_⟩
  intro c hc
  have hk := keys_step (inv_of_reachable h) (nodup_of_reachable h) e
  have : (c.id, c.msg) ∈ keys (step s e).sends := by
    rw [hk]
    exact List.mem_append_left _ (List.mem_map.2 ⟨c, hc, rfl⟩)
  obtain ⟨c', hc', he⟩ := List.mem_map.1 this
  exact ⟨c', hc', (Prod.mk.inj he).2⟩

theorem reachable_step_always {s : State} (h : Reachable s) (e : Ev)
    (he : ∀ m, e ≠ .sendStart m) (he2 : ∀ id, e ≠ .sendStep id) (he3 : ∀ id, e ≠ .sendCancel id) :
    Reachable (step s e) := by
  refine Reachable.step e h ?_
  cases e with
  | sendStart m => exact absurd rfl (he m)
  | sendStep id => exact absurd rfl (he2 id)
  | sendCancel id => exact absurd rfl (he3 id)
  | _ => rfl

/-- applying an application event only when it is enabled -/
theorem reachable_guard {s : State} (h : Reachable s) (e : Ev) :
    Reachable (if enabled s e = true then step s e else s) := by
  split
  · rename_i hen; exact Reachable.step e h hen
  · exact h

theorem stLe_guard {s : State} (h : Reachable s) (e : Ev) :
    StLe s (if enabled s e = true then step s e else s) := by
  split
  · exact stLe_step h e
  · exact StLe.refl s

/-! ### the logs -/

theorem ackedLog_step (s : State) (e : Ev) : ∀ x ∈ (step s e).ackedLog,
    x ∈ s.ackedLog ∨ ∃ k, e = .ackMsg k ∧ x.1 = k := by
  intro x hx
  cases e with
  | close => exact Or.inl hx
  | opened e => simp only [step, opened] at hx; split at hx <;> exact Or.inl hx
  | recvMsg m v g => simp only [step, recvMsg] at hx; split at hx <;> exact Or.inl hx
  | clearMsg k => simp only [step, clearMsg] at hx; split at hx <;> exact Or.inl hx
  | ackMsg k =>
    simp only [step, ackMsg] at hx
    split at hx
    · split at hx
      · exact Or.inl hx
      · rcases List.mem_cons.1 hx with rfl | hx
        · exact Or.inr ⟨k, rfl, rfl⟩
        · exact Or.inl hx
    · exact Or.inl hx
  | txLoop =>
    left
    simp only [step, txLoop] at hx
    repeat' split at hx
    all_goals exact hx
  | sendStart m => exact Or.inl hx
  | recvStep =>
    left
    simp only [step, recvStep] at hx
    repeat' split at hx
    all_goals exact hx
  | sendCancel id =>
    left
    simp only [step, sendCancel] at hx
    repeat' split at hx
    all_goals exact hx
  | sendStep id =>
    left
    simp only [step, sendStep] at hx
    repeat' split at hx
    all_goals exact hx

theorem accepted_step (s : State) (e : Ev) : ∀ x ∈ (step s e).accepted,
    x ∈ s.accepted ∨ ∃ m v g, e = .recvMsg m v g ∧ x.1 = m := by
  intro x hx
  cases e with
  | close => exact Or.inl hx
  | opened e => simp only [step, opened] at hx; split at hx <;> exact Or.inl hx
  | recvMsg m v g =>
    simp only [step, recvMsg] at hx
    split at hx
    · exact Or.inl hx
    · rcases List.mem_cons.1 hx with rfl | hx
      · exact Or.inr ⟨m, v, g, rfl, rfl⟩
      · exact Or.inl hx
  | clearMsg k => simp only [step, clearMsg] at hx; split at hx <;> exact Or.inl hx
  | ackMsg k =>
    left
    simp only [step, ackMsg] at hx
    repeat' split at hx
    all_goals exact hx
  | txLoop =>
    left
    simp only [step, txLoop] at hx
    repeat' split at hx
    all_goals exact hx
  | sendStart m => exact Or.inl hx
  | recvStep =>
    left
    simp only [step, recvStep] at hx
    repeat' split at hx
    all_goals exact hx
  | sendCancel id =>
    left
    simp only [step, sendCancel] at hx
    repeat' split at hx
    all_goals exact hx
  | sendStep id =>
    left
    simp only [step, sendStep] at hx
    repeat' split at hx
    all_goals exact hx

/-! ### what the main loop transmits -/

theorem txLoop_ack {s : State} {e k : Nat} (h : (txLoop s).2 = some (.ack e k)) :
    Req.ack e k ∈ (txLoop s).1.emitted := by
  unfold txLoop at h ⊢
  repeat' split at h
  all_goals first
    | (simp at h; done)
    | (simp only [Option.some.injEq] at h; simp_all)

theorem txLoop_send {s : State} {e : Nat} {m : Msg} (h : (txLoop s).2 = some (.send e m)) :
    s.out = some m := by
  unfold txLoop at h
  repeat' split at h
  all_goals first
    | (simp at h; done)
    | (simp only [Option.some.injEq, Req.send.injEq] at h; simp_all)

end SigSysCli
end Bifrost
