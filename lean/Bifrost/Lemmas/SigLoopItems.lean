import Bifrost.Model.Signaling
import Bifrost.Lemmas.SigSessObs
/-!
Helper for C22/C23 (wave 6): what ONE iteration of the relay's write loop decides to transmit when
it finds the session open in an epoch it has not announced yet: the announcement FIRST and, in the
same iteration, every item already queued for its peer (ack, withdrawal, message).
-/
namespace Bifrost
namespace SigSess
open Sig

theorem loop_hands_out_queued' {s : State} {c : SCall} {t : Sess} {ours other : Att}
    (hc : getSCall s c.id = some c) (ht : getSess s c.sess = some t)
    (ho : t.sides c.isA = (some ours, some other)) (hcall : ours.call = c.id)
    (hne : c.announced ≠ c.cur s) (hempty : c.outbox = []) :
    ∃ c', getSCall (sLoop s c.id) c.id = some c' ∧ c'.announced = some t.seqno ∧
      c'.outbox = [Resp.opened t.seqno]
        ++ (match ours.outAcked with | some k => [Resp.ack k] | none => [])
        ++ (match ours.recvClear with | some k => [Resp.clear k] | none => [])
        ++ (match ours.recv with | some m => [Resp.recv m] | none => []) := by
  have hu : (ours.call != c.id) = false := by simp [hcall]
  simp only [sLoop, hc, ht, ho, SCall.cur, hu] at hne ⊢
  simp only [Option.isSome_some, if_true, Option.isNone_some, Bool.false_eq_true, if_false] at hne ⊢
  refine ⟨_, getSCall_setSCall_self (s := setSess s _) hc, rfl, ?_⟩
  simp [hempty, hne]
  cases ours.outAcked <;> cases ours.recvClear <;> cases ours.recv <;> rfl

end SigSess
end Bifrost
