import Bifrost.Lemmas.SigSessMain
/-!
Epoch bounds, relay side: every epoch the relay has announced to a call (`announced`) or has queued
for it (`opened e` in the outbox) is at most the epoch (`Sess.seqno`) of the session tracker the
call holds, and that epoch never decreases. `Mono srv srv'` packages what one relay step
preserves; it is proved for each of the Session steps.
-/
namespace Bifrost
namespace SigEpoch
open Bifrost.Sig Bifrost.SigSess

/-- `n` is at most the epoch of the session tracker held by call `id` (if both exist) -/
def Bnd (srv : Sig.State) (id n : Nat) : Prop :=
  ∀ sc t, getSCall srv id = some sc → getSess srv sc.sess = some t → n ≤ t.seqno

/-- what the relay told / is about to tell a call is bounded by the call's session epoch -/
def SrvLe (srv : Sig.State) : Prop :=
  ∀ id sc, getSCall srv id = some sc →
    (∀ e, sc.announced = some e → Bnd srv id e) ∧ (∀ e, Resp.opened e ∈ sc.outbox → Bnd srv id e)

/-- what one relay step (other than a registration) preserves -/
structure Mono (srv srv' : Sig.State) : Prop where
  bnd : ∀ id n, Bnd srv id n → Bnd srv' id n
  le : SrvLe srv → SrvLe srv'

theorem Mono.refl (s : Sig.State) : Mono s s := ⟨fun _ _ h => h, fun h => h⟩

theorem Mono.trans {a b c : Sig.State} (h1 : Mono a b) (h2 : Mono b c) : Mono a c :=
  ⟨fun id n h => h2.bnd id n (h1.bnd id n h), fun h => h2.le (h1.le h)⟩

theorem Mono.of_eq {s s' : Sig.State} (h1 : s'.sesss = s.sesss) (h2 : s'.scalls = s.scalls) : Mono s s' := by
  have hS : ∀ id, getSess s' id = getSess s id := fun id => by simp [Sig.getSess, h1]
  have hC : ∀ id, getSCall s' id = getSCall s id := fun id => by simp [Sig.getSCall, h2]
  have hb : ∀ id n, Bnd s id n → Bnd s' id n := by
    intro id n h sc t hsc ht
    rw [hC] at hsc; rw [hS] at ht
    exact h sc t hsc ht
  refine ⟨hb, ?_⟩
  intro h id sc hsc
  rw [hC] at hsc
  obtain ⟨a1, a2⟩ := h id sc hsc
  exact ⟨fun e he => hb id e (a1 e he), fun e he => hb id e (a2 e he)⟩

theorem Mono.sessEq {s s' : Sig.State} (h : SessEq s s') : Mono s s' := Mono.of_eq h.sesss h.scalls

/-- rewriting one call record: the session it holds stays, the new announcements are bounded -/
theorem Mono.setSCall {s : Sig.State} {c c' : SCall} (hc : getSCall s c'.id = some c) (hsess : c'.sess = c.sess)
    (hann : SrvLe s → ∀ e, c'.announced = some e → Bnd s c'.id e)
    (hout : SrvLe s → ∀ e, Resp.opened e ∈ c'.outbox → Bnd s c'.id e) :
    Mono s (Sig.setSCall s c') := by
  have hC := fun id => getSCall_setSCall_of (c' := c') hc rfl id
  have hb : ∀ id n, Bnd s id n → Bnd (Sig.setSCall s c') id n := by
    intro id n h sc t hsc ht
    rw [hC] at hsc
    rw [getSess_setSCall] at ht
    by_cases hid : id = c'.id
    · subst hid
      simp only [if_true, Option.some.injEq] at hsc
      subst hsc
      rw [hsess] at ht
      exact h c t hc ht
    · simp only [hid, if_false] at hsc
      exact h sc t hsc ht
  refine ⟨hb, ?_⟩
  intro h id sc hsc
  rw [hC] at hsc
  by_cases hid : id = c'.id
  · subst hid
    simp only [if_true, Option.some.injEq] at hsc
    subst hsc
    exact ⟨fun e he => hb _ e (hann h e he), fun e he => hb _ e (hout h e he)⟩
  · simp only [hid, if_false] at hsc
    obtain ⟨a1, a2⟩ := h id sc hsc
    exact ⟨fun e he => hb id e (a1 e he), fun e he => hb id e (a2 e he)⟩

/-- rewriting one session tracker without lowering its epoch -/
theorem Mono.setSess {s : Sig.State} {t' : Sess} (ht : ∀ t, getSess s t'.sid = some t → t.seqno ≤ t'.seqno) :
    Mono s (Sig.setSess s t') := by
  have hb : ∀ id n, Bnd s id n → Bnd (Sig.setSess s t') id n := by
    intro id n h sc t hsc hts
    rw [getSCall_setSess] at hsc
    rw [getSess_setSess] at hts
    by_cases hid : sc.sess = t'.sid
    · rw [if_pos hid] at hts
      cases hg : getSess s sc.sess with
      | none => simp [hg] at hts
      | some t0 =>
        simp only [hg, Option.isSome_some, if_true, Option.some.injEq] at hts
        subst hts
        have := h sc t0 hsc hg
        have := ht t0 (hid ▸ hg)
        omega
    · rw [if_neg hid] at hts
      exact h sc t hsc hts
  refine ⟨hb, ?_⟩
  intro h id sc hsc
  have hsc' : getSCall s id = some sc := hsc
  obtain ⟨a1, a2⟩ := h id sc hsc'
  exact ⟨fun e he => hb id e (a1 e he), fun e he => hb id e (a2 e he)⟩

theorem mono_readerDone {s : Sig.State} {id : Nat} {d : SCall} (hd : getSCall s id = some d) :
    Mono s (Sig.setSCall s { d with readerDone := true }) := by
  have hid := getSCall_id hd
  subst hid
  exact Mono.setSCall (c' := { d with readerDone := true }) hd rfl
    (fun h e he => (h _ _ hd).1 e he) (fun h e he => (h _ _ hd).2 e he)

/-! ### the steps -/

theorem mono_sSend (s : Sig.State) (call epoch : Nat) (m : Msg) (v : Bool) (g : Nat) :
    Mono s (sSend s call epoch m v g) := by
  unfold sSend
  split
  · exact Mono.refl _
  · rename_i d hd
    split
    · exact mono_readerDone hd
    · split
      · exact Mono.refl _
      · rename_i t ht
        split
        · exact mono_readerDone hd
        · split
          · exact Mono.refl _
          · split
            · exact Mono.refl _
            · rename_i ours other hp
              refine Mono.trans (b := Sig.setSess s (sendSess t d.isA ours other m)) (Mono.setSess ?_)
                (Mono.of_eq rfl rfl)
              intro t0 ht0
              have hsid := getSess_sid ht
              rw [sendSess_sid, hsid, ht] at ht0
              cases ht0
              simp

theorem mono_sAck (s : Sig.State) (call epoch k : Nat) : Mono s (sAck s call epoch k) := by
  unfold sAck
  split
  · exact Mono.refl _
  · rename_i d hd
    split
    · exact Mono.refl _
    · rename_i t ht
      have hsid := getSess_sid ht
      split
      · exact mono_readerDone hd
      · split
        · exact Mono.refl _
        · split
          · exact Mono.refl _
          · rename_i ours other hp
            split
            · refine Mono.setSess (t' := ackSess t d.isA ours other k) ?_
              intro t0 ht0
              rw [ackSess_sid, hsid, ht] at ht0
              cases ht0
              simp
            · exact Mono.refl _

theorem mono_sClear (s : Sig.State) (call epoch k : Nat) : Mono s (sClear s call epoch k) := by
  unfold sClear
  split
  · exact Mono.refl _
  · rename_i d hd
    split
    · exact Mono.refl _
    · rename_i t ht
      have hsid := getSess_sid ht
      split
      · exact mono_readerDone hd
      · split
        · exact Mono.refl _
        · split
          · exact Mono.refl _
          · rename_i ours other hp
            split
            · refine Mono.setSess (t' := clearSess1 t d.isA ours other) ?_
              intro t0 ht0
              rw [clearSess1_sid, hsid, ht] at ht0
              cases ht0
              simp
            · split
              · refine Mono.setSess (t' := clearSess2 t d.isA ours other k) ?_
                intro t0 ht0
                rw [clearSess2_sid, hsid, ht] at ht0
                cases ht0
                simp
              · exact Mono.refl _

theorem mono_sTx (s : Sig.State) (call : Nat) (r : Resp) : Mono s ((sTx s call r).getD s) := by
  unfold sTx
  split
  · exact Mono.refl _
  · rename_i d hd
    have hid := getSCall_id hd; subst hid
    split
    · rename_i x rest hout
      split
      · refine Mono.setSCall (c' := { d with outbox := rest }) hd rfl
          (fun h e he => (h _ _ hd).1 e he) ?_
        intro h e he
        exact (h _ _ hd).2 e (by rw [hout]; exact List.mem_cons_of_mem _ he)
      · exact Mono.refl _
    · exact Mono.refl _

theorem opened_mem_loopOut {d : SCall} {t : Sess} {ours : Att} {e : Nat}
    (h : Resp.opened e ∈ loopOut d t ours) : e = t.seqno := by
  simp only [loopOut, List.mem_append] at h
  rcases h with ((h | h) | h) | h
  · split at h
    · simp at h; exact h
    · simp at h
  · split at h <;> simp at h
  · split at h <;> simp at h
  · split at h <;> simp at h

theorem mono_sLoop (s : Sig.State) (call : Nat) : Mono s (sLoop s call) := by
  unfold sLoop
  split
  · exact Mono.refl _
  · rename_i d hd
    have hid := getSCall_id hd; subst hid
    split
    · exact Mono.refl _
    · rename_i t ht
      have hsid := getSess_sid ht
      rcases hsd : t.sides d.isA with ⟨oursO, otherO⟩
      simp only []
      have husurp : Mono s (Sig.setSCall s { d with waitGen := t.gen, failing := true }) :=
        Mono.setSCall (c' := { d with waitGen := t.gen, failing := true }) hd rfl
          (fun h e he => (h _ _ hd).1 e he) (fun h e he => (h _ _ hd).2 e he)
      cases oursO with
      | none =>
        simp only [if_true]
        exact husurp
      | some ours =>
        simp only []
        split
        · exact husurp
        · cases otherO with
          | none =>
            simp only [Option.isSome_none, Bool.false_eq_true, if_false, Option.isNone_none, if_true]
            refine Mono.setSCall (c' := { d with waitGen := t.gen, announced := none, outbox := d.outbox ++ (if d.announced ≠ none then [Resp.closed] else []) }) hd rfl ?_ ?_
            · intro _ e he; cases he
            · intro h e he
              rcases List.mem_append.1 he with he | he
              · exact (h _ _ hd).2 e he
              · split at he <;> simp at he
          | some other =>
            simp only [Option.isSome_some, if_true, Option.isNone_some, Bool.false_eq_true, if_false]
            show Mono s (Sig.setSess (Sig.setSCall s
              { d with waitGen := t.gen, announced := some t.seqno, outbox := d.outbox ++ loopOut d t ours })
              (loopSess t d.isA ours (some other)))
            have hbnd : Bnd s d.id t.seqno := by
              intro sc t0 hsc ht0
              rw [hd] at hsc; cases hsc
              rw [ht] at ht0; cases ht0
              exact Nat.le_refl _
            refine Mono.trans (Mono.setSCall (c' := { d with waitGen := t.gen, announced := some t.seqno, outbox := d.outbox ++ loopOut d t ours }) hd rfl ?_ ?_) (Mono.setSess ?_)
            · intro _ e he
              simp only [Option.some.injEq] at he
              subst he
              exact hbnd
            · intro h e he
              rcases List.mem_append.1 he with he | he
              · exact (h _ _ hd).2 e he
              · rw [opened_mem_loopOut he]; exact hbnd
            · intro t0 ht0
              rw [loopSess_sid, hsid, getSess_setSCall, ht] at ht0
              cases ht0
              simp

theorem mono_maybeReleaseSession (s : Sig.State) (k : Nat × Nat) : Mono s (maybeReleaseSession s k) := by
  unfold maybeReleaseSession
  split
  · exact Mono.refl _
  · split
    · exact Mono.refl _
    · rename_i sid t ht
      split
      · exact Mono.refl _
      · refine Mono.trans (b := { s with sessMap := s.sessMap.filter (·.1 ≠ k) }) (Mono.of_eq rfl rfl)
          (Mono.setSess ?_)
        intro t0 ht0
        have ht0' : getSess s t.bcast.sid = some t0 := ht0
        rw [bcast_sid, getSess_sid ht, ht] at ht0'
        cases ht0'
        simp

theorem mono_sEnd (s : Sig.State) (call : Nat) : Mono s (sEnd s call) := by
  unfold sEnd
  split
  · exact Mono.refl _
  · rename_i d hd
    have hid := getSCall_id hd; subst hid
    have h0 : Mono s (Sig.setSCall s { d with ended := true, failing := true, outbox := [] }) :=
      Mono.setSCall (c' := { d with ended := true, failing := true, outbox := [] }) hd rfl
        (fun h e he => (h _ _ hd).1 e he) (fun _ e he => by simp at he)
    simp only [getSess_setSCall]
    split
    · exact h0
    · rename_i t ht
      rcases hsd : t.sides d.isA with ⟨oursO, otherO⟩
      simp only []
      cases oursO with
      | none => exact h0
      | some ours =>
        simp only []
        split
        · exact h0
        · refine h0.trans ?_
          have h1 : Mono (Sig.setSCall s { d with ended := true, failing := true, outbox := [] })
              (Sig.setSess (Sig.setSCall s { d with ended := true, failing := true, outbox := [] })
                (endSess t d.isA otherO)) := by
            refine Mono.setSess ?_
            intro t0 ht0
            rw [endSess_sid, getSess_sid ht, getSess_setSCall, ht] at ht0
            cases ht0
            simp
          have h2 := h1.trans (mono_maybeReleaseSession _ (sessKey d.src d.dst).1)
          apply Mono.trans _ (Mono.sessEq (SessEq_maybeReleasePeer _ _))
          split
          · exact h2.trans (Mono.sessEq (SessEq_setTkr _ _))
          · exact h2

/-- every relay step other than a session registration -/
theorem mono_step (s : Sig.State) (e : Sig.Ev) (hne : ∀ c a b, e ≠ .init c a b) : Mono s (Sig.step s e) := by
  cases e with
  | init c a b => exact absurd rfl (hne c a b)
  | send c ep m v g => exact mono_sSend s c ep m v g
  | ack c ep k => exact mono_sAck s c ep k
  | clear c ep k => exact mono_sClear s c ep k
  | loop c => exact mono_sLoop s c
  | send_ c r => exact mono_sTx s c r
  | end_ c => exact mono_sEnd s c
  | lreg c p => exact Mono.sessEq (SessEq_lReg s c p)
  | lloop c w n => exact Mono.sessEq (SessEq_lLoop s c w n)
  | lusurped c => exact Mono.sessEq (SessEq_lUsurped s c)
  | ltx c r => exact Mono.sessEq (SessEq_lTx s c r)
  | lend c => exact Mono.sessEq (SessEq_lEnd s c)

/-! ### registration -/

theorem Mono.of_calls_eq {s s' : Sig.State} (hC : ∀ id, getSCall s' id = getSCall s id)
    (hb : ∀ id n, Bnd s id n → Bnd s' id n) : Mono s s' := by
  refine ⟨hb, ?_⟩
  intro h id sc hsc
  rw [hC] at hsc
  obtain ⟨a1, a2⟩ := h id sc hsc
  exact ⟨fun e he => hb id e (a1 e he), fun e he => hb id e (a2 e he)⟩

/-- `getSession` never touches an existing tracker -/
theorem getSess_getSession {s : Sig.State} (k : Nat × Nat) {x : Nat} {t0 : Sess} (h : getSess s x = some t0) :
    getSess (getSession s k).1 x = some t0 := by
  unfold getSession
  split
  · split <;> exact h
  · show List.find? _ (s.sesss ++ [_]) = _
    rw [List.find?_append]
    have : List.find? (fun y => decide (y.sid = x)) s.sesss = some t0 := h
    simp [this]

theorem mono_getSession {s : Sig.State} (hinv : Inv s) (k : Nat × Nat) : Mono s (getSession s k).1 := by
  have hC := (getSession_spec hinv k).2.2.2
  refine Mono.of_calls_eq hC ?_
  intro id n h sc t hsc ht
  rw [hC] at hsc
  obtain ⟨t0, ht0, _⟩ := hinv.calls _ _ hsc
  rw [getSess_getSession k ht0] at ht
  simp only [Option.some.injEq] at ht
  subst ht
  exact h sc t0 hsc ht0

/-- what the registration of call `call` preserves / establishes -/
structure InitMono (srv : Sig.State) (call : Nat) (srv' : Sig.State) : Prop where
  bnd : ∀ id n, id ≠ call → Bnd srv id n → Bnd srv' id n
  le : SrvLe srv → SrvLe srv'
  old : ∀ id, id ≠ call → getSCall srv' id = getSCall srv id
  new : ∃ sc, getSCall srv' call = some sc ∧ sc.announced = none ∧ sc.outbox = [] ∧
    ∀ t0, getSess srv sc.sess = some t0 → ∃ t', getSess srv' sc.sess = some t' ∧ t'.seqno = t0.seqno + 1

theorem initMono_addCall {s x : Sig.State} {n : SCall} (hm : Mono s x) (hC : ∀ id, getSCall x id = getSCall s id)
    (hfresh : getSCall s n.id = none) (h1 : n.announced = none) (h2 : n.outbox = [])
    (h3 : ∀ t0, getSess s n.sess = some t0 → ∃ t', getSess x n.sess = some t' ∧ t'.seqno = t0.seqno + 1) :
    InitMono s n.id (addCall x n) := by
  have hfx : getSCall x n.id = none := by rw [hC]; exact hfresh
  have hA := fun id => getSCall_addCall hfx id
  have hb : ∀ id m, id ≠ n.id → Bnd x id m → Bnd (addCall x n) id m := by
    intro id m hid h sc t hsc ht
    rw [hA, if_neg hid] at hsc
    exact h sc t hsc ht
  refine ⟨fun id m hid h => hb id m hid (hm.bnd id m h), ?_, ?_, ?_⟩
  · intro h id sc hsc
    rw [hA] at hsc
    by_cases hid : id = n.id
    · rw [if_pos hid] at hsc
      cases hsc
      constructor
      · intro e he; rw [h1] at he; cases he
      · intro e he; rw [h2] at he; simp at he
    · rw [if_neg hid] at hsc
      obtain ⟨a1, a2⟩ := hm.le h id sc hsc
      exact ⟨fun e he => hb id e hid (a1 e he), fun e he => hb id e hid (a2 e he)⟩
  · intro id hid
    rw [hA, if_neg hid, hC]
  · exact ⟨n, by rw [hA]; simp, h1, h2, h3⟩

theorem initMono_sInit {s : Sig.State} (hg : Good s) (call src dst : Nat) (hfresh : getSCall s call = none) :
    InitMono s call (sInit s call src dst) := by
  unfold sInit
  rcases hgp : getPeer s dst with ⟨s1, dt, ex⟩
  simp only []
  have hs1 : SessEq s s1 := by have := SessEq_getPeer s dst; rw [hgp] at this; exact this
  generalize hs2 : (if src ∈ dt.wants then s1 else setTkr s1 ({ dt with wants := insertSorted src dt.wants }).bcast) = s2
  have hs2' : SessEq s s2 := by
    subst hs2; split
    · exact hs1
    · exact hs1.trans (SessEq_setTkr _ _)
  have hinv2 := Inv_SessEq hg.inv hs2'
  rcases hk : sessKey src dst with ⟨k, isA⟩
  simp only []
  obtain ⟨h1, h2, h3, h4⟩ := getSession_spec hinv2 k
  have hm3 := mono_getSession hinv2 k
  have hfw := fun x t0 (h : getSess s2 x = some t0) => getSess_getSession k h
  rcases hgs : getSession s2 k with ⟨s3, t⟩
  rw [hgs] at h1 h2 h3 h4 hm3 hfw
  simp only [] at h1 h2 h3 h4 hm3 hfw ⊢
  rcases hsd : t.sides isA with ⟨o1, other⟩
  simp only []
  show InitMono s call (addCall (Sig.setSess s3 (initSess t isA call other))
    (newCall call src dst t.sid dt.tid (t.setSides isA (some { call := call }) (other.map clearAtt)).gen))
  have hC : ∀ id, getSCall s3 id = getSCall s id := fun id => (h4 id).trans (hs2'.getSCall id)
  have hm : Mono s (Sig.setSess s3 (initSess t isA call other)) := by
    refine ((Mono.sessEq hs2').trans hm3).trans (Mono.setSess ?_)
    intro t0 ht0
    rw [initSess_sid, h2] at ht0
    cases ht0
    simp
  refine initMono_addCall (n := newCall call src dst t.sid dt.tid
    (t.setSides isA (some { call := call }) (other.map clearAtt)).gen) hm hC hfresh rfl rfl ?_
  intro t0 ht0
  have ht0' : getSess s t.sid = some t0 := ht0
  rw [← hs2'.getSess] at ht0'
  have := hfw _ _ ht0'
  rw [h2] at this
  cases this
  refine ⟨initSess t isA call other, ?_, by simp⟩
  show getSess (Sig.setSess s3 (initSess t isA call other)) t.sid = _
  rw [getSess_setSess_of h2 (by simp)]
  simp

end SigEpoch
end Bifrost
