import Bifrost.Model.DialSys
import Bifrost.Lemmas.QuicTable
import Bifrost.Lemmas.QuicTableProgress
/-! Basic facts about the dialing system `Bifrost.DialSys`: the small maps, what each
transition does to each component, and the embedding of `Bifrost.QuicTable`. Helper lemmas for
C05Sys. -/
namespace Bifrost
namespace DialSys
open Links (Link)

/-! ### runs -/

theorem runs_append (cfg : Cfg) (lp : Nat) (s : State) (a b : List Op) :
    runs cfg lp s (a ++ b) = runs cfg lp (runs cfg lp s a) b := by
  simp [runs, List.foldl_append]

theorem run_append (cfg : Cfg) (lp : Nat) (a b : List Op) :
    run cfg lp (a ++ b) = runs cfg lp (run cfg lp a) b := by
  simp [run, runs_append]

theorem run_snoc (cfg : Cfg) (lp : Nat) (ops : List Op) (op : Op) :
    run cfg lp (ops ++ [op]) = step cfg lp (run cfg lp ops) op := by
  simp [run, runs, List.foldl_append]

theorem runs_cons (cfg : Cfg) (lp : Nat) (s : State) (op : Op) (t : List Op) :
    runs cfg lp s (op :: t) = runs cfg lp (step cfg lp s op) t := rfl

theorem runs_nil (cfg : Cfg) (lp : Nat) (s : State) : runs cfg lp s [] = s := rfl

/-! ### the link-dialer map -/

theorem getLD_some {s : State} {k : Key} {ld : LDialer} (h : getLD s k = some ld) :
    ld ∈ s.lds ∧ ld.key = k := by
  unfold getLD at h
  exact ⟨List.mem_of_find?_eq_some h, by simpa using List.find?_some h⟩

theorem getLD_none {s : State} {k : Key} (h : getLD s k = none) : ∀ ld ∈ s.lds, ld.key ≠ k := by
  unfold getLD at h
  intro ld hld
  simpa using List.find?_eq_none.1 h ld hld

theorem getLD_of_mem {s : State} (hnd : (s.lds.map (·.key)).Nodup) {ld : LDialer} (h : ld ∈ s.lds) :
    getLD s ld.key = some ld := by
  unfold getLD
  cases hf : s.lds.find? (fun x => x.key = ld.key) with
  | none =>
    have := List.find?_eq_none.1 hf ld h
    simp at this
  | some x =>
    have hx := List.mem_of_find?_eq_some hf
    have hk : x.key = ld.key := by simpa using List.find?_some hf
    rw [Links.inj_of_nodup_map (fun (y : LDialer) => y.key) hnd x hx ld h hk]

@[simp] theorem setLD_q (s : State) (ld : LDialer) : (setLD s ld).q = s.q := rfl
@[simp] theorem setLD_qdialers (s : State) (ld : LDialer) : (setLD s ld).qdialers = s.qdialers := rfl
@[simp] theorem setLD_dmap (s : State) (ld : LDialer) : (setLD s ld).dmap = s.dmap := rfl
@[simp] theorem setLD_returned (s : State) (ld : LDialer) : (setLD s ld).returned = s.returned := rfl
@[simp] theorem setLD_pushed (s : State) (ld : LDialer) : (setLD s ld).pushed = s.pushed := rfl
@[simp] theorem setLD_staleStore (s : State) (ld : LDialer) : (setLD s ld).staleStore = s.staleStore := rfl

theorem setLD_keys (s : State) (ld : LDialer) : (setLD s ld).lds.map (·.key) = s.lds.map (·.key) := by
  simp only [setLD, List.map_map]
  apply List.map_congr_left
  intro x _
  simp only [Function.comp]
  split
  · rename_i h; exact h.symm
  · rfl

theorem mem_setLD {s : State} {ld x : LDialer} (h : x ∈ (setLD s ld).lds) :
    (x = ld ∧ ∃ y ∈ s.lds, y.key = ld.key) ∨ (x ∈ s.lds ∧ x.key ≠ ld.key) := by
  simp only [setLD, List.mem_map] at h
  obtain ⟨y, hy, rfl⟩ := h
  by_cases hk : y.key = ld.key
  · rw [if_pos hk]; exact Or.inl ⟨rfl, y, hy, hk⟩
  · rw [if_neg hk]; exact Or.inr ⟨hy, hk⟩

theorem forall_setLD {s : State} {ld : LDialer} {P : LDialer → Prop}
    (h : ∀ x ∈ s.lds, P x) (hld : P ld) : ∀ x ∈ (setLD s ld).lds, P x := by
  intro x hx
  rcases mem_setLD hx with ⟨rfl, _⟩ | ⟨hx, _⟩
  · exact hld
  · exact h x hx

theorem getLD_setLD_self {s : State} {ld ld' : LDialer} (h : getLD s ld.key = some ld')
    : getLD (setLD s ld) ld.key = some ld := by
  unfold getLD setLD at *
  simp only
  revert h
  generalize s.lds = l
  intro h
  induction l with
  | nil => simp at h
  | cons x rest ih =>
    simp only [List.map_cons]
    by_cases hk : x.key = ld.key
    · simp [hk]
    · simp only [hk, if_false]
      rw [List.find?_cons_of_neg (by simpa using hk)] at h ⊢
      exact ih h

theorem getLD_setLD_other {s : State} {ld : LDialer} {k : Key} (hk : k ≠ ld.key) :
    getLD (setLD s ld) k = getLD s k := by
  unfold getLD setLD
  simp only
  generalize s.lds = l
  induction l with
  | nil => rfl
  | cons x rest ih =>
    simp only [List.map_cons]
    by_cases hx : x.key = ld.key
    · simp only [hx, if_true]
      rw [List.find?_cons_of_neg (by simpa using fun h => hk h.symm),
        List.find?_cons_of_neg (by simpa [hx] using fun h => hk h.symm)]
      exact ih
    · simp only [hx, if_false]
      by_cases hxk : x.key = k
      · simp [hxk]
      · rw [List.find?_cons_of_neg (by simpa using hxk), List.find?_cons_of_neg (by simpa using hxk)]
        exact ih

/-! ### the dialer objects -/

theorem getQD_some {s : State} {d : Nat} {qd : QDialer} (h : getQD s d = some qd) :
    qd ∈ s.qdialers ∧ qd.id = d := by
  unfold getQD at h
  exact ⟨List.mem_of_find?_eq_some h, by simpa using List.find?_some h⟩

@[simp] theorem setQDRes_q (s : State) (d : Nat) (r : DRes) : (setQDRes s d r).q = s.q := rfl
@[simp] theorem setQDRes_lds (s : State) (d : Nat) (r : DRes) : (setQDRes s d r).lds = s.lds := rfl
@[simp] theorem setQDRes_dmap (s : State) (d : Nat) (r : DRes) : (setQDRes s d r).dmap = s.dmap := rfl
@[simp] theorem setQDRes_returned (s : State) (d : Nat) (r : DRes) : (setQDRes s d r).returned = s.returned := rfl
@[simp] theorem setQDRes_pushed (s : State) (d : Nat) (r : DRes) : (setQDRes s d r).pushed = s.pushed := rfl
@[simp] theorem setQDRes_staleStore (s : State) (d : Nat) (r : DRes) :
    (setQDRes s d r).staleStore = s.staleStore := rfl
@[simp] theorem setQDRes_length (s : State) (d : Nat) (r : DRes) :
    (setQDRes s d r).qdialers.length = s.qdialers.length := by simp [setQDRes]

theorem setQDRes_ids (s : State) (d : Nat) (r : DRes) :
    (setQDRes s d r).qdialers.map (·.id) = s.qdialers.map (·.id) := by
  simp only [setQDRes, List.map_map]
  apply List.map_congr_left
  intro x _
  simp only [Function.comp]
  split <;> rfl

/-- a dialer object after `SetResult`: same identity and address; its result is the new one if it
is the object concerned, unchanged otherwise -/
theorem mem_setQDRes {s : State} {d : Nat} {r : DRes} {x : QDialer} (h : x ∈ (setQDRes s d r).qdialers) :
    ∃ y ∈ s.qdialers, x.id = y.id ∧ x.addr = y.addr ∧ x.peer = y.peer ∧
      ((y.id = d ∧ x.res = r) ∨ (y.id ≠ d ∧ x.res = y.res)) := by
  simp only [setQDRes, List.mem_map] at h
  obtain ⟨y, hy, rfl⟩ := h
  refine ⟨y, hy, ?_⟩
  by_cases hd : y.id = d
  · simp [hd]
  · simp [hd]

theorem getQD_setQDRes {s : State} {d : Nat} {r : DRes} {qd : QDialer} (h : getQD s d = some qd) :
    getQD (setQDRes s d r) d = some { qd with res := r } := by
  unfold getQD setQDRes at *
  simp only
  revert h
  generalize s.qdialers = l
  intro h
  induction l with
  | nil => simp at h
  | cons x rest ih =>
    simp only [List.map_cons]
    by_cases hx : x.id = d
    · simp only [hx, if_true]
      rw [List.find?_cons_of_pos (by simp)]
      rw [List.find?_cons_of_pos (by simpa using hx)] at h
      cases h; subst hx; rfl
    · simp only [hx, if_false]
      rw [List.find?_cons_of_neg (by simpa using hx)] at h ⊢
      exact ih h

/-! ### `t.dialers` -/

theorem dmapGet_some {s : State} {a d : Nat} (h : dmapGet s a = some d) : (a, d) ∈ s.dmap := by
  unfold dmapGet at h
  cases hf : s.dmap.find? (fun e => e.1 = a) with
  | none => simp [hf] at h
  | some e =>
    simp [hf] at h
    have h1 := List.mem_of_find?_eq_some hf
    have h2 : e.1 = a := by simpa using List.find?_some hf
    have : e = (a, d) := by cases e; simp_all
    exact this ▸ h1

theorem dmapGet_none {s : State} {a : Nat} (h : dmapGet s a = none) : ∀ e ∈ s.dmap, e.1 ≠ a := by
  unfold dmapGet at h
  intro e he
  cases hf : s.dmap.find? (fun e => e.1 = a) with
  | none => simpa using List.find?_eq_none.1 hf e he
  | some e' => simp [hf] at h

theorem mem_dmapDel {m : List (Nat × Nat)} {a : Nat} {e : Nat × Nat} :
    e ∈ dmapDel m a ↔ e ∈ m ∧ e.1 ≠ a := by
  simp [dmapDel]

theorem dmapGet_del (s : State) (a : Nat) : dmapGet { s with dmap := dmapDel s.dmap a } a = none := by
  unfold dmapGet
  have : (dmapDel s.dmap a).find? (fun e => e.1 = a) = none := by
    apply List.find?_eq_none.2
    intro e he
    simpa using (mem_dmapDel.1 he).2
  simp [this]

/-! ### `QuicTable` is embedded unchanged -/

/-- the `QuicTable` transition an op performs on the component `q`, if any -/
def qOp (cfg : Cfg) (s : State) : Op → Option QuicTable.Op
  | .answer d who =>
    match getQD s d with
    | some qd => if qd.res = .pending ∧ who ≠ 0 then some (.session (cfg.resolve qd.addr) who) else none
    | none => none
  | .inbound a p => some (.session a p)
  | .close i => some (.close i)
  | .runClose i => some (.runClose i)
  | .runLost a l => some (.runLost a l)
  | .runEst l => if l ∈ s.q.pendEst then some (.runEst l) else none
  | .runCtrlLost l => if l ∈ s.q.pendCtrlLost then some (.runCtrlLost l) else none
  | _ => none

theorem addRefStep_q (s : State) (k : Key) : (addRefStep s k).q = s.q := by
  unfold addRefStep
  split
  · rfl
  · split <;> rfl

theorem releaseStep_q (s : State) (k : Key) : (releaseStep s k).q = s.q := by
  unfold releaseStep
  split
  · rfl
  · split <;> rfl

theorem step_q (cfg : Cfg) (lp : Nat) (s : State) (op : Op) :
    (step cfg lp s op).q = match qOp cfg s op with
      | some o => QuicTable.step cfg.U s.q o
      | none => s.q := by
  cases op with
  | addRef k => exact addRefStep_q s k
  | release k => exact releaseStep_q s k
  | tptAdd d => simp only [step, qOp]; split; exact addRefStep_q s _; rfl
  | tptDone d => simp only [step, qOp]; split; exact releaseStep_q s _; rfl
  | answer d who =>
    simp only [step, qOp]
    cases hq : getQD s d with
    | none => rfl
    | some qd =>
      simp only
      by_cases hp : qd.res = .pending
      · by_cases hw : who = 0
        · simp [hp, hw]
        · simp [hp, hw, sessionAt]
      · simp [hp]
  | inbound a p => rfl
  | close i => rfl
  | runClose i => rfl
  | runLost a l => rfl
  | runEst l => simp only [step, qOp]; split <;> rfl
  | runCtrlLost l => simp only [step, qOp]; split <;> rfl
  | _ => simp only [step, qOp] <;> (repeat' split) <;> rfl

/-- the component `q` of a reachable state is a reachable state of `Bifrost.QuicTable` -/
theorem q_reach (cfg : Cfg) (lp : Nat) (ops : List Op) :
    ∃ qops, (run cfg lp ops).q = QuicTable.run cfg.U (.start lp :: qops) := by
  induction ops using Links.snoc_induction with
  | nil => exact ⟨[], rfl⟩
  | snoc ops op ih =>
    obtain ⟨qops, hq⟩ := ih
    rw [run_snoc, step_q]
    cases qOp cfg (run cfg lp ops) op with
    | none => exact ⟨qops, hq⟩
    | some o =>
      refine ⟨qops ++ [o], ?_⟩
      rw [hq, ← List.cons_append, QuicTable.run_snoc]

theorem qinv_run (cfg : Cfg) (lp : Nat) (ops : List Op) : QuicTable.QInv (run cfg lp ops).q := by
  obtain ⟨qops, hq⟩ := q_reach cfg lp ops
  rw [hq]; exact QuicTable.qinv_run _ _

/-- every op does at most one `QuicTable` transition on `q`: `q` after the op is `q` or a
`QuicTable` step of it -/
theorem step_q_cases (cfg : Cfg) (lp : Nat) (s : State) (op : Op) :
    (step cfg lp s op).q = s.q ∨ ∃ o, qOp cfg s op = some o ∧ (step cfg lp s op).q = QuicTable.step cfg.U s.q o := by
  rw [step_q]
  cases h : qOp cfg s op with
  | none => exact Or.inl rfl
  | some o => exact Or.inr ⟨o, rfl, rfl⟩

/-- the controller is running throughout, with the local peer id it was started with -/
theorem qstep_running (U : Nat → Nat → Nat) (q : QuicTable.State) (o : QuicTable.Op)
    (ho : o ≠ .shutdown) (hs : ∀ lp, o ≠ .start lp)
    (h : q.ctrl.running = true) :
    (QuicTable.step U q o).ctrl.running = true ∧ (QuicTable.step U q o).ctrl.localPeer = q.ctrl.localPeer := by
  cases o with
  | start lp => exact absurd rfl (hs lp)
  | shutdown => exact absurd rfl ho
  | session a p => exact ⟨h, rfl⟩
  | runEst l =>
    simp only [QuicTable.step, QuicTable.stepWith]
    split
    · simp only [QuicTable.ctrlStep_ctrl]
      exact ⟨by rw [Links.step_est_running]; exact h, by rw [Links.step_est_localPeer]⟩
    · exact ⟨h, rfl⟩
  | close i =>
    simp only [QuicTable.step, QuicTable.stepWith]
    rw [QuicTable.closeBody_ctrl]; exact ⟨h, rfl⟩
  | runClose i =>
    simp only [QuicTable.step, QuicTable.stepWith]
    split
    · rw [QuicTable.closeBody_ctrl]; exact ⟨h, rfl⟩
    · exact ⟨h, rfl⟩
  | runLost a l =>
    simp only [QuicTable.step, QuicTable.stepWith]
    split <;> exact ⟨h, rfl⟩
  | runCtrlLost l =>
    simp only [QuicTable.step, QuicTable.stepWith]
    split
    · simp only [QuicTable.ctrlStep_ctrl]
      rcases Links.step_lost_cases q.ctrl l with ⟨el, _, _, he⟩ | ⟨_, he⟩
      · rw [he]; exact ⟨h, rfl⟩
      · rw [he]; exact ⟨h, rfl⟩
    · exact ⟨h, rfl⟩

theorem qOp_not_ctl (cfg : Cfg) (s : State) (op : Op) (o : QuicTable.Op) (h : qOp cfg s op = some o) :
    o ≠ .shutdown ∧ ∀ lp, o ≠ .start lp := by
  cases op <;> simp only [qOp] at h <;> (repeat' split at h) <;>
    first
    | (cases h; exact ⟨by simp, by simp⟩)
    | cases h

theorem running_run (cfg : Cfg) (lp : Nat) (ops : List Op) :
    (run cfg lp ops).q.ctrl.running = true ∧ (run cfg lp ops).q.ctrl.localPeer = lp := by
  induction ops using Links.snoc_induction with
  | nil => exact ⟨rfl, rfl⟩
  | snoc ops op ih =>
    rw [run_snoc]
    rcases step_q_cases cfg lp (run cfg lp ops) op with h | ⟨o, ho, h⟩
    · rw [h]; exact ih
    · rw [h]
      obtain ⟨h1, h2⟩ := qOp_not_ctl _ _ _ _ ho
      obtain ⟨h3, h4⟩ := qstep_running cfg.U _ o h1 h2 ih.1
      exact ⟨h3, h4.trans ih.2⟩

/-- links are never forgotten: `created` only grows -/
theorem created_mono (cfg : Cfg) (lp : Nat) (s : State) (op : Op) :
    ∀ e ∈ s.q.created, e ∈ (step cfg lp s op).q.created := by
  intro e he
  rcases step_q_cases cfg lp s op with h | ⟨o, _, h⟩
  · rw [h]; exact he
  · rw [h, QuicTable.step_created]
    cases o <;> first | exact he | exact List.mem_cons_of_mem _ he

end DialSys
end Bifrost
