import Bifrost.Model.Signaling
/-!
The witness history for "a withdrawal stored for a peer does not wake that peer's write loop"
(`handleClearMsg` sets `recvClear` without `sess.broadcast()`), used by Props/C22.lean and
replayed on the real relay by engine `sigsrv` (scenario `stale-ack`) on every run.
-/
namespace Bifrost
namespace SigWithdraw
open Sig

/-- A (call 1) and B (call 2) attach and are told the epoch; A submits m (seqno 1); B's write loop
transmits it and goes back to waiting; A withdraws m (`ClearMsg 1`): the withdrawal is stored for B. -/
def witness : List Ev :=
  [.init 1 1 2, .init 2 2 1, .loop 1, .send_ 1 (.opened 2), .loop 2, .send_ 2 (.opened 2),
   .send 1 2 ⟨1, 1⟩ true 1, .loop 2, .send_ 2 (.recv ⟨1, 1⟩), .loop 2, .loop 1, .clear 1 2 1]

/-- a withdrawal is stored for the (attached, running) call and has not been transmitted -/
def withdrawalPending (s : State) (c : SCall) : Bool :=
  match (c.oursOther s).1 with
  | some o => o.call == c.id && o.recvClear.isSome
  | none => false

end SigWithdraw
end Bifrost
