import Bifrost.Lemmas.SigLiveBackC
/-!
Liveness of a pair of trackers (`SigPair.Live`) read backwards along one event of the composed
signaling system: it can only be created by an effective `connect` of one of the two trackers;
every other event that leaves the pair live found it live, and is an event of a stable suffix or
a `Send` cancellation of one of the two trackers (`live_back`).
-/
namespace Bifrost
namespace SigLiveBack
open Bifrost.SigSys Bifrost.SigPair

section
variable {s : SigSys.State} {A B ia ib : Nat}

/-- the call a tracker holds is registered at the relay, a fresh call id is not -/
theorem held_ne_fresh (hinv : SigSys.Inv s) {me peer x y : Nat} {c : Client} {id : Nat}
    (hc : getClient s x y = some c) (hid : c.call = some id)
    (hen : Sig.enabled s.srv (.init s.nextCall me peer) = true) : id ≠ s.nextCall := by
  intro e
  have hp := (hinv.cli c (getClient_some hc).1).call id hid
  simp only [Sig.enabled, Bool.and_eq_true, Option.isNone_iff_eq_none, decide_eq_true_eq] at hen
  obtain ⟨⟨⟨⟨hfs, _⟩, _⟩, _⟩, _⟩ := hen
  rw [e] at hp
  simp [SigSysSrv.callPair, hfs] at hp

theorem back_connect (hinv : SigSys.Inv s) (me peer : Nat)
    (hl : Live (SigSys.step s (.connect me peer)) A B ia ib) :
    Live s A B ia ib ∨
    (me = A ∧ peer = B ∧ ∀ c, getClient s A B = some c → c.call = none) ∨
    (me = B ∧ peer = A ∧ ∀ c, getClient s B A = some c → c.call = none) := by
  simp only [SigSys.step] at hl
  split at hl
  · rename_i c hc
    split at hl
    · exact Or.inl hl
    · rename_i hno
      have hnone : c.call = none := by
        cases h : c.call with
        | none => rfl
        | some x => rw [h] at hno; simp at hno
      split at hl
      · exact Or.inl hl
      · rename_i hen
        have hen : Sig.enabled s.srv (.init s.nextCall me peer) = true := by simpa using hen
        obtain ⟨_, hme, hpeer⟩ := getClient_some hc
        by_cases hA : me = A ∧ peer = B
        · refine Or.inr (Or.inl ⟨hA.1, hA.2, ?_⟩)
          intro c' hc'
          rw [← hA.1, ← hA.2, hc] at hc'
          cases hc'
          exact hnone
        by_cases hB : me = B ∧ peer = A
        · refine Or.inr (Or.inr ⟨hB.1, hB.2, ?_⟩)
          intro c' hc'
          rw [← hB.1, ← hB.2, hc] at hc'
          cases hc'
          exact hnone
        left
        -- the two trackers are untouched
        have hcb : ∀ x y, ¬ (x = me ∧ y = peer) → CliBack s
            (setClient { s with srv := Sig.step s.srv (.init s.nextCall me peer),
                                chans := s.chans ++ [{ call := s.nextCall }], nextCall := s.nextCall + 1 }
              { c with call := some s.nextCall }) x y := by
          intro x y hxy d id hd hid
          rw [getClient_setClient_ne (by simpa [hme, hpeer] using hxy)] at hd
          exact ⟨d, hd, hid⟩
        have h1 := hcb A B (fun h => hA ⟨h.1.symm, h.2.symm⟩)
        have h2 := hcb B A (fun h => hB ⟨h.1.symm, h.2.symm⟩)
        obtain ⟨ca, hca, hcia⟩ := hl.cliA
        obtain ⟨cb, hcb', hcib⟩ := hl.cliB
        obtain ⟨ca0, hca0, hcia0⟩ := h1 ca ia hca hcia
        obtain ⟨cb0, hcb0, hcib0⟩ := h2 cb ib hcb' hcib
        have hia := held_ne_fresh hinv hca0 hcia0 hen
        have hib := held_ne_fresh hinv hcb0 hcib0 hen
        -- their stream pairs are not the fresh one
        have hchb : ∀ x, x ≠ s.nextCall → ChanBack s
            (setClient { s with srv := Sig.step s.srv (.init s.nextCall me peer),
                                chans := s.chans ++ [{ call := s.nextCall }], nextCall := s.nextCall + 1 }
              { c with call := some s.nextCall }) x := by
          intro x hx ch hch ho
          have hch' : (s.chans ++ [({ call := s.nextCall } : Chan)]).find? (fun c => decide (c.call = x)) = some ch := hch
          rw [List.find?_append] at hch'
          cases h0 : s.chans.find? (fun c => decide (c.call = x)) with
          | some d =>
            rw [h0] at hch'
            simp only [Option.some_or, Option.some.injEq] at hch'
            subst hch'
            exact ⟨d, h0, ho⟩
          | none =>
            rw [h0] at hch'
            simp only [Option.none_or, List.find?_cons, List.find?_nil] at hch'
            split at hch'
            · rename_i hd
              simp only [decide_eq_true_eq] at hd
              exact absurd hd.symm hx
            · cases hch'
        have hb : Back s.srv (Sig.sInit s.srv s.nextCall me peer) (fun j => j ≠ s.nextCall) := back_sInit _ _ _ _
        exact live_back_of hl h1 h2 (hchb _ hia) (hchb _ hib) (hb.live hia) (hb.live hib)
  · exact Or.inl hl

end

/-- Liveness of the pair can only be CREATED by an effective connect of one of the two trackers;
every other event that leaves the pair live found it live, and is a stable event or a `Send`
cancellation of one of the two trackers. -/
theorem live_back {s : SigSys.State} (hr : SigSys.Reachable s) (e : SigSys.Ev) {A B ia ib : Nat}
    (hl : Live (SigSys.step s e) A B ia ib) :
    (Live s A B ia ib ∧ (Stable A B ia ib e ∨ (∃ id, e = .sendCancel A B id) ∨ (∃ id, e = .sendCancel B A id))) ∨
    (e = .connect A B ∧ ∀ c, getClient s A B = some c → c.call = none) ∨
    (e = .connect B A ∧ ∀ c, getClient s B A = some c → c.call = none) := by
  have hinv := SigSys.inv_of_reachable hr
  cases e with
  | newClient me peer => exact Or.inl ⟨back_newClient me peer hl, Or.inl trivial⟩
  | connect me peer =>
    rcases back_connect hinv me peer hl with h | ⟨rfl, rfl, h⟩ | ⟨rfl, rfl, h⟩
    · exact Or.inl ⟨h, Or.inl trivial⟩
    · exact Or.inr (Or.inl ⟨rfl, h⟩)
    · exact Or.inr (Or.inr ⟨rfl, h⟩)
  | disconnect me peer =>
    have h := back_disconnect me peer hl
    exact Or.inl ⟨h.1, Or.inl h.2⟩
  | srvEnd c =>
    have h := back_srvEnd c hl
    exact Or.inl ⟨h.1, Or.inl h.2⟩
  | sendStart me peer m =>
    simp only [SigSys.step] at hl
    exact Or.inl ⟨back_lift me peer _ hl, Or.inl trivial⟩
  | sendStep me peer id =>
    simp only [SigSys.step] at hl
    exact Or.inl ⟨back_lift me peer _ hl, Or.inl trivial⟩
  | sendCancel me peer id =>
    simp only [SigSys.step] at hl
    refine Or.inl ⟨back_lift me peer _ hl, ?_⟩
    by_cases hp : isPair A B me peer
    · rcases hp with ⟨rfl, rfl⟩ | ⟨rfl, rfl⟩
      · exact Or.inr (Or.inl ⟨id, rfl⟩)
      · exact Or.inr (Or.inr ⟨id, rfl⟩)
    · exact Or.inl hp
  | recvStep me peer =>
    simp only [SigSys.step] at hl
    exact Or.inl ⟨back_lift me peer _ hl, Or.inl trivial⟩
  | clientTx me peer => exact Or.inl ⟨back_clientTx me peer hl, Or.inl trivial⟩
  | clientRx me peer => exact Or.inl ⟨back_clientRx me peer hl, Or.inl trivial⟩
  | srvRx c => exact Or.inl ⟨back_srvRx c hl, Or.inl trivial⟩
  | srvLoop c => exact Or.inl ⟨back_srvLoop c hl, Or.inl trivial⟩
  | srvTx c => exact Or.inl ⟨back_srvTx c hl, Or.inl trivial⟩

end SigLiveBack
end Bifrost
