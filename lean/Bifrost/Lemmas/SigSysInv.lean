import Bifrost.Model.SigSys
import Bifrost.Lemmas.SigSysCli
import Bifrost.Lemmas.SigSysSrv
/-! The inductive invariant of the composed signaling system (C21 end to end): definitions and
the generic update lemmas. -/
namespace Bifrost
namespace SigSys
open Bifrost.SigSysSrv Bifrost.SigSysCli

/-- the tracker of `y` towards `x` has handed a message with sequence number `k` to its application -/
def Del (cl : List Client) (x y k : Nat) : Prop :=
  ∃ b ∈ cl, b.me = y ∧ b.peer = x ∧ ∃ m ep, (m, ep) ∈ b.st.delivered ∧ m.seqno = k

/-- `m` is the message of a `Send` call of the tracker of `x` towards `y` -/
def Sent (cl : List Client) (x y : Nat) (m : SigC.Msg) : Prop :=
  ∃ a ∈ cl, a.me = x ∧ a.peer = y ∧ ∃ c ∈ a.st.sends, c.msg = m

def CliLe (cl cl' : List Client) : Prop :=
  ∀ a ∈ cl, ∃ a' ∈ cl', a'.me = a.me ∧ a'.peer = a.peer ∧ StLe a.st a'.st

theorem CliLe.refl (cl : List Client) : CliLe cl cl := fun a ha => ⟨a, ha, rfl, rfl, StLe.refl _⟩

theorem Del.mono {cl cl' : List Client} (h : CliLe cl cl') {x y k : Nat} : Del cl x y k → Del cl' x y k := by
  rintro ⟨b, hb, h1, h2, m, ep, hm, hk⟩
  obtain ⟨b', hb', e1, e2, hle⟩ := h b hb
  exact ⟨b', hb', e1.trans h1, e2.trans h2, m, ep, hle.del _ hm, hk⟩

theorem Sent.mono {cl cl' : List Client} (h : CliLe cl cl') {x y : Nat} {m : SigC.Msg} :
    Sent cl x y m → Sent cl' x y m := by
  rintro ⟨a, ha, h1, h2, c, hc, hm⟩
  obtain ⟨a', ha', e1, e2, hle⟩ := h a ha
  obtain ⟨c', hc', hm'⟩ := hle.snd c hc
  exact ⟨a', ha', e1.trans h1, e2.trans h2, c', hc', hm'.trans hm⟩

def KeyUniq (cl : List Client) : Prop :=
  ∀ a ∈ cl, ∀ a' ∈ cl, a.me = a'.me → a.peer = a'.peer → a = a'

/-- everything in flight on the stream pair of one call is justified -/
structure ChanOk (srv : Sig.State) (cl : List Client) (ch : Chan) : Prop where
  ex : (callPair srv ch.call).isSome = true
  ackS : ∀ x y k, callPair srv ch.call = some (x, y) → Sig.Resp.ack k ∈ ch.s2c → Del cl x y k
  ackC : ∀ x y e k, callPair srv ch.call = some (x, y) → SigC.Req.ack e k ∈ ch.c2s → Del cl y x k
  recvS : ∀ x y m, callPair srv ch.call = some (x, y) → Sig.Resp.recv m ∈ ch.s2c → Sent cl y x (toCliMsg m)
  sendC : ∀ x y e m, callPair srv ch.call = some (x, y) → SigC.Req.send e m ∈ ch.c2s → Sent cl x y m

structure CliOk (srv : Sig.State) (cl : List Client) (a : Client) : Prop where
  reach : SigC.Reachable a.st
  call : ∀ id, a.call = some id → callPair srv id = some (a.me, a.peer)
  acked : ∀ x ∈ a.st.ackedLog, Del cl a.me a.peer x.1
  acc : ∀ x ∈ a.st.accepted, Sent cl a.peer a.me x.1

structure SrvOk (srv : Sig.State) (cl : List Client) : Prop where
  reach : Sig.Reachable srv
  ack : AckView (Del cl) srv
  msg : MsgView (fun x y m => Sent cl x y (toCliMsg m)) srv

structure Inv (s : State) : Prop where
  srv : SrvOk s.srv s.clients
  cli : ∀ a ∈ s.clients, CliOk s.srv s.clients a
  chan : ∀ ch ∈ s.chans, ChanOk s.srv s.clients ch
  uniq : KeyUniq s.clients

/-! ### monotonicity in the clients, invariance in the relay -/

theorem ChanOk.mono {srv : Sig.State} {cl cl' : List Client} {ch : Chan} (h : CliLe cl cl')
    (hc : ChanOk srv cl ch) : ChanOk srv cl' ch :=
  ⟨hc.ex, fun x y k hp hm => (hc.ackS x y k hp hm).mono h, fun x y e k hp hm => (hc.ackC x y e k hp hm).mono h,
   fun x y m hp hm => (hc.recvS x y m hp hm).mono h, fun x y e m hp hm => (hc.sendC x y e m hp hm).mono h⟩

theorem CliOk.mono {srv : Sig.State} {cl cl' : List Client} {a : Client} (h : CliLe cl cl')
    (hc : CliOk srv cl a) : CliOk srv cl' a :=
  ⟨hc.reach, hc.call, fun x hx => (hc.acked x hx).mono h, fun x hx => (hc.acc x hx).mono h⟩

theorem SrvOk.mono {srv : Sig.State} {cl cl' : List Client} (h : CliLe cl cl')
    (hc : SrvOk srv cl) : SrvOk srv cl' :=
  ⟨hc.reach, AckView_mono (fun _ _ _ hd => hd.mono h) hc.ack, MsgView_mono (fun _ _ _ hd => hd.mono h) hc.msg⟩

theorem ChanOk.srv {srv srv' : Sig.State} {cl : List Client} {ch : Chan}
    (hp : callPair srv' ch.call = callPair srv ch.call) (hc : ChanOk srv cl ch) : ChanOk srv' cl ch := by
  obtain ⟨h1, h2, h3, h4, h5⟩ := hc
  refine ⟨?_, ?_, ?_, ?_, ?_⟩ <;> rw [hp] <;> assumption

theorem CliOk.srv {srv srv' : Sig.State} {cl : List Client} {a : Client}
    (hp : ∀ id, a.call = some id → callPair srv' id = callPair srv id) (hc : CliOk srv cl a) : CliOk srv' cl a :=
  ⟨hc.reach, fun id hid => by rw [hp id hid]; exact hc.call id hid, hc.acked, hc.acc⟩

/-- a stream pair loses some of its content -/
theorem ChanOk.sub {srv : Sig.State} {cl : List Client} {ch ch' : Chan} (h : ChanOk srv cl ch)
    (hcall : ch'.call = ch.call) (h1 : ∀ r ∈ ch'.s2c, r ∈ ch.s2c) (h2 : ∀ r ∈ ch'.c2s, r ∈ ch.c2s) :
    ChanOk srv cl ch' := by
  refine ⟨?_, ?_, ?_, ?_, ?_⟩
  · rw [hcall]; exact h.ex
  · intro x y k hp hm; rw [hcall] at hp; exact h.ackS x y k hp (h1 _ hm)
  · intro x y e k hp hm; rw [hcall] at hp; exact h.ackC x y e k hp (h2 _ hm)
  · intro x y m hp hm; rw [hcall] at hp; exact h.recvS x y m hp (h1 _ hm)
  · intro x y e m hp hm; rw [hcall] at hp; exact h.sendC x y e m hp (h2 _ hm)

/-- the relay transmits a response -/
theorem ChanOk.addS {srv : Sig.State} {cl : List Client} {ch : Chan} (h : ChanOk srv cl ch) (r : Sig.Resp)
    (ha : ∀ x y k, callPair srv ch.call = some (x, y) → r = .ack k → Del cl x y k)
    (hr : ∀ x y m, callPair srv ch.call = some (x, y) → r = .recv m → Sent cl y x (toCliMsg m)) :
    ChanOk srv cl { ch with s2c := ch.s2c ++ [r] } := by
  refine ⟨h.ex, ?_, h.ackC, ?_, h.sendC⟩
  · intro x y k hp hm
    rcases List.mem_append.1 hm with hm | hm
    · exact h.ackS x y k hp hm
    · simp only [List.mem_singleton] at hm
      exact ha x y k hp hm.symm
  · intro x y m hp hm
    rcases List.mem_append.1 hm with hm | hm
    · exact h.recvS x y m hp hm
    · simp only [List.mem_singleton] at hm
      exact hr x y m hp hm.symm

/-- the client transmits a request -/
theorem ChanOk.addC {srv : Sig.State} {cl : List Client} {ch : Chan} (h : ChanOk srv cl ch) (r : SigC.Req)
    (ha : ∀ x y e k, callPair srv ch.call = some (x, y) → r = .ack e k → Del cl y x k)
    (hr : ∀ x y e m, callPair srv ch.call = some (x, y) → r = .send e m → Sent cl x y m) :
    ChanOk srv cl { ch with c2s := ch.c2s ++ [r] } := by
  refine ⟨h.ex, h.ackS, ?_, h.recvS, ?_⟩
  · intro x y e k hp hm
    rcases List.mem_append.1 hm with hm | hm
    · exact h.ackC x y e k hp hm
    · simp only [List.mem_singleton] at hm
      exact ha x y e k hp hm.symm
  · intro x y e m hp hm
    rcases List.mem_append.1 hm with hm | hm
    · exact h.sendC x y e m hp hm
    · simp only [List.mem_singleton] at hm
      exact hr x y e m hp hm.symm

/-! ### getters of the composed state -/

theorem getClient_some {s : State} {me peer : Nat} {c : Client} (h : getClient s me peer = some c) :
    c ∈ s.clients ∧ c.me = me ∧ c.peer = peer := by
  have h1 := List.find?_some h
  have h2 := List.mem_of_find?_eq_some h
  simp at h1
  exact ⟨h2, h1.1, h1.2⟩

theorem getClient_none {s : State} {me peer : Nat} (h : getClient s me peer = none) :
    ∀ a ∈ s.clients, ¬ (a.me = me ∧ a.peer = peer) := by
  intro a ha
  have := List.find?_eq_none.1 h a ha
  simpa using this

theorem getChan_some {s : State} {id : Nat} {ch : Chan} (h : getChan s id = some ch) :
    ch ∈ s.chans ∧ ch.call = id := by
  have h1 := List.find?_some h
  have h2 := List.mem_of_find?_eq_some h
  simp at h1
  exact ⟨h2, h1⟩

theorem mem_setClient {s : State} {c x : Client} (h : x ∈ (setClient s c).clients) :
    x = c ∨ x ∈ s.clients := by
  simp only [setClient, List.mem_map] at h
  obtain ⟨y, hy, rfl⟩ := h
  split
  · exact Or.inl rfl
  · exact Or.inr hy

theorem mem_setChan {s : State} {c x : Chan} (h : x ∈ (setChan s c).chans) :
    x = c ∨ x ∈ s.chans := by
  simp only [setChan, List.mem_map] at h
  obtain ⟨y, hy, rfl⟩ := h
  split
  · exact Or.inl rfl
  · exact Or.inr hy

/-- replacing the tracker record of one client by a later one -/
theorem setClient_facts {s : State} (hu : KeyUniq s.clients) {c c' : Client} (hc : c ∈ s.clients)
    (h1 : c'.me = c.me) (h2 : c'.peer = c.peer) (hle : StLe c.st c'.st) :
    CliLe s.clients (setClient s c').clients ∧ KeyUniq (setClient s c').clients ∧
      c' ∈ (setClient s c').clients := by
  refine ⟨?_, ?_, ?_⟩
  · intro a ha
    by_cases hk : a.me = c'.me ∧ a.peer = c'.peer
    · have : a = c := hu a ha c hc (hk.1.trans h1) (hk.2.trans h2)
      subst this
      refine ⟨c', ?_, h1, h2, hle⟩
      simp only [setClient, List.mem_map]
      exact ⟨a, ha, by simp [hk]⟩
    · refine ⟨a, ?_, rfl, rfl, StLe.refl _⟩
      simp only [setClient, List.mem_map]
      exact ⟨a, ha, by simp [hk]⟩
  · intro x hx y hy e1 e2
    simp only [setClient, List.mem_map] at hx hy
    obtain ⟨x0, hx0, rfl⟩ := hx
    obtain ⟨y0, hy0, rfl⟩ := hy
    by_cases hkx : x0.me = c'.me ∧ x0.peer = c'.peer <;> by_cases hky : y0.me = c'.me ∧ y0.peer = c'.peer
    · simp [hkx, hky]
    · simp only [hkx, hky, and_self, if_true, if_false] at e1 e2 ⊢
      exact absurd ⟨e1.symm, e2.symm⟩ hky
    · simp only [hkx, hky, and_self, if_true, if_false] at e1 e2 ⊢
      exact absurd ⟨e1, e2⟩ hkx
    · simp only [hkx, hky, if_false] at e1 e2 ⊢
      exact hu x0 hx0 y0 hy0 e1 e2
  · simp only [setClient, List.mem_map]
    exact ⟨c, hc, by simp [h1, h2]⟩

/-- one client moves on (its tracker state and/or its current call), nothing else changes -/
theorem inv_setClient {s : State} (hinv : Inv s) {c c' : Client} (hc : c ∈ s.clients)
    (h1 : c'.me = c.me) (h2 : c'.peer = c.peer) (hle : StLe c.st c'.st)
    (hok : CliLe s.clients (setClient s c').clients → c' ∈ (setClient s c').clients →
      CliOk s.srv (setClient s c').clients c') : Inv (setClient s c') := by
  obtain ⟨hcl, hu', hmem⟩ := setClient_facts hinv.uniq hc h1 h2 hle
  refine ⟨hinv.srv.mono hcl, ?_, fun ch hch => (hinv.chan ch hch).mono hcl, hu'⟩
  intro a ha
  rcases mem_setClient ha with rfl | ha
  · exact hok hcl hmem
  · exact (hinv.cli a ha).mono hcl

/-- the content of one stream pair changes -/
theorem inv_setChan {s : State} (hinv : Inv s) {ch' : Chan} (hok : ChanOk s.srv s.clients ch') :
    Inv (setChan s ch') := by
  refine ⟨hinv.srv, hinv.cli, ?_, hinv.uniq⟩
  intro ch hch
  rcases mem_setChan hch with rfl | hch
  · exact hok
  · exact hinv.chan ch hch

/-- the relay takes a step that is not a registration -/
theorem inv_setSrv {s : State} (hinv : Inv s) {srv' : Sig.State} {N : AccE → Prop}
    (hp : Pres (Del s.clients) N s.srv srv') (hr : Sig.Reachable srv')
    (hN : ∀ x, N x → ∃ p, callPair s.srv x.2.2.1 = some p ∧ Sent s.clients p.1 p.2 (toCliMsg x.2.2.2.1)) :
    Inv { s with srv := srv' } :=
  ⟨⟨hr, hp.ack hinv.srv.ack, MsgView_pres hp hinv.srv.msg hN⟩,
   fun a ha => (hinv.cli a ha).srv (fun id _ => hp.pair id), fun ch hch => (hinv.chan ch hch).srv (hp.pair _),
   hinv.uniq⟩

theorem inv_init : Inv {} := by
  refine ⟨⟨Sig.Reachable.init, ⟨by simp, by simp⟩, by intro x hx; simp at hx⟩, by simp, by simp, ?_⟩
  intro a ha
  simp at ha

/-- one step of a tracker, as seen by the composition -/
theorem cliOk_step {srv : Sig.State} {cl cl' : List Client} {c : Client} (hok : CliOk srv cl c)
    (hle : CliLe cl cl') (e : SigC.Ev) (hen : SigC.enabled c.st e = true)
    (hack : ∀ k, e = .ackMsg k → Del cl' c.me c.peer k)
    (hrecv : ∀ m v g, e = .recvMsg m v g → Sent cl' c.peer c.me m)
    (call' : Option Nat) (hcall : call' = c.call ∨ call' = none) :
    CliOk srv cl' { c with st := SigC.step c.st e, call := call' } := by
  refine ⟨SigC.Reachable.step e hok.reach hen, ?_, ?_, ?_⟩
  · intro id hid
    rcases hcall with h | h
    · exact hok.call id (h ▸ hid)
    · rw [h] at hid; cases hid
  · intro x hx
    rcases ackedLog_step c.st e x hx with h | ⟨k, he, hk⟩
    · exact (hok.acked x h).mono hle
    · rw [hk]; exact hack k he
  · intro x hx
    rcases accepted_step c.st e x hx with h | ⟨m, v, g, he, hm⟩
    · exact (hok.acc x h).mono hle
    · rw [hm]; exact hrecv m v g he

theorem cliOk_same {srv : Sig.State} {cl cl' : List Client} {c : Client} (hok : CliOk srv cl c)
    (hle : CliLe cl cl') : CliOk srv cl' { c with st := c.st } := hok.mono hle

theorem good_of {s : State} (hinv : Inv s) : SigSess.Good s.srv := SigSess.reachable_good hinv.srv.reach

end SigSys
end Bifrost
