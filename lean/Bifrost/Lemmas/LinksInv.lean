import Bifrost.Model.Links
import Bifrost.Lemmas.LinksBasic
/-! The refinement invariant between the link tables and the live-set spec. -/
namespace Bifrost
namespace Links

structure Inv (ops : List Op) (s : State) (sp : Spec) : Prop where
  links_eq : s.links = sp.live
  nd_uuid : (s.links.map (·.uuid)).Nodup
  nd_id : (s.links.map (·.id)).Nodup
  peer : ∀ x, x ∈ s.peerLinks ↔ x ∈ s.links
  hist : ∀ x ∈ s.links, x ∈ histLinks ops
  notself : ∀ x ∈ s.links, x.remote ≠ s.localPeer
  stopped : s.running = false → s.links = []
  closed : ∀ i, i ∈ s.closed ↔ i ∈ sp.closed
  running : s.running = sp.running
  localPeer : s.localPeer = sp.localPeer

theorem inv_init : Inv [] {} {} := by
  constructor <;> simp

theorem inv_start {ops : List Op} {s : State} {sp : Spec} (lp : Nat) (h : Inv ops s sp) :
    Inv (ops ++ [.start lp]) (step s (.start lp)) (specStep sp (.start lp)) := by
  obtain ⟨r, lp0, links, peers, cl⟩ := s
  obtain ⟨r', lp0', live, cl'⟩ := sp
  obtain ⟨h1, h2, h3, h4, h5, h6, h7, h8, h9, h10⟩ := h
  simp only at h1 h2 h3 h4 h5 h6 h7 h8 h9 h10
  subst h1 h9 h10
  cases r
  · have hl : links = [] := h7 rfl
    subst hl
    simp only [step, specStep]
    constructor <;> simp_all
  · simp only [step, specStep]
    constructor <;> simp_all
    intro x hx; exact mem_hist_snoc _ (h5 x hx)

theorem inv_shutdown {ops : List Op} {s : State} {sp : Spec} (h : Inv ops s sp) :
    Inv (ops ++ [.shutdown]) (step s .shutdown) (specStep sp .shutdown) := by
  have hl : (s.links.foldl flush s).links = [] := foldl_flush_self_links s
  have hp : (s.links.foldl flush s).peerLinks = [] :=
    foldl_flush_self_peerLinks s (fun x hx => (h.peer x).1 hx)
  constructor
  · simp only [step, specStep, hl]
  · simp only [step, hl]; exact List.nodup_nil
  · simp only [step, hl]; exact List.nodup_nil
  · intro x; simp only [step, hl, hp]
  · intro x hx; simp only [step, hl] at hx; cases hx
  · intro x hx; simp only [step, hl] at hx; cases hx
  · intro _; simp only [step, hl]
  · intro i
    simp only [step, specStep, foldl_flush_closed, List.mem_append, h.links_eq, h.closed]
  · simp only [step, specStep]
  · simp only [step, specStep]

theorem filter_uuid_eq_filter_id {links : List Link} {el : Link} (hel : el ∈ links)
    (hu : (links.map (·.uuid)).Nodup) (hi : (links.map (·.id)).Nodup) :
    links.filter (fun x => x.uuid ≠ el.uuid) = links.filter (fun x => x.id ≠ el.id) := by
  apply List.filter_congr
  intro x hx
  have a := inj_of_nodup_map (·.uuid) hu x hx el hel
  have b := inj_of_nodup_map (·.id) hi x hx el hel
  by_cases hxe : x = el
  · subst hxe; simp
  · have h1 : x.uuid ≠ el.uuid := fun e => hxe (a e)
    have h2 : x.id ≠ el.id := fun e => hxe (b e)
    simp [h1, h2]

theorem inv_mono {ops : List Op} {s : State} {sp : Spec} (op : Op) (h : Inv ops s sp) :
    Inv (ops ++ [op]) s sp :=
  { h with hist := fun x hx => mem_hist_snoc op (h.hist x hx) }

theorem inv_congr_spec {ops : List Op} {s : State} {sp sp' : Spec} (h : Inv ops s sp)
    (h1 : sp'.live = sp.live) (h2 : sp'.running = sp.running) (h3 : sp'.localPeer = sp.localPeer)
    (h4 : ∀ i, i ∈ sp'.closed ↔ i ∈ sp.closed) : Inv ops s sp' :=
  { h with
    links_eq := h.links_eq.trans h1.symm
    closed := fun i => (h.closed i).trans (h4 i).symm
    running := h.running.trans h2.symm
    localPeer := h.localPeer.trans h3.symm }

/-- Flushing a table entry removes exactly that link object. -/
theorem inv_flush {ops : List Op} {s : State} {sp : Spec} (h : Inv ops s sp) {el : Link}
    (hel : el ∈ s.links) :
    Inv ops (flush s el)
      { sp with live := sp.live.filter (fun x => x.id ≠ el.id), closed := el.id :: sp.closed } := by
  have hf := filter_uuid_eq_filter_id hel h.nd_uuid h.nd_id
  constructor
  · show (flush s el).links = sp.live.filter (fun x => x.id ≠ el.id)
    rw [flush_links, hf, h.links_eq]
  · exact nodup_map_filter _ _ h.nd_uuid
  · exact nodup_map_filter _ _ h.nd_id
  · intro x
    simp only [flush_links, flush_peerLinks, hf, List.mem_filter, h.peer]
  · intro x hx
    exact h.hist x (List.mem_filter.1 hx).1
  · intro x hx
    exact h.notself x (List.mem_filter.1 hx).1
  · intro hr
    have := h.stopped hr
    simp only [flush_links, this, List.filter_nil]
  · intro i
    simp only [flush_closed, List.mem_cons, h.closed]
  · exact h.running
  · exact h.localPeer

/-- Adding a fresh link to both tables. -/
theorem inv_add {ops : List Op} {s : State} {sp : Spec} (h : Inv ops s sp) {l : Link}
    (hr : s.running = true) (hself : l.remote ≠ s.localPeer)
    (hu : ∀ x ∈ s.links, x.uuid ≠ l.uuid) (hi : ∀ x ∈ s.links, x.id ≠ l.id) :
    Inv (ops ++ [.est l]) { s with links := l :: s.links, peerLinks := l :: s.peerLinks }
      { sp with live := l :: sp.live } := by
  constructor
  · simp only [h.links_eq]
  · simp only [List.map_cons, List.nodup_cons, List.mem_map, not_exists, not_and]
    exact ⟨fun x hx => hu x hx, h.nd_uuid⟩
  · simp only [List.map_cons, List.nodup_cons, List.mem_map, not_exists, not_and]
    exact ⟨fun x hx => hi x hx, h.nd_id⟩
  · intro x
    simp only [List.mem_cons, h.peer]
  · intro x hx
    rcases List.mem_cons.1 hx with rfl | hx
    · exact mem_hist_est _ _
    · exact mem_hist_snoc _ (h.hist x hx)
  · intro x hx
    rcases List.mem_cons.1 hx with rfl | hx
    · exact hself
    · exact h.notself x hx
  · intro hr'
    simp only at hr'
    rw [hr] at hr'
    cases hr'
  · exact h.closed
  · exact h.running
  · exact h.localPeer

theorem inv_close {ops : List Op} {s : State} {sp : Spec} (h : Inv ops s sp) (i : Nat) :
    Inv ops { s with closed := i :: s.closed } { sp with closed := i :: sp.closed } :=
  { h with closed := fun j => by simp only [List.mem_cons, h.closed] }

/-! ### `lost` -/

theorem step_lost_cases (s : State) (l : Link) :
    (∃ el ∈ s.links, el.id = l.id ∧ step s (.lost l) = flush s el) ∨
    ((∀ x ∈ s.links, x.id ≠ l.id) ∧ step s (.lost l) = s) := by
  simp only [step]
  split
  · rename_i el hlk
    split
    · rename_i hid
      exact Or.inl ⟨el, (lookup_some hlk).1, hid, rfl⟩
    · split
      · rename_i el' hf
        exact Or.inl ⟨el', (findId_some hf).1, (findId_some hf).2, rfl⟩
      · rename_i hf
        exact Or.inr ⟨findId_none hf, rfl⟩
  · split
    · rename_i el' hf
      exact Or.inl ⟨el', (findId_some hf).1, (findId_some hf).2, rfl⟩
    · rename_i hf
      exact Or.inr ⟨findId_none hf, rfl⟩

theorem specStep_lost_of_mem {sp : Spec} {l el : Link} (hel : el ∈ sp.live) (hid : el.id = l.id) :
    specStep sp (.lost l) =
      { sp with live := sp.live.filter (fun x => x.id ≠ l.id), closed := l.id :: sp.closed } := by
  have : sp.live.any (fun x => x.id = l.id) = true := by
    simp only [List.any_eq_true, decide_eq_true_eq]
    exact ⟨el, hel, hid⟩
  simp only [specStep, this, if_true]

theorem specStep_lost_of_not_mem {sp : Spec} {l : Link} (h : ∀ x ∈ sp.live, x.id ≠ l.id) :
    specStep sp (.lost l) = sp := by
  have : ¬ (sp.live.any (fun x => x.id = l.id) = true) := by
    simp only [List.any_eq_true, decide_eq_true_eq, not_exists, not_and]
    exact h
  simp [specStep, this]

theorem inv_lost {ops : List Op} {s : State} {sp : Spec} (l : Link) (h : Inv ops s sp) :
    Inv (ops ++ [.lost l]) (step s (.lost l)) (specStep sp (.lost l)) := by
  rcases step_lost_cases s l with ⟨el, hel, hid, hst⟩ | ⟨hno, hst⟩
  · rw [hst, specStep_lost_of_mem (h.links_eq ▸ hel) hid, ← hid]
    exact inv_mono _ (inv_flush h hel)
  · rw [hst, specStep_lost_of_not_mem (h.links_eq ▸ hno)]
    exact inv_mono _ h

/-! ### `est` -/

theorem specStep_est_closed {sp : Spec} {l : Link}
    (h : sp.running = false ∨ l.remote = sp.localPeer) :
    specStep sp (.est l) = { sp with closed := l.id :: sp.closed } := by
  have : (!sp.running) = true ∨ l.remote = sp.localPeer := by
    rcases h with h | h
    · left; simp [h]
    · right; exact h
  simp only [specStep, this, if_true]

theorem specStep_est_dup {sp : Spec} {l el : Link} (hr : sp.running = true)
    (hself : l.remote ≠ sp.localPeer) (hel : el ∈ sp.live) (hid : el.id = l.id) :
    specStep sp (.est l) = sp := by
  have h1 : ¬ ((!sp.running) = true ∨ l.remote = sp.localPeer) := by
    simp [hr, hself]
  have h2 : sp.live.any (fun x => x.id = l.id) = true := by
    simp only [List.any_eq_true, decide_eq_true_eq]
    exact ⟨el, hel, hid⟩
  simp only [specStep, h1, h2, if_true, if_false]

theorem specStep_est_fresh {sp : Spec} {l : Link} (hr : sp.running = true)
    (hself : l.remote ≠ sp.localPeer) (hno : ∀ x ∈ sp.live, x.id ≠ l.id) :
    specStep sp (.est l) =
      { sp with
        live := l :: sp.live.filter (fun x => x.uuid ≠ l.uuid)
        closed := (sp.live.filter (fun x => x.uuid = l.uuid)).map (·.id) ++ sp.closed } := by
  have h1 : ¬ ((!sp.running) = true ∨ l.remote = sp.localPeer) := by
    simp [hr, hself]
  have h2 : ¬ (sp.live.any (fun x => x.id = l.id) = true) := by
    simp only [List.any_eq_true, decide_eq_true_eq, not_exists, not_and]
    exact hno
  simp only [specStep, h1, h2, if_false, Bool.false_eq_true]

theorem step_est_closed {s : State} {l : Link}
    (h : s.running = false ∨ l.remote = s.localPeer) :
    step s (.est l) = { s with closed := l.id :: s.closed } := by
  rcases h with h | h
  · simp [step, h]
  · simp [step, h]

theorem step_est_dup {s : State} {l el : Link} (hr : s.running = true)
    (hself : l.remote ≠ s.localPeer) (hlk : lookup s l.uuid = some el) (hid : el.id = l.id) :
    step s (.est l) = s := by
  simp [step, hr, hself, hlk, hid]

theorem step_est_replace {s : State} {l el : Link} (hr : s.running = true)
    (hself : l.remote ≠ s.localPeer) (hlk : lookup s l.uuid = some el) (hid : el.id ≠ l.id) :
    step s (.est l) =
      { flush s el with links := l :: (flush s el).links, peerLinks := l :: (flush s el).peerLinks } := by
  simp [step, hr, hself, hlk, hid]

theorem step_est_new {s : State} {l : Link} (hr : s.running = true)
    (hself : l.remote ≠ s.localPeer) (hlk : lookup s l.uuid = none) :
    step s (.est l) = { s with links := l :: s.links, peerLinks := l :: s.peerLinks } := by
  simp [step, hr, hself, hlk]

theorem inv_est {ops : List Op} {s : State} {sp : Spec} (l : Link)
    (hwf : WFH (ops ++ [.est l])) (h : Inv ops s sp) :
    Inv (ops ++ [.est l]) (step s (.est l)) (specStep sp (.est l)) := by
  have K1 : ∀ x ∈ s.links, x.id = l.id → x = l := fun x hx hid =>
    hwf x (mem_hist_snoc _ (h.hist x hx)) l (mem_hist_est _ _) hid
  by_cases hc : s.running = false ∨ l.remote = s.localPeer
  · rw [step_est_closed hc, specStep_est_closed (h.running ▸ h.localPeer ▸ hc)]
    exact inv_mono _ (inv_close h _)
  · have hr : s.running = true := by
      cases hrr : s.running
      · exact absurd (Or.inl hrr) hc
      · rfl
    have hself : l.remote ≠ s.localPeer := fun e => hc (Or.inr e)
    have hr' : sp.running = true := h.running ▸ hr
    have hself' : l.remote ≠ sp.localPeer := h.localPeer ▸ hself
    cases hlk : lookup s l.uuid with
    | none =>
      have hu : ∀ x ∈ s.links, x.uuid ≠ l.uuid := lookup_none hlk
      have hi : ∀ x ∈ s.links, x.id ≠ l.id := fun x hx hid => hu x hx (K1 x hx hid ▸ rfl)
      rw [step_est_new hr hself hlk, specStep_est_fresh hr' hself' (h.links_eq ▸ hi)]
      refine inv_congr_spec (inv_add h hr hself hu hi) ?_ rfl rfl ?_
      · show l :: sp.live.filter (fun x => x.uuid ≠ l.uuid) = l :: sp.live
        rw [List.filter_eq_self.2]
        intro x hx
        simpa using hu x (h.links_eq ▸ hx)
      · intro i
        show i ∈ (sp.live.filter (fun x => x.uuid = l.uuid)).map (·.id) ++ sp.closed ↔ i ∈ sp.closed
        rw [List.filter_eq_nil_iff.2]
        · simp
        · intro x hx
          simpa using hu x (h.links_eq ▸ hx)
    | some el =>
      obtain ⟨hel, heu⟩ := lookup_some hlk
      by_cases hid : el.id = l.id
      · rw [step_est_dup hr hself hlk hid, specStep_est_dup hr' hself' (h.links_eq ▸ hel) hid]
        exact inv_mono _ h
      · have hi : ∀ x ∈ s.links, x.id ≠ l.id := by
          intro x hx hxid
          have hxl := K1 x hx hxid
          have : x = el := inj_of_nodup_map (·.uuid) h.nd_uuid x hx el hel (by rw [hxl, heu])
          exact hid (this ▸ hxid)
        have hf := filter_uuid_eq_filter_id hel h.nd_uuid h.nd_id
        rw [heu] at hf
        rw [step_est_replace hr hself hlk hid, specStep_est_fresh hr' hself' (h.links_eq ▸ hi)]
        have hI := inv_add (l := l) (inv_flush h hel) hr hself
          (by
            intro x hx
            have := (List.mem_filter.1 hx).2
            simpa [heu] using this)
          (fun x hx => hi x (List.mem_filter.1 hx).1)
        refine inv_congr_spec hI ?_ rfl rfl ?_
        · show l :: sp.live.filter (fun x => x.uuid ≠ l.uuid)
            = l :: sp.live.filter (fun x => x.id ≠ el.id)
          rw [← h.links_eq, hf]
        · intro i
          show i ∈ (sp.live.filter (fun x => x.uuid = l.uuid)).map (·.id) ++ sp.closed
            ↔ i ∈ el.id :: sp.closed
          simp only [List.mem_append, List.mem_map, List.mem_filter, decide_eq_true_eq,
            List.mem_cons]
          constructor
          · rintro (⟨x, ⟨hx, hxu⟩, rfl⟩ | hc)
            · left
              have : x = el := inj_of_nodup_map (·.uuid) h.nd_uuid x (h.links_eq ▸ hx) el hel
                (by rw [hxu, heu])
              rw [this]
            · exact Or.inr hc
          · rintro (rfl | hc)
            · exact Or.inl ⟨el, ⟨h.links_eq ▸ hel, heu⟩, rfl⟩
            · exact Or.inr hc

/-! ### The invariant holds after every well-formed history -/

theorem inv_step {ops : List Op} {s : State} {sp : Spec} (op : Op)
    (hwf : WFH (ops ++ [op])) (h : Inv ops s sp) :
    Inv (ops ++ [op]) (step s op) (specStep sp op) := by
  cases op with
  | start lp => exact inv_start lp h
  | shutdown => exact inv_shutdown h
  | est l => exact inv_est l hwf h
  | lost l => exact inv_lost l h

theorem inv_run (ops : List Op) : WFH ops → Inv ops (run ops) (specRun ops) := by
  induction ops using snoc_induction with
  | nil => intro _; exact inv_init
  | snoc ops op ih =>
    intro hwf
    rw [run_snoc, specRun_snoc]
    exact inv_step op hwf (ih (WFH_prefix hwf))

end Links
end Bifrost
