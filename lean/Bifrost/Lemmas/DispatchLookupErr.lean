import Bifrost.Lemmas.DispatchLookup
/-! C36: helper lemmas for the send loop with resolver errors (`runSync`), the directive a request
becomes, and the `CallRpcService` getter. -/
namespace Bifrost
namespace Dispatch

/-- The callback without its error list. -/
def EvE.toEv : EvE → Ev
  | .ev e => e
  | .idleErrs b _ => .idle b

theorem runFrom_append (s : St) (a b : List Ev) :
    runFrom s (a ++ b) = ((runFrom (runFrom s a).1 b).1, (runFrom s a).2 ++ (runFrom (runFrom s a).1 b).2) := by
  induction a generalizing s with
  | nil => simp [runFrom]
  | cons e rest ih =>
    simp only [List.cons_append, runFrom_cons, ih, List.append_assoc]

theorem step_idle_resIdle (s : St) (b : Bool) : (step s (.idle b)).1.resIdle = b := by
  unfold step
  by_cases h : (b == s.resIdle) = true
  · simp only [h, ↓reduceIte]
    exact (beq_iff_eq.mp h).symm
  · simp only [h, Bool.false_eq_true, ↓reduceIte]

theorem step_resIdle_of_ne (s : St) (e : Ev) (h : ∀ b, e ≠ .idle b) : (step s e).1.resIdle = s.resIdle := by
  cases e with
  | added id isSvc =>
    unfold step
    cases isSvc <;> simp
  | removed id =>
    unfold step
    by_cases hm : id ∈ s.vals <;> simp [hm]
  | idle b => exact absurd rfl (h b)

/-- A callback that is not "idle" leaves `resIdle = false` alone; "not idle" sets it to false. -/
theorem step_resIdle_false (s : St) (e : Ev) (hs : s.resIdle = false) (he : e ≠ .idle true) :
    (step s e).1.resIdle = false := by
  cases e with
  | idle b =>
    cases b
    · exact step_idle_resIdle s false
    · exact absurd rfl he
  | added id isSvc => rw [step_resIdle_of_ne s _ (by intro b; simp)]; exact hs
  | removed id => rw [step_resIdle_of_ne s _ (by intro b; simp)]; exact hs

theorem stepE_toEv (s : StE) (e : EvE) :
    (stepE s e).1.st = (step s.st e.toEv).1 ∧ (stepE s e).2 = (step s.st e.toEv).2 := by
  cases e <;> simp [stepE, EvE.toEv]

theorem stepE_ev (s : StE) (e : Ev) : stepE s (.ev e) = (⟨(step s.st e).1, s.resErr⟩, (step s.st e).2) := rfl

theorem fatal_none_of_resErr_none (s : StE) (h : s.resErr = none) : fatal s = none := by
  unfold fatal
  rw [h]
  by_cases hi : s.st.resIdle = true <;> simp [hi]

theorem fatal_none_of_busy (s : StE) (h : s.st.resIdle = false) : fatal s = none := by
  unfold fatal
  simp [h]

theorem fatal_none_of_canceled (s : StE) (h : s.resErr = some .canceled) : fatal s = none := by
  unfold fatal
  rw [h]
  by_cases hi : s.st.resIdle = true <;> simp [hi]

theorem fatal_other (s : StE) (n : Nat) (hi : s.st.resIdle = true) (h : s.resErr = some (.other n)) :
    fatal s = some (.other n) := by
  unfold fatal
  simp [hi, h]

/-- A history without resolver errors, from a state without one: the stream does not end and the
messages are those of the plain machine. -/
theorem runSync_append_noerr (pre : List Ev) : ∀ (s : StE) (rest : List EvE), s.resErr = none →
    runSync s (pre.map .ev ++ rest) =
      ((runFrom s.st pre).2 ++ (runSync ⟨(runFrom s.st pre).1, none⟩ rest).1,
       (runSync ⟨(runFrom s.st pre).1, none⟩ rest).2) := by
  induction pre with
  | nil =>
    intro s rest h
    cases s with
    | mk st re =>
      simp only at h
      subst h
      simp [runFrom]
  | cons e pre ih =>
    intro s rest h
    simp only [List.map_cons, List.cons_append]
    rw [runSync, stepE_ev]
    have hf : fatal ⟨(step s.st e).1, s.resErr⟩ = none := fatal_none_of_resErr_none _ h
    simp only [hf]
    rw [ih ⟨(step s.st e).1, s.resErr⟩ rest h, runFrom_cons]
    simp [List.append_assoc]

/-- The same while the directive is not idle (whatever `resErr` holds). -/
theorem runSync_append_busy (mid : List Ev) : ∀ (s : StE) (rest : List EvE), s.st.resIdle = false →
    (∀ e ∈ mid, e ≠ Ev.idle true) →
    (runFrom s.st mid).1.resIdle = false ∧
    runSync s (mid.map .ev ++ rest) =
      ((runFrom s.st mid).2 ++ (runSync ⟨(runFrom s.st mid).1, s.resErr⟩ rest).1,
       (runSync ⟨(runFrom s.st mid).1, s.resErr⟩ rest).2) := by
  induction mid with
  | nil =>
    intro s rest h _
    cases s
    simp_all [runFrom]
  | cons e mid ih =>
    intro s rest h hm
    have he : e ≠ Ev.idle true := hm e (by simp)
    have hm' : ∀ x ∈ mid, x ≠ Ev.idle true := fun x hx => hm x (by simp [hx])
    have hb : (step s.st e).1.resIdle = false := step_resIdle_false s.st e h he
    have := ih ⟨(step s.st e).1, s.resErr⟩ rest hb hm'
    simp only [List.map_cons, List.cons_append]
    rw [runSync, stepE_ev]
    have hf : fatal ⟨(step s.st e).1, s.resErr⟩ = none := fatal_none_of_busy _ hb
    simp only [hf]
    rw [runFrom_cons]
    refine ⟨this.1, ?_⟩
    rw [this.2]
    simp [List.append_assoc]

/-- Once `context.Canceled` is the recorded error, no test of the send loop ever fires again. -/
theorem runSync_canceled : ∀ (evs : List EvE) (s : StE), s.resErr = some .canceled → (runSync s evs).2 = none
  | [], _, _ => rfl
  | e :: rest, s, h => by
    have hk : (stepE s e).1.resErr = some .canceled := by
      cases e <;> simp [stepE, h]
    rw [runSync]
    simp only [fatal_none_of_canceled _ hk]
    exact runSync_canceled rest _ hk

/-- Up to its end the stream carries exactly the plain machine's reports. -/
theorem runSync_reports : ∀ (evs : List EvE) (s : StE),
    ((runSync s evs).2 = none → (runSync s evs).1 = (runFrom s.st (evs.map EvE.toEv)).2) ∧
    (runSync s evs).1 <+: (runFrom s.st (evs.map EvE.toEv)).2
  | [], s => by simp [runSync, runFrom]
  | e :: rest, s => by
    have hs := stepE_toEv s e
    have ih := runSync_reports rest (stepE s e).1
    rw [runSync]
    simp only [List.map_cons, runFrom_cons]
    cases hf : fatal (stepE s e).1 with
    | some err =>
      simp
    | none =>
      simp only
      rw [hs.2] at *
      rw [hs.1] at ih
      refine ⟨fun h => ?_, ?_⟩
      · rw [ih.1 h]
      · exact (List.prefix_append_right_inj _).mpr ih.2
