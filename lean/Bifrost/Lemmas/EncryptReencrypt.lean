import Bifrost.Lemmas.EncryptSealed
/-!
What someone who knows the plaintext can build: the per-message seed is a public function of
(context, message, recipient key), so they know the X25519 secret and can seal again — under a
different encoding `mp` of the message key (same Montgomery form) and/or a different compressed
form `c` of the message. Not code of the repository: the witness construction for
`C12.modified_rejected_false`.
-/
namespace Bifrost.Encrypt
open Bifrost Bifrost.Lo25519

def reencryptProg (tPub ctx msg : Bytes) (alter : Bytes → Bytes) (recompress : Bytes → Bytes) : Prog (Outcome Bytes) :=
  askE (.kdf (domSeed ++ ctx) (msg ++ tPub) 32) fun msgSeed =>
  askE (.edPub msgSeed) fun msgPub =>
  askE (.clamp msgSeed) fun msgX64 =>
  pubToX tPub fun t => orErr t fun tX =>
  askE (.x25519 (msgX64.take 32) tX) fun ss =>
  askE (.s2enc msg) fun cmsg =>
  let mp := alter msgPub
  askE (.kdf (domNonce ++ ctx) mp 32) fun h =>
  bindO (xorNonce h) fun nonce =>
  askE (.kdf (domPrefix ++ ctx) (tPub ++ nonce.take 4) 32) fun aesSeed =>
  askE (.blkEnc (aesSeed.take 32) (mp.take 16)) fun e16 =>
  askE (.seal ss nonce (recompress cmsg) mp) fun body =>
  .done (.ok (nonce.take 4 ++ e16 ++ mp.drop 16 ++ body))

def toySeed : Bytes := [1, 2, 3] ++ List.replicate 29 0
def toyPub : Bytes := 9 :: pad 31 [1, 2, 3]
def toyCtx : Bytes := [99]
def toyMsg : Bytes := [5, 6]

def okOr (o : Outcome Bytes) : Bytes := match o with | .ok b => b | _ => []

/-- the honest ciphertext in the toy instance -/
def toyCt : Bytes := okOr (encrypt toyPrims toyPub toyCtx toyMsg)
/-- the same message sealed again under an alias of the message key (first byte 8 instead of 9:
same toy "Montgomery form") -/
def toyCtAlias : Bytes :=
  okOr ((reencryptProg toyPub toyCtx toyMsg (fun mp => 8 :: mp.tail) id).run toyPrims)

end Bifrost.Encrypt
