import Bifrost.Lemmas.SigLive
/-!
Decidable forms of the state hypotheses of the C23 liveness theorem (`Live`, `FreshSide`,
`SendPending`), used to exhibit concrete reachable states in the non-vacuity examples of
`Props/C23Live.lean`.
-/
namespace Bifrost
namespace SigLive
open Bifrost.SigSys Bifrost.SigPair

def liveSideB (s : SigSys.State) (A B ia : Nat) : Bool :=
  (match getClient s A B with | some c => decide (c.call = some ia) | none => false) &&
  (match getChan s ia with | some ch => ch.open_ | none => false) &&
  (match Sig.getSCall s.srv ia with
   | some c => !c.ended && !c.failing && !c.readerDone && c.attached s.srv
   | none => false)

def liveB (s : SigSys.State) (A B ia ib : Nat) : Bool := liveSideB s A B ia && liveSideB s B A ib

theorem live_of_liveB {s : SigSys.State} {A B ia ib : Nat} (h : liveB s A B ia ib = true) : Live s A B ia ib := by
  simp only [liveB, liveSideB, Bool.and_eq_true] at h
  obtain ⟨⟨⟨a1, a2⟩, a3⟩, ⟨⟨b1, b2⟩, b3⟩⟩ := h
  refine ⟨?_, ?_, ?_, ?_, ?_, ?_⟩
  · cases hc : getClient s A B with
    | none => simp [hc] at a1
    | some c => exact ⟨c, rfl, by simpa [hc] using a1⟩
  · cases hc : getClient s B A with
    | none => simp [hc] at b1
    | some c => exact ⟨c, rfl, by simpa [hc] using b1⟩
  · cases hc : getChan s ia with
    | none => simp [hc] at a2
    | some c => exact ⟨c, rfl, by simpa [hc] using a2⟩
  · cases hc : getChan s ib with
    | none => simp [hc] at b2
    | some c => exact ⟨c, rfl, by simpa [hc] using b2⟩
  · cases hc : Sig.getSCall s.srv ia with
    | none => simp [hc] at a3
    | some c =>
      simp only [hc, Bool.and_eq_true, Bool.not_eq_true'] at a3
      exact ⟨c, rfl, a3.1.1.1, a3.1.1.2, a3.1.2, a3.2⟩
  · cases hc : Sig.getSCall s.srv ib with
    | none => simp [hc] at b3
    | some c =>
      simp only [hc, Bool.and_eq_true, Bool.not_eq_true'] at b3
      exact ⟨c, rfl, b3.1.1.1, b3.1.1.2, b3.1.2, b3.2⟩

def openedLe (n : Nat) : Sig.Resp → Bool
  | .opened e => decide (e ≤ n)
  | _ => true

def freshSideB (s : SigSys.State) (A B ia : Nat) : Bool :=
  match getClient s A B, getChan s ia, Sig.getSCall s.srv ia with
  | some c, some ch, some sc =>
    (match Sig.getSess s.srv sc.sess with
     | some t =>
       ch.c2s.all (fun r => decide (reqEpoch r ≤ t.seqno)) &&
       (match c.st.open_ with | some e => decide (e < t.seqno) | none => true) &&
       (match sc.announced with | some e => decide (e < t.seqno) | none => true) &&
       (ch.s2c ++ sc.outbox).all (openedLe t.seqno)
     | none => true)
  | _, _, _ => true

theorem freshSide_of_B {s : SigSys.State} {A B ia : Nat} (h : freshSideB s A B ia = true) : FreshSide s A B ia := by
  intro c ch sc t h1 h2 h3 h4
  simp only [freshSideB, h1, h2, h3, h4, Bool.and_eq_true, List.all_eq_true, decide_eq_true_eq] at h
  obtain ⟨⟨⟨a1, a2⟩, a3⟩, a4⟩ := h
  refine ⟨a1, ?_, ?_, ?_⟩
  · intro e he; simpa [he] using a2
  · intro e he; simpa [he] using a3
  · intro e he; simpa [openedLe] using a4 _ he

def sendPendingB (s : SigSys.State) (A B id : Nat) : Bool :=
  match getClient s A B with
  | some c => (match SigC.getSend c.st id with | some sc => sc.result.isNone | none => false)
  | none => false

theorem sendPending_of_B {s : SigSys.State} {A B id : Nat} (h : sendPendingB s A B id = true) :
    SendPending s A B id := by
  unfold sendPendingB at h
  cases hc : getClient s A B with
  | none => simp [hc] at h
  | some c =>
    cases hs : SigC.getSend c.st id with
    | none => simp [hc, hs] at h
    | some sc => exact ⟨c, hc, sc, hs, by simpa [hc, hs] using h⟩

/-- The F11 situation: tracker (1 → 2) has transmitted its message in epoch 2 and waits for the ack;
tracker (2 → 1) drops its stream and re-attaches (new relay call 3, session epoch 3). -/
def f11Trace : List SigSys.Ev :=
  [.newClient 1 2, .newClient 2 1, .connect 1 2, .connect 2 1,
   .srvLoop 1, .srvTx 1, .clientRx 1 2, .srvLoop 2, .srvTx 2, .clientRx 2 1,
   .sendStart 1 2 ⟨1, 1⟩, .sendStep 1 2 1, .clientTx 1 2,
   .disconnect 2 1, .connect 2 1]

/-! ### a concrete fair infinite execution (round robin from the F11 state) -/

/-- the internal actions of the pair (1 → 2, call 1) / (2 → 1, call 3), and the one pending `Send` -/
def rrActs : List SigSys.Ev :=
  [.sendStep 1 2 1, .recvStep 1 2, .recvStep 2 1, .clientTx 1 2, .clientTx 2 1, .clientRx 1 2, .clientRx 2 1,
   .srvRx 1, .srvRx 3, .srvLoop 1, .srvLoop 3, .srvTx 1, .srvTx 3]

def rrEv (n : Nat) : SigSys.Ev := rrActs.getD (n % 13) (.recvStep 1 2)

def rrRun : Nat → SigSys.State
  | 0 => run f11Trace
  | n + 1 => SigSys.step (rrRun n) (rrEv n)

theorem rr_exec : Temporal.IsExec SigSys.step rrRun rrEv := fun _ => rfl

theorem rr_infOften (i : Nat) (hi : i < 13) : Temporal.InfOften rrEv (rrActs.getD i (.recvStep 1 2)) := by
  intro n
  refine ⟨13 * n + i, by omega, ?_⟩
  unfold rrEv
  have : (13 * n + i) % 13 = i := by omega
  rw [this]

theorem rr_stable : StableFrom rrEv 1 2 1 3 0 := by
  intro n _
  unfold rrEv
  have h : n % 13 < 13 := Nat.mod_lt _ (by decide)
  generalize n % 13 = i at h
  have hc : i = 0 ∨ i = 1 ∨ i = 2 ∨ i = 3 ∨ i = 4 ∨ i = 5 ∨ i = 6 ∨ i = 7 ∨ i = 8 ∨ i = 9 ∨ i = 10 ∨ i = 11 ∨ i = 12 := by
    omega
  rcases hc with rfl | rfl | rfl | rfl | rfl | rfl | rfl | rfl | rfl | rfl | rfl | rfl | rfl <;>
    simp [rrActs, Stable]

theorem rr_noNew : NoNewSends rrEv 1 2 0 := by
  intro n _ m
  unfold rrEv
  have h : n % 13 < 13 := Nat.mod_lt _ (by decide)
  generalize n % 13 = i at h
  have : ∀ i, i < 13 → ∀ m, rrActs.getD i (.recvStep 1 2) ≠ .sendStart 1 2 m ∧
      rrActs.getD i (.recvStep 1 2) ≠ .sendStart 2 1 m := by
    intro i hi m
    have hc : i = 0 ∨ i = 1 ∨ i = 2 ∨ i = 3 ∨ i = 4 ∨ i = 5 ∨ i = 6 ∨ i = 7 ∨ i = 8 ∨ i = 9 ∨ i = 10 ∨ i = 11 ∨ i = 12 := by
      omega
    rcases hc with rfl | rfl | rfl | rfl | rfl | rfl | rfl | rfl | rfl | rfl | rfl | rfl | rfl <;>
      exact ⟨by simp [rrActs], by simp [rrActs]⟩
  exact this i h m

theorem rr_pendingA {id : Nat} (h : SendPending (rrRun 0) 1 2 id) : id = 1 := by
  obtain ⟨c, hc, sc, hsc, _⟩ := h
  have hc' : getClient (run f11Trace) 1 2 = some c := hc
  have : c.st.sends = [{ id := 1, msg := ⟨1, 1⟩, txed := true, sessEpoch := some 2, result := none }] := by
    have h2 : (getClient (run f11Trace) 1 2).map (·.st.sends) =
        some [{ id := 1, msg := ⟨1, 1⟩, txed := true, sessEpoch := some 2, result := none }] := by decide
    rw [hc'] at h2
    simpa using h2
  simp only [SigC.getSend, this, List.find?_cons, List.find?_nil] at hsc
  by_cases h1 : (1 : Nat) = id
  · exact h1.symm
  · simp [h1] at hsc

theorem rr_pendingB {id : Nat} (h : SendPending (rrRun 0) 2 1 id) : False := by
  obtain ⟨c, hc, sc, hsc, _⟩ := h
  have hc' : getClient (run f11Trace) 2 1 = some c := hc
  have : c.st.sends = [] := by
    have h2 : (getClient (run f11Trace) 2 1).map (·.st.sends) = some [] := by decide
    rw [hc'] at h2
    simpa using h2
  simp [SigC.getSend, this] at hsc

theorem rr_fair : Fair rrRun rrEv 1 2 1 3 0 where
  sendStepA := fun id h => by rw [rr_pendingA h]; exact rr_infOften 0 (by decide)
  sendStepB := fun id h => (rr_pendingB h).elim
  recvStepA := rr_infOften 1 (by decide)
  recvStepB := rr_infOften 2 (by decide)
  clientTxA := rr_infOften 3 (by decide)
  clientTxB := rr_infOften 4 (by decide)
  clientRxA := rr_infOften 5 (by decide)
  clientRxB := rr_infOften 6 (by decide)
  srvRxA := rr_infOften 7 (by decide)
  srvRxB := rr_infOften 8 (by decide)
  srvLoopA := rr_infOften 9 (by decide)
  srvLoopB := rr_infOften 10 (by decide)
  srvTxA := rr_infOften 11 (by decide)
  srvTxB := rr_infOften 12 (by decide)

end SigLive
end Bifrost
