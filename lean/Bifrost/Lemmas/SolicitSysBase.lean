import Bifrost.Model.SolicitSys
import Bifrost.Lemmas.Solicit
/-! Basic facts about the pieces of the two-sided solicitation model (`Bifrost.SolicitSys`). -/
namespace Bifrost.SolicitSys
open Bifrost Bifrost.Solicit

/-- sorted by the bytewise order -/
abbrev Srt (l : List Bytes) : Prop := l.Pairwise (fun a b => lexLt b a = false)

/-! ### sides -/

@[simp] theorem other_other (x : Side) : x.other.other = x := by cases x <;> rfl
@[simp] theorem other_ne (x : Side) : x.other ≠ x := by cases x <;> simp [Side.other]
@[simp] theorem ne_other (x : Side) : x ≠ x.other := by cases x <;> simp [Side.other]

theorem eq_or_other (x y : Side) : y = x ∨ y = x.other := by cases x <;> cases y <;> simp [Side.other]

@[simp] theorem node_setNode_self (st : State) (x : Side) (n : Node) : (st.setNode x n).node x = n := by
  cases x <;> rfl

@[simp] theorem node_setNode_other (st : State) (x : Side) (n : Node) :
    (st.setNode x n).node x.other = st.node x.other := by
  cases x <;> rfl

@[simp] theorem node_setNode_other' (st : State) (x : Side) (n : Node) :
    (st.setNode x.other n).node x = st.node x := by
  cases x <;> rfl

theorem node_setNode_ne (st : State) (x y : Side) (n : Node) (h : y ≠ x) :
    (st.setNode x n).node y = st.node y := by
  cases x <;> cases y <;> first | rfl | exact absurd rfl h

@[simp] theorem streams_setNode (st : State) (x : Side) (n : Node) : (st.setNode x n).streams = st.streams := by
  cases x <;> rfl

@[simp] theorem node_pushStream (st : State) (sr : Stream) (y : Side) : (st.pushStream sr).node y = st.node y := by
  cases y <;> rfl

@[simp] theorem streams_pushStream (st : State) (sr : Stream) : (st.pushStream sr).streams = st.streams ++ [sr] := rfl

@[simp] theorem remotePeer_other (c : Cfg) (x : Side) : c.remotePeer x.other = c.localPeer x := by
  simp [Cfg.remotePeer]

/-- Both sides compute the same session ID (`ComputeSessionID` sorts the two peers). -/
theorem sid_other (H : Bytes → Bytes) (c : Cfg) (x : Side) : c.sid H x.other = c.sid H x := by
  unfold Cfg.sid sessionID
  rw [remotePeer_other, Cfg.remotePeer, Solicit.sessionPreimage_comm]

theorem sid_eq (H : Bytes → Bytes) (c : Cfg) (x y : Side) : c.sid H x = c.sid H y := by
  rcases eq_or_other x y with rfl | rfl
  · rfl
  · exact (sid_other H c x).symm

theorem dirHash_side (H : Bytes → Bytes) (c : Cfg) (x y : Side) (d : Dir) :
    dirHash H c x d = dirHash H c y d := by
  unfold dirHash; rw [sid_eq H c x y]

/-- At most one side is the lower one. -/
theorem isLower_other (c : Cfg) (x : Side) (h : c.isLower x = true) : c.isLower x.other = false := by
  unfold Cfg.isLower at *
  rw [remotePeer_other]
  exact lexLt_asymm _ _ h

/-- With two different peer IDs exactly one side is the lower one. -/
theorem isLower_total (c : Cfg) (hne : c.pA ≠ c.pB) (x : Side) :
    c.isLower x = true ∨ c.isLower x.other = true := by
  cases h1 : c.isLower x with
  | true => exact Or.inl rfl
  | false =>
    cases h2 : c.isLower x.other with
    | true => exact Or.inr rfl
    | false =>
      exfalso
      unfold Cfg.isLower at h1 h2
      rw [remotePeer_other] at h2
      have := lexLt_trichotomy _ _ h1 h2
      cases x <;> simp [Cfg.localPeer, Cfg.remotePeer, Side.other] at this
      · exact hne this
      · exact hne this.symm

theorem count_eq_one_of_nodup_mem (l : List Bytes) (h : l.Nodup) (m : Bytes) (hm : m ∈ l) : l.count m = 1 := by
  induction l with
  | nil => cases hm
  | cons a t ih =>
    have ⟨hnot, ht⟩ := List.nodup_cons.mp h
    by_cases e : a = m
    · subst e
      have : t.count a = 0 := List.count_eq_zero.mpr hnot
      simp [this]
    · have hb : (a == m) = false := by simpa using e
      have hm' : m ∈ t := by
        rcases List.mem_cons.mp hm with h' | h'
        · exact absurd h'.symm e
        · exact h'
      simp [List.count_cons, hb]; exact ih ht hm'

/-! ### `fresh` -/

theorem mem_fresh (l : List Bytes) : ∀ (seen : List Bytes) (h : Bytes),
    h ∈ fresh seen l ↔ h ∈ l ∧ h ∉ seen := by
  induction l with
  | nil => intro seen h; simp [fresh]
  | cons a as ih =>
    intro seen h
    unfold fresh
    split
    · rw [ih]; grind
    · rw [List.mem_cons, ih]; grind

theorem fresh_nodup (l : List Bytes) : ∀ seen : List Bytes, (fresh seen l).Nodup := by
  induction l with
  | nil => intro seen; simp [fresh]
  | cons a as ih =>
    intro seen
    unfold fresh
    split
    · exact ih seen
    · rw [List.nodup_cons]
      refine ⟨?_, ih _⟩
      rw [mem_fresh]; simp

theorem nodup_append_fresh (seen l : List Bytes) (h : seen.Nodup) : (seen ++ fresh seen l).Nodup := by
  rw [List.nodup_append]
  refine ⟨h, fresh_nodup l seen, ?_⟩
  intro a ha b hb hab
  subst hab
  exact ((mem_fresh l seen a).mp hb).2 ha

/-! ### `evaluate` touches `matched` and `pendingOpen` only -/

@[simp] theorem evaluate_dirs (lo : Bool) (n : Node) : (evaluate lo n).dirs = n.dirs := rfl
@[simp] theorem evaluate_nextDir (lo : Bool) (n : Node) : (evaluate lo n).nextDir = n.nextDir := rfl
@[simp] theorem evaluate_sent (lo : Bool) (n : Node) : (evaluate lo n).sent = n.sent := rfl
@[simp] theorem evaluate_everSent (lo : Bool) (n : Node) : (evaluate lo n).everSent = n.everSent := rfl
@[simp] theorem evaluate_remote (lo : Bool) (n : Node) : (evaluate lo n).remote = n.remote := rfl
@[simp] theorem evaluate_inbox (lo : Bool) (n : Node) : (evaluate lo n).inbox = n.inbox := rfl
@[simp] theorem evaluate_arriving (lo : Bool) (n : Node) : (evaluate lo n).arriving = n.arriving := rfl
@[simp] theorem evaluate_resolved (lo : Bool) (n : Node) : (evaluate lo n).resolved = n.resolved := rfl
@[simp] theorem evaluate_recv (lo : Bool) (n : Node) : (evaluate lo n).recv = n.recv := rfl
@[simp] theorem evaluate_closed (lo : Bool) (n : Node) : (evaluate lo n).closed = n.closed := rfl

theorem evaluate_matched (lo : Bool) (n : Node) :
    (evaluate lo n).matched = n.matched ++ fresh n.matched (findMatching n.sent n.remote) := rfl

theorem evaluate_pending (lo : Bool) (n : Node) :
    (evaluate lo n).pendingOpen =
      if lo then n.pendingOpen ++ fresh n.matched (findMatching n.sent n.remote) else n.pendingOpen := rfl

theorem mem_evaluate_matched (lo : Bool) (n : Node) (h : Bytes) :
    h ∈ (evaluate lo n).matched ↔ h ∈ n.matched ∨ h ∈ findMatching n.sent n.remote := by
  rw [evaluate_matched, List.mem_append, mem_fresh]
  constructor
  · rintro (h1 | h1)
    · exact Or.inl h1
    · exact Or.inr h1.1
  · rintro (h1 | h1)
    · exact Or.inl h1
    · by_cases hm : h ∈ n.matched
      · exact Or.inl hm
      · exact Or.inr ⟨h1, hm⟩

/-! ### `resolveOn` -/

@[simp] theorem resolveOn_dirs (H : Bytes → Bytes) (c : Cfg) (x : Side) (n : Node) (h : Bytes) (s : Nat) :
    (resolveOn H c x n h s).dirs = n.dirs := rfl
@[simp] theorem resolveOn_nextDir (H : Bytes → Bytes) (c : Cfg) (x : Side) (n : Node) (h : Bytes) (s : Nat) :
    (resolveOn H c x n h s).nextDir = n.nextDir := rfl
@[simp] theorem resolveOn_sent (H : Bytes → Bytes) (c : Cfg) (x : Side) (n : Node) (h : Bytes) (s : Nat) :
    (resolveOn H c x n h s).sent = n.sent := rfl
@[simp] theorem resolveOn_everSent (H : Bytes → Bytes) (c : Cfg) (x : Side) (n : Node) (h : Bytes) (s : Nat) :
    (resolveOn H c x n h s).everSent = n.everSent := rfl
@[simp] theorem resolveOn_remote (H : Bytes → Bytes) (c : Cfg) (x : Side) (n : Node) (h : Bytes) (s : Nat) :
    (resolveOn H c x n h s).remote = n.remote := rfl
@[simp] theorem resolveOn_matched (H : Bytes → Bytes) (c : Cfg) (x : Side) (n : Node) (h : Bytes) (s : Nat) :
    (resolveOn H c x n h s).matched = n.matched := rfl
@[simp] theorem resolveOn_pendingOpen (H : Bytes → Bytes) (c : Cfg) (x : Side) (n : Node) (h : Bytes) (s : Nat) :
    (resolveOn H c x n h s).pendingOpen = n.pendingOpen := rfl
@[simp] theorem resolveOn_inbox (H : Bytes → Bytes) (c : Cfg) (x : Side) (n : Node) (h : Bytes) (s : Nat) :
    (resolveOn H c x n h s).inbox = n.inbox := rfl
@[simp] theorem resolveOn_arriving (H : Bytes → Bytes) (c : Cfg) (x : Side) (n : Node) (h : Bytes) (s : Nat) :
    (resolveOn H c x n h s).arriving = n.arriving := rfl
@[simp] theorem resolveOn_resolved (H : Bytes → Bytes) (c : Cfg) (x : Side) (n : Node) (h : Bytes) (s : Nat) :
    (resolveOn H c x n h s).resolved = n.resolved ++ [s] := rfl

theorem mem_resolveInst (H : Bytes → Bytes) (c : Cfg) (x : Side) (ds : List Inst) (hash : Bytes) (i : Inst) :
    i ∈ resolveInst H c x ds hash ↔ i ∈ ds ∧ admits i.d (c.view x) = true ∧ dirHash H c x i.d = hash := by
  simp [resolveInst, List.mem_filter]

/-- `resolveInst` is `Solicit.resolve` (the `resolveMatch` predicate of C30) on the directives. -/
theorem resolveInst_map (H : Bytes → Bytes) (c : Cfg) (x : Side) (ds : List Inst) (hash : Bytes) :
    (resolveInst H c x ds hash).map (·.d) = resolve H (c.sid H x) (ds.map (·.d)) (c.view x) hash := by
  unfold resolveInst resolve dirHash
  rw [List.filter_map]
  rfl

theorem mem_resolveOn_recv (H : Bytes → Bytes) (c : Cfg) (x : Side) (n : Node) (h : Bytes) (s : Nat)
    (r : Delivery) :
    r ∈ (resolveOn H c x n h s).recv ↔
      r ∈ n.recv ∨ ∃ i ∈ n.dirs, admits i.d (c.view x) = true ∧ dirHash H c x i.d = h ∧ r = ⟨i.id, i.d, s⟩ := by
  simp only [resolveOn, List.mem_append, List.mem_map, mem_resolveInst]
  constructor
  · rintro (h1 | ⟨i, ⟨hi, ha, hh⟩, rfl⟩)
    · exact Or.inl h1
    · exact Or.inr ⟨i, hi, ha, hh, rfl⟩
  · rintro (h1 | ⟨i, hi, ha, hh, rfl⟩)
    · exact Or.inl h1
    · exact Or.inr ⟨i, ⟨hi, ha, hh⟩, rfl⟩

theorem mem_resolveOn_closed (H : Bytes → Bytes) (c : Cfg) (x : Side) (n : Node) (h : Bytes) (s t : Nat) :
    t ∈ (resolveOn H c x n h s).closed ↔
      t ∈ n.closed ∨ (t = s ∧ ∀ i ∈ n.dirs, ¬ (admits i.d (c.view x) = true ∧ dirHash H c x i.d = h)) := by
  simp only [resolveOn]
  split
  · rename_i he
    have hne : ∀ i ∈ n.dirs, ¬ (admits i.d (c.view x) = true ∧ dirHash H c x i.d = h) := by
      intro i hi hc
      have : i ∈ resolveInst H c x n.dirs h := (mem_resolveInst ..).mpr ⟨hi, hc.1, hc.2⟩
      rw [List.isEmpty_iff] at he
      rw [he] at this
      cases this
    simp only [List.mem_append, List.mem_singleton]
    constructor
    · rintro (h1 | h1)
      · exact Or.inl h1
      · exact Or.inr ⟨h1, hne⟩
    · rintro (h1 | h1)
      · exact Or.inl h1
      · exact Or.inr h1.1
  · rename_i he
    constructor
    · exact Or.inl
    · rintro (h1 | ⟨_, h1⟩)
      · exact h1
      · exfalso
        apply he
        rw [List.isEmpty_iff, List.eq_nil_iff_forall_not_mem]
        intro i hi
        rw [mem_resolveInst] at hi
        exact h1 i hi.1 ⟨hi.2.1, hi.2.2⟩

/-! ### hash lists -/

theorem srt_take (l : List Bytes) (k : Nat) (h : Srt l) : Srt (l.take k) :=
  List.Pairwise.sublist (List.take_sublist k l) h

theorem hashList_sorted (H : Bytes → Bytes) (c : Cfg) (x : Side) (n : Node) : Srt (hashList H c x n) :=
  srt_take _ _ (sortHashes_sorted_perm _).1

/-- Without truncation the hash list holds exactly the offered hashes. -/
theorem mem_hashList_of_le (H : Bytes → Bytes) (c : Cfg) (x : Side) (n : Node)
    (hle : (offered H (c.sid H x) (n.dirs.map (·.d)) (c.view x)).length ≤ c.max x) (h : Bytes) :
    h ∈ hashList H c x n ↔ h ∈ offered H (c.sid H x) (n.dirs.map (·.d)) (c.view x) := by
  unfold hashList
  have hp := (sortHashes_sorted_perm (offered H (c.sid H x) (n.dirs.map (·.d)) (c.view x))).2
  rw [List.take_of_length_le (by rw [hp.length_eq]; exact hle)]
  exact hp.mem_iff

theorem mem_hashList (H : Bytes → Bytes) (c : Cfg) (x : Side) (n : Node) (h : Bytes)
    (hm : h ∈ hashList H c x n) : h ∈ offered H (c.sid H x) (n.dirs.map (·.d)) (c.view x) := by
  unfold hashList at hm
  exact (sortHashes_sorted_perm _).2.mem_iff.mp (List.mem_of_mem_take hm)

theorem hashList_length_le (H : Bytes → Bytes) (c : Cfg) (x : Side) (n : Node)
    : (hashList H c x n).length ≤ (offered H (c.sid H x) (n.dirs.map (·.d)) (c.view x)).length := by
  unfold hashList
  rw [List.length_take, (sortHashes_sorted_perm _).2.length_eq]
  exact Nat.min_le_right _ _

end Bifrost.SolicitSys
