import Bifrost.Model.Config
import Bifrost.Lemmas.Codec
/-! Helper lemmas for C38: the byte-lexicographic order, sort + compact, the peers map of
`ParsePeerAddressMap`, first-occurrence de-duplication, `strings.Cut`. -/
namespace Bifrost

/-! ### `lexLt` is a strict total order -/

theorem lexLt_irrefl : ∀ a : Bytes, lexLt a a = false
  | [] => rfl
  | x :: xs => by
    have : ¬ x < x := by simp
    simp [lexLt, this, lexLt_irrefl xs]

theorem lexLt_trans : ∀ a b c : Bytes, lexLt a b = true → lexLt b c = true → lexLt a c = true
  | [], [], _, h, _ => by simp [lexLt] at h
  | [], _ :: _, [], _, h => by simp [lexLt] at h
  | [], _ :: _, _ :: _, _, _ => by simp [lexLt]
  | _ :: _, [], _, h, _ => by simp [lexLt] at h
  | _ :: _, _ :: _, [], _, h => by simp [lexLt] at h
  | x :: xs, y :: ys, z :: zs, h1, h2 => by
    unfold lexLt at h1 h2 ⊢
    by_cases hxy : x < y
    · by_cases hyz : y < z
      · have : x < z := by
          rw [UInt8.lt_iff_toNat_lt] at hxy hyz ⊢; omega
        simp [this]
      · simp only [hyz, ↓reduceIte] at h2
        by_cases hzy : z < y
        · simp [hzy] at h2
        · have : y = z := by
            rw [UInt8.lt_iff_toNat_lt] at hyz hzy
            exact UInt8.toNat_inj.mp (by omega)
          subst this
          simp [hxy]
    · simp only [hxy, ↓reduceIte] at h1
      by_cases hyx : y < x
      · simp [hyx] at h1
      · have : x = y := by
          rw [UInt8.lt_iff_toNat_lt] at hxy hyx
          exact UInt8.toNat_inj.mp (by omega)
        subst this
        simp only [hyx, ↓reduceIte] at h1
        by_cases hxz : x < z
        · simp [hxz]
        · simp only [hxz, ↓reduceIte] at h2 ⊢
          by_cases hzx : z < x
          · simp [hzx] at h2
          · simp only [hzx, ↓reduceIte] at h2 ⊢
            exact lexLt_trans xs ys zs h1 h2

theorem lexLt_total : ∀ a b : Bytes, lexLt a b = false → lexLt b a = false → a = b
  | [], [], _, _ => rfl
  | [], _ :: _, h, _ => by simp [lexLt] at h
  | _ :: _, [], _, h => by simp [lexLt] at h
  | x :: xs, y :: ys, h1, h2 => by
    unfold lexLt at h1 h2
    by_cases hxy : x < y
    · simp [hxy] at h1
    · by_cases hyx : y < x
      · simp [hyx] at h2
      · simp only [hxy, hyx, ↓reduceIte] at h1 h2
        have : x = y := by
          rw [UInt8.lt_iff_toNat_lt] at hxy hyx
          exact UInt8.toNat_inj.mp (by omega)
        subst this
        rw [lexLt_total xs ys h1 h2]

theorem lexLt_asymm (a b : Bytes) (h : lexLt a b = true) : lexLt b a = false := by
  cases hb : lexLt b a with
  | false => rfl
  | true =>
    have := lexLt_trans a b a h hb
    rw [lexLt_irrefl] at this
    cases this

/-- `a < b` and `b ≤ c` give `a < c`. -/
theorem lexLt_of_lt_of_le (a b c : Bytes) (h1 : lexLt a b = true) (h2 : lexLt c b = false) :
    lexLt a c = true := by
  cases hac : lexLt a c with
  | true => rfl
  | false =>
    cases hca : lexLt c a with
    | true =>
      have := lexLt_trans c a b hca h1
      rw [h2] at this; cases this
    | false =>
      have := lexLt_total a c hac hca
      subst this
      rw [h1] at h2; cases h2

/-- `a ≤ b` and `b ≤ c` give `a ≤ c`. -/
theorem lexLe_trans (a b c : Bytes) (h1 : lexLt b a = false) (h2 : lexLt c b = false) :
    lexLt c a = false := by
  cases hca : lexLt c a with
  | false => rfl
  | true =>
    -- c < a, a ≤ b ⇒ c < b, contradiction
    have := lexLt_of_lt_of_le c a b hca h1
    rw [h2] at this; cases this

namespace Config
open Codec

/-! ### sort.Strings and slices.Compact -/

/-- non-strictly increasing -/
def SortedLe (l : List Bytes) : Prop := l.Pairwise (fun a b => lexLt b a = false)
/-- strictly increasing (hence duplicate-free) -/
def SortedLt (l : List Bytes) : Prop := l.Pairwise (fun a b => lexLt a b = true)

theorem SortedLt.nodup {l : List Bytes} (h : SortedLt l) : l.Nodup := by
  unfold SortedLt at h
  refine List.Pairwise.imp ?_ h
  intro a b hab heq
  subst heq
  rw [lexLt_irrefl] at hab
  cases hab

theorem mem_insertSorted (x y : Bytes) : ∀ l : List Bytes, y ∈ insertSorted x l ↔ y = x ∨ y ∈ l
  | [] => by simp [insertSorted]
  | z :: zs => by
    unfold insertSorted
    split
    · simp only [List.mem_cons, mem_insertSorted x y zs]
      constructor
      · rintro (h | h | h)
        · exact .inr (.inl h)
        · exact .inl h
        · exact .inr (.inr h)
      · rintro (h | h | h)
        · exact .inr (.inl h)
        · exact .inl h
        · exact .inr (.inr h)
    · simp

theorem sortedLe_insertSorted (x : Bytes) : ∀ l : List Bytes, SortedLe l → SortedLe (insertSorted x l)
  | [], _ => by simp [insertSorted, SortedLe]
  | z :: zs, h => by
    unfold SortedLe at h ⊢
    rw [List.pairwise_cons] at h
    unfold insertSorted
    split
    · rename_i hzx
      rw [List.pairwise_cons]
      refine ⟨?_, sortedLe_insertSorted x zs h.2⟩
      intro y hy
      rcases (mem_insertSorted x y zs).mp hy with rfl | hy
      · exact lexLt_asymm _ _ hzx
      · exact h.1 y hy
    · rename_i hzx
      have hzx' : lexLt z x = false := by simpa using hzx
      rw [List.pairwise_cons]
      refine ⟨?_, List.pairwise_cons.mpr h⟩
      intro y hy
      rcases List.mem_cons.mp hy with rfl | hy
      · exact hzx'
      · exact lexLe_trans x z y hzx' (h.1 y hy)

theorem mem_sortStrings (y : Bytes) : ∀ l : List Bytes, y ∈ sortStrings l ↔ y ∈ l
  | [] => by simp [sortStrings]
  | x :: xs => by
    unfold sortStrings
    rw [mem_insertSorted, mem_sortStrings y xs]
    simp

theorem sortedLe_sortStrings : ∀ l : List Bytes, SortedLe (sortStrings l)
  | [] => by simp [sortStrings, SortedLe]
  | x :: xs => by
    unfold sortStrings
    exact sortedLe_insertSorted x _ (sortedLe_sortStrings xs)

theorem mem_compact (y : Bytes) : ∀ l : List Bytes, y ∈ compact l ↔ y ∈ l
  | [] => by simp [compact]
  | [x] => by simp [compact]
  | x :: z :: rest => by
    unfold compact
    split
    · rename_i hxz
      subst hxz
      rw [mem_compact y (x :: rest)]
      simp
    · rw [List.mem_cons, mem_compact y (z :: rest)]
      simp

theorem sortedLt_compact : ∀ l : List Bytes, SortedLe l → SortedLt (compact l)
  | [], _ => by simp [compact, SortedLt]
  | [x], _ => by simp [compact, SortedLt]
  | x :: z :: rest, h => by
    unfold SortedLe at h
    rw [List.pairwise_cons] at h
    have ih := sortedLt_compact (z :: rest) h.2
    unfold compact
    split
    · exact ih
    · rename_i hxz
      unfold SortedLt
      rw [List.pairwise_cons]
      refine ⟨?_, ih⟩
      intro y hy
      have hy' := (mem_compact y (z :: rest)).mp hy
      -- x ≤ z, x ≠ z ⇒ x < z; z ≤ y ⇒ x < y
      have hzx : lexLt z x = false := h.1 z (by simp)
      have hxz' : lexLt x z = true := by
        cases hc : lexLt x z with
        | true => rfl
        | false => exact absurd (lexLt_total x z hc hzx) hxz
      rcases List.mem_cons.mp hy' with rfl | hyr
      · exact hxz'
      · have hzy : lexLt y z = false := (List.pairwise_cons.mp h.2).1 y hyr
        exact lexLt_of_lt_of_le x z y hxz' hzy

/-- `sort.Strings` then `slices.Compact`: strictly increasing, same members. -/
theorem sort_compact_spec (l : List Bytes) :
    SortedLt (compact (sortStrings l)) ∧ ∀ y, y ∈ compact (sortStrings l) ↔ y ∈ l :=
  ⟨sortedLt_compact _ (sortedLe_sortStrings l), fun y => by rw [mem_compact, mem_sortStrings]⟩

/-! ### the peers map -/

/-- The slice stored under key `p` (`[]` if the key is absent). -/
def valuesOf (m : List (Bytes × List Bytes)) (p : Bytes) : List Bytes :=
  match m.find? (fun kv => kv.1 = p) with
  | some kv => kv.2
  | none => []

def keysOf (m : List (Bytes × List Bytes)) : List Bytes := m.map (·.1)

theorem valuesOf_mapAppend (k v p : Bytes) : ∀ m : List (Bytes × List Bytes),
    valuesOf (mapAppend m k v) p = valuesOf m p ++ (if k = p then [v] else [])
  | [] => by
    unfold mapAppend valuesOf
    by_cases h : k = p <;> simp [h]
  | (k', vs) :: rest => by
    have ih := valuesOf_mapAppend k v p rest
    unfold mapAppend
    by_cases hk : k' = k
    · subst hk
      by_cases hp : k' = p
      · simp [valuesOf, hp]
      · simp [valuesOf, hp]
    · simp only [hk, ↓reduceIte]
      by_cases hp : k' = p
      · subst hp
        have hk' : ¬ k = k' := fun e => hk e.symm
        simp [valuesOf, hk']
      · unfold valuesOf at ih ⊢
        simp only [List.find?_cons, hp, decide_false]
        exact ih

theorem keysOf_mapAppend (k v : Bytes) : ∀ m : List (Bytes × List Bytes),
    keysOf (mapAppend m k v) = if k ∈ keysOf m then keysOf m else keysOf m ++ [k]
  | [] => by simp [mapAppend, keysOf]
  | (k', vs) :: rest => by
    have ih := keysOf_mapAppend k v rest
    unfold mapAppend
    by_cases hk : k' = k
    · subst hk; simp [keysOf]
    · have hk' : ¬ k = k' := fun h => hk h.symm
      simp only [hk, ↓reduceIte]
      unfold keysOf at ih ⊢
      simp only [List.map_cons, List.mem_cons, hk', false_or]
      rw [ih]
      split <;> simp

/-- Invariant of the map: keys are distinct and no stored slice is empty. -/
def MapOk (m : List (Bytes × List Bytes)) : Prop :=
  (keysOf m).Nodup ∧ ∀ p, p ∈ keysOf m ↔ valuesOf m p ≠ []

theorem mapOk_nil : MapOk [] := by
  constructor
  · simp [keysOf]
  · intro p; simp [keysOf, valuesOf]

theorem mapOk_mapAppend (m : List (Bytes × List Bytes)) (k v : Bytes) (h : MapOk m) :
    MapOk (mapAppend m k v) := by
  obtain ⟨hn, hv⟩ := h
  constructor
  · rw [keysOf_mapAppend]
    split
    · exact hn
    · rename_i hk
      rw [List.nodup_append]
      refine ⟨hn, by simp, ?_⟩
      intro a ha b hb
      simp only [List.mem_singleton] at hb
      subst hb
      intro hab; subst hab; exact hk ha
  · intro p
    rw [valuesOf_mapAppend, keysOf_mapAppend]
    by_cases hkp : k = p
    · subst hkp
      simp only [↓reduceIte]
      constructor
      · intro _; simp
      · intro _
        split
        · assumption
        · simp
    · simp only [hkp, ↓reduceIte, List.append_nil]
      rw [← hv p]
      split
      · rfl
      · simp only [List.mem_append, List.mem_singleton]
        constructor
        · rintro (h | h)
          · exact h
          · exact absurd h.symm hkp
        · intro h; exact .inl h

/-- The addresses the list gives for the peer whose ID text is `p`, in list order: the trimmed
address part of every well-formed entry whose trimmed peer-ID part decodes to that ID. -/
def given (l : List Bytes) (p : Bytes) : List Bytes :=
  l.filterMap fun e =>
    match parsePeerAddrEntry e with
    | .inr (k, v) => if k = p then some v else none
    | .inl _ => none

/-- Number of malformed entries. -/
def malformed (l : List Bytes) : Nat :=
  (l.filter fun e => match parsePeerAddrEntry e with | .inl _ => true | .inr _ => false).length

theorem peerAddrLoop_spec : ∀ (l : List Bytes) (m : List (Bytes × List Bytes)) (e : Nat), MapOk m →
    MapOk (peerAddrLoop l m e).1 ∧ (peerAddrLoop l m e).2 = e + malformed l ∧
    ∀ p, valuesOf (peerAddrLoop l m e).1 p = valuesOf m p ++ given l p
  | [], m, e, h => by simp [peerAddrLoop, given, malformed, h]
  | entry :: rest, m, e, h => by
    unfold peerAddrLoop
    cases hp : parsePeerAddrEntry entry with
    | inl b =>
      simp only
      obtain ⟨h1, h2, h3⟩ := peerAddrLoop_spec rest m (e + 1) h
      refine ⟨h1, ?_, ?_⟩
      · rw [h2]; simp [malformed, hp]; omega
      · intro p; rw [h3 p]; simp [given, hp]
    | inr kv =>
      obtain ⟨k, v⟩ := kv
      simp only
      obtain ⟨h1, h2, h3⟩ := peerAddrLoop_spec rest (mapAppend m k v) e (mapOk_mapAppend m k v h)
      refine ⟨h1, ?_, ?_⟩
      · rw [h2]; simp [malformed, hp]
      · intro p
        rw [h3 p, valuesOf_mapAppend]
        by_cases hk : k = p
        · simp [given, hp, hk]
        · simp [given, hp, hk]

theorem valuesOf_map (f : List Bytes → List Bytes) (hf : f [] = []) (p : Bytes) :
    ∀ m : List (Bytes × List Bytes), valuesOf (m.map fun kv => (kv.1, f kv.2)) p = f (valuesOf m p)
  | [] => by simp [valuesOf, hf]
  | (k, vs) :: rest => by
    have ih := valuesOf_map f hf p rest
    unfold valuesOf at ih ⊢
    by_cases hk : k = p
    · simp [hk]
    · simp only [List.map_cons, List.find?_cons, hk, decide_false]
      exact ih

theorem keysOf_map (f : List Bytes → List Bytes) (m : List (Bytes × List Bytes)) :
    keysOf (m.map fun kv => (kv.1, f kv.2)) = keysOf m := by
  unfold keysOf; simp [Function.comp_def]

/-! ### first-occurrence de-duplication -/

/-- Distinct elements in order of first occurrence. -/
def dedupFirst (l : List Bytes) : List Bytes := l.foldl appendUnique []

theorem appendUnique_nodup (acc : List Bytes) (p : Bytes) (h : acc.Nodup) : (appendUnique acc p).Nodup := by
  unfold appendUnique
  split
  · exact h
  · rename_i hc
    have hc' : p ∉ acc := by simpa using hc
    rw [List.nodup_append]
    refine ⟨h, by simp, ?_⟩
    intro a ha b hb
    simp only [List.mem_singleton] at hb
    subst hb
    intro hab; subst hab; exact hc' ha

theorem mem_appendUnique (acc : List Bytes) (p x : Bytes) : x ∈ appendUnique acc p ↔ x ∈ acc ∨ x = p := by
  unfold appendUnique
  split
  · rename_i hc
    have hc' : p ∈ acc := by simpa using hc
    constructor
    · exact .inl
    · rintro (h | rfl)
      · exact h
      · exact hc'
  · simp

theorem foldl_appendUnique_spec : ∀ (l acc : List Bytes), acc.Nodup →
    (l.foldl appendUnique acc).Nodup ∧ ∀ x, x ∈ l.foldl appendUnique acc ↔ x ∈ acc ∨ x ∈ l
  | [], acc, h => by simp [h]
  | p :: rest, acc, h => by
    obtain ⟨h1, h2⟩ := foldl_appendUnique_spec rest (appendUnique acc p) (appendUnique_nodup acc p h)
    refine ⟨h1, ?_⟩
    intro x
    rw [List.foldl_cons, h2 x, mem_appendUnique]
    simp only [List.mem_cons]
    constructor
    · rintro ((h | h) | h)
      · exact .inl h
      · exact .inr (.inl h)
      · exact .inr (.inr h)
    · rintro (h | h | h)
      · exact .inl (.inl h)
      · exact .inl (.inr h)
      · exact .inr h

theorem dedupFirst_spec (l : List Bytes) : (dedupFirst l).Nodup ∧ ∀ x, x ∈ dedupFirst l ↔ x ∈ l := by
  have := foldl_appendUnique_spec l [] (by simp)
  exact ⟨this.1, fun x => by rw [dedupFirst, this.2 x]; simp⟩

theorem protoUniqueLoop_eq : ∀ (l : List Bytes) (allow : Bool) (acc : List Bytes),
    parseProtocolIdsUniqueLoop l allow acc =
      (parseProtocolIds l allow).map (fun ps => ps.foldl appendUnique acc)
  | [], _, _ => by simp [parseProtocolIdsUniqueLoop, parseProtocolIds]
  | s :: rest, allow, acc => by
    unfold parseProtocolIdsUniqueLoop parseProtocolIds
    cases hp : parseProtocolId s allow with
    | none => simp
    | some p =>
      simp only
      rw [protoUniqueLoop_eq rest allow (appendUnique acc p)]
      cases parseProtocolIds rest allow <;> simp

/-! ### strings.Cut at `'|'` -/

theorem cutBar_spec : ∀ s : Bytes,
    (cutBar s).2.2 = true ∧ s = (cutBar s).1 ++ bar :: (cutBar s).2.1 ∧ bar ∉ (cutBar s).1 ∨
    (cutBar s).2.2 = false ∧ bar ∉ s
  | [] => by simp [cutBar]
  | a :: rest => by
    unfold cutBar
    by_cases ha : a = bar
    · subst ha; simp
    · simp only [ha, ↓reduceIte]
      rcases cutBar_spec rest with ⟨h1, h2, h3⟩ | ⟨h1, h2⟩
      · refine .inl ⟨h1, ?_, ?_⟩
        · simp only [List.cons_append]; rw [← h2]
        · simp only [List.mem_cons, not_or]; exact ⟨fun h => ha h.symm, h3⟩
      · refine .inr ⟨h1, ?_⟩
        simp only [List.mem_cons, not_or]; exact ⟨fun h => ha h.symm, h2⟩

theorem cutBar_append (t a : Bytes) (h : bar ∉ t) : cutBar (t ++ bar :: a) = (t, a, true) := by
  induction t with
  | nil => simp [cutBar]
  | cons x xs ih =>
    simp only [List.mem_cons, not_or] at h
    have hx : ¬ x = bar := fun e => h.1 e.symm
    simp only [List.cons_append, cutBar, hx, ↓reduceIte]
    rw [ih h.2]

end Config
end Bifrost
