import Bifrost.Lemmas.SigEpochA
import Bifrost.Lemmas.SigSys
import Bifrost.Lemmas.SigPairHalf
import Bifrost.Lemmas.SigPairSimA
/-!
Epoch bounds, composed system: the inductive invariant `ELe` (every epoch a tracker holds, that is
in flight on a stream pair, or that the relay announced, is at most the epoch of the session
tracker of the relay call concerned; a tracker without a call is closed) and the generic update
lemmas, with the tracker-side facts (`open_` is only written by `opened` / `close`).
-/
namespace Bifrost
namespace SigEpoch
open Bifrost.SigSys Bifrost.SigPair Bifrost.SigSysSrv

/-! ### which tracker steps write `open_` -/

theorem sendStep_open (s : SigC.State) (id : Nat) : (SigC.sendStep s id).open_ = s.open_ := by
  unfold SigC.sendStep
  split
  · rfl
  · split
    · rfl
    · split
      · rfl
      · simp only []
        repeat' split
        all_goals rfl

theorem sendCancel_open (s : SigC.State) (id : Nat) : (SigC.sendCancel s id).open_ = s.open_ := by
  unfold SigC.sendCancel
  repeat' split
  all_goals rfl

theorem recvStep_open (s : SigC.State) : (SigC.recvStep s).open_ = s.open_ := by
  unfold SigC.recvStep
  repeat' split
  all_goals rfl

theorem opened_open (s : SigC.State) (e : Nat) : (SigC.opened s e).open_ = some e := by
  unfold SigC.opened
  split
  · assumption
  · rfl

theorem ackMsg_open (s : SigC.State) (k : Nat) : (SigC.ackMsg s k).open_ = s.open_ := by
  unfold SigC.ackMsg
  repeat' split
  all_goals rfl

theorem clearMsg_open (s : SigC.State) (k : Nat) : (SigC.clearMsg s k).open_ = s.open_ := by
  unfold SigC.clearMsg
  repeat' split
  all_goals rfl

theorem recvMsg_open (s : SigC.State) (m : SigC.Msg) (v g : Bool) : (SigC.recvMsg s m v g).open_ = s.open_ := by
  unfold SigC.recvMsg
  repeat' split
  all_goals rfl

/-! ### the invariant -/

/-- the content of one stream pair is bounded by the epoch of its call's session tracker -/
def ChanLe (srv : Sig.State) (ch : Chan) : Prop :=
  (∀ r ∈ ch.c2s, Bnd srv ch.call (reqEpoch r)) ∧ (∀ e, Sig.Resp.opened e ∈ ch.s2c → Bnd srv ch.call e)

structure ELe (s : SigSys.State) : Prop where
  closed : ∀ c ∈ s.clients, c.call = none → c.st.open_ = none
  cli : ∀ c ∈ s.clients, ∀ id e, c.call = some id → c.st.open_ = some e → Bnd s.srv id e
  chan : ∀ ch ∈ s.chans, ChanLe s.srv ch
  srv : SrvLe s.srv

theorem ele_init : ELe {} := by
  refine ⟨by simp, by simp, by simp, ?_⟩
  intro id sc h
  simp [Sig.getSCall] at h

theorem ChanLe.mono {srv srv' : Sig.State} {ch : Chan} (hm : ∀ n, Bnd srv ch.call n → Bnd srv' ch.call n)
    (h : ChanLe srv ch) : ChanLe srv' ch :=
  ⟨fun r hr => hm _ (h.1 r hr), fun e he => hm _ (h.2 e he)⟩

/-- the relay takes a step that is not a registration -/
theorem ele_setSrv {s : SigSys.State} (h : ELe s) {srv' : Sig.State} (hm : Mono s.srv srv') :
    ELe { s with srv := srv' } :=
  ⟨h.closed, fun c hc id e h1 h2 => hm.bnd _ _ (h.cli c hc id e h1 h2),
   fun ch hch => (h.chan ch hch).mono (fun n => hm.bnd _ n), hm.le h.srv⟩

/-- one tracker record is rewritten -/
theorem ele_setClient {s : SigSys.State} (h : ELe s) {c' : Client} (h1 : c'.call = none → c'.st.open_ = none)
    (h2 : ∀ id e, c'.call = some id → c'.st.open_ = some e → Bnd s.srv id e) : ELe (setClient s c') := by
  refine ⟨?_, ?_, h.chan, h.srv⟩
  · intro c hc
    rcases mem_setClient hc with rfl | hc
    · exact h1
    · exact h.closed c hc
  · intro c hc
    rcases mem_setClient hc with rfl | hc
    · exact h2
    · exact h.cli c hc

/-- the content of one stream pair changes -/
theorem ele_setChan {s : SigSys.State} (h : ELe s) {ch' : Chan} (h1 : ChanLe s.srv ch') : ELe (setChan s ch') := by
  refine ⟨h.closed, h.cli, ?_, h.srv⟩
  intro ch hch
  rcases mem_setChan hch with rfl | hch
  · exact h1
  · exact h.chan ch hch

/-- a stream pair loses some of its content -/
theorem ChanLe.sub {srv : Sig.State} {ch ch' : Chan} (h : ChanLe srv ch) (hcall : ch'.call = ch.call)
    (h1 : ∀ r ∈ ch'.s2c, r ∈ ch.s2c) (h2 : ∀ r ∈ ch'.c2s, r ∈ ch.c2s) : ChanLe srv ch' := by
  refine ⟨fun r hr => ?_, fun e he => ?_⟩
  · rw [hcall]; exact h.1 r (h2 r hr)
  · rw [hcall]; exact h.2 e (h1 _ he)

/-- a tracker step that keeps `open_` and the call -/
theorem ele_setSt {s : SigSys.State} (h : ELe s) {c : Client} (hc : c ∈ s.clients) {st' : SigC.State}
    (ho : st'.open_ = c.st.open_) : ELe (setClient s { c with st := st' }) := by
  refine ele_setClient h ?_ ?_
  · intro hcall
    show st'.open_ = none
    rw [ho]; exact h.closed c hc hcall
  · intro id e hcall he
    have he' : st'.open_ = some e := he
    rw [ho] at he'
    exact h.cli c hc id e hcall he'

theorem ele_lift {s : SigSys.State} (h : ELe s) (me peer : Nat) (f : SigC.State → SigC.State)
    (hf : ∀ st, (f st).open_ = st.open_) : ELe (liftClient s me peer f) := by
  unfold liftClient
  split
  · rename_i c hc
    exact ele_setSt h (getClient_some hc).1 (hf _)
  · exact h

/-! ### the events that are not relay steps -/

theorem ele_newClient {s : SigSys.State} (h : ELe s) (me peer : Nat) : ELe (SigSys.step s (.newClient me peer)) := by
  simp only [SigSys.step]
  split
  · exact h
  · refine ⟨?_, ?_, h.chan, h.srv⟩
    · intro c hc hcall
      rcases List.mem_append.1 hc with hc | hc
      · exact h.closed c hc hcall
      · simp only [List.mem_singleton] at hc
        subst hc
        rfl
    · intro c hc id e h1 h2
      rcases List.mem_append.1 hc with hc | hc
      · exact h.cli c hc id e h1 h2
      · simp only [List.mem_singleton] at hc
        subst hc
        cases h1

theorem ele_sendStart {s : SigSys.State} (h : ELe s) (me peer : Nat) (m : SigC.Msg) :
    ELe (SigSys.step s (.sendStart me peer m)) := by
  simp only [SigSys.step]
  refine ele_lift h me peer _ ?_
  intro st
  split <;> rfl

theorem ele_sendStep {s : SigSys.State} (h : ELe s) (me peer id : Nat) : ELe (SigSys.step s (.sendStep me peer id)) := by
  simp only [SigSys.step]
  refine ele_lift h me peer _ ?_
  intro st
  split
  · exact sendStep_open st id
  · rfl

theorem ele_sendCancel {s : SigSys.State} (h : ELe s) (me peer id : Nat) :
    ELe (SigSys.step s (.sendCancel me peer id)) := by
  simp only [SigSys.step]
  refine ele_lift h me peer _ ?_
  intro st
  split
  · exact sendCancel_open st id
  · rfl

theorem ele_recvStep {s : SigSys.State} (h : ELe s) (me peer : Nat) : ELe (SigSys.step s (.recvStep me peer)) := by
  simp only [SigSys.step]
  exact ele_lift h me peer _ (fun st => recvStep_open st)

theorem ele_disconnect {s : SigSys.State} (h : ELe s) (me peer : Nat) : ELe (SigSys.step s (.disconnect me peer)) := by
  simp only [SigSys.step]
  split
  · rename_i c hc
    split
    · rename_i id hid
      have h1 : ELe (setClient s { c with st := SigC.step c.st .close, call := none }) :=
        ele_setClient h (fun _ => rfl) (fun id e hcall _ => by cases hcall)
      split
      · rename_i ch hch
        obtain ⟨hchm, _⟩ := getChan_some hch
        refine ele_setChan h1 ((h1.chan ch hchm).sub rfl ?_ (fun _ hr => hr))
        intro r hr
        simp at hr
      · exact h1
    · exact h
  · exact h

theorem ele_clientTx {s : SigSys.State} (h : ELe s) (me peer : Nat) : ELe (SigSys.step s (.clientTx me peer)) := by
  simp only [SigSys.step]
  split
  · rename_i c hc
    obtain ⟨hmem, _, _⟩ := getClient_some hc
    split
    · rename_i id hid
      rcases htx : SigC.txLoop c.st with ⟨st', req⟩
      simp only []
      have hst1 : (SigC.txLoop c.st).1 = st' := by rw [htx]
      have hreq : (SigC.txLoop c.st).2 = req := by rw [htx]
      have ho : st'.open_ = c.st.open_ := by rw [← hst1]; exact txLoop_open _
      have h1 : ELe (setClient s { c with st := st' }) := ele_setSt h hmem ho
      split
      · rename_i _ _ r ch hch
        obtain ⟨hchm, hchc⟩ := getChan_some hch
        have hco := h1.chan ch hchm
        refine ele_setChan h1 ⟨?_, hco.2⟩
        intro x hx
        rcases List.mem_append.1 hx with hx | hx
        · exact hco.1 x hx
        · simp only [List.mem_singleton] at hx
          subst hx
          have hep := txLoop_epoch hreq
          have hchc' : ch.call = id := hchc
          show Bnd s.srv ch.call (reqEpoch x)
          rw [hchc']
          exact h.cli c hmem id _ hid hep
      · exact h1
    · exact h
  · exact h

/-- the common part of `clientRx` -/
theorem ele_clientRx_core {s : SigSys.State} (h : ELe s) {c : Client} {ch : Chan} {rest : List Sig.Resp}
    {id : Nat} {st' : SigC.State} (hchm : ch ∈ s.chans) (hcall : c.call = some id)
    (hsub : ∀ r ∈ rest, r ∈ ch.s2c) (ho : ∀ e, st'.open_ = some e → Bnd s.srv id e) :
    ELe (setChan (setClient s { c with st := st' }) { ch with s2c := rest }) := by
  have h1 : ELe (setClient s { c with st := st' }) := by
    refine ele_setClient h ?_ ?_
    · intro hn
      have : c.call = none := hn
      rw [hcall] at this; cases this
    · intro id' e hc' he
      have : c.call = some id' := hc'
      rw [hcall] at this
      cases this
      exact ho e he
  exact ele_setChan h1 ((h1.chan ch hchm).sub rfl hsub (fun _ hr => hr))

theorem ele_clientRx {s : SigSys.State} (h : ELe s) (me peer : Nat) : ELe (SigSys.step s (.clientRx me peer)) := by
  simp only [SigSys.step]
  split
  · rename_i c hc
    obtain ⟨hmem, _, _⟩ := getClient_some hc
    split
    · rename_i id hid
      split
      · rename_i ch hch
        obtain ⟨hchm, hchc⟩ := getChan_some hch
        have hchc' : ch.call = id := hchc
        split
        · rename_i r rest hs2c
          have hsub : ∀ x ∈ rest, x ∈ ch.s2c := fun x hx => by rw [hs2c]; exact List.mem_cons_of_mem _ hx
          have hhead : r ∈ ch.s2c := by rw [hs2c]; exact List.mem_cons_self
          have hkeep : ∀ st' : SigC.State, st'.open_ = c.st.open_ → ∀ e, st'.open_ = some e → Bnd s.srv id e :=
            fun st' ho e he => h.cli c hmem id e hid (by rw [← ho]; exact he)
          cases r with
          | opened e =>
            refine ele_clientRx_core h hchm hid hsub ?_
            intro e' he'
            have : (SigC.opened c.st e).open_ = some e' := he'
            rw [opened_open] at this
            cases this
            have := (h.chan ch hchm).2 e hhead
            rw [hchc'] at this
            exact this
          | closed =>
            refine ele_clientRx_core h hchm hid hsub ?_
            intro e' he'
            cases he'
          | ack k => exact ele_clientRx_core h hchm hid hsub (hkeep _ (ackMsg_open _ _))
          | clear k => exact ele_clientRx_core h hchm hid hsub (hkeep _ (clearMsg_open _ _))
          | recv m => exact ele_clientRx_core h hchm hid hsub (hkeep _ (recvMsg_open _ _ _ _))
          | setPeer p => exact ele_clientRx_core h hchm hid hsub (hkeep _ rfl)
          | clearPeer p => exact ele_clientRx_core h hchm hid hsub (hkeep _ rfl)
        · exact h
      · exact h
    · exact h
  · exact h

end SigEpoch
end Bifrost
