import Bifrost.Lemmas.SigSysInv
/-! The invariant of the composed signaling system is preserved by every event. -/
namespace Bifrost
namespace SigSys
open Bifrost.SigSysSrv Bifrost.SigSysCli

theorem inv_newClient {s : State} (hinv : Inv s) (me peer : Nat) : Inv (step s (.newClient me peer)) := by
  simp only [step]
  split
  · exact hinv
  · rename_i h
    have hnone : getClient s me peer = none := by
      cases hg : getClient s me peer with
      | none => rfl
      | some c => exact absurd (Or.inl (by simp [hg])) h
    have hle : CliLe s.clients (s.clients ++ [{ me := me, peer := peer }]) :=
      fun a ha => ⟨a, List.mem_append_left _ ha, rfl, rfl, StLe.refl _⟩
    refine ⟨hinv.srv.mono hle, ?_, fun ch hch => (hinv.chan ch hch).mono hle, ?_⟩
    · intro a ha
      rcases List.mem_append.1 ha with ha | ha
      · exact (hinv.cli a ha).mono hle
      · simp only [List.mem_singleton] at ha
        subst ha
        exact ⟨SigC.Reachable.init, by simp, by simp, by simp⟩
    · intro a ha b hb e1 e2
      rcases List.mem_append.1 ha with ha | ha <;> rcases List.mem_append.1 hb with hb | hb
      · exact hinv.uniq a ha b hb e1 e2
      · simp only [List.mem_singleton] at hb
        subst hb
        exact absurd ⟨e1, e2⟩ (getClient_none hnone a ha)
      · simp only [List.mem_singleton] at ha
        subst ha
        exact absurd ⟨e1.symm, e2.symm⟩ (getClient_none hnone b hb)
      · simp only [List.mem_singleton] at ha hb
        rw [ha, hb]

theorem inv_srvEnd {s : State} (hinv : Inv s) (call : Nat) : Inv (step s (.srvEnd call)) := by
  simp only [step]
  split
  · rename_i hen
    exact inv_setSrv (N := fun _ => False) hinv (pres_sEnd call) (Sig.Reachable.step _ hinv.srv.reach hen)
      (fun _ h => h.elim)
  · exact hinv

theorem inv_srvLoop {s : State} (hinv : Inv s) (call : Nat) : Inv (step s (.srvLoop call)) := by
  simp only [step]
  split
  · rename_i hen
    exact inv_setSrv (N := fun _ => False) hinv (pres_sLoop (good_of hinv) call)
      (Sig.Reachable.step _ hinv.srv.reach hen) (fun _ h => h.elim)
  · exact hinv

/-- an application-side step of one tracker that does not read the stream -/
theorem inv_lift {s : State} (hinv : Inv s) (me peer : Nat) (e : SigC.Ev)
    (hq1 : ∀ k, e ≠ .ackMsg k) (hq2 : ∀ m v g, e ≠ .recvMsg m v g) :
    Inv (liftClient s me peer (fun st => if SigC.enabled st e = true then SigC.step st e else st)) := by
  unfold liftClient
  split
  · rename_i c hc
    obtain ⟨hmem, _, _⟩ := getClient_some hc
    have hok := hinv.cli c hmem
    by_cases hen : SigC.enabled c.st e = true
    · simp only [hen, if_true]
      refine inv_setClient hinv hmem rfl rfl (stLe_step hok.reach e) ?_
      intro hle _
      exact cliOk_step hok hle e hen (fun k he => absurd he (hq1 k)) (fun m v g he => absurd he (hq2 m v g))
        c.call (Or.inl rfl)
    · simp only [hen]
      exact inv_setClient hinv hmem rfl rfl (StLe.refl _) (fun hle _ => cliOk_same hok hle)
  · exact hinv

theorem inv_sendStart {s : State} (hinv : Inv s) (me peer : Nat) (m : SigC.Msg) :
    Inv (step s (.sendStart me peer m)) :=
  inv_lift hinv me peer (.sendStart m) (fun _ h => by cases h) (fun _ _ _ h => by cases h)

theorem inv_sendStep {s : State} (hinv : Inv s) (me peer id : Nat) :
    Inv (step s (.sendStep me peer id)) :=
  inv_lift hinv me peer (.sendStep id) (fun _ h => by cases h) (fun _ _ _ h => by cases h)

theorem inv_sendCancel {s : State} (hinv : Inv s) (me peer id : Nat) :
    Inv (step s (.sendCancel me peer id)) :=
  inv_lift hinv me peer (.sendCancel id) (fun _ h => by cases h) (fun _ _ _ h => by cases h)

theorem inv_recvStep {s : State} (hinv : Inv s) (me peer : Nat) :
    Inv (step s (.recvStep me peer)) := by
  have := inv_lift hinv me peer .recvStep (fun _ h => by cases h) (fun _ _ _ h => by cases h)
  simpa [step, SigC.enabled] using this

theorem inv_disconnect {s : State} (hinv : Inv s) (me peer : Nat) : Inv (step s (.disconnect me peer)) := by
  simp only [step]
  split
  · rename_i c hc
    obtain ⟨hmem, _, _⟩ := getClient_some hc
    have hok := hinv.cli c hmem
    split
    · rename_i id hid
      have h1 : Inv (setClient s { c with st := SigC.step c.st .close, call := none }) := by
        refine inv_setClient hinv hmem rfl rfl (stLe_step hok.reach .close) ?_
        intro hle _
        exact cliOk_step hok hle .close rfl (fun k he => by cases he) (fun m v g he => by cases he) none (Or.inr rfl)
      split
      · rename_i ch hch
        obtain ⟨hchm, _⟩ := getChan_some hch
        refine inv_setChan h1 ((h1.chan ch hchm).sub rfl ?_ (fun _ h => h))
        intro r hr
        simp at hr
      · exact h1
    · exact hinv
  · exact hinv

theorem inv_clientTx {s : State} (hinv : Inv s) (me peer : Nat) : Inv (step s (.clientTx me peer)) := by
  simp only [step]
  split
  · rename_i c hc
    obtain ⟨hmem, _, _⟩ := getClient_some hc
    have hok := hinv.cli c hmem
    split
    · rename_i id hid
      rcases htx : SigC.txLoop c.st with ⟨st', req⟩
      simp only []
      have hst : st' = SigC.step c.st .txLoop := by
        show st' = (SigC.txLoop c.st).1
        rw [htx]
      have hreq : (SigC.txLoop c.st).2 = req := by rw [htx]
      have hst1 : (SigC.txLoop c.st).1 = st' := by rw [htx]
      have hle0 : StLe c.st st' := by rw [hst]; exact stLe_step hok.reach .txLoop
      have hr' : SigC.Reachable st' := by rw [hst]; exact SigC.Reachable.step .txLoop hok.reach rfl
      have hfacts := setClient_facts (s := s) (c' := { c with st := st' }) hinv.uniq hmem rfl rfl hle0
      have h1 : Inv (setClient s { c with st := st' }) := by
        refine inv_setClient hinv hmem rfl rfl hle0 ?_
        intro hle _
        subst hst
        exact cliOk_step hok hle .txLoop rfl (fun k he => by cases he) (fun m v g he => by cases he) c.call (Or.inl rfl)
      have hpair := hok.call id hid
      split
      · rename_i _ _ r ch hch
        obtain ⟨hchm, hchc⟩ := getChan_some hch
        refine inv_setChan h1 ((h1.chan ch hchm).addC r ?_ ?_)
        · intro x y e k hp hr
          have hp' : callPair s.srv ch.call = some (x, y) := hp
          rw [hchc, hpair] at hp'
          simp only [Option.some.injEq, Prod.mk.injEq] at hp'
          obtain ⟨rfl, rfl⟩ := hp'
          subst hr
          have hem : SigC.Req.ack e k ∈ st'.emitted := by
            rw [← hst1]; exact txLoop_ack hreq
          obtain ⟨m, hm, hk⟩ := (SigClient.inv_of_reachable hr').ad e k hem
          exact ⟨_, hfacts.2.2, rfl, rfl, m, some e, hm, hk⟩
        · intro x y e m hp hr
          have hp' : callPair s.srv ch.call = some (x, y) := hp
          rw [hchc, hpair] at hp'
          simp only [Option.some.injEq, Prod.mk.injEq] at hp'
          obtain ⟨rfl, rfl⟩ := hp'
          subst hr
          have hout : c.st.out = some m := txLoop_send hreq
          obtain ⟨c0, hc0, hm0, _⟩ := (SigClient.inv_of_reachable hok.reach).k2 m hout
          obtain ⟨c1, hc1, hm1⟩ := hle0.snd c0 (SigClient.getSend_mem hc0)
          exact ⟨_, hfacts.2.2, rfl, rfl, c1, hc1, hm1.trans hm0⟩
      · exact h1
    · exact hinv
  · exact hinv

/-- the common part of `clientRx`: the tracker consumed the head of its stream -/
theorem inv_clientRx_core {s : State} (hinv : Inv s) {c c' : Client} {ch : Chan} {rest : List Sig.Resp}
    (hmem : c ∈ s.clients) (hchm : ch ∈ s.chans) (h1 : c'.me = c.me) (h2 : c'.peer = c.peer)
    (hle : StLe c.st c'.st) (hsub : ∀ r ∈ rest, r ∈ ch.s2c)
    (hok : CliLe s.clients (setClient s c').clients → CliOk s.srv (setClient s c').clients c') :
    Inv (setChan (setClient s c') { ch with s2c := rest }) := by
  have hs1 : Inv (setClient s c') := inv_setClient hinv hmem h1 h2 hle (fun h _ => hok h)
  exact inv_setChan hs1 ((hs1.chan ch hchm).sub rfl hsub (fun _ h => h))

theorem inv_clientRx {s : State} (hinv : Inv s) (me peer : Nat) : Inv (step s (.clientRx me peer)) := by
  simp only [step]
  split
  · rename_i c hc
    obtain ⟨hmem, _, _⟩ := getClient_some hc
    have hok := hinv.cli c hmem
    split
    · rename_i id hid
      have hpair := hok.call id hid
      split
      · rename_i ch hch
        obtain ⟨hchm, hchc⟩ := getChan_some hch
        have hcok := hinv.chan ch hchm
        have hp : callPair s.srv ch.call = some (c.me, c.peer) := by rw [hchc]; exact hpair
        split
        · rename_i r rest hs2c
          have hsub : ∀ x ∈ rest, x ∈ ch.s2c := fun x hx => by rw [hs2c]; exact List.mem_cons_of_mem _ hx
          have hhead : r ∈ ch.s2c := by rw [hs2c]; exact List.mem_cons_self
          cases r with
          | opened e =>
            exact inv_clientRx_core hinv hmem hchm rfl rfl (stLe_step hok.reach (.opened e)) hsub
              (fun hle => cliOk_step hok hle (.opened e) rfl (fun k he => by cases he) (fun m v g he => by cases he) c.call (Or.inl rfl))
          | closed =>
            exact inv_clientRx_core hinv hmem hchm rfl rfl (stLe_step hok.reach .close) hsub
              (fun hle => cliOk_step hok hle .close rfl (fun k he => by cases he) (fun m v g he => by cases he) c.call (Or.inl rfl))
          | ack k =>
            refine inv_clientRx_core hinv hmem hchm rfl rfl (stLe_step hok.reach (.ackMsg k)) hsub
              (fun hle => cliOk_step hok hle (.ackMsg k) rfl ?_ (fun m v g he => by cases he) c.call (Or.inl rfl))
            intro k' he
            cases he
            exact (hcok.ackS _ _ _ hp hhead).mono hle
          | clear k =>
            exact inv_clientRx_core hinv hmem hchm rfl rfl (stLe_step hok.reach (.clearMsg k)) hsub
              (fun hle => cliOk_step hok hle (.clearMsg k) rfl (fun k he => by cases he) (fun m v g he => by cases he) c.call (Or.inl rfl))
          | recv m =>
            refine inv_clientRx_core hinv hmem hchm rfl rfl (stLe_step hok.reach (.recvMsg (toCliMsg m) true true)) hsub
              (fun hle => cliOk_step hok hle (.recvMsg (toCliMsg m) true true) rfl (fun k he => by cases he) ?_ c.call (Or.inl rfl))
            intro m' v g he
            cases he
            exact (hcok.recvS _ _ _ hp hhead).mono hle
          | setPeer p =>
            exact inv_clientRx_core hinv hmem hchm rfl rfl (StLe.refl _) hsub (fun hle => cliOk_same hok hle)
          | clearPeer p =>
            exact inv_clientRx_core hinv hmem hchm rfl rfl (StLe.refl _) hsub (fun hle => cliOk_same hok hle)
        · exact hinv
      · exact hinv
    · exact hinv
  · exact hinv

theorem inv_srvRx {s : State} (hinv : Inv s) (call : Nat) : Inv (step s (.srvRx call)) := by
  simp only [step]
  split
  · rename_i ch sc hch hsc
    obtain ⟨hchm, hchc⟩ := getChan_some hch
    have hcok := hinv.chan ch hchm
    have hp : callPair s.srv ch.call = some (sc.src, sc.dst) := by rw [hchc]; exact callPair_of hsc
    split
    · rename_i r rest hc2s
      have hsub : ∀ x ∈ rest, x ∈ ch.c2s := fun x hx => by rw [hc2s]; exact List.mem_cons_of_mem _ hx
      have hhead : r ∈ ch.c2s := by rw [hc2s]; exact List.mem_cons_self
      have key : ∀ {N : AccE → Prop} {srv' : Sig.State}, Pres (Del s.clients) N s.srv srv' → Sig.Reachable srv' →
          (∀ x, N x → ∃ p, callPair s.srv x.2.2.1 = some p ∧ Sent s.clients p.1 p.2 (toCliMsg x.2.2.2.1)) →
          Inv (setChan { s with srv := srv' } { ch with c2s := rest }) := by
        intro N srv' hpres hreach hN
        have h1 := inv_setSrv hinv hpres hreach hN
        exact inv_setChan h1 ((h1.chan ch hchm).sub rfl (fun _ h => h) hsub)
      cases r with
      | ack e k =>
        simp only []
        split
        · rename_i hen
          have hr' := Sig.Reachable.step _ hinv.srv.reach hen
          refine key (N := fun _ => False) (pres_sAck (good_of hinv) call e k ?_) hr' (fun _ h => h.elim)
          intro d hd
          rw [hsc] at hd
          cases hd
          exact hcok.ackC _ _ e k hp hhead
        · exact hinv
      | clear e k =>
        simp only []
        split
        · rename_i hen
          have hr' := Sig.Reachable.step _ hinv.srv.reach hen
          exact key (N := fun _ => False) (pres_sClear call e k) hr' (fun _ h => h.elim)
        · exact hinv
      | send e m =>
        simp only []
        split
        · rename_i hen
          have hr' := Sig.Reachable.step _ hinv.srv.reach hen
          refine key (pres_sSend call e (toSrvMsg m) true sc.src) hr' ?_
          rintro x ⟨hx1, hx2⟩
          refine ⟨(sc.src, sc.dst), by rw [hx1]; exact callPair_of hsc, ?_⟩
          rw [hx2]
          exact hcok.sendC _ _ e m hp hhead
        · exact hinv
    · exact hinv
  · exact hinv

theorem inv_srvTx {s : State} (hinv : Inv s) (call : Nat) : Inv (step s (.srvTx call)) := by
  simp only [step]
  split
  · rename_i sc ch hsc hch
    obtain ⟨hchm, hchc⟩ := getChan_some hch
    split
    · rename_i r rest hout
      have hhead : r ∈ sc.outbox := by rw [hout]; exact List.mem_cons_self
      split
      · rename_i hen
        have hpres : Pres (Del s.clients) (fun _ => False) s.srv (Sig.step s.srv (.send_ call r)) := pres_sTx call r
        have h1 : Inv { s with srv := Sig.step s.srv (.send_ call r) } :=
          inv_setSrv hinv hpres (Sig.Reachable.step _ hinv.srv.reach hen) (fun _ h => h.elim)
        split
        · refine inv_setChan h1 ((h1.chan ch hchm).addS r ?_ ?_)
          · intro x y k hp hr
            have hp' : callPair (Sig.step s.srv (.send_ call r)) ch.call = some (x, y) := hp
            rw [hpres.pair, hchc, callPair_of hsc] at hp'
            simp only [Option.some.injEq, Prod.mk.injEq] at hp'
            obtain ⟨rfl, rfl⟩ := hp'
            subst hr
            exact outbox_ack hinv.srv.ack hsc hhead
          · intro x y m hp hr
            have hp' : callPair (Sig.step s.srv (.send_ call r)) ch.call = some (x, y) := hp
            rw [hpres.pair, hchc, callPair_of hsc] at hp'
            simp only [Option.some.injEq, Prod.mk.injEq] at hp'
            obtain ⟨rfl, rfl⟩ := hp'
            subst hr
            exact outbox_recv (good_of hinv) hinv.srv.msg hsc hhead
        · exact h1
      · exact hinv
    · exact hinv
  · exact hinv

theorem inv_connect {s : State} (hinv : Inv s) (me peer : Nat) : Inv (step s (.connect me peer)) := by
  simp only [step]
  split
  · rename_i c hc
    obtain ⟨hmem, hme, hpeer⟩ := getClient_some hc
    have hok := hinv.cli c hmem
    split
    · exact hinv
    · split
      · exact hinv
      · rename_i hen
        have hen' : Sig.enabled s.srv (.init s.nextCall me peer) = true := by simpa using hen
        have hfresh : Sig.getSCall s.srv s.nextCall = none := by
          simp only [Sig.enabled, Bool.and_eq_true, Option.isNone_iff_eq_none] at hen'
          exact hen'.1.1.1.1
        have hnopair : callPair s.srv s.nextCall = none := by simp [callPair, hfresh]
        have hspec : InitSpec (Del s.clients) s.srv s.nextCall me peer (Sig.step s.srv (.init s.nextCall me peer)) :=
          sInit_spec (good_of hinv) s.nextCall me peer hfresh
        have hpair : ∀ id, (callPair s.srv id).isSome = true →
            callPair (Sig.step s.srv (.init s.nextCall me peer)) id = callPair s.srv id := by
          intro id hid
          rw [hspec.1]
          have : id ≠ s.nextCall := by
            intro e; rw [e, hnopair] at hid; cases hid
          simp [this]
        have h1 : Inv { s with srv := Sig.step s.srv (.init s.nextCall me peer),
                               chans := s.chans ++ [{ call := s.nextCall }], nextCall := s.nextCall + 1 } := by
          refine ⟨⟨Sig.Reachable.step _ hinv.srv.reach hen', hspec.2.1 hinv.srv.ack,
            MsgView_init hspec hfresh hinv.srv.msg⟩, ?_, ?_, hinv.uniq⟩
          · intro a ha
            refine (hinv.cli a ha).srv ?_
            intro id hid
            exact hpair id (by rw [(hinv.cli a ha).call id hid]; rfl)
          · intro ch hch
            rcases List.mem_append.1 hch with hch | hch
            · exact (hinv.chan ch hch).srv (hpair _ (hinv.chan ch hch).ex)
            · simp only [List.mem_singleton] at hch
              subst hch
              refine ⟨?_, by simp, by simp, by simp, by simp⟩
              show (callPair (Sig.step s.srv (.init s.nextCall me peer)) s.nextCall).isSome = true
              rw [hspec.1]; simp
        refine inv_setClient h1 hmem rfl rfl (StLe.refl _) ?_
        intro hle _
        refine ⟨hok.reach, ?_, fun x hx => (hok.acked x hx).mono hle, fun x hx => (hok.acc x hx).mono hle⟩
        intro id hid
        simp only [Option.some.injEq] at hid
        subst hid
        show callPair (Sig.step s.srv (.init s.nextCall me peer)) s.nextCall = some (c.me, c.peer)
        rw [hspec.1, hme, hpeer]; simp
  · exact hinv

theorem inv_step {s : State} (hinv : Inv s) (e : Ev) : Inv (step s e) := by
  cases e with
  | newClient me peer => exact inv_newClient hinv me peer
  | connect me peer => exact inv_connect hinv me peer
  | disconnect me peer => exact inv_disconnect hinv me peer
  | srvEnd call => exact inv_srvEnd hinv call
  | sendStart me peer m => exact inv_sendStart hinv me peer m
  | sendStep me peer id => exact inv_sendStep hinv me peer id
  | sendCancel me peer id => exact inv_sendCancel hinv me peer id
  | recvStep me peer => exact inv_recvStep hinv me peer
  | clientTx me peer => exact inv_clientTx hinv me peer
  | clientRx me peer => exact inv_clientRx hinv me peer
  | srvRx call => exact inv_srvRx hinv call
  | srvLoop call => exact inv_srvLoop hinv call
  | srvTx call => exact inv_srvTx hinv call

theorem inv_of_reachable {s : State} (h : Reachable s) : Inv s := by
  induction h with
  | init => exact inv_init
  | step e _ ih => exact inv_step ih e

end SigSys
end Bifrost
