import Bifrost.Lemmas.SigRegEnd
/-! Registry-side invariants (C24, C25): the invariant holds in every reachable state. -/
namespace Bifrost
namespace SigReg
open Bifrost.Sig

theorem inv_init : Inv ({} : State) := by
  constructor <;> simp [getTkr, getSess, getSCall, getLCall, lookupPeer, lookupSess]

theorem inv_step {s : State} (hinv : Inv s) (e : Ev) (hen : enabled s e = true) : Inv (step s e) := by
  cases e with
  | init call src dst => exact sInit_inv hinv call src dst hen
  | send call ep m v g => exact sSend_inv hinv call ep m v g
  | ack call ep k => exact sAck_inv hinv call ep k
  | clear call ep k => exact sClear_inv hinv call ep k
  | loop call => exact sLoop_inv hinv call
  | send_ call r => exact sTx_inv hinv call r
  | end_ call => exact sEnd_inv hinv call hen
  | lreg call pid => exact lReg_inv hinv call pid hen
  | lloop call w n => exact lLoop_inv hinv call w n hen
  | lusurped call => exact lUsurped_inv hinv call
  | ltx call r => exact lTx_inv hinv call r
  | lend call => exact lEnd_inv hinv call

theorem inv_of_reachable {s : State} (h : Reachable s) : Inv s := by
  induction h with
  | init => exact inv_init
  | step e _ hen ih => exact inv_step ih e hen

theorem listenerOk_of_inv {s : State} (hinv : Inv s) (l : LCall) (hmem : l ∈ s.lcalls) : listenerOk s l = true := by
  have hl := mem_getLCall hinv.lcNd hmem
  obtain ⟨t, ht, hpid, _, _, hlis⟩ := hinv.lcTk _ _ hl
  unfold listenerOk LCall.current
  simp only [ht, Bool.or_eq_true, Bool.not_eq_eq_eq_not, Bool.not_true, decide_eq_false_iff_not, Bool.and_eq_true,
    decide_eq_true_eq]
  by_cases he : l.ended = true
  · simp [he]
  by_cases hcur : t.nonce = l.myNonce
  · have hL := hlis (by simpa using he) hcur.symm
    have := hinv.tkIn _ _ ht (Or.inl hL)
    rw [hpid] at this
    exact Or.inr ⟨this, hL⟩
  · exact Or.inl (Or.inr hcur)

theorem wanting_iff (s : State) (pid w : Nat) :
    wanting s pid w = true ↔ ∃ c ∈ s.scalls, c.ended = false ∧ c.src = w ∧ c.dst = pid ∧ Attd s c := by
  unfold wanting
  simp only [List.any_eq_true, Bool.and_eq_true, Bool.not_eq_eq_eq_not, Bool.not_true, decide_eq_true_eq, attached_iff]
  constructor
  · rintro ⟨c, hc, ⟨⟨h1, h2⟩, h3⟩, h4⟩; exact ⟨c, hc, h1, h2, h3, h4⟩
  · rintro ⟨c, hc, h1, h2, h3, h4⟩; exact ⟨c, hc, ⟨⟨h1, h2⟩, h3⟩, h4⟩

theorem wantsOk_of_inv {s : State} (hinv : Inv s) : wantsOk s = true := by
  unfold wantsOk
  rw [List.all_eq_true]
  rintro ⟨pid, tid⟩ hmem
  have hlk := mem_lookupPeer hinv.pmNd hmem
  obtain ⟨t, ht, hpid⟩ := hinv.pmTk _ _ hlk
  simp only [ht, Bool.and_eq_true, List.all_eq_true]
  constructor
  · intro w hw
    rw [wanting_iff]
    obtain ⟨i, c, hc, he, ha, hsw, hd⟩ := (hinv.wants _ _ w ht).1 hw
    obtain ⟨_, _, dt, hdt, hdp⟩ := hinv.scOk _ _ hc
    refine ⟨c, getSCall_mem hc, he, hsw, ?_, ha⟩
    rw [hd, ht] at hdt
    simp only [Option.some.injEq] at hdt
    subst hdt
    rw [← hdp, hpid]
  · intro c hc
    have hgc := mem_getSCall hinv.scNd hc
    simp only [Bool.or_eq_true, Bool.not_eq_eq_eq_not, Bool.not_true, Bool.and_eq_false_iff,
      decide_eq_false_iff_not, List.contains_eq_mem, decide_eq_true_eq]
    by_cases he : c.ended = true
    · simp [he]
    by_cases hd' : ¬ c.dst = pid
    · simp [hd']
    have hd : c.dst = pid := Decidable.not_not.1 hd'
    by_cases ha' : ¬ c.attached s = true
    · simp [ha']
    have ha : c.attached s = true := Decidable.not_not.1 ha'
    right
    obtain ⟨_, _, dt, hdt, hdp⟩ := hinv.scOk _ _ hgc
    have hsrc : c.src ∈ dt.wants :=
      (hinv.wants _ dt c.src hdt).2 ⟨c.id, c, hgc, by simpa using he, (attached_iff s c).1 ha, rfl, rfl⟩
    have := hinv.tkIn _ _ hdt (Or.inr (List.ne_nil_of_mem hsrc))
    rw [hdp, hd, hlk] at this
    simp only [Option.some.injEq] at this
    subst this
    rw [ht] at hdt
    simp only [Option.some.injEq] at hdt
    subst hdt
    exact hsrc

theorem listenQuiescentOk_of_inv {s : State} (hinv : Inv s) (l : LCall) (hmem : l ∈ s.lcalls) :
    listenQuiescentOk s l = true := by
  have hl := mem_getLCall hinv.lcNd hmem
  obtain ⟨t, ht, _⟩ := hinv.lcTk _ _ hl
  have hq := hinv.lcQ _ _ _ hl ht
  unfold listenQuiescentOk LCall.current LCall.isAwake LCall.awake
  simp only [ht, Bool.or_eq_true, Bool.not_eq_eq_eq_not, Bool.not_true, decide_eq_false_iff_not, Bool.and_eq_true,
    decide_eq_true_eq, List.all_eq_true, List.contains_eq_mem]
  by_cases he : l.ended = true
  · simp [he]
  by_cases hf : l.failing = true
  · simp [hf]
  by_cases hr : l.runnable = true
  · simp [hr]
  by_cases hg : l.waitGen < t.gen
  · simp [hg]
  have := hq (by simpa using he) (by simpa using hf) (by simpa using hr) (by omega)
  right
  exact ⟨fun w hw => (this.2 w).1 hw, fun w hw => (this.2 w).2 hw⟩

theorem attd_unique {s : State} (hinv : Inv s) {c c' : SCall} (hc : c ∈ s.scalls) (hc' : c' ∈ s.scalls)
    (ha : Attd s c) (ha' : Attd s c') (hs : c.src = c'.src) (hd : c.dst = c'.dst) : c.id = c'.id := by
  have hgc := mem_getSCall hinv.scNd hc
  have hgc' := mem_getSCall hinv.scNd hc'
  obtain ⟨_, ⟨t, ht, hk, _⟩, _⟩ := hinv.scOk _ _ hgc
  obtain ⟨_, ⟨t', ht', hk', _⟩, _⟩ := hinv.scOk _ _ hgc'
  obtain ⟨t0, ht0, ho⟩ := ha
  obtain ⟨t0', ht0', ho'⟩ := ha'
  rw [ht] at ht0; rw [ht'] at ht0'
  simp only [Option.some.injEq] at ht0 ht0'
  subst ht0 ht0'
  have e1 := hinv.ssIn _ _ _ _ ht ho
  have e2 := hinv.ssIn _ _ _ _ ht' ho'
  have hisA : c.isA = c'.isA := by simp [SCall.isA, hs, hd]
  rw [hk] at e1; rw [hk', ← hs, ← hd, e1] at e2
  simp only [Option.some.injEq] at e2
  rw [e2, ht'] at ht
  simp only [Option.some.injEq] at ht
  subst ht
  rw [hisA, ho'] at ho
  simpa using ho.symm

theorem uniqueOk_of_inv {s : State} (hinv : Inv s) : uniqueOk s = true := by
  unfold uniqueOk
  simp only [Bool.and_eq_true, List.all_eq_true, Bool.or_eq_true, Bool.not_eq_eq_eq_not, Bool.not_true,
    decide_eq_true_eq]
  constructor
  · intro l hl l' hl'
    by_cases h : (!l.ended && !l'.ended && l.current s && l'.current s && decide (l.pid = l'.pid) && decide (l.tkr = l'.tkr)) = true
    · right
      simp only [Bool.and_eq_true, Bool.not_eq_eq_eq_not, Bool.not_true, decide_eq_true_eq] at h
      obtain ⟨⟨⟨⟨⟨_, _⟩, hc⟩, hc'⟩, _⟩, htk⟩ := h
      have hg := mem_getLCall hinv.lcNd hl
      have hg' := mem_getLCall hinv.lcNd hl'
      obtain ⟨t, ht, _⟩ := hinv.lcTk _ _ hg
      simp only [LCall.current, ht, ← htk, decide_eq_true_eq] at hc hc'
      exact hinv.lcUniq _ _ _ _ hg hg' htk (by rw [← hc, ← hc'])
    · left; simpa using h
  · intro c hc c' hc'
    by_cases h : (!c.ended && !c'.ended && c.attached s && c'.attached s && decide (c.src = c'.src) && decide (c.dst = c'.dst)) = true
    · right
      simp only [Bool.and_eq_true, Bool.not_eq_eq_eq_not, Bool.not_true, decide_eq_true_eq, attached_iff] at h
      obtain ⟨⟨⟨⟨⟨_, _⟩, ha⟩, ha'⟩, hs⟩, hd⟩ := h
      exact attd_unique hinv hc hc' ha ha' hs hd
    · left; simpa using h

theorem replacedOk_of_inv {s : State} (hinv : Inv s) : replacedOk s = true := by
  unfold replacedOk
  simp only [Bool.and_eq_true, List.all_eq_true, Bool.or_eq_true]
  constructor
  · intro c hc
    have hg := mem_getSCall hinv.scNd hc
    obtain ⟨_, ⟨t, ht, _, _⟩, _⟩ := hinv.scOk _ _ hg
    have hr := hinv.scRepl _ _ _ hg ht
    by_cases he : c.ended = true
    · simp [he]
    by_cases hf : c.failing = true
    · simp [hf]
    by_cases ha : c.attached s = true
    · simp [ha]
    left; right
    have hna : oursCall t c.isA ≠ some c.id := by
      intro h; exact ha ((attached_iff s c).2 ⟨t, ht, h⟩)
    have := hr (by simpa using he) (by simpa using hf) hna
    simp [SCall.isAwake, ht, SCall.awake, this]
  · intro l hl
    have hg := mem_getLCall hinv.lcNd hl
    obtain ⟨t, ht, _⟩ := hinv.lcTk _ _ hg
    have hr := hinv.lcRepl _ _ _ hg ht
    by_cases he : l.ended = true
    · simp [he]
    by_cases hf : l.failing = true
    · simp [hf]
    by_cases hc : l.myNonce = t.nonce
    · left; left; right
      simp [LCall.current, ht, hc]
    left; right
    have := hr (by simpa using he) (by simpa using hf) hc
    simpa [LCall.isAwake, ht, LCall.awake] using this

theorem drained_of_inv {s : State} (hinv : Inv s)
    (hs : ∀ c ∈ s.scalls, c.ended = true) (hl : ∀ l ∈ s.lcalls, l.ended = true) :
    s.peerMap = [] ∧ s.sessMap = [] := by
  constructor
  · cases hpm : s.peerMap with
    | nil => rfl
    | cons a rest =>
      exfalso
      have hlk : lookupPeer s a.1 = some a.2 := by simp [lookupPeer, hpm]
      obtain ⟨t, ht, _⟩ := hinv.pmTk _ _ hlk
      rcases hinv.pmLive _ _ _ hlk ht with h | h
      · obtain ⟨i, l, hg, he, _⟩ := hinv.lsnr _ _ ht h
        have := hl _ (getLCall_mem hg)
        rw [this] at he; simp at he
      · obtain ⟨w, hw⟩ := List.exists_mem_of_ne_nil _ h
        obtain ⟨i, c, hg, he, _⟩ := (hinv.wants _ _ w ht).1 hw
        have := hs _ (getSCall_mem hg)
        rw [this] at he; simp at he
  · cases hsm : s.sessMap with
    | nil => rfl
    | cons a rest =>
      exfalso
      have hlk : lookupSess s a.1 = some a.2 := by simp [lookupSess, hsm]
      obtain ⟨t, ht, _⟩ := hinv.smSs _ _ hlk
      obtain ⟨isA, cid, ho⟩ := hinv.smLive _ _ _ hlk ht
      obtain ⟨c, hg, _, _, he⟩ := hinv.attC _ _ _ _ ht ho
      have := hs _ (getSCall_mem hg)
      rw [this] at he; simp at he

theorem quiescent_exact_of_inv {s : State} (hinv : Inv s) (l : LCall) (hl : l ∈ s.lcalls)
    (hrun : l.ended = false ∧ l.failing = false) (hcur : l.current s = true)
    (hq : l.isAwake s = false) (_hout : l.outbox = []) (w : Nat) :
    w ∈ l.sentWant ↔ wanting s l.pid w = true := by
  have hg := mem_getLCall hinv.lcNd hl
  obtain ⟨t, ht, hpid, _, hwg, hlis⟩ := hinv.lcTk _ _ hg
  simp only [LCall.current, ht, decide_eq_true_eq] at hcur
  simp only [LCall.isAwake, ht, LCall.awake, Bool.or_eq_false_iff, decide_eq_false_iff_not] at hq
  have hQ := (hinv.lcQ _ _ _ hg ht hrun.1 hrun.2 hq.1 (by omega)).2
  have hL := hlis hrun.1 hcur.symm
  have hlk := hinv.tkIn _ _ ht (Or.inl hL)
  rw [hpid] at hlk
  rw [hQ w, wanting_iff]
  constructor
  · intro hw
    obtain ⟨i, c, hc, he, ha, hsw, hd⟩ := (hinv.wants _ _ w ht).1 hw
    obtain ⟨_, _, dt, hdt, hdp⟩ := hinv.scOk _ _ hc
    refine ⟨c, getSCall_mem hc, he, hsw, ?_, ha⟩
    rw [hd, ht] at hdt
    simp only [Option.some.injEq] at hdt
    subst hdt
    rw [← hdp, hpid]
  · rintro ⟨c, hc, he, hsw, hd, ha⟩
    have hgc := mem_getSCall hinv.scNd hc
    obtain ⟨_, _, dt, hdt, hdp⟩ := hinv.scOk _ _ hgc
    have hsrc : c.src ∈ dt.wants := (hinv.wants _ dt c.src hdt).2 ⟨c.id, c, hgc, he, ha, rfl, rfl⟩
    have := hinv.tkIn _ _ hdt (Or.inr (List.ne_nil_of_mem hsrc))
    rw [hdp, hd, hlk] at this
    simp only [Option.some.injEq] at this
    rw [← this, ht] at hdt
    simp only [Option.some.injEq] at hdt
    subst hdt
    rw [← hsw]; exact hsrc

theorem replaced_session_errors_aux (s : State) (c : SCall) (t : Sess)
    (hc : getSCall s c.id = some c) (ht : getSess s c.sess = some t)
    (hrep : c.attached s = false) :
    ∃ c', getSCall (sLoop s c.id) c.id = some c' ∧ c'.failing = true ∧ c'.outbox = c.outbox := by
  simp only [SCall.attached, SCall.oursOther, ht] at hrep
  unfold sLoop
  simp only [hc, ht]
  cases hs : t.sides c.isA with
  | mk oursO otherO =>
  rw [hs] at hrep
  simp only [] at hrep ⊢
  cases oursO with
  | none => simp [hc]
  | some o =>
    have : (o.call != c.id) = true := by simpa using hrep
    simp [this, hc]

/-- `listener_step_enabled` needs `0` (the "no choice" label) not to be a peer id. -/
theorem listener_step_enabled_aux (s : State) (l : LCall) (t : Tkr)
    (hl : getLCall s l.id = some l) (ht : getTkr s l.tkr = some t)
    (hrun : l.ended = false ∧ l.failing = false) (hcur : t.nonce = l.myNonce)
    (haw : l.awake t = true) (hout : l.outbox = [])
    (h0w : 0 ∉ t.wants) (h0s : 0 ∉ l.sentWant) :
    ∃ w n, enabled s (.lloop l.id w n) = true := by
  refine ⟨(t.wants.filter (· ∉ l.sentWant)).head?.getD 0, (l.sentWant.filter (· ∉ t.wants)).head?.getD 0, ?_⟩
  simp only [enabled, hl, ht, hrun.1, hrun.2, hout, haw, lLoop, hcur]
  generalize hcw : t.wants.filter (· ∉ l.sentWant) = cw
  generalize hcn : l.sentWant.filter (· ∉ t.wants) = cn
  have h1 : (if cw.head?.getD 0 = 0 then cw = [] else cw.head?.getD 0 ∈ cw) := by
    cases cw with
    | nil => simp
    | cons a r =>
      have : a ∈ t.wants := by
        have : a ∈ List.filter (· ∉ l.sentWant) t.wants := by rw [hcw]; simp
        exact (List.mem_filter.1 this).1
      have : a ≠ 0 := fun h => h0w (h ▸ this)
      simp [this]
  have h2 : (if cn.head?.getD 0 = 0 then cn = [] else cn.head?.getD 0 ∈ cn) := by
    cases cn with
    | nil => simp
    | cons a r =>
      have : a ∈ l.sentWant := by
        have : a ∈ List.filter (· ∉ t.wants) l.sentWant := by rw [hcn]; simp
        exact (List.mem_filter.1 this).1
      have : a ≠ 0 := fun h => h0s (h ▸ this)
      simp [this]
  simp
  exact ⟨h1, h2⟩

end SigReg
end Bifrost
