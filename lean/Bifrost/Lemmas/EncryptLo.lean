import Bifrost.Model.Lo25519
/-! Lemmas about the `IsEdLowOrder` model (any table whose rows have 32 bytes). -/
namespace Bifrost.Lo25519

theorem u8_or_eq_zero (a b : UInt8) : a ||| b = 0 ↔ a = 0 ∧ b = 0 := by
  constructor
  · intro h
    have := congrArg UInt8.toBitVec h
    simp at this
    constructor
    · apply UInt8.toBitVec_inj.mp; simp; bv_omega
    · apply UInt8.toBitVec_inj.mp; simp; bv_omega
  · rintro ⟨rfl, rfl⟩; rfl

theorem u8_xor_eq_zero (a b : UInt8) : a ^^^ b = 0 ↔ a = b := by
  simp

/-- The accumulator of one row stays zero exactly when all compared bytes agree. -/
theorem accXor_eq_zero : ∀ (g r : Bytes) (c : UInt8), g.length = r.length →
    (accXor g r c = 0 ↔ c = 0 ∧ g = r) := by
  intro g
  induction g with
  | nil =>
    intro r c h
    cases r with
    | nil => simp [accXor]
    | cons _ _ => simp at h
  | cons a g ih =>
    intro r c h
    cases r with
    | nil => simp at h
    | cons b r =>
      simp only [List.length_cons, Nat.add_right_cancel_iff] at h
      simp only [accXor]
      rw [ih r _ h, u8_or_eq_zero, u8_xor_eq_zero]
      constructor
      · rintro ⟨⟨hc, hab⟩, hgr⟩; exact ⟨hc, by rw [hab, hgr]⟩
      · rintro ⟨hc, hl⟩
        injection hl with h1 h2
        exact ⟨⟨hc, h1⟩, h2⟩

/-- `(k >> 8) & 1 == 1` reads bit 8 of `k`. -/
theorem bit8 (x : BitVec 64) : (((x.sshiftRight 8) &&& 1) == 1) = x.getLsbD 8 := by
  have h : (x.sshiftRight 8) &&& 1 = if x.getLsbD 8 then 1 else 0 := by
    apply BitVec.eq_of_getLsbD_eq
    intro i hi
    rw [BitVec.getLsbD_and, BitVec.getLsbD_sshiftRight]
    by_cases h0 : i = 0
    · subst h0
      cases hb : x.getLsbD 8 <;> simp
    · have : BitVec.getLsbD (1 : BitVec 64) i = false := by
        simp [BitVec.getLsbD_one, h0]
      rw [this]
      cases hb : x.getLsbD 8 <;> simp [h0]
  rw [h]
  cases x.getLsbD 8 <;> decide

set_option maxRecDepth 100000 in
/-- The `int(c) - 1` trick, all 256 byte values: bit 8 of `c - 1` (as a 64-bit int) is set
exactly for `c = 0`. -/
theorem perByteNat : ∀ n, n < 256 → (BitVec.ofNat 64 n - 1).getLsbD 8 = (n == 0) := by
  decide

theorem perByte (c : UInt8) : (BitVec.ofNat 64 c.toNat - 1).getLsbD 8 = (c == 0) := by
  rw [perByteNat c.toNat c.toNat_lt]
  by_cases h : c = 0
  · subst h; rfl
  · have : c.toNat ≠ 0 := fun hh => h (UInt8.toNat_inj.mp hh)
    have h1 : (c.toNat == 0) = false := by simpa using this
    have h2 : (c == 0) = false := by simpa using h
    rw [h1, h2]

theorem foldl_kStep_bit8 (cs : List UInt8) : ∀ k : BitVec 64,
    (cs.foldl kStep k).getLsbD 8 = (k.getLsbD 8 || cs.any (· == 0)) := by
  induction cs with
  | nil => intro k; simp
  | cons c cs ih =>
    intro k
    simp only [List.foldl_cons, List.any_cons]
    rw [ih, kStep, BitVec.getLsbD_or, perByte, Bool.or_assoc]

theorem take31_length (ge : Bytes) (h : 31 ≤ ge.length) : (ge.take 31).length = 31 := by
  simp [List.length_take]; omega

/-- One row's accumulator is zero exactly when the masked input equals the row. -/
theorem rowAcc_eq_zero (ge row : Bytes) (g31 : UInt8) (hg : ge[31]? = some g31) (hr : row.length = 32) :
    rowAcc (ge.take 31) g31 row = 0 ↔ maskSign ge = row := by
  have hlen : 32 ≤ ge.length := by
    have := (List.getElem?_eq_some_iff.mp hg).1
    omega
  unfold rowAcc maskSign
  rw [hg, u8_or_eq_zero, u8_xor_eq_zero]
  simp only
  have h31 : (ge.take 31).length = (row.take 31).length := by
    simp [List.length_take]; omega
  rw [accXor_eq_zero _ _ _ h31]
  have hrow : row = row.take 31 ++ [row.getD 31 0] := by
    have h1 : row.drop 31 = [row.getD 31 0] := by
      have : (row.drop 31).length = 1 := by simp [hr]
      match hd : row.drop 31, this with
      | [x], _ =>
        have : row[31]? = some x := by
          have := congrArg (fun l => l[0]?) hd
          simpa using this
        simp [List.getD, this]
    conv => lhs; rw [← List.take_append_drop 31 row, h1]
  constructor
  · rintro ⟨⟨_, ht⟩, hl⟩
    rw [ht, hl]
    exact hrow.symm
  · intro h
    rw [hrow] at h
    have hlen' : (ge.take 31).length = (row.take 31).length := h31
    have := List.append_inj h hlen'
    refine ⟨⟨rfl, this.1⟩, ?_⟩
    simpa using this.2

/-- `IsEdLowOrder` decides membership of the masked input in the table, for every input of at
least 32 bytes and every table of 32-byte rows. -/
theorem isEdLowOrder_eq (rows : List Bytes) (hrows : ∀ r ∈ rows, r.length = 32) (ge : Bytes)
    (hge : 32 ≤ ge.length) :
    isEdLowOrder rows ge = .ok (decide (maskSign ge ∈ rows)) := by
  unfold isEdLowOrder
  by_cases he : rows = []
  · subst he; simp
  · have he' : rows.isEmpty = false := by
      cases rows with
      | nil => exact absurd rfl he
      | cons _ _ => rfl
    rw [he']
    rw [if_neg (by simp), if_neg (by omega)]
    have hsome : ge[31]? = some (ge[31]'(by omega)) := List.getElem?_eq_getElem (by omega)
    rw [hsome]
    simp only
    rw [bit8, foldl_kStep_bit8]
    congr 1
    have hz : BitVec.getLsbD (0 : BitVec 64) 8 = false := by decide
    rw [hz, Bool.false_or, Bool.eq_iff_iff]
    simp only [List.any_eq_true, List.mem_map, beq_iff_eq, decide_eq_true_eq]
    constructor
    · rintro ⟨c, ⟨r, hr, rfl⟩, h0⟩
      have := (rowAcc_eq_zero ge r _ hsome (hrows r hr)).mp h0
      rw [this]; exact hr
    · intro hm
      exact ⟨_, ⟨maskSign ge, hm, rfl⟩, (rowAcc_eq_zero ge _ _ hsome (hrows _ hm)).mpr rfl⟩

theorem isEdLowOrder_short (rows : List Bytes) (hne : rows ≠ []) (ge : Bytes) (hge : ge.length < 32) :
    isEdLowOrder rows ge = .panic := by
  unfold isEdLowOrder
  have he' : rows.isEmpty = false := by
    cases rows with
    | nil => exact absurd rfl hne
    | cons _ _ => rfl
  rw [he']
  rw [if_neg (by simp)]
  by_cases h : ge.length < 31
  · rw [if_pos h]
  · rw [if_neg h]
    have : ge[31]? = none := List.getElem?_eq_none (by omega)
    rw [this]

end Bifrost.Lo25519
