import Bifrost.Model.Wrappers
/-! Invariant of the solicited-stream value LTS (fixed code) and its consequences. -/
namespace Bifrost.Wrappers.Sms

theorem mem_logStream {o : Option Nat} {l : List Nat} {m : Nat} :
    m ∈ logStream o l ↔ o = some m ∨ m ∈ l := by
  cases o <;> simp [logStream, eq_comm]

theorem nodup_logStream {o : Option Nat} {l : List Nat} (h : ∀ m, o = some m → m ∉ l) (hl : l.Nodup) :
    (logStream o l).Nodup := by
  cases o with
  | none => exact hl
  | some m => exact List.nodup_cons.mpr ⟨h m rfl, hl⟩

theorem set_cases {l : List Wrapper} {i j : Nat} {w' wj : Wrapper} (h : (l.set i w')[j]? = some wj) :
    (i = j ∧ wj = w') ∨ (i ≠ j ∧ l[j]? = some wj) := by grind

theorem append_cases {l : List Wrapper} {j : Nat} {w' wj : Wrapper} (h : (l ++ [w'])[j]? = some wj) :
    (j = l.length ∧ wj = w') ∨ (j < l.length ∧ l[j]? = some wj) := by grind

/-- Inductive invariant of the fixed code. -/
structure Inv (s : State) : Prop where
  /-- distinct values wrap distinct streams -/
  uniq : ∀ (i j : Nat) (wi wj : Wrapper) (m : Nat), s.wrappers[i]? = some wi → s.wrappers[j]? = some wj →
    wi.ms = some m → wj.ms = some m → i = j
  fresh : ∀ (i : Nat) (w : Wrapper) (m : Nat), s.wrappers[i]? = some w → w.ms = some m → m < s.nextStream
  ret : ∀ m, m ∈ s.returned → ∃ (i : Nat) (w : Wrapper), s.wrappers[i]? = some w ∧ w.ms = some m ∧ w.accepted = true
  retNodup : s.returned.Nodup
  cls : ∀ m, m ∈ s.closed → ∃ (i : Nat) (w : Wrapper), s.wrappers[i]? = some w ∧ w.ms = some m ∧ w.err = true
  excl : ∀ (i : Nat) (w : Wrapper), s.wrappers[i]? = some w → ¬ (w.accepted = true ∧ w.err = true)

theorem inv_init : Inv {} := by
  constructor <;> simp

theorem inv_append (s : State) (h : Inv s) (e : Bool) :
    Inv { s with wrappers := s.wrappers ++ [⟨none, e, false⟩] } := by
  obtain ⟨h1, h2, h3, h4, h5, h6⟩ := h
  constructor
  · intro i j wi wj m hi hj hmi hmj
    rcases append_cases hi with ⟨_, rfl⟩ | ⟨_, hi'⟩
    · simp at hmi
    rcases append_cases hj with ⟨_, rfl⟩ | ⟨_, hj'⟩
    · simp at hmj
    exact h1 i j wi wj m hi' hj' hmi hmj
  · intro i w m hi hm
    rcases append_cases hi with ⟨_, rfl⟩ | ⟨_, hi'⟩
    · simp at hm
    exact h2 i w m hi' hm
  · intro m hm
    obtain ⟨i, w, hw, hr⟩ := h3 m hm
    exact ⟨i, w, by grind, hr⟩
  · exact h4
  · intro m hm
    obtain ⟨i, w, hw, hr⟩ := h5 m hm
    exact ⟨i, w, by grind, hr⟩
  · intro i w hi
    rcases append_cases hi with ⟨_, rfl⟩ | ⟨_, hi'⟩
    · simp
    exact h6 i w hi'


theorem step_accept_eq (s : State) (i : Nat) (w : Wrapper) (hw : s.wrappers[i]? = some w)
    (he : w.err = false) (ha : w.accepted = false) :
    (step s (.accept i)).1 =
      { s with wrappers := s.wrappers.set i { w with accepted := true },
               returned := logStream w.ms s.returned } := by
  simp [step, hw, he, ha]

theorem step_accept_noop (s : State) (i : Nat)
    (h : ∀ w, s.wrappers[i]? = some w → w.err = true ∨ w.accepted = true) :
    (step s (.accept i)).1 = s := by
  cases hw : s.wrappers[i]? with
  | none => simp [step, hw]
  | some w =>
    rcases h w hw with he | ha
    · simp [step, hw, he]
    · simp only [step, hw, ha]; split <;> rfl

theorem step_close_eq (s : State) (i : Nat) (w : Wrapper) (m : Nat) (hw : s.wrappers[i]? = some w)
    (ha : w.accepted = false) (hm : w.ms = some m) :
    (step s (.close i)).1 =
      { s with wrappers := s.wrappers.set i { w with err := true }, closed := m :: s.closed } := by
  simp [step, hw, ha, hm]

theorem step_close_noop (s : State) (i : Nat)
    (h : ∀ w, s.wrappers[i]? = some w → w.accepted = true ∨ w.ms = none) :
    (step s (.close i)).1 = s := by
  cases hw : s.wrappers[i]? with
  | none => simp [step, hw]
  | some w =>
    rcases h w hw with ha | hm
    · simp [step, hw, ha]
    · simp only [step, hw, hm]; split <;> rfl

/-- `resolveMatch` with handlers that may refuse: only the number of handlers that took the value
matters — the step is the step of `resolve` with that many (all-taking) directives. -/
theorem step_resolveH (s : State) (takes : List Bool) :
    step s (.resolveH takes) = step s (.resolve (takes.count true)) := rfl

theorem inv_step (s : State) (o : Op) (h : Inv s) : Inv (step s o).1 := by
  have hres : ∀ k : Nat, Inv (step s (.resolve k)).1 := by
    intro k
    obtain ⟨h1, h2, h3, h4, h5, h6⟩ := h
    simp only [step]
    constructor
    · intro i j wi wj m hi hj hmi hmj
      rcases append_cases hi with ⟨ei, rfl⟩ | ⟨_, hi'⟩ <;>
        rcases append_cases hj with ⟨ej, rfl⟩ | ⟨_, hj'⟩
      · omega
      · simp at hmi; subst hmi; have := h2 j wj _ hj' hmj; omega
      · simp at hmj; subst hmj; have := h2 i wi _ hi' hmi; omega
      · exact h1 i j wi wj m hi' hj' hmi hmj
    · intro i w m hi hm
      rcases append_cases hi with ⟨_, rfl⟩ | ⟨_, hi'⟩
      · simp at hm; show m < s.nextStream + 1; omega
      · have := h2 i w m hi' hm; show m < s.nextStream + 1; omega
    · intro m hm
      obtain ⟨i, w, hw, hr⟩ := h3 m hm
      exact ⟨i, w, by grind, hr⟩
    · exact h4
    · intro m hm
      have hold : m ∈ s.closed → ∃ (i : Nat) (w : Wrapper),
          (s.wrappers ++ [⟨some s.nextStream, k == 0, false⟩])[i]? = some w ∧ w.ms = some m ∧ w.err = true := by
        intro hm'
        obtain ⟨i, w, hw, hr⟩ := h5 m hm'
        exact ⟨i, w, by grind, hr⟩
      by_cases hk : (k == 0) = true
      · simp only [hk, if_true] at hm ⊢
        rcases List.mem_cons.mp hm with rfl | hm'
        · exact ⟨s.wrappers.length, ⟨some s.nextStream, true, false⟩, by simp, rfl, rfl⟩
        · simpa [hk] using hold hm'
      · simp only [hk] at hm
        exact hold hm
    · intro i w hi
      rcases append_cases hi with ⟨_, rfl⟩ | ⟨_, hi'⟩
      · simp
      exact h6 i w hi'
  cases o with
  | newNil => exact inv_append s h false
  | newErr => exact inv_append s h true
  | resolve k => exact hres k
  | resolveH takes => rw [step_resolveH]; exact hres _
  | accept i =>
    cases hw : s.wrappers[i]? with
    | none => rw [step_accept_noop s i (by simp [hw])]; exact h
    | some w =>
      cases he : w.err with
      | true => rw [step_accept_noop s i (by intro w' hw'; rw [hw] at hw'; cases hw'; exact Or.inl he)]; exact h
      | false =>
      cases ha : w.accepted with
      | true => rw [step_accept_noop s i (by intro w' hw'; rw [hw] at hw'; cases hw'; exact Or.inr ha)]; exact h
      | false =>
      rw [step_accept_eq s i w hw he ha]
      obtain ⟨h1, h2, h3, h4, h5, h6⟩ := h
      -- values keep their stream
      have keep : ∀ (j : Nat) (wj : Wrapper), (s.wrappers.set i { w with accepted := true })[j]? = some wj →
          ∃ w0 : Wrapper, s.wrappers[j]? = some w0 ∧ w0.ms = wj.ms ∧ w0.err = wj.err ∧
            (w0.accepted = true → wj.accepted = true) := by
        intro j wj hj
        rcases set_cases hj with ⟨rfl, rfl⟩ | ⟨_, hj'⟩
        · exact ⟨w, hw, rfl, rfl, fun _ => rfl⟩
        · exact ⟨wj, hj', rfl, rfl, id⟩
      have lift : ∀ (j : Nat) (w0 : Wrapper), s.wrappers[j]? = some w0 →
          ∃ wj : Wrapper, (s.wrappers.set i { w with accepted := true })[j]? = some wj ∧ w0.ms = wj.ms ∧
            w0.err = wj.err ∧ (w0.accepted = true → wj.accepted = true) := by
        intro j w0 hj
        by_cases hij : i = j
        · subst hij
          refine ⟨{ w with accepted := true }, by grind, ?_, ?_, fun _ => rfl⟩ <;> grind
        · exact ⟨w0, by grind, rfl, rfl, id⟩
      have notin : ∀ m, w.ms = some m → m ∉ s.returned := by
        intro m hm hin
        obtain ⟨j, wj, hj, hmj, haj⟩ := h3 m hin
        have := h1 i j w wj m hw hj hm hmj
        subst this
        rw [hw] at hj; cases hj; rw [ha] at haj; cases haj
      constructor
      · intro a b wa wb m ha' hb' hma hmb
        obtain ⟨wa0, ha0, ea, _⟩ := keep a wa ha'
        obtain ⟨wb0, hb0, eb, _⟩ := keep b wb hb'
        exact h1 a b wa0 wb0 m ha0 hb0 (ea ▸ hma) (eb ▸ hmb)
      · intro a wa m ha' hm
        obtain ⟨wa0, ha0, ea, _⟩ := keep a wa ha'
        exact h2 a wa0 m ha0 (ea ▸ hm)
      · intro m hm
        rcases mem_logStream.mp hm with hms | hm
        · exact ⟨i, { w with accepted := true }, by grind, hms, rfl⟩
        · obtain ⟨j, wj, hj, hmj, haj⟩ := h3 m hm
          obtain ⟨wj', hj', e1, _, e3⟩ := lift j wj hj
          exact ⟨j, wj', hj', e1 ▸ hmj, e3 haj⟩
      · exact nodup_logStream notin h4
      · intro m hm
        obtain ⟨j, wj, hj, hmj, hej⟩ := h5 m hm
        obtain ⟨wj', hj', e1, e2, _⟩ := lift j wj hj
        exact ⟨j, wj', hj', e1 ▸ hmj, e2 ▸ hej⟩
      · intro a wa ha'
        rcases set_cases ha' with ⟨rfl, rfl⟩ | ⟨_, hj'⟩
        · simp [he]
        · exact h6 a wa hj'
  | close i =>
    cases hw : s.wrappers[i]? with
    | none => rw [step_close_noop s i (by simp [hw])]; exact h
    | some w =>
      cases ha : w.accepted with
      | true => rw [step_close_noop s i (by intro w' hw'; rw [hw] at hw'; cases hw'; exact Or.inl ha)]; exact h
      | false =>
      cases hms : w.ms with
      | none => rw [step_close_noop s i (by intro w' hw'; rw [hw] at hw'; cases hw'; exact Or.inr hms)]; exact h
      | some m0 =>
        rw [step_close_eq s i w m0 hw ha hms]
        obtain ⟨h1, h2, h3, h4, h5, h6⟩ := h
        have keep : ∀ (j : Nat) (wj : Wrapper), (s.wrappers.set i { w with err := true })[j]? = some wj →
            ∃ w0 : Wrapper, s.wrappers[j]? = some w0 ∧ w0.ms = wj.ms ∧ w0.accepted = wj.accepted ∧
              (w0.err = true → wj.err = true) := by
          intro j wj hj
          rcases set_cases hj with ⟨rfl, rfl⟩ | ⟨_, hj'⟩
          · exact ⟨w, hw, rfl, rfl, fun _ => rfl⟩
          · exact ⟨wj, hj', rfl, rfl, id⟩
        have lift : ∀ (j : Nat) (w0 : Wrapper), s.wrappers[j]? = some w0 →
            ∃ wj : Wrapper, (s.wrappers.set i { w with err := true })[j]? = some wj ∧ w0.ms = wj.ms ∧
              w0.accepted = wj.accepted ∧ (w0.err = true → wj.err = true) := by
          intro j w0 hj
          by_cases hij : i = j
          · subst hij
            refine ⟨{ w with err := true }, by grind, ?_, ?_, fun _ => rfl⟩ <;> grind
          · exact ⟨w0, by grind, rfl, rfl, id⟩
        constructor
        · intro a b wa wb m ha' hb' hma hmb
          obtain ⟨wa0, ha0, ea, _⟩ := keep a wa ha'
          obtain ⟨wb0, hb0, eb, _⟩ := keep b wb hb'
          exact h1 a b wa0 wb0 m ha0 hb0 (ea ▸ hma) (eb ▸ hmb)
        · intro a wa m ha' hm
          obtain ⟨wa0, ha0, ea, _⟩ := keep a wa ha'
          exact h2 a wa0 m ha0 (ea ▸ hm)
        · intro m hm
          obtain ⟨j, wj, hj, hmj, haj⟩ := h3 m hm
          obtain ⟨wj', hj', e1, e2, _⟩ := lift j wj hj
          exact ⟨j, wj', hj', e1 ▸ hmj, e2 ▸ haj⟩
        · exact h4
        · intro m hm
          simp only [List.mem_cons] at hm
          rcases hm with rfl | hm
          · exact ⟨i, { w with err := true }, by grind, hms, rfl⟩
          · obtain ⟨j, wj, hj, hmj, hej⟩ := h5 m hm
            obtain ⟨wj', hj', e1, _, e3⟩ := lift j wj hj
            exact ⟨j, wj', hj', e1 ▸ hmj, e3 hej⟩
        · intro a wa ha'
          rcases set_cases ha' with ⟨rfl, rfl⟩ | ⟨_, hj'⟩
          · simp [ha]
          · exact h6 a wa hj'

/-- run from an arbitrary state -/
def runFrom (s : State) (ops : List Op) : State := ops.foldl (fun s o => (step s o).1) s

theorem run_append (pre post : List Op) : run (pre ++ post) = runFrom (run pre) post := by
  simp [run, runFrom, List.foldl_append]

theorem inv_runFrom (s : State) (h : Inv s) (ops : List Op) : Inv (runFrom s ops) := by
  induction ops generalizing s with
  | nil => exact h
  | cons o rest ih => exact ih _ (inv_step s o h)

theorem inv_run (ops : List Op) : Inv (run ops) := inv_runFrom _ inv_init ops

theorem acceptRes_err (s : State) (i : Nat) (w : Wrapper) (hw : s.wrappers[i]? = some w)
    (he : w.err = true) : acceptRes s i = .err := by
  simp [acceptRes, step, hw, he]

/-! ### Monotonicity: logs only grow, a value's error is never cleared -/

theorem returned_mono_step (s : State) (o : Op) (m : Nat) (h : m ∈ s.returned) :
    m ∈ (step s o).1.returned := by
  cases o with
  | resolve k => exact h
  | resolveH takes => exact h
  | newNil => exact h
  | newErr => exact h
  | close i =>
    simp only [step]
    split
    · exact h
    · split
      · exact h
      · split <;> exact h
  | accept i =>
    simp only [step]
    split
    · exact h
    · split
      · exact h
      · split
        · exact h
        · exact mem_logStream.mpr (Or.inr h)

theorem closed_mono_step (s : State) (o : Op) (m : Nat) (h : m ∈ s.closed) :
    m ∈ (step s o).1.closed := by
  cases o with
  | resolve k =>
    simp only [step]
    split
    · exact List.mem_cons_of_mem _ h
    · exact h
  | resolveH takes =>
    simp only [step]
    split
    · exact List.mem_cons_of_mem _ h
    · exact h
  | newNil => exact h
  | newErr => exact h
  | accept i =>
    simp only [step]
    split
    · exact h
    · split
      · exact h
      · split <;> exact h
  | close i =>
    simp only [step]
    split
    · exact h
    · split
      · exact h
      · split
        · exact h
        · exact List.mem_cons_of_mem _ h

theorem err_mono_step (s : State) (o : Op) (i : Nat) (w : Wrapper)
    (hw : s.wrappers[i]? = some w) (he : w.err = true) :
    ∃ w' : Wrapper, (step s o).1.wrappers[i]? = some w' ∧ w'.err = true ∧ w'.ms = w.ms := by
  have hlt : i < s.wrappers.length := by
    rcases Nat.lt_or_ge i s.wrappers.length with h | h
    · exact h
    · rw [List.getElem?_eq_none h] at hw; cases hw
  have happ : ∀ x : Wrapper, (s.wrappers ++ [x])[i]? = some w := by
    intro x; rw [List.getElem?_append_left hlt]; exact hw
  cases o with
  | resolve k => exact ⟨w, happ _, he, rfl⟩
  | resolveH takes => exact ⟨w, happ _, he, rfl⟩
  | newNil => exact ⟨w, happ _, he, rfl⟩
  | newErr => exact ⟨w, happ _, he, rfl⟩
  | accept j =>
    cases hj : s.wrappers[j]? with
    | none => rw [step_accept_noop s j (by simp [hj])]; exact ⟨w, hw, he, rfl⟩
    | some wj =>
      cases hej : wj.err with
      | true =>
        rw [step_accept_noop s j (by intro w' hw'; rw [hj] at hw'; cases hw'; exact Or.inl hej)]
        exact ⟨w, hw, he, rfl⟩
      | false =>
        cases haj : wj.accepted with
        | true =>
          rw [step_accept_noop s j (by intro w' hw'; rw [hj] at hw'; cases hw'; exact Or.inr haj)]
          exact ⟨w, hw, he, rfl⟩
        | false =>
          rw [step_accept_eq s j wj hj hej haj]
          have hne : j ≠ i := by
            intro e; subst e; rw [hj] at hw; cases hw; rw [he] at hej; cases hej
          exact ⟨w, by simp only; rw [List.getElem?_set_ne hne]; exact hw, he, rfl⟩
  | close j =>
    cases hj : s.wrappers[j]? with
    | none => rw [step_close_noop s j (by simp [hj])]; exact ⟨w, hw, he, rfl⟩
    | some wj =>
      cases haj : wj.accepted with
      | true =>
        rw [step_close_noop s j (by intro w' hw'; rw [hj] at hw'; cases hw'; exact Or.inl haj)]
        exact ⟨w, hw, he, rfl⟩
      | false =>
        cases hmj : wj.ms with
        | none =>
          rw [step_close_noop s j (by intro w' hw'; rw [hj] at hw'; cases hw'; exact Or.inr hmj)]
          exact ⟨w, hw, he, rfl⟩
        | some m0 =>
          rw [step_close_eq s j wj m0 hj haj hmj]
          by_cases hji : j = i
          · subst hji
            rw [hj] at hw; cases hw
            exact ⟨{ w with err := true }, by simp only; rw [List.getElem?_set_self hlt], rfl, rfl⟩
          · exact ⟨w, by simp only; rw [List.getElem?_set_ne hji]; exact hw, he, rfl⟩

theorem returned_mono (s : State) (ops : List Op) (m : Nat) (h : m ∈ s.returned) :
    m ∈ (runFrom s ops).returned := by
  induction ops generalizing s with
  | nil => exact h
  | cons o rest ih => exact ih _ (returned_mono_step s o m h)

theorem closed_mono (s : State) (ops : List Op) (m : Nat) (h : m ∈ s.closed) :
    m ∈ (runFrom s ops).closed := by
  induction ops generalizing s with
  | nil => exact h
  | cons o rest ih => exact ih _ (closed_mono_step s o m h)

theorem err_mono (s : State) (ops : List Op) (i : Nat) (w : Wrapper)
    (hw : s.wrappers[i]? = some w) (he : w.err = true) :
    ∃ w' : Wrapper, (runFrom s ops).wrappers[i]? = some w' ∧ w'.err = true ∧ w'.ms = w.ms := by
  induction ops generalizing s w with
  | nil => exact ⟨w, hw, he, rfl⟩
  | cons o rest ih =>
    obtain ⟨w1, h1, e1, m1⟩ := err_mono_step s o i w hw he
    obtain ⟨w2, h2, e2, m2⟩ := ih _ w1 h1 e1
    exact ⟨w2, h2, e2, m2.trans m1⟩

/-- the stream-level exclusion: never both handed over and closed by the solicitation -/
theorem disjoint_of_inv (s : State) (h : Inv s) (m : Nat) (hc : m ∈ s.closed) : m ∉ s.returned := by
  intro hr
  obtain ⟨i, wi, hi, hmi, hai⟩ := h.ret m hr
  obtain ⟨j, wj, hj, hmj, hej⟩ := h.cls m hc
  have := h.uniq i j wi wj m hi hj hmi hmj
  subst this
  rw [hi] at hj; cases hj
  exact h.excl i wi hi ⟨hai, hej⟩

theorem count_le_one_of_nodup (l : List Nat) (h : l.Nodup) (m : Nat) : l.count m ≤ 1 := by
  induction l with
  | nil => simp
  | cons a t ih =>
    have ⟨hnot, ht⟩ := List.nodup_cons.mp h
    by_cases e : a = m
    · subst e
      have : t.count a = 0 := List.count_eq_zero.mpr hnot
      simp [this]
    · have : (a == m) = false := by simpa using e
      simp [List.count_cons, this]; exact ih ht

/-- the `returned` log records exactly the calls that returned a (non-nil) stream -/
theorem returned_count_step (s : State) (o : Op) (m : Nat) :
    (step s o).1.returned.count m =
      s.returned.count m + (if (step s o).2 = .stream (some m) then 1 else 0) := by
  cases o with
  | resolve k => simp [step]
  | resolveH takes => simp [step]
  | newNil => simp [step]
  | newErr => simp [step]
  | close i =>
    cases hw : s.wrappers[i]? with
    | none => simp [step, hw]
    | some w =>
      cases ha : w.accepted with
      | true => simp [step, hw, ha]
      | false =>
        cases hm : w.ms with
        | none => simp [step, hw, ha, hm]
        | some m0 => simp [step, hw, ha, hm]
  | accept i =>
    cases hw : s.wrappers[i]? with
    | none => simp [step, hw]
    | some w =>
      cases he : w.err with
      | true => simp [step, hw, he]
      | false =>
        cases ha : w.accepted with
        | true => simp [step, hw, he, ha]
        | false =>
          cases hm : w.ms with
          | none => simp [step, hw, he, ha, hm, logStream]
          | some m0 =>
            by_cases e : m0 = m
            · subst e; simp [step, hw, he, ha, hm, logStream]
            · simp [step, hw, he, ha, hm, logStream, e]

theorem returned_count_runRes (s : State) (ops : List Op) (m : Nat) :
    (runRes s ops).1.returned.count m =
      s.returned.count m + (runRes s ops).2.count (.stream (some m)) := by
  induction ops generalizing s with
  | nil => simp [runRes]
  | cons o rest ih =>
    simp only [runRes]
    rw [ih, returned_count_step]
    by_cases e : (step s o).2 = .stream (some m)
    · simp [e]; omega
    · simp [e]

theorem runRes_fst (s : State) (ops : List Op) : (runRes s ops).1 = runFrom s ops := by
  induction ops generalizing s with
  | nil => rfl
  | cons o rest ih => simp only [runRes, runFrom, List.foldl_cons]; exact ih _

end Bifrost.Wrappers.Sms
