import Bifrost.Lemmas.SigPairHalf
/-!
C23 liveness, stable-pair machine: PROGRESS. For every stage of x's in-flight message the
designated action of that stage (`Stage.hlp`) moves the message strictly forward
(`LexLt` on `(Stage.num, position)`), using only the pair invariant (reader alive, C22 wake-up
condition) for enabledness.
-/
namespace Bifrost
namespace SigPair
open Bifrost.SigSys Bifrost.SigPairCli
set_option linter.unusedSimpArgs false

/-- the designated action of a stage (`j` = the position / the `Send` id where it matters) -/
def Stage.hlp : Stage → Nat → Bool × Act
  | .acked, j => (true, .sendStep j)
  | .ackDn, _ => (true, .rx)
  | .ackBox, _ => (true, .srvTx)
  | .ackAttE, _ => (true, .srvLoop)
  | .ackAttB, _ => (true, .srvTx)
  | .ackUp, _ => (false, .srvRx)
  | .rcvP, _ => (false, .tx)
  | .rcvU, _ => (false, .recvStep)
  | .rcvDn, _ => (false, .rx)
  | .rcvBox, _ => (false, .srvTx)
  | .relE, _ => (false, .srvLoop)
  | .relB, _ => (false, .srvTx)
  | .sndUp, _ => (true, .srvRx)
  | .unsent, _ => (true, .tx)
  | .free, j => (true, .sendStep j)
  | .cancel, _ => (true, .tx)

theorem lt_stage {p' : PState} {m : SigC.Msg} (st' : Stage) (j' : Nat) {st : Stage} {j : Nat} (h : Tk p' m st' j')
    (hl : LexLt (st'.num, j') (st.num, j)) :
    ∃ st' j', Tk p' m st' j' ∧ LexLt (st'.num, j') (st.num, j) := ⟨st', j', h, hl⟩

theorem LexLt.le {a b : Nat × Nat} (h : LexLt a b) : LexLe a b := by
  rcases h with h | ⟨h1, h2⟩
  · exact Or.inl h
  · exact Or.inr ⟨h1, Nat.le_of_lt h2⟩

theorem LexLt.of_le_ne {a b : Nat × Nat} (h : LexLe a b) (hne : a ≠ b) : LexLt a b := by
  rcases h with h | ⟨h1, h2⟩
  · exact Or.inl h
  · refine Or.inr ⟨h1, ?_⟩
    rcases Nat.lt_or_ge a.2 b.2 with h3 | h3
    · exact h3
    · exact absurd (Prod.ext h1 (Nat.le_antisymm h2 h3)) hne

/-- The designated action of a token stage strictly advances x's in-flight message
(which stays in flight: `hs'`). -/
theorem tk_prog {p : PState} {m : SigC.Msg} {st : Stage} {j : Nat} (hinv : PInv p) (hs : Sent p m)
    (hs' : Sent (step p (st.hlp j)) m) (ht : Tk p m st j) :
    ∃ st' j', Tk (step p (st.hlp j)) m st' j' ∧ LexLt (st'.num, j') (st.num, j) := by
  obtain ⟨x, y, gen, ep⟩ := p
  have hx := hinv.hx
  have hy := hinv.hy
  simp only at hx hy
  cases st <;> simp only [Stage.hlp] at hs' ⊢
  case acked => exact ht.elim
  case unsent => exact ht.elim
  case free => exact ht.elim
  case cancel => exact ht.elim
  case ackDn =>
    simp only [Tk] at ht
    obtain ⟨post, hat⟩ := ht
    obtain ⟨pre, hb, hj⟩ := hat
    cases pre with
    | nil =>
      exfalso
      have hstep : step ⟨x, y, gen, ep⟩ (true, .rx) =
          ⟨{ x with cl := rxEv (.ack m.seqno) x.cl, dn := post }, y, gen, ep⟩ := by
        simp [step, stepX, hb]
      rw [hstep] at hs'
      have h3 := hs'.2.2.1
      obtain ⟨h1, _, _, h4⟩ := hs
      simp only at h1 h4
      simp [rxEv, SigC.step, SigC.ackMsg, h1, h4] at h3
    | cons r pre =>
      have hstep : step ⟨x, y, gen, ep⟩ (true, .rx) =
          ⟨{ x with cl := rxEv r x.cl, dn := pre ++ .ack m.seqno :: post }, y, gen, ep⟩ := by
        simp [step, stepX, hb]
      rw [hstep]
      refine lt_stage .ackDn pre.length ?_ (Or.inr ⟨rfl, by simp at hj; omega⟩)
      simp only [Tk]
      exact ⟨post, pre, rfl, rfl⟩
  case ackBox =>
    simp only [Tk] at ht
    obtain ⟨post, pre, hb, hj⟩ := ht
    cases pre with
    | nil =>
      have hstep : step ⟨x, y, gen, ep⟩ (true, .srvTx) =
          ⟨{ x with box := post, dn := x.dn ++ [.ack m.seqno] }, y, gen, ep⟩ := by
        simp [step, stepX, hb]
      rw [hstep]
      refine lt_stage .ackDn x.dn.length ?_ (Or.inl (show Stage.ackDn.num < Stage.ackBox.num by decide))
      simp only [Tk]
      exact ⟨[], At.snoc _ _⟩
    | cons r pre =>
      have hstep : step ⟨x, y, gen, ep⟩ (true, .srvTx) =
          ⟨{ x with box := pre ++ .ack m.seqno :: post, dn := x.dn ++ [r] }, y, gen, ep⟩ := by
        simp [step, stepX, hb]
      rw [hstep]
      refine lt_stage .ackBox pre.length ?_ (Or.inr ⟨rfl, by simp at hj; omega⟩)
      simp only [Tk]
      exact ⟨post, pre, rfl, rfl⟩
  case ackAttE =>
    simp only [Tk, AckG] at ht
    obtain ⟨⟨g1, g2, g3, g4⟩, g5⟩ := ht
    have hen : x.box = [] ∧ x.wait < gen := by
      refine ⟨g5, ?_⟩
      rcases Nat.lt_or_ge x.wait gen with h | h
      · exact h
      · have := (hx.wake.2 h).2.2
        rw [g1] at this; cases this
    have hstep : step ⟨x, y, gen, ep⟩ (true, .srvLoop) =
        ⟨{ x with att := loopAtt x.att, wait := gen, ann := some ep, box := loopOut x.ann ep x.att }, y,
          if x.att.recv.isSome then gen + 1 else gen, ep⟩ := by
      simp only [step, stepX]
      simp only [hen, and_self, if_true, List.nil_append]
    rw [hstep]
    obtain ⟨j', post, hj'⟩ := At_loopOut_ack x.ann ep x.att _ g1
    refine lt_stage .ackBox j' ?_ (Or.inl (show Stage.ackBox.num < Stage.ackAttE.num by decide))
    simp only [Tk]
    exact ⟨post, hj'⟩
  case ackAttB =>
    simp only [Tk, AckG] at ht
    obtain ⟨g1, g2, g3⟩ := ht
    cases hb : x.box with
    | nil => exact absurd hb g2
    | cons r rest =>
      have hstep : step ⟨x, y, gen, ep⟩ (true, .srvTx) = ⟨{ x with box := rest, dn := x.dn ++ [r] }, y, gen, ep⟩ := by
        simp [step, stepX, hb]
      rw [hstep]
      subst g3
      cases rest with
      | nil =>
        refine lt_stage .ackAttE 0 ?_ (Or.inl (show Stage.ackAttE.num < Stage.ackAttB.num by decide))
        simp only [Tk, AckG]; exact ⟨g1, trivial⟩
      | cons r' rest' =>
        refine lt_stage .ackAttB (r' :: rest').length ?_ (Or.inr ⟨rfl, by simp [hb]⟩)
        simp only [Tk, AckG]; exact ⟨g1, by simp, trivial⟩
  case ackUp =>
    simp only [Tk] at ht
    obtain ⟨g1, g2, g3, post, pre, hb, hj⟩ := ht
    have hrd : y.rd = false := hy.rd
    have toAck : ∀ k, k = m.seqno →
        ∃ st' j', Tk ⟨{ x with att := { x.att with outAcked := some k } },
          { y with up := (pre ++ SigC.Req.ack ep m.seqno :: post).tail, att := { y.att with recvSent := none } },
          gen + 1, ep⟩ m st' j' ∧ LexLt (st'.num, j') (Stage.ackUp.num, j) := by
      intro k hk
      by_cases hbx : x.box = []
      · refine lt_stage .ackAttE 0 ?_ (Or.inl (show Stage.ackAttE.num < Stage.ackUp.num by decide))
        simp only [Tk, AckG]
        exact ⟨⟨by rw [hk], g3, g2, trivial⟩, hbx⟩
      · refine lt_stage .ackAttB x.box.length ?_ (Or.inl (show Stage.ackAttB.num < Stage.ackUp.num by decide))
        simp only [Tk, AckG]
        exact ⟨⟨by rw [hk], g3, g2, trivial⟩, hbx, trivial⟩
    cases pre with
    | nil =>
      have hc := y_srvRx_cases (x := x) (gen := gen) (ep := ep) hrd hb
      generalize step ⟨x, y, gen, ep⟩ (false, .srvRx) = p' at hc ⊢
      cases hc with
      | quiet a rd gen' ha hq => exact absurd g1 (hq _ rfl)
      | fire k hr hs0 =>
        have hk : k = m.seqno := by rw [hs0] at g1; cases g1; rfl
        simpa using toAck k hk
    | cons r pre =>
      have hc := y_srvRx_cases (x := x) (gen := gen) (ep := ep) hrd hb
      generalize step ⟨x, y, gen, ep⟩ (false, .srvRx) = p' at hc ⊢
      cases hc with
      | quiet a rd gen' ha hq =>
        refine lt_stage .ackUp pre.length ?_ (Or.inr ⟨rfl, by simp at hj; omega⟩)
        simp only [Tk]
        exact ⟨g1, g2, g3, post, pre, rfl, rfl⟩
      | fire k hr hs0 =>
        have hk : k = m.seqno := by rw [hs0] at g1; cases g1; rfl
        simpa using toAck k hk
  case rcvP =>
    simp only [Tk, FwdG] at ht
    obtain ⟨hg, g1, g2, g3, g4, g5⟩ := ht
    have hopen : y.cl.open_ = some ep := open_of_sync hy hg.2.2.2.1 g3 g4
    have hstep : step ⟨x, y, gen, ep⟩ (false, .tx) =
        ⟨x, { y with cl := (SigC.txLoop y.cl).1, up := y.up ++ (SigC.txLoop y.cl).2.toList }, gen, ep⟩ := by
      simp [step, stepX, PState.swap]
    rw [hstep]
    subst g5
    cases hout : y.cl.out with
    | none =>
      refine lt_stage .ackUp y.up.length ?_ (Or.inl (show Stage.ackUp.num < Stage.rcvP.num by decide))
      simp only [Tk, SigC.txLoop, hopen, hout, g1, g2]
      exact ⟨hg.1, hg.2.1, hg.2.2.2.2, [], by simpa using At.snoc y.up _⟩
    | some o =>
      by_cases hc : y.cl.outCancel = true
      · refine lt_stage .rcvP (wt (SigC.txLoop y.cl).1) ?_ (Or.inr ⟨rfl, ?_⟩)
        · simp only [Tk, FwdG, SigC.txLoop, hopen, hout, hc, if_true]
          exact ⟨hg, g1, g2, g3, g4, trivial⟩
        · simp [SigC.txLoop, hopen, hout, hc, wt, pend]
      · by_cases hsn : y.cl.outSent = true
        · refine lt_stage .ackUp y.up.length ?_ (Or.inl (show Stage.ackUp.num < Stage.rcvP.num by decide))
          simp only [Tk, SigC.txLoop, hopen, hout, hc, hsn, g1, g2]
          exact ⟨hg.1, hg.2.1, hg.2.2.2.2, [], by simpa using At.snoc y.up _⟩
        · refine lt_stage .rcvP (wt (SigC.txLoop y.cl).1) ?_ (Or.inr ⟨rfl, ?_⟩)
          · simp only [Tk, FwdG, SigC.txLoop, hopen, hout, hc, hsn]
            exact ⟨hg, g1, g2, g3, g4, trivial⟩
          · simp [SigC.txLoop, hopen, hout, hc, hsn, wt, pend]
  case rcvU =>
    simp only [Tk, FwdG] at ht
    obtain ⟨hg, g1, g2, g3, g4⟩ := ht
    have hstep : step ⟨x, y, gen, ep⟩ (false, .recvStep) = ⟨x, { y with cl := SigC.recvStep y.cl }, gen, ep⟩ := by
      simp [step, stepX, PState.swap, SigC.step]
    rw [hstep]
    refine lt_stage .rcvP (wt (SigC.recvStep y.cl)) ?_ (Or.inl (show Stage.rcvP.num < Stage.rcvU.num by decide))
    simp only [Tk, FwdG]
    refine ⟨hg, ?_, ?_, g3, g4, trivial⟩ <;> simp [SigC.recvStep, g1, g2]
  case rcvDn =>
    simp only [Tk, FwdG] at ht
    obtain ⟨hg, ⟨post, ⟨pre, hb, hj⟩, hp⟩, h4⟩ := ht
    cases pre with
    | nil =>
      have hstep : step ⟨x, y, gen, ep⟩ (false, .rx) =
          ⟨x, { y with cl := rxEv (.recv (toSrvMsg m)) y.cl, dn := post }, gen, ep⟩ := by
        simp [step, stepX, PState.swap, hb]
      rw [hstep]
      refine lt_stage .rcvU 0 ?_ (Or.inl (show Stage.rcvU.num < Stage.rcvDn.num by decide))
      simp only [Tk, FwdG, rxEv, SigC.step, SigC.recvMsg]
      exact ⟨hg, by simp, by simp, hp, h4⟩
    | cons r pre =>
      have hstep : step ⟨x, y, gen, ep⟩ (false, .rx) =
          ⟨x, { y with cl := rxEv r y.cl, dn := pre ++ .recv (toSrvMsg m) :: post }, gen, ep⟩ := by
        simp [step, stepX, PState.swap, hb]
      rw [hstep]
      refine lt_stage .rcvDn pre.length ?_ (Or.inr ⟨rfl, by simp at hj; omega⟩)
      simp only [Tk, FwdG]
      exact ⟨hg, ⟨post, ⟨pre, rfl, rfl⟩, hp⟩, h4⟩
  case rcvBox =>
    simp only [Tk, FwdG] at ht
    obtain ⟨hg, post, ⟨pre, hb, hj⟩, hp⟩ := ht
    cases pre with
    | nil =>
      have hstep : step ⟨x, y, gen, ep⟩ (false, .srvTx) =
          ⟨x, { y with box := post, dn := y.dn ++ [.recv (toSrvMsg m)] }, gen, ep⟩ := by
        simp [step, stepX, PState.swap, hb]
      rw [hstep]
      refine lt_stage .rcvDn y.dn.length ?_ (Or.inl (show Stage.rcvDn.num < Stage.rcvBox.num by decide))
      simp only [Tk, FwdG]
      exact ⟨hg, ⟨[], At.snoc _ _, onlyAckR_nil⟩, hp⟩
    | cons r pre =>
      have hstep : step ⟨x, y, gen, ep⟩ (false, .srvTx) =
          ⟨x, { y with box := pre ++ .recv (toSrvMsg m) :: post, dn := y.dn ++ [r] }, gen, ep⟩ := by
        simp [step, stepX, PState.swap, hb]
      rw [hstep]
      refine lt_stage .rcvBox pre.length ?_ (Or.inr ⟨rfl, by simp at hj; omega⟩)
      simp only [Tk, FwdG]
      exact ⟨hg, post, ⟨pre, rfl, rfl⟩, hp⟩
  case relE =>
    simp only [Tk] at ht
    obtain ⟨g1, g2, g3⟩ := ht
    have hen : y.box = [] ∧ y.wait < gen := by
      refine ⟨g3, ?_⟩
      rcases Nat.lt_or_ge y.wait gen with h | h
      · exact h
      · have := (hy.wake.2 h).2.1
        rw [g1] at this; cases this
    have hstep : step ⟨x, y, gen, ep⟩ (false, .srvLoop) =
        ⟨x, { y with att := loopAtt y.att, wait := gen, ann := some ep, box := loopOut y.ann ep y.att },
          if y.att.recv.isSome then gen + 1 else gen, ep⟩ := by
      simp only [step, stepX, PState.swap]
      simp only [hen, and_self, if_true, List.nil_append]
      rfl
    rw [hstep]
    obtain ⟨j', hj'⟩ := At_loopOut_recv y.ann ep y.att _ g1
    refine lt_stage .rcvBox j' ?_ (Or.inl (show Stage.rcvBox.num < Stage.relE.num by decide))
    simp only [Tk, FwdG, loopAtt, g1]
    exact ⟨⟨by simp, trivial, trivial, trivial, g2⟩, [], hj', onlyAckR_nil⟩
  case relB =>
    simp only [Tk] at ht
    obtain ⟨g1, g2, g3, g4⟩ := ht
    cases hb : y.box with
    | nil => exact absurd hb g3
    | cons r rest =>
      have hstep : step ⟨x, y, gen, ep⟩ (false, .srvTx) = ⟨x, { y with box := rest, dn := y.dn ++ [r] }, gen, ep⟩ := by
        simp [step, stepX, PState.swap, hb]
      rw [hstep]
      subst g4
      cases rest with
      | nil =>
        refine lt_stage .relE 0 ?_ (Or.inl (show Stage.relE.num < Stage.relB.num by decide))
        simp only [Tk]; exact ⟨g1, g2, trivial⟩
      | cons r' rest' =>
        refine lt_stage .relB (r' :: rest').length ?_ (Or.inr ⟨rfl, by simp [hb]⟩)
        simp only [Tk]; exact ⟨g1, g2, by simp, trivial⟩
  case sndUp =>
    simp only [Tk] at ht
    obtain ⟨post, ⟨pre, hb, hj⟩, hp⟩ := ht
    have hrd : x.rd = false := hx.rd
    cases pre with
    | nil =>
      obtain ⟨ax, ay, rd, gen', hstep, hax, hack, hsend⟩ :=
        x_srvRx_shape (x := x) (y := y) (gen := gen) (ep := ep) hrd hb
      rw [hstep]
      have hr := hsend m rfl
      by_cases hbx : y.box = []
      · refine lt_stage .relE 0 ?_ (Or.inl (show Stage.relE.num < Stage.sndUp.num by decide))
        simp only [Tk]; exact ⟨hr, hp, hbx⟩
      · refine lt_stage .relB y.box.length ?_ (Or.inl (show Stage.relB.num < Stage.sndUp.num by decide))
        simp only [Tk]; exact ⟨hr, hp, hbx, trivial⟩
    | cons r pre =>
      obtain ⟨ax, ay, rd, gen', hstep, hax, hack, hsend⟩ :=
        x_srvRx_shape (x := x) (y := y) (gen := gen) (ep := ep) hrd hb
      rw [hstep]
      refine lt_stage .sndUp pre.length ?_ (Or.inr ⟨rfl, by simp at hj; omega⟩)
      simp only [Tk]; exact ⟨post, ⟨pre, rfl, rfl⟩, hp⟩

end SigPair
end Bifrost
