import Bifrost.Lemmas.PubsubReach
/-! Termination of the internal steps of the floodsub network model (C28): a potential that
strictly decreases with every enabled `recv` / `fwd` step, so every run of internal steps is
finite and ends quiescent. -/
namespace Bifrost
namespace Pubsub
namespace Net

def sumOver (ns : List Nat) (f : Nat → Nat) : Nat := (ns.map f).sum

theorem sumOver_cons (a : Nat) (ns : List Nat) (f : Nat → Nat) : sumOver (a :: ns) f = f a + sumOver ns f := by
  simp [sumOver]

theorem sumOver_congr (ns : List Nat) (f g : Nat → Nat) (h : ∀ n ∈ ns, f n = g n) : sumOver ns f = sumOver ns g := by
  induction ns with
  | nil => rfl
  | cons a t ih =>
    rw [sumOver_cons, sumOver_cons, h a List.mem_cons_self, ih (fun n hn => h n (List.mem_cons_of_mem _ hn))]

/-- Changing the summand at one point `t ∈ ns` (no duplicates). -/
theorem sumOver_update (ns : List Nat) (hnd : ns.Nodup) (t : Nat) (ht : t ∈ ns) (f g : Nat → Nat)
    (h : ∀ n, n ≠ t → g n = f n) : sumOver ns g + f t = sumOver ns f + g t := by
  induction ns with
  | nil => cases ht
  | cons a rest ih =>
    rw [List.nodup_cons] at hnd
    obtain ⟨ha, hnd'⟩ := hnd
    rw [sumOver_cons, sumOver_cons]
    rcases List.mem_cons.mp ht with e | e
    · subst e
      have : sumOver rest g = sumOver rest f := by
        apply sumOver_congr
        intro n hn
        exact h n (fun e => ha (e ▸ hn))
      rw [this]
      omega
    · have hat : a ≠ t := fun e' => ha (e' ▸ e)
      rw [h a hat]
      have := ih hnd' e
      omega

/-- number of ids of `I` the node has not seen -/
def unseen (I : List Nat) (nd : Node) : Nat := (I.filter (fun id => !nd.seen.contains id)).length

/-- The potential: packets in flight, queued messages (weight `D+1`), unseen (node, id) pairs
(weight `D+2`); `D` bounds the number of forwarding targets of a node. -/
def potential (ns I : List Nat) (D : Nat) (s : State) : Nat :=
  s.wire.length + (D + 1) * sumOver ns (fun n => (s.nodes n).queue.length) +
    (D + 2) * sumOver ns (fun n => unseen I (s.nodes n))

/-- The finite universe the run lives in. -/
structure Confined (ns I : List Nat) (D : Nat) (s : State) : Prop where
  nodup : ns.Nodup
  wire : ∀ x ∈ s.wire, x.2.1 ∈ ns ∧ x.2.2.id ∈ I
  qns : ∀ n, n ∉ ns → (s.nodes n).queue = []
  qid : ∀ n m p, (m, p) ∈ (s.nodes n).queue → m.id ∈ I
  deg : ∀ n, (s.nodes n).know.length ≤ D
  peers : ∀ n p, p ∈ (s.nodes n).peers → p ∈ ns

theorem fwdTargets_length (nd : Node) (m : Msg) (prev : Nat) : (fwdTargets nd m prev).length ≤ nd.know.length := by
  unfold fwdTargets
  calc _ ≤ ((nd.know.filter (fun e => e.1 = m.ch)).map (·.2)).length := List.length_filter_le _ _
    _ = (nd.know.filter (fun e => e.1 = m.ch)).length := List.length_map _
    _ ≤ nd.know.length := List.length_filter_le _ _

theorem filter_length_mono {α} (l : List α) (p q : α → Bool) (h : ∀ x, p x = true → q x = true) :
    (l.filter p).length ≤ (l.filter q).length := by
  induction l with
  | nil => simp
  | cons a t ih =>
    simp only [List.filter_cons]
    cases hp : p a with
    | true =>
      rw [h a hp]
      simp only [if_true, List.length_cons]
      omega
    | false =>
      simp only [Bool.false_eq_true, if_false]
      split
      · simp only [List.length_cons]; omega
      · exact ih

theorem unseen_hvm_new (I : List Nat) (nd : Node) (m : Msg) (p : Nat) (hI : m.id ∈ I) (hs : m.id ∉ nd.seen) :
    unseen I (hvm nd m p) + 1 ≤ unseen I nd := by
  have hseen : (hvm nd m p).seen = m.id :: nd.seen := by
    unfold hvm
    split
    · rename_i hc; exact absurd (by simpa using hc) hs
    · rfl
  unfold unseen
  rw [hseen]
  induction I with
  | nil => cases hI
  | cons a rest ih =>
    simp only [List.filter_cons]
    by_cases ha : a = m.id
    · have h1 : (m.id :: nd.seen).contains a = true := by simp [ha]
      have h2 : nd.seen.contains a = false := by rw [ha]; simpa using hs
      simp only [h1, h2, Bool.not_true, Bool.false_eq_true, if_false, Bool.not_false, if_true, List.length_cons]
      have : (rest.filter (fun id => !(m.id :: nd.seen).contains id)).length ≤ (rest.filter (fun id => !nd.seen.contains id)).length := by
        apply filter_length_mono
        intro x hx
        simp only [Bool.not_eq_true', List.contains_eq_mem, decide_eq_false_iff_not, List.mem_cons, not_or] at hx ⊢
        exact hx.2
      omega
    · have hr : m.id ∈ rest := by
        rcases List.mem_cons.mp hI with e | e
        · exact absurd e.symm ha
        · exact e
      have := ih hr
      have hc : (m.id :: nd.seen).contains a = nd.seen.contains a := by
        simp [ha]
      rw [hc]
      split
      · simp only [List.length_cons]; omega
      · exact this

theorem hvm_queue_length (nd : Node) (m : Msg) (p : Nat) :
    (m.id ∈ nd.seen ∧ hvm nd m p = nd) ∨ (m.id ∉ nd.seen ∧ (hvm nd m p).queue.length = nd.queue.length + 1) := by
  unfold hvm
  split
  · rename_i hc; left; exact ⟨by simpa using hc, rfl⟩
  · rename_i hc; right; exact ⟨by simpa using hc, by simp⟩

/-- Effect of `hvm` at a node of `ns` on the two sums. -/
theorem potential_hvm (ns I : List Nat) (D : Nat) (s : State) (hnd : ns.Nodup) (t p : Nat) (m : Msg)
    (ht : t ∈ ns) (hI : m.id ∈ I) (w : List (Nat × Nat × Msg)) :
    potential ns I D ({ s with wire := w }.setNode t (hvm (s.nodes t) m p)) ≤ w.length +
      (D + 1) * sumOver ns (fun n => (s.nodes n).queue.length) + (D + 2) * sumOver ns (fun n => unseen I (s.nodes n)) := by
  unfold potential
  have hnodes : ∀ k, ({ s with wire := w }.setNode t (hvm (s.nodes t) m p)).nodes k =
      if k = t then hvm (s.nodes t) m p else s.nodes k := fun _ => rfl
  have hwire : ({ s with wire := w }.setNode t (hvm (s.nodes t) m p)).wire = w := rfl
  rw [hwire]
  rcases hvm_queue_length (s.nodes t) m p with ⟨_, hsame⟩ | ⟨hns, hq⟩
  · have e1 : sumOver ns (fun n => (({ s with wire := w }.setNode t (hvm (s.nodes t) m p)).nodes n).queue.length) =
        sumOver ns (fun n => (s.nodes n).queue.length) := by
      apply sumOver_congr; intro n _; simp only [hnodes]; split
      · rename_i e; rw [hsame, e]
      · rfl
    have e2 : sumOver ns (fun n => unseen I (({ s with wire := w }.setNode t (hvm (s.nodes t) m p)).nodes n)) =
        sumOver ns (fun n => unseen I (s.nodes n)) := by
      apply sumOver_congr; intro n _; simp only [hnodes]; split
      · rename_i e; rw [hsame, e]
      · rfl
    rw [e1, e2]
    exact Nat.le_refl _
  · have ht' : ({ s with wire := w }.setNode t (hvm (s.nodes t) m p)).nodes t = hvm (s.nodes t) m p := by
      rw [hnodes, if_pos rfl]
    have u1 := sumOver_update ns hnd t ht (fun n => (s.nodes n).queue.length)
      (fun n => (({ s with wire := w }.setNode t (hvm (s.nodes t) m p)).nodes n).queue.length)
      (by intro n hn; simp only [hnodes, if_neg hn])
    have u2 := sumOver_update ns hnd t ht (fun n => unseen I (s.nodes n))
      (fun n => unseen I (({ s with wire := w }.setNode t (hvm (s.nodes t) m p)).nodes n))
      (by intro n hn; simp only [hnodes, if_neg hn])
    simp only [ht'] at u1 u2
    rw [hq] at u1
    have u3 := unseen_hvm_new I (s.nodes t) m p hI hns
    have hsum1 : sumOver ns (fun n => (({ s with wire := w }.setNode t (hvm (s.nodes t) m p)).nodes n).queue.length) =
        sumOver ns (fun n => (s.nodes n).queue.length) + 1 := by omega
    have hsum2 : sumOver ns (fun n => unseen I (({ s with wire := w }.setNode t (hvm (s.nodes t) m p)).nodes n)) + 1 ≤
        sumOver ns (fun n => unseen I (s.nodes n)) := by omega
    rw [hsum1]
    generalize sumOver ns (fun n => unseen I (({ s with wire := w }.setNode t (hvm (s.nodes t) m p)).nodes n)) = U' at hsum2 ⊢
    generalize sumOver ns (fun n => (s.nodes n).queue.length) = Q
    generalize sumOver ns (fun n => unseen I (s.nodes n)) = U at hsum2 ⊢
    have h1 : (D + 2) * U' + (D + 2) ≤ (D + 2) * U := by
      calc (D + 2) * U' + (D + 2) = (D + 2) * (U' + 1) := by rw [Nat.mul_add, Nat.mul_one]
        _ ≤ (D + 2) * U := Nat.mul_le_mul_left _ hsum2
    have h2 : (D + 1) * (Q + 1) = (D + 1) * Q + (D + 1) := by rw [Nat.mul_add, Nat.mul_one]
    rw [h2]
    omega

/-- Every enabled `recv` step strictly decreases the potential. -/
theorem recv_decreases (ns I : List Nat) (D : Nat) (s : State) (h : Confined ns I D s) (k : Nat) (hk : k < s.wire.length) :
    potential ns I D (step s (.recv k)) < potential ns I D s := by
  have hget : s.wire[k]? = some s.wire[k] := List.getElem?_eq_getElem hk
  rcases hx : s.wire[k] with ⟨f, t, m⟩
  rw [hx] at hget
  have hmem : (f, t, m) ∈ s.wire := List.mem_of_getElem? hget
  obtain ⟨htn, hmi⟩ := h.wire _ hmem
  have hlen : (s.wire.eraseIdx k).length + 1 = s.wire.length := by
    rw [List.length_eraseIdx]; simp [hk]; omega
  simp only [step, hget]
  split
  · have := potential_hvm ns I D s h.nodup t f m htn hmi (s.wire.eraseIdx k)
    unfold potential at this ⊢
    omega
  · unfold potential
    simp only
    omega

/-- abstract form of the `fwd` step: node `n` drops the head of its queue, the wire grows by
at most `D` packets. -/
theorem potential_fwd_abstract (ns I : List Nat) (D : Nat) (s s' : State) (hnd : ns.Nodup) (n : Nat) (hn : n ∈ ns)
    (nd' : Node) (x : Msg × Nat) (rest : List (Msg × Nat))
    (hq : (s.nodes n).queue = x :: rest)
    (hnodes : ∀ k, s'.nodes k = if k = n then nd' else s.nodes k)
    (hq' : nd'.queue = rest) (hs' : nd'.seen = (s.nodes n).seen)
    (hwire : s'.wire.length ≤ s.wire.length + D) : potential ns I D s' < potential ns I D s := by
  unfold potential
  have hn' : s'.nodes n = nd' := by rw [hnodes, if_pos rfl]
  have u1 := sumOver_update ns hnd n hn (fun k => (s.nodes k).queue.length) (fun k => (s'.nodes k).queue.length)
    (by intro k hk; simp only [hnodes, if_neg hk])
  simp only [hn', hq, hq', List.length_cons] at u1
  have e2 : sumOver ns (fun k => unseen I (s'.nodes k)) = sumOver ns (fun k => unseen I (s.nodes k)) := by
    apply sumOver_congr
    intro k _
    simp only [hnodes]
    split
    · rename_i e; rw [e]; unfold unseen; rw [hs']
    · rfl
  rw [e2]
  generalize sumOver ns (fun k => (s'.nodes k).queue.length) = Q' at u1 ⊢
  generalize sumOver ns (fun k => (s.nodes k).queue.length) = Q at u1 ⊢
  have hQ : Q = Q' + 1 := by omega
  subst hQ
  have h2 : (D + 1) * (Q' + 1) = (D + 1) * Q' + (D + 1) := by rw [Nat.mul_add, Nat.mul_one]
  rw [h2]
  omega

/-- Every enabled `fwd` step strictly decreases the potential. -/
theorem fwd_decreases (ns I : List Nat) (D : Nat) (s : State) (h : Confined ns I D s) (n : Nat)
    (hq : (s.nodes n).queue ≠ []) : potential ns I D (step s (.fwd n)) < potential ns I D s := by
  have hn : n ∈ ns := by
    cases hc : decide (n ∈ ns) with
    | true => simpa using hc
    | false => exact absurd (h.qns n (by simpa using hc)) hq
  simp only [step]
  split
  · rename_i hnil; exact absurd hnil hq
  · rename_i m prev rest hqe
    have hdeg : (fwdTargets (s.nodes n) m prev).length ≤ D :=
      Nat.le_trans (fwdTargets_length _ _ _) (h.deg n)
    refine potential_fwd_abstract ns I D s _ h.nodup n hn { s.nodes n with queue := rest } (m, prev) rest hqe
      (fun _ => rfl) rfl rfl ?_
    simp only [setNode_wire, List.length_append, List.length_map]
    omega

/-- The finite universe is closed under enabled internal steps. -/
theorem recv_confined (ns I : List Nat) (D : Nat) (s : State) (h : Confined ns I D s) (k : Nat) :
    Confined ns I D (step s (.recv k)) := by
  simp only [step]
  split
  · exact h
  · rename_i f t m hget
    have hmem : (f, t, m) ∈ s.wire := List.mem_of_getElem? hget
    obtain ⟨htn, hmi⟩ := h.wire _ hmem
    split
    · have hnodes : ∀ j, ({ s with wire := s.wire.eraseIdx k }.setNode t (hvm (s.nodes t) m f)).nodes j =
          if j = t then hvm (s.nodes t) m f else s.nodes j := fun _ => rfl
      constructor
      · exact h.nodup
      · intro x hx
        exact h.wire x (mem_of_mem_eraseIdx' _ _ _ hx)
      · intro n hn
        have hne : n ≠ t := fun e => hn (by rw [e]; exact htn)
        rw [hnodes, if_neg hne]
        exact h.qns n hn
      · intro n m' p hq
        rw [hnodes] at hq
        split at hq
        · rename_i e
          rcases hvm_queue_mem _ _ _ _ hq with h1 | ⟨h1, _⟩
          · exact h.qid _ m' p h1
          · have : m' = m := by injection h1
            rw [this]; exact hmi
        · exact h.qid n m' p hq
      · intro n
        rw [hnodes]
        split
        · rename_i e; rw [(hvm_conf _ _ _).2.1, ← e]; exact h.deg n
        · exact h.deg n
      · intro n p hp
        rw [hnodes] at hp
        split at hp
        · rename_i e; rw [(hvm_conf _ _ _).2.2, ← e] at hp; exact h.peers n p hp
        · exact h.peers n p hp
    · constructor
      · exact h.nodup
      · intro x hx
        exact h.wire x (mem_of_mem_eraseIdx' _ _ _ hx)
      · exact h.qns
      · exact h.qid
      · exact h.deg
      · exact h.peers

theorem fwd_confined (ns I : List Nat) (D : Nat) (s : State) (h : Confined ns I D s) (n : Nat) :
    Confined ns I D (step s (.fwd n)) := by
  simp only [step]
  split
  · exact h
  · rename_i m prev rest hqe
    have hhead : (m, prev) ∈ (s.nodes n).queue := by rw [hqe]; exact List.mem_cons_self
    have hnodes : ∀ j, (s.setNode n { s.nodes n with queue := rest }).nodes j =
        if j = n then { s.nodes n with queue := rest } else s.nodes j := fun _ => rfl
    constructor
    · exact h.nodup
    · intro x hx
      simp only [setNode_wire, List.mem_append, List.mem_map] at hx
      rcases hx with hx | ⟨p, hp, rfl⟩
      · exact h.wire x hx
      · obtain ⟨_, _, hpe, _⟩ := fwdTargets_spec _ _ _ _ hp
        exact ⟨h.peers n p hpe, h.qid n m prev hhead⟩
    · intro j hj
      show ((s.setNode n { s.nodes n with queue := rest }).nodes j).queue = []
      rw [hnodes]
      split
      · rename_i e
        have := h.qns n (by rw [← e]; exact hj)
        rw [this] at hqe
        cases hqe
      · exact h.qns j hj
    · intro j m' p hq
      have hq' : (m', p) ∈ ((s.setNode n { s.nodes n with queue := rest }).nodes j).queue := hq
      rw [hnodes] at hq'
      split at hq'
      · rename_i e
        apply h.qid n m' p
        rw [hqe]
        exact List.mem_cons_of_mem _ hq'
      · exact h.qid j m' p hq'
    · intro j
      show ((s.setNode n { s.nodes n with queue := rest }).nodes j).know.length ≤ D
      rw [hnodes]
      split
      · rename_i e; exact h.deg n
      · exact h.deg j
    · intro j p hp
      have hp' : p ∈ ((s.setNode n { s.nodes n with queue := rest }).nodes j).peers := hp
      rw [hnodes] at hp'
      split at hp'
      · exact h.peers n p hp'
      · exact h.peers j p hp'

theorem publish_confined (ns I : List Nat) (D : Nat) (s : State) (h : Confined ns I D s) (n : Nat) (m : Msg)
    (hn : n ∈ ns) (hm : m.id ∈ I) : Confined ns I D (step s (.publish n m)) := by
  have hnodes : ∀ j, (step s (.publish n m)).nodes j = if j = n then hvm (s.nodes n) m m.origin else s.nodes j :=
    fun _ => rfl
  constructor
  · exact h.nodup
  · exact h.wire
  · intro j hj
    have hne : j ≠ n := fun e => hj (by rw [e]; exact hn)
    rw [hnodes, if_neg hne]
    exact h.qns j hj
  · intro j m' p hq
    rw [hnodes] at hq
    split at hq
    · rcases hvm_queue_mem _ _ _ _ hq with h1 | ⟨h1, _⟩
      · exact h.qid _ m' p h1
      · have : m' = m := by injection h1
        rw [this]; exact hm
    · exact h.qid j m' p hq
  · intro j
    rw [hnodes]
    split
    · rw [(hvm_conf _ _ _).2.1]; exact h.deg n
    · exact h.deg j
  · intro j p hp
    rw [hnodes] at hp
    split at hp
    · rw [(hvm_conf _ _ _).2.2] at hp; exact h.peers n p hp
    · exact h.peers j p hp

theorem init_confined (cfg : Nat → Cfg) (ns I : List Nat) (D : Nat) (hnd : ns.Nodup)
    (hdeg : ∀ n, (cfg n).know.length ≤ D) (hpeers : ∀ n p, p ∈ (cfg n).peers → p ∈ ns) :
    Confined ns I D (init cfg) where
  nodup := hnd
  wire := by intro x hx; simp [init] at hx
  qns := by intro n _; rfl
  qid := by intro n m p hq; simp [init] at hq
  deg := hdeg
  peers := hpeers

theorem publishes_confined (ns I : List Nat) (D : Nat) (s : State) (h : Confined ns I D s) (pubs : List (Nat × Msg))
    (hp : ∀ x ∈ pubs, x.1 ∈ ns ∧ x.2.id ∈ I) :
    Confined ns I D (run s (pubs.map fun x => Ev.publish x.1 x.2)) := by
  induction pubs generalizing s with
  | nil => exact h
  | cons x rest ih =>
    simp only [List.map_cons]
    show Confined ns I D (run (step s (.publish x.1 x.2)) _)
    apply ih
    · exact publish_confined ns I D s h x.1 x.2 (hp x List.mem_cons_self).1 (hp x List.mem_cons_self).2
    · intro y hy; exact hp y (List.mem_cons_of_mem _ hy)

/-- A run of ENABLED internal steps: every `recv` takes a packet that is in flight, every
`fwd` a queued message. -/
inductive InternalRun : State → List Ev → Prop where
  | nil (s : State) : InternalRun s []
  | recv (s : State) (k : Nat) (rest : List Ev) : k < s.wire.length → InternalRun (step s (.recv k)) rest →
      InternalRun s (.recv k :: rest)
  | fwd (s : State) (n : Nat) (rest : List Ev) : (s.nodes n).queue ≠ [] → InternalRun (step s (.fwd n)) rest →
      InternalRun s (.fwd n :: rest)

/-- Every run of enabled internal steps is shorter than the potential of its first state. -/
theorem internalRun_bounded (ns I : List Nat) (D : Nat) (s : State) (evs : List Ev) (h : Confined ns I D s)
    (hr : InternalRun s evs) : evs.length + potential ns I D (run s evs) ≤ potential ns I D s := by
  induction hr with
  | nil s => simp [run]
  | recv s k rest hk _ ih =>
    have := ih (recv_confined ns I D s h k)
    have hd := recv_decreases ns I D s h k hk
    simp only [List.length_cons]
    show rest.length + 1 + potential ns I D (run (step s (.recv k)) rest) ≤ _
    omega
  | fwd s n rest hq _ ih =>
    have := ih (fwd_confined ns I D s h n)
    have hd := fwd_decreases ns I D s h n hq
    simp only [List.length_cons]
    show rest.length + 1 + potential ns I D (run (step s (.fwd n)) rest) ≤ _
    omega

end Net
end Pubsub
end Bifrost
