import Bifrost.Model.Dispatch
import Bifrost.Lemmas.Base58
/-! Helper lemmas for the dispatch models (C34–C37). -/
namespace Bifrost
namespace Dispatch

/-- Base58 text is injective (from the decode/encode round trip). -/
theorem b58_encode_injective (a b : Bytes) (h : B58.encode a = B58.encode b) : a = b := by
  by_cases ha : a = []
  · subst ha
    have : B58.encode b = [] := by rw [← h]; rfl
    exact ((B58.encode_eq_nil b).mp this).symm
  · by_cases hb : b = []
    · subst hb
      have : B58.encode a = [] := by rw [h]; rfl
      exact (B58.encode_eq_nil a).mp this
    · have h1 := B58.decode_encode a ha
      have h2 := B58.decode_encode b hb
      rw [h, h2] at h1
      injection h1 with h1
      exact h1.symm

theorem decodeAll_mem : ∀ (ts ids : List Bytes), decodeAll ts = some ids → ∀ id,
    (id ∈ ids ↔ ∃ t ∈ ts, Codec.idB58Decode t = some id)
  | [], ids, h, id => by
    simp [decodeAll] at h
    subst h
    simp
  | t :: rest, ids, h, id => by
    unfold decodeAll at h
    cases hd : Codec.idB58Decode t with
    | none => simp [hd] at h
    | some v =>
      cases hr : decodeAll rest with
      | none => simp [hd, hr] at h
      | some vs =>
        simp only [hd, hr, Option.some.injEq] at h
        subst h
        have ih := decodeAll_mem rest vs hr id
        simp only [List.mem_cons, ih]
        constructor
        · rintro (rfl | ⟨t', ht', hdec⟩)
          · exact ⟨t, Or.inl rfl, hd⟩
          · exact ⟨t', Or.inr ht', hdec⟩
        · rintro ⟨t', (rfl | ht'), hdec⟩
          · left; rw [hd] at hdec; injection hdec with hdec; exact hdec.symm
          · right; exact ⟨t', ht', hdec⟩

theorem parseProtocolIDs_false_spec : ∀ (ts ps : List Bytes), parseProtocolIDs false ts = some ps →
    ps = ts ∧ ∀ p ∈ ts, protoValid p = true
  | [], ps, h => by
    simp [parseProtocolIDs] at h
    subst h
    simp
  | t :: rest, ps, h => by
    unfold parseProtocolIDs at h
    cases hd : parseProtocolID false t with
    | none => simp [hd] at h
    | some v =>
      cases hr : parseProtocolIDs false rest with
      | none => simp [hd, hr] at h
      | some vs =>
        simp only [hd, hr, Option.some.injEq] at h
        subst h
        obtain ⟨e, hv⟩ := parseProtocolIDs_false_spec rest vs hr
        unfold parseProtocolID at hd
        simp only [Bool.false_and, Bool.false_eq_true, ↓reduceIte] at hd
        by_cases hpv : protoValid t = true
        · simp only [hpv, ↓reduceIte, Option.some.injEq] at hd
          subst hd e
          refine ⟨rfl, ?_⟩
          intro p hp
          rcases List.mem_cons.mp hp with rfl | hp
          · exact hpv
          · exact hv p hp
        · simp [hpv] at hd

/-! ### C34 -/

open Bifrost.Gen.DispatchConsts in
/-- The protocol an echo controller serves: the configured one, or `bifrost/echo`. -/
def echoProto (cfg : EchoConfig) : Bytes :=
  if cfg.protocolId = [] then echoDefaultProtocolID else cfg.protocolId


/-- The common shape of the echo / forwarding decision. -/
theorem handles_shape (p sp l sl : Bytes) (hp : p ≠ []) :
    ((if (!p.isEmpty && p != sp) = true then false
      else if (!l.isEmpty && sl != l) = true then false else true) = true) ↔
      (sp = p ∧ (l ≠ [] → sl = l)) := by
  by_cases h1 : p = sp
  · by_cases h2 : l = []
    · simp [h1, h2]
    · by_cases h3 : sl = l <;> simp [h1, h2, h3, List.isEmpty_iff, bne_iff_ne]
  · have : ¬ sp = p := fun e => h1 e.symm
    simp [h1, this, hp, List.isEmpty_iff, bne_iff_ne]

/-! ### prefixes (C35) -/

theorem hasPrefix_iff (s p : Bytes) : hasPrefix s p = true ↔ p <+: s := by
  unfold hasPrefix
  exact List.isPrefixOf_iff_prefix

/-- The first matching prefix: it is in the list, it is a prefix, and nothing before it matches. -/
theorem firstPrefix_some (ps : List Bytes) (s p : Bytes) :
    firstPrefix ps s = some p ↔
      p <+: s ∧ ∃ l1 l2, ps = l1 ++ p :: l2 ∧ ∀ q ∈ l1, ¬ q <+: s := by
  unfold firstPrefix
  rw [List.find?_eq_some_iff_append]
  simp only [hasPrefix_iff, Bool.not_eq_true]
  constructor
  · rintro ⟨h1, l1, l2, he, hn⟩
    refine ⟨h1, l1, l2, he, ?_⟩
    intro q hq hp
    have := hn q hq
    rw [(hasPrefix_iff s q).mpr hp] at this
    simp at this
  · rintro ⟨h1, l1, l2, he, hn⟩
    refine ⟨h1, l1, l2, he, ?_⟩
    intro q hq
    cases hb : hasPrefix s q
    · simp
    · exact absurd ((hasPrefix_iff s q).mp hb) (hn q hq)

theorem firstPrefix_none (ps : List Bytes) (s : Bytes) :
    firstPrefix ps s = none ↔ ∀ p ∈ ps, ¬ p <+: s := by
  unfold firstPrefix
  rw [List.find?_eq_none]
  constructor
  · intro h p hp hpre
    exact h p hp ((hasPrefix_iff s p).mpr hpre)
  · intro h p hp hb
    exact h p hp ((hasPrefix_iff s p).mp hb)

theorem firstPrefix_isSome (ps : List Bytes) (s : Bytes) :
    (firstPrefix ps s).isSome = true ↔ ∃ p ∈ ps, p <+: s := by
  cases h : firstPrefix ps s with
  | none =>
    simp only [Option.isSome_none, Bool.false_eq_true, false_iff, not_exists, not_and]
    exact (firstPrefix_none ps s).mp h
  | some p =>
    simp only [Option.isSome_some, true_iff]
    obtain ⟨hp, l1, l2, he, _⟩ := (firstPrefix_some ps s p).mp h
    exact ⟨p, by rw [he]; simp, hp⟩

theorem any_hasPrefix (ps : List Bytes) (s : Bytes) :
    ps.any (fun p => hasPrefix s p) = true ↔ ∃ p ∈ ps, p <+: s := by
  simp only [List.any_eq_true, hasPrefix_iff]

theorem firstPrefix_mem (ps : List Bytes) (s p : Bytes) (h : firstPrefix ps s = some p) : p ∈ ps ∧ p <+: s := by
  obtain ⟨hp, l1, l2, he, _⟩ := (firstPrefix_some ps s p).mp h
  exact ⟨by rw [he]; simp, hp⟩

theorem prefix_drop (p s : Bytes) (h : p <+: s) : s = p ++ s.drop p.length := by
  obtain ⟨t, rfl⟩ := h
  simp

theorem drop_length_lt (p s : Bytes) (h : p <+: s) (hne : p ≠ []) : (s.drop p.length).length < s.length := by
  obtain ⟨t, rfl⟩ := h
  have : 0 < p.length := List.length_pos_iff.mpr hne
  simp
  omega

end Dispatch
end Bifrost
