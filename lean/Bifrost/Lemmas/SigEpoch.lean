import Bifrost.Lemmas.SigEpochC
import Bifrost.Lemmas.SigLive
/-!
Epoch bounds of the composed signaling system (`EpochLe`, an invariant of every reachable state),
and the start condition of the C23 liveness theorem discharged from reachability alone
(`fresh_after_connect`): right after the (re)connect of one tracker, if both trackers then hold
live relay calls, the registration has bumped the session epoch, the other side only knows older
epochs, and the connecting side's stream pair, call record and tracker are brand new.
-/
namespace Bifrost
namespace SigEpoch
open Bifrost.SigSys Bifrost.SigPair Bifrost.SigLive Bifrost.SigSysSrv

/-- every epoch a tracker holds, its relay call has announced, or that is in flight on its stream
pair is at most the epoch of the call's session tracker; a tracker without a call is closed -/
def EpochLe (s : SigSys.State) : Prop :=
  (∀ c ∈ s.clients, c.call = none → c.st.open_ = none) ∧
  (∀ c ∈ s.clients, ∀ id, c.call = some id → ∀ ch sc t, getChan s id = some ch →
     Sig.getSCall s.srv id = some sc → Sig.getSess s.srv sc.sess = some t →
       (∀ r ∈ ch.c2s, reqEpoch r ≤ t.seqno) ∧ (∀ e, c.st.open_ = some e → e ≤ t.seqno) ∧
       (∀ e, sc.announced = some e → e ≤ t.seqno) ∧
       (∀ e, Sig.Resp.opened e ∈ ch.s2c ++ sc.outbox → e ≤ t.seqno))

theorem epochLe_of_ele {s : SigSys.State} (he : ELe s) : EpochLe s := by
  refine ⟨he.closed, ?_⟩
  intro c hc id hcall ch sc t hch hsc ht
  obtain ⟨hchm, hchc⟩ := getChan_some hch
  have hchc' : ch.call = id := hchc
  obtain ⟨c1, c2⟩ := he.chan ch hchm
  rw [hchc'] at c1 c2
  refine ⟨fun r hr => c1 r hr sc t hsc ht, fun e ho => he.cli c hc id e hcall ho sc t hsc ht,
    fun e ha => (he.srv id sc hsc).1 e ha sc t hsc ht, ?_⟩
  intro e hm
  rcases List.mem_append.1 hm with hm | hm
  · exact c2 e hm sc t hsc ht
  · exact (he.srv id sc hsc).2 e hm sc t hsc ht

theorem epochLe_of_reachable {s : SigSys.State} (h : SigSys.Reachable s) : EpochLe s :=
  epochLe_of_ele (ele_of_reachable h)

/-! ### an effective `connect` -/

theorem connect_noop_none {s : SigSys.State} {me peer : Nat} (hg : getClient s me peer = none) :
    SigSys.step s (.connect me peer) = s := by
  simp [SigSys.step, hg]

theorem connect_noop_dis {s : SigSys.State} {me peer : Nat} {c : Client} (hg : getClient s me peer = some c)
    (hen : Sig.enabled s.srv (.init s.nextCall me peer) = false) : SigSys.step s (.connect me peer) = s := by
  simp [SigSys.step, hg, hen]

/-- the state after the relay has registered the new call of `connect me peer`, before the tracker
records it -/
def conn1 (s : SigSys.State) (me peer : Nat) : SigSys.State :=
  { s with srv := Sig.step s.srv (.init s.nextCall me peer),
           chans := s.chans ++ [{ call := s.nextCall }], nextCall := s.nextCall + 1 }

theorem connect_eff {s : SigSys.State} {me peer : Nat} {c : Client} (hg : getClient s me peer = some c)
    (hc : c.call = none) (hen : Sig.enabled s.srv (.init s.nextCall me peer) = true) :
    SigSys.step s (.connect me peer) =
      setClient (conn1 s me peer) { c with call := some s.nextCall } := by
  simp [SigSys.step, conn1, hg, hc, hen]

theorem getChan_conn1 {s : SigSys.State} {me peer : Nat} (hfresh : getChan s s.nextCall = none) (x : Nat) :
    getChan (conn1 s me peer) x = if x = s.nextCall then some { call := s.nextCall } else getChan s x :=
  SigReg.find?_key_append_fresh Chan.call s.chans { call := s.nextCall } x hfresh

/-- right after the (re)connect of tracker `(B → A)` (it had no call before), if both trackers
then hold live relay calls, neither side has heard of the new session epoch -/
theorem fresh_after_connect {s : SigSys.State} (hr : SigSys.Reachable s) {A B ia ib : Nat}
    (hnone : ∀ c, getClient s B A = some c → c.call = none)
    (hl : Live (SigSys.step s (.connect B A)) A B ia ib) :
    FreshSide (SigSys.step s (.connect B A)) A B ia ∧ FreshSide (SigSys.step s (.connect B A)) B A ib := by
  have hinv := SigSys.inv_of_reachable hr
  have hele := ele_of_reachable hr
  have hepo := epochLe_of_ele hele
  have hr' : SigSys.Reachable (SigSys.step s (.connect B A)) := SigSys.Reachable.step _ hr
  obtain ⟨p, hv, _, _⟩ := view_of_live hr' hl
  obtain ⟨sid, dtA, dtB, hsv⟩ := hv.srv
  have hca := hsv.ca
  have hcb := hsv.cb
  obtain ⟨cB', hcB', hcallB'⟩ := hl.cliB
  obtain ⟨cA', hcA', hcallA'⟩ := hl.cliA
  -- the connect was effective
  cases hg : getClient s B A with
  | none =>
    rw [connect_noop_none hg, hg] at hcB'
    cases hcB'
  | some c =>
    have hcn := hnone c hg
    cases hen : Sig.enabled s.srv (.init s.nextCall B A) with
    | false =>
      rw [connect_noop_dis hg hen, hg] at hcB'
      cases hcB'
      rw [hcn] at hcallB'
      cases hcallB'
    | true =>
      have heq := connect_eff hg hcn hen
      rw [heq] at hcB' hcA' hca hcb ⊢
      obtain ⟨hmem, hme, hpeer⟩ := getClient_some hg
      have hfresh : Sig.getSCall s.srv s.nextCall = none := by
        simp only [Sig.enabled, Bool.and_eq_true, Option.isNone_iff_eq_none] at hen
        exact hen.1.1.1.1
      have hBA : B ≠ A := by
        simp only [Sig.enabled, Bool.and_eq_true, decide_eq_true_eq] at hen
        exact hen.1.1.2
      have him : InitMono s.srv s.nextCall (Sig.step s.srv (.init s.nextCall B A)) :=
        initMono_sInit (good_of hinv) s.nextCall B A hfresh
      -- side B: the new call
      have hcBnew : getClient (setClient (conn1 s B A)
            { c with call := some s.nextCall }) B A = some { c with call := some s.nextCall } := by
        rw [getClient_setClient, if_pos (show B = c.me ∧ A = c.peer from ⟨hme.symm, hpeer.symm⟩)]
        have : getClient (conn1 s B A) B A = some c := hg
        rw [this]
        rfl
      rw [hcBnew] at hcB'
      cases hcB'
      have hib : s.nextCall = ib := by simpa using hcallB'
      -- side A: untouched
      have hcAold : getClient s A B = some cA' := by
        rw [getClient_setClient_ne (by
          intro hh
          have h1 : A = c.me := hh.1
          rw [hme] at h1
          exact hBA h1.symm)] at hcA'
        exact hcA'
      obtain ⟨hmemA, _, _⟩ := getClient_some hcAold
      have hpairA := (hinv.cli cA' hmemA).call ia hcallA'
      have hia : ia ≠ s.nextCall := by
        intro e
        rw [e] at hpairA
        simp [callPair, hfresh] at hpairA
      have hchfresh : getChan s s.nextCall = none := by
        cases hch : getChan s s.nextCall with
        | none => rfl
        | some ch =>
          obtain ⟨hchm, hchc⟩ := getChan_some hch
          have hex := (hinv.chan ch hchm).ex
          have hchc' : ch.call = s.nextCall := hchc
          rw [hchc'] at hex
          simp [callPair, hfresh] at hex
      have hchan : ∀ x, getChan (setClient (conn1 s B A)
            { c with call := some s.nextCall }) x =
          if x = s.nextCall then some { call := s.nextCall } else getChan s x := by
        intro x
        rw [getChan_setClient]
        exact getChan_conn1 hchfresh x
      have hsrv : (setClient (conn1 s B A)
            { c with call := some s.nextCall }).srv = Sig.step s.srv (.init s.nextCall B A) := rfl
      rw [hsrv] at hca hcb
      obtain ⟨scN, hscN, hannN, hboxN, hbump⟩ := him.new
      rw [← hib, hscN] at hcb
      have hsessN : scN.sess = sid := by
        have := congrArg (fun o => o.map Sig.SCall.sess) hcb
        simpa using this
      rw [him.old ia hia] at hca
      constructor
      · -- side A
        intro cA chA scA tA h1 h2 h3 h4
        rw [hcA'] at h1
        cases h1
        rw [hchan, if_neg hia] at h2
        rw [hsrv, him.old ia hia] at h3
        rw [hsrv] at h4
        have hsessA : scA.sess = sid := by
          rw [h3] at hca
          have := congrArg (fun o => o.map Sig.SCall.sess) hca
          simpa using this
        obtain ⟨t0, ht0, _⟩ := (good_of hinv).inv.calls _ _ h3
        obtain ⟨b1, b2, b3, b4⟩ := hepo.2 cA' hmemA ia hcallA' chA scA t0 h2 h3 ht0
        have ht0' : Sig.getSess s.srv scN.sess = some t0 := by rw [hsessN, ← hsessA]; exact ht0
        obtain ⟨t', ht', hseq⟩ := hbump t0 ht0'
        rw [hsessN, ← hsessA, h4] at ht'
        cases ht'
        refine ⟨fun r hr => ?_, fun e he => ?_, fun e he => ?_, fun e he => ?_⟩
        · have := b1 r hr; omega
        · have := b2 e he; omega
        · have := b3 e he; omega
        · have := b4 e he; omega
      · -- side B
        intro cB chB scB tB h1 h2 h3 h4
        rw [hcBnew] at h1
        cases h1
        rw [hchan, if_pos hib.symm] at h2
        cases h2
        rw [hsrv, ← hib, hscN] at h3
        cases h3
        have hopen : c.st.open_ = none := hele.closed c hmem hcn
        refine ⟨fun r hr => ?_, fun e he => ?_, fun e he => ?_, fun e he => ?_⟩
        · simp at hr
        · have he' : c.st.open_ = some e := he
          rw [hopen] at he'; cases he'
        · rw [hannN] at he; cases he
        · rw [hboxN] at he; simp at he

end SigEpoch
end Bifrost
