import Bifrost.Lemmas.SigSessRec
/-! Session-side inductive invariant `Inv` and the generic update lemmas. -/
namespace Bifrost
namespace SigSess
open Bifrost.Sig

/-- Prop form of `acceptedFor` (depends on the receiver only through id/src/dst). -/
def AccFor (s : State) (sid e rid rsrc rdst : Nat) (m : Msg) : Prop :=
  ∃ fr v g cf, (sid, e, fr, m, v, g) ∈ s.accepted ∧ v = true ∧ fr ≠ rid ∧ getSCall s fr = some cf ∧
    g = cf.src ∧ cf.sess = sid ∧ cf.src = rdst ∧ cf.dst = rsrc

theorem acceptedFor_iff (s : State) (sid e : Nat) (r : SCall) (m : Msg) :
    acceptedFor s sid e r m = true ↔ AccFor s sid e r.id r.src r.dst m := by
  unfold acceptedFor AccFor
  rw [List.any_eq_true]
  constructor
  · rintro ⟨⟨sid', e', fr, m', v, g⟩, hmem, h⟩
    simp only [Bool.and_eq_true, decide_eq_true_eq] at h
    obtain ⟨⟨⟨⟨⟨h1, h2⟩, h3⟩, h4⟩, h5⟩, h6⟩ := h
    subst h1 h2 h3
    cases hcf : getSCall s fr with
    | none => simp [hcf] at h6
    | some cf =>
      simp only [hcf, Bool.and_eq_true, decide_eq_true_eq] at h6
      exact ⟨fr, v, g, cf, hmem, h4, by simpa using h5, hcf, h6.1.1.1, h6.1.1.2, h6.1.2, h6.2⟩
  · rintro ⟨fr, v, g, cf, hmem, hv, hne, hcf, h1, h2, h3, h4⟩
    refine ⟨_, hmem, ?_⟩
    simp [hcf, hv, hne, h1, h2, h3, h4]

/-- "m was accepted for call `c` in epoch `e`" -/
def Acc (s : State) (c : SCall) : Nat → Msg → Prop := fun e m => acceptedFor s c.sess e c m = true

def CallsPersist (s s' : State) : Prop :=
  ∀ id c, getSCall s id = some c → ∃ c', getSCall s' id = some c' ∧ c'.src = c.src ∧ c'.dst = c.dst ∧ c'.sess = c.sess

theorem Acc_mono {s s' : State} {c c' : SCall} (hp : CallsPersist s s')
    (hacc : ∀ x ∈ s.accepted, x ∈ s'.accepted)
    (h1 : c'.id = c.id) (h2 : c'.src = c.src) (h3 : c'.dst = c.dst) (h4 : c'.sess = c.sess) :
    ∀ e m, Acc s c e m → Acc s' c' e m := by
  intro e m h
  unfold Acc at *
  rw [acceptedFor_iff] at *
  obtain ⟨fr, v, g, cf, hmem, hv, hne, hcf, g1, g2, g3, g4⟩ := h
  obtain ⟨cf', hcf', k1, k2, k3⟩ := hp _ _ hcf
  exact ⟨fr, v, g, cf', h4 ▸ hacc _ hmem, hv, h1 ▸ hne, hcf', by rw [k1]; exact g1, by rw [k3, h4]; exact g2,
    by rw [k1, h3]; exact g3, by rw [k2, h2]; exact g4⟩

structure Inv (s : State) : Prop where
  sessLt : ∀ sid t, getSess s sid = some t → sid < s.next
  mapOk : ∀ k sid, (k, sid) ∈ s.sessMap → ∃ t, getSess s sid = some t ∧ (t.a, t.b) = k
  acc : ∀ x ∈ s.accepted, ∃ cf, getSCall s x.2.2.1 = some cf ∧ admitOk x.2.2.2.2.1 x.2.2.2.2.2 cf.src = true
  calls : ∀ id c, getSCall s id = some c → ∃ t, getSess s c.sess = some t ∧ CallInv (Acc s c) t c

/-- Generic preservation lemma: untouched calls (same record, same tracker) are handled here. -/
theorem Inv_update {s s' : State} (hinv : Inv s)
    (hnext : s.next ≤ s'.next)
    (hmap : ∀ k sid, (k, sid) ∈ s'.sessMap → (k, sid) ∈ s.sessMap ∨ ∃ t, getSess s' sid = some t ∧ (t.a, t.b) = k)
    (hlt : ∀ sid t', getSess s' sid = some t' → (getSess s sid).isSome ∨ sid < s'.next)
    (hsp : ∀ sid t, getSess s sid = some t → ∃ t', getSess s' sid = some t' ∧ t'.a = t.a ∧ t'.b = t.b)
    (hcp : CallsPersist s s')
    (hacc : ∀ x ∈ s'.accepted, x ∈ s.accepted ∨
      ∃ cf, getSCall s' x.2.2.1 = some cf ∧ admitOk x.2.2.2.2.1 x.2.2.2.2.2 cf.src = true)
    (haccm : ∀ x ∈ s.accepted, x ∈ s'.accepted)
    (hcalls : ∀ id c', getSCall s' id = some c' →
      (getSCall s id = some c' ∧ getSess s' c'.sess = getSess s c'.sess) ∨
      (∃ t', getSess s' c'.sess = some t' ∧ CallInv (Acc s' c') t' c')) :
    Inv s' := by
  refine ⟨?_, ?_, ?_, ?_⟩
  · intro sid t' h
    rcases hlt sid t' h with h1 | h1
    · obtain ⟨t, ht⟩ := Option.isSome_iff_exists.1 h1
      have := hinv.sessLt _ _ ht
      omega
    · exact h1
  · intro k sid h
    rcases hmap k sid h with h1 | h1
    · obtain ⟨t, ht, hk⟩ := hinv.mapOk _ _ h1
      obtain ⟨t', ht', ha, hb⟩ := hsp _ _ ht
      exact ⟨t', ht', by rw [ha, hb]; exact hk⟩
    · exact h1
  · intro x hx
    rcases hacc x hx with h1 | h1
    · obtain ⟨cf, hcf, had⟩ := hinv.acc x h1
      obtain ⟨cf', hcf', k1, _, _⟩ := hcp _ _ hcf
      exact ⟨cf', hcf', by rw [k1]; exact had⟩
    · exact h1
  · intro id c' hc'
    rcases hcalls id c' hc' with ⟨h1, h2⟩ | h1
    · obtain ⟨t, ht, hci⟩ := hinv.calls _ _ h1
      refine ⟨t, by rw [h2]; exact ht, ?_⟩
      have hm := Acc_mono (c := c') (c' := c') hcp haccm rfl rfl rfl rfl
      exact ⟨hci.key, hci.gen, fun o m a b c => hm _ _ (hci.stored o m a b c),
        fun m hm' => let ⟨e, he, ha⟩ := hci.fwd m hm'; ⟨e, he, hm _ _ ha⟩, hci.wake⟩
    · exact h1

/-- A step of call `d` that rewrites `d`'s record to `d'` and its session tracker `t` to `t'`. -/
theorem Inv_sessStep {s s' : State} {d d' : SCall} {t t' : Sess} (hinv : Inv s)
    (hd : getSCall s d.id = some d) (ht : getSess s d.sess = some t)
    (hd1 : d'.id = d.id) (hd2 : d'.src = d.src) (hd3 : d'.dst = d.dst) (hd4 : d'.sess = d.sess)
    (ht2 : t'.a = t.a) (ht3 : t'.b = t.b)
    (hgS : ∀ id, getSess s' id = if id = d.sess then some t' else getSess s id)
    (hgC : ∀ id, getSCall s' id = if id = d.id then some d' else getSCall s id)
    (hmap : s'.sessMap = s.sessMap) (hnext : s.next ≤ s'.next)
    (hacc : ∀ x ∈ s'.accepted, x ∈ s.accepted ∨
      (x.2.2.1 = d.id ∧ admitOk x.2.2.2.2.1 x.2.2.2.2.2 d.src = true))
    (haccm : ∀ x ∈ s.accepted, x ∈ s'.accepted)
    (hself : (∀ e m, Acc s d e m → Acc s' d' e m) → CallInv (Acc s d) t d → CallInv (Acc s' d') t' d')
    (hother : ∀ c, getSCall s c.id = some c → c.id ≠ d.id → c.sess = d.sess →
      (∀ e m, Acc s c e m → Acc s' c e m) → CallInv (Acc s c) t c → CallInv (Acc s' c) t' c) :
    Inv s' := by
  have hcp : CallsPersist s s' := by
    intro id c hc
    rw [hgC]
    by_cases h : id = d.id
    · subst h
      rw [hd] at hc; cases hc
      exact ⟨d', by simp, hd2, hd3, hd4⟩
    · exact ⟨c, by simp [h, hc], rfl, rfl, rfl⟩
  refine Inv_update hinv hnext ?_ ?_ ?_ hcp ?_ haccm ?_
  · intro k sid hk; left; rw [← hmap]; exact hk
  · intro sid t0 h0
    rw [hgS] at h0
    by_cases h : sid = d.sess
    · subst h; left; rw [ht]; rfl
    · left; simp [h] at h0; rw [h0]; rfl
  · intro sid t0 h0
    rw [hgS]
    by_cases h : sid = d.sess
    · subst h; rw [ht] at h0; cases h0
      exact ⟨t', by simp, ht2, ht3⟩
    · exact ⟨t0, by simp [h, h0], rfl, rfl⟩
  · intro x hx
    rcases hacc x hx with h | ⟨h1, h2⟩
    · left; exact h
    · right; exact ⟨d', by rw [h1, hgC]; simp, by rw [hd2]; exact h2⟩
  · intro id c' hc'
    rw [hgC] at hc'
    by_cases h : id = d.id
    · subst h
      simp at hc'; subst hc'
      right
      obtain ⟨t0, ht0, hci⟩ := hinv.calls _ _ hd
      rw [ht] at ht0; cases ht0
      refine ⟨t', by rw [hd4, hgS]; simp, hself ?_ hci⟩
      exact Acc_mono hcp haccm hd1 hd2 hd3 hd4
    · simp [h] at hc'
      have hid := getSCall_id hc'
      subst hid
      by_cases hs : c'.sess = d.sess
      · right
        obtain ⟨t0, ht0, hci⟩ := hinv.calls _ _ hc'
        rw [hs, ht] at ht0; cases ht0
        refine ⟨t', by rw [hs, hgS]; simp, hother c' hc' h hs ?_ hci⟩
        exact Acc_mono hcp haccm rfl rfl rfl rfl
      · left
        exact ⟨hc', by rw [hgS]; simp [hs]⟩

theorem Inv_SessEq {s s' : State} (hinv : Inv s) (h : SessEq s s') : Inv s' := by
  have hS := h.getSess
  have hC := h.getSCall
  refine Inv_update hinv h.next ?_ ?_ ?_ ?_ ?_ ?_ ?_
  · intro k sid hk; left; rw [← h.sessMap]; exact hk
  · intro sid t' ht; left; rw [← hS, ht]; rfl
  · intro sid t ht; exact ⟨t, by rw [hS]; exact ht, rfl, rfl⟩
  · intro id c hc; exact ⟨c, by rw [hC]; exact hc, rfl, rfl, rfl⟩
  · intro x hx; left; rw [← h.accepted]; exact hx
  · intro x hx; rw [h.accepted]; exact hx
  · intro id c' hc'; left; exact ⟨by rw [← hC]; exact hc', hS _⟩

end SigSess
end Bifrost
