import Bifrost.Lemmas.SigLiveBackB
import Bifrost.Lemmas.SigPairSimE
/-!
Backward preservation of `SigPair.Live` along the events of the composed signaling system, part C:
the tracker / stream-pair level frames (`CliBack`, `ChanBack`) and one lemma per event family.
-/
namespace Bifrost
namespace SigLiveBack
open Bifrost.SigSys Bifrost.SigPair

/-- a tracker holding a call in `s'` held the same call in `s` -/
def CliBack (s s' : SigSys.State) (me peer : Nat) : Prop :=
  ∀ c id, getClient s' me peer = some c → c.call = some id →
    ∃ c0, getClient s me peer = some c0 ∧ c0.call = some id

/-- an open stream pair of `s'` was an open stream pair of `s` -/
def ChanBack (s s' : SigSys.State) (id : Nat) : Prop :=
  ∀ ch, getChan s' id = some ch → ch.open_ = true → ∃ ch0, getChan s id = some ch0 ∧ ch0.open_ = true

theorem CliBack.of_eq {s s' : SigSys.State} (h : s'.clients = s.clients) (me peer : Nat) : CliBack s s' me peer := by
  intro c id hc hid
  exact ⟨c, by simpa [getClient, h] using hc, hid⟩

theorem ChanBack.of_eq {s s' : SigSys.State} (h : s'.chans = s.chans) (id : Nat) : ChanBack s s' id := by
  intro ch hc ho
  exact ⟨ch, by simpa [getChan, h] using hc, ho⟩

theorem live_back_of {s s' : SigSys.State} {A B ia ib : Nat} (hl : Live s' A B ia ib)
    (h1 : CliBack s s' A B) (h2 : CliBack s s' B A) (h3 : ChanBack s s' ia) (h4 : ChanBack s s' ib)
    (h5 : LiveC s'.srv ia → LiveC s.srv ia) (h6 : LiveC s'.srv ib → LiveC s.srv ib) : Live s A B ia ib := by
  obtain ⟨ca, hca, hcia⟩ := hl.cliA
  obtain ⟨cb, hcb, hcib⟩ := hl.cliB
  obtain ⟨cha, hcha, hoa⟩ := hl.chA
  obtain ⟨chb, hchb, hob⟩ := hl.chB
  exact ⟨h1 ca ia hca hcia, h2 cb ib hcb hcib, h3 cha hcha hoa, h4 chb hchb hob, h5 hl.srvA, h6 hl.srvB⟩

/-- one tracker record is rewritten without acquiring a call -/
theorem cliBack_upd {s s1 : SigSys.State} {c c' : Client} {me0 peer0 : Nat} (me peer : Nat)
    (he : s1.clients = s.clients) (hc : getClient s me0 peer0 = some c)
    (h1 : c'.me = c.me) (h2 : c'.peer = c.peer) (h3 : ∀ id, c'.call = some id → c.call = some id) :
    CliBack s (setClient s1 c') me peer := by
  have he' : ∀ x y, getClient s1 x y = getClient s x y := fun x y => by simp [getClient, he]
  obtain ⟨_, hme, hpeer⟩ := getClient_some hc
  intro d id hd hid
  rw [getClient_setClient, he'] at hd
  by_cases hk : me = c'.me ∧ peer = c'.peer
  · rw [if_pos hk] at hd
    have hkk : getClient s me peer = some c := by
      rw [hk.1, hk.2, h1, h2, hme, hpeer]; exact hc
    rw [hkk] at hd
    simp only [Option.map_some, Option.some.injEq] at hd
    subst hd
    exact ⟨c, hkk, h3 id hid⟩
  · rw [if_neg hk] at hd
    exact ⟨d, hd, hid⟩

/-- one stream pair is rewritten without being reopened -/
theorem chanBack_upd {s s1 : SigSys.State} {ch ch' : Chan} {id0 : Nat} (x : Nat)
    (he : s1.chans = s.chans) (hch : getChan s id0 = some ch)
    (h1 : ch'.call = ch.call) (h2 : ch'.open_ = true → ch.open_ = true) :
    ChanBack s (setChan s1 ch') x := by
  have he' : ∀ y, getChan s1 y = getChan s y := fun y => by simp [getChan, he]
  have hid := (getChan_some hch).2
  intro d hd ho
  rw [getChan_setChan, he'] at hd
  by_cases hk : x = ch'.call
  · rw [if_pos hk] at hd
    have hkk : getChan s x = some ch := by rw [hk, h1, hid]; exact hch
    rw [hkk] at hd
    simp only [Option.map_some, Option.some.injEq] at hd
    subst hd
    exact ⟨ch, hkk, h2 ho⟩
  · rw [if_neg hk] at hd
    exact ⟨d, hd, ho⟩

theorem ChanBack.trans {s1 s2 s3 : SigSys.State} {id : Nat} (h1 : ChanBack s1 s2 id) (h2 : ChanBack s2 s3 id) :
    ChanBack s1 s3 id := by
  intro ch hc ho
  obtain ⟨ch2, hc2, ho2⟩ := h2 ch hc ho
  exact h1 ch2 hc2 ho2

theorem CliBack.trans {s1 s2 s3 : SigSys.State} {me peer : Nat} (h1 : CliBack s1 s2 me peer)
    (h2 : CliBack s2 s3 me peer) : CliBack s1 s3 me peer := by
  intro c id hc hid
  obtain ⟨c2, hc2, hid2⟩ := h2 c id hc hid
  exact h1 c2 id hc2 hid2

section
variable {s : SigSys.State} {A B ia ib : Nat}

/-! ### `newClient` -/

theorem back_newClient (me peer : Nat) (hl : Live (SigSys.step s (.newClient me peer)) A B ia ib) :
    Live s A B ia ib := by
  simp only [SigSys.step] at hl
  split at hl
  · exact hl
  · have hcb : ∀ x y, CliBack s { s with clients := s.clients ++ [{ me := me, peer := peer }] } x y := by
      intro x y c id hc hid
      have hc' : (s.clients ++ [({ me := me, peer := peer } : Client)]).find? (fun c => decide (c.me = x ∧ c.peer = y)) = some c := hc
      rw [List.find?_append] at hc'
      cases h0 : s.clients.find? (fun c => decide (c.me = x ∧ c.peer = y)) with
      | some d =>
        rw [h0] at hc'
        simp only [Option.some_or, Option.some.injEq] at hc'
        subst hc'
        exact ⟨d, h0, hid⟩
      | none =>
        rw [h0] at hc'
        simp only [Option.none_or, List.find?_cons, List.find?_nil] at hc'
        split at hc'
        · simp only [Option.some.injEq] at hc'
          subst hc'
          cases hid
        · cases hc'
    exact live_back_of hl (hcb _ _) (hcb _ _) (ChanBack.of_eq rfl _) (ChanBack.of_eq rfl _) (fun h => h) (fun h => h)

/-! ### `disconnect` -/

theorem disconnect_call (me peer : Nat) {c : Client}
    (hc : getClient (SigSys.step s (.disconnect me peer)) me peer = some c) : c.call = none := by
  simp only [SigSys.step] at hc
  split at hc
  · rename_i c0 hc0
    obtain ⟨_, hme, hpeer⟩ := getClient_some hc0
    split at hc
    · rename_i id hid
      have hs1 : getClient (setClient s { c0 with st := SigC.step c0.st .close, call := none }) me peer
          = some { c0 with st := SigC.step c0.st .close, call := none } := by
        rw [getClient_setClient, if_pos ⟨hme.symm, hpeer.symm⟩, hc0]; rfl
      split at hc
      · rw [getClient_setChan, hs1] at hc
        cases hc; rfl
      · rw [hs1] at hc
        cases hc; rfl
    · rename_i hn
      rw [hc0] at hc
      cases hc
      exact hn
  · rename_i hn
    rw [hn] at hc
    cases hc

theorem back_disconnect (me peer : Nat) (hl : Live (SigSys.step s (.disconnect me peer)) A B ia ib) :
    Live s A B ia ib ∧ ¬ isPair A B me peer := by
  constructor
  · simp only [SigSys.step] at hl
    split at hl
    · rename_i c hc
      split at hl
      · rename_i id hid
        have hcb : ∀ x y, CliBack s (setClient s { c with st := SigC.step c.st .close, call := none }) x y :=
          fun x y => cliBack_upd x y rfl hc rfl rfl (by intro id h; cases h)
        split at hl
        · rename_i ch hch
          have hchb : ∀ x, ChanBack s (setChan (setClient s { c with st := SigC.step c.st .close, call := none })
              { ch with open_ := false, s2c := [] }) x :=
            fun x => chanBack_upd x rfl (ch := ch) hch rfl (by intro h; cases h)
          exact live_back_of hl (hcb _ _) (hcb _ _) (hchb _) (hchb _) (fun h => h) (fun h => h)
        · exact live_back_of hl (hcb _ _) (hcb _ _) (ChanBack.of_eq rfl _) (ChanBack.of_eq rfl _) (fun h => h) (fun h => h)
      · exact hl
    · exact hl
  · rintro (⟨rfl, rfl⟩ | ⟨rfl, rfl⟩)
    · obtain ⟨c, hc, hid⟩ := hl.cliA
      rw [disconnect_call _ _ hc] at hid
      cases hid
    · obtain ⟨c, hc, hid⟩ := hl.cliB
      rw [disconnect_call _ _ hc] at hid
      cases hid

/-! ### tracker-internal steps -/

theorem back_lift (me peer : Nat) (f : SigC.State → SigC.State) (hl : Live (liftClient s me peer f) A B ia ib) :
    Live s A B ia ib := by
  unfold liftClient at hl
  split at hl
  · rename_i c hc
    have hcb : ∀ x y, CliBack s (setClient s { c with st := f c.st }) x y :=
      fun x y => cliBack_upd x y rfl hc rfl rfl (fun _ h => h)
    exact live_back_of hl (hcb _ _) (hcb _ _) (ChanBack.of_eq rfl _) (ChanBack.of_eq rfl _) (fun h => h) (fun h => h)
  · exact hl

theorem back_setCli {me0 peer0 : Nat} {c c' : Client} (hc : getClient s me0 peer0 = some c)
    (hl : Live (setClient s c') A B ia ib) (h1 : c'.me = c.me) (h2 : c'.peer = c.peer) (h3 : c'.call = c.call) :
    Live s A B ia ib := by
  have hcb : ∀ x y, CliBack s (setClient s c') x y :=
    fun x y => cliBack_upd x y rfl hc h1 h2 (fun _ h => by rw [← h3]; exact h)
  exact live_back_of hl (hcb _ _) (hcb _ _) (ChanBack.of_eq rfl _) (ChanBack.of_eq rfl _) (fun h => h) (fun h => h)

theorem back_setBoth {me0 peer0 id0 : Nat} {c c' : Client} {ch ch' : Chan} (hc : getClient s me0 peer0 = some c)
    (hch : getChan s id0 = some ch) (hl : Live (setChan (setClient s c') ch') A B ia ib)
    (h1 : c'.me = c.me) (h2 : c'.peer = c.peer) (h3 : c'.call = c.call)
    (h4 : ch'.call = ch.call) (h5 : ch'.open_ = true → ch.open_ = true) : Live s A B ia ib := by
  have hcb : ∀ x y, CliBack s (setClient s c') x y :=
    fun x y => cliBack_upd x y rfl hc h1 h2 (fun _ h => by rw [← h3]; exact h)
  have hchb : ∀ x, ChanBack s (setChan (setClient s c') ch') x :=
    fun x => chanBack_upd x rfl (ch := ch) hch h4 h5
  exact live_back_of hl (hcb _ _) (hcb _ _) (hchb _) (hchb _) (fun h => h) (fun h => h)

theorem back_clientTx (me peer : Nat) (hl : Live (SigSys.step s (.clientTx me peer)) A B ia ib) :
    Live s A B ia ib := by
  simp only [SigSys.step] at hl
  split at hl
  · rename_i c hc
    split at hl
    · rename_i id hid
      split at hl
      · rename_i r ch _ hch
        exact back_setBoth hc hch hl rfl rfl rfl rfl (fun h => h)
      · exact back_setCli hc hl rfl rfl rfl
    · exact hl
  · exact hl

theorem back_clientRx (me peer : Nat) (hl : Live (SigSys.step s (.clientRx me peer)) A B ia ib) :
    Live s A B ia ib := by
  simp only [SigSys.step] at hl
  split at hl
  · rename_i c hc
    split at hl
    · rename_i id hid
      split at hl
      · rename_i ch hch
        split at hl
        · rename_i r rest hs2c
          exact back_setBoth hc hch hl rfl rfl rfl rfl (fun h => h)
        · exact hl
      · exact hl
    · exact hl
  · exact hl

/-! ### relay steps -/

theorem back_srvLoop (c : Nat) (hl : Live (SigSys.step s (.srvLoop c)) A B ia ib) : Live s A B ia ib := by
  simp only [SigSys.step] at hl
  split at hl
  · have hb : Back s.srv (Sig.sLoop s.srv c) (fun _ => True) := back_sLoop _ _ _
    exact live_back_of hl (CliBack.of_eq rfl _ _) (CliBack.of_eq rfl _ _) (ChanBack.of_eq rfl _) (ChanBack.of_eq rfl _)
      (hb.live trivial) (hb.live trivial)
  · exact hl

theorem back_srvTx (c : Nat) (hl : Live (SigSys.step s (.srvTx c)) A B ia ib) : Live s A B ia ib := by
  simp only [SigSys.step] at hl
  split at hl
  · rename_i sc ch hsc hch
    split at hl
    · rename_i r rest hout
      split at hl
      · have hb : Back s.srv ((Sig.sTx s.srv c r).getD s.srv) (fun _ => True) := back_sTx _ _ _ _
        split at hl
        · have hchb : ∀ x, ChanBack s (setChan { s with srv := Sig.step s.srv (.send_ c r) } { ch with s2c := ch.s2c ++ [r] }) x :=
            fun x => chanBack_upd x rfl (ch := ch) hch rfl (fun h => h)
          exact live_back_of hl (CliBack.of_eq rfl _ _) (CliBack.of_eq rfl _ _) (hchb _) (hchb _)
            (hb.live trivial) (hb.live trivial)
        · exact live_back_of hl (CliBack.of_eq rfl _ _) (CliBack.of_eq rfl _ _) (ChanBack.of_eq rfl _) (ChanBack.of_eq rfl _)
            (hb.live trivial) (hb.live trivial)
      · exact hl
    · exact hl
  · exact hl

theorem back_srvRx (c : Nat) (hl : Live (SigSys.step s (.srvRx c)) A B ia ib) : Live s A B ia ib := by
  simp only [SigSys.step] at hl
  split at hl
  · rename_i ch sc hch hsc
    split at hl
    · rename_i r rest hc2s
      have key : ∀ ev : Sig.Ev, Back s.srv (Sig.step s.srv ev) (fun _ => True) →
          Live (setChan { s with srv := Sig.step s.srv ev } { ch with c2s := rest }) A B ia ib → Live s A B ia ib := by
        intro ev hb hl
        have hchb : ∀ x, ChanBack s (setChan { s with srv := Sig.step s.srv ev } { ch with c2s := rest }) x :=
          fun x => chanBack_upd x rfl (ch := ch) hch rfl (fun h => h)
        exact live_back_of hl (CliBack.of_eq rfl _ _) (CliBack.of_eq rfl _ _) (hchb _) (hchb _)
          (hb.live trivial) (hb.live trivial)
      cases r with
      | send e m =>
        simp only [] at hl
        split at hl
        · exact key _ (back_sSend _ _ _ _ _ _ _) hl
        · exact hl
      | ack e k =>
        simp only [] at hl
        split at hl
        · exact key _ (back_sAck _ _ _ _ _) hl
        · exact hl
      | clear e k =>
        simp only [] at hl
        split at hl
        · exact key _ (back_sClear _ _ _ _ _) hl
        · exact hl
    · exact hl
  · exact hl

theorem back_srvEnd (c : Nat) (hl : Live (SigSys.step s (.srvEnd c)) A B ia ib) :
    Live s A B ia ib ∧ c ≠ ia ∧ c ≠ ib := by
  simp only [SigSys.step] at hl
  split at hl
  · rename_i hen
    have hb : Back s.srv (Sig.sEnd s.srv c) (fun _ => True) := back_sEnd _ _ _
    refine ⟨live_back_of hl (CliBack.of_eq rfl _ _) (CliBack.of_eq rfl _ _) (ChanBack.of_eq rfl _) (ChanBack.of_eq rfl _)
      (hb.live trivial) (hb.live trivial), ?_⟩
    have hex : ∃ cc, Sig.getSCall s.srv c = some cc := by
      simp only [Sig.enabled] at hen
      split at hen
      · exact ⟨_, by assumption⟩
      · cases hen
    obtain ⟨cc, hcc⟩ := hex
    obtain ⟨c', hc', he'⟩ := sEnd_ended hcc
    constructor
    · rintro rfl
      obtain ⟨ca, hca, hea, _⟩ := hl.srvA
      have : Sig.getSCall (Sig.sEnd s.srv c) c = some ca := hca
      rw [hc'] at this
      cases this
      rw [he'] at hea
      cases hea
    · rintro rfl
      obtain ⟨ca, hca, hea, _⟩ := hl.srvB
      have : Sig.getSCall (Sig.sEnd s.srv c) c = some ca := hca
      rw [hc'] at this
      cases this
      rw [he'] at hea
      cases hea
  · rename_i hen
    refine ⟨hl, ?_, ?_⟩
    · rintro rfl
      obtain ⟨ca, hca, hea, _⟩ := hl.srvA
      exact hen (by simp [Sig.enabled, hca, hea])
    · rintro rfl
      obtain ⟨ca, hca, hea, _⟩ := hl.srvB
      exact hen (by simp [Sig.enabled, hca, hea])

end
end SigLiveBack
end Bifrost
