import Bifrost.Lemmas.SigPairTok
/-!
C23 liveness, stable-pair machine: the per-side invariant `HalfInv` (tracker reachable, reader
alive, epochs bounded, announcement bookkeeping, wake-up condition) is preserved by every action
of either side; `pinv_step`: so is the whole pair invariant `PInv`.
-/
namespace Bifrost
namespace SigPair
open Bifrost.SigSys Bifrost.SigPairCli
set_option linter.unusedSimpArgs false

/-! ### tracker facts -/

theorem clAfter_reach {h : Half} (hr : SigC.Reachable h.cl) (a : Act) : SigC.Reachable (clAfter h a) := by
  cases a <;> simp only [clAfter]
  case sendStart m => exact SigSysCli.reachable_guard hr _
  case sendStep id => exact SigSysCli.reachable_guard hr _
  case recvStep => exact SigC.Reachable.step .recvStep hr rfl
  case tx => exact SigC.Reachable.step .txLoop hr rfl
  case rx =>
    cases h.dn with
    | nil => exact hr
    | cons r rest =>
      cases r <;> simp only [rxEv]
      case opened e => exact SigC.Reachable.step _ hr rfl
      case closed => exact SigC.Reachable.step _ hr rfl
      case ack k => exact SigC.Reachable.step _ hr rfl
      case clear k => exact SigC.Reachable.step _ hr rfl
      case recv m => exact SigC.Reachable.step _ hr rfl
      all_goals exact hr
  all_goals exact hr

theorem txLoop_open (s : SigC.State) : (SigC.txLoop s).1.open_ = s.open_ := by
  unfold SigC.txLoop
  repeat' split
  all_goals rfl

theorem txLoop_epoch {s : SigC.State} {r : SigC.Req} (h : (SigC.txLoop s).2 = some r) :
    s.open_ = some (reqEpoch r) := by
  unfold SigC.txLoop at h
  repeat' split at h
  all_goals first
    | (simp at h; done)
    | (simp only [Option.some.injEq] at h; subst h; simp_all [reqEpoch])

/-- the tracker's `open_` after one response is what `syncAfter` computes -/
theorem rxEv_open (r : Sig.Resp) (s : SigC.State) (l : List Sig.Resp) :
    syncAfter (rxEv r s).open_ l = syncAfter s.open_ (r :: l) := by
  cases r <;> simp only [rxEv, syncAfter, SigC.step]
  case opened e =>
    unfold SigC.opened
    split
    · rename_i h; rw [h]
    · rfl
  case closed => rfl
  case ack k =>
    unfold SigC.ackMsg
    split
    · split <;> rfl
    · rfl
  case clear k =>
    unfold SigC.clearMsg
    split <;> rfl
  case recv m => rfl

theorem clAfter_open {h : Half} (hr : SigC.Reachable h.cl) (a : Act) (ha : a ≠ .rx) :
    (clAfter h a).open_ = h.cl.open_ := by
  cases a <;> simp only [clAfter]
  case sendStart m => exact (guarded_sendStart_fields _ _).2.2.2.2.1
  case sendStep id => exact (guarded_sendStep hr id).1
  case recvStep =>
    unfold SigC.recvStep
    repeat' split
    all_goals rfl
  case tx => exact txLoop_open _
  case rx => exact absurd rfl ha

theorem mem_syncAfter_le {ep : Nat} {l : List Sig.Resp} (hl : ∀ e, Sig.Resp.opened e ∈ l → e ≤ ep) :
    ∀ {o : Option Nat}, (∀ e, o = some e → e ≤ ep) → ∀ e, syncAfter o l = some e → e ≤ ep := by
  induction l with
  | nil => intro o ho e h; exact ho e h
  | cons r l ih =>
    intro o ho e h
    have hl' : ∀ e, Sig.Resp.opened e ∈ l → e ≤ ep := fun e he => hl e (List.mem_cons_of_mem _ he)
    cases r <;> simp only [syncAfter] at h
    case opened e0 => exact ih hl' (o := some e0) (fun e he => by cases he; exact hl _ (by simp)) e h
    case closed => exact ih hl' (o := none) (fun e he => by cases he) e h
    all_goals exact ih hl' ho e h


/-! ### the side that does not act -/

theorem relayReq_other (p : PState) (r : SigC.Req) :
    ∃ a', (relayReq p r).y = { p.y with att := a' } ∧ p.gen ≤ (relayReq p r).gen ∧
      ((relayReq p r).gen = p.gen → (a'.recv = p.y.att.recv ∨ a'.recv = none) ∧ a'.outAcked = p.y.att.outAcked) := by
  cases r <;> simp only [relayReq] <;> (repeat' split)
  all_goals first
    | exact ⟨p.y.att, rfl, Nat.le_refl _, fun _ => ⟨Or.inl rfl, rfl⟩⟩
    | exact ⟨_, rfl, Nat.le_succ _, fun h => absurd h (by simp)⟩
    | exact ⟨_, rfl, Nat.le_refl _, fun _ => ⟨Or.inr rfl, rfl⟩⟩
    | exact ⟨_, rfl, Nat.le_refl _, fun _ => ⟨Or.inl rfl, rfl⟩⟩

theorem stepX_other (p : PState) (a : Act) :
    ∃ a', (stepX p a).y = { p.y with att := a' } ∧ p.gen ≤ (stepX p a).gen ∧
      ((stepX p a).gen = p.gen → (a'.recv = p.y.att.recv ∨ a'.recv = none) ∧ a'.outAcked = p.y.att.outAcked) := by
  have same : ∀ q : PState, q.y = p.y → q.gen = p.gen →
      ∃ a', q.y = { p.y with att := a' } ∧ p.gen ≤ q.gen ∧
        (q.gen = p.gen → (a'.recv = p.y.att.recv ∨ a'.recv = none) ∧ a'.outAcked = p.y.att.outAcked) :=
    fun q h1 h2 => ⟨p.y.att, h1, by omega, fun _ => ⟨Or.inl rfl, rfl⟩⟩
  cases a with
  | rx =>
    have h : (stepX p .rx).y = p.y ∧ (stepX p .rx).gen = p.gen := by
      simp only [stepX]; cases p.x.dn <;> exact ⟨rfl, rfl⟩
    exact same _ h.1 h.2
  | srvTx =>
    have h : (stepX p .srvTx).y = p.y ∧ (stepX p .srvTx).gen = p.gen := by
      simp only [stepX]; cases p.x.box <;> exact ⟨rfl, rfl⟩
    exact same _ h.1 h.2
  | srvRx =>
    by_cases hrd : p.x.rd = true
    · have h : stepX p .srvRx = p := by simp [stepX, hrd]
      rw [h]; exact same _ rfl rfl
    · cases hu : p.x.up with
      | nil =>
        have h : stepX p .srvRx = p := by simp [stepX, hu]
        rw [h]; exact same _ rfl rfl
      | cons r rest =>
        have h : stepX p .srvRx = relayReq { p with x := { p.x with up := rest } } r := by simp [stepX, hrd, hu]
        rw [h]; exact relayReq_other _ r
  | srvLoop =>
    by_cases hen : p.x.box = [] ∧ p.x.wait < p.gen
    · have h : (stepX p .srvLoop).y = p.y ∧ p.gen ≤ (stepX p .srvLoop).gen := by
        simp only [stepX, hen, and_self, if_true, true_and]
        split <;> omega
      exact ⟨p.y.att, h.1, h.2, fun _ => ⟨Or.inl rfl, rfl⟩⟩
    · have h : stepX p .srvLoop = p := by simp only [stepX]; simp [hen]
      rw [h]; exact same _ rfl rfl
  | sendStart m => exact same _ rfl rfl
  | sendStep id => exact same _ rfl rfl
  | recvStep => exact same _ rfl rfl
  | tx => exact same _ rfl rfl

theorem half_other {p : PState} (a : Act) (h : HalfInv p.y p.gen p.ep) :
    HalfInv (stepX p a).y (stepX p a).gen p.ep := by
  obtain ⟨a', h1, h2, h3⟩ := stepX_other p a
  rw [h1]
  obtain ⟨r1, r2, r3, r4, r5, r6, r7, ⟨w1, w2⟩⟩ := h
  refine ⟨r1, r2, r3, r4, r5, r6, r7, ⟨Nat.le_trans w1 h2, ?_⟩⟩
  intro hg
  have hge : (stepX p a).gen = p.gen := by
    have : (stepX p a).gen ≤ p.y.wait := hg
    omega
  obtain ⟨g1, g2, g3⟩ := w2 (by show p.gen ≤ p.y.wait; have : (stepX p a).gen ≤ p.y.wait := hg; omega)
  obtain ⟨k1, k2⟩ := h3 hge
  refine ⟨g1, ?_, by simp only; rw [k2]; exact g3⟩
  simp only
  rcases k1 with k1 | k1
  · rw [k1]; exact g2
  · exact k1


/-! ### the side that acts -/

theorem relayReq_self (p : PState) (r : SigC.Req) :
    ∃ ax rd, (relayReq p r).x = { p.x with att := ax, rd := rd } ∧ ax.recv = p.x.att.recv ∧
      ax.outAcked = p.x.att.outAcked ∧ (reqEpoch r ≤ p.ep → rd = p.x.rd) ∧ p.gen ≤ (relayReq p r).gen := by
  cases r <;> simp only [relayReq, reqEpoch] <;> (repeat' split)
  all_goals first
    | exact ⟨p.x.att, true, rfl, rfl, rfl, fun h => by omega, Nat.le_refl _⟩
    | exact ⟨p.x.att, p.x.rd, rfl, rfl, rfl, fun _ => rfl, Nat.le_refl _⟩
    | exact ⟨p.x.att, p.x.rd, rfl, rfl, rfl, fun _ => rfl, Nat.le_succ _⟩
    | exact ⟨_, p.x.rd, rfl, rfl, rfl, fun _ => rfl, Nat.le_succ _⟩

theorem syncAfter_loopOut (ann : Option Nat) (ep : Nat) (o : Sig.Att) (op : Option Nat) :
    syncAfter op (loopOut ann ep o) = if ann ≠ some ep then some ep else op := by
  unfold loopOut
  cases o.outAcked <;> cases o.recvClear <;> cases o.recv <;> by_cases h : ann = some ep <;>
    simp [syncAfter, h]

theorem opened_mem_loopOut {ann : Option Nat} {ep e : Nat} {o : Sig.Att}
    (h : Sig.Resp.opened e ∈ loopOut ann ep o) : e = ep := by
  unfold loopOut at h
  obtain ⟨call, recv, recvSent, recvClear, outAcked⟩ := o
  cases outAcked <;> cases recvClear <;> cases recv <;> by_cases h' : ann = some ep <;>
    simp [h'] at h <;> exact h

theorem half_self {p : PState} (a : Act) (h : HalfInv p.x p.gen p.ep) :
    HalfInv (stepX p a).x (stepX p a).gen p.ep := by
  obtain ⟨r1, r2, r3, r4, r5, r6, r7, ⟨w1, w2⟩⟩ := h
  have hcl : ∀ (a : Act), a ≠ .rx → a ≠ .tx →
      HalfInv { p.x with cl := clAfter p.x a } p.gen p.ep := by
    intro a h1 h2
    have ho := clAfter_open r1 a h1
    exact ⟨clAfter_reach r1 a, r2, r3, by simp only [ho]; exact r4, r5, r6, by simp only [ho]; exact r7, ⟨w1, w2⟩⟩
  cases a with
  | sendStart m => exact hcl (.sendStart m) (by simp) (by simp)
  | sendStep id => exact hcl (.sendStep id) (by simp) (by simp)
  | recvStep => exact hcl .recvStep (by simp) (by simp)
  | tx =>
    have ho := clAfter_open r1 .tx (by simp)
    simp only [clAfter] at ho
    refine ⟨clAfter_reach r1 .tx, r2, ?_, by simp only [stepX, ho]; exact r4, r5, r6,
      by simp only [stepX, ho]; exact r7, ⟨w1, w2⟩⟩
    intro r hr
    simp only [stepX, List.mem_append] at hr
    rcases hr with hr | hr
    · exact r3 r hr
    · cases ht : (SigC.txLoop p.x.cl).2 with
      | none => simp [ht] at hr
      | some r' =>
        simp only [ht, Option.toList_some, List.mem_singleton] at hr
        subst hr
        exact r4 _ (txLoop_epoch ht)
  | rx =>
    cases hd : p.x.dn with
    | nil =>
      have : stepX p .rx = p := by simp [stepX, hd]
      rw [this]; exact ⟨r1, r2, r3, r4, r5, r6, r7, ⟨w1, w2⟩⟩
    | cons r rest =>
      have hst : stepX p .rx = { p with x := { p.x with cl := rxEv r p.x.cl, dn := rest } } := by simp [stepX, hd]
      rw [hst]
      have hre := clAfter_reach r1 .rx
      simp only [clAfter, hd] at hre
      rw [hd] at r6 r7
      have hopen : (rxEv r p.x.cl).open_ = syncAfter p.x.cl.open_ [r] := by
        have := rxEv_open r p.x.cl []
        simpa [syncAfter] using this
      refine ⟨hre, r2, r3, ?_, r5, ?_, ?_, ⟨w1, w2⟩⟩
      · intro e he
        rw [hopen] at he
        exact mem_syncAfter_le (l := [r]) (fun e' h' => r6 e' (by
          simp only [List.mem_singleton] at h'; subst h'; simp)) r4 e he
      · intro e he
        exact r6 e (List.mem_cons_of_mem _ he)
      · intro ha
        have := r7 ha
        simp only [List.cons_append] at this
        rw [← rxEv_open] at this
        exact this
  | srvRx =>
    by_cases hrd : p.x.rd = true
    · have : stepX p .srvRx = p := by simp [stepX, hrd]
      rw [this]; exact ⟨r1, r2, r3, r4, r5, r6, r7, ⟨w1, w2⟩⟩
    · cases hu : p.x.up with
      | nil =>
        have : stepX p .srvRx = p := by simp [stepX, hu]
        rw [this]; exact ⟨r1, r2, r3, r4, r5, r6, r7, ⟨w1, w2⟩⟩
      | cons r rest =>
        have hst : stepX p .srvRx = relayReq { p with x := { p.x with up := rest } } r := by simp [stepX, hrd, hu]
        rw [hst]
        obtain ⟨ax, rd, e1, e2, e3, e4, e5⟩ := relayReq_self { p with x := { p.x with up := rest } } r
        rw [e1]
        have hle : reqEpoch r ≤ p.ep := r3 r (by simp [hu])
        refine ⟨r1, by simp only; rw [e4 hle]; exact r2, ?_, r4, r5, r6, r7, ⟨Nat.le_trans w1 e5, ?_⟩⟩
        · intro r' hr'
          exact r3 r' (by rw [hu]; exact List.mem_cons_of_mem _ hr')
        · intro hg
          have hg' : p.gen ≤ p.x.wait := Nat.le_trans e5 hg
          obtain ⟨g1, g2, g3⟩ := w2 hg'
          exact ⟨g1, by simp only; rw [e2]; exact g2, by simp only; rw [e3]; exact g3⟩
  | srvLoop =>
    by_cases hen : p.x.box = [] ∧ p.x.wait < p.gen
    · have hst : stepX p .srvLoop =
          { p with x := { p.x with att := loopAtt p.x.att, wait := p.gen, ann := some p.ep,
                                   box := loopOut p.x.ann p.ep p.x.att },
                   gen := if p.x.att.recv.isSome then p.gen + 1 else p.gen } := by
        simp only [stepX, hen, and_self, if_true, List.nil_append]
      rw [hst]
      rw [hen.1, List.append_nil] at r6 r7
      refine ⟨r1, r2, r3, r4, by intro e he; cases he; exact Nat.le_refl _, ?_, ?_, ⟨?_, ?_⟩⟩
      · intro e he
        simp only [List.mem_append] at he
        rcases he with he | he
        · exact r6 e he
        · rw [opened_mem_loopOut he]; exact Nat.le_refl _
      · intro _
        simp only
        rw [syncAfter_append, syncAfter_loopOut]
        split
        · rfl
        · rename_i hne
          exact r7 (Classical.not_not.1 hne)
      · simp only; split <;> omega
      · intro hg
        simp only at hg
        have hrecv : p.x.att.recv = none := by
          cases hr : p.x.att.recv with
          | none => rfl
          | some mm => simp [hr] at hg; omega
        simp [loopAtt, hrecv]
    · have : stepX p .srvLoop = p := by simp only [stepX]; simp [hen]
      rw [this]; exact ⟨r1, r2, r3, r4, r5, r6, r7, ⟨w1, w2⟩⟩
  | srvTx =>
    cases hb : p.x.box with
    | nil =>
      have : stepX p .srvTx = p := by simp [stepX, hb]
      rw [this]; exact ⟨r1, r2, r3, r4, r5, r6, r7, ⟨w1, w2⟩⟩
    | cons r rest =>
      have hst : stepX p .srvTx = { p with x := { p.x with box := rest, dn := p.x.dn ++ [r] } } := by
        simp [stepX, hb]
      rw [hst]
      rw [hb] at r6 r7
      refine ⟨r1, r2, r3, r4, r5, ?_, ?_, ⟨w1, w2⟩⟩
      · intro e he
        exact r6 e (by simpa [List.append_assoc] using he)
      · intro ha
        have := r7 ha
        simpa [List.append_assoc] using this

/-! ### the token invariant and the pair invariant -/

theorem tk_sent_now {p : PState} {m : SigC.Msg} (ho : p.x.cl.open_ = some p.ep) (h1 : p.x.cl.out = some m)
    (h2 : p.x.cl.outSent = false) (h3 : p.x.cl.outCancel = false) :
    Tk (step p (true, .tx)) m .sndUp p.x.up.length := by
  have hstep : step p (true, .tx) =
      { p with x := { p.x with cl := (SigC.txLoop p.x.cl).1, up := p.x.up ++ (SigC.txLoop p.x.cl).2.toList } } := by
    simp [step, stepX]
  rw [hstep]
  have : (SigC.txLoop p.x.cl).2 = some (.send p.ep m) := by simp [SigC.txLoop, ho, h1, h2, h3]
  simp only [Tk, this, Option.toList_some]
  exact ⟨[], At.snoc _ _, onlyAckQ_nil⟩

theorem tok_step {p : PState} (hinv : PInv p) (sd : Bool) (a : Act) : Tok (step p (sd, a)) := by
  intro m ho' hs'
  rw [step_ep] at ho'
  rcases sent_back hinv.hx sd a hs' ho' with ⟨hs, ho⟩ | ⟨rfl, rfl, ho, h1, h2, h3, _⟩
  · obtain ⟨st, j, ht⟩ := hinv.tx m ho hs
    obtain ⟨st', j', h, _⟩ := tk_step hinv.hy hs sd a hs' ht
    exact ⟨st', j', h⟩
  · exact ⟨.sndUp, _, tk_sent_now ho h1 h2 h3⟩

theorem stepX_gen_ep (p : PState) (a : Act) : (stepX p a).ep = p.ep := stepX_ep p a

theorem pinv_step {p : PState} (h : PInv p) (sa : Bool × Act) : PInv (step p sa) := by
  obtain ⟨sd, a⟩ := sa
  refine ⟨?_, ?_, tok_step h sd a, ?_⟩
  · cases sd with
    | true =>
      have := half_self a h.hx
      simpa [step, stepX_ep] using this
    | false =>
      have := half_other (p := p.swap) a (by simpa using h.hx)
      simpa [step, stepX_ep] using this
  · cases sd with
    | true =>
      have := half_other a h.hy
      simpa [step, stepX_ep] using this
    | false =>
      have := half_self (p := p.swap) a (by simpa using h.hy)
      simpa [step, stepX_ep] using this
  · rw [step_swap]
    exact tok_step h.swap (!sd) a

end SigPair
end Bifrost

