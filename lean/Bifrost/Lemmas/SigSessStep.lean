import Bifrost.Lemmas.SigSessInv
/-! Session-side invariant: preservation by every step. -/
namespace Bifrost
namespace SigSess
open Bifrost.Sig

theorem hgS_same {s : State} {sid : Nat} {t : Sess} (ht : getSess s sid = some t) (id : Nat) :
    getSess s id = if id = sid then some t else getSess s id := by
  split
  · subst_vars; exact ht
  · rfl

theorem hgC_same {s : State} {cid : Nat} {c : SCall} (hc : getSCall s cid = some c) (id : Nat) :
    getSCall s id = if id = cid then some c else getSCall s id := by
  split
  · subst_vars; exact hc
  · rfl

theorem key_opposite {c d : SCall} {a b : Nat} (hc : (sessKey c.src c.dst).1 = (a, b))
    (hd : (sessKey d.src d.dst).1 = (a, b)) (h : c.isA ≠ d.isA) : d.src = c.dst ∧ d.dst = c.src := by
  unfold SCall.isA sessKey at *
  split at hc <;> split at hd <;> simp_all <;> omega

/-- a step that only changes irrelevant fields of the call record `d` -/
theorem Inv_setSCall {s : State} {d d' : SCall} {t : Sess} (hinv : Inv s)
    (hd : getSCall s d.id = some d) (ht : getSess s d.sess = some t)
    (hd1 : d'.id = d.id) (hd2 : d'.src = d.src) (hd3 : d'.dst = d.dst) (hd4 : d'.sess = d.sess)
    (hself : (∀ e m, Acc s d e m → Acc (setSCall s d') d' e m) → CallInv (Acc s d) t d →
      CallInv (Acc (setSCall s d') d') t d') :
    Inv (setSCall s d') := by
  refine Inv_sessStep (t := t) (t' := t) hinv hd ht hd1 hd2 hd3 hd4 rfl rfl ?_ ?_ rfl (Nat.le_refl _) ?_ ?_ hself ?_
  · intro id; exact hgS_same ht id
  · intro id; exact getSCall_setSCall_of hd hd1 id
  · intro x hx; exact Or.inl hx
  · intro x hx; exact hx
  · intro c _ _ _ hm hci
    exact ⟨hci.key, hci.gen, fun o m a b c => hm _ _ (hci.stored o m a b c),
        fun m hm' => let ⟨e, he, ha⟩ := hci.fwd m hm'; ⟨e, he, hm _ _ ha⟩, hci.wake⟩

theorem Inv_readerDone {s : State} {d : SCall} (hinv : Inv s) (hd : getSCall s d.id = some d) :
    Inv (setSCall s { d with readerDone := true }) := by
  obtain ⟨t, ht, _⟩ := hinv.calls _ _ hd
  exact Inv_setSCall hinv hd ht rfl rfl rfl rfl (fun hm hci => hci.readerDone hm)

theorem Inv_sTx {s : State} (hinv : Inv s) (call : Nat) (r : Resp) : Inv ((sTx s call r).getD s) := by
  unfold sTx
  split
  · exact hinv
  · rename_i d hd
    have hid := getSCall_id hd; subst hid
    obtain ⟨t, ht, _⟩ := hinv.calls _ _ hd
    split
    · rename_i x rest hout
      split
      · exact Inv_setSCall hinv hd ht rfl rfl rfl rfl (fun hm hci => hci.tx hm hout)
      · exact hinv
    · exact hinv

theorem Inv_sSend {s : State} (hinv : Inv s) (call epoch : Nat) (m : Msg) (v : Bool) (g : Nat) :
    Inv (sSend s call epoch m v g) := by
  unfold sSend
  split
  · exact hinv
  · rename_i d hd
    have hid := getSCall_id hd; subst hid
    split
    · exact Inv_readerDone hinv hd
    · rename_i hadm
      split
      · exact hinv
      · rename_i t ht
        split
        · exact Inv_readerDone hinv hd
        · split
          · exact hinv
          · rename_i h1 h2
            have hep : epoch = t.seqno := by omega
            subst hep
            split
            · exact hinv
            · rename_i ours other hp
              have hsid := getSess_sid ht
              obtain ⟨t0, ht0, hcid⟩ := hinv.calls _ _ hd
              rw [ht] at ht0; cases ht0
              have hadm' : admitOk v g d.src = true := by simpa using hadm
              refine Inv_sessStep (s' := { setSess s (sendSess t d.isA ours other m) with
                  accepted := (t.sid, t.seqno, d.id, m, v, g) :: s.accepted })
                (d' := d) (t := t) (t' := sendSess t d.isA ours other m)
                hinv hd ht rfl rfl rfl rfl (by simp) (by simp) ?_ ?_ rfl (Nat.le_refl _) ?_ ?_ ?_ ?_
              · intro id
                exact getSess_setSess_of ht (by simp [hsid]) id
              · intro id; exact hgC_same hd id
              · intro x hx
                rcases List.mem_cons.1 hx with h | h
                · right; subst h; exact ⟨rfl, hadm'⟩
                · left; exact h
              · intro x hx; exact List.mem_cons_of_mem _ hx
              · intro hm hci; exact hci.send hm hp m (fun h => absurd rfl h)
              · intro c hc hne hs hm hci
                refine hci.send hm hp m (fun hisA => ?_)
                unfold Acc
                rw [acceptedFor_iff]
                obtain ⟨k1, k2⟩ := key_opposite hci.key hcid.key hisA
                simp only [admitOk, Bool.and_eq_true, decide_eq_true_eq] at hadm'
                exact ⟨d.id, v, g, d, by rw [hs, ← hsid]; exact List.mem_cons_self, hadm'.1, fun h => hne h.symm,
                  hd, hadm'.2, hs.symm, k1, k2⟩


/-- a step of call `d` that only rewrites its session tracker -/
theorem Inv_setSess {s : State} {d : SCall} {t t' : Sess} (hinv : Inv s)
    (hd : getSCall s d.id = some d) (ht : getSess s d.sess = some t)
    (ht1 : t'.sid = t.sid) (ht2 : t'.a = t.a) (ht3 : t'.b = t.b)
    (hall : ∀ c, getSCall s c.id = some c → c.sess = d.sess →
      (∀ e m, Acc s c e m → Acc (setSess s t') c e m) → CallInv (Acc s c) t c → CallInv (Acc (setSess s t') c) t' c) :
    Inv (setSess s t') := by
  refine Inv_sessStep (d' := d) (t := t) (t' := t') hinv hd ht rfl rfl rfl rfl ht2 ht3 ?_ ?_ rfl (Nat.le_refl _) ?_ ?_ ?_ ?_
  · intro id; exact getSess_setSess_of ht (by rw [ht1]; exact getSess_sid ht) id
  · intro id; exact hgC_same hd id
  · intro x hx; exact Or.inl hx
  · intro x hx; exact hx
  · exact hall d hd rfl
  · intro c hc _ hs; exact hall c hc hs

theorem Inv_sAck {s : State} (hinv : Inv s) (call epoch k : Nat) : Inv (sAck s call epoch k) := by
  unfold sAck
  split
  · exact hinv
  · rename_i d hd
    have hid := getSCall_id hd; subst hid
    split
    · exact hinv
    · rename_i t ht
      split
      · exact Inv_readerDone hinv hd
      · split
        · exact hinv
        · split
          · exact hinv
          · rename_i ours other hp
            split
            · exact Inv_setSess (t' := ackSess t d.isA ours other k) hinv hd ht (by simp) (by simp) (by simp)
                (fun c _ _ hm hci => hci.ack hm hp k)
            · exact hinv

theorem Inv_sClear {s : State} (hinv : Inv s) (call epoch k : Nat) : Inv (sClear s call epoch k) := by
  unfold sClear
  split
  · exact hinv
  · rename_i d hd
    have hid := getSCall_id hd; subst hid
    split
    · exact hinv
    · rename_i t ht
      split
      · exact Inv_readerDone hinv hd
      · split
        · exact hinv
        · split
          · exact hinv
          · rename_i ours other hp
            split
            · exact Inv_setSess (t' := clearSess1 t d.isA ours other) hinv hd ht (by simp) (by simp) (by simp)
                (fun c _ _ hm hci => hci.clear1 hm hp)
            · split
              · exact Inv_setSess (t' := clearSess2 t d.isA ours other k) hinv hd ht (by simp) (by simp) (by simp)
                  (fun c _ _ hm hci => hci.clear2 hm hp k)
              · exact hinv

theorem Inv_sLoop {s : State} (hinv : Inv s) (call : Nat) (hen : enabled s (.loop call) = true) :
    Inv (sLoop s call) := by
  unfold sLoop
  split
  · exact hinv
  · rename_i d hd
    have hid := getSCall_id hd; subst hid
    simp only [enabled, hd, Bool.and_eq_true] at hen
    have hout : d.outbox = [] := by simpa using hen.1.2
    split
    · exact hinv
    · rename_i t ht
      rcases hsd : t.sides d.isA with ⟨oursO, otherO⟩
      simp only []
      cases oursO with
      | none => 
        simp only [if_true]
        exact Inv_setSCall hinv hd ht rfl rfl rfl rfl (fun hm hci => hci.loop_usurped hm)
      | some ours =>
        simp only []
        split
        · exact Inv_setSCall hinv hd ht rfl rfl rfl rfl (fun hm hci => hci.loop_usurped hm)
        · rename_i hcall
          have hcall : ours.call = d.id := by simpa using hcall
          cases otherO with
          | none =>
            simp only [Option.isSome_none, Bool.false_eq_true, if_false, Option.isNone_none, if_true]
            exact Inv_setSCall hinv hd ht rfl rfl rfl rfl (fun hm hci => hci.loop_closed hm hsd hcall hout)
          | some other =>
            simp only [Option.isSome_some, if_true, Option.isNone_some, Bool.false_eq_true, if_false]
            show Inv (setSCall (setSess s (loopSess t d.isA ours (some other)))
              { d with waitGen := t.gen, announced := some t.seqno, outbox := d.outbox ++ loopOut d t ours })
            refine Inv_sessStep (t := t) (t' := loopSess t d.isA ours (some other))
              (d' := { d with waitGen := t.gen, announced := some t.seqno, outbox := d.outbox ++ loopOut d t ours })
              hinv hd ht rfl rfl rfl rfl (by simp) (by simp) ?_ ?_ rfl (Nat.le_refl _) ?_ ?_ ?_ ?_
            · intro id
              rw [getSess_setSCall]
              exact getSess_setSess_of ht (by simp [getSess_sid ht]) id
            · intro id
              refine getSCall_setSCall_of (s := setSess s (loopSess t d.isA ours (some other))) (c := d) hd ?_ id
              rfl
            · intro x hx; exact Or.inl hx
            · intro x hx; exact hx
            · intro hm hci; exact hci.loop_main hm hsd hcall hout
            · intro c _ hne _ hm hci; exact hci.loop_other hm hsd hcall hne

theorem lookupSess_mem {s : State} {k : Nat × Nat} {sid : Nat} (h : lookupSess s k = some sid) :
    (k, sid) ∈ s.sessMap := by
  unfold lookupSess at h
  rw [Option.map_eq_some_iff] at h
  obtain ⟨p, hp, h2⟩ := h
  have h1 := List.find?_some hp
  have h3 := List.mem_of_find?_eq_some hp
  simp at h1
  rw [← h1, ← h2]; exact h3

theorem Inv_filterMap {s : State} (hinv : Inv s) (p : (Nat × Nat) × Nat → Bool) :
    Inv { s with sessMap := s.sessMap.filter p } := by
  refine Inv_update hinv (Nat.le_refl _) ?_ ?_ ?_ ?_ ?_ ?_ ?_
  · intro k sid hk; left; exact (List.mem_filter.1 hk).1
  · intro sid t' ht; left; exact Option.isSome_iff_exists.2 ⟨t', ht⟩
  · intro sid t ht; exact ⟨t, ht, rfl, rfl⟩
  · intro id c hc; exact ⟨c, hc, rfl, rfl, rfl⟩
  · intro x hx; exact Or.inl hx
  · intro x hx; exact hx
  · intro id c' hc'; left; exact ⟨hc', rfl⟩

theorem Inv_setSess_bcast {s : State} {sid : Nat} {t : Sess} (hinv : Inv s) (ht : getSess s sid = some t) :
    Inv (setSess s t.bcast) := by
  have hsid : t.bcast.sid = sid := getSess_sid (t := t) ht
  have hS := fun id => getSess_setSess_of (t' := t.bcast) ht hsid id
  have hcp : CallsPersist s (setSess s t.bcast) := fun id c hc => ⟨c, hc, rfl, rfl, rfl⟩
  refine Inv_update hinv (Nat.le_refl _) ?_ ?_ ?_ hcp ?_ ?_ ?_
  · intro k sid hk; left; exact hk
  · intro id t' ht'; left
    rw [hS] at ht'
    by_cases h : id = sid
    · subst h; rw [ht]; rfl
    · simp [h] at ht'; rw [ht']; rfl
  · intro id t0 ht0
    rw [hS]
    by_cases h : id = sid
    · subst h; rw [ht] at ht0; cases ht0; exact ⟨t.bcast, by simp, rfl, rfl⟩
    · exact ⟨t0, by simp [h, ht0], rfl, rfl⟩
  · intro x hx; exact Or.inl hx
  · intro x hx; exact hx
  · intro id c' hc'
    have hc : getSCall s id = some c' := hc'
    by_cases h : c'.sess = sid
    · right
      obtain ⟨t0, ht0, hci⟩ := hinv.calls _ _ hc
      rw [h, ht] at ht0; cases ht0
      exact ⟨t.bcast, by rw [hS]; simp [h], hci.bcast (Acc_mono hcp (fun x hx => hx) rfl rfl rfl rfl)⟩
    · left; exact ⟨hc, by rw [hS]; simp [h]⟩

theorem Inv_maybeReleaseSession {s : State} (hinv : Inv s) (k : Nat × Nat) : Inv (maybeReleaseSession s k) := by
  unfold maybeReleaseSession
  split
  · exact hinv
  · split
    · exact hinv
    · rename_i t ht
      split
      · exact hinv
      · exact Inv_setSess_bcast (Inv_filterMap hinv _) ht

theorem getSCall_maybeReleaseSession (s : State) (k : Nat × Nat) (id : Nat) :
    getSCall (maybeReleaseSession s k) id = getSCall s id := by
  unfold maybeReleaseSession
  split
  · rfl
  · split
    · rfl
    · split <;> rfl


theorem Inv_sEnd {s : State} (hinv : Inv s) (call : Nat) : Inv (sEnd s call) := by
  unfold sEnd
  split
  · exact hinv
  · rename_i d hd
    have hid := getSCall_id hd; subst hid
    obtain ⟨t, ht, _⟩ := hinv.calls _ _ hd
    have hinv0 : Inv (setSCall s { d with ended := true, failing := true, outbox := [] }) :=
      Inv_setSCall hinv hd ht rfl rfl rfl rfl (fun hm hci => hci.end_self hm)
    simp only [getSess_setSCall, ht]
    rcases hsd : t.sides d.isA with ⟨oursO, otherO⟩
    simp only []
    cases oursO with
    | none => exact hinv0
    | some ours =>
      simp only []
      split
      · exact hinv0
      · rename_i hcall
        have hd0 : getSCall (setSCall s { d with ended := true, failing := true, outbox := [] }) d.id =
            some { d with ended := true, failing := true, outbox := [] } :=
          getSCall_setSCall_self (c' := { d with ended := true, failing := true, outbox := [] }) hd
        have hinv1 : Inv (setSess (setSCall s { d with ended := true, failing := true, outbox := [] })
            (endSess t d.isA otherO)) :=
          Inv_setSess (d := { d with ended := true, failing := true, outbox := [] }) (t := t) hinv0 hd0
            (by rw [getSess_setSCall]; exact ht) (by simp) (by simp) (by simp)
            (fun c _ _ hm hci => hci.end_att hm d.isA (by rw [hsd]))
        have hinv2 := Inv_maybeReleaseSession hinv1 (sessKey d.src d.dst).1
        apply Inv_SessEq _ (SessEq_maybeReleasePeer _ _)
        split
        · exact Inv_SessEq hinv2 (SessEq_setTkr _ _)
        · exact hinv2

def freshSess (n : Nat) (k : Nat × Nat) : Sess := { sid := n, a := k.1, b := k.2 }

@[simp] theorem freshSess_sid (n k) : (freshSess n k).sid = n := rfl
@[simp] theorem freshSess_a (n k) : (freshSess n k).a = k.1 := rfl
@[simp] theorem freshSess_b (n k) : (freshSess n k).b = k.2 := rfl

def allocSess (s : State) (k : Nat × Nat) : State :=
  { s with sesss := s.sesss ++ [freshSess s.next k], sessMap := s.sessMap ++ [(k, s.next)], next := s.next + 1 }

theorem getSession_spec {s : State} (hinv : Inv s) (k : Nat × Nat) :
    Inv (getSession s k).1 ∧
    getSess (getSession s k).1 (getSession s k).2.sid = some (getSession s k).2 ∧
    ((getSession s k).2.a, (getSession s k).2.b) = k ∧
    (∀ id, getSCall (getSession s k).1 id = getSCall s id) := by
  unfold getSession
  split
  · rename_i sid hl
    obtain ⟨t, ht, hk⟩ := hinv.mapOk _ _ (lookupSess_mem hl)
    rw [ht]
    exact ⟨hinv, by rw [getSess_sid ht]; exact ht, hk, fun _ => rfl⟩
  · rename_i hl
    have hfresh : getSess s s.next = none := by
      cases h : getSess s s.next with
      | none => rfl
      | some t0 => exact absurd (hinv.sessLt _ _ h) (Nat.lt_irrefl _)
    have hS : ∀ id, getSess (allocSess s k) id =
        if id = s.next then some (freshSess s.next k) else getSess s id := by
      intro id
      show List.find? _ (s.sesss ++ [_]) = _
      rw [List.find?_append]
      by_cases h : id = s.next
      · subst h
        have : List.find? (fun x => decide (x.sid = s.next)) s.sesss = none := hfresh
        simp [this]
      · have h' : ¬ s.next = id := fun e => h e.symm
        simp [h, h', Sig.getSess]
    show Inv (allocSess s k) ∧ getSess (allocSess s k) s.next = some (freshSess s.next k) ∧ _
    refine ⟨?_, ?_, rfl, fun _ => rfl⟩
    · refine Inv_update hinv (Nat.le_succ _) ?_ ?_ ?_ ?_ ?_ ?_ ?_
      · intro k' sid hk
        rcases List.mem_append.1 hk with h | h
        · left; exact h
        · right
          simp at h
          obtain ⟨h1, h2⟩ := h
          subst h1 h2
          exact ⟨freshSess s.next k', by rw [hS]; simp, rfl⟩
      · intro sid t' ht'
        rw [hS] at ht'
        by_cases h : sid = s.next
        · right; subst h; exact Nat.lt_succ_self _
        · left; simp [h] at ht'; rw [ht']; rfl
      · intro sid t ht
        have : sid ≠ s.next := fun e => by rw [e, hfresh] at ht; cases ht
        exact ⟨t, by rw [hS]; simp [this, ht], rfl, rfl⟩
      · intro id c hc; exact ⟨c, hc, rfl, rfl, rfl⟩
      · intro x hx; exact Or.inl hx
      · intro x hx; exact hx
      · intro id c' hc'
        left
        refine ⟨hc', ?_⟩
        obtain ⟨t, ht, _⟩ := hinv.calls _ _ (show getSCall s id = some c' from hc')
        have : c'.sess ≠ s.next := fun e => by rw [e, hfresh] at ht; cases ht
        rw [hS]; simp [this]
    · rw [hS]; simp


def newCall (call src dst sess dstTkr waitGen : Nat) : SCall :=
  { id := call, src := src, dst := dst, sess := sess, dstTkr := dstTkr, waitGen := waitGen }

def addCall (s : State) (n : SCall) : State := { s with scalls := s.scalls ++ [n] }

theorem getSCall_addCall {s : State} {n : SCall} (hfresh : getSCall s n.id = none) (id : Nat) :
    getSCall (addCall s n) id = if id = n.id then some n else getSCall s id := by
  show List.find? _ (s.scalls ++ [n]) = _
  rw [List.find?_append]
  by_cases h : id = n.id
  · subst h
    have : List.find? (fun x => decide (x.id = n.id)) s.scalls = none := hfresh
    simp [this]
  · have h' : ¬ n.id = id := fun e => h e.symm
    simp [h, h', Sig.getSCall]

theorem Inv_init_final {s : State} (hinv : Inv s) {t : Sess} (ht : getSess s t.sid = some t)
    (call src dst dstTkr : Nat) (hkey : (sessKey src dst).1 = (t.a, t.b)) (hfresh : getSCall s call = none)
    {other : Option Att} (ho : (t.sides (sessKey src dst).2).2 = other) :
    Inv (addCall (setSess s (initSess t (sessKey src dst).2 call other))
      (newCall call src dst t.sid dstTkr t.gen)) := by
  have hsid : (initSess t (sessKey src dst).2 call other).sid = t.sid := by simp
  have hS := fun id => getSess_setSess_of (t' := initSess t (sessKey src dst).2 call other) ht hsid id
  have hC := fun id => getSCall_addCall (s := setSess s (initSess t (sessKey src dst).2 call other))
    (n := newCall call src dst t.sid dstTkr t.gen) hfresh id
  have hcp : CallsPersist s (addCall (setSess s (initSess t (sessKey src dst).2 call other))
      (newCall call src dst t.sid dstTkr t.gen)) := by
    intro id c hc
    refine ⟨c, ?_, rfl, rfl, rfl⟩
    rw [hC]
    have : id ≠ call := fun e => by rw [e, hfresh] at hc; cases hc
    simp [newCall, this]; exact hc
  refine Inv_update hinv (Nat.le_refl _) ?_ ?_ ?_ hcp ?_ ?_ ?_
  · intro k sid hk; left; exact hk
  · intro id t' ht'; left
    have ht'' : getSess (setSess s (initSess t (sessKey src dst).2 call other)) id = some t' := ht'
    rw [hS] at ht''
    by_cases h : id = t.sid
    · rw [h, ht]; rfl
    · simp [h] at ht''; rw [ht'']; rfl
  · intro id t0 ht0
    show ∃ t', getSess (setSess s (initSess t (sessKey src dst).2 call other)) id = some t' ∧ _
    rw [hS]
    by_cases h : id = t.sid
    · rw [h, ht] at ht0; cases ht0; exact ⟨initSess t (sessKey src dst).2 call other, by simp [h], by simp, by simp⟩
    · exact ⟨t0, by simp [h, ht0], rfl, rfl⟩
  · intro x hx; exact Or.inl hx
  · intro x hx; exact hx
  · intro id c' hc'
    rw [hC] at hc'
    have hS' : ∀ id, getSess (addCall (setSess s (initSess t (sessKey src dst).2 call other))
      (newCall call src dst t.sid dstTkr t.gen)) id = _ := hS
    by_cases h : id = call
    · right
      simp [newCall, h] at hc'
      subst hc'
      refine ⟨initSess t (sessKey src dst).2 call other, by rw [hS']; simp, ?_⟩
      exact CallInv.init_new t call src dst dstTkr other hkey
    · simp [newCall, h] at hc'
      have hc : getSCall s id = some c' := hc'
      by_cases hs : c'.sess = t.sid
      · right
        obtain ⟨t0, ht0, hci⟩ := hinv.calls _ _ hc
        rw [hs, ht] at ht0; cases ht0
        exact ⟨initSess t (sessKey src dst).2 call other, by rw [hS']; simp [hs], hci.init_other (Acc_mono hcp (fun x hx => hx) rfl rfl rfl rfl) _ _ ho⟩
      · left
        exact ⟨hc, by rw [hS']; simp [hs]⟩


theorem Inv_sInit {s : State} (hinv : Inv s) (call src dst : Nat) (hfresh : getSCall s call = none) :
    Inv (sInit s call src dst) := by
  unfold sInit
  rcases hgp : getPeer s dst with ⟨s1, dt, ex⟩
  simp only []
  have hs1 : SessEq s s1 := by have := SessEq_getPeer s dst; rw [hgp] at this; exact this
  generalize hs2 : (if src ∈ dt.wants then s1 else setTkr s1 ({ dt with wants := insertSorted src dt.wants }).bcast) = s2
  have hs2' : SessEq s s2 := by
    subst hs2; split
    · exact hs1
    · exact hs1.trans (SessEq_setTkr _ _)
  have hinv2 := Inv_SessEq hinv hs2'
  rcases hk : sessKey src dst with ⟨k, isA⟩
  simp only []
  obtain ⟨h1, h2, h3, h4⟩ := getSession_spec hinv2 k
  rcases hgs : getSession s2 k with ⟨s3, t⟩
  rw [hgs] at h1 h2 h3 h4
  simp only [] at h1 h2 h3 h4 ⊢
  rcases hsd : t.sides isA with ⟨o1, other⟩
  simp only []
  have hfin := Inv_init_final h1 h2 call src dst dt.tid (by rw [hk]; exact h3.symm)
    (by rw [h4, hs2'.getSCall]; exact hfresh) (other := other) (by rw [hk]; simp only []; rw [hsd])
  rw [hk] at hfin
  show Inv (addCall (setSess s3 (initSess t isA call other))
    (newCall call src dst t.sid dt.tid (t.setSides isA (some { call := call }) (other.map clearAtt)).gen))
  rw [setSides_gen]
  exact hfin


/-! ### call identities are unique -/

def ids (s : State) : List Nat := s.scalls.map SCall.id

@[simp] theorem ids_setSCall (s : State) (c : SCall) : ids (setSCall s c) = ids s := by
  unfold ids setSCall
  simp only [List.map_map]
  apply List.map_congr_left
  intro x _
  simp only [Function.comp]
  split
  · rename_i h; exact h.symm
  · rfl

@[simp] theorem ids_setSess (s : State) (t : Sess) : ids (setSess s t) = ids s := rfl
@[simp] theorem ids_setTkr (s : State) (t : Tkr) : ids (setTkr s t) = ids s := rfl
theorem ids_SessEq {s s' : State} (h : SessEq s s') : ids s' = ids s := by unfold ids; rw [h.scalls]
@[simp] theorem ids_maybeReleasePeer (s : State) (p : Nat) : ids (maybeReleasePeer s p) = ids s :=
  ids_SessEq (SessEq_maybeReleasePeer s p)
@[simp] theorem ids_maybeReleaseSession (s : State) (k : Nat × Nat) : ids (maybeReleaseSession s k) = ids s := by
  unfold maybeReleaseSession
  split
  · rfl
  · split
    · rfl
    · split <;> rfl
theorem scalls_getSession (s : State) (k : Nat × Nat) : (getSession s k).1.scalls = s.scalls := by
  unfold getSession
  split
  · split <;> rfl
  · rfl

theorem ids_sSend (s : State) (call epoch m v g) : ids (sSend s call epoch m v g) = ids s := by
  unfold sSend
  repeat' split
  all_goals first | rfl | exact ids_setSCall _ _

theorem ids_sAck (s : State) (call epoch k) : ids (sAck s call epoch k) = ids s := by
  unfold sAck
  repeat' split
  all_goals first | rfl | exact ids_setSCall _ _

theorem ids_sClear (s : State) (call epoch k) : ids (sClear s call epoch k) = ids s := by
  unfold sClear
  repeat' split
  all_goals first | rfl | exact ids_setSCall _ _

theorem ids_sTx (s : State) (call r) : ids ((sTx s call r).getD s) = ids s := by
  unfold sTx
  repeat' split
  all_goals first | rfl | exact ids_setSCall _ _

theorem ids_sLoop (s : State) (call) : ids (sLoop s call) = ids s := by
  unfold sLoop
  split
  · rfl
  · rename_i c hc
    split
    · rfl
    · rename_i t ht
      rcases t.sides c.isA with ⟨o1, o2⟩
      simp only []
      repeat' split
      all_goals first | rfl | exact ids_setSCall _ _ | (rw [ids_setSCall]; rfl)

theorem ids_sEnd (s : State) (call) : ids (sEnd s call) = ids s := by
  unfold sEnd
  split
  · rfl
  · rename_i c hc
    simp only []
    split
    · exact ids_setSCall _ _
    · rename_i t ht
      rcases t.sides c.isA with ⟨o1, o2⟩
      simp only []
      repeat' split
      all_goals simp

theorem ids_sInit (s : State) (call src dst) : ids (sInit s call src dst) = ids s ++ [call] := by
  unfold sInit
  rcases hgp : getPeer s dst with ⟨s1, dt, ex⟩
  simp only []
  have hs1 : SessEq s s1 := by have := SessEq_getPeer s dst; rw [hgp] at this; exact this
  generalize hs2 : (if src ∈ dt.wants then s1 else setTkr s1 ({ dt with wants := insertSorted src dt.wants }).bcast) = s2
  have hs2' : SessEq s s2 := by
    subst hs2; split
    · exact hs1
    · exact hs1.trans (SessEq_setTkr _ _)
  rcases hk : sessKey src dst with ⟨k, isA⟩
  simp only []
  have h := scalls_getSession s2 k
  rcases hgs : getSession s2 k with ⟨s3, t⟩
  rw [hgs] at h
  simp only [] at h ⊢
  rcases hsd : t.sides isA with ⟨o1, other⟩
  simp only [ids, setSess_scalls, List.map_append, h, hs2'.scalls, List.map_cons, List.map_nil]


end SigSess
end Bifrost
