import Bifrost.Model.Packets
import Bifrost.Lemmas.Packets
/-! Helper lemmas for the writer side of C08 (`writeFrame`, schedules of concurrent whole-frame
writers) and of C09 (`Conn.Write` loop, end-of-stream order). -/
namespace Bifrost
namespace Packets
open Framing (Reader)

/-- `out` is an interleaving of the writers' sequences `ws`: repeatedly some writer that still
has packets performs its next write; at the end every writer has sent everything. -/
inductive Interleave : List (List Bytes) → List Bytes → Prop where
  | done (ws : List (List Bytes)) : (∀ w ∈ ws, w = []) → Interleave ws []
  | write (ws : List (List Bytes)) (i : Nat) (p : Bytes) (rest : List Bytes) (out : List Bytes) :
      ws[i]? = some (p :: rest) → Interleave (ws.set i rest) out → Interleave ws (p :: out)

theorem wireOf_foldl (acc : Bytes) (out : List Bytes) :
    out.foldl writeFrame acc = acc ++ out.flatMap frame := by
  induction out generalizing acc with
  | nil => simp
  | cons p ps ih => simp [List.foldl_cons, ih, writeFrame, List.append_assoc]

theorem wireOf_eq (out : List Bytes) : wireOf out = out.flatMap frame := by
  simp [wireOf, wireOf_foldl]

theorem flatten_set_perm (ws : List (List Bytes)) (i : Nat) (p : Bytes) (rest : List Bytes)
    (h : ws[i]? = some (p :: rest)) : ws.flatten.Perm (p :: (ws.set i rest).flatten) := by
  induction ws generalizing i with
  | nil => simp at h
  | cons w ws ih =>
    cases i with
    | zero =>
      simp only [List.getElem?_cons_zero, Option.some.injEq] at h
      subst h
      simp
    | succ i =>
      simp only [List.getElem?_cons_succ] at h
      simp only [List.flatten_cons, List.set_cons_succ]
      have := ih i h
      exact (List.Perm.append_left w this).trans (List.perm_middle)

theorem Interleave.perm {ws : List (List Bytes)} {out : List Bytes} (h : Interleave ws out) :
    out.Perm ws.flatten := by
  induction h with
  | done ws hw =>
    have : ws.flatten = [] := by
      rw [List.flatten_eq_nil_iff]; exact hw
    rw [this]
  | write ws i p rest out hi _ ih =>
    exact (List.Perm.cons p ih).trans (flatten_set_perm ws i p rest hi).symm

theorem Interleave.sublist {ws : List (List Bytes)} {out : List Bytes} (h : Interleave ws out) :
    ∀ (j : Nat) (w : List Bytes), ws[j]? = some w → w.Sublist out := by
  induction h with
  | done ws hw =>
    intro j w hj
    have : w = [] := hw w (List.mem_of_getElem? hj)
    subst this
    exact List.Sublist.slnil
  | write ws i p rest out hi _ ih =>
    intro j w hj
    by_cases hji : j = i
    · subst hji
      rw [hi] at hj
      injection hj with hj
      subst hj
      have hlt : j < ws.length := by
        rcases Nat.lt_or_ge j ws.length with h | h
        · exact h
        · rw [List.getElem?_eq_none h] at hi; cases hi
      have : (ws.set j rest)[j]? = some rest := by
        rw [List.getElem?_set_self (by simpa using hlt)]
      exact List.Sublist.cons_cons p (ih j rest this)
    · have : (ws.set i rest)[j]? = some w := by
        rw [List.getElem?_set_ne (Ne.symm hji)]; exact hj
      exact List.Sublist.cons p (ih j w this)

/-- Every schedule that leaves no writer with unsent packets yields an interleaving. -/
theorem writeSched_interleave (ws : List (List Bytes)) (sched : List Nat)
    (hdone : ∀ w ∈ schedLeft ws sched, w = []) : Interleave ws (writeSched ws sched) := by
  induction sched generalizing ws with
  | nil => exact Interleave.done ws (by simpa [schedLeft] using hdone)
  | cons i is ih =>
    unfold writeSched
    unfold schedLeft at hdone
    split
    · rename_i p rest hi
      rw [hi] at hdone
      exact Interleave.write ws i p rest _ hi (ih (ws.set i rest) hdone)
    · rename_i hne
      have hd : ∀ w ∈ schedLeft ws is, w = [] := by
        split at hdone
        · rename_i p rest hi
          exact absurd hi (hne p rest)
        · exact hdone
      exact ih ws hd

/-- Conversely every interleaving is produced by some schedule. -/
theorem interleave_writeSched {ws : List (List Bytes)} {out : List Bytes} (h : Interleave ws out) :
    ∃ sched, writeSched ws sched = out ∧ ∀ w ∈ schedLeft ws sched, w = [] := by
  induction h with
  | done ws hw => exact ⟨[], rfl, by simpa [schedLeft] using hw⟩
  | write ws i p rest out hi _ ih =>
    obtain ⟨s, hs1, hs2⟩ := ih
    refine ⟨i :: s, ?_, ?_⟩
    · simp only [writeSched, hi, hs1]
    · simpa only [schedLeft, hi] using hs2

/-! ### `Conn.Write` -/

theorem connWriteLoop_spec (script : List (Nat × Bool)) (rem wire : Bytes) (written : Nat) :
    ∃ t, (connWriteLoop script rem wire written).2 = wire ++ rem.take t ∧
      (match (connWriteLoop script rem wire written).1 with
       | .ok n => n = written + rem.length ∧ rem.length ≤ t
       | .err n => n = written + t ∧ t ≤ rem.length ∧ ∃ s ∈ script, s.2 = true
       | .spin => t ≤ rem.length ∧ t < rem.length) := by
  induction script generalizing rem wire written with
  | nil =>
    cases rem with
    | nil => exact ⟨0, by simp [connWriteLoop]⟩
    | cons x xs => exact ⟨0, by simp [connWriteLoop]⟩
  | cons s script ih =>
    obtain ⟨k, e⟩ := s
    cases rem with
    | nil => exact ⟨0, by simp [connWriteLoop]⟩
    | cons x xs =>
      unfold connWriteLoop
      by_cases he : e = true
      · subst he
        refine ⟨min k (x :: xs).length, by simp, ?_⟩
        simp only [↓reduceIte]
        exact ⟨trivial, Nat.min_le_right _ _, (k, true), by simp, rfl⟩
      · have he' : e = false := by simpa using he
        subst he'
        simp only [Bool.false_eq_true, ↓reduceIte]
        obtain ⟨t, h1, h2⟩ := ih ((x :: xs).drop (min k (x :: xs).length))
          (wire ++ (x :: xs).take (min k (x :: xs).length)) (written + min k (x :: xs).length)
        have hm : min k (x :: xs).length ≤ (x :: xs).length := Nat.min_le_right _ _
        refine ⟨min k (x :: xs).length + t, ?_, ?_⟩
        · rw [h1, List.append_assoc, List.take_add]
        · revert h2
          generalize (connWriteLoop script _ _ _).1 = r
          cases r with
          | ok n =>
            simp only [List.length_drop]
            intro ⟨h2a, h2b⟩
            exact ⟨by omega, by omega⟩
          | err n =>
            simp only [List.length_drop]
            intro ⟨h2a, h2b, s, hs, hs2⟩
            exact ⟨by omega, by omega, s, List.mem_cons_of_mem _ hs, hs2⟩
          | spin =>
            simp only [List.length_drop]
            intro ⟨h2a, h2b⟩
            exact ⟨by omega, by omega⟩

/-- With an underlying writer that never errors and accepts at least one byte per call, a
script at least as long as the packet is never exhausted. -/
theorem connWriteLoop_progress (script : List (Nat × Bool)) (rem wire : Bytes) (written : Nat)
    (hs : ∀ s ∈ script, 1 ≤ s.1 ∧ s.2 = false) (hl : rem.length ≤ script.length) :
    (connWriteLoop script rem wire written).1 = .ok (written + rem.length) := by
  induction script generalizing rem wire written with
  | nil =>
    have : rem = [] := by simpa using hl
    subst this
    simp [connWriteLoop]
  | cons s script ih =>
    obtain ⟨k, e⟩ := s
    cases rem with
    | nil => simp [connWriteLoop]
    | cons x xs =>
      obtain ⟨hk, he⟩ := hs (k, e) (by simp)
      simp only at hk he
      subst he
      unfold connWriteLoop
      simp only [Bool.false_eq_true, ↓reduceIte]
      rw [ih _ _ _ (fun s hs' => hs s (List.mem_cons_of_mem _ hs'))
        (by simp only [List.length_drop, List.length_cons] at hl ⊢; omega)]
      simp only [List.length_drop, List.length_cons]
      congr 1
      have : min k (xs.length + 1) ≤ xs.length + 1 := Nat.min_le_right _ _
      omega

/-! ### End of stream -/

theorem connReadsEnd_getElem? (q : List Bytes) (e : Option Nat) (bufs : List Nat) (i : Nat)
    (hi : i < bufs.length) :
    (connReadsEnd q e bufs)[i]? =
      if h : i < q.length then some (.data (q[i].take bufs[i]) (decide (bufs[i] < q[i].length)))
      else some (.ended e) := by
  induction bufs generalizing q i with
  | nil => simp at hi
  | cons b bs ih =>
    cases q with
    | nil =>
      cases i with
      | zero => simp [connReadsEnd]
      | succ i =>
        simp only [connReadsEnd, List.getElem?_cons_succ]
        rw [ih [] i (by simpa using hi)]
        simp
    | cons p q' =>
      cases i with
      | zero => simp [connReadsEnd]
      | succ i =>
        simp only [connReadsEnd, List.getElem?_cons_succ]
        rw [ih q' i (by simpa using hi)]
        simp

theorem connReadsEnd_length (q : List Bytes) (e : Option Nat) (bufs : List Nat) :
    (connReadsEnd q e bufs).length = bufs.length := by
  induction bufs generalizing q with
  | nil => simp [connReadsEnd]
  | cons b bs ih => cases q <;> simp [connReadsEnd, ih]

end Packets
end Bifrost
