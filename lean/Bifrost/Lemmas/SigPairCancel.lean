import Bifrost.Lemmas.SigPairHalf
import Bifrost.Lemmas.SigPairSim
/-!
C23 liveness: cancelling a `Send` (`sendCancel`) is not an action of the stable-pair machine, but
the pair invariant `PInv` survives it (a cancelled message is no longer "in flight", everything
else is untouched). Used to show that `PInv` holds of every reachable state with two live calls.
-/
namespace Bifrost
namespace SigPair
open Bifrost.SigSys Bifrost.SigPairCli
set_option linter.unusedSimpArgs false

/-- what (guarded) `sendCancel` does to the fields the invariant reads -/
theorem cancel_fields (s : SigC.State) (id : Nat) :
    (guarded s (.sendCancel id)).open_ = s.open_ ∧ (guarded s (.sendCancel id)).recv = s.recv ∧
    (guarded s (.sendCancel id)).recvProcessed = s.recvProcessed ∧
    (((guarded s (.sendCancel id)).out = s.out ∧ (guarded s (.sendCancel id)).outSent = s.outSent ∧
        (guarded s (.sendCancel id)).outAcked = s.outAcked ∧ (guarded s (.sendCancel id)).outCancel = s.outCancel) ∨
      (guarded s (.sendCancel id)).out = none ∨ (guarded s (.sendCancel id)).outCancel = true) := by
  unfold guarded
  split
  · simp only [SigC.step, SigC.sendCancel]
    split
    · exact ⟨rfl, rfl, rfl, Or.inl ⟨rfl, rfl, rfl, rfl⟩⟩
    · split
      · exact ⟨rfl, rfl, rfl, Or.inl ⟨rfl, rfl, rfl, rfl⟩⟩
      · split
        · exact ⟨rfl, rfl, rfl, Or.inl ⟨rfl, rfl, rfl, rfl⟩⟩
        · split
          · split
            · exact ⟨rfl, rfl, rfl, Or.inr (Or.inl rfl)⟩
            · split
              · exact ⟨rfl, rfl, rfl, Or.inr (Or.inr rfl)⟩
              · exact ⟨rfl, rfl, rfl, Or.inl ⟨rfl, rfl, rfl, rfl⟩⟩
          · exact ⟨rfl, rfl, rfl, Or.inl ⟨rfl, rfl, rfl, rfl⟩⟩
  · exact ⟨rfl, rfl, rfl, Or.inl ⟨rfl, rfl, rfl, rfl⟩⟩

/-- the receiver's tracker changes in fields the token location does not read (except its own weight) -/
theorem tk_y_cl {p : PState} {m : SigC.Msg} {st : Stage} {j : Nat} (cl' : SigC.State)
    (h1 : cl'.recv = p.y.cl.recv) (h2 : cl'.recvProcessed = p.y.cl.recvProcessed) (ht : Tk p m st j) :
    ∃ j', Tk { p with y := { p.y with cl := cl' } } m st j' := by
  cases st <;> simp only [Tk, FwdG, AckG] at ht
  case rcvP =>
    obtain ⟨hg, g1, g2, g3, g4, g5⟩ := ht
    exact ⟨wt cl', by simp only [Tk, FwdG]; exact ⟨hg, h1.trans g1, h2.trans g2, g3, g4, trivial⟩⟩
  case rcvU =>
    obtain ⟨hg, g1, g2, g3, g4⟩ := ht
    exact ⟨j, by simp only [Tk, FwdG]; exact ⟨hg, h1.trans g1, h2.trans g2, g3, g4⟩⟩
  all_goals first
    | exact ⟨j, by simp only [Tk, FwdG, AckG]; exact ht⟩
    | exact ht.elim

theorem pinv_cancel_x {p : PState} (h : PInv p) (id : Nat) :
    PInv { p with x := { p.x with cl := guarded p.x.cl (.sendCancel id) } } := by
  obtain ⟨f1, f2, f3, f4⟩ := cancel_fields p.x.cl id
  obtain ⟨r1, r2, r3, r4, r5, r6, r7, w⟩ := h.hx
  refine ⟨⟨SigSysCli.reachable_guard r1 _, r2, r3, by simp only [f1]; exact r4, r5, r6,
    by simp only [f1]; exact r7, w⟩, h.hy, ?_, ?_⟩
  · intro m ho hs
    simp only at ho
    obtain ⟨s1, s2, s3, s4⟩ := hs
    simp only at s1 s2 s3 s4
    rcases f4 with ⟨g1, g2, g3, g4⟩ | g | g
    · obtain ⟨st, j, ht⟩ := h.tx m (f1 ▸ ho) ⟨g1 ▸ s1, g2 ▸ s2, g3 ▸ s3, g4 ▸ s4⟩
      exact ⟨st, j, tk_x_cl _ ht⟩
    · rw [g] at s1; cases s1
    · rw [g] at s4; cases s4
  · intro m ho hs
    obtain ⟨st, j, ht⟩ := h.ty m ho hs
    obtain ⟨j', ht'⟩ := tk_y_cl (p := p.swap) (guarded p.x.cl (.sendCancel id)) f2 f3 ht
    exact ⟨st, j', ht'⟩

theorem pinv_cancel_y {p : PState} (h : PInv p) (id : Nat) :
    PInv { p with y := { p.y with cl := guarded p.y.cl (.sendCancel id) } } :=
  (pinv_cancel_x h.swap id).swap

theorem view_cancel_x {s : SigSys.State} {A B ia ib : Nat} {p : PState} (hv : View s A B ia ib p) (id : Nat) :
    View (SigSys.step s (.sendCancel A B id)) A B ia ib
      { p with x := { p.x with cl := guarded p.x.cl (.sendCancel id) } } :=
  view_liftX hv (fun st => if SigC.enabled st (.sendCancel id) then SigC.step st (.sendCancel id) else st)

theorem view_cancel_y {s : SigSys.State} {A B ia ib : Nat} {p : PState} (hv : View s A B ia ib p) (id : Nat) :
    View (SigSys.step s (.sendCancel B A id)) A B ia ib
      { p with y := { p.y with cl := guarded p.y.cl (.sendCancel id) } } :=
  (view_cancel_x hv.swap id).swap

end SigPair
end Bifrost
