import Bifrost.Model.Envelope
import Bifrost.Lemmas.ProtoRoundTrip
/-!
Round trip of the grant plaintext (`EnvelopeGrantInner` with its repeated `EnvelopeShare`)
through the generic protobuf wire model: `decodeInner (encodeInner l) = some l`.
-/
namespace Bifrost
namespace PW

/-- one length-delimited known field is consumed by one iteration of the `UnmarshalVT` loop -/
theorem decodeLoop_stepBytes (s : Schema) (num w : Nat) (hw : w < 2 ^ 64) (htag : tag num 2 = Pb.append w)
    (hwt : w % 8 = 2) (hfn : toInt32 (w / 8) = (num : Int)) (hpos : ¬ ((num : Int) ≤ 0))
    (hspec : findSpec s (num : Int) = some ⟨num, .bytes⟩)
    (fuel : Nat) (b : Bytes) (hb : b.length < 2 ^ 63) (rest : Bytes) (acc : Raw) :
    decodeLoop s (fuel + 1) (encBytes num b ++ rest) acc =
      decodeLoop s fuel rest { acc with fields := acc.fields ++ [(num, .bytes b)] } := by
  rw [decodeLoop]
  have hne : (encBytes num b ++ rest).isEmpty = false := by
    simp [encBytes_ne_nil]
  rw [hne]
  have hd : decodeVarint (encBytes num b ++ rest) = .ok (w, Pb.append b.length ++ (b ++ rest)) := by
    unfold encBytes
    rw [htag, List.append_assoc, List.append_assoc, decodeVarint_append w hw]
  simp only [Bool.false_eq_true, ↓reduceIte, hd]
  have h24 : ¬ (w % 8 = 4) := by omega
  simp only [hfn, hspec, hwt, h24, hpos, ↓reduceIte]
  rw [takeLen_append b rest hb]
  simp

theorem encBytes_length (num : Nat) (b : Bytes) :
    (encBytes num b).length = (tag num 2).length + (Pb.append b.length).length + b.length := by
  simp [encBytes]; omega

end PW

namespace Envelope
open PW

theorem share_step1 (fuel : Nat) (b : Bytes) (hb : b.length < 2 ^ 63) (rest : Bytes) (acc : Raw) :
    decodeLoop shareSchema (fuel + 1) (encBytes 1 b ++ rest) acc =
      decodeLoop shareSchema fuel rest { acc with fields := acc.fields ++ [(1, .bytes b)] } :=
  decodeLoop_stepBytes shareSchema 1 10 (by decide) rfl (by decide) (by decide) (by decide) (by decide) fuel b hb rest acc

theorem share_step2 (fuel : Nat) (b : Bytes) (hb : b.length < 2 ^ 63) (rest : Bytes) (acc : Raw) :
    decodeLoop shareSchema (fuel + 1) (encBytes 2 b ++ rest) acc =
      decodeLoop shareSchema fuel rest { acc with fields := acc.fields ++ [(2, .bytes b)] } :=
  decodeLoop_stepBytes shareSchema 2 18 (by decide) rfl (by decide) (by decide) (by decide) (by decide) fuel b hb rest acc

theorem inner_step (fuel : Nat) (b : Bytes) (hb : b.length < 2 ^ 63) (rest : Bytes) (acc : Raw) :
    decodeLoop innerSchema (fuel + 1) (encBytes 1 b ++ rest) acc =
      decodeLoop innerSchema fuel rest { acc with fields := acc.fields ++ [(1, .bytes b)] } :=
  decodeLoop_stepBytes innerSchema 1 10 (by decide) rfl (by decide) (by decide) (by decide) (by decide) fuel b hb rest acc

/-- `EnvelopeShare`: `UnmarshalVT ∘ MarshalVT = id`. -/
theorem decodeShare_encodeShare (s : Share) (h1 : s.id.length < 2 ^ 63) (h2 : s.value.length < 2 ^ 63) :
    decodeShare (encodeShare s) = some s := by
  obtain ⟨i, v⟩ := s
  simp only at h1 h2
  unfold decodeShare encodeShare encBytesOpt PW.decode
  by_cases hi : i.isEmpty <;> by_cases hv : v.isEmpty
  · have e1 : i = [] := by simpa using hi
    have e2 : v = [] := by simpa using hv
    subst e1; subst e2
    simp [decodeLoop_nil, Raw.lastBytes]
  · have e1 : i = [] := by simpa using hi
    subst e1
    simp only [hv, List.isEmpty_nil, ↓reduceIte, Bool.false_eq_true, List.nil_append]
    have := share_step2 ((encBytes 2 v).length) v h2 [] {}
    rw [List.append_nil] at this
    rw [this, decodeLoop_nil]
    simp [Raw.lastBytes]
  · have e2 : v = [] := by simpa using hv
    subst e2
    simp only [hi, List.isEmpty_nil, ↓reduceIte, Bool.false_eq_true, List.append_nil]
    have := share_step1 ((encBytes 1 i).length) i h1 [] {}
    rw [List.append_nil] at this
    rw [this, decodeLoop_nil]
    simp [Raw.lastBytes]
  · simp only [hi, hv, Bool.false_eq_true, ↓reduceIte]
    have hl : (encBytes 1 i ++ encBytes 2 v).length + 1 = ((encBytes 1 i ++ encBytes 2 v).length - 1) + 1 + 1 := by
      have : 0 < (encBytes 1 i).length := List.length_pos_iff.mpr (encBytes_ne_nil 1 i)
      rw [List.length_append]; omega
    rw [hl, share_step1 _ i h1]
    have := share_step2 ((encBytes 1 i ++ encBytes 2 v).length - 1) v h2 [] { fields := ({} : Raw).fields ++ [(1, .bytes i)] }
    rw [List.append_nil] at this
    rw [this, decodeLoop_nil]
    simp [Raw.lastBytes]

theorem encodeShare_length_le (s : Share) : (encodeShare s).length ≤ s.id.length + s.value.length + 22 := by
  have ht1 : (tag 1 2).length = 1 := by decide
  have ht2 : (tag 2 2).length = 1 := by decide
  have hl : ∀ n, (Pb.append n).length ≤ 10 := by
    intro n
    unfold Pb.append
    have : ∀ (f v : Nat), (Pb.appendAux f v).length ≤ f + 1 := by
      intro f
      induction f with
      | zero => intro v; simp [Pb.appendAux]
      | succ f ih =>
        intro v
        unfold Pb.appendAux
        split
        · simp
        · simp only [List.length_cons]
          have := ih (v / 128)
          omega
    exact this 9 n
  unfold encodeShare encBytesOpt
  have a := hl s.id.length
  have b := hl s.value.length
  split <;> split <;> simp only [List.length_append, List.length_nil, encBytes_length, ht1, ht2] <;> omega

theorem inner_loop : ∀ (l : List Share) (fuel : Nat) (acc : Raw), l.length + 1 ≤ fuel →
    (∀ s ∈ l, (encodeShare s).length < 2 ^ 63) →
    decodeLoop innerSchema fuel (l.flatMap (fun s => encBytes 1 (encodeShare s))) acc =
      .ok { acc with fields := acc.fields ++ l.map (fun s => (1, Val.bytes (encodeShare s))) }
  | [], fuel, acc, _, _ => by
    simp [decodeLoop_nil]
  | s :: rest, fuel, acc, hf, hl => by
    obtain ⟨f, rfl⟩ : ∃ f, fuel = f + 1 := ⟨fuel - 1, by simp only [List.length_cons] at hf; omega⟩
    rw [List.flatMap_cons, inner_step f _ (hl s (by simp))]
    rw [inner_loop rest f _ (by simp only [List.length_cons] at hf; omega) (fun s' hs' => hl s' (by simp [hs']))]
    simp [List.append_assoc]

theorem mapM_decodeShare : ∀ (l : List Share), (∀ s ∈ l, s.id.length < 2 ^ 63 ∧ s.value.length < 2 ^ 63) →
    (l.map encodeShare).mapM decodeShare = some l
  | [], _ => rfl
  | s :: rest, h => by
    rw [List.map_cons, List.mapM_cons, decodeShare_encodeShare s (h s (by simp)).1 (h s (by simp)).2]
    rw [mapM_decodeShare rest (fun s' hs' => h s' (by simp [hs']))]
    rfl

theorem allBytes_inner : ∀ (l : List Share),
    (Raw.mk (l.map (fun s => (1, Val.bytes (encodeShare s)))) []).allBytes 1 = l.map encodeShare
  | [] => rfl
  | a :: l => by
    have ih := allBytes_inner l
    simp only [Raw.allBytes] at ih ⊢
    simp [List.filterMap_cons, ih]

/-- `EnvelopeGrantInner`: `UnmarshalVT ∘ MarshalVT = id` (for shares of sane size). -/
theorem decodeInner_encodeInner (l : List Share) (h : ∀ s ∈ l, s.id.length ≤ 2 ^ 32 ∧ s.value.length ≤ 2 ^ 32) :
    decodeInner (encodeInner l) = some l := by
  unfold decodeInner encodeInner PW.decode
  have hlen : l.length ≤ (l.flatMap (fun s => encBytes 1 (encodeShare s))).length := by
    induction l with
    | nil => simp
    | cons a l ih =>
      have : 0 < (encBytes 1 (encodeShare a)).length := List.length_pos_iff.mpr (encBytes_ne_nil 1 _)
      have := ih (fun s hs => h s (by simp [hs]))
      simp only [List.flatMap_cons, List.length_append, List.length_cons]
      omega
  rw [inner_loop l _ {} (by omega)]
  · simp only [List.nil_append]
    rw [allBytes_inner]
    exact mapM_decodeShare l (fun s hs => ⟨by have := (h s hs).1; omega, by have := (h s hs).2; omega⟩)
  · intro s hs
    have := encodeShare_length_le s
    have h1 := (h s hs).1
    have h2 := (h s hs).2
    omega

end Envelope
end Bifrost
