import Bifrost.Lemmas.SigPairSimA
import Bifrost.Lemmas.SigSess
/-!
Simulation `SigSys` ⟶ `SigPair`, part B: the relay steps of a call of the pair (`sSend`, `sAck`,
`sClear`, `sLoop`, `sTx` of call `ia`) computed on the relay view `SrvView`: they are `relayReq`,
and the `srvLoop` / `srvTx` branches of `SigPair.stepX`. (Side y is obtained by `SrvView.swap`.)
-/
namespace Bifrost
namespace SigPair
open Bifrost.SigSys

theorem activePair_mk {sid A B ep gen : Nat} {x y : Sig.Att} {ia dt : Nat} {h : Half} (hx : x.call = ia) :
    Sig.activePair (mkSess sid A B ep gen x y) (mkCall ia A B sid dt h) = some (x, y) := by
  unfold Sig.activePair
  rw [mkCall_isA, mkSess_sides]
  simp [hx]

theorem getSCall_set_ne {srv : Sig.State} {c : Sig.SCall} {x : Nat} (h : x ≠ c.id) :
    Sig.getSCall (Sig.setSCall srv c) x = Sig.getSCall srv x := by
  rw [SigSess.getSCall_setSCall, if_neg h]

theorem getSess_set_ne {srv : Sig.State} {t : Sig.Sess} {x : Nat} (h : x ≠ t.sid) :
    Sig.getSess (Sig.setSess srv t) x = Sig.getSess srv x := by
  rw [SigSess.getSess_setSess, if_neg h]

theorem getSess_set_same {srv : Sig.State} {t t0 : Sig.Sess} (h : Sig.getSess srv t.sid = some t0) :
    Sig.getSess (Sig.setSess srv t) t.sid = some t := by
  rw [SigSess.getSess_setSess, h]; simp

section
variable {srv : Sig.State} {A B ia ib : Nat} {p : PState} {sid dtA dtB : Nat}

/-- the reader of side x stops (`readerDone := true`) -/
theorem SrvView.readerDone (h : SrvView srv A B ia ib p sid dtA dtB) :
    SrvView (Sig.setSCall srv { mkCall ia A B sid dtA p.x with readerDone := true }) A B ia ib
      { p with x := { p.x with rd := true } } sid dtA dtB := by
  refine ⟨?_, ?_, h.ss, h.xa, h.ya, h.ne, h.nei⟩
  · exact SigSess.getSCall_setSCall_self (c' := { mkCall ia A B sid dtA p.x with readerDone := true }) h.ca
  · rw [getSCall_set_ne (by exact h.nei.symm)]; exact h.cb

/-- the session tracker is rewritten -/
theorem SrvView.setSess (h : SrvView srv A B ia ib p sid dtA dtB) (x' y' : Sig.Att) (gen' : Nat)
    (hx : x'.call = ia) (hy : y'.call = ib) :
    SrvView (Sig.setSess srv (mkSess sid A B p.ep gen' x' y')) A B ia ib
      { p with x := { p.x with att := x' }, y := { p.y with att := y' }, gen := gen' } sid dtA dtB := by
  refine ⟨h.ca, h.cb, ?_, hx, hy, h.ne, h.nei⟩
  have := getSess_set_same (t := mkSess sid A B p.ep gen' x' y') (srv := srv) (by rw [mkSess_sid]; exact h.ss)
  rw [mkSess_sid] at this
  exact this

theorem SrvView.acc (h : SrvView srv A B ia ib p sid dtA dtB) (a : List (Nat × Nat × Nat × Sig.Msg × Bool × Nat)) :
    SrvView { srv with accepted := a } A B ia ib p sid dtA dtB :=
  ⟨h.ca, h.cb, h.ss, h.xa, h.ya, h.ne, h.nei⟩

theorem srv_send (h : SrvView srv A B ia ib p sid dtA dtB) (e : Nat) (m : SigC.Msg) :
    SrvView (Sig.sSend srv ia e (toSrvMsg m) true A) A B ia ib (relayReq p (.send e m)) sid dtA dtB := by
  have hc := h.ca
  have hs := h.ss
  have hadm : (!Sig.admitOk true A (mkCall ia A B sid dtA p.x).src) = false := by simp [Sig.admitOk]
  unfold Sig.sSend
  simp only [hc, hadm, mkCall_sess, hs, mkSess_seqno, activePair_mk h.xa, relayReq, Bool.false_eq_true, if_false]
  by_cases h1 : p.ep < e
  · rw [if_pos h1, if_pos h1]; exact h.readerDone
  · rw [if_neg h1, if_neg h1]
    by_cases h2 : p.ep ≠ e
    · rw [if_pos h2, if_pos h2]; exact h
    · rw [if_neg h2, if_neg h2]
      rw [mkCall_isA, mkSess_setSides, mkSess_bcast]
      have := h.setSess p.x.att { p.y.att with recv := some (toSrvMsg m), recvSent := none } (p.gen + 1) h.xa h.ya
      exact this.acc _

theorem srv_ack (h : SrvView srv A B ia ib p sid dtA dtB) (e k : Nat) :
    SrvView (Sig.sAck srv ia e k) A B ia ib (relayReq p (.ack e k)) sid dtA dtB := by
  have hc := h.ca
  have hs := h.ss
  unfold Sig.sAck
  simp only [hc, mkCall_sess, hs, mkSess_seqno, activePair_mk h.xa, relayReq]
  by_cases h1 : p.ep < e
  · rw [if_pos h1, if_pos h1]; exact h.readerDone
  · rw [if_neg h1, if_neg h1]
    by_cases h2 : p.ep ≠ e
    · rw [if_pos h2, if_pos h2]; exact h
    · rw [if_neg h2, if_neg h2]
      by_cases h3 : p.x.att.recvSent = some k
      · rw [if_pos h3, if_pos h3]
        rw [mkCall_isA, mkSess_setSides, mkSess_bcast]
        exact h.setSess { p.x.att with recvSent := none } { p.y.att with outAcked := some k } (p.gen + 1) h.xa h.ya
      · rw [if_neg h3, if_neg h3]; exact h

theorem srv_clear (h : SrvView srv A B ia ib p sid dtA dtB) (e k : Nat) :
    SrvView (Sig.sClear srv ia e k) A B ia ib (relayReq p (.clear e k)) sid dtA dtB := by
  have hc := h.ca
  have hs := h.ss
  unfold Sig.sClear
  simp only [hc, mkCall_sess, hs, mkSess_seqno, activePair_mk h.xa, relayReq]
  by_cases h1 : p.ep < e
  · rw [if_pos h1, if_pos h1]; exact h.readerDone
  · rw [if_neg h1, if_neg h1]
    by_cases h2 : p.ep ≠ e
    · rw [if_pos h2, if_pos h2]; exact h
    · rw [if_neg h2, if_neg h2]
      by_cases h3 : (p.y.att.recv.map (·.seqno)) = some k
      · rw [if_pos h3, if_pos h3]
        rw [mkCall_isA, mkSess_setSides]
        exact h.setSess p.x.att { p.y.att with recv := none } p.gen h.xa h.ya
      · rw [if_neg h3, if_neg h3]
        by_cases h4 : p.y.att.recvSent = some k
        · rw [if_pos h4, if_pos h4]
          rw [mkCall_isA, mkSess_setSides]
          exact h.setSess p.x.att { p.y.att with recvSent := none, recvClear := some k } p.gen h.xa h.ya
        · rw [if_neg h4, if_neg h4]; exact h

theorem SrvView.setBoth (h : SrvView srv A B ia ib p sid dtA dtB) (hx' : Half) (y' : Sig.Att) (gen' : Nat)
    (hx : hx'.att.call = ia) (hy : y'.call = ib) :
    SrvView (Sig.setSCall (Sig.setSess srv (mkSess sid A B p.ep gen' hx'.att y')) (mkCall ia A B sid dtA hx')) A B ia ib
      { p with x := hx', y := { p.y with att := y' }, gen := gen' } sid dtA dtB := by
  have h1 := h.setSess hx'.att y' gen' hx hy
  refine ⟨?_, ?_, h1.ss, hx, hy, h.ne, h.nei⟩
  · exact SigSess.getSCall_setSCall_self (c' := mkCall ia A B sid dtA hx') h1.ca
  · rw [getSCall_set_ne (by exact h.nei.symm)]; exact h1.cb

theorem SrvView.setCall (h : SrvView srv A B ia ib p sid dtA dtB) (hx' : Half) (hx : hx'.att = p.x.att) :
    SrvView (Sig.setSCall srv (mkCall ia A B sid dtA hx')) A B ia ib { p with x := hx' } sid dtA dtB := by
  refine ⟨?_, ?_, ?_, ?_, h.ya, h.ne, h.nei⟩
  · exact SigSess.getSCall_setSCall_self (c' := mkCall ia A B sid dtA hx') h.ca
  · rw [getSCall_set_ne (by exact h.nei.symm)]; exact h.cb
  · show Sig.getSess srv sid = some (mkSess sid A B p.ep p.gen hx'.att p.y.att)
    rw [hx]; exact h.ss
  · show hx'.att.call = ia
    rw [hx]; exact h.xa

theorem srv_loop (h : SrvView srv A B ia ib p sid dtA dtB) :
    SrvView (Sig.sLoop srv ia) A B ia ib
      { p with x := { p.x with att := loopAtt p.x.att, wait := p.gen, ann := some p.ep,
                               box := p.x.box ++ loopOut p.x.ann p.ep p.x.att },
               gen := if p.x.att.recv.isSome then p.gen + 1 else p.gen } sid dtA dtB := by
  have hc := h.ca
  have hs := h.ss
  have hxa := h.xa
  have hu : (p.x.att.call != ia) = false := by simp [hxa]
  unfold Sig.sLoop
  simp only [hc, mkCall_sess, hs, mkCall_isA, mkSess_sides, hu, Option.isSome_some, if_true, Option.isNone_some,
    mkSess_seqno, mkSess_gen, mkSess_setSides, Bool.false_eq_true, if_false]
  have hb : ∀ (c : Prop) [Decidable c] (x' y' : Sig.Att),
      (if c then (mkSess sid A B p.ep p.gen x' y').bcast else mkSess sid A B p.ep p.gen x' y') =
        mkSess sid A B p.ep (if c then p.gen + 1 else p.gen) x' y' := by
    intro c _ x' y'; split <;> simp [mkSess_bcast]
  rw [hb]
  exact h.setBoth { p.x with att := loopAtt p.x.att, wait := p.gen, ann := some p.ep,
                               box := p.x.box ++ loopOut p.x.ann p.ep p.x.att } p.y.att _ h.xa h.ya

theorem srv_loop_enabled (h : SrvView srv A B ia ib p sid dtA dtB) :
    Sig.enabled srv (.loop ia) = true ↔ (p.x.box = [] ∧ p.x.wait < p.gen) := by
  simp only [Sig.enabled, h.ca, mkCall_sess, h.ss, Sig.SCall.awake, mkSess_gen]
  simp [mkCall, List.isEmpty_iff]
  intro _; exact ⟨of_decide_eq_true, decide_eq_true⟩

theorem srv_rx_enabled (h : SrvView srv A B ia ib p sid dtA dtB) :
    (∀ e m v g, Sig.enabled srv (.send ia e m v g) = !p.x.rd) ∧ (∀ e k, Sig.enabled srv (.ack ia e k) = !p.x.rd) ∧
    (∀ e k, Sig.enabled srv (.clear ia e k) = !p.x.rd) := by
  refine ⟨?_, ?_, ?_⟩ <;> intros <;> simp only [Sig.enabled, h.ca] <;> rfl

theorem srv_tx (h : SrvView srv A B ia ib p sid dtA dtB) {r : Sig.Resp} {rest : List Sig.Resp}
    (hb : p.x.box = r :: rest) :
    Sig.enabled srv (.send_ ia r) = true ∧
    SrvView (Sig.step srv (.send_ ia r)) A B ia ib { p with x := { p.x with box := rest } } sid dtA dtB := by
  have hout : (mkCall ia A B sid dtA p.x).outbox = r :: rest := hb
  have e : Sig.sTx srv ia r = some (Sig.setSCall srv (mkCall ia A B sid dtA { p.x with box := rest })) := by
    unfold Sig.sTx
    simp only [h.ca, hout, if_true]
    rfl
  refine ⟨by simp [Sig.enabled, e], ?_⟩
  show SrvView ((Sig.sTx srv ia r).getD srv) _ _ _ _ _ _ _ _
  rw [e, Option.getD_some]
  exact h.setCall _ rfl
end
end SigPair
end Bifrost
