import Bifrost.Lemmas.Envelope
import Mathlib.LinearAlgebra.Lagrange
/-!
Shamir secret sharing over an arbitrary field, and the model's `polyEval` / `lagrangeEval` /
`recover` (CIRCL `secretsharing`) instantiated with the operations of a Mathlib `Field`.
-/
namespace Bifrost
namespace Envelope
open Polynomial

/-- **Shamir recovery, any field**: a polynomial of degree ≤ t is recovered at 0 by Lagrange
interpolation through any t+1 distinct nodes. -/
theorem shamir_recover {K : Type} [Field K] [DecidableEq K] (p : K[X]) (t : ℕ) (hp : p.natDegree ≤ t)
    (ids : Finset K) (hc : ids.card = t + 1) (x : K) :
    (Lagrange.interpolate ids id (fun i => p.eval i)).eval x = p.eval x := by
  have hdeg : p.degree < ids.card := by
    rw [hc]
    calc p.degree ≤ (p.natDegree : WithBot ℕ) := Polynomial.degree_le_natDegree
      _ ≤ (t : WithBot ℕ) := by exact_mod_cast hp
      _ < ((t + 1 : ℕ) : WithBot ℕ) := by exact_mod_cast Nat.lt_succ_self t
  have h := Lagrange.eq_interpolate_of_eval_eq (s := ids) (v := id) (r := fun i => p.eval i) (f := p)
    (Set.injOn_id _) hdeg (fun i _ => rfl)
  rw [← h]

/-- The model's scalar operations for a Mathlib field with a byte codec. -/
def fieldScalars (K : Type) [Field K] (dec : Bytes → Option K) (enc : K → Bytes) : Scalars K where
  decode := dec
  encode := enc
  ofNat := fun n => (n : K)
  zero := 0
  one := 1
  add := fun a b => a + b
  sub := fun a b => a - b
  mul := fun a b => a * b
  inv := fun a => a⁻¹

section
variable {K : Type} [Field K] [DecidableEq K] (dec : Bytes → Option K) (enc : K → Bytes)

/-- the polynomial with the given coefficients (ascending) -/
noncomputable def listPoly : List K → K[X]
  | [] => 0
  | c :: cs => C c + X * listPoly cs

theorem polyEval_eq (cs : List K) (x : K) :
    polyEval (fieldScalars K dec enc) cs x = (listPoly cs).eval x := by
  induction cs with
  | nil => simp [polyEval, listPoly, fieldScalars]
  | cons c cs ih =>
    have : polyEval (fieldScalars K dec enc) (c :: cs) x =
        polyEval (fieldScalars K dec enc) cs x * x + c := rfl
    rw [this, ih]
    simp [listPoly]
    ring

theorem listPoly_natDegree_le : ∀ (cs : List K), (listPoly cs).natDegree ≤ cs.length - 1
  | [] => by simp [listPoly]
  | [c] => by simp [listPoly]
  | c :: d :: cs => by
    have ih := listPoly_natDegree_le (d :: cs)
    have h1 : (X * listPoly (d :: cs)).natDegree ≤ 1 + (listPoly (d :: cs)).natDegree :=
      le_trans Polynomial.natDegree_mul_le (Nat.add_le_add_right Polynomial.natDegree_X_le _)
    have h2 : (C c + X * listPoly (d :: cs)).natDegree ≤ max (C c : K[X]).natDegree (X * listPoly (d :: cs)).natDegree :=
      Polynomial.natDegree_add_le _ _
    rw [Polynomial.natDegree_C] at h2
    show (C c + X * listPoly (d :: cs)).natDegree ≤ _
    simp only [List.length_cons] at ih ⊢
    omega

theorem listPoly_eval_zero (c : K) (cs : List K) : (listPoly (c :: cs)).eval 0 = c := by
  simp [listPoly]

theorem prodOver_eq (f : K → K) (l : List K) :
    prodOver (fieldScalars K dec enc) f l = (l.map f).prod := by
  induction l with
  | nil => rfl
  | cons a l ih =>
    have : prodOver (fieldScalars K dec enc) f (a :: l) = f a * prodOver (fieldScalars K dec enc) f l := rfl
    rw [this, ih]; simp

theorem baseRatio_eq (others : List K) (hnd : others.Nodup) (a x0 : K) (ha : a ∉ others) :
    baseRatio (fieldScalars K dec enc) others a x0 =
      (Lagrange.basis (insert a others.toFinset) id a).eval x0 := by
  have hb : Lagrange.basis (insert a others.toFinset) id a =
      ∏ b ∈ others.toFinset, Lagrange.basisDivisor a b := by
    unfold Lagrange.basis
    rw [Finset.erase_insert (by simpa using ha)]
    rfl
  rw [hb, Polynomial.eval_prod]
  have he : ∀ b, (Lagrange.basisDivisor a b).eval x0 = (a - b)⁻¹ * (x0 - b) := by
    intro b
    simp [Lagrange.basisDivisor]
  simp only [he]
  rw [Finset.prod_mul_distrib, Finset.prod_inv_distrib]
  unfold baseRatio
  rw [prodOver_eq, prodOver_eq]
  rw [← List.prod_toFinset _ hnd, ← List.prod_toFinset _ hnd]
  show (∏ b ∈ others.toFinset, (x0 - b)) * (∏ b ∈ others.toFinset, (a - b))⁻¹ = _
  rw [mul_comm]

theorem lagrangeTerms_eq (r : K → K) (x0 : K) : ∀ (rest before : List K), (before ++ rest).Nodup →
    lagrangeTerms (fieldScalars K dec enc) x0 before (rest.map (fun x => (x, r x))) =
      ∑ a ∈ rest.toFinset, r a * (Lagrange.basis (before ++ rest).toFinset id a).eval x0 := by
  intro rest
  induction rest with
  | nil => intro before _; rfl
  | cons a rest ih =>
    intro before hnd
    have hnd' : (before ++ [a] ++ rest).Nodup := by
      have : (before ++ [a] ++ rest).Perm (before ++ a :: rest) := by simp
      exact this.nodup_iff.mpr hnd
    have hset : (before ++ [a] ++ rest).toFinset = (before ++ a :: rest).toFinset := by
      ext; simp
    have ha_rest : a ∉ rest := by
      have := (List.nodup_append.mp hnd).2.1
      exact (List.nodup_cons.mp this).1
    have ha_before : a ∉ before := by
      intro hm
      exact (List.nodup_append.mp hnd).2.2 a hm a (by simp) rfl
    have hothers : (before ++ rest).Nodup := by
      have : (before ++ rest).Sublist (before ++ a :: rest) :=
        List.Sublist.append_left (List.sublist_cons_self a rest) before
      exact hnd.sublist this
    have hins : (before ++ a :: rest).toFinset = insert a (before ++ rest).toFinset := by
      ext; simp
    have hstep : lagrangeTerms (fieldScalars K dec enc) x0 before ((a :: rest).map (fun x => (x, r x))) =
        r a * baseRatio (fieldScalars K dec enc) (before ++ rest) a x0 +
          lagrangeTerms (fieldScalars K dec enc) x0 (before ++ [a]) (rest.map (fun x => (x, r x))) := by
      have hm : (rest.map (fun x => (x, r x))).map (fun x : K × K => x.1) = rest := by
        simp [Function.comp_def]
      simp only [List.map_cons, lagrangeTerms, hm]
      rfl
    rw [hstep, ih (before ++ [a]) hnd', hset]
    rw [List.toFinset_cons, Finset.sum_insert (by simpa using ha_rest)]
    have hnot : a ∉ before ++ rest := by simp [ha_before, ha_rest]
    rw [baseRatio_eq dec enc (before ++ rest) hothers a x0 hnot, hins]

theorem lagrangeEval_eq (r : K → K) (xs : List K) (hnd : xs.Nodup) (x0 : K) :
    lagrangeEval (fieldScalars K dec enc) (xs.map (fun x => (x, r x))) x0 =
      (Lagrange.interpolate xs.toFinset id r).eval x0 := by
  unfold lagrangeEval
  rw [lagrangeTerms_eq dec enc r x0 xs [] (by simpa using hnd)]
  rw [Lagrange.interpolate_apply, Polynomial.eval_finsetSum]
  simp

/-- **`secretsharing.Recover` returns the secret**: any list of more than `t` shares lying on a
polynomial with `t+1` coefficients, with pairwise distinct IDs, recovers the constant term. -/
theorem recover_on_poly (secret : K) (cs : List K) (t : ℕ) (hcs : cs.length = t)
    (l : List (K × K)) (hl : ∀ s ∈ l, s.2 = polyEval (fieldScalars K dec enc) (secret :: cs) s.1)
    (hnd : (l.map (·.1)).Nodup) (hlen : t < l.length) :
    recover (fieldScalars K dec enc) t l = .ok secret := by
  unfold recover
  rw [if_neg (by omega)]
  set pts := l.take (t + 1) with hpts
  have hsub : (pts.map (·.1)).Sublist (l.map (·.1)) := (List.take_sublist _ _).map _
  have hnd' : (pts.map (·.1)).Nodup := hnd.sublist hsub
  have hlen' : (pts.map (·.1)).length = t + 1 := by
    simp [hpts, List.length_take]; omega
  simp only [(allDifferent_iff_nodup _).mpr hnd', ↓reduceIte]
  have hform : pts = (pts.map (·.1)).map (fun x => (x, (listPoly (secret :: cs)).eval x)) := by
    rw [List.map_map]
    conv_lhs => rw [← List.map_id pts]
    apply List.map_congr_left
    intro s hs
    have := hl s (List.mem_of_mem_take hs)
    rw [polyEval_eq] at this
    simp only [id, Function.comp]
    rw [← this]
  rw [hform, lagrangeEval_eq dec enc _ _ hnd']
  have hdeg : (listPoly (secret :: cs)).natDegree ≤ t := by
    have h := listPoly_natDegree_le (secret :: cs)
    simp only [List.length_cons, hcs] at h
    omega
  have hz : (fieldScalars K dec enc).zero = 0 := rfl
  rw [hz, shamir_recover _ t hdeg _ (by rw [List.toFinset_card_of_nodup hnd', hlen']), listPoly_eval_zero]

end

end Envelope
end Bifrost
