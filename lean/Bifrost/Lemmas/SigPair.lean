import Bifrost.Model.SigSys
/-!
The "stable pair" machine used by the C23 liveness proof: the part of the composed signaling
system `Bifrost.SigSys` that concerns two client trackers `a = (A → B)` and `b = (B → A)` while
both stay attached to the relay (no connect / disconnect / relay-side teardown for these two).

It is a *projection*, not a new model: every component step is the step function of the
component models (`SigC.step`, `SigC.txLoop`, and the record-level content of the relay handlers
`sSend`, `sAck`, `sClear`, `sLoop`, `sTx`). `Lemmas/SigPairSim.lean` proves that along a stable
suffix the composed system moves exactly like this machine (`SigSys.step` on the view of the two
clients = `SigPair.step` on the projected state, other events leave the view unchanged).

One `Half` = one client tracker, its stream pair, the relay's `SCall` for it and the relay's
attachment record for it (the `Att` holds what is stored FOR this side: `recv`, `recvSent`,
`recvClear` are messages travelling towards this side; `outAcked` is an ack for this side).
-/
namespace Bifrost
namespace SigPair
open Bifrost.SigSys

structure Half where
  cl : SigC.State := {}
  up : List SigC.Req := []       -- c2s (oldest first)
  dn : List Sig.Resp := []       -- s2c (oldest first)
  att : Sig.Att                  -- relay: the attachment record of this side
  wait : Nat := 0                -- SCall.waitGen
  ann : Option Nat := none       -- SCall.announced
  box : List Sig.Resp := []      -- SCall.outbox
  rd : Bool := false             -- SCall.readerDone

structure PState where
  x : Half
  y : Half
  gen : Nat                      -- Sess.gen
  ep : Nat                       -- Sess.seqno (the session epoch; constant on a stable suffix)

def PState.swap (p : PState) : PState := { p with x := p.y, y := p.x }

@[simp] theorem swap_swap (p : PState) : p.swap.swap = p := rfl
@[simp] theorem swap_x (p : PState) : p.swap.x = p.y := rfl
@[simp] theorem swap_y (p : PState) : p.swap.y = p.x := rfl
@[simp] theorem swap_gen (p : PState) : p.swap.gen = p.gen := rfl
@[simp] theorem swap_ep (p : PState) : p.swap.ep = p.ep := rfl

/-- the internal actions of one side -/
inductive Act where
  | sendStart (m : SigC.Msg)
  | sendStep (id : Nat)
  | recvStep
  | tx          -- clientTx
  | rx          -- clientRx
  | srvRx
  | srvLoop
  | srvTx
deriving Repr, DecidableEq

/-- the tracker processes one response (`SigSys.step … (.clientRx …)`) -/
def rxEv (r : Sig.Resp) (st : SigC.State) : SigC.State :=
  match r with
  | .opened e => SigC.step st (.opened e)
  | .closed => SigC.step st .close
  | .ack k => SigC.step st (.ackMsg k)
  | .clear k => SigC.step st (.clearMsg k)
  | .recv m => SigC.step st (.recvMsg (toCliMsg m) true true)
  | .setPeer _ | .clearPeer _ => st

def guarded (st : SigC.State) (e : SigC.Ev) : SigC.State := if SigC.enabled st e then SigC.step st e else st

/-- the relay's reader of side x processes request `r` (already popped from `x.up`):
record-level content of `sSend` / `sAck` / `sClear` with `activePair = (x.att, y.att)`. -/
def relayReq (p : PState) (r : SigC.Req) : PState :=
  match r with
  | .send e m =>
    if p.ep < e then { p with x := { p.x with rd := true } }
    else if p.ep ≠ e then p
    else { p with y := { p.y with att := { p.y.att with recv := some (toSrvMsg m), recvSent := none } }, gen := p.gen + 1 }
  | .ack e k =>
    if p.ep < e then { p with x := { p.x with rd := true } }
    else if p.ep ≠ e then p
    else if p.x.att.recvSent = some k then
      { p with x := { p.x with att := { p.x.att with recvSent := none } },
               y := { p.y with att := { p.y.att with outAcked := some k } }, gen := p.gen + 1 }
    else p
  | .clear e k =>
    if p.ep < e then { p with x := { p.x with rd := true } }
    else if p.ep ≠ e then p
    else if (p.y.att.recv.map (·.seqno)) = some k then
      { p with y := { p.y with att := { p.y.att with recv := none } } }
    else if p.y.att.recvSent = some k then
      { p with y := { p.y with att := { p.y.att with recvSent := none, recvClear := some k } } }
    else p

/-- what one iteration of the write loop stores back into the attachment (`sLoop`) -/
def loopAtt (o : Sig.Att) : Sig.Att :=
  { o with recv := none, recvClear := none, outAcked := none,
           recvSent := (match o.recv with | some m => some m.seqno | none => o.recvSent) }

/-- the responses one iteration of the write loop decides to send (`sLoop`, partner attached) -/
def loopOut (ann : Option Nat) (ep : Nat) (o : Sig.Att) : List Sig.Resp :=
  (if ann ≠ some ep then [Sig.Resp.opened ep] else [])
    ++ (match o.outAcked with | some k => [Sig.Resp.ack k] | none => [])
    ++ (match o.recvClear with | some k => [Sig.Resp.clear k] | none => [])
    ++ (match o.recv with | some m => [Sig.Resp.recv m] | none => [])

/-- one step of side x -/
def stepX (p : PState) : Act → PState
  | .sendStart m => { p with x := { p.x with cl := guarded p.x.cl (.sendStart m) } }
  | .sendStep id => { p with x := { p.x with cl := guarded p.x.cl (.sendStep id) } }
  | .recvStep => { p with x := { p.x with cl := SigC.step p.x.cl .recvStep } }
  | .tx =>
    let r := SigC.txLoop p.x.cl
    { p with x := { p.x with cl := r.1, up := p.x.up ++ r.2.toList } }
  | .rx =>
    match p.x.dn with
    | r :: rest => { p with x := { p.x with cl := rxEv r p.x.cl, dn := rest } }
    | [] => p
  | .srvRx =>
    if p.x.rd then p else
    match p.x.up with
    | r :: rest => relayReq { p with x := { p.x with up := rest } } r
    | [] => p
  | .srvLoop =>
    if p.x.box = [] ∧ p.x.wait < p.gen then
      { p with x := { p.x with att := loopAtt p.x.att, wait := p.gen, ann := some p.ep,
                               box := p.x.box ++ loopOut p.x.ann p.ep p.x.att },
               gen := if p.x.att.recv.isSome then p.gen + 1 else p.gen }
    else p
  | .srvTx =>
    match p.x.box with
    | r :: rest => { p with x := { p.x with box := rest, dn := p.x.dn ++ [r] } }
    | [] => p

/-- one step of the pair: `(true, a)` = side x acts, `(false, a)` = side y acts -/
def step (p : PState) (sa : Bool × Act) : PState :=
  if sa.1 then stepX p sa.2 else (stepX p.swap sa.2).swap

theorem step_swap (p : PState) (sd : Bool) (a : Act) : (step p (sd, a)).swap = step p.swap (!sd, a) := by
  cases sd <;> simp [step]

end SigPair
end Bifrost
